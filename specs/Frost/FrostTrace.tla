---- MODULE FrostTrace ----
(* Trace validation for dkg.runFrostParallel (harness/c11).  One trace = one ceremony.  The executor logs an event
   only after the stimulated node has reached its next transport call (or returned), so the effects of a stimulus
   are complete when it is logged:
     {"ev":"Reset","sid":k,"n":n,"t":t,"V":nv,"p":p,"mode":"mem"|"p2p"}
     {"ev":"Start","i":i,"c":[[coef]*t per validator],"ok":b,"casts":[[v,src,tgt]..],"p2p":[[v,src,tgt]..],
                   "ncomm":[distinct commitment counts],"feld":b,"ids":b}
           node i entered transport Round1.  c = the model WITNESS polynomials (chosen by the schedule; the real node
           draws its own 255-bit ones); casts / p2p = the msgKeys it handed over; feld = every handed share verifies
           (kryptology FeldmanVerifier.Verify) against the commitments cast for the same validator; ids = every share
           carries the id of its target
     {"ev":"D1C"|"D1P"|"D2","i":i,"j":j[,"ok":b]}   modes mem, cb: the transport delivers i's batch to j (cb: the real
                                               callback returned without error)
     {"ev":"RD","i":i,"j":j,"k":"c1"|"c2"|"p1","ok":b}   mode cb: a batch j already received is handed to its
                                               callback AGAIN (same message id, same signed content)
     {"ev":"Ret1","j":j,"ok":b,"casts":[..]}   j's Round1 call answered; ok = j entered transport Round2; its msgKeys
     {"ev":"Ret2","j":j,"ok":b,"pskeys":[[keys of PublicShares] per result]}   j's Round2 answered; j returned
     {"ev":"Check", "gkeq":[b per v], "pseq":[b per v], "own":[[b per v] per node],
                    "subs":[{"v":v,"S":[..],"rec":b,"psig":b,"sig":b,"same":b}..], "below":[{"v":v,"S":[..],"sig":b}..]}
           relations between the n results computed with real tbls calls (view = the results of node S[1]):
           gkeq/pseq  all nodes hold the same group key / the same public shares for result position v
           own        SecretToPublicKey(own secret share) = own PublicShares[node]
           rec        RecoverPubkey(public shares of S) = group key
           psig       every member's partial signature verifies under its public share
           sig        ThresholdAggregate(partials of S) verifies under the group key;   same: equals that of the
                      first listed subset of v
           below      the same for subsets of t-1 members
   The spec DEMANDS the model's value of every logged relation.  Latitude: a "below" relation is only demanded when
   the witness's joint polynomial has degree exactly t-1 (otherwise the small field makes t-1 points suffice).
   Mode full (thorough tier): one complete in-process dkg.Run ceremony; Reset carries the witness polynomials "c" of all
   nodes, the model runs the ceremony silently in canonical order, then
     {"ev":"Full","run":[dkg.Run returned nil per node],"hashes":[lock.VerifyHashes ok per node],
                  "sigs":[lock.VerifySignatures ok per node],"samelock":b,"deposit":b}
           is demanded: an honest ceremony completes; the lock's aggregate signature is made of every node's partial
           per validator, verified against the public shares (PartialsOK over all nodes); the deposit signatures are
           threshold aggregates of all partials (SigOK over all nodes); every node writes the same lock
     followed by Check over (lock public shares, keystore secret shares).
   Mode cb: every node runs the REAL frostP2P (newFrostP2P: newBcastCallback / newP2PCallback / Round1 / Round2) and the
   real reliable-broadcast component; only the wire below is the executor's: cast messages are captured and handed to
   the addressed node's real bcast server handler (signature check, then the frost callback) when the schedule says,
   share batches travel over loopback libp2p streams that are parked in front of the real stream handler until the
   schedule releases them.  A re-delivered batch must leave the node's state untouched: the model's Redeliver changes
   nothing, so a node that leaves a round with a duplicate in place of a missing peer's cast ends with results the
   Check relations (gkeq, pseq, own, rec, sig) or Ret2.pskeys expose.
   Mode cb, failing sends: {"ev":"Fault","i":i,"r":r,"what":"p2p"|"sig"|"msg","k":k,"err":e,"where":w,"times":m}  the wire is
   armed: the k-th direct share stream node i opens in round 1 (what = p2p; where = open: NewStream fails, = write: the
   batch is written and THEN the write reports the error), or the k-th signature request (sig) / cast message (msg) of
   its round-r reliable broadcast, fails m times in a row with a libp2p stream reset / resource-scope-closed error (the
   class p2p.IsRelayError accepts) or a plain error.  Only i, r are bound (Fault(i, r)); the rest tells the executor
   which send.  The node whose send failed may give up: its Start / Ret1 / Ret2 event then carries ok = false and an
   "Abort" event ends the trace (StartAbort / Ret1Abort / Ret2Abort: only a node with a failed send may).  If it
   carries on, everything is demanded as in a ceremony without faults.  In the modes that run the real frostP2P, Ret1
   also carries "used" / "usedp": the sources of the round-1 casts / share batches the real transport Round1 RETURNED
   (the keys of its result maps) -- the model's used1 (= every node) and got1p are demanded.
   Every event of mode cb is logged when the stimulated node is quiescent (parked in the receive loop of its transport
   call, or the call has returned): the real node has consumed everything it was given before the next move is made.
   Mode p2p: deliveries are the real network's and are not logged: the model delivers every sent batch at once
   (silent, canonical order, before the next event) -- sound, because results do not depend on the delivery order
   (FrostMC, free order) and a node whose real Round1/Round2 call was answered has received everything. *)
EXTENDS Frost, TraceCommon
tvars == <<vars, tr, l>>
R == Trace[1]
P2P == R.mode = "p2p"
FULL == R.mode = "full"
TraceInit == TrInit /\ InitWith(R.n, R.t, R.V, R.p)
H == 2                                                         \* the message hash of the model's signatures

Pend1C == {m \in Nodes \X Nodes : m[1] # m[2] /\ phase[m[1]] # "idle" /\ m[1] \notin got1c[m[2]]}
Pend1P == {m \in Nodes \X Nodes : m[1] # m[2] /\ phase[m[1]] # "idle" /\ m[1] \notin got1p[m[2]]}
Pend2 == {m \in Nodes \X Nodes : m[1] # m[2] /\ phase[m[1]] \in {"r2", "done"} /\ m[1] \notin got2[m[2]]}
MinPair(S) == CHOOSE m \in S : \A o \in S : m[1] * 100 + m[2] <= o[1] * 100 + o[2]
NetDue == (P2P \/ FULL) /\ (Pend1C \cup Pend1P \cup Pend2) # {}
Idle == {i \in Nodes : phase[i] = "idle"}
CanRet1 == {j \in Nodes : phase[j] = "r1" /\ Barrier1(j)}
CanRet2 == {j \in Nodes : phase[j] = "r2" /\ got2[j] = Nodes}
Min(S) == CHOOSE m \in S : \A o \in S : m <= o
AutoDue == FULL /\ ~NetDue /\ (Idle \cup CanRet1 \cup CanRet2) # {}
Quiet == ~NetDue /\ ~AutoDue
TAuto == /\ AutoDue /\ Silent
         /\ IF Idle # {} THEN Start(Min(Idle), [v \in Vals |-> R.c[Min(Idle)][v + 1]])
            ELSE IF CanRet1 # {} THEN Ret1(Min(CanRet1)) ELSE Ret2(Min(CanRet2))
TNet == /\ NetDue /\ Silent
        /\ IF Pend1C # {} THEN Deliver1C(MinPair(Pend1C)[1], MinPair(Pend1C)[2])
           ELSE IF Pend1P # {} THEN Deliver1P(MinPair(Pend1P)[1], MinPair(Pend1P)[2])
           ELSE Deliver2(MinPair(Pend2)[1], MinPair(Pend2)[2])

KeySet(s) == {<<k[1], k[2], k[3]>> : k \in SeqToSet(s)}
\* a logged observation must equal the model's value; the name of the first one that does not is reported
Rel(name, pred) == CheckInv(name, pred)
TReset == IsEvent("Reset") /\ l = 1 /\ UNCHANGED vars
CB == R.mode = "cb"
TFault == IsEvent("Fault") /\ CB /\ Ev.i \in Nodes /\ Fault(Ev.i, Ev.r)
\* the node gave up inside its round-1 send step: only after a failed send
TStartA == /\ IsEvent("Start") /\ ~FULL /\ Quiet /\ Ev.i \in Nodes /\ ~Ev.ok
           /\ Len(Ev.c) = par.nv
           /\ StartAbort(Ev.i, [v \in Vals |-> Ev.c[v + 1]])
TStart == /\ IsEvent("Start") /\ ~FULL /\ Quiet /\ Ev.i \in Nodes
          /\ Len(Ev.c) = par.nv
          /\ (Ev.ok \/ 1 \notin flt[Ev.i])      \* (ok = false without a failed send: no alternative, Start.ok is reported)
          /\ Start(Ev.i, [v \in Vals |-> Ev.c[v + 1]])
          /\ Rel("Start.ok", Ev.ok)
          /\ Rel("Start.casts", KeySet(Ev.casts) = {<<v, Ev.i, 0>> : v \in Vals})
          /\ Rel("Start.p2p", KeySet(Ev.p2p) = {<<v, Ev.i, j>> : v \in Vals, j \in Nodes \ {Ev.i}})
          /\ Rel("Start.ncomm", SeqToSet(Ev.ncomm) = {Len(c1'[Ev.i][v]) : v \in Vals})
          /\ Rel("Start.feld", Ev.feld = \A v \in Vals, j \in Nodes \ {Ev.i} : FeldmanOK(c1'[Ev.i][v], p1'[Ev.i][j][v]))
          /\ Rel("Start.ids", Ev.ids = \A v \in Vals, j \in Nodes \ {Ev.i} : p1'[Ev.i][j][v].id = j)
Wire == ~P2P /\ ~FULL /\ Ev.i \in Nodes /\ Ev.j \in Nodes
DOk == Has(Ev, "ok") => Rel("Deliver.ok", Ev.ok)
TD1C == IsEvent("D1C") /\ Wire /\ Deliver1C(Ev.i, Ev.j) /\ DOk
TD1P == IsEvent("D1P") /\ Wire /\ Deliver1P(Ev.i, Ev.j) /\ DOk
TD2 == IsEvent("D2") /\ Wire /\ Deliver2(Ev.i, Ev.j) /\ DOk
TRD == IsEvent("RD") /\ Wire /\ Ev.k \in Kinds /\ Redeliver(Ev.i, Ev.j, Ev.k) /\ Rel("Redeliver.ok", Ev.ok)
TRet1 == /\ IsEvent("Ret1") /\ Quiet /\ Ev.j \in Nodes /\ Ret1(Ev.j)
         /\ (Ev.ok \/ flt[Ev.j] = {})
         /\ Rel("Ret1.ok", Ev.ok = (phase'[Ev.j] = "r2"))
         /\ Rel("Ret1.casts", Ev.ok => KeySet(Ev.casts) = {<<v, Ev.j, 0>> : v \in Vals})
         /\ Rel("Ret1.used", Has(Ev, "used") => SeqToSet(Ev.used) = used1'[Ev.j] /\ SeqToSet(Ev.usedp) = got1p[Ev.j])
TRet1A == IsEvent("Ret1") /\ Quiet /\ Ev.j \in Nodes /\ ~Ev.ok /\ Ret1Abort(Ev.j)
TRet2A == IsEvent("Ret2") /\ Quiet /\ Ev.j \in Nodes /\ ~Ev.ok /\ Ret2Abort(Ev.j)
\* a node gave up after a failed send: the ceremony has aborted, the trace ends
TAbort == IsEvent("Abort") /\ l = TLen /\ SomeAborted /\ UNCHANGED vars
TRet2 == /\ IsEvent("Ret2") /\ Quiet /\ Ev.j \in Nodes /\ Ret2(Ev.j)
         /\ (Ev.ok \/ flt[Ev.j] = {})
         /\ Rel("Ret2.ok", Ev.ok = (phase'[Ev.j] = "done"))
         /\ ((\A k \in Nodes : phase'[k] = "done") => Trace[TLen].ev = "Check")   \* a completed ceremony is examined
         /\ Rel("Ret2.results", Len(Ev.pskeys) = par.nv)
         /\ Rel("Ret2.pskeys", \A v \in Vals : SeqToSet(Ev.pskeys[v + 1]) = DOMAIN res'[Ev.j][v].ps)
\* the witness's joint polynomial of validator v has degree exactly t-1
Generic(v) == LeadSum(v) # 0
TCheck == /\ IsEvent("Check") /\ l = TLen /\ Quiet /\ AllDone /\ UNCHANGED vars
          /\ Len(Ev.gkeq) = par.nv /\ Len(Ev.pseq) = par.nv /\ Len(Ev.own) = par.n
          /\ Rel("Check.gkeq", \A v \in Vals : Ev.gkeq[v + 1] = GkEq(v))
          /\ Rel("Check.pseq", \A v \in Vals : Ev.pseq[v + 1] = PsEq(v))
          /\ Rel("Check.own", \A j \in Nodes : Len(Ev.own[j]) = par.nv /\ \A v \in Vals : Ev.own[j][v + 1] = Own(j, v))
          /\ \A v \in Vals : \E x \in DOMAIN Ev.subs : Ev.subs[x].v = v         \* every validator was examined
          /\ \A x \in DOMAIN Ev.subs :
               LET e == Ev.subs[x]  S == SeqToSet(e.S)  k == e.S[1]
                   x0 == CHOOSE y \in DOMAIN Ev.subs : Ev.subs[y].v = e.v /\ \A z \in DOMAIN Ev.subs : Ev.subs[z].v = e.v => y <= z
               IN /\ e.v \in Vals /\ S \subseteq Nodes /\ Cardinality(S) = par.t /\ Len(e.S) = par.t
                  /\ Rel("Check.rec", e.rec = RecPk(k, e.v, S))
                  /\ Rel("Check.psig", e.psig = PartialsOK(k, e.v, S, H))
                  /\ Rel("Check.sig", e.sig = SigOK(k, e.v, S, H))
                  /\ Rel("Check.same", e.same = (AggSig(e.v, S, H) = AggSig(e.v, SeqToSet(Ev.subs[x0].S), H)))
          /\ \A x \in DOMAIN Ev.below :
               LET e == Ev.below[x]  S == SeqToSet(e.S)  k == e.S[1]
               IN /\ e.v \in Vals /\ S \subseteq Nodes /\ Cardinality(S) = par.t - 1
                  /\ Rel("Check.below", Generic(e.v) => e.sig = SigOK(k, e.v, S, H))
AllTrue(s) == \A x \in DOMAIN s : s[x]
TFull == /\ IsEvent("Full") /\ FULL /\ Quiet /\ AllDone /\ UNCHANGED vars
         /\ Len(Ev.run) = par.n /\ Len(Ev.hashes) = par.n /\ Len(Ev.sigs) = par.n
         /\ Rel("Full.run", AllTrue(Ev.run)) /\ Rel("Full.hashes", AllTrue(Ev.hashes))
         /\ Rel("Full.sigs", AllTrue(Ev.sigs) = \A v \in Vals, k \in Nodes : PartialsOK(k, v, Nodes, H) /\ RecPk(k, v, 1..par.t))
         /\ Rel("Full.samelock", Ev.samelock = \A v \in Vals : GkEq(v) /\ PsEq(v))
         /\ Rel("Full.deposit", Ev.deposit = \A v \in Vals, k \in Nodes : SigOK(k, v, Nodes, H))
\* a p2p / full ceremony cut short by the real network's wall-clock timeouts: the recorded prefix stands, no verdict on the rest
TStop == IsEvent("Stop") /\ l = TLen /\ UNCHANGED vars
TraceNext == TReset \/ TNet \/ TAuto \/ TFull \/ TFault \/ TStart \/ TStartA \/ TRet1A \/ TRet2A \/ TAbort \/ TD1C \/ TD1P \/ TD2 \/ TRD \/ TRet1 \/ TRet2 \/ TCheck \/ TStop
TraceSpec == TraceInit /\ [][TraceNext]_tvars
Mark == /\ CheckInv("TypeOK", TypeOK) /\ CheckInv("NoFailure", NoFailure) /\ CheckInv("ThresholdIsT", ThresholdIsT)
        /\ CheckInv("Agreement", Agreement) /\ CheckInv("KeyedByShareIdx", KeyedByShareIdx)
        /\ CheckInv("OwnShareMatches", OwnShareMatches) /\ CheckInv("GroupKeyIsSum", GroupKeyIsSum)
        /\ CheckInv("CountsDistinct", CountsDistinct) /\ CheckInv("UsedAllCasts", UsedAllCasts)
        /\ HWMark
ActOK == /\ CheckInv("RedeliveryNoEffect", redel' # redel =>
                       UNCHANGED <<par, phase, poly, c1, p1, c2, got1c, got1p, got2, cnt1, cnt2, flt, used1, sk, vk, res>>)
         /\ CheckInv("BarrierComplete", \A j \in Nodes : LeavesComplete(j))
====
