SPECIFICATION TraceSpec
CONSTANTS Variant = "ok"
CONSTRAINT Mark
ACTION_CONSTRAINT ActOK
POSTCONDITION Report
CHECK_DEADLOCK FALSE
