SPECIFICATION MCSpec
CONSTANTS Variant = "ok"
 MCP = 7
 MCN = 3
 MCTs = {2, 3}
 MCVs = {1, 2}
 PolyMode = "few"
 OrderMode = "free"
INVARIANTS TypeOK NoFailure ThresholdIsT Agreement KeyedByShareIdx OwnShareMatches GroupKeyIsSum AnyTRecover AnyTSign BelowThresholdSafe
CHECK_DEADLOCK TRUE
