SPECIFICATION GenSpec
CONSTANTS Variant = "ok"
 GenP = 11
 MinN = 3
 MaxN = 4
 MaxV = 2
 MaxRedel = 2
 MaxFault = 1
INVARIANTS Emit
CHECK_DEADLOCK FALSE
