---- MODULE FrostGen ----
(* Schedule generation: behaviours of the design spec recorded in the history variable `hist`: the ceremony's
   parameters (n, t, V; p = the field of the model witness) and the ENVIRONMENT's moves -- which node starts when
   (with the model polynomials it picks: a witness that only the trace spec uses, the real node draws its own), which
   batch the transport delivers when, and when a node that holds all inputs of a round gets its transport call
   answered, (MaxRedel > 0) which already delivered batch the transport delivers AGAIN, and (MaxFault > 0) which node's
   send step of which round is hit by a FAILING send (the concrete send and error are drawn by checks/c11.py).  What the
   nodes compute is the implementation's business -- including whether a node whose send failed gives up (the recorded
   trace then ends there) or tries again: the schedule continues as the transport contract allows for a node that
   carries on.  Printed when every node has its result.
   Run with -simulate (the polynomials are drawn with RandomElement). *)
EXTENDS Frost, Json
CONSTANTS GenP, MinN, MaxN, MaxV, MaxRedel, MaxFault
VARIABLE hist
GenInit == \E n \in MinN..MaxN, nv \in 1..MaxV : \E t \in 2..n :
             /\ InitWith(n, t, nv, GenP)
             /\ hist = <<[ev |-> "Cfg", n |-> n, t |-> t, V |-> nv, p |-> GenP]>>
NFault == Cardinality({x \in Nodes \X {1, 2} : x[2] \in flt[x[1]]})
RandPoly == [v \in Vals |-> [k \in 1..par.t |-> RandomElement(Zp)]]
AsSeq(c) == [v \in 1..par.nv |-> c[v - 1]]
GenNext ==
  \/ \E i \in Nodes : LET c == RandPoly IN Start(i, c) /\ hist' = Append(hist, [ev |-> "Start", i |-> i, c |-> AsSeq(c)])
  \/ \E i, j \in Nodes : Deliver1C(i, j) /\ hist' = Append(hist, [ev |-> "D1C", i |-> i, j |-> j])
  \/ \E i, j \in Nodes : Deliver1P(i, j) /\ hist' = Append(hist, [ev |-> "D1P", i |-> i, j |-> j])
  \/ \E i, j \in Nodes : Deliver2(i, j) /\ hist' = Append(hist, [ev |-> "D2", i |-> i, j |-> j])
  \/ (redel < MaxRedel /\ \E i, j \in Nodes : \E k \in Kinds :
        Redeliver(i, j, k) /\ hist' = Append(hist, [ev |-> "RD", i |-> i, j |-> j, k |-> k]))
  \/ (NFault < MaxFault /\ \E i \in Nodes : \E r \in {1, 2} :
        Fault(i, r) /\ hist' = Append(hist, [ev |-> "Fault", i |-> i, r |-> r]))
  \/ \E j \in Nodes : Ret1(j) /\ hist' = Append(hist, [ev |-> "Ret1", j |-> j])
  \/ \E j \in Nodes : Ret2(j) /\ hist' = Append(hist, [ev |-> "Ret2", j |-> j])
GenSpec == GenInit /\ [][GenNext]_<<vars, hist>>
Emit == ~AllDone \/ PrintT("@@SCHED@@" \o ToJson(hist))
====
