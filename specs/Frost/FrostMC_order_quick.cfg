SPECIFICATION MCSpec
CONSTANTS Variant = "ok"
 MCP = 7
 MCN = 3
 MCTs = {2, 3}
 MCVs = {1}
 PolyMode = "few"
 MaxRedel = 0
 MaxFault = 0
 FaultNodes = {1, 2, 3}
 OrderMode = "free"
INVARIANTS TypeOK CountsDistinct NoFailure ThresholdIsT Agreement KeyedByShareIdx OwnShareMatches GroupKeyIsSum AnyTRecover AnyTSign BelowThresholdSafe
PROPERTIES RedeliveryNoEffect BarrierComplete
CHECK_DEADLOCK TRUE
