SPECIFICATION MCSpec
CONSTANTS Variant = "valperm"
 MCP = 7
 MCN = 3
 MCTs = {2}
 MCVs = {2}
 PolyMode = "few"
 OrderMode = "canon"
INVARIANTS TypeOK NoFailure ThresholdIsT Agreement KeyedByShareIdx OwnShareMatches GroupKeyIsSum AnyTRecover AnyTSign BelowThresholdSafe
CHECK_DEADLOCK TRUE
