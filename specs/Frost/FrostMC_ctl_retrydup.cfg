SPECIFICATION MCSpec
CONSTANTS Variant = "retrydup"
 MCP = 7
 MCN = 3
 MCTs = {2}
 MCVs = {1}
 PolyMode = "one"
 MaxRedel = 0
 MaxFault = 1
 FaultNodes = {1}
 OrderMode = "free"
INVARIANTS TypeOK UsedAllCasts
CHECK_DEADLOCK TRUE
