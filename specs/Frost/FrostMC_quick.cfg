SPECIFICATION MCSpec
CONSTANTS Variant = "ok"
 MCP = 5
 MCN = 3
 MCTs = {2}
 MCVs = {1}
 PolyMode = "most"
 OrderMode = "canon"
INVARIANTS TypeOK NoFailure ThresholdIsT Agreement KeyedByShareIdx OwnShareMatches GroupKeyIsSum AnyTRecover AnyTSign BelowThresholdSafe
CHECK_DEADLOCK TRUE
