SPECIFICATION MCSpec
CONSTANTS Variant = "ok"
 MCP = 7
 MCN = 5
 MCTs = {2, 3, 5}
 MCVs = {1, 2}
 PolyMode = "few"
 OrderMode = "canon"
INVARIANTS TypeOK NoFailure ThresholdIsT Agreement KeyedByShareIdx OwnShareMatches GroupKeyIsSum AnyTRecover AnyTSign BelowThresholdSafe
CHECK_DEADLOCK TRUE
