SPECIFICATION MCSpec
CONSTANTS Variant = "lastid"
 MCP = 7
 MCN = 3
 MCTs = {2}
 MCVs = {1}
 PolyMode = "one"
 MaxRedel = 1
 MaxFault = 0
 FaultNodes = {1, 2, 3}
 OrderMode = "free"
INVARIANTS TypeOK
PROPERTIES RedeliveryNoEffect BarrierComplete
CHECK_DEADLOCK TRUE
