SPECIFICATION MCSpec
CONSTANTS Variant = "ok"
 MCP = 7
 MCN = 4
 MCTs = {2, 3, 4}
 MCVs = {1, 2}
 PolyMode = "few"
 OrderMode = "eager"
INVARIANTS TypeOK NoFailure ThresholdIsT Agreement KeyedByShareIdx OwnShareMatches GroupKeyIsSum AnyTRecover AnyTSign BelowThresholdSafe
CHECK_DEADLOCK TRUE
