SPECIFICATION GenSpec
CONSTANTS Variant = "ok"
 GenP = 11
 MinN = 3
 MaxN = 6
 MaxV = 4
 MaxRedel = 0
 MaxFault = 0
INVARIANTS Emit
CHECK_DEADLOCK FALSE
