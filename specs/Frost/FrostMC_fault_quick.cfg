SPECIFICATION MCSpec
CONSTANTS Variant = "ok"
 MCP = 7
 MCN = 3
 MCTs = {2}
 MCVs = {1}
 PolyMode = "one"
 MaxRedel = 0
 MaxFault = 1
 FaultNodes = {1}
 OrderMode = "free"
INVARIANTS TypeOK CountsDistinct NoFailure ThresholdIsT Agreement KeyedByShareIdx OwnShareMatches GroupKeyIsSum AnyTRecover AnyTSign BelowThresholdSafe UsedAllCasts FinAgreement FinShareMatches FinReconstructs
PROPERTIES RedeliveryNoEffect BarrierComplete
CHECK_DEADLOCK TRUE
