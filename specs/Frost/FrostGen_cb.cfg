SPECIFICATION GenSpec
CONSTANTS Variant = "ok"
 GenP = 11
 MinN = 3
 MaxN = 4
 MaxV = 2
 MaxRedel = 4
 MaxFault = 0
INVARIANTS Emit
CHECK_DEADLOCK FALSE
