SPECIFICATION MCSpec
CONSTANTS
 Timeout = 10
 TieOrder = "registration"
 StopCtx = "shared"
 AsyncMode = "go"
 OnStartErr = "stop"
 StopDir = "asc"
 LateCheck = "panic"
 StartMenu <- SM_ctl
 StopMenu <- PM_ctl
 MaxS = 3
 MaxP = 1
 CancelTimes <- CT_m1_3
 LateSets <- NoLate
INVARIANTS Safety RegistrationOrderOnTies
CHECK_DEADLOCK FALSE
