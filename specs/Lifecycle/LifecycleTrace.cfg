SPECIFICATION TraceSpec
CONSTANTS
 Timeout = 10000
 TieOrder = "any"
 StopCtx = "shared"
 AsyncMode = "go"
 OnStartErr = "stop"
 StopDir = "asc"
 LateCheck = "panic"
CONSTRAINT Mark
POSTCONDITION Report
CHECK_DEADLOCK FALSE
