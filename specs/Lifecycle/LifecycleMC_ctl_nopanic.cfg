SPECIFICATION MCSpec
CONSTANTS
 Timeout = 10
 TieOrder = "any"
 StopCtx = "shared"
 AsyncMode = "go"
 OnStartErr = "stop"
 StopDir = "asc"
 LateCheck = "none"
 StartMenu <- SM_ctl
 StopMenu <- PM_ctl
 MaxS = 2
 MaxP = 2
 CancelTimes <- CT_m1_3
 LateSets <- SomeLate
INVARIANTS LateRule
CHECK_DEADLOCK FALSE
