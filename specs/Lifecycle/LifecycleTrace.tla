---- MODULE LifecycleTrace ----
(* Trace validation for app/lifecycle (harness/lifecycle).  One trace = one life cycle inside a testing/synctest bubble
   (virtual time, t = milliseconds since Run was called), events of all goroutines in the order they really happened:
     {"ev":"Reset","sid":..,"starts":[hook,..],"stops":[hook,..],"cancelAt":t,"lates":[{"at":t,"what":..},..]}
                                   the hooks as registered (registration order; Lifecycle.tla describes the record), the
                                   environment's plan
     {"ev":"Cancel","t":..}        the application context is cancelled (the event and the cancel are one critical section)
     {"ev":"Run","t":0}            Manager.Run is called
     {"ev":"Enter","kind":"start"|"stop","id":i,"t":..,"app":bool,"dl":t|-1,"late":..,"panicked":bool}
                                   the hook function of the i-th registered start / stop hook is entered: is its context
                                   derived from the application context, its deadline, and -- when the hook's script says
                                   so -- whether RegisterStart / RegisterStop called from inside the hook panicked
     {"ev":"Exit","kind":..,"id":i,"t":..,"res":"nil"|"err"|"canceled"|"ctxerr","cerr":""|"canceled"|"deadline"}
                                   it is about to return res; cerr = ctx.Err() at that moment
     {"ev":"Late","t":..,"what":"start"|"stop","panicked":bool}     a registration attempt by the environment
     {"ev":"Ret","t":..,"kind":"none"|"start"|"stop"|"timeout"|"type"|"other","id":i,"hk":..,"ord":o,"text":..}
                                   Run has returned: nil | wrapped error of start / stop hook i (hk: whose scripted error it
                                   carries; ord: the order named by its "hook" field) | shutdown timeout | unexpected type.
                                   Logged by the caller: a pure observation of `ret` (the return itself is a silent step)
     {"ev":"End","t":..}           the executor stops watching (t + 0.5 ms: never ties with anything)
   ({"ev":"Hang"}, {"ev":"Panic"} match nothing.)
   Not logged, inferred by TLC: the loop checks and `go` statements of Run's goroutine, which of several equal-order
   hooks the sorted slice holds first, when a failed hook's error was cached (decides which error is the first), when the
   shutdown context's timer fired relative to events of the same instant. *)
EXTENDS Lifecycle, TraceCommon
VARIABLE seen       \* the Ret event has been consumed
tvars == <<vars, tr, l, seen>>
R == Trace[1]
TraceInit == /\ TrInit /\ seen = FALSE
             /\ IF TLen >= 1 /\ Trace[1].ev = "Reset" THEN InitWith(R.starts, R.stops, R.cancelAt, R.lates) ELSE Init
Last(s) == s[Len(s)]
\* the event's timestamp is the model's present (a model that is behind may still Tick: no name for that)
Clock == Ev.t = now \/ (Ev.t < now /\ InvFail("HappenedEarlierThanPossible"))

Keep == UNCHANGED seen
TReset == IsEvent("Reset") /\ l = 1 /\ UNCHANGED vars /\ Keep
TCancel == IsEvent("Cancel") /\ EnvCancel /\ Clock /\ Keep
TRun == IsEvent("Run") /\ RunCall /\ Clock /\ Keep
TLate == /\ IsEvent("Late") /\ Clock /\ Keep
         /\ \E i \in DOMAIN lates : lates[i].what = Ev.what /\ EnvLate(i)
         /\ CheckInv("LateRegistrationPanics", Ev.panicked = Last(latelog').panicked)

EnterOK(s) == /\ Clock
              /\ CheckInv("HookContext", Ev.app = (s.ctx = "app") /\ Ev.dl = s.dl)
              /\ CheckInv("LateRegistrationPanics", Ev.late = "none" \/ Ev.panicked = Last(latelog').panicked)
TEnter ==
  /\ IsEvent("Enter") /\ Keep
  /\ CASE Ev.kind = "start" /\ Ev.id \in DOMAIN starts ->
            /\ Ev.late = starts[Ev.id].late
            /\ IF Async(Ev.id) THEN AsyncEnter(Ev.id) ELSE mpc = "call" /\ cur = Ev.id /\ CallSync
            /\ EnterOK(hs'[Ev.id])
       [] Ev.kind = "stop" /\ Ev.id \in DOMAIN stops ->
            /\ Ev.late = stops[Ev.id].late
            /\ CASE mpc \in {"init", "start", "call", "insync", "handle", "await"} /\ appDoneAt < 0 /\ ret.kind = "pending" ->
                      InvFail("StopHookBeforeShutdown")
                 [] OTHER -> StopCall(Ev.id)
            /\ EnterOK(hp'[Ev.id])
       [] OTHER -> FALSE

CtxState(s) == IF DoneAt(s.ctx) >= 0 THEN Cause(s.ctx) ELSE ""
TExit ==
  /\ IsEvent("Exit") /\ Clock /\ Keep
  /\ CASE Ev.kind = "start" /\ Ev.id \in DOMAIN starts ->
            /\ CheckInv("ContextState", Ev.cerr = CtxState(hs[Ev.id]))
            /\ IF Async(Ev.id) THEN AsyncExit(Ev.id, Ev.res) ELSE mpc = "insync" /\ cur = Ev.id /\ SyncExit(Ev.res)
       [] Ev.kind = "stop" /\ Ev.id \in DOMAIN stops ->
            /\ CheckInv("ContextState", Ev.cerr = CtxState(hp[Ev.id]))
            /\ mpc = "instop" /\ cur = Ev.id /\ StopExit(Ev.res)
       [] OTHER -> FALSE

\* Run has returned (Finish / CallBad happened: silent, their effects -- the deferred cancel of the start context -- may
\* show in other goroutines' events before the executor gets to log the result)
RetOK == CheckInv("RunResult", /\ Ev.kind = ret.kind
                               /\ ret.kind \in {"start", "stop"} => Ev.id = ret.id /\ Ev.hk = ret.kind
                               /\ ret.kind \in {"start", "stop", "timeout"} => Ev.ord = ret.ord)
TRet == /\ IsEvent("Ret") /\ ~seen /\ seen' = TRUE /\ UNCHANGED vars
        /\ CASE mpc \in {"start", "call"} /\ appDoneAt < 0 /\ ~(mpc = "call" /\ starts[cur].typ = "bad") -> InvFail("RunReturnedWhileStarting")
             [] mpc = "await" /\ appDoneAt < 0 -> InvFail("RunReturnedWithoutShutdown")
             [] mpc \in StopPcs /\ todoP # {} /\ stopDone = "none" -> InvFail("StopHooksSkipped")
             [] OTHER -> mpc = "done" /\ Clock /\ RetOK
\* nothing is due any more before the executor stopped watching
TEnd == /\ IsEvent("End") /\ mpc = "done" /\ seen /\ Keep /\ ~Busy /\ Ev.t >= now
        /\ CheckInv("EventMissingBeforeEnd", IF Future = {} THEN TRUE ELSE MinOf(Future) > Ev.t)
        /\ UNCHANGED vars

\* Which of several equal-order hooks the sorted slice holds next is not logged.  It shows in (a) which synchronous hook
\* is entered next -- the next Enter event of a synchronous hook names it -- and (b) whether and at which instant an
\* asynchronous hook was launched (it then enters at that very instant: it has an Enter event ahead).  The order in
\* which asynchronous hooks are launched within one instant shows nowhere; the log is ordered by time: launching them in
\* the order of their Enter events stands for every order that fits the trace.
Pos(h) == LET S == {i \in l..TLen : Trace[i].ev = "Enter" /\ Trace[i].kind = "start" /\ Trace[i].id = h}
          IN IF S = {} THEN 0 ELSE MinOf(S)
NextSync == LET S == {i \in l..TLen : Trace[i].ev = "Enter" /\ Trace[i].kind = "start" /\ Trace[i].id \in DOMAIN starts /\ ~Async(Trace[i].id)}
            IN IF S = {} THEN 0 ELSE Trace[MinOf(S)].id
Picks == LET C == NextOf(todoS, starts, "asc")
             A == {h \in C : Async(h) /\ Pos(h) > 0}
             B == {h \in C : starts[h].typ = "bad"}
         IN (IF A = {} THEN {} ELSE {CHOOSE h \in A : \A g \in A : Pos(h) <= Pos(g)})
            \cup (C \cap {NextSync}) \cup (IF B = {} THEN {} ELSE {MinOf(B)})
TTick == Tick /\ Silent /\ Keep /\ l <= TLen /\ Has(Ev, "t") /\ now' <= Ev.t
TSilent == /\ \/ LoopEnd \/ (\E h \in Picks : LoopPick(h)) \/ Launch \/ SyncHandle \/ Await \/ StopLoopEnd \/ HandleStop \/ Deadline \/ Finish \/ CallBad
              \/ \E h \in DOMAIN hs : AsyncHandle(h)
           /\ Silent /\ Keep
TraceNext == TReset \/ TCancel \/ TRun \/ TLate \/ TEnter \/ TExit \/ TRet \/ TEnd \/ TTick \/ TSilent
TraceSpec == TraceInit /\ [][TraceNext]_tvars
Mark == /\ CheckInv("TypeOK", TypeOK) /\ CheckInv("StartOrder", StartOrder) /\ CheckInv("SyncBarrier", SyncBarrier)
        /\ CheckInv("AsyncNotAwaited", AsyncNotAwaited) /\ CheckInv("AbortOnStartError", AbortOnStartError)
        /\ CheckInv("AppCtxClosed", AppCtxClosed) /\ CheckInv("StopOnlyInShutdown", StopOnlyInShutdown)
        /\ CheckInv("StopSequential", StopSequential) /\ CheckInv("StopAllOrHard", StopAllOrHard)
        /\ CheckInv("StopBudget", StopBudget) /\ CheckInv("ResultRule", ResultRule) /\ CheckInv("TypeErrRule", TypeErrRule)
        /\ CheckInv("LateRule", LateRule)
        /\ HWMark
====
