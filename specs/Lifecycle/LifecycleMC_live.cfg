SPECIFICATION FairSpec
CONSTANTS
 Timeout = 10
 TieOrder = "any"
 StopCtx = "shared"
 AsyncMode = "go"
 OnStartErr = "stop"
 StopDir = "asc"
 LateCheck = "panic"
 StartMenu <- SM_small
 StopMenu <- PM_small
 MaxS = 2
 MaxP = 1
 CancelTimes <- CT_m1_3
 LateSets <- NoLate
INVARIANTS Safety
PROPERTIES Terminates Quiesces
CHECK_DEADLOCK FALSE
