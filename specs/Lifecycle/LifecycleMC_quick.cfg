SPECIFICATION MCSpec
CONSTANTS
 Timeout = 10
 TieOrder = "any"
 StopCtx = "shared"
 AsyncMode = "go"
 OnStartErr = "stop"
 StopDir = "asc"
 LateCheck = "panic"
 StartMenu <- SM_quick
 StopMenu <- PM_quick
 MaxS = 2
 MaxP = 1
 CancelTimes <- CT_m1_0_3_50
 LateSets <- NoLate
INVARIANTS Safety BusyOK NoStale
CHECK_DEADLOCK FALSE
