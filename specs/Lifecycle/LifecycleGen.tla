---- MODULE LifecycleGen ----
(* Schedule generation (run with -simulate): behaviours of the design spec with the ENVIRONMENT's moves recorded in the
   history variable `hist` -- and nothing else:
     [ev |-> "Reg", kind |-> "start" | "stop", hook |-> [ord, typ, wait, d, res, late]]   RegisterStart / RegisterStop
                                                       before Run (the hook record is the script of the hook function)
     [ev |-> "Cancel", at |-> t]      the application context is cancelled at time t (-1: before Run is called)
     [ev |-> "Late", at |-> t, what |-> "start" | "stop"]   a registration attempt while / after Run runs
   Run is called at time 0 once `ns` start and `np` stop hooks are registered.  Between two moves the environment lets
   time pass (GWait: any amount that stops short of the next thing that is due, so that a cancel also lands in the middle
   of a sleeping hook; Tick of the design spec jumps to the next due instant).  `patience` keeps the cancel away for a
   number of steps, so that it hits the start phase, the waiting phase and -- after a start error -- the stop phase.
   What Run and the hook goroutines do in between is the implementation's business: not recorded. *)
EXTENDS Lifecycle, Json
CONSTANTS MaxS, MaxP, MaxLate, Ords, WithBad
VARIABLES hist, fin, ns, np, patience, n, nlate
gvars == <<vars, hist, fin, ns, np, patience, n, nlate>>

H(o, t, w, d, r, l) == [ord |-> o, typ |-> t, wait |-> w, d |-> d, res |-> r, late |-> l]
Lates == {"none", "none", "none", "start", "stop"}
StartMenu ==
  {H(o, "sync", "time", d, r, l) : o \in Ords, d \in {0, 1000}, r \in {"nil", "nil", "err", "canceled"}, l \in {"none", "start"}}
  \cup {H(o, "sync", "either", 500, "nil", "none") : o \in Ords}
  \cup {H(o, t, "time", d, r, "none") : o \in Ords, t \in {"async_app", "async_bg"}, d \in {0, 2000, 15000}, r \in {"nil", "err"}}
  \cup {H(o, t, "ctx", d, r, l) : o \in Ords, t \in {"async_app", "async_bg"}, d \in {0, 300}, r \in {"nil", "err", "canceled"}, l \in {"none", "stop"}}
  \cup {H(o, t, "either", d, r, "none") : o \in Ords, t \in {"async_app", "async_bg"}, d \in {800, 30000}, r \in {"nil", "err"}}
  \cup (IF WithBad THEN {H(o, "bad", "time", 0, "nil", "none") : o \in Ords} ELSE {})
StopMenu ==
  {H(o, "stop", "time", d, r, l) : o \in Ords, d \in {0, 4000, 7000, 12000}, r \in {"nil", "nil", "err", "canceled"}, l \in {"none", "start"}}
  \cup {H(o, "stop", "ctx", d, "nil", "none") : o \in Ords, d \in {0, 100}}
  \cup {H(o, "stop", "either", d, r, "none") : o \in Ords, d \in {3000, 20000}, r \in {"nil", "err"}}

GenInit == /\ Init /\ hist = <<>> /\ fin = FALSE /\ n = 0 /\ nlate = 0
           /\ ns \in 0..MaxS /\ np \in 0..MaxP /\ patience \in {0, 2, 4, 8, 12, 16, 24, 40}
Quiet == UNCHANGED <<hist, nlate>>
GReg ==
  /\ mpc = "init" /\ UNCHANGED nlate
  /\ \/ Len(starts) < ns /\ \E h \in StartMenu : RegisterEarly("start", h) /\ hist' = Append(hist, [ev |-> "Reg", kind |-> "start", hook |-> h])
     \/ Len(starts) = ns /\ Len(stops) < np /\ \E h \in StopMenu :
          RegisterEarly("stop", h) /\ hist' = Append(hist, [ev |-> "Reg", kind |-> "stop", hook |-> h])
Registered == Len(starts) = ns /\ Len(stops) = np
Stuck == ~Busy /\ Future = {} /\ mpc # "done"         \* nothing will ever happen unless the environment acts
GCancel ==
  /\ Registered /\ ~appCancelled /\ (n >= patience \/ Stuck)
  /\ appCancelled' = TRUE /\ CancelStart /\ cancelAt' = IF mpc = "init" THEN -1 ELSE now
  /\ hist' = Append(hist, [ev |-> "Cancel", at |-> cancelAt'])
  /\ UNCHANGED <<starts, stops, lates, now, mgr, stopDl, stopDone, stopDoneAt, hs, hp, latelog, nlate>>
GLate ==
  /\ started /\ now >= 1 /\ nlate < MaxLate
  /\ \E w \in {"start", "stop"} : latelog' = LateLog(0, w) /\ hist' = Append(hist, [ev |-> "Late", at |-> now, what |-> w])
  /\ nlate' = nlate + 1
  /\ UNCHANGED <<plan, now, mgr, ctxs, hs, hp>>
GWait ==
  /\ started /\ ~Busy /\ mpc # "done" /\ Quiet
  /\ \E dt \in {1, 499, 2500, 6000} : (IF Future = {} THEN TRUE ELSE now + dt < MinOf(Future)) /\ now' = now + dt
  /\ UNCHANGED <<plan, mgr, ctxs, hs, hp, latelog>>
GRun == Registered /\ (RunCall \/ (mpc # "init" /\ Next)) /\ Quiet
GenNext ==
  /\ ~fin /\ n' = n + 1 /\ UNCHANGED <<ns, np, patience>>
  /\ \/ (GReg \/ GCancel \/ GLate \/ GWait \/ GRun) /\ UNCHANGED fin
     \/ mpc = "done" /\ fin' = TRUE /\ UNCHANGED <<vars, hist, nlate>>
GenSpec == GenInit /\ [][GenNext]_gvars
Emit == ~fin \/ PrintT("@@SCHED@@" \o ToJson(hist))
====
