SPECIFICATION GenSpec
CONSTANTS
 Timeout = 10000
 TieOrder = "any"
 StopCtx = "shared"
 AsyncMode = "go"
 OnStartErr = "stop"
 StopDir = "asc"
 LateCheck = "panic"
 MaxS = 5
 MaxP = 4
 MaxLate = 2
 Ords = {1, 2, 3}
 WithBad = TRUE
INVARIANTS Emit
CHECK_DEADLOCK FALSE
