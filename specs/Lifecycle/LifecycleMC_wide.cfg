SPECIFICATION MCSpec
CONSTANTS
 Timeout = 10
 TieOrder = "any"
 StopCtx = "shared"
 AsyncMode = "go"
 OnStartErr = "stop"
 StopDir = "asc"
 LateCheck = "panic"
 StartMenu <- SM_full
 StopMenu <- PM_full
 MaxS = 2
 MaxP = 2
 CancelTimes <- CT_m1_0_2_3_50
 LateSets <- NoLate
INVARIANTS Safety BusyOK NoStale
CHECK_DEADLOCK FALSE
