---- MODULE Lifecycle ----
(* app/lifecycle (manager.go, hook.go, order.go): the life cycle manager that app.Run hands every component to.
   RegisterStart / RegisterStop collect hooks; Run sorts them by their order and calls runHooks: the start hooks in
   ascending order (SyncBackground: called in Run's goroutine; AsyncAppCtx / AsyncBackground: `go`), then waits until the
   start context is closed (application context cancelled, or a start hook failed), then the stop hooks in ascending
   order under ONE shutdown context with a 10 s timeout, then returns the first error that was cached.

   The module is a transcription, one action per critical section / loop iteration / goroutine step; time is explicit
   (milliseconds, testing/synctest semantics: the clock only moves when every goroutine is blocked -> `Tick` is enabled
   only when nothing else is, see Busy).

   A HOOK is a record  [ord, typ, wait, d, res, late]:
     ord    the OrderStart / OrderStop value it is registered with
     typ    (start hooks) "sync" SyncBackground | "async_app" AsyncAppCtx | "async_bg" AsyncBackground | "bad" (any
            other HookStartType value: RegisterStart accepts it, startAllHooks refuses it)
     wait, d, res   what the hook function does (the environment's script):
              "time"    sleeps d ignoring its context, returns res
              "ctx"     blocks until its context is done, then works for another d, returns res
              "either"  returns res after d, or ctx.Err() as soon as its context is done, whichever comes first
            res: "nil" | "err" (an error of its own) | "canceled" (an error wrapping context.Canceled)
     late   "none" | "start" | "stop": the hook function first calls RegisterStart / RegisterStop itself
   What is as coded and may surprise (each has a control configuration that shows the stricter reading is violated):
     * slices.SortFunc is not a stable sort: hooks of EQUAL order are called in any relative order (TieOrder = "any").
     * Run does not wait for the asynchronous start hooks, and the context of AsyncBackground hooks is never cancelled.
     * the stop hooks SHARE one shutdown context: a slow hook eats the budget of the later ones; after the deadline, and
       after a stop hook failed (that cancels the shutdown context), the remaining stop hooks are NOT called.
     * a SyncBackground hook is not interrupted by the application context: shutdown begins when it has returned.

   Switches (first value = as coded):  TieOrder "any" | "registration";  StopCtx "shared" | "each";  AsyncMode "go" |
   "await";  OnStartErr "stop" | "skip";  StopDir "asc" | "desc";  LateCheck "panic" | "none". *)
EXTENDS Integers, Sequences, FiniteSets, TLC
CONSTANTS Timeout, TieOrder, StopCtx, AsyncMode, OnStartErr, StopDir, LateCheck

VARIABLES starts, stops,    \* m.startHooks, m.stopHooks: registration order
          cancelAt,         \* the environment's plan: time of the application context's cancel (-1: before Run, -2: none planned)
          lates,            \* ... and its late registration attempts still to come: sequence of [at, what]
          now,
          mpc,              \* Run's goroutine: init start call insync handle await stop instop handlestop finish done
          cur,              \* the hook Run's goroutine is busy with (0: none)
          todoS, todoP,     \* start / stop hooks the loops have not reached yet
          started,          \* m.started
          shutAt,           \* when the shutdown context was made (-1: not yet)
          first,            \* the firstErr channel (capacity 1)
          ret,              \* what Run returned
          appCancelled, appDoneAt,          \* application context cancelled by the environment; startAppCtx done since
          stopDl, stopDone, stopDoneAt,     \* shutdown context: deadline, "none" | "deadline" | "canceled", done since
          hs, hp,           \* per start / stop hook: [st, at, res, ctx, dl, out]
          latelog           \* outcomes of registrations attempted after Run began
plan == <<starts, stops, cancelAt, lates>>
mgr == <<mpc, cur, todoS, todoP, started, shutAt, first, ret>>
ctxs == <<appCancelled, appDoneAt, stopDl, stopDone, stopDoneAt>>
vars == <<plan, now, mgr, ctxs, hs, hp, latelog>>

Max(a, b) == IF a >= b THEN a ELSE b
Min(a, b) == IF a <= b THEN a ELSE b
MinOf(S) == CHOOSE x \in S : \A y \in S : x <= y
MaxOf(S) == CHOOSE x \in S : \A y \in S : x >= y

Idle == [st |-> "idle", at |-> -1, res |-> "-", ctx |-> "-", dl |-> -1, out |-> "-"]
Entered(c, dl) == [st |-> "running", at |-> now, res |-> "-", ctx |-> c, dl |-> dl, out |-> "-"]
Empty == [kind |-> "empty", id |-> 0, ord |-> -1]
NoErr == [kind |-> "none", id |-> 0, ord |-> -1]
Pending == [kind |-> "pending", id |-> 0, ord |-> -1]
StartErr(h) == [kind |-> "start", id |-> h, ord |-> starts[h].ord]          \* errors.Wrap(err, "start hook", hook=label)
StopErr(p) == [kind |-> "stop", id |-> p, ord |-> stops[p].ord]             \* errors.Wrap(err, "stop hook", hook=label)
TimeoutErr(p) == [kind |-> "timeout", id |-> p, ord |-> stops[p].ord]       \* errors.New("shutdown timeout", hook=label)
TypeErr(h) == [kind |-> "type", id |-> h, ord |-> starts[h].ord]            \* errors.New("unexpected hook type")

InitWith(ss, ps, ca, ls) ==
  /\ starts = ss /\ stops = ps /\ cancelAt = ca /\ lates = ls
  /\ now = 0 /\ mpc = "init" /\ cur = 0 /\ todoS = {} /\ todoP = {} /\ started = FALSE /\ shutAt = -1
  /\ first = Empty /\ ret = Pending
  /\ appCancelled = FALSE /\ appDoneAt = -1 /\ stopDl = -1 /\ stopDone = "none" /\ stopDoneAt = -1
  /\ hs = [i \in DOMAIN ss |-> Idle] /\ hp = [i \in DOMAIN ps |-> Idle] /\ latelog = <<>>
Init == InitWith(<<>>, <<>>, -2, <<>>)

\* ------------------------------------------------------------------------------------------------ the hook functions
Async(h) == starts[h].typ \in {"async_app", "async_bg"} /\ AsyncMode = "go"
CtxOf(typ) == IF typ = "async_app" THEN "app" ELSE "bg"          \* startAppCtx | backgroundCtx (never closed)
DoneAt(c) == CASE c = "app" -> appDoneAt [] c = "stop" -> stopDoneAt [] OTHER -> -1
Cause(c) == IF c = "stop" THEN stopDone ELSE "canceled"          \* ctx.Err() of a context that is done
\* when the hook function returns, as things stand (-1: not before something else happens)
Wake(k, s) == LET da == DoneAt(s.ctx) IN
  CASE k.wait = "time" -> s.at + k.d
    [] k.wait = "ctx" -> IF da < 0 THEN -1 ELSE Max(s.at, da) + k.d
    [] OTHER -> IF da < 0 THEN s.at + k.d ELSE Min(s.at + k.d, Max(s.at, da))
\* ... and with what ("either": a select over ctx.Done() and the timer; both ready = either)
Results(k, s) == IF k.wait # "either" THEN {k.res}
                 ELSE (IF s.at + k.d <= now THEN {k.res} ELSE {}) \cup (IF DoneAt(s.ctx) >= 0 THEN {"ctxerr"} ELSE {})
\* err != nil && !errors.Is(err, context.Canceled)
Failing(r, c) == r = "err" \/ (r = "ctxerr" /\ Cause(c) = "deadline")

Cache(e) == first' = IF first = Empty THEN e ELSE first          \* select { case firstErr <- err: default: }
CancelStart == appDoneAt' = IF appDoneAt < 0 THEN now ELSE appDoneAt     \* cancel() of startAppCtx

\* RegisterStart / RegisterStop (under m.mu): `if m.started { panic("cycle already started") }`
LatePanics == LateCheck = "panic" /\ started
LateLog(who, what) == IF what = "none" THEN latelog ELSE Append(latelog, [who |-> who, what |-> what, panicked |-> LatePanics])
RegisterEarly(kind, h) ==
  /\ ~started
  /\ IF kind = "start" THEN starts' = Append(starts, h) /\ hs' = Append(hs, Idle) /\ UNCHANGED <<stops, hp>>
                       ELSE stops' = Append(stops, h) /\ hp' = Append(hp, Idle) /\ UNCHANGED <<starts, hs>>
  /\ UNCHANGED <<cancelAt, lates, now, mgr, ctxs, latelog>>
\* the environment tries to register while (or after) Run runs
EnvLate(i) ==
  /\ i \in DOMAIN lates /\ lates[i].at = now
  /\ latelog' = LateLog(0, lates[i].what)
  /\ lates' = [j \in 1..(Len(lates) - 1) |-> IF j < i THEN lates[j] ELSE lates[j + 1]]
  /\ UNCHANGED <<starts, stops, cancelAt, now, mgr, ctxs, hs, hp>>

\* the environment cancels the application context
CancelNow == appCancelled' = TRUE /\ CancelStart /\ UNCHANGED <<now, mgr, stopDl, stopDone, stopDoneAt, hs, hp, latelog>>
EnvCancel == ~appCancelled /\ (cancelAt = -1 \/ cancelAt = now) /\ CancelNow /\ UNCHANGED plan

\* ------------------------------------------------------------------------------------------------ Run: start phase
\* Manager.Run up to runHooks: m.started = true, copy, sort
RunCall ==
  /\ mpc = "init" /\ now = 0 /\ (cancelAt = -1 => appCancelled)
  /\ started' = TRUE /\ mpc' = "start" /\ todoS' = DOMAIN starts /\ todoP' = DOMAIN stops
  /\ UNCHANGED <<plan, now, cur, shutAt, first, ret, ctxs, hs, hp, latelog>>

\* which hook the sorted slice holds next: the least order; among equals any (slices.SortFunc is unstable)
NextOf(S, seq, dir) ==
  IF S = {} THEN {} ELSE
    LET os == {seq[i].ord : i \in S}
        best == IF dir = "asc" THEN MinOf(os) ELSE MaxOf(os)
        C == {i \in S : seq[i].ord = best}
    IN IF TieOrder = "any" THEN C ELSE {MinOf(C)}

\* `for _, h := range startHooks { if startAppCtx.Err() != nil { return nil }`: the loop is over / the next hook is h
LoopEnd ==
  /\ mpc = "start" /\ (todoS = {} \/ appDoneAt >= 0)
  /\ mpc' = "await" /\ cur' = 0
  /\ UNCHANGED <<plan, now, todoS, todoP, started, shutAt, first, ret, ctxs, hs, hp, latelog>>
LoopPick(h) ==
  /\ mpc = "start" /\ todoS # {} /\ appDoneAt < 0 /\ h \in NextOf(todoS, starts, "asc")
  /\ cur' = h /\ mpc' = "call"
  /\ UNCHANGED <<plan, now, todoS, todoP, started, shutAt, first, ret, ctxs, hs, hp, latelog>>
LoopCheck == LoopEnd \/ \E h \in todoS : LoopPick(h)
\* case SyncBackground: startHook(backgroundCtx, h, ..) -- the hook function is entered in Run's goroutine
CallSync ==
  /\ mpc = "call" /\ starts[cur].typ # "bad" /\ ~Async(cur)
  /\ hs' = [hs EXCEPT ![cur] = Entered(CtxOf(starts[cur].typ), -1)]
  /\ latelog' = LateLog(cur, starts[cur].late)
  /\ todoS' = todoS \ {cur} /\ mpc' = "insync"
  /\ UNCHANGED <<plan, now, cur, todoP, started, shutAt, first, ret, ctxs, hp>>
\* case AsyncAppCtx, AsyncBackground: go func(h hook) { startHook(..) }(h)
Launch ==
  /\ mpc = "call" /\ Async(cur)
  /\ hs' = [hs EXCEPT ![cur].st = "launched"]
  /\ todoS' = todoS \ {cur} /\ mpc' = "start" /\ cur' = 0
  /\ UNCHANGED <<plan, now, todoP, started, shutAt, first, ret, ctxs, hp, latelog>>
\* default: return errors.New("unexpected hook type") -- runHooks returns it at once (deferred cancel of startAppCtx);
\* no stop hook is called, hooks already started keep running
CallBad ==
  /\ mpc = "call" /\ starts[cur].typ = "bad"
  /\ ret' = TypeErr(cur) /\ mpc' = "done" /\ todoS' = todoS \ {cur} /\ CancelStart
  /\ UNCHANGED <<plan, now, cur, todoP, started, shutAt, first, appCancelled, stopDl, stopDone, stopDoneAt, hs, hp, latelog>>
\* the synchronous hook function returns ...
SyncExit(r) ==
  /\ mpc = "insync" /\ hs[cur].st = "running" /\ Wake(starts[cur], hs[cur]) = now /\ r \in Results(starts[cur], hs[cur])
  /\ IF Failing(r, hs[cur].ctx)
       THEN hs' = [hs EXCEPT ![cur].st = "exited", ![cur].res = r] /\ mpc' = "handle" /\ UNCHANGED cur
       ELSE hs' = [hs EXCEPT ![cur].st = "finished", ![cur].res = r] /\ mpc' = "start" /\ cur' = 0
  /\ UNCHANGED <<plan, now, todoS, todoP, started, shutAt, first, ret, ctxs, hp, latelog>>
\* ... with an error: cacheErr(errors.Wrap(err, "start hook")); cancel()
SyncHandle ==
  /\ mpc = "handle"
  /\ Cache(StartErr(cur)) /\ CancelStart
  /\ hs' = [hs EXCEPT ![cur].st = "finished"] /\ mpc' = "start" /\ cur' = 0
  /\ UNCHANGED <<plan, now, todoS, todoP, started, shutAt, ret, appCancelled, stopDl, stopDone, stopDoneAt, hp, latelog>>

\* the goroutine of an asynchronous start hook: enters the hook function, leaves it, handles its error
AsyncEnter(h) ==
  /\ hs[h].st = "launched"
  /\ hs' = [hs EXCEPT ![h] = Entered(CtxOf(starts[h].typ), -1)]
  /\ latelog' = LateLog(h, starts[h].late)
  /\ UNCHANGED <<plan, now, mgr, ctxs, hp>>
AsyncExit(h, r) ==
  /\ Async(h) /\ hs[h].st = "running" /\ Wake(starts[h], hs[h]) = now /\ r \in Results(starts[h], hs[h])
  /\ hs' = [hs EXCEPT ![h].st = IF Failing(r, hs[h].ctx) THEN "exited" ELSE "finished", ![h].res = r]
  /\ UNCHANGED <<plan, now, mgr, ctxs, hp, latelog>>
AsyncHandle(h) ==
  /\ Async(h) /\ hs[h].st = "exited"
  /\ Cache(StartErr(h)) /\ CancelStart
  /\ hs' = [hs EXCEPT ![h].st = "finished"]
  /\ UNCHANGED <<plan, now, mpc, cur, todoS, todoP, started, shutAt, ret, appCancelled, stopDl, stopDone, stopDoneAt, hp, latelog>>

\* ------------------------------------------------------------------------------------------------ Run: stop phase
\* <-startAppCtx.Done(); stopCtx, cancel := context.WithTimeout(context.Background(), 10s)
Await ==
  /\ mpc = "await" /\ appDoneAt >= 0
  /\ IF OnStartErr = "skip" /\ ~appCancelled
       THEN mpc' = "finish" /\ UNCHANGED <<shutAt, stopDl>>
       ELSE mpc' = "stop" /\ shutAt' = now /\ stopDl' = now + Timeout
  /\ UNCHANGED <<plan, now, cur, todoS, todoP, started, first, ret, appCancelled, appDoneAt, stopDone, stopDoneAt, hs, hp, latelog>>
\* `for _, hook := range stopHooks { if stopCtx.Err() != nil { break }`
StopLoopEnd ==
  /\ mpc = "stop" /\ (todoP = {} \/ stopDone # "none")
  /\ mpc' = "finish"
  /\ UNCHANGED <<plan, now, cur, todoS, todoP, started, shutAt, first, ret, ctxs, hs, hp, latelog>>
\* stopHook(stopCtx, hook, ..): the hook function is entered in Run's goroutine with the SHARED shutdown context
StopCall(p) ==
  /\ mpc = "stop" /\ stopDone = "none" /\ p \in NextOf(todoP, stops, StopDir)
  /\ stopDl' = IF StopCtx = "each" THEN now + Timeout ELSE stopDl
  /\ hp' = [hp EXCEPT ![p] = Entered("stop", stopDl')]
  /\ latelog' = LateLog(p, stops[p].late)
  /\ todoP' = todoP \ {p} /\ cur' = p /\ mpc' = "instop"
  /\ UNCHANGED <<plan, now, todoS, started, shutAt, first, ret, appCancelled, appDoneAt, stopDone, stopDoneAt, hs>>
StopExit(r) ==
  /\ mpc = "instop" /\ Wake(stops[cur], hp[cur]) = now /\ r \in Results(stops[cur], hp[cur])
  /\ hp' = [hp EXCEPT ![cur].st = "exited", ![cur].res = r] /\ mpc' = "handlestop"
  /\ UNCHANGED <<plan, now, cur, todoS, todoP, started, shutAt, first, ret, ctxs, hs, latelog>>
\* if errors.Is(stopCtx.Err(), context.DeadlineExceeded) { cacheErr("shutdown timeout") }
\* else if err != nil && !errors.Is(err, context.Canceled) { cacheErr(Wrap(err, "stop hook")); cancel() }
HandleStop ==
  /\ mpc = "handlestop"
  /\ IF stopDone = "deadline"
       THEN /\ Cache(TimeoutErr(cur)) /\ hp' = [hp EXCEPT ![cur].st = "finished", ![cur].out = "timeout"]
            /\ IF StopCtx = "each" THEN stopDone' = "none" /\ stopDoneAt' = -1 /\ stopDl' = -1
                                   ELSE UNCHANGED <<stopDone, stopDoneAt, stopDl>>
       ELSE IF Failing(hp[cur].res, "stop")
         THEN /\ Cache(StopErr(cur)) /\ hp' = [hp EXCEPT ![cur].st = "finished", ![cur].out = "err"]
              /\ stopDone' = "canceled" /\ stopDoneAt' = now /\ UNCHANGED stopDl
         ELSE /\ hp' = [hp EXCEPT ![cur].st = "finished", ![cur].out = "ok"]
              /\ UNCHANGED <<first, stopDone, stopDoneAt, stopDl>>
  /\ mpc' = "stop" /\ cur' = 0
  /\ UNCHANGED <<plan, now, todoS, todoP, started, shutAt, ret, appCancelled, appDoneAt, hs, latelog>>
\* the timer of the shutdown context
StopPcs == {"stop", "instop", "handlestop"}
Deadline ==
  /\ mpc \in StopPcs /\ stopDl >= 0 /\ now = stopDl /\ stopDone = "none"
  /\ stopDone' = "deadline" /\ stopDoneAt' = now
  /\ UNCHANGED <<plan, now, mgr, appCancelled, appDoneAt, stopDl, hs, hp, latelog>>
\* cacheErr(nil); return <-firstErr
Finish ==
  /\ mpc = "finish"
  /\ ret' = IF first = Empty THEN NoErr ELSE first
  /\ mpc' = "done"
  /\ UNCHANGED <<plan, now, cur, todoS, todoP, started, shutAt, first, ctxs, hs, hp, latelog>>

\* ------------------------------------------------------------------------------------------------ time
\* something can run at the present instant (no goroutine of the bubble is durably blocked / a timer is due)
Busy ==
  \/ mpc \in {"init", "start", "call", "handle", "stop", "handlestop", "finish"}
  \/ mpc = "await" /\ appDoneAt >= 0
  \/ mpc = "insync" /\ Wake(starts[cur], hs[cur]) = now
  \/ mpc = "instop" /\ Wake(stops[cur], hp[cur]) = now
  \/ \E h \in DOMAIN hs : \/ hs[h].st = "launched"
                          \/ Async(h) /\ hs[h].st = "exited"
                          \/ Async(h) /\ hs[h].st = "running" /\ Wake(starts[h], hs[h]) = now
  \/ mpc \in StopPcs /\ stopDl >= 0 /\ now = stopDl /\ stopDone = "none"
  \/ ~appCancelled /\ (cancelAt = -1 \/ cancelAt = now)
  \/ \E i \in DOMAIN lates : lates[i].at = now
Wakes == {Wake(starts[h], hs[h]) : h \in {i \in DOMAIN hs : hs[i].st = "running"}}
         \cup {Wake(stops[p], hp[p]) : p \in {i \in DOMAIN hp : hp[i].st = "running"}}
         \cup (IF ~appCancelled /\ cancelAt >= 0 THEN {cancelAt} ELSE {})
         \cup (IF mpc \in StopPcs /\ stopDone = "none" /\ stopDl >= 0 THEN {stopDl} ELSE {})
         \cup {lates[i].at : i \in DOMAIN lates}
Future == {w \in Wakes : w > now}
Tick ==
  /\ ~Busy /\ Future # {}
  /\ now' = MinOf(Future)
  /\ UNCHANGED <<plan, mgr, ctxs, hs, hp, latelog>>

Step == \/ RunCall \/ LoopCheck \/ CallSync \/ Launch \/ CallBad \/ SyncHandle \/ Await \/ StopLoopEnd \/ HandleStop
        \/ Deadline \/ Finish \/ EnvCancel \/ (\E i \in DOMAIN lates : EnvLate(i))
        \/ \E r \in {"nil", "err", "canceled", "ctxerr"} : SyncExit(r) \/ StopExit(r) \/ \E h \in DOMAIN hs : AsyncExit(h, r)
        \/ \E h \in DOMAIN hs : AsyncEnter(h) \/ AsyncHandle(h)
        \/ \E p \in DOMAIN hp : StopCall(p)
Next == Step \/ Tick

----
\* ------------------------------------------------------------------------------------------------ the contract
SIdle(h) == hs[h].st = "idle"
SOver(h) == hs[h].st \in {"exited", "finished"}
Shutdown == mpc \in StopPcs \cup {"finish", "done"}
Done == mpc = "done"

TypeOK ==
  /\ mpc \in {"init", "start", "call", "insync", "handle", "await", "stop", "instop", "handlestop", "finish", "done"}
  /\ todoS \subseteq DOMAIN starts /\ todoP \subseteq DOMAIN stops /\ DOMAIN hs = DOMAIN starts /\ DOMAIN hp = DOMAIN stops
  /\ stopDone \in {"none", "deadline", "canceled"} /\ first.kind \in {"empty", "start", "stop", "timeout"}
  /\ ret.kind \in {"pending", "none", "start", "stop", "timeout", "type"}
  /\ \A h \in DOMAIN hs : hs[h].st \in {"idle", "launched", "running", "exited", "finished"}
  /\ \A p \in DOMAIN hp : hp[p].st \in {"idle", "running", "exited", "finished"}

\* "The order defines the order in which hooks are called": a hook is only reached after every hook of lower order
StartOrder == \A a, b \in DOMAIN starts : starts[a].ord < starts[b].ord /\ ~SIdle(b) => ~SIdle(a)
\* a synchronous hook has returned before any hook of higher order is started
SyncBarrier == \A k, b \in DOMAIN starts :
                 starts[k].typ = "sync" /\ starts[k].ord < starts[b].ord /\ ~SIdle(b) => SOver(k)
\* an asynchronous hook is not waited for: Run's goroutine is never inside one
AsyncNotAwaited == mpc \in {"insync", "handle"} => starts[cur].typ = "sync"
\* "Any error from start hooks immediately triggers graceful shutdown": after a failed synchronous hook nothing else starts
AbortOnStartError == \A k, b \in DOMAIN starts :
                       starts[k].typ = "sync" /\ hs[k].st = "finished" /\ hs[k].res = "err" /\ starts[k].ord < starts[b].ord => SIdle(b)
\* the application contexts of the AsyncAppCtx hooks are closed before the first stop hook runs
AppCtxClosed == Shutdown => appDoneAt >= 0
\* stop hooks only run once shutdown was triggered, strictly one after the other, in ascending order
StopOnlyInShutdown == (\E p \in DOMAIN hp : hp[p].st # "idle") => appDoneAt >= 0 /\ Shutdown
StopSequential == /\ Cardinality({p \in DOMAIN hp : hp[p].st \in {"running", "exited"}}) <= 1
                  /\ \A a, b \in DOMAIN stops : stops[a].ord < stops[b].ord /\ hp[b].st # "idle" => hp[a].st = "finished"
\* "Closing application context / any error from start hooks triggers graceful shutdown": when Run returns every stop
\* hook has run -- unless the shutdown context expired or a stop hook failed ("hard shutdown")
StopAllOrHard == (Done /\ ret.kind # "type") => (\A p \in DOMAIN hp : hp[p].st = "finished") \/ stopDone # "none"
\* "Stop hooks ... use a shutdown context with 10s timeout": ONE budget from the moment shutdown began
StopBudget == \A p \in DOMAIN hp : hp[p].st # "idle" => hp[p].dl = shutAt + Timeout /\ hp[p].at <= shutAt + Timeout
\* what Run returns: nil unless a hook failed; an error names a hook that did fail in that way; a failed synchronous
\* start hook is never outranked by what happens during shutdown
ResultRule ==
  (Done /\ ret.kind # "type") =>
    /\ ret.kind = "start" => hs[ret.id].res = "err"
    /\ ret.kind = "stop" => hp[ret.id].out = "err"
    /\ ret.kind = "timeout" => hp[ret.id].out = "timeout"
    /\ ret.kind = "none" => /\ \A k \in DOMAIN starts : starts[k].typ = "sync" => hs[k].res # "err"
                            /\ \A p \in DOMAIN hp : hp[p].out \in {"-", "ok"}
    /\ (\E k \in DOMAIN starts : starts[k].typ = "sync" /\ hs[k].res = "err") => ret.kind = "start"
TypeErrRule == ret.kind = "type" => Done /\ starts[ret.id].typ = "bad" /\ \A p \in DOMAIN hp : hp[p].st = "idle"
\* "registering after Run started panics"
LateRule == \A i \in DOMAIN latelog : latelog[i].panicked

Safety == /\ TypeOK /\ StartOrder /\ SyncBarrier /\ AsyncNotAwaited /\ AbortOnStartError /\ AppCtxClosed /\ StopOnlyInShutdown
          /\ StopSequential /\ StopAllOrHard /\ StopBudget /\ ResultRule /\ TypeErrRule /\ LateRule

\* NOT invariants of the code as written (controls: TLC must find the counterexample)
RegistrationOrderOnTies == \A a, b \in DOMAIN starts : starts[a].ord = starts[b].ord /\ a < b /\ ~SIdle(b) => ~SIdle(a)
RunWaitsForAsync == Done => \A h \in DOMAIN hs : hs[h].st \in {"idle", "finished"}
====
