---- MODULE LifecycleMC ----
(* Exhaustive design check.  Every initial state is a CASE: up to MaxS start hooks and MaxP stop hooks drawn (with
   repetition, in every registration order) from a menu of hook shapes (order x type x script), the time of the
   application context's cancel (before Run, together with Run, while hooks run, long after), late registrations.
   Timeout is 10 abstract ticks; the scripts are sized around it (two stop hooks of 7 exceed the shared budget, 20
   outlasts it).  States = cases x positions of Run and of the hook goroutines.
   A SyncBackground hook that blocks until its context is done is left out of the menus: backgroundCtx is never closed,
   such a hook hangs Run for good (LifecycleMC_syncblock.cfg shows exactly that as a liveness counterexample). *)
EXTENDS Lifecycle
CONSTANTS StartMenu, StopMenu, MaxS, MaxP, CancelTimes, LateSets

S(o, t, w, d, r) == [ord |-> o, typ |-> t, wait |-> w, d |-> d, res |-> r, late |-> "none"]
P(o, w, d, r) == [ord |-> o, wait |-> w, d |-> d, res |-> r, late |-> "none"]
Shapes(os, ts) == {S(o, t[1], t[2], t[3], t[4]) : o \in os, t \in ts}
PShapes(os, ts) == {P(o, t[1], t[2], t[3]) : o \in os, t \in ts}

SM_small == Shapes({1, 2}, {<<"sync", "time", 2, "nil">>, <<"sync", "time", 2, "err">>, <<"async_app", "ctx", 1, "nil">>,
                            <<"async_app", "time", 3, "err">>, <<"async_bg", "either", 4, "nil">>})
SM_quick == SM_small \cup Shapes({1, 2}, {<<"async_bg", "time", 1, "canceled">>})
            \cup {S(1, "bad", "time", 0, "nil"), [S(2, "sync", "time", 1, "nil") EXCEPT !.late = "start"]}
SM_full == SM_quick \cup Shapes({1, 2}, {<<"sync", "either", 1, "canceled">>, <<"async_app", "either", 6, "err">>,
                                         <<"async_app", "ctx", 0, "err">>})
           \cup {[S(1, "async_app", "time", 0, "nil") EXCEPT !.late = "stop"]}
\* the shapes the controls need: a failing synchronous hook, asynchronous hooks that outlive their start, slow stop hooks
SM_ctl == {S(1, "sync", "time", 2, "err"), S(1, "sync", "time", 2, "nil"), S(1, "async_app", "ctx", 1, "nil"), S(2, "async_bg", "time", 3, "nil")}
PM_ctl == {P(1, "time", 7, "nil"), P(2, "time", 7, "nil"), P(1, "time", 2, "err")}
PM_small == PShapes({1, 2}, {<<"time", 1, "nil">>, <<"time", 7, "nil">>, <<"time", 2, "err">>})
PM_quick == PM_small \cup PShapes({1, 2}, {<<"either", 20, "nil">>})
PM_full == PM_quick \cup PShapes({1, 2}, {<<"ctx", 1, "nil">>, <<"time", 9, "canceled">>, <<"either", 3, "err">>})
           \cup {[P(2, "time", 0, "nil") EXCEPT !.late = "start"]}
\* a synchronous hook that waits for its context (control for the liveness property)
SM_syncblock == {S(1, "sync", "ctx", 1, "nil"), S(2, "async_app", "ctx", 0, "nil")}

NoLate == {<<>>}
SomeLate == {<<>>, <<[at |-> 1, what |-> "start"]>>, <<[at |-> 2, what |-> "stop"], [at |-> 30, what |-> "start"]>>}

CT_m1_0_2_3_50 == {-1, 0, 2, 3, 50}
CT_m1_0_3_50 == {-1, 0, 3, 50}
CT_m1_2_50 == {-1, 2, 50}
CT_m1_3 == {-1, 3}
CT_m1_3_50 == {-1, 3, 50}
SeqsUpTo(M, n) == UNION {[1..k -> M] : k \in 0..n}
MCInit == \E ss \in SeqsUpTo(StartMenu, MaxS), ps \in SeqsUpTo(StopMenu, MaxP), ca \in CancelTimes, ls \in LateSets :
            InitWith(ss, ps, ca, ls)
MCSpec == MCInit /\ [][Next]_vars
FairSpec == MCSpec /\ WF_vars(Next)

\* the hand-written enabling condition of Tick is the real one; no due wake-up is ever skipped
BusyOK == Busy <=> ENABLED Step
NoStale == \A w \in Wakes : w = -1 \/ w >= now
\* Run returns (the application context is cancelled at some point in every case)
Terminates == <>(mpc = "done")
\* ... and afterwards everything that can still happen is the asynchronous hooks running out
Quiesces == <>[](~ENABLED Next)
====
