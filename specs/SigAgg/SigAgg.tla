---- MODULE SigAgg ----
(* core/sigagg/sigagg.go (C09): Aggregator.Aggregate(ctx, duty, set) with set = validator |-> list of partials.

   As coded (AggMode = "code"):
     Aggregate:  for pubkey, parSigs := range set (Go map order) { signed, err := aggregate(parSigs); err -> return err
                 (nothing was handed to anybody); output[pubkey] = signed }; then every subscriber in turn gets a clone
                 of the complete output; return nil.
     aggregate:  len(parSigs) < threshold                      -> error
                 tblsconv.SigFromCore: length # 96              -> error
                 blsSigs[parSig.ShareIdx] = sig  (a repeated share index: the LAST one wins)
                 len(blsSigs) < threshold                       -> error
                 tbls.ThresholdAggregate(blsSigs)  over ALL entries of the map; undecodable signature -> error
                 fullSig = the first attestation carrying a ValidatorIndex, else parSigs[0].SignedData
                 aggSig = fullSig.SetSignature(aggregate);  verifyFunc(pubkey, aggSig) fails -> error
   One action per loop iteration (AggStep, Notify).

   Crypto abstraction (DESIGN.md section 3; the Lagrange fact is what ThresholdBLS.tla / C08 checks): a partial is
        [idx     share index it is filed under (ParSignedData.ShareIdx)
         by      share whose key made the signature (-1: a key outside the cluster)
         content "A" | "B": the SignedData the partial carries
         over    the content whose signing root the signature was made over
         dom     name of the signing domain used,  ep  "own" | "other": fork bucket of the epoch used
         form    "ok" | "trunc" (not 96 bytes) | "zero" (96 zero bytes) | "junk" (96 bytes that are no signature)
         vi      attestations only: the VC's copy, carrying the validator index]
   The threshold aggregate of a set E of partials with pairwise distinct idx is sum_k lambda_k * f(by_k) * H(msg_k)
   (lambda = the Lagrange coefficients at 0 of the share indices they are FILED under, f = the validator's sharing
   polynomial of degree T-1, msg_k = what partial k signed: content, domain, fork version).  It verifies under the group
   key for content c iff that sum is f(0) * H(c's own signing root) -- AlgValid(E, c) decides this EXACTLY, as an identity
   in the coefficients of f (generic keys, independent hashes; an outside key or an undecodable signature never
   cancels): per message class the functional sum lambda_k * ev(by_k) must be ev(0) for c's class and 0 for every other.
   For honest partials this is "at least T of them" (the Lagrange fact of C08); for SEVERAL misfiled partials made with
   cluster keys the errors can cancel -- e.g. T = 2, share 1 filed under 1 and share 2 filed under both 3 and 4:
   2 f(1) - 2 f(2) + f(2) = f(0), the genuine group signature (found by the seeded random generator, reproduced in
   harness/c09/repro_test.go).  The aggregator sees only the group key, so whether a list "contains an invalid share" is
   judged by what can be judged: no selection of one partial per share index combines to a valid signature.

   What the property demands of one validator's list (AggMode = "free", used by trace validation) is Allowed(ps):
     MustFail  too few; fewer than T distinct share indices; an invalid share that nothing else is filed over, or -- all
               indices distinct and every partial valid for what it carries -- disagreement on the content, PROVIDED no
               selection of one partial per index combines to a valid signature                              -> error
     AllOK     >= T, distinct indices, all valid, one content                       -> published, valid, that content
     otherwise (a repeated share index with >= T distinct ones left; a partial that carries one content but signs
               the other; misfiled partials whose errors cancel) the statement is silent: error, or a VALID object
               whose content >= T distinct shares signed / some selection combines to.
   AggMode / FailMode controls MUST violate the invariants:
     AggMode  "noverify"  aggregate without the final verification
     FailMode "partial"   a failing validator ends the loop but what was aggregated so far is handed out *)
EXTENDS Integers, Sequences, FiniteSets, TLC
CONSTANTS T, AggMode, FailMode
NSubs == 2

Types == {"attester", "proposer", "blinded", "exit", "randao", "registration", "selection", "aggregator",
          "syncmsg", "syncsel", "contribution"}
\* the signing domain and the epoch (fork version) each signed object type is signed with -- consensus-specs validator
\* guide / builder-specs; "slot": epoch of the object's slot, "none": the genesis fork version whatever the epoch
DomainOf == [attester |-> "DOMAIN_BEACON_ATTESTER", proposer |-> "DOMAIN_BEACON_PROPOSER",
             blinded |-> "DOMAIN_BEACON_PROPOSER", exit |-> "DOMAIN_VOLUNTARY_EXIT", randao |-> "DOMAIN_RANDAO",
             registration |-> "DOMAIN_APPLICATION_BUILDER", selection |-> "DOMAIN_SELECTION_PROOF",
             aggregator |-> "DOMAIN_AGGREGATE_AND_PROOF", syncmsg |-> "DOMAIN_SYNC_COMMITTEE",
             syncsel |-> "DOMAIN_SYNC_COMMITTEE_SELECTION_PROOF", contribution |-> "DOMAIN_CONTRIBUTION_AND_PROOF"]
EpochSrc == [attester |-> "target", proposer |-> "slot", blinded |-> "slot", exit |-> "exit_epoch",
             randao |-> "randao_epoch", registration |-> "none", selection |-> "slot", aggregator |-> "slot",
             syncmsg |-> "slot", syncsel |-> "slot", contribution |-> "slot"]
OtherDomain(typ) == IF typ = "attester" THEN "DOMAIN_BEACON_PROPOSER" ELSE "DOMAIN_BEACON_ATTESTER"
IsAtt(typ) == typ = "attester"
Contents == {"A", "B"}

VARIABLES bn,            \* "up" | "down": the beacon node answers / fails the verifier's domain and spec look-ups during the call
          typ, set,      \* the call: object type, validator (1..k) |-> sequence of partials
          phase,         \* "idle" | "agg" | "notify" | "done"
          todo,          \* validators not yet aggregated
          output,        \* validator |-> [content, valid]
          nextSub,       \* next subscriber to call
          pubs,          \* subscriber calls so far: [sub, out]
          ret            \* "none" | "ok" | "err"
vars == <<bn, typ, set, phase, todo, output, nextSub, pubs, ret>>

------------------------------------------------------------------------------------------------------------
Idxs(ps) == {ps[k].idx : k \in DOMAIN ps}
NoDup(ps) == \A k, m \in DOMAIN ps : ps[k].idx = ps[m].idx => k = m
Unique(ps, k) == \A m \in DOMAIN ps : ps[m].idx = ps[k].idx => m = k
\* the signature of p is a well-formed signature by the share p is filed under, in the type's domain, at the epoch of
\* the content it was made over
GoodSig(p, ty) == /\ p.form = "ok" /\ p.by = p.idx /\ p.dom = DomainOf[ty]
                  /\ (EpochSrc[ty] # "none" => p.ep = "own")
Valid(p, ty) == GoodSig(p, ty) /\ p.over = p.content       \* a valid partial for what it carries
Hybrid(p, ty) == GoodSig(p, ty) /\ p.over # p.content      \* carries one content, signs the other
Bad(p, ty) == ~GoodSig(p, ty)                               \* an invalid share
\* ---- exact validity of a combination (arithmetic modulo three 15-bit primes: an identity over the rationals holds
\* modulo each; a non-identity would have to vanish modulo all three)
Primes == {32713, 32719, 32749}
ModQ(a, q) == ((a % q) + q) % q
RECURSIVE FPow(_, _, _), ProdQ(_, _, _), SumE(_, _, _, _), SelSets(_, _)
FPow(a, e, q) == IF e = 0 THEN 1 ELSE LET h == FPow(a, e \div 2, q) IN
                 ModQ(ModQ(h * h, q) * (IF e % 2 = 1 THEN a ELSE 1), q)
\* inverses of the (small) differences of share indices, tabulated once per prime
InvTab == [q \in Primes |-> [d \in 1..16 |-> FPow(d, q - 2, q)]]
InvQ(a, q) == IF a > 0 THEN InvTab[q][a] ELSE q - InvTab[q][-a]
ProdQ(X, xi, q) == IF X = {} THEN 1 ELSE LET x == CHOOSE y \in X : TRUE IN       \* prod_{x # xi} x / (x - xi)
                   ModQ((IF x = xi THEN 1 ELSE ModQ(x * InvQ(x - xi, q), q)) * ProdQ(X \ {x}, xi, q), q)
SumE(E, lam, j, q) == IF E = {} THEN 0 ELSE LET p == CHOOSE r \in E : TRUE IN    \* sum lambda_k * by_k^j
                      ModQ(ModQ(lam[p.idx] * FPow(p.by, j, q), q) + SumE(E \ {p}, lam, j, q), q)
\* what a partial signed: content, domain, fork version (irrelevant for the genesis-domain types)
Class(p, ty) == <<p.over, p.dom, IF EpochSrc[ty] = "none" THEN "own" ELSE p.ep>>
Target(c, ty) == <<c, DomainOf[ty], "own">>
\* E: partials with pairwise distinct idx.  Their threshold aggregate is the group signature for content c.
AlgValid(E, c, ty) ==
  /\ E # {} /\ \A p \in E : p.form = "ok" /\ p.by >= 1 /\ p.idx >= 1
  /\ LET X == {p.idx : p \in E} IN
     \A q \in Primes : LET lam == [x \in X |-> ProdQ(X, x, q)] IN
       \A mu \in {Class(p, ty) : p \in E} \cup {Target(c, ty)} : \A j \in 0..(T - 1) :
          SumE({p \in E : Class(p, ty) = mu}, lam, j, q) = (IF mu = Target(c, ty) /\ j = 0 THEN 1 ELSE 0)
\* every way of keeping one partial per share index
SelSets(ps, I) == IF I = {} THEN {{}} ELSE LET i == CHOOSE x \in I : TRUE IN
                  {S \cup {ps[k]} : S \in SelSets(ps, I \ {i}), k \in {m \in DOMAIN ps : ps[m].idx = i}}
CanBeValid(ps, c, ty) == \E E \in SelSets(ps, Idxs(ps)) : AlgValid(E, c, ty)
\* contents for which a valid aggregate can exist at all: >= T distinct shares signed them (an implementation may
\* combine any T of those), or some selection of one partial per index combines to a valid signature
Possible(ps, ty) == {c \in Contents : \/ Cardinality({ps[k].idx : k \in {m \in DOMAIN ps : GoodSig(ps[m], ty) /\ ps[m].over = c}}) >= T
                                      \/ CanBeValid(ps, c, ty)}

MustFail(ps, ty) == \/ Len(ps) < T
                    \/ Cardinality(Idxs(ps)) < T
                    \/ /\ \/ \E k \in DOMAIN ps : Bad(ps[k], ty) /\ Unique(ps, k)
                          \/ /\ NoDup(ps) /\ \A k \in DOMAIN ps : Valid(ps[k], ty)
                             /\ \E k, m \in DOMAIN ps : ps[k].content # ps[m].content
                       /\ \A c \in Contents : ~CanBeValid(ps, c, ty)
AllOK(ps, ty) == /\ Len(ps) >= T /\ NoDup(ps)
                 /\ \A k \in DOMAIN ps : Valid(ps[k], ty) /\ ps[k].content = ps[1].content
Err == [k |-> "err"]
Pub(c, v) == [k |-> "pub", content |-> c, valid |-> v]
\* while the beacon node cannot answer the verifier's look-ups nothing can be verified: giving up is always allowed then
\* (and publishing stays allowed only for what IS group-valid)
Allowed(ps, ty) == IF MustFail(ps, ty) THEN {Err}
                   ELSE IF AllOK(ps, ty) THEN {Pub(ps[1].content, TRUE)} \cup (IF bn = "down" THEN {Err} ELSE {})
                   ELSE {Err} \cup {Pub(c, TRUE) : c \in Possible(ps, ty)}

\* aggregate() as coded
LastWins(ps) == [i \in Idxs(ps) |-> ps[CHOOSE k \in DOMAIN ps : ps[k].idx = i /\ \A m \in DOMAIN ps : ps[m].idx = i => m <= k]]
FullSig(ps, ty) == IF IsAtt(ty) /\ \E k \in DOMAIN ps : ps[k].vi
                   THEN ps[CHOOSE k \in DOMAIN ps : ps[k].vi /\ \A m \in DOMAIN ps : ps[m].vi => k <= m]
                   ELSE ps[1]
Coded(ps, ty) ==
  IF Len(ps) < T THEN Err
  ELSE IF \E k \in DOMAIN ps : ps[k].form = "trunc" THEN Err
  ELSE LET m == LastWins(ps) IN
       IF Cardinality(DOMAIN m) < T THEN Err
       ELSE IF \E i \in DOMAIN m : m[i].form # "ok" THEN Err        \* undecodable (or, for "zero", never valid)
       ELSE LET c == FullSig(ps, ty).content
                ok == AlgValid({m[i] : i \in DOMAIN m}, c, ty)
            IN IF AggMode # "noverify" /\ (~ok \/ bn = "down") THEN Err ELSE Pub(c, ok)    \* no verdict of the verifier: an error
Outcomes(ps, ty) == IF AggMode = "free" THEN Allowed(ps, ty) ELSE {Coded(ps, ty)}

------------------------------------------------------------------------------------------------------------
InitWith(ty, s) == /\ bn = "up" /\ typ = ty /\ set = s /\ phase = "idle" /\ todo = {} /\ output = <<>> /\ nextSub = 1
                   /\ pubs = <<>> /\ ret = "none"
InitWithBN(ty, s, b) == /\ bn = b /\ typ = ty /\ set = s /\ phase = "idle" /\ todo = {} /\ output = <<>> /\ nextSub = 1
                   /\ pubs = <<>> /\ ret = "none"
Call == /\ phase = "idle"
        /\ IF Len(set) = 0 THEN phase' = "done" /\ ret' = "err" /\ UNCHANGED todo     \* "empty partial signed data set"
           ELSE phase' = "agg" /\ todo' = DOMAIN set /\ UNCHANGED ret
        /\ UNCHANGED <<bn, typ, set, output, nextSub, pubs>>
\* one iteration of the loop over the validators (Go map order: any not yet handled validator)
AggStep(v) == /\ phase = "agg" /\ v \in todo
              /\ \E r \in Outcomes(set[v], typ) :
                   IF r.k = "err"
                   THEN /\ ret' = "err" /\ todo' = {}
                        /\ phase' = IF FailMode = "partial" /\ DOMAIN output # {} THEN "notify" ELSE "done"
                        /\ UNCHANGED output
                   ELSE /\ output' = [w \in DOMAIN output \cup {v} |-> IF w = v THEN [content |-> r.content, valid |-> r.valid] ELSE output[w]]
                        /\ todo' = todo \ {v}
                        /\ phase' = IF todo' = {} THEN "notify" ELSE "agg"
                        /\ UNCHANGED ret
              /\ UNCHANGED <<bn, typ, set, nextSub, pubs>>
\* subscriber k receives (a clone of) the complete output
Notify(k) == /\ phase = "notify" /\ k = nextSub /\ k <= NSubs
             /\ pubs' = Append(pubs, [sub |-> k, out |-> output])
             /\ nextSub' = k + 1
             /\ UNCHANGED <<bn, typ, set, phase, todo, output, ret>>
Return == /\ phase = "notify" /\ nextSub > NSubs
          /\ phase' = "done" /\ ret' = IF ret = "err" THEN "err" ELSE "ok"
          /\ UNCHANGED <<bn, typ, set, todo, output, nextSub, pubs>>
Next == Call \/ (\E v \in DOMAIN set : AggStep(v)) \/ (\E k \in 1..NSubs : Notify(k)) \/ Return

------------------------------------------------------------------------------------------------------------
(* The statement *)
\* whatever is published verifies under the validator's group key and its content is one >= T distinct shares signed
GroupValid == \A i \in DOMAIN pubs : \A v \in DOMAIN pubs[i].out :
                 pubs[i].out[v].valid /\ pubs[i].out[v].content \in Possible(set[v], typ)
\* too few / repeated share / disagreement / invalid share for ANY validator: nothing at all is published
NothingOnFault == (\E v \in DOMAIN set : MustFail(set[v], typ)) => (pubs = <<>> /\ (phase = "done" => ret = "err"))
\* a publication covers every validator of the call, and each outcome is one the statement allows
AllOrNothing == \A i \in DOMAIN pubs : /\ DOMAIN pubs[i].out = DOMAIN set
                                       /\ \A v \in DOMAIN set : Pub(pubs[i].out[v].content, pubs[i].out[v].valid) \in Allowed(set[v], typ)
\* a call whose partials are all in order is published, once per subscriber
PublishOnOK == (bn = "up" /\ phase = "done" /\ Len(set) > 0 /\ \A v \in DOMAIN set : AllOK(set[v], typ))
                  => (ret = "ok" /\ Len(pubs) = NSubs /\ \A k \in 1..NSubs : pubs[k].sub = k)
ErrMeansNothing == (phase = "done" /\ ret = "err") => pubs = <<>>
TypeOK == /\ bn \in {"up", "down"} /\ phase \in {"idle", "agg", "notify", "done"} /\ ret \in {"none", "ok", "err"}
          /\ typ \in Types /\ nextSub \in 1..(NSubs + 1)
Safety == TypeOK /\ GroupValid /\ NothingOnFault /\ AllOrNothing /\ PublishOnOK /\ ErrMeansNothing
====
