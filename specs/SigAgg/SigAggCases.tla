---- MODULE SigAggCases ----
(* The scenario space of C09 for N shares per validator and threshold T: lists of partials for one validator, built
   from the honest partials of a subset of shares by corrupting one or more of them and/or repeating a share, and
   calls with one, two or three validators.  Shared by SigAggMC (every scenario, abstractly) and SigAggGen (every
   scenario x object type x fork version, printed for the executor). *)
EXTENDS SigAgg
CONSTANT N
Shares == 1..N
Honest(i, ty) == [idx |-> i, by |-> i, content |-> "A", over |-> "A", dom |-> DomainOf[ty], ep |-> "own", form |-> "ok", vi |-> FALSE]
RECURSIVE Asc(_)
Asc(S) == IF S = {} THEN <<>> ELSE LET m == CHOOSE x \in S : \A y \in S : x <= y IN <<m>> \o Asc(S \ {m})
Rev(s) == [k \in 1..Len(s) |-> s[Len(s) + 1 - k]]
Base(S, ty) == LET a == Asc(S) IN [k \in 1..Len(a) |-> Honest(a[k], ty)]

\* corruptions of one partial: <<kind, arg>>
SimpleKinds == {"othermsg", "sigover", "hybrid", "trunc", "zero", "junk", "wrongdom", "wrongep"}
Corrs(p) == {<<"wrongshare", j>> : j \in ({-1} \cup Shares) \ {p.idx}}
            \cup {<<"wrongidx", j>> : j \in (0..(N + 1)) \ {p.idx}}
            \cup {<<k, 0>> : k \in SimpleKinds}
\* a reduced repertoire for the combinations
FewCorrs == {<<"wrongshare", -1>>, <<"othermsg", 0>>, <<"sigover", 0>>, <<"trunc", 0>>, <<"zero", 0>>, <<"wrongdom", 0>>}
Corrupt(p, c, ty) ==
  CASE c[1] = "wrongshare" -> [p EXCEPT !.by = c[2]]               \* made with another share's / an outside key
    [] c[1] = "wrongidx"   -> [p EXCEPT !.idx = c[2]]              \* filed under another share index
    [] c[1] = "othermsg"   -> [p EXCEPT !.content = "B", !.over = "B"]   \* another content, validly signed
    [] c[1] = "sigover"    -> [p EXCEPT !.over = "B"]              \* signature over another message
    [] c[1] = "hybrid"     -> [p EXCEPT !.content = "B"]           \* carries another content, signs this one
    [] c[1] = "trunc"      -> [p EXCEPT !.form = "trunc"]
    [] c[1] = "zero"       -> [p EXCEPT !.form = "zero"]
    [] c[1] = "junk"       -> [p EXCEPT !.form = "junk"]
    [] c[1] = "wrongdom"   -> [p EXCEPT !.dom = OtherDomain(ty)]
    [] c[1] = "wrongep"    -> [p EXCEPT !.ep = "other"]
At(s, k, p) == [s EXCEPT ![k] = p]
InsertFront(s, p) == <<p>> \o s

SubsetsOf(sz) == {S \in SUBSET Shares : Cardinality(S) = sz}
\* honest lists: every subset of at least T shares, ascending and descending
ValidLists(ty) == UNION {{Base(S, ty), Rev(Base(S, ty))} : S \in {S \in SUBSET Shares : Cardinality(S) >= T}}
TooFewLists(ty) == {Base(S, ty) : S \in {S \in SUBSET Shares : Cardinality(S) < T}}
\* one corruption: every T-subset and every (T+1)-subset, every position, every corruption
SingleLists(ty) == UNION {UNION {{At(Base(S, ty), k, Corrupt(Base(S, ty)[k], c, ty)) : c \in Corrs(Base(S, ty)[k])}
                                 : k \in 1..Cardinality(S)}
                          : S \in {S \in SUBSET Shares : Cardinality(S) \in {T, T + 1}}}
\* two corruptions on the first T+1 shares
DoubleLists(ty) == LET b == Base(1..(IF T + 1 <= N THEN T + 1 ELSE N), ty) IN
                   UNION {UNION {{At(At(b, k, Corrupt(b[k], c, ty)), m, Corrupt(b[m], d, ty)) : c \in FewCorrs, d \in FewCorrs}
                                 : m \in (k + 1)..Len(b)} : k \in 1..Len(b)}
\* a repeated share index: the copy appended or put in front; identical, the copy corrupted, or the original corrupted
DupLists(ty) == UNION {LET b == Base(1..sz, ty) IN
                       UNION {{Append(b, b[k]), InsertFront(b, b[k])}
                              \cup UNION {{Append(b, Corrupt(b[k], c, ty)), InsertFront(b, Corrupt(b[k], c, ty)),
                                           Append(At(b, k, Corrupt(b[k], c, ty)), b[k]),
                                           InsertFront(At(b, k, Corrupt(b[k], c, ty)), b[k])} : c \in FewCorrs}
                              : k \in 1..sz}
                       : sz \in {s \in {T - 1, T, T + 1} : s >= 1 /\ s <= N}}
\* attestations: the VC's copy (with validator index) at some position of an honest or disagreeing list
ViLists(ty) == IF ~IsAtt(ty) THEN {} ELSE
               LET b == Base(1..T, ty)
                   d == At(b, 1, Corrupt(b[1], <<"othermsg", 0>>, ty))
                   h == At(b, 1, Corrupt(b[1], <<"hybrid", 0>>, ty))
               IN UNION {{At(s, k, [s[k] EXCEPT !.vi = TRUE]) : k \in 1..T} : s \in {b, d, h}}
\* misfiled partials: T or T+1 share indices out of 1..N+1, each filed partial made (validly, over A) with ANY share's
\* key -- the honest lists, every combination of wrong-share / wrong-index partials with cluster keys, and among them
\* the combinations whose errors cancel (CancelLists: a valid group signature comes out although shares are misfiled)
\* (the shapes <<index set, index |-> signing share>> do not depend on the object type: computed once)
MisfiledShapes == UNION {{<<X, b>> : b \in [X -> Shares]} : X \in {X \in SUBSET (1..(N + 1)) : Cardinality(X) \in {T, T + 1}}}
ListOf(sh, ty) == LET a == Asc(sh[1]) IN [k \in 1..Len(a) |-> [Honest(a[k], ty) EXCEPT !.by = sh[2][a[k]]]]
\* all partials of such a list signed the same message, so AlgValid is: sum lambda_x * b[x]^j = [j = 0] for j < T
\* (the coefficients are tabulated once per index set); ASSUMEd below to agree with CanBeValid
CancelShapes == UNION {LET lam == [q \in Primes |-> [x \in X |-> ProdQ(X, x, q)]]
                           RECURSIVE Sm(_, _, _, _)
                           Sm(Y, b, j, q) == IF Y = {} THEN 0 ELSE LET x == CHOOSE y \in Y : TRUE IN
                                             ModQ(ModQ(lam[q][x] * FPow(b[x], j, q), q) + Sm(Y \ {x}, b, j, q), q)
                       IN {<<X, b>> : b \in {b \in [X -> Shares] : /\ \E x \in X : b[x] # x
                                                                  /\ \A q \in Primes : \A j \in 0..(T - 1) :
                                                                       Sm(X, b, j, q) = (IF j = 0 THEN 1 ELSE 0)}}
                       : X \in {X \in SUBSET (1..(N + 1)) : Cardinality(X) \in {T, T + 1}}}
MisfiledLists(ty) == {ListOf(sh, ty) : sh \in MisfiledShapes}
CancelLists(ty) == {ListOf(sh, ty) : sh \in CancelShapes}
FullLists(ty) == CancelLists(ty) \cup ValidLists(ty) \cup TooFewLists(ty) \cup SingleLists(ty) \cup DoubleLists(ty) \cup DupLists(ty) \cup ViLists(ty)
\* reduced sets
MediumLists(ty) == LET b == Base(1..T, ty) IN
                   {b, Base(Shares, ty), Base(1..(T - 1), ty), Append(Base(1..(T - 1), ty), b[1]), Append(b, b[1])}
                   \cup {At(b, 2, Corrupt(b[2], c, ty)) : c \in Corrs(b[2])}
SmallLists(ty) == LET b == Base(1..T, ty) IN
                  {b, Base(1..(T - 1), ty)}
                  \cup {At(b, T, Corrupt(b[T], c, ty)) : c \in {<<"wrongshare", -1>>, <<"othermsg", 0>>, <<"sigover", 0>>,
                                                                   <<"wrongdom", 0>>, <<"wrongep", 0>>, <<"zero", 0>>}}
PairLists(ty) == LET b == Base(1..T, ty) IN
                 {b, Base(Shares, ty), Base(1..(T - 1), ty), Append(Base(1..(T - 1), ty), b[1]), Append(b, b[T])}
                 \cup {At(b, 1, Corrupt(b[1], c, ty)) : c \in FewCorrs}
\* calls: validator |-> list
One(L) == {<<s>> : s \in L}
Two(L) == {<<s1, s2>> : s1 \in L, s2 \in L}
Three(L, ty) == {<<Base(1..T, ty), s, Base(Shares, ty)>> : s \in L} \cup {<<Base(1..T, ty), Base(Shares, ty), s>> : s \in L}
MisfiledCalls(ty) == One(MisfiledLists(ty))
FullCalls(ty) == One(FullLists(ty)) \cup Two(PairLists(ty)) \cup Three(PairLists(ty), ty) \cup {<<>>}
MediumCalls(ty) == One(MediumLists(ty)) \cup {<<Base(1..T, ty), s>> : s \in SmallLists(ty)} \cup {<<s, Base(1..T, ty)>> : s \in SmallLists(ty)}
SmallCalls(ty) == One(SmallLists(ty))
====
