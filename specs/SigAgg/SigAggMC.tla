---- MODULE SigAggMC ----
(* Exhaustive design check: every scenario of SigAggCases (N shares, threshold T) for an attestation type (the VC-copy
   rule), a type with the genesis-domain rule and a plain type, every order in which the validators of a call are
   aggregated; plus (for one type) every list of T or T+1 misfiled partials made with cluster keys.  With AggMode = "code" this checks that sigagg.go as transcribed satisfies the statement. *)
EXTENDS SigAggCases
CONSTANT Misfiled      \* include every list of T or T+1 misfiled cluster-key partials
MCTypes == {"attester", "registration", "randao"}
MCInit == \E ty \in MCTypes : \E s \in FullCalls(ty) \cup (IF Misfiled /\ ty = "randao" THEN MisfiledCalls(ty) ELSE {}) : \E b \in {"up", "down"} : InitWithBN(ty, s, b)
\* the tabulated shortcut and the general predicate agree on every misfiled list
CancelAgree == \A sh \in MisfiledShapes : LET l == ListOf(sh, "randao") IN
                 (sh \in CancelShapes) = (~AllOK(l, "randao") /\ CanBeValid(l, "A", "randao"))
ASSUME Misfiled => CancelAgree
MCSpec == MCInit /\ [][Next]_vars
====
