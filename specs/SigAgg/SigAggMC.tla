---- MODULE SigAggMC ----
(* Exhaustive design check: every scenario of SigAggCases (N shares, threshold T) for an attestation type (the VC-copy
   rule), a type with the genesis-domain rule and a plain type, every order in which the validators of a call are
   aggregated; plus (for one type) every list of T or T+1 misfiled partials made with cluster keys.  With AggMode = "code" this checks that sigagg.go as transcribed satisfies the statement. *)
EXTENDS SigAggCases
MCTypes == {"attester", "registration", "randao"}
MCInit == \E ty \in MCTypes : \E s \in FullCalls(ty) \cup (IF ty = "randao" THEN MisfiledCalls(ty) ELSE {}) : InitWith(ty, s)
MCSpec == MCInit /\ [][Next]_vars
====
