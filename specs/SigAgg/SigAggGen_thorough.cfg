SPECIFICATION GenSpec
CONSTANTS T = 3
 N = 4
 AggMode = "free"
 FailMode = "abort"
 Depth = "thorough"
INVARIANTS Emit
CHECK_DEADLOCK FALSE
