SPECIFICATION MCSpec
CONSTANTS T = 3
 N = 4
 AggMode = "code"
 Misfiled = FALSE
 FailMode = "partial"
INVARIANTS TypeOK GroupValid NothingOnFault AllOrNothing PublishOnOK ErrMeansNothing
CHECK_DEADLOCK FALSE
