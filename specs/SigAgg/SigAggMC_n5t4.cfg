SPECIFICATION MCSpec
CONSTANTS T = 4
 N = 5
 AggMode = "code"
 Misfiled = FALSE
 FailMode = "abort"
INVARIANTS TypeOK GroupValid NothingOnFault AllOrNothing PublishOnOK ErrMeansNothing
CHECK_DEADLOCK FALSE
