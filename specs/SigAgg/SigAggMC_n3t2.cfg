SPECIFICATION MCSpec
CONSTANTS T = 2
 N = 3
 AggMode = "code"
 Misfiled = TRUE
 FailMode = "abort"
INVARIANTS TypeOK GroupValid NothingOnFault AllOrNothing PublishOnOK ErrMeansNothing
CHECK_DEADLOCK FALSE
