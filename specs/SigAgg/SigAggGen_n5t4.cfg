SPECIFICATION GenSpec
CONSTANTS T = 4
 N = 5
 AggMode = "free"
 FailMode = "abort"
 Depth = "quick"
INVARIANTS Emit
CHECK_DEADLOCK FALSE
