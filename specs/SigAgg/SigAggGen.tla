---- MODULE SigAggGen ----
(* The scenario space of C09 enumerated by plain model checking: every initial state IS a case --
   object type x data version x fork bucket of the signing epoch x call (SigAggCases).  Each case is printed once as a
   schedule for the executor: the call, the domain name and the epoch source honest partials are signed with (the
   executor signs with exactly what is written here; it never asks the code under test for a domain or an epoch), and
   every partial spelled out.
   Depth:  "quick"     full scenario set for attestations (electra), a medium set for every other type/version at its natural
                       fork bucket, a small set for every other bucket
           "thorough"  full set for every type/version at its natural bucket, medium set for the other buckets *)
EXTENDS SigAggCases, Json
CONSTANT Depth
VARIABLES ver, bucket
Versions(ty) == IF ty \in {"proposer", "blinded"} THEN {"bellatrix", "capella", "deneb", "electra", "fulu"}
                ELSE IF ty \in {"attester", "aggregator"} THEN {"deneb", "electra", "fulu"} ELSE {"na"}
Buckets == {"deneb", "electra", "fulu"}           \* the three fork versions live in the beacon mock's schedule
Natural(v) == IF v \in {"bellatrix", "capella", "deneb"} THEN "deneb" ELSE IF v = "fulu" THEN "fulu" ELSE "electra"
Primary == {<<"attester", "electra">>}
CallsFor(ty, v, b) ==
  IF Depth = "thorough"
  THEN IF b = Natural(v) THEN FullCalls(ty) ELSE MediumCalls(ty)
  ELSE IF b = Natural(v) THEN (IF <<ty, v>> \in Primary THEN FullCalls(ty) ELSE MediumCalls(ty)) ELSE SmallCalls(ty)
GenInit == \E ty \in Types : \E v \in Versions(ty) : \E b \in Buckets : \E s \in CallsFor(ty, v, b) :
             InitWith(ty, s) /\ ver = v /\ bucket = b
GenSpec == GenInit /\ [][UNCHANGED <<vars, ver, bucket>>]_<<vars, ver, bucket>>
Sched == <<[ev |-> "Call", typ |-> typ, ver |-> ver, bucket |-> bucket, T |-> T, N |-> N,
            domain |-> DomainOf[typ], esrc |-> EpochSrc[typ], vals |-> set]>>
Emit == PrintT("@@SCHED@@" \o ToJson(Sched))
====
