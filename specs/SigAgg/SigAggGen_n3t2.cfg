SPECIFICATION GenSpec
CONSTANTS T = 2
 N = 3
 AggMode = "free"
 FailMode = "abort"
 Depth = "quick"
INVARIANTS Emit
CHECK_DEADLOCK FALSE
