SPECIFICATION TraceSpec
CONSTANTS T = 3
 AggMode = "free"
 FailMode = "abort"
CONSTRAINT Mark
POSTCONDITION Report
CHECK_DEADLOCK FALSE
