SPECIFICATION MCSpec
CONSTANTS T = 3
 N = 4
 AggMode = "code"
 Misfiled = FALSE
 FailMode = "abort"
INVARIANTS TypeOK GroupValid NothingOnFault AllOrNothing PublishOnOK ErrMeansNothing
CHECK_DEADLOCK FALSE
