SPECIFICATION GenSpec
CONSTANTS T = 3
 N = 4
 AggMode = "free"
 FailMode = "abort"
 Depth = "quick"
INVARIANTS Emit
CHECK_DEADLOCK FALSE
