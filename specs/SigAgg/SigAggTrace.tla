---- MODULE SigAggTrace ----
(* Trace validation for core/sigagg (harness/c09).  One trace = one call of Aggregator.Aggregate on an aggregator with
   two subscribers; the call is synchronous, so the events are in program order:
     {"ev":"Reset","sid":k,"T":t,"N":n}
     {"ev":"Call","typ":..,"ver":..,"bucket":..,"domain":..,"esrc":..,"vals":[[partial,...],...]}   the input as built
     {"ev":"Sub","k":subscriber,"dutyEq":bool,"pubs":[{"v":validator,"content":"A"|"B"|"other","body":"A"|"B"|"none",
                 "verifies":bool,"verifiesIndep":bool},...]}      one per subscriber invocation
     {"ev":"Return","err":bool}            ({"ev":"Panic"} matches nothing)
   The loop iterations over the validators (AggStep) are not logged: silent steps, in any order.  The trace spec runs
   with AggMode = "free": each validator's outcome is any the STATEMENT allows (Allowed), not what sigagg.go computes.
   A published object must verify under the group key both by core.VerifyEth2SignedData and by the executor's own
   computation (domain by the name the spec gives for the type, epoch where the spec says it is), carry the content the
   model says, and be -- signature aside -- byte-identical to a partial that carried that content. *)
EXTENDS SigAgg, TraceCommon
tvars == <<vars, tr, l>>
HasCall == TLen >= 2 /\ Trace[2].ev = "Call"
TraceInit == /\ TrInit
             /\ IF HasCall THEN InitWithBN(Trace[2].typ, Trace[2].vals, IF "bn" \in DOMAIN Trace[2] THEN Trace[2].bn ELSE "up")
                ELSE InitWith("randao", <<>>)
TReset == IsEvent("Reset") /\ l = 1 /\ Ev.T = T /\ UNCHANGED vars
TCall == IsEvent("Call") /\ l = 2 /\ Call
TAgg == (\E v \in DOMAIN set : AggStep(v)) /\ Silent
TSub == /\ IsEvent("Sub") /\ Notify(Ev.k)
        /\ LET recs == SeqToSet(Ev.pubs) IN
           /\ Len(Ev.pubs) = Cardinality(DOMAIN output)
           /\ {r.v : r \in recs} = DOMAIN output
           /\ \A r \in recs : /\ r.verifies /\ r.verifiesIndep /\ output[r.v].valid
                              /\ r.content = output[r.v].content /\ r.body = r.content
TReturn == /\ IsEvent("Return")
           /\ IF Ev.err THEN phase = "done" /\ ret = "err" /\ UNCHANGED vars
              ELSE Return /\ ret' = "ok"
TraceNext == TReset \/ TCall \/ TAgg \/ TSub \/ TReturn
TraceSpec == TraceInit /\ [][TraceNext]_tvars
Mark == /\ CheckInv("TypeOK", TypeOK) /\ CheckInv("GroupValid", GroupValid)
        /\ CheckInv("NothingOnFault", NothingOnFault) /\ CheckInv("AllOrNothing", AllOrNothing)
        /\ CheckInv("PublishOnOK", PublishOnOK) /\ CheckInv("ErrMeansNothing", ErrMeansNothing)
        /\ HWMark
====
