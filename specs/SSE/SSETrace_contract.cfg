SPECIFICATION TraceSpec
CONSTANTS
 Addrs = {1, 2, 3}
 DefaultRetry = 1000
 Slack = 2
 FreeMax = 8000
 Dev = {}
 TrimOn = "either"
 Defect = "none"
CONSTRAINT Mark
POSTCONDITION Report
CHECK_DEADLOCK FALSE
