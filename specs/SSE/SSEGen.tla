---- MODULE SSEGen ----
(* Schedule generation: behaviours of the design spec AS CODED; the ENVIRONMENT's moves are recorded in the history variable
   `hist` with the model time at which they happen (Start, Subscribe, what each connect is answered with, the lines / frames
   sent and whether an incomplete line is left pending, how a stream ends, Cancel); when the clients dial and what the
   listener does with the lines is the implementation's business.  Run with -simulate.  checks/grow_sse.py turns a history
   into a timed schedule: one model time unit = 200 ms, so DefaultRetry = 5 is the 1 s of the code and, with the jitter of
   expbackoff pinned to its centre (rfp = 500), the backoff delays 5, 8, 10 of the model are the 1 s, 1.6 s, 2 s of the real
   client -- the coincidences the model finds (a chunk in the instant a backoff ends, a close right after the reconnect, a
   retry field that changes the NEXT backoff only) are reproduced.  The bytes of every Feed are cut into chunks at random
   positions by the check. *)
EXTENDS SSEMC, Json
CONSTANTS GenLen, GenFeeds
VARIABLES hist
gvars == <<mcvars, hist>>
Rec(e) == hist' = Append(hist, e)
GFeedsAll == FramesMixed \cup FramesLife \cup FramesGossip \cup FramesReorg \cup LinesFraming \cup {F(<<Retry(10)>>), F(<<Retry(5)>>)}
GFeedsLife == FramesLife \cup {F(<<Retry(10)>>), Frame("head", HeadOK(2)), Frame("chain_reorg", Reorg(5, 1, "x")), F(<<EvLn("head")>>),
                               F(<<Data(HeadOK(3))>>), F(<<Blank>>)}
GFeedsReorg == FramesReorg \cup FramesGossip
GenInit == MCInit /\ hist = <<>>
GenNext ==
  \/ (Start /\ Rec([ev |-> "Start", t |-> now]))
  \/ \E kind \in {"head", "reorg"} : LET n == IF kind = "head" THEN Len(L.hsubs) ELSE Len(L.rsubs) IN
        n < MaxSubs /\ Sub(kind, n + 1) /\ Rec([ev |-> "Sub", t |-> now, kind |-> kind, id |-> n + 1])
  \/ \E a \in Addrs : \E d \in DialSet : \E w \in WSet :
        cl[a].k < MaxDials /\ Dial(a, d.how, d.code, w) /\ WakesOK /\ Rec([ev |-> "Dial", t |-> now, a |-> a, how |-> d.how, code |-> d.code])
  \/ \E a \in Addrs : Wake(a) /\ UNCHANGED hist
  \/ \E a \in Addrs : \E fr \in GenFeeds : \E opt \in Opts :
        ~MustDial /\ Feed(a, fr.lines, fr.part, opt) /\ Rec([ev |-> "Feed", t |-> now, a |-> a, lines |-> fr.lines, part |-> fr.part])
  \/ \E a \in Addrs : \E h \in CloseSet : \E w \in WSet : ~MustDial /\ Close(a, h, w) /\ WakesOK /\ Rec([ev |-> "Close", t |-> now, a |-> a, how |-> h])
  \/ (AllowCancel /\ ~MustDial /\ Len(hist) >= GenLen - 2 /\ Cancel /\ Rec([ev |-> "Cancel", t |-> now]))
  \/ \E to \in {now + 1, now + 2, now + 3, NextTimer} : to <= MaxTime /\ Tick(to) /\ UNCHANGED hist
GenSpec == GenInit /\ [][GenNext /\ UNCHANGED fed]_gvars
Emit == Len(hist) < GenLen \/ PrintT("@@SCHED@@" \o ToJson(hist))
Stop == Len(hist) <= GenLen
====
