---- MODULE SSE ----
(* app/sse: client.go (newClient, start: the reconnect loop, connect, parseEvent / formatAndValidateEvent: the
   text/event-stream framing) and listener.go (StartListener, Subscribe*, eventHandler dispatch, handleHeadEvent,
   handleChainReorgEvent and its de-duplication, handleBlockGossipEvent / handleBlockEvent, notify*, computeDelay,
   storeBlockGossipTime / recordBlockProcessingTime and its trimming).

   One CLIENT per configured beacon node address runs `start`:

     idle -Start-> dial | none                      newClient fails on an address url.Parse rejects: no client
     dial -Dial(refuse)-> backoff                   httpClient.Do fails: errStreamConn
     dial -Dial(http, 200)-> open                   the stream is read line by line
     dial -Dial(http, code # 200)-> dead  [*]       "invalid response status code": start returns, the goroutine ends
     open -Feed(lines)-> open | dead [*]            complete lines are parsed; a blank line dispatches the event; an error
                                                    of the listener's handler ends start [*]
     open -Close(eof)-> dial | dead [*]             io.EOF between lines: retry := 1 s, a NEW backoff next time, reconnect at
                                                    once; io.EOF inside a line: "incomplete event": start returns [*]
     open -Close(abrupt)-> backoff                  io.ErrUnexpectedEOF: errStreamConn
     open -Close(reset)-> dead [*]                  any other read error: start returns
     backoff -Wake-> dial                           expbackoff(BaseDelay = retry at the time the backoff was made, x1.6,
                                                    jitter 0.2, MaxDelay = 2 x BaseDelay): delays b, 1.6b(1+-.2), 2b(1+-.2) ...
     any -Cancel-> stopped                          the context of StartListener ends

   [*] what the CALLERS need (app.go: the scheduler's early attestation fetch is driven by head events, the duties cache, the
   scheduler and the fetcher's early-attestation cache are invalidated by chain-reorg events; package comment of the
   listener's unit tests: "Duplicate should not be reported again") is stated as the CONTRACT below.  The tree deviates from
   it in four named ways; each is a member of the constant Dev and is modelled as coded when switched on:

     "badevent"  a malformed head / chain_reorg / block_gossip / block payload (handler error) ends the client of that
                 beacon node for good: later events of that node are never delivered
     "status"    a non-200 answer to the subscription request ends the client for good
     "readerr"   a read error other than io.EOF / io.ErrUnexpectedEOF (connection reset) -- or ("partial") a clean end of the
                 stream inside a line -- ends the client for good
     "dedup"     chain reorgs are de-duplicated by comparing the reorg EPOCH with the epoch of the last notification
                 (initially 0): a different reorg in the same epoch is swallowed, a reorg of epoch 0 is never notified, and
                 one reorg is notified twice when another one is reported in between (A:R1 A:R2 B:R1)
   With Dev = {} the model is the contract: a bad event is skipped (or the client reconnects), connection-level errors lead
   to a reconnect within FreeMax (the contract names no delay), reorgs are de-duplicated by their identity (slot, depth,
   old / new head).  pending_fixes/GROW-SSE-listener.diff is a repair that this contract accepts.

   Not modelled: an address without scheme whose host name starts with "http" (httpd-bn:5052) is not prefixed with
   "http://" by newClient (strings.HasPrefix(addr, "http")), url.Parse makes "httpd-bn" the scheme and every connect fails
   with "unsupported protocol scheme" -- retried for ever at Debug level.

   The listener's state is one record L (everything under the listener's mutex + the histories the invariants need).
   Handling one dispatched event is atomic here; in the code handleHeadEvent takes the mutex twice (bookkeeping, then
   notification) -- interleaving two clients between the two sections only permutes independent effects.

   Time (ms): `now` advances (Tick) only when no client can take a step and never beyond the next backoff timer. *)
EXTENDS Integers, Sequences, FiniteSets, TLC

CONSTANTS Addrs,         \* indices of the configured beacon node addresses
          DefaultRetry,  \* defaultRetry (1 s)
          Slack,         \* tolerance of the backoff range (time stamps of a trace are truncated to ms)
          FreeMax,       \* contract only: a client whose stream failed in a way the tree treats as final is connected again
                         \* within this time (the contract names no delay)
          Dev,           \* named deviations switched on (see above)
          TrimOn,        \* "match": old gossip entries are trimmed only by a head event that finds its own entry (as coded)
                         \* "either": a head event that finds none may trim as well (the comment in the code wants old entries gone)
          Defect         \* "none" | defect variants for the control configurations

None == -1
Inf == 2000000000
Min(S) == CHOOSE x \in S : \A y \in S : x <= y
Topics == {"head", "chain_reorg", "block_gossip", "block"}
DevAll == {"badevent", "status", "readerr", "partial", "dedup"}

VARIABLES now,    \* clock
          conf,   \* [gen, slotms, spe, akind, hdrok, rfp]: genesis (ms), slot duration, slots per epoch, per address "ok" | "bad"
                  \* (url.Parse fails), headers parse, jitter of expbackoff in permille (-1: unknown); never changes
          ctx,    \* "idle" | "run" | "failed" (StartListener returned an error) | "stopped"
          cl,     \* per address: the client, see IdleCl
          L       \* the listener, see L0
vars == <<now, conf, ctx, cl, L>>

NoP == [ev |-> "", evC |-> "", ts |-> None, data |-> <<>>]
IdleCl == [st |-> "idle", k |-> 0, retry |-> DefaultRetry, boSet |-> FALSE, boBase |-> 0, boN |-> 0, boI |-> 0, since |-> None,
           wake |-> None, free |-> FALSE, p |-> NoP, part |-> FALSE, goneK |-> {}]
L0 == [hsubs |-> <<>>, rsubs |-> <<>>, last |-> 0, seen |-> {}, gossip |-> {}, hslot |-> [a \in Addrs |-> None],
       n |-> 0, trimN |-> 0, trimSlot |-> None,
       evs |-> <<>>, calls |-> <<>>, obs |-> <<>>]
InitWith(cf) == now = 0 /\ conf = cf /\ ctx = "idle" /\ cl = [a \in Addrs |-> IdleCl] /\ L = L0

---------------------------------------------------------------------------------------------------
(* Backoff delays of expbackoff.Backoff(Config{BaseDelay b, 1.6, 0.2, MaxDelay 2b}, n), in ms. *)
Fac(side) == IF conf.rfp >= 0 THEN 8000 + 4 * conf.rfp ELSE IF side = "lo" THEN 8000 ELSE 12000
BoVal(b, n, side) == IF n = 0 THEN b
                     ELSE IF n = 1 THEN ((((b * Fac(side)) \div 1000) * 16) \div 100)
                     ELSE ((((b * Fac(side)) \div 1000) * 2) \div 10)
BoLo(b, n) == IF b <= 0 THEN 0 ELSE IF BoVal(b, n, "lo") - Slack < 0 THEN 0 ELSE BoVal(b, n, "lo") - Slack
BoHi(b, n) == IF b <= 0 THEN Slack ELSE BoVal(b, n, "hi") + Slack

---------------------------------------------------------------------------------------------------
(* Lines and payloads.  A LINE (one text line of the stream, its terminator LF or CRLF included) is described by
     f   "blank" | "comment" | "event" | "data" | "id" | "retry" | "other" (a field name the parser does not know)
     nc  TRUE: the line has no colon (field name only: the value is empty)
     sp  number of blanks after the colon (one is stripped)
     v   event: the event type
     pl, i, n, cut   data: piece i of n of the payload pl (n = 0: no text), cut = how the payload text was cut AFTER this
                     piece: "tok" between JSON tokens (joining the pieces with LF gives the same JSON), "str" inside a token
     ms, okn         retry: the number, okn = strconv.Atoi accepts the text
   A PAYLOAD (the JSON text of the data field) is described by
     shape  "obj" a JSON object whose members have the types the listener's structs want | anything else: json.Unmarshal
            fails or leaves the slot empty
     slot, depth  [k, v]: k = "ok" (ParseUint accepts, value v) | "big63" (accepted, above MaxInt64) | "bad"
     root   [k, v]: k = "ok" (0x-prefixed or bare hex of 32 bytes, v = canonical form) | "bad"
     id     identity of the reorg (old / new head roots) *)
Garbage == [shape |-> "garbage", slot |-> [k |-> "bad", v |-> 0], depth |-> [k |-> "bad", v |-> 0],
            root |-> [k |-> "bad", v |-> ""], id |-> "", r |-> ""]
EvName(ln) == IF ln.nc THEN "" ELSE IF ln.sp <= 1 THEN ln.v ELSE " " \o ln.v
Piece(ln) == IF ln.nc THEN [pl |-> Garbage, i |-> 0, n |-> 0, cut |-> "tok"] ELSE [pl |-> ln.pl, i |-> ln.i, n |-> ln.n, cut |-> ln.cut]
\* event.Data: the pieces joined by LF (pieces without text vanish between JSON tokens)
Joined(ps) == LET n == Len(ps) IN
  IF /\ \A i \in 1..n : ps[i].pl = ps[1].pl /\ ps[i].n = n /\ ps[i].i = i
     /\ \A i \in 1..(n - 1) : ps[i].cut = "tok"
    THEN ps[1].pl ELSE Garbage

SlotStart(slot) == conf.gen + slot * conf.slotms

Call(uid, kind, sub, slot, root, a, epoch) == [uid |-> uid, k |-> kind, sub |-> sub, slot |-> slot, root |-> root, a |-> a, epoch |-> epoch]
Obs(uid, m, a, v, want) == [uid |-> uid, m |-> m, a |-> a, v |-> v, want |-> want]

(* recordBlockProcessingTime(slot, a, ts): the entry of (slot, a) is consumed; only then older entries are trimmed.
   trimNM: a head event without entry trims as well (TrimOn = "either" only). *)
Record(LL, uid, slot, a, ts, trimNM) ==
  LET E == {x \in LL.gossip : x.slot = slot /\ x.a = a}
      cut(g) == IF slot > conf.spe /\ Defect # "noTrim" THEN {x \in g : x.slot >= slot - conf.spe} ELSE g IN
    IF E = {} THEN [g |-> IF trimNM THEN cut(LL.gossip) ELSE LL.gossip, obs |-> <<>>, trimmed |-> trimNM]
    ELSE LET x == CHOOSE y \in E : TRUE IN
           [g |-> cut(LL.gossip \ E), obs |-> IF ts - x.ts > 0 THEN <<Obs(uid, "pt", a, ts - x.ts, ts - x.ts)>> ELSE <<>>, trimmed |-> TRUE]

(* Handle(LL, a, e, opt): the listener's eventHandler for the dispatched event e = [topic, topicC, ts, pl].
   Result: [L, err].  Every dispatched event of a known topic gets a history entry. *)
EvRec(LL, a, e, wf, notified, key, epoch, subs) ==
  [uid |-> LL.n + 1, a |-> a, topic |-> e.topic, topicC |-> e.topicC, wf |-> wf, notified |-> notified, key |-> key, epoch |-> epoch,
   slot |-> e.pl.slot.v, root |-> e.pl.root.v, subs |-> subs]
Fail(LL, a, e) == [L |-> [LL EXCEPT !.n = @ + 1, !.evs = Append(@, EvRec(LL, a, e, FALSE, FALSE, <<>>, 0, <<>>))], err |-> TRUE]
Subs(q) == IF Defect = "firstSubOnly" /\ Len(q) > 1 THEN <<q[1]>> ELSE q

HandleHead(LL, a, e, opt) ==
  LET pl == e.pl uid == LL.n + 1 IN
  IF pl.shape # "obj" \/ pl.slot.k # "ok" THEN Fail(LL, a, e)
  ELSE LET slot == pl.slot.v
           want == e.ts - SlotStart(slot)
           delay == IF Defect = "delayFromDispatch" THEN now - SlotStart(slot) ELSE want
           o1 == IF delay < conf.slotms THEN <<Obs(uid, "hd", a, delay, want)>> ELSE <<>>
           rec == Record(LL, uid, slot, a, e.ts, opt.trimNM)
           wf == pl.root.k = "ok"
           subs == Subs(LL.hsubs)
           calls == IF wf THEN [i \in 1..Len(subs) |-> Call(uid, "head", subs[i], slot, pl.root.v, a, 0)] ELSE <<>>
           L1 == [LL EXCEPT !.n = uid, !.gossip = rec.g, !.hslot[a] = slot,
                            !.trimN = IF rec.trimmed /\ slot > conf.spe THEN uid ELSE @,
                            !.trimSlot = IF rec.trimmed /\ slot > conf.spe THEN slot ELSE @,
                            !.obs = @ \o o1 \o rec.obs, !.calls = @ \o calls,
                            !.evs = Append(@, EvRec(LL, a, e, wf, wf, <<>>, 0, LL.hsubs))] IN
         [L |-> L1, err |-> ~wf]

HandleReorg(LL, a, e, opt) ==
  LET pl == e.pl uid == LL.n + 1 IN
  IF pl.shape # "obj" \/ pl.slot.k # "ok" \/ pl.depth.k # "ok" THEN Fail(LL, a, e)
  ELSE IF pl.slot.v < pl.depth.v THEN Fail(LL, a, e)
  ELSE LET epoch == (pl.slot.v - pl.depth.v) \div conf.spe
           key == <<pl.slot.v, pl.depth.v, pl.id>>
           notify == IF "dedup" \in Dev THEN epoch # LL.last ELSE key \notin LL.seen
           subs == Subs(LL.rsubs)
           calls == IF notify THEN [i \in 1..Len(subs) |-> Call(uid, "reorg", subs[i], 0, "", 0, epoch)] ELSE <<>>
           L1 == [LL EXCEPT !.n = uid, !.last = IF notify THEN epoch ELSE @, !.seen = IF notify THEN @ \cup {key} ELSE @,
                            !.calls = @ \o calls, !.obs = Append(@, Obs(uid, "rd", a, pl.depth.v, pl.depth.v)),
                            !.evs = Append(@, EvRec(LL, a, e, TRUE, notify, key, epoch, LL.rsubs))] IN
         [L |-> L1, err |-> FALSE]

HandleBlock(LL, a, e, gossip) ==
  LET pl == e.pl uid == LL.n + 1 IN
  IF pl.shape # "obj" \/ pl.slot.k \notin {"ok"} THEN Fail(LL, a, e)
  ELSE LET slot == pl.slot.v
           want == e.ts - SlotStart(slot)
           delay == IF Defect = "delayFromDispatch" THEN now - SlotStart(slot) ELSE want
           g == IF gossip THEN {x \in LL.gossip : ~(x.slot = slot /\ x.a = a)} \cup {[slot |-> slot, a |-> a, ts |-> e.ts, born |-> uid]}
                ELSE LL.gossip IN
         [L |-> [LL EXCEPT !.n = uid, !.gossip = g, !.obs = Append(@, Obs(uid, IF gossip THEN "bg" ELSE "bl", a, delay, want)),
                           !.evs = Append(@, EvRec(LL, a, e, TRUE, FALSE, <<>>, 0, <<>>))],
          err |-> FALSE]

Handle(LL, a, e, opt) ==
  CASE e.topic = "head" -> HandleHead(LL, a, e, opt)
    [] e.topic = "chain_reorg" -> HandleReorg(LL, a, e, opt)
    [] e.topic = "block_gossip" -> HandleBlock(LL, a, e, TRUE)
    [] e.topic = "block" -> HandleBlock(LL, a, e, FALSE)
    [] OTHER -> [L |-> LL, err |-> FALSE]

---------------------------------------------------------------------------------------------------
(* The client. *)
Dead(c) == [c EXCEPT !.st = "dead", !.goneK = IF c.st = "open" THEN @ \cup {c.k} ELSE @, !.p = NoP, !.part = FALSE]
\* backoff(): the delay of iteration boI, timer fires at w
\* (w = None: not known -- the latest the range allows)
ToBackoff(c, w) ==
  LET b == IF c.boSet THEN c.boBase ELSE c.retry
      i == IF c.boSet THEN c.boN ELSE 0 IN
    [c EXCEPT !.st = "backoff", !.boSet = TRUE, !.boBase = b, !.boI = i, !.boN = i + 1, !.since = now, !.free = FALSE,
              !.wake = IF w = None THEN now + BoHi(b, i) ELSE w,
              !.goneK = IF c.st = "open" THEN @ \cup {c.k} ELSE @, !.p = NoP, !.part = FALSE]
\* err == nil / io.EOF: the retry and the backoff are reset, connect is called again at once
ToRedial(c) == [c EXCEPT !.st = "dial", !.retry = DefaultRetry, !.boSet = FALSE, !.p = NoP, !.part = FALSE]
\* CONTRACT: the client is started again after a delay of its own (at most FreeMax); start's backoff begins anew
FreeBackoff(c, w) == [c EXCEPT !.st = "backoff", !.free = TRUE, !.boSet = FALSE, !.since = now,
                               !.wake = IF w = None THEN now + FreeMax ELSE w,
                               !.goneK = IF c.st = "open" THEN @ \cup {c.k} ELSE @, !.p = NoP, !.part = FALSE]
WakeOK(c) == IF c.free THEN c.wake >= c.since /\ c.wake <= c.since + FreeMax
             ELSE c.wake >= c.since + BoLo(c.boBase, c.boI) /\ c.wake <= c.since + BoHi(c.boBase, c.boI)
\* a connection-level failure that the tree treats as final when its deviation is on; the contract wants the client back
Fatal(c, dev, w) == IF dev \in Dev THEN Dead(c) ELSE FreeBackoff(c, w)

(* Step(c, LL, a, ln, opt): parseEvent consumes one complete line. opt = [bad, trimNM, w] *)
Step(c, LL, a, ln, opt) ==
  CASE ln.f = "blank" ->
         LET ne == SelectSeq(c.p.data, LAMBDA x : x.n > 0)
             fresh == IF Defect = "stickyEvent" THEN [NoP EXCEPT !.ev = c.p.ev, !.ts = c.p.ts] ELSE NoP IN
           IF ne = <<>> THEN [c |-> [c EXCEPT !.p = fresh], L |-> LL]
           ELSE LET h == Handle(LL, a, [topic |-> c.p.ev, topicC |-> c.p.evC, ts |-> c.p.ts, pl |-> Joined(ne)], opt) IN
                  IF ~h.err \/ opt.bad = "skip" THEN [c |-> [c EXCEPT !.p = fresh], L |-> h.L]
                  ELSE IF opt.bad = "die" THEN [c |-> Dead(c), L |-> h.L]
                  ELSE [c |-> FreeBackoff(c, opt.w), L |-> h.L]
    [] ln.f = "event" -> [c |-> [c EXCEPT !.p.ev = EvName(ln), !.p.evC = EvName(ln), !.p.ts = now], L |-> LL]
    [] ln.f = "data" -> [c |-> [c EXCEPT !.p.data = Append(@, Piece(ln))], L |-> LL]
    [] ln.f = "retry" -> [c |-> IF ln.nc \/ ~ln.okn THEN c ELSE [c EXCEPT !.retry = ln.ms], L |-> LL]
    [] OTHER -> [c |-> c, L |-> LL]
RECURSIVE Run(_, _, _, _, _)
Run(c, LL, a, lines, opt) ==
  IF lines = <<>> \/ c.st # "open" THEN [c |-> c, L |-> LL]
  ELSE LET r == Step(c, LL, a, Head(lines), opt) IN Run(r.c, r.L, a, Tail(lines), opt)

\* what a client does with a bad event: the tree ends it; the contract skips the event or reconnects
BadModes == IF "badevent" \in Dev THEN {"die"} ELSE {"skip", "redial"}
TrimModes == IF TrimOn = "either" THEN BOOLEAN ELSE {FALSE}

---------------------------------------------------------------------------------------------------
(* Actions. *)
\* ENVIRONMENT: StartListener(ctx, eth2Cl, addresses, headers)
Start == /\ ctx = "idle"
         /\ IF conf.hdrok
              THEN /\ ctx' = "run"
                   /\ cl' = [a \in Addrs |-> [IdleCl EXCEPT !.st = IF conf.akind[a] = "ok" THEN "dial" ELSE "none"]]
              ELSE ctx' = "failed" /\ UNCHANGED cl
         /\ UNCHANGED <<now, conf, L>>
\* ENVIRONMENT: Subscribe*Event
Sub(kind, id) == /\ ctx \in {"run", "stopped"}
                 /\ L' = IF kind = "head" THEN [L EXCEPT !.hsubs = Append(@, id)] ELSE [L EXCEPT !.rsubs = Append(@, id)]
                 /\ UNCHANGED <<now, conf, ctx, cl>>
\* connect: httpClient.Do; ENVIRONMENT decides the outcome (how = "refuse" | "http" with a status code)
Dial(a, how, code, w) ==
  /\ ctx = "run" /\ cl[a].st = "dial"
  /\ LET c == [cl[a] EXCEPT !.k = @ + 1] IN
       cl' = [cl EXCEPT ![a] = IF how = "refuse" THEN ToBackoff(c, w)
                                ELSE IF code = 200 THEN [c EXCEPT !.st = "open", !.p = NoP, !.part = FALSE]
                                ELSE Fatal(c, "status", w)]
  /\ UNCHANGED <<now, conf, ctx, L>>
Wake(a) == /\ ctx = "run" /\ cl[a].st = "backoff" /\ now >= cl[a].wake
           /\ cl' = [cl EXCEPT ![a].st = "dial"]
           /\ UNCHANGED <<now, conf, ctx, L>>
\* ENVIRONMENT: the beacon node sends bytes that complete `lines`; part = an incomplete line is pending afterwards
Feed(a, lines, part, opt) ==
  /\ ctx = "run" /\ cl[a].st = "open"
  /\ LET r == Run(cl[a], L, a, lines, opt) IN
       /\ cl' = [cl EXCEPT ![a] = IF r.c.st = "open" THEN [r.c EXCEPT !.part = part] ELSE r.c]
       /\ L' = r.L
  /\ UNCHANGED <<now, conf, ctx>>
\* ENVIRONMENT: the stream ends
Close(a, how, w) ==
  /\ ctx = "run" /\ cl[a].st = "open"
  /\ LET c == [cl[a] EXCEPT !.st = "closed"] IN      \* the server closed: not the client's doing (goneK)
       cl' = [cl EXCEPT ![a] = CASE how = "eof" -> IF c.part THEN Fatal(c, "partial", w) ELSE ToRedial(c)
                                  [] how = "abrupt" -> ToBackoff(c, w)
                                  [] how = "reset" -> Fatal(c, "readerr", w)]
  /\ UNCHANGED <<now, conf, ctx, L>>
\* ENVIRONMENT: the context of StartListener is cancelled
Cancel == /\ ctx = "run" /\ ctx' = "stopped"
          /\ cl' = [a \in Addrs |-> IF cl[a].st = "none" THEN cl[a]
                                    ELSE [cl[a] EXCEPT !.st = "stopped", !.goneK = IF cl[a].st = "open" THEN @ \cup {cl[a].k} ELSE @]]
          /\ UNCHANGED <<now, conf, L>>

Quiet == ctx # "run" \/ \A a \in Addrs : cl[a].st \in {"none", "open", "dead"} \/ (cl[a].st = "backoff" /\ now < cl[a].wake)
          \/ cl[a].st = "dial"      \* a dial is answered by the environment: the trace decides when (same instant in the executor)
Timers == IF ctx = "run" THEN {cl[a].wake : a \in {x \in Addrs : cl[x].st = "backoff"}} ELSE {}
NextTimer == IF Timers = {} THEN Inf ELSE Min(Timers)
MustDial == ctx = "run" /\ \E a \in Addrs : cl[a].st = "dial"
Tick(to) == /\ ~MustDial /\ Quiet /\ to > now /\ to <= NextTimer /\ now' = to
            /\ UNCHANGED <<conf, ctx, cl, L>>

---------------------------------------------------------------------------------------------------
(* CONTRACT.  app.go: head events drive the early attestation fetch, chain-reorg events invalidate the duties cache, the
   scheduler's resolved duties and the fetcher's early attestation data. *)
EvH(i) == L.evs[i]
EvIdx == 1..Len(L.evs)
CallsOf(uid) == SelectSeq(L.calls, LAMBDA c : c.uid = uid)
\* every well-formed head event received from any address is delivered to every subscriber registered before it, once, with the
\* slot / root / address it carried
HeadDelivered == \A i \in EvIdx : (EvH(i).topicC = "head" /\ EvH(i).wf) =>
                    LET cs == CallsOf(EvH(i).uid) IN
                      /\ Len(cs) = Len(EvH(i).subs)
                      /\ \A j \in 1..Len(cs) : cs[j] = Call(EvH(i).uid, "head", EvH(i).subs[j], EvH(i).slot, EvH(i).root, EvH(i).a, 0)
\* no notification without a well-formed event of that kind (malformed events, unknown topics, comments never notify)
NoSpurious == \A j \in 1..Len(L.calls) : \E i \in EvIdx :
                 /\ EvH(i).uid = L.calls[j].uid /\ EvH(i).wf
                 /\ EvH(i).topicC = (IF L.calls[j].k = "head" THEN "head" ELSE "chain_reorg")
\* a notified reorg reaches every subscriber registered before it, with the epoch the chain was reorged back to
ReorgDelivered == \A i \in EvIdx : (EvH(i).topicC = "chain_reorg" /\ EvH(i).notified) =>
                    LET cs == CallsOf(EvH(i).uid) IN
                      /\ Len(cs) = Len(EvH(i).subs)
                      /\ \A j \in 1..Len(cs) : cs[j] = Call(EvH(i).uid, "reorg", EvH(i).subs[j], 0, "", 0, EvH(i).epoch)
\* every reorg is notified: an event is only swallowed when THAT reorg (another beacon node's report of it) was notified before
ReorgCovered == \A i \in EvIdx : (EvH(i).topicC = "chain_reorg" /\ EvH(i).wf) =>
                    \/ EvH(i).notified
                    \/ \E j \in 1..(i - 1) : EvH(j).topicC = "chain_reorg" /\ EvH(j).notified /\ EvH(j).key = EvH(i).key
\* ... and at most once
ReorgOnce == \A i, j \in EvIdx : (i < j /\ EvH(i).topicC = "chain_reorg" /\ EvH(j).topicC = "chain_reorg"
                                   /\ EvH(i).notified /\ EvH(j).notified) => EvH(i).key # EvH(j).key
\* what the tree's de-duplication does guarantee: a swallowed event has the epoch of the latest notification
ReorgAsCoded == \A i \in EvIdx : (EvH(i).topicC = "chain_reorg" /\ EvH(i).wf /\ ~EvH(i).notified /\ "dedup" \in Dev) =>
                    \/ (EvH(i).epoch = 0 /\ \A j \in 1..(i - 1) : ~(EvH(j).topicC = "chain_reorg" /\ EvH(j).notified))
                    \/ \E j \in 1..(i - 1) : /\ EvH(j).topicC = "chain_reorg" /\ EvH(j).notified /\ EvH(j).epoch = EvH(i).epoch
                                             /\ \A m \in (j + 1)..(i - 1) : ~(EvH(m).topicC = "chain_reorg" /\ EvH(m).notified)
\* no beacon node's subscription ends while the listener runs
ClientAlive == ctx = "run" => \A a \in Addrs : cl[a].st # "dead"
\* a client waits for its backoff, within the documented range
WakeInRange == \A a \in Addrs : cl[a].st = "backoff" => WakeOK(cl[a])
\* delays are measured from the start of the event's slot to the receipt of the event
DelayFromSlotStart == \A j \in 1..Len(L.obs) : L.obs[j].v = L.obs[j].want
\* the gossip times stay bounded: whatever was there when a head event trimmed is not older than one epoch before that head
TrimBound == \A x \in L.gossip : (x.born < L.trimN) => x.slot >= L.trimSlot - conf.spe
GossipKeys == \A x, y \in L.gossip : (x.slot = y.slot /\ x.a = y.a) => x = y
TypeOK == /\ now \in Nat /\ ctx \in {"idle", "run", "failed", "stopped"}
          /\ \A a \in Addrs : cl[a].st \in {"idle", "none", "dial", "open", "backoff", "dead", "stopped"}
          /\ \A a \in Addrs : cl[a].st # "open" => cl[a].p = NoP \/ cl[a].st = "stopped"
Safety == /\ HeadDelivered /\ NoSpurious /\ ReorgDelivered /\ ReorgAsCoded /\ WakeInRange /\ DelayFromSlotStart /\ TrimBound
          /\ GossipKeys /\ TypeOK
          /\ ("dedup" \notin Dev => ReorgCovered /\ ReorgOnce)
          /\ (Dev \cap {"badevent", "status", "readerr", "partial"} = {} => ClientAlive)
====
