SPECIFICATION MCSpec
CONSTANTS
 Addrs = {1}
 DefaultRetry = 5
 Slack = 0
 FreeMax = 10
 Dev = {"status"}
 TrimOn = "match"
 Defect = "none"
 MaxFeeds = 1
 MaxDials = 2
 MaxTime = 0
 MaxSubs = 1
 FeedSet <- FramesLife
 DialSet <- DialAll
 CloseSet <- CloseNone
 AllowCancel = FALSE
 Spe = 4
 Gen <- Gen0
 AKinds <- AllOK
INVARIANTS ClientAlive
CHECK_DEADLOCK FALSE
