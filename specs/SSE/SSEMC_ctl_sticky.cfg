SPECIFICATION MCSpec
CONSTANTS
 Addrs = {1}
 DefaultRetry = 5
 Slack = 0
 FreeMax = 10
 Dev = {"badevent", "status", "readerr", "partial", "dedup"}
 TrimOn = "match"
 Defect = "stickyEvent"
 MaxFeeds = 5
 MaxDials = 1
 MaxTime = 0
 MaxSubs = 1
 FeedSet <- LinesFraming
 DialSet <- DialOK
 CloseSet <- CloseNone
 AllowCancel = FALSE
 Spe = 4
 Gen <- Gen0
 AKinds <- AllOK
INVARIANTS NoSpurious
CHECK_DEADLOCK FALSE
