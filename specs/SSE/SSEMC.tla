---- MODULE SSEMC ----
(* Exhaustive design check of SSE.tla: every interleaving of the clients of up to two beacon node addresses -- what the
   environment answers to a dial, which lines / frames it sends (alphabets below), how and when a stream ends, Start /
   Subscribe / Cancel at every position, the clock.  Bounds (all here, none in the actions):
     MaxFeeds  number of Feed steps          MaxDials  connects per address        MaxTime  the clock stops there
     MaxSubs   subscribers per kind          FeedSet / DialSet / CloseSet          the environment's alphabets
   Model time: DefaultRetry = 5, jitter fixed (rfp = 500): the backoff delays are 5, 8, 10, 10 ... *)
EXTENDS SSE
CONSTANTS MaxFeeds, MaxDials, MaxTime, MaxSubs, FeedSet, DialSet, CloseSet, AllowCancel, Spe, Gen, AKinds
VARIABLE fed
mcvars == <<vars, fed>>

Pl(shape, sk, sv, dk, dv, rk, rv, id) ==
  [shape |-> shape, slot |-> [k |-> sk, v |-> sv], depth |-> [k |-> dk, v |-> dv], root |-> [k |-> rk, v |-> rv], id |-> id, r |-> ""]
HeadOK(s) == Pl("obj", "ok", s, "bad", 0, "ok", "0xaa", "")
HeadBadRoot(s) == Pl("obj", "ok", s, "bad", 0, "bad", "", "")
HeadBig == Pl("obj", "big63", 0, "bad", 0, "ok", "0xaa", "")
BadShape == Pl("str", "bad", 0, "bad", 0, "bad", "", "")
Reorg(s, d, id) == Pl("obj", "ok", s, "ok", d, "bad", "", id)
ReorgBadDepth == Pl("obj", "ok", 3, "bad", 0, "bad", "", "q")
Blk(s) == Pl("obj", "ok", s, "bad", 0, "bad", "", "")

Ln(f, v, pl, i, n, cut) == [f |-> f, nc |-> FALSE, sp |-> 1, v |-> v, pl |-> pl, i |-> i, n |-> n, cut |-> cut, ms |-> 0, okn |-> FALSE]
Blank == Ln("blank", "", Garbage, 0, 0, "tok")
Comment == Ln("comment", "", Garbage, 0, 0, "tok")
Other == Ln("other", "", Garbage, 0, 0, "tok")
EvLn(t) == Ln("event", t, Garbage, 0, 0, "tok")
EvLn2(t) == [EvLn(t) EXCEPT !.sp = 2]
EvNoColon == [EvLn("head") EXCEPT !.nc = TRUE]
Data(pl) == Ln("data", "", pl, 1, 1, "tok")
DataPart(pl, i, n, cut) == Ln("data", "", pl, i, n, cut)
DataEmpty == Ln("data", "", Garbage, 0, 0, "tok")
DataNoColon == [Data(Garbage) EXCEPT !.nc = TRUE]
Retry(ms) == [Ln("retry", "", Garbage, 0, 0, "tok") EXCEPT !.ms = ms, !.okn = TRUE]
RetryBad == Ln("retry", "", Garbage, 0, 0, "tok")
F(lines) == [lines |-> lines, part |-> FALSE]
Frame(t, pl) == F(<<EvLn(t), Data(pl), Blank>>)
Partial == [lines |-> <<>>, part |-> TRUE]

\* alphabets
LinesFraming == {F(<<x>>) : x \in {Blank, Comment, EvLn("head"), EvLn2("head"), EvLn("finalized"), EvNoColon, Data(HeadOK(1)), DataEmpty,
                                  DataNoColon, DataPart(HeadOK(1), 1, 2, "tok"), DataPart(HeadOK(1), 2, 2, "tok"),
                                  DataPart(HeadOK(1), 1, 2, "str"), Data(BadShape), Other}}
FramesReorg == {Frame("chain_reorg", Reorg(5, 1, "x")), Frame("chain_reorg", Reorg(6, 1, "y")), Frame("chain_reorg", Reorg(9, 1, "z")),
                Frame("chain_reorg", Reorg(2, 1, "w")), Frame("chain_reorg", Reorg(1, 2, "v")), Frame("chain_reorg", ReorgBadDepth)}
FramesReorgSmall == {Frame("chain_reorg", Reorg(5, 1, "x")), Frame("chain_reorg", Reorg(6, 1, "y")), Frame("chain_reorg", Reorg(9, 1, "z")),
                     Frame("chain_reorg", Reorg(2, 1, "w"))}
FramesMixed == {Frame("head", HeadOK(1)), Frame("head", BadShape), Frame("head", HeadBadRoot(2)), Frame("head", HeadBig),
                Frame("chain_reorg", Reorg(5, 1, "x")), Frame("chain_reorg", Reorg(6, 1, "y")), Frame("block", BadShape),
                Frame("finalized", BadShape), F(<<EvLn("head"), Data(HeadOK(3))>>), F(<<Blank>>)}
FramesLife == {Frame("head", HeadOK(1)), F(<<Retry(2)>>), F(<<Retry(0)>>), F(<<RetryBad>>), Partial, Frame("head", BadShape)}
FramesGossip == {Frame("block_gossip", Blk(1)), Frame("block_gossip", Blk(3)), Frame("block_gossip", Blk(4)), Frame("block_gossip", Blk(6)),
                 Frame("head", HeadOK(1)), Frame("head", HeadOK(4)), Frame("head", HeadOK(6)), Frame("head", HeadOK(7)),
                 Frame("block", Blk(6)), Frame("head", HeadBadRoot(6))}
FramesGossipSmall == {Frame("block_gossip", Blk(1)), Frame("block_gossip", Blk(4)), Frame("head", HeadOK(1)), Frame("head", HeadOK(4)),
                      Frame("head", HeadOK(7)), Frame("head", HeadBadRoot(4))}
FramesSplit == {F(<<EvLn("head")>>), F(<<Data(HeadOK(1))>>), F(<<Blank>>), F(<<EvLn("block_gossip")>>), F(<<Data(Blk(1))>>)}
DialOK == {[how |-> "http", code |-> 200]}
DialAll == {[how |-> "http", code |-> 200], [how |-> "http", code |-> 503], [how |-> "refuse", code |-> 0]}
DialRefuse == {[how |-> "http", code |-> 200], [how |-> "refuse", code |-> 0]}
CloseNone == {}
CloseAll == {"eof", "abrupt", "reset"}
CloseSoft == {"eof", "abrupt"}
GenM20 == -20
GenM2 == -2
Gen0 == 0
AllOK == [a \in Addrs |-> "ok"]
OneBad == [a \in Addrs |-> IF a = 1 THEN "ok" ELSE "bad"]

MCConf == [gen |-> Gen, slotms |-> 4, spe |-> Spe, akind |-> AKinds, hdrok |-> TRUE, rfp |-> 500]
MCInit == InitWith(MCConf) /\ fed = 0
WSet == {now + d : d \in {0, 2, 3, 4, 5, 8, 10}}
\* the wake-up time only matters when a bad event makes the client reconnect (contract)
Opts == IF "badevent" \in Dev THEN {[bad |-> "die", trimNM |-> t, w |-> now] : t \in TrimModes}
        ELSE {[bad |-> "skip", trimNM |-> t, w |-> now] : t \in TrimModes}
             \cup {[bad |-> "redial", trimNM |-> t, w |-> x] : t \in TrimModes, x \in {now, now + 5}}
WakesOK == \A a \in Addrs : cl'[a].st = "backoff" => WakeOK(cl'[a])
MCNext ==
  \/ (Start /\ UNCHANGED fed)
  \/ (Len(L.hsubs) < MaxSubs /\ Sub("head", Len(L.hsubs) + 1) /\ UNCHANGED fed)
  \/ (Len(L.rsubs) < MaxSubs /\ Sub("reorg", Len(L.rsubs) + 1) /\ UNCHANGED fed)
  \/ \E a \in Addrs : \E d \in DialSet : \E w \in WSet :
        cl[a].k < MaxDials /\ Dial(a, d.how, d.code, w) /\ WakesOK /\ UNCHANGED fed
  \/ \E a \in Addrs : Wake(a) /\ UNCHANGED fed
  \/ \E a \in Addrs : \E fr \in FeedSet : \E opt \in Opts :
        fed < MaxFeeds /\ Feed(a, fr.lines, fr.part, opt) /\ WakesOK /\ fed' = fed + 1
  \/ \E a \in Addrs : \E h \in CloseSet : \E w \in WSet : cl[a].k < MaxDials /\ Close(a, h, w) /\ WakesOK /\ UNCHANGED fed
  \/ (AllowCancel /\ Cancel /\ UNCHANGED fed)
  \/ \E to \in {now + 1, NextTimer} : to <= MaxTime /\ Tick(to) /\ UNCHANGED fed
MCSpec == MCInit /\ [][MCNext]_mcvars

(* Liveness: a client that lost its connection (or was refused) is connected again -- provided the clock goes on, the
   environment answers the dials and eventually accepts (MaxDials bounds the refusals: the last dial allowed is answered
   with 200). *)
\* the clock of the model stops at MaxTime: there a pending backoff timer is allowed to fire without the clock moving
Sat(a) == /\ now = MaxTime /\ ctx = "run" /\ cl[a].st = "backoff" /\ cl[a].wake > now
          /\ cl' = [cl EXCEPT ![a].st = "dial"] /\ UNCHANGED <<now, conf, ctx, L, fed>>
LiveNext == \/ MCNext
            \/ \E a \in Addrs : cl[a].k >= MaxDials /\ Dial(a, "http", 200, now) /\ UNCHANGED fed
            \/ \E a \in Addrs : Sat(a)
Fair == /\ \A a \in Addrs : WF_mcvars(Wake(a) /\ UNCHANGED fed) /\ WF_mcvars(Sat(a))
        /\ \A a \in Addrs : WF_mcvars(\E d \in DialOK : Dial(a, d.how, d.code, now) /\ UNCHANGED fed)
        /\ WF_mcvars(\E to \in {now + 1, NextTimer} : to <= MaxTime /\ Tick(to) /\ UNCHANGED fed)
FairSpec == MCInit /\ [][LiveNext]_mcvars /\ Fair
\* CONTRACT: a client that is not connected gets connected again (as long as the listener runs)
Reconnects == \A a \in Addrs : (ctx = "run" /\ cl[a].st \in {"dial", "backoff"}) ~> (ctx # "run" \/ cl[a].st = "open")
\* ... whatever happened to it before (the tree's "dead" state is absorbing)
AlwaysBack == \A a \in Addrs : (ctx = "run" /\ conf.akind[a] = "ok" /\ cl[a].st = "dead") ~> (ctx # "run" \/ cl[a].st = "open")
\* AS CODED: it gets connected again -- or its goroutine has ended
ReconnectsAsCoded == \A a \in Addrs : (ctx = "run" /\ cl[a].st \in {"dial", "backoff"}) ~> (ctx # "run" \/ cl[a].st \in {"open", "dead"})
====
