SPECIFICATION GenSpec
CONSTANTS
 Addrs = {1, 2}
 DefaultRetry = 5
 Slack = 0
 FreeMax = 10
 Dev = {"badevent", "status", "readerr", "partial", "dedup"}
 TrimOn = "match"
 Defect = "none"
 MaxFeeds = 99
 MaxDials = 5
 MaxTime = 60
 MaxSubs = 2
 FeedSet <- FramesLife
 DialSet <- DialAll
 CloseSet <- CloseAll
 AllowCancel = TRUE
 Spe = 2
 Gen <- GenM20
 AKinds <- AllOK
 GenLen = 16
 GenFeeds <- GFeedsLife
INVARIANTS Emit
CONSTRAINT Stop
CHECK_DEADLOCK FALSE
