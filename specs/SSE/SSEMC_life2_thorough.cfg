SPECIFICATION MCSpec
CONSTANTS
 Addrs = {1, 2}
 DefaultRetry = 5
 Slack = 0
 FreeMax = 10
 Dev = {"badevent", "status", "readerr", "partial", "dedup"}
 TrimOn = "match"
 Defect = "none"
 MaxFeeds = 1
 MaxDials = 2
 MaxTime = 8
 MaxSubs = 1
 FeedSet <- FramesLife
 DialSet <- DialAll
 CloseSet <- CloseAll
 AllowCancel = TRUE
 Spe = 4
 Gen <- Gen0
 AKinds <- AllOK
INVARIANTS Safety
CHECK_DEADLOCK FALSE
