SPECIFICATION FairSpec
CONSTANTS
 Addrs = {1}
 DefaultRetry = 5
 Slack = 0
 FreeMax = 10
 Dev = {"badevent", "status", "readerr", "partial", "dedup"}
 TrimOn = "match"
 Defect = "none"
 MaxFeeds = 1
 MaxDials = 2
 MaxTime = 14
 MaxSubs = 1
 FeedSet <- FramesLife
 DialSet <- DialAll
 CloseSet <- CloseAll
 AllowCancel = FALSE
 Spe = 4
 Gen <- Gen0
 AKinds <- AllOK
PROPERTIES ReconnectsAsCoded
CHECK_DEADLOCK FALSE
