SPECIFICATION MCSpec
CONSTANTS
 Addrs = {1}
 DefaultRetry = 5
 Slack = 0
 FreeMax = 10
 Dev = {"badevent", "status", "readerr", "partial", "dedup"}
 TrimOn = "match"
 Defect = "firstSubOnly"
 MaxFeeds = 3
 MaxDials = 1
 MaxTime = 0
 MaxSubs = 2
 FeedSet <- FramesMixed
 DialSet <- DialOK
 CloseSet <- CloseNone
 AllowCancel = FALSE
 Spe = 4
 Gen <- Gen0
 AKinds <- AllOK
INVARIANTS HeadDelivered
CHECK_DEADLOCK FALSE
