SPECIFICATION MCSpec
CONSTANTS
 Addrs = {1, 2}
 DefaultRetry = 5
 Slack = 0
 FreeMax = 10
 Dev = {"badevent", "status", "readerr", "partial", "dedup"}
 TrimOn = "match"
 Defect = "none"
 MaxFeeds = 4
 MaxDials = 1
 MaxTime = 0
 MaxSubs = 1
 FeedSet <- FramesReorgSmall
 DialSet <- DialOK
 CloseSet <- CloseNone
 AllowCancel = FALSE
 Spe = 4
 Gen <- Gen0
 AKinds <- AllOK
INVARIANTS ReorgCovered
CHECK_DEADLOCK FALSE
