SPECIFICATION FairSpec
CONSTANTS
 Addrs = {1}
 DefaultRetry = 5
 Slack = 0
 FreeMax = 10
 Dev = {"status"}
 TrimOn = "match"
 Defect = "none"
 MaxFeeds = 0
 MaxDials = 2
 MaxTime = 12
 MaxSubs = 1
 FeedSet <- FramesLife
 DialSet <- DialAll
 CloseSet <- CloseAll
 AllowCancel = FALSE
 Spe = 4
 Gen <- Gen0
 AKinds <- AllOK
PROPERTIES AlwaysBack
CHECK_DEADLOCK FALSE
