SPECIFICATION MCSpec
CONSTANTS
 Addrs = {1}
 DefaultRetry = 5
 Slack = 0
 FreeMax = 10
 Dev = {}
 TrimOn = "match"
 Defect = "none"
 MaxFeeds = 3
 MaxDials = 2
 MaxTime = 2
 MaxSubs = 1
 FeedSet <- FramesMixed
 DialSet <- DialAll
 CloseSet <- CloseAll
 AllowCancel = FALSE
 Spe = 4
 Gen <- Gen0
 AKinds <- AllOK
INVARIANTS Safety
CHECK_DEADLOCK FALSE
