SPECIFICATION MCSpec
CONSTANTS
 Addrs = {1}
 DefaultRetry = 5
 Slack = 0
 FreeMax = 10
 Dev = {"badevent", "status", "readerr", "partial", "dedup"}
 TrimOn = "match"
 Defect = "none"
 MaxFeeds = 6
 MaxDials = 1
 MaxTime = 3
 MaxSubs = 1
 FeedSet <- FramesSplit
 DialSet <- DialOK
 CloseSet <- CloseNone
 AllowCancel = FALSE
 Spe = 4
 Gen <- GenM2
 AKinds <- AllOK
INVARIANTS Safety
CHECK_DEADLOCK FALSE
