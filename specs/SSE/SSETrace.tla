---- MODULE SSETrace ----
(* Trace validation for app/sse.  The executor (harness/sse) runs every schedule inside a testing/synctest bubble: virtual
   time, exact, advancing only when every goroutine is durably blocked -- the design spec's Tick / Quiet.  Events carry the
   virtual time t in ms since the bubble's start; they are written under one mutex by the goroutine that acts, stimuli BEFORE
   they are applied, so the log is a linearisation:

     Reset  {sid, n, akind, gen, slotms, spe, hdrok, rfp}   configuration: n addresses (kind "ok" | "bad": url.Parse rejects it),
                                                            genesis (ms, relative to the bubble's start), slot duration, slots
                                                            per epoch, whether the headers parse, the fixed jitter of expbackoff
     Start / Started {ok}                                   StartListener is about to be called / has returned (without error?)
     Sub    {kind, id}                                      Subscribe{Head,ChainReorg}Event is about to be called
     Dial   {a, k, how, code, path, topics, accept, hdr}    the k-th connect of address a reached the environment, which refuses it
                                                            or answers the request (whose shape is recorded) with `code`
     Chunk  {a, k, ln, part}                                bytes are about to be written to connection k of a: they complete the
                                                            lines ln (descriptors, see SSE.tla); part: an incomplete line is pending
     Out    {a, calls, obs, hs}                             the system is quiescent again: what the subscribers were called with
                                                            since, which of the listener's histograms moved (count, sum in ms), the
                                                            head-slot gauge of a
     NoListener                                             a Sub step after StartListener failed
     Skip   {a}                                             a Chunk step that continues a line whose beginning this connection never got: not applied
     NoConn {a}                                             a Chunk / Close step found no open connection of a
     Close  {a, k, how}                                     the environment is about to end connection k: "eof" | "abrupt" | "reset"
     Gone   {a, k}                                          the server saw the CLIENT close connection k
     Cancel                                                 the listener's context is about to be cancelled
     End                                                    the schedule is drained

   Start, Sub, Dial's outcome, Chunk, Close, Cancel are the environment's moves; that a Dial happens (and when) is the client's.
   Out, Gone are observations.  Silent steps: Wake, Tick.  The unlogged backoff delay is taken from the client's next Dial
   (prophecy); WakeInRange judges it. *)
EXTENDS SSE, TraceCommon
VARIABLES exp,       \* what the pending Out event must show
          obsGone    \* hang-ups of the client seen so far
tvars == <<vars, tr, l, exp, obsGone>>
NoExp == [on |-> FALSE, a |-> 0, calls |-> <<>>, obs |-> <<>>]
ConfOf(r) == [gen |-> r.gen, slotms |-> r.slotms, spe |-> r.spe, hdrok |-> r.hdrok, rfp |-> r.rfp,
              akind |-> [a \in Addrs |-> IF a <= r.n THEN r.akind[a] ELSE "bad"]]
TraceInit == TrInit /\ InitWith(ConfOf(Traces[tr][1])) /\ exp = NoExp /\ obsGone = {}

AtT == now = Ev.t
KnownA == Ev.a \in Addrs
Named(name, p) == IF p THEN TRUE ELSE InvFail(name)
Idle == ~exp.on
\* the time of the client's next connect, if the trace has one
Proph(a) == LET K == {k \in (l + 1)..TLen : Trace[k].ev = "Dial" /\ Trace[k].a = a} IN IF K = {} THEN None ELSE Trace[Min(K)].t

TReset == IsEvent("Reset") /\ l = 1 /\ UNCHANGED <<vars, exp, obsGone>>
TStart == IsEvent("Start") /\ AtT /\ Idle /\ Start /\ UNCHANGED <<exp, obsGone>>
TStarted == /\ IsEvent("Started") /\ AtT /\ Idle /\ ctx # "idle" /\ Named("StartResult", Ev.ok = (ctx # "failed"))
            /\ UNCHANGED <<vars, exp, obsGone>>
TSub == IsEvent("Sub") /\ AtT /\ Idle /\ Sub(Ev.kind, Ev.id) /\ UNCHANGED <<exp, obsGone>>
TDial == /\ IsEvent("Dial") /\ AtT /\ KnownA
         /\ Named("UnexpectedDial", ctx = "run" /\ cl[Ev.a].st = "dial")
         /\ Ev.how \in {"refuse", "http"}
         /\ Dial(Ev.a, Ev.how, Ev.code, Proph(Ev.a))
         /\ Named("DialNumber", cl'[Ev.a].k = Ev.k)
         /\ Named("RequestShape", Ev.how = "http" => /\ Ev.path = "/eth/v1/events" /\ SeqToSet(Ev.topics) = Topics /\ Len(Ev.topics) = 4
                                                     /\ Ev.accept = "text/event-stream" /\ Ev.hdr = "abc")
         /\ UNCHANGED <<exp, obsGone>>
Strip(q) == [i \in 1..Len(q) |-> [k |-> q[i].k, sub |-> q[i].sub, slot |-> q[i].slot, root |-> q[i].root, a |-> q[i].a, epoch |-> q[i].epoch]]
Suffix(q, n) == SubSeq(q, n + 1, Len(q))
TChunk == /\ IsEvent("Chunk") /\ AtT /\ KnownA /\ Idle
          /\ Named("ConnUnexpected", cl[Ev.a].st = "open" /\ cl[Ev.a].k = Ev.k)
          /\ \E bad \in BadModes : \E tn \in TrimModes : Feed(Ev.a, Ev.ln, Ev.part, [bad |-> bad, trimNM |-> tn, w |-> Proph(Ev.a)])
          /\ exp' = [on |-> TRUE, a |-> Ev.a, calls |-> Strip(Suffix(L'.calls, Len(L.calls))), obs |-> Suffix(L'.obs, Len(L.obs))]
          /\ UNCHANGED obsGone
Keys(q) == {<<q[i].a, q[i].m>> : i \in DOMAIN q}
IdxOf(q, key) == {i \in DOMAIN q : q[i].a = key[1] /\ q[i].m = key[2]}
RECURSIVE SumOf(_, _)
SumOf(q, S) == IF S = {} THEN 0 ELSE LET i == CHOOSE x \in S : TRUE IN q[i].v + SumOf(q, S \ {i})
Agg(q) == {[a |-> key[1], m |-> key[2], cnt |-> Cardinality(IdxOf(q, key)), sum |-> SumOf(q, IdxOf(q, key))] : key \in Keys(q)}
TOut == /\ IsEvent("Out") /\ AtT /\ exp.on /\ Ev.a = exp.a
        /\ Named("Calls", Ev.calls = exp.calls)
        /\ Named("Metrics", SeqToSet(Ev.obs) = Agg(exp.obs))
        /\ Named("HeadSlotGauge", L.hslot[exp.a] # None => Ev.hs = L.hslot[exp.a])
        /\ exp' = NoExp /\ UNCHANGED <<vars, obsGone>>
TNoConn == /\ IsEvent("NoConn") /\ AtT /\ KnownA /\ Idle /\ Named("ConnExpected", cl[Ev.a].st # "open")
           /\ UNCHANGED <<vars, exp, obsGone>>
\* a Chunk step that continues a line this connection has not seen the beginning of: not applied
TSkip == IsEvent("Skip") /\ AtT /\ KnownA /\ Idle /\ UNCHANGED <<vars, exp, obsGone>>
TClose == /\ IsEvent("Close") /\ AtT /\ KnownA /\ Idle
          /\ Named("ConnUnexpected", cl[Ev.a].st = "open" /\ cl[Ev.a].k = Ev.k)
          /\ Close(Ev.a, Ev.how, Proph(Ev.a)) /\ UNCHANGED <<exp, obsGone>>
TGone == /\ IsEvent("Gone") /\ AtT /\ KnownA /\ <<Ev.a, Ev.k>> \notin obsGone
         /\ Named("UnexpectedHangup", Ev.k \in cl[Ev.a].goneK)
         /\ obsGone' = obsGone \cup {<<Ev.a, Ev.k>>} /\ UNCHANGED <<vars, exp>>
TNoListener == IsEvent("NoListener") /\ AtT /\ Idle /\ ctx = "failed" /\ UNCHANGED <<vars, exp, obsGone>>
TCancel == /\ IsEvent("Cancel") /\ AtT /\ Idle /\ UNCHANGED <<exp, obsGone>>
           /\ IF ctx = "run" THEN Cancel ELSE ctx \in {"failed", "stopped"} /\ UNCHANGED vars
TEnd == /\ IsEvent("End") /\ AtT /\ Idle /\ UNCHANGED <<vars, exp, obsGone>>
        /\ Named("DialOverdue", ~MustDial)
        /\ Named("HangupSeen", \A a \in Addrs : \A k \in cl[a].goneK : <<a, k>> \in obsGone)
TSilent == /\ Silent /\ UNCHANGED <<exp, obsGone>>
           /\ \/ \E a \in Addrs : Wake(a)
              \/ (l <= TLen /\ Tick(IF NextTimer < Ev.t THEN NextTimer ELSE Ev.t))
TraceNext == TReset \/ TStart \/ TStarted \/ TSub \/ TDial \/ TChunk \/ TOut \/ TNoConn \/ TSkip \/ TClose \/ TGone \/ TCancel \/ TNoListener \/ TEnd \/ TSilent
TraceSpec == TraceInit /\ [][TraceNext]_tvars
Mark == /\ CheckInv("WakeInRange", WakeInRange) /\ CheckInv("HeadDelivered", HeadDelivered) /\ CheckInv("NoSpurious", NoSpurious)
        /\ CheckInv("ReorgDelivered", ReorgDelivered) /\ CheckInv("DelayFromSlotStart", DelayFromSlotStart)
        /\ CheckInv("TrimBound", TrimBound) /\ CheckInv("GossipKeys", GossipKeys) /\ CheckInv("TypeOK", TypeOK)
        /\ HWMark
====
