SPECIFICATION MCSpec
CONSTANTS
 Addrs = {1, 2}
 DefaultRetry = 5
 Slack = 0
 FreeMax = 10
 Dev = {"badevent", "status", "readerr", "partial", "dedup"}
 TrimOn = "match"
 Defect = "none"
 MaxFeeds = 5
 MaxDials = 1
 MaxTime = 0
 MaxSubs = 1
 FeedSet <- FramesReorg
 DialSet <- DialOK
 CloseSet <- CloseNone
 AllowCancel = FALSE
 Spe = 4
 Gen <- Gen0
 AKinds <- AllOK
INVARIANTS Safety
CHECK_DEADLOCK FALSE
