SPECIFICATION MCSpec
CONSTANTS
 Addrs = {1, 2}
 DefaultRetry = 5
 Slack = 0
 FreeMax = 10
 Dev = {"badevent", "status", "readerr", "partial", "dedup"}
 TrimOn = "match"
 Defect = "none"
 MaxFeeds = 4
 MaxDials = 1
 MaxTime = 1
 MaxSubs = 1
 FeedSet <- FramesGossipSmall
 DialSet <- DialOK
 CloseSet <- CloseNone
 AllowCancel = FALSE
 Spe = 2
 Gen <- GenM20
 AKinds <- AllOK
INVARIANTS Safety
CHECK_DEADLOCK FALSE
