SPECIFICATION FairSpec
CONSTANTS
 Addrs = {1}
 DefaultRetry = 5
 Slack = 0
 FreeMax = 10
 Dev = {}
 TrimOn = "match"
 Defect = "none"
 MaxFeeds = 1
 MaxDials = 2
 MaxTime = 14
 MaxSubs = 1
 FeedSet <- FramesLife
 DialSet <- DialAll
 CloseSet <- CloseAll
 AllowCancel = FALSE
 Spe = 4
 Gen <- Gen0
 AKinds <- AllOK
PROPERTIES Reconnects AlwaysBack
CHECK_DEADLOCK FALSE
