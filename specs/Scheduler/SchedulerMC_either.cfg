SPECIFICATION MCSpec
CONSTANTS SlotDur = 3
 Extra = 1
 Feats = {"off"}
 HeadPcs = {}
 NextResolve = "either"
 TickMode = "ascoded"
 Variant = "code"
 MaxTime = 26
 MaxFail = 1
 Interleave = FALSE
 MaxJump = 2
 BVariants = {2}
 AttOffs = {0}
 ProMenu = {1}
 SyncMenu = {2}
 Starts = {4}
INVARIANTS AtMostOnce OnlyAssigned NotEarly TickOrder TickNotEarly Complete TruthOK TickFresh
CHECK_DEADLOCK FALSE
