---- MODULE SchedulerTrace ----
(* Trace validation for core/scheduler.  The executor (harness/c15) runs the real Scheduler inside a testing/synctest
   bubble with a fake clock; after every clock move it waits until every goroutine is durably blocked, so Advance /
   End events are only ever logged in quiescent states (Quiescent is their guard here: a missing trigger, tick or slot
   subscriber call makes them unmatchable).  Events:
     {"ev":"Reset","cfg":{S, slotms, start, vals, att, pro, sync, ...}}   the scripted beacon node (-> truth, now)
     {"ev":"Advance","to":ms}  {"ev":"End"}
     {"ev":"Sched","slot":n}                              schedSlotFunc (start of scheduleSlot)         -> SchedSlot
     {"ev":"SlotSub","slot":n}                            slot subscriber called                        -> SlotSub
     {"ev":"Call","kind":"vals","ok":b,"resp":[{v,st,act}]}                                             -> CallVals
     {"ev":"Call","kind":"att"|"pro"|"sync","ep":e,"idxs":[ids],"ok":b,"resp":[{v,slot|ep,tag}]}      -> CallDuties
     {"ev":"Delay","slot":n,"type":ty,"dl":ms}            delayFunc called with that deadline           -> Delay
     {"ev":"Trigger","slot":n,"type":ty,"defs":[{v,dv,slot,tag,k}]}   duty subscriber called             -> Fire
     {"ev":"Head","slot":n}                               HandleHeadEvent(n) called by the environment   (no effect on the
     {"ev":"FetchOnly","slot":n,"defs":[...]}             the fetcher's FetchOnly called                  model: see below)
   Tick and LoopStep are silent.  The deadline and the definition set are taken from the event: NotEarly, OnlyAssigned, AtMostOnce
   and Complete judge them.  The answers of the beacon client are taken from the event as well, but must be what the
   scripted node would answer (RespOK: a caching layer may drop unsolicited entries) -- a self-check of the driver.
   A Delay / Trigger event that no spawned goroutine explains is accepted as a stray trigger and then judged by the
   invariants (so the verdict names the property) and finally by NoStray; a goroutine of the spec that never shows up
   before the next clock move is reported as Complete / SlotSubCalled (TLost).
   Feature flags (cfg.feat = "off" | "on" | "delay" | "both"; cfg.clock = "virt"): the scheduler runs on the bubble's
   virtual clock (its attester wait mixes time.Until with the scheduler clock, so a fake clock cannot drive it); the
   executor logs an Advance event in front of the first event of every new instant, i.e. `now` is the exact virtual
   time of every event.  The attester duty's goroutine is in stage "wait": its Trigger event is accepted whenever it
   comes and NotEarly judges the instant (field `at` of the event must be `now`: self-check of the driver); a clock
   move after its deadline has passed without the Trigger is Complete (TLost).  Head / FetchOnly events are consumed without
   any demand: whether and when the early fetch happens is not C15's business; what C15 demands is that they
   change nothing about the duty triggers (with the flags on or off). *)
EXTENDS Scheduler, TraceCommon
VARIABLE stray
tvars == <<vars, stray, tr, l>>
Cfg0 == Traces[tr][1].cfg
NormA(e) == [v |-> e.v, slot |-> e.slot, tag |-> e.tag]
NormS(e) == [v |-> e.v, ep |-> e.ep, tag |-> e.tag]
TruthOf(c) == [S |-> c.S,
               vals |-> {[id |-> x.id, known |-> x.known, act |-> x.act, exit |-> x.exit, unsol |-> x.unsol] : x \in SeqToSet(c.vals)},
               att |-> {NormA(x) : x \in SeqToSet(c.att)}, pro |-> {NormA(x) : x \in SeqToSet(c.pro)},
               sync |-> {NormS(x) : x \in SeqToSet(c.sync)}]
FeatOf(c) == IF ~Has(c, "feat") THEN "off" ELSE IF c.feat = "both" THEN "delay" ELSE c.feat
TraceInit == /\ TrInit /\ truth = TruthOf(Cfg0) /\ now = Cfg0.start /\ Init0 /\ stray = FALSE
             /\ feat = FeatOf(Cfg0) /\ feat \in {"off", "on", "delay"}
TReset == IsEvent("Reset") /\ UNCHANGED <<vars, stray>>
\* The hand-over of a slot to the run loop is not logged (the slot subscriber may run before schedSlotFunc): it is a
\* silent step whose slot is the one of the next Sched event, taken only when that event precedes the next clock move.
RECURSIVE FirstEv(_, _)
FirstEv(k, names) == IF k > TLen THEN TLen + 1 ELSE IF Trace[k].ev \in names THEN k ELSE FirstEv(k + 1, names)
TTick == /\ pc = "idle" /\ l <= TLen
         /\ LET ks == FirstEv(l, {"Sched"}) IN
            /\ ks <= TLen /\ ks < FirstEv(l, {"Advance", "End"})
            /\ Tick(Trace[ks].slot)
         /\ Silent /\ UNCHANGED stray
TSched == IsEvent("Sched") /\ Ev.slot = slot /\ SchedSlot /\ UNCHANGED stray
TSlotSub == /\ IsEvent("SlotSub") /\ UNCHANGED stray
            /\ \E g \in gor : g.kind = "slotsub" /\ g.slot = Ev.slot /\ SlotSub(g)
TCallVals == /\ IsEvent("Call") /\ Ev.kind = "vals" /\ UNCHANGED stray
             /\ LET resp == {[v |-> x.v, st |-> x.st, act |-> x.act] : x \in SeqToSet(Ev.resp)} IN
                /\ Ev.ok => resp = ValsResp(now)
                /\ CallVals(Ev.ok, resp)
TCallDuties == /\ IsEvent("Call") /\ Ev.kind \in {"att", "pro", "sync"} /\ UNCHANGED stray
               /\ pc \in {"cur", "nxt"} /\ Ev.ep = res.ep
               /\ LET resp == IF Ev.kind = "sync" THEN {NormS(x) : x \in SeqToSet(Ev.resp)} ELSE {NormA(x) : x \in SeqToSet(Ev.resp)} IN
                  /\ Ev.ok => RespOK(Ev.kind, Ev.ep, SeqToSet(Ev.idxs), resp)
                  /\ CallDuties(Ev.kind, Ev.ok, resp)
TDelay == /\ IsEvent("Delay") /\ UNCHANGED stray
          /\ \E g \in gor : g.kind = "duty" /\ g.slot = Ev.slot /\ g.type = Ev.type /\ Delay(g, Ev.dl)
DefOf(x) == IF x.k = "sync" THEN [v |-> x.dv, tag |-> x.tag] ELSE [v |-> x.dv, slot |-> x.slot, tag |-> x.tag]
DefsOf(e) == LET D == SeqToSet(e.defs) IN [v \in {x.v : x \in D} |-> DefOf(CHOOSE x \in D : x.v = v)]
Match(g) == g.kind = "duty" /\ g.stage \in {"fire", "wait"} /\ g.slot = Ev.slot /\ g.type = Ev.type
TTrigger == /\ IsEvent("Trigger") /\ (Has(Ev, "at") => Ev.at = now)
            /\ \E g \in gor : Match(g) /\ Fire(g, DefsOf(Ev)) /\ stray' = (stray \/ g.id < 0)
\* a Delay event that no spawned goroutine explains: a phantom goroutine (negative id) carries the deadline to the
\* Trigger event that follows, where the invariants judge the definitions
TStrayDelay == /\ IsEvent("Delay") /\ pc # "loop" /\ UNCHANGED stray
               /\ ~\E g \in gor : g.kind = "duty" /\ g.stage = "delay" /\ g.slot = Ev.slot /\ g.type = Ev.type
               /\ gor' = gor \cup {[id |-> 0 - l, kind |-> "duty", slot |-> Ev.slot, type |-> Ev.type, defs |-> Empty,
                                     stage |-> "fire", dl |-> Ev.dl]}
               /\ UNCHANGED <<truth, now, tnext, pc, slot, i, res, resolvedEpoch, duties, byEpoch, gid, triggered, sched,
                              resolvedAt, elig, eligAll, fvars>>
\* the clock moves (or the run ends) although a spawned goroutine never showed up in the trace: the duty was not
\* triggered / the slot subscriber was not called
TLost == /\ l <= TLen /\ Ev.ev \in {"Advance", "End"} /\ pc = "idle"
         /\ ReadyGor # {}       \* (a goroutine still asleep until its deadline is not lost)
         /\ IF \E g \in ReadyGor : g.kind = "duty" THEN InvFail("Complete") ELSE InvFail("SlotSubCalled")
         /\ UNCHANGED tvars
TStray == /\ IsEvent("Trigger") /\ pc # "loop" /\ ~\E g \in gor : g.kind = "duty" /\ g.slot = Ev.slot /\ g.type = Ev.type
          /\ LET w == FeatOn /\ Ev.type = "att" IN
             triggered' = Append(triggered, [slot |-> Ev.slot, type |-> Ev.type, defs |-> DefsOf(Ev),
                                             dl |-> IF HasOffset(Ev.type) /\ ~w THEN Start(Ev.slot) + Offset(Ev.type) ELSE None,
                                             at |-> IF w THEN now ELSE None, mode |-> IF w THEN "wait" ELSE "delay"])
          /\ stray' = TRUE
          /\ UNCHANGED <<truth, now, tnext, pc, slot, i, res, resolvedEpoch, duties, byEpoch, gor, gid, sched, resolvedAt, elig, eligAll, fvars>>
\* the environment's head event and the early fetch it may start: no demand, no effect on the duty triggers
THead == IsEvent("Head") /\ UNCHANGED <<vars, stray>>
TFetchOnly == IsEvent("FetchOnly") /\ UNCHANGED <<vars, stray>>
TAdvance == IsEvent("Advance") /\ Advance(Ev.to) /\ UNCHANGED stray
TEnd == IsEvent("End") /\ Quiescent /\ UNCHANGED <<vars, stray>>
TLoop == LoopStep /\ Silent /\ UNCHANGED stray
TraceNext == TReset \/ TTick \/ TSched \/ TSlotSub \/ TCallVals \/ TCallDuties \/ TDelay \/ TStrayDelay \/ TTrigger \/ TStray \/ TLost \/ TAdvance \/ TEnd \/ TLoop \/ THead \/ TFetchOnly
TraceSpec == TraceInit /\ [][TraceNext]_tvars
Mark == /\ CheckInv("TruthSane", TruthSane)
        /\ CheckInv("AtMostOnce", AtMostOnce) /\ CheckInv("OnlyAssigned", OnlyAssigned)
        /\ CheckInv("NotEarly", NotEarly) /\ CheckInv("TickOrder", TickOrder) /\ CheckInv("TickNotEarly", TickNotEarly)
        /\ CheckInv("TickFresh", TickFresh)
        /\ CheckInv("Complete", Complete) /\ CheckInv("NoStray", ~stray)
        /\ HWMark
====
