---- MODULE Scheduler ----
(* core/scheduler/scheduler.go (+ offset.go), transcribed action by action.

   Goroutines of the code and their actions here
     slot ticker (newSlotTicker)  + run loop receiving the slot + emitCoreSlot                   Tick
     run loop, scheduleSlot: schedSlotFunc and the decision to resolve the slot's epoch          SchedSlot
     run loop, scheduleSlot / resolveDuties: one action per request to the beacon client         CallVals, CallDuties
                                             one action per iteration of the duty-type loop      LoopStep
     one goroutine per slot subscriber call                                                      SlotSub
     one goroutine per triggered duty: delaySlotOffset, then the duty subscribers                Delay, Fire
   The clock is the environment's: Advance (only when every goroutine is blocked: the driver's quiescence barrier;
   a beacon request takes no time).

   The beacon node's truth is the variable `truth`, constant along a behaviour (all assignments = all initial states):
     S      slots per epoch
     vals   set of [id, known, act, exit, unsol]: `known` = part of the cluster (listed by CompleteValidators),
            active in epochs [act, exit), `unsol` = the node returns this validator's duties even if its index was
            not requested (proposer duties of foreign validators, a node that ignores the index filter)
     att    set of [v, slot, tag]   attester duty of v at slot (tag: committee index)
     pro    set of [v, slot, tag]   proposer duty
     sync   set of [v, ep, tag]     v is in the sync committee during epoch ep
   A definition is the assignment record itself ([v, slot, tag]; [v, tag] for sync committee members).

   Quirk kept as coded: the "resolve next epoch on the last slot" block sits INSIDE the per-duty-type loop of
   scheduleSlot: it runs once per duty type that has a definition for that slot, not at all when the slot has none
   (then the first slot of the new epoch resolves).  NextResolve = "ascoded" is that; "either" lets the block run or
   not after any loop iteration and after the loop (the property does not care).
   TickMode = "ascoded": the ticker emits as newSlotTicker does; "either": any slot may be handed to Tick (used by
   trace validation, where the invariants TickOrder / TickNotEarly / TickFresh judge it).

   Alpha features fetch_att_on_block / fetch_att_on_block_with_delay (variable `feat`: "off" | "on" | "delay"; both
   flags together behave as "delay") and the SSE head event (environment move HeadEvent), as coded:
     * scheduleSlot: with a flag on, the goroutine of the slot's ATTESTER duty does not call delayFunc; it runs
       waitForEarlyFetchOrTimeout: it sleeps on the scheduler's clock until slot start + 1/3 slot (+ 300 ms = Extra
       with the _with_delay flag) -- at once if that instant has passed --, then stores the slot in
       eventTriggeredAttestations (`marked`) and calls the duty subscribers.  Nothing else is read: a head event never
       moves the instant at which the duty reaches the subscribers.  All other duty types are untouched.
     * HandleHeadEvent(slot): nothing unless FetchOnly is registered and a flag is on; nothing unless the slot has an
       attester definition set at that moment (resolved, not trimmed); LoadOrStore(slot) in `marked`: nothing if it
       was there already (an earlier head event for the slot, or the duty's wait is over); otherwise ONE call of the
       fetcher's FetchOnly with a clone of the definition set (`fetched`) -- the early FETCH, which is not a duty
       trigger and never reaches the duty subscribers.  This holds whenever the event arrives: before the slot's
       tick (the fetch then happens before the slot starts; the duty still waits for its deadline), between slot
       start and the deadline, after it (no fetch: the slot is marked), twice (second: nothing), for another slot
       (that slot's business only), for a slot without attester duty (nothing).
     * trimDuties(epoch) also drops the marks of all slots before the end of that epoch.
   Documented contract taken as the earliest legal instant (featureset.go: "Falls back to T=1/3 if no head event is
   received in time", "uses T=1/3+300ms as fallback timeout"; scheduler.go, waitForEarlyFetchOrTimeout: "waits until the
   fallback timeout is reached.  The head-event-triggered early fetch (HandleHeadEvent) runs concurrently and
   populates the attestation data cache before this deadline in the happy path.  If FetchAttOnBlockWithDelay is
   enabled, timeout is T=1/3+300ms, otherwise T=1/3."; HandleHeadEvent: "Fetch attestation data early without
   triggering consensus"): with a flag on the attester duty reaches the subscribers not before slot start + 1/3 slot
   (+ Extra), judged on the clock at the call (NotEarly, record field `at`); exactly once (AtMostOnce, Complete).
   Whether / when the early fetch happens is not part of C15: FetchOnce / FetchNotAfterTrigger are sanity
   invariants of this transcription only (design check), trace validation leaves the fetch free. *)
EXTENDS Integers, Sequences, FiniteSets, TLC
CONSTANTS SlotDur,       \* clock units per slot
          Extra,         \* the 300 ms of fetch_att_on_block_with_delay in clock units
          NextResolve, TickMode,
          Variant        \* "code": the transcription; anything else: a seeded defect for the control configurations
                         \* ("nofilter" inactive validators kept, "foreign" unknown validators kept, "early" attester
                         \* offset dropped, "strictskip" duties of the first resolved slot dropped, "dupfire" subscribers
                         \* called twice, "retick" the ticker emits a slot again, "headfire" with a feature flag on the
                         \* attester duty does not wait when the slot's head event was handled before its goroutine started)
None == -1               \* resolvedEpoch = math.MaxInt64
Types == <<"pro", "att", "agg", "sync">>      \* core.AllDutyTypes() order, restricted to the types the scheduler defines
HasOffset(ty) == ty \in {"att", "agg", "sync"}                      \* slotOffsets
Offset(ty) == CASE ty = "att" -> SlotDur \div 3 [] ty \in {"agg", "sync"} -> (2 * SlotDur) \div 3 [] OTHER -> 0
NoRes == [ep |-> None, from |-> None, stage |-> "none", vs |-> {}]

VARIABLES truth, now,
          tnext,          \* slot ticker: the slot it will emit next
          pc, slot, i, res,   \* run goroutine: "idle" | "sched" | "cur" | "loop" | "nxt"; slot being scheduled; loop index; resolve attempt
          resolvedEpoch, duties, byEpoch,     \* Scheduler fields (duties: <<slot, type>> -> [validator -> definition])
          gor, gid,       \* goroutines spawned and not finished; id counter
          triggered,      \* history: duty subscriber calls [slot, type, defs, dl, at, mode]: dl = the deadline handed to delayFunc
                          \* (mode "delay"), or mode "wait": the goroutine slept on the clock itself and at = the clock at the call
          sched,          \* history: scheduleSlot calls [slot, covered]
          resolvedAt,     \* history: epoch -> time of its first complete resolution
          elig, eligAll,  \* history: epoch -> validators active/activating in some / every validators answer used for it
          feat,           \* "off" | "on" (fetch_att_on_block) | "delay" (fetch_att_on_block_with_delay, alone or with the other)
          marked,         \* eventTriggeredAttestations: set of slots
          fetched         \* history: FetchOnly calls [slot, defs, late] (late: the slot's attester duty had been triggered)
fvars == <<feat, marked, fetched>>
vars == <<truth, now, tnext, pc, slot, i, res, resolvedEpoch, duties, byEpoch, gor, gid, triggered, sched, resolvedAt,
          elig, eligAll, fvars>>
FeatOn == feat # "off"
\* waitForEarlyFetchOrTimeout: fallbackDeadline
WaitDeadline(n) == n * SlotDur + (SlotDur \div 3) + (IF feat = "delay" THEN Extra ELSE 0)

S == truth.S
Epoch(n) == n \div S
LastInEpoch(n) == n % S = S - 1
Start(n) == n * SlotDur
CurSlot(t) == t \div SlotDur
Ids == {r.id : r \in truth.vals}
Val(id) == CHOOSE r \in truth.vals : r.id = id
Status(r, w) == IF w < r.act THEN "pending" ELSE IF w < r.exit THEN "active" ELSE "exited"

\* ------------------------------------------------------------------------------------------------
\* the beacon node
ValsResp(t) == {[v |-> r.id, st |-> Status(r, Epoch(CurSlot(t))), act |-> r.act] : r \in {x \in truth.vals : x.known}}
\* resolveActiveValidators: "if !val.Status.IsActive() && val.Validator.ActivationEpoch != epoch { continue }"
Eligible(resp, ep) == {x.v : x \in {y \in resp : Variant = "nofilter" \/ y.st = "active" \/ y.act = ep}}
\* the property's notion of "active validator" for epoch ep, given a validators answer (independent of Variant)
ActiveFor(resp, ep) == {x.v : x \in {y \in resp : y.st = "active" \/ y.act = ep}}
OfEpoch(kind, ep) == CASE kind = "att" -> {d \in truth.att : Epoch(d.slot) = ep}
                       [] kind = "pro" -> {d \in truth.pro : Epoch(d.slot) = ep}
                       [] kind = "sync" -> {d \in truth.sync : d.ep = ep}
Requested(kind, ep, idxs) == {d \in OfEpoch(kind, ep) : d.v \in idxs}
Unsolicited(kind, ep) == {d \in OfEpoch(kind, ep) : Val(d.v).unsol}
FullResp(kind, ep, idxs) == Requested(kind, ep, idxs) \cup Unsolicited(kind, ep)
\* an answer a caching layer may have filtered: everything requested, nothing invented
RespOK(kind, ep, idxs, resp) == Requested(kind, ep, idxs) \subseteq resp /\ resp \subseteq FullResp(kind, ep, idxs)

\* ------------------------------------------------------------------------------------------------
\* setDutyDefinition for a batch E of [key, v, def]: the first definition per <<duty, validator>> wins
Empty == [x \in {} |-> 0]
StoreAll(D, E) ==
  LET keys == DOMAIN D \cup {e.key : e \in E} IN
  [k \in keys |->
     LET old == IF k \in DOMAIN D THEN D[k] ELSE Empty
         newv == {e.v : e \in {x \in E : x.key = k}} \ DOMAIN old
     IN [v \in DOMAIN old \cup newv |-> IF v \in DOMAIN old THEN old[v]
                                         ELSE (CHOOSE e \in E : e.key = k /\ e.v = v).def]]
\* keys that got a new definition (appended to dutiesByEpoch[epoch])
Touched(D, E) == {e.key : e \in {x \in E : x.key \notin DOMAIN D \/ x.v \notin DOMAIN D[x.key]}}
Entries(kind, resp, from0, ep, vs0) ==
  LET from == IF Variant = "strictskip" THEN from0 + 1 ELSE from0
      vs == IF Variant = "foreign" THEN Ids ELSE vs0 IN
  CASE kind = "att" ->       \* attester and aggregator duty; "attDuty.Slot < slot.Slot" skipped; unknown validators ignored
         UNION {{[key |-> <<d.slot, "att">>, v |-> d.v, def |-> d], [key |-> <<d.slot, "agg">>, v |-> d.v, def |-> d]}
                : d \in {x \in resp : x.slot >= from /\ x.v \in vs}}
    [] kind = "pro" -> {[key |-> <<d.slot, "pro">>, v |-> d.v, def |-> d] : d \in {x \in resp : x.slot >= from /\ x.v \in vs}}
    [] kind = "sync" ->      \* every slot from `from` to the end of the epoch
         {[key |-> <<sl, "sync">>, v |-> d.v, def |-> [v |-> d.v, tag |-> d.tag]]
            : sl \in {x \in from0..(from0 + S) : Epoch(x) = ep}, d \in {x \in resp : x.v \in vs}}
\* trimDuties(epoch)
TrimKeys(B, ep) == {p[2] : p \in {q \in B : q[1] = ep}}

Init0 == /\ tnext = CurSlot(now)
         /\ pc = "idle" /\ slot = None /\ i = 0 /\ res = NoRes
         /\ resolvedEpoch = None /\ duties = Empty /\ byEpoch = {}
         /\ gor = {} /\ gid = 0
         /\ triggered = <<>> /\ sched = <<>> /\ resolvedAt = Empty /\ elig = Empty /\ eligAll = Empty
         /\ marked = {} /\ fetched = <<>>

\* ------------------------------------------------------------------------------------------------
\* newSlotTicker: waits for the start of `tnext`; "if clock.Now().After(slot.Next().Time) { slot = currentSlot() }"
TickerDue == Start(tnext) <= now
EmitSlot == IF now > Start(tnext + 1) THEN CurSlot(now) ELSE tnext
Covered(n) == Epoch(n) \in DOMAIN resolvedAt /\ resolvedAt[Epoch(n)] < Start(n)
Tick(n) ==                \* the run loop receives the slot from the ticker; emitCoreSlot starts the slot subscriber
  /\ pc = "idle"
  /\ IF TickMode = "ascoded" THEN TickerDue /\ n = EmitSlot ELSE TRUE
  /\ tnext' = (IF Variant = "retick" THEN n ELSE n + 1) /\ slot' = n /\ pc' = "sched"
  /\ gor' = gor \cup {[id |-> gid, kind |-> "slotsub", slot |-> n, type |-> "-", defs |-> Empty, stage |-> "fire", dl |-> None]}
  /\ gid' = gid + 1
  /\ UNCHANGED <<truth, now, i, res, resolvedEpoch, duties, byEpoch, triggered, sched, resolvedAt, elig, eligAll, fvars>>
SchedSlot ==              \* scheduleSlot starts (schedSlotFunc): "if s.getResolvedEpoch() != slot.Epoch()" resolve first
  /\ pc = "sched"
  /\ sched' = Append(sched, [slot |-> slot, covered |-> Covered(slot)])
  /\ IF resolvedEpoch # Epoch(slot)
       THEN pc' = "cur" /\ i' = 0 /\ res' = [ep |-> Epoch(slot), from |-> slot, stage |-> "vals", vs |-> {}]
       ELSE pc' = "loop" /\ i' = 1 /\ res' = NoRes
  /\ UNCHANGED <<truth, now, tnext, slot, resolvedEpoch, duties, byEpoch, gor, gid, triggered, resolvedAt, elig, eligAll, fvars>>

\* the resolve attempt is over (error, or done): back to scheduleSlot
EndAttempt == /\ res' = NoRes
              /\ IF pc = "cur" THEN pc' = "loop" /\ i' = 1
                 ELSE IF i >= 5 THEN pc' = "idle" /\ i' = 0 ELSE pc' = "loop" /\ i' = i + 1
MarkResolved(ep) == /\ resolvedEpoch' = ep
                    /\ resolvedAt' = IF ep \in DOMAIN resolvedAt THEN resolvedAt ELSE (ep :> now) @@ resolvedAt
NoteElig(ep, vs) == /\ elig' = IF ep \in DOMAIN elig THEN [elig EXCEPT ![ep] = @ \cup vs] ELSE (ep :> vs) @@ elig
                    /\ eligAll' = IF ep \in DOMAIN eligAll THEN [eligAll EXCEPT ![ep] = @ \cap vs] ELSE (ep :> vs) @@ eligAll

\* resolveDuties: resolveActiveValidators
CallVals(ok, resp) ==
  /\ pc \in {"cur", "nxt"} /\ res.stage = "vals"
  /\ UNCHANGED <<truth, now, tnext, slot, duties, byEpoch, gor, gid, triggered, sched, fvars>>
  /\ IF ~ok THEN EndAttempt /\ UNCHANGED <<resolvedEpoch, resolvedAt, elig, eligAll>>
     ELSE LET vs == Eligible(resp, res.ep) IN
          /\ NoteElig(res.ep, ActiveFor(resp, res.ep))
          /\ IF vs = {} THEN MarkResolved(res.ep) /\ EndAttempt          \* "No active validators for slot"
             ELSE /\ res' = [res EXCEPT !.stage = "att", !.vs = vs]
                  /\ UNCHANGED <<pc, i, resolvedEpoch, resolvedAt>>

NextStage(k) == CASE k = "att" -> "pro" [] k = "pro" -> "sync" [] OTHER -> "done"
\* resolveAttDuties / resolveProDuties / resolveSyncCommDuties (+ the tail of resolveDuties after the last one)
CallDuties(kind, ok, resp) ==
  /\ pc \in {"cur", "nxt"} /\ res.stage = kind /\ kind \in {"att", "pro", "sync"}
  /\ UNCHANGED <<truth, now, tnext, slot, gor, gid, triggered, sched, elig, eligAll, feat, fetched>>
  /\ IF ~ok THEN EndAttempt /\ UNCHANGED <<resolvedEpoch, resolvedAt, duties, byEpoch, marked>>
     ELSE LET E == Entries(kind, resp, res.from, res.ep, res.vs)
              D1 == StoreAll(duties, E)
              B1 == byEpoch \cup {<<res.ep, k>> : k \in Touched(duties, E)}
          IN IF kind # "sync"
               THEN /\ duties' = D1 /\ byEpoch' = B1
                    /\ res' = [res EXCEPT !.stage = NextStage(kind)]
                    /\ UNCHANGED <<pc, i, resolvedEpoch, resolvedAt, marked>>
               ELSE /\ MarkResolved(res.ep)                               \* setResolvedEpoch; trimDuties(epoch - 3)
                    /\ LET tk == IF res.ep >= 3 THEN TrimKeys(B1, res.ep - 3) ELSE {} IN
                       /\ duties' = [k \in DOMAIN D1 \ tk |-> D1[k]]
                       /\ byEpoch' = IF res.ep >= 3 THEN {p \in B1 : p[1] # res.ep - 3} ELSE B1
                       \* trimEventTriggeredAttestations(epoch): only when the epoch had duties to trim and a flag is on
                       /\ marked' = IF tk # {} /\ FeatOn THEN {n \in marked : n >= (res.ep - 3 + 1) * S} ELSE marked
                    /\ EndAttempt

\* one iteration of "for _, dutyType := range core.AllDutyTypes()" (only iterations that can have a definition)
StartNext == /\ pc' = "nxt" /\ res' = [ep |-> Epoch(slot) + 1, from |-> slot + 1, stage |-> "vals", vs |-> {}] /\ UNCHANGED i
Continue == IF i >= 5 THEN pc' = "idle" /\ i' = 0 /\ res' = NoRes ELSE pc' = "loop" /\ i' = i + 1 /\ res' = NoRes
LoopStep ==
  /\ pc = "loop"
  /\ UNCHANGED <<truth, now, tnext, slot, resolvedEpoch, duties, byEpoch, triggered, sched, resolvedAt, elig, eligAll, fvars>>
  /\ LET present == i <= 4 /\ <<slot, Types[i]>> \in DOMAIN duties IN
     /\ IF present
          THEN /\ gor' = gor \cup {IF Types[i] = "att" /\ FeatOn
                                     THEN \* waitForEarlyFetchOrTimeout instead of delaySlotOffset
                                          [id |-> gid, kind |-> "duty", slot |-> slot, type |-> "att",
                                           defs |-> duties[<<slot, "att">>], stage |-> "wait",
                                           dl |-> IF Variant = "headfire" /\ slot \in marked THEN 0 ELSE WaitDeadline(slot)]
                                     ELSE [id |-> gid, kind |-> "duty", slot |-> slot, type |-> Types[i],
                                           defs |-> duties[<<slot, Types[i]>>],
                                           stage |-> IF HasOffset(Types[i]) THEN "delay" ELSE "fire", dl |-> None]}
               /\ gid' = gid + 1
          ELSE UNCHANGED <<gor, gid>>
     /\ IF ~LastInEpoch(slot) THEN Continue
        ELSE IF NextResolve = "ascoded" THEN (IF present THEN StartNext ELSE Continue)
        ELSE StartNext \/ Continue

\* goroutines
SlotSub(g) == /\ g \in gor /\ g.kind = "slotsub" /\ gor' = gor \ {g}
              /\ UNCHANGED <<truth, now, tnext, pc, slot, i, res, resolvedEpoch, duties, byEpoch, gid, triggered, sched,
                             resolvedAt, elig, eligAll, fvars>>
\* delaySlotOffset asks delayFunc to wait until dl (as coded: slot.Time + offset)
CodedDeadline(g) == Start(g.slot) + (IF Variant = "early" /\ g.type = "att" THEN 0 ELSE Offset(g.type))
Delay(g, dl) == /\ g \in gor /\ g.kind = "duty" /\ g.stage = "delay"
                /\ gor' = (gor \ {g}) \cup {[g EXCEPT !.stage = "fire", !.dl = dl]}
                /\ UNCHANGED <<truth, now, tnext, pc, slot, i, res, resolvedEpoch, duties, byEpoch, gid, triggered, sched,
                               resolvedAt, elig, eligAll, fvars>>
\* a goroutine in stage "wait" sleeps on the clock until its deadline (the guard is NOT part of Fire: trace validation
\* takes the instant of the subscriber call from the trace and lets NotEarly judge it)
Ready(g) == g.stage = "wait" => now >= g.dl
ReadyGor == {g \in gor : Ready(g)}
\* the duty subscribers are called with (a clone of) the definition set; after a wait the slot is marked first
Fire(g, defs) == /\ g \in gor /\ g.kind = "duty" /\ g.stage \in {"fire", "wait"}
                 /\ gor' = gor \ {g}
                 /\ LET rec == [slot |-> g.slot, type |-> g.type, defs |-> defs, dl |-> g.dl, at |-> IF g.stage = "wait" THEN now ELSE None,
                                mode |-> IF g.stage = "wait" THEN "wait" ELSE "delay"] IN
                    triggered' = IF Variant = "dupfire" THEN triggered \o <<rec, rec>> ELSE Append(triggered, rec)
                 /\ marked' = IF g.stage = "wait" THEN marked \cup {g.slot} ELSE marked
                 /\ UNCHANGED <<truth, now, tnext, pc, slot, i, res, resolvedEpoch, duties, byEpoch, gid, sched,
                                resolvedAt, elig, eligAll, feat, fetched>>

\* HandleHeadEvent(n): environment move, at any moment (it only reads `duties` and LoadOrStores `marked`); `reg`: the
\* fetcher's FetchOnly is registered.  The FetchOnly call (its own goroutine) is folded into the step.
CanFetch(n) == FeatOn /\ <<n, "att">> \in DOMAIN duties /\ n \notin marked
HeadEvent(n, reg) ==
  /\ IF reg /\ CanFetch(n)
       THEN /\ marked' = marked \cup {n}
            /\ fetched' = Append(fetched, [slot |-> n, defs |-> duties[<<n, "att">>],
                                           late |-> \E b \in DOMAIN triggered : triggered[b].slot = n /\ triggered[b].type = "att"])
       ELSE UNCHANGED <<marked, fetched>>
  /\ UNCHANGED <<truth, now, tnext, pc, slot, i, res, resolvedEpoch, duties, byEpoch, gor, gid, triggered, sched,
                 resolvedAt, elig, eligAll, feat>>

\* every goroutine is blocked: the run loop on the ticker, the ticker and the waiting duty goroutines on the clock
Quiescent == pc = "idle" /\ ReadyGor = {} /\ ~TickerDue
Advance(to) == /\ Quiescent /\ to > now /\ now' = to
               /\ UNCHANGED <<truth, tnext, pc, slot, i, res, resolvedEpoch, duties, byEpoch, gor, gid, triggered, sched,
                              resolvedAt, elig, eligAll, fvars>>

\* ------------------------------------------------------------------------------------------------
\* Properties (C15)
Pairs(f) == {<<v, f[v]>> : v \in DOMAIN f}
TIdx == DOMAIN triggered
\* a duty is never triggered twice for a validator
AtMostOnce == \A a, b \in TIdx : (a < b /\ triggered[a].slot = triggered[b].slot /\ triggered[a].type = triggered[b].type)
                                   => DOMAIN triggered[a].defs \cap DOMAIN triggered[b].defs = {}
Assigned(ty, n, v, def) ==
  CASE ty \in {"att", "agg"} -> def \in truth.att /\ def.v = v /\ def.slot = n
    [] ty = "pro" -> def \in truth.pro /\ def.v = v /\ def.slot = n
    [] ty = "sync" -> def.v = v /\ [v |-> v, ep |-> Epoch(n), tag |-> def.tag] \in truth.sync
    [] OTHER -> FALSE
\* only for cluster validators the node reported active (or activating in that epoch), only what the node assigned,
\* unaltered
OnlyAssigned == \A a \in TIdx : LET t == triggered[a] IN
                  /\ t.defs # Empty
                  /\ \A v \in DOMAIN t.defs :
                       /\ v \in Ids /\ Val(v).known
                       /\ Epoch(t.slot) \in DOMAIN elig /\ v \in elig[Epoch(t.slot)]
                       /\ Assigned(t.type, t.slot, v, t.defs[v])
\* never asked to wait for less than the duty type's offset into its slot; an attester duty that waited on the clock
\* itself (feature flags): subscribers not called before slot start + 1/3 slot (+ Extra with the _with_delay flag)
NotEarly == \A a \in TIdx : LET t == triggered[a] IN
              HasOffset(t.type) => IF t.mode = "wait" THEN t.at >= WaitDeadline(t.slot)
                                   ELSE t.dl >= Start(t.slot) + Offset(t.type)
\* slots are scheduled in increasing order (never one twice)
TickOrder == \A a, b \in DOMAIN sched : a < b => sched[a].slot < sched[b].slot
\* a slot is not scheduled before it starts
TickNotEarly == pc # "idle" => Start(slot) <= now
\* the ticker skips missed slots ("thundering herd" comment in newSlotTicker): what it hands over is the slot the clock
\* is in, or the one before (clock exactly on the boundary / previous slot still being scheduled)
TickFresh == pc # "idle" => slot >= CurSlot(now) - 1
\* what must be in the definition set of duty <<n, ty>>: the node's assignments to validators that were active or
\* activating in every validators answer used for that epoch
Lower(n, ty) ==
  LET ep == Epoch(n)
      ok(v) == v \in Ids /\ Val(v).known /\ ep \in DOMAIN eligAll /\ v \in eligAll[ep]
  IN CASE ty \in {"att", "agg"} -> {<<d.v, d>> : d \in {x \in truth.att : x.slot = n /\ ok(x.v)}}
       [] ty = "pro" -> {<<d.v, d>> : d \in {x \in truth.pro : x.slot = n /\ ok(x.v)}}
       [] ty = "sync" -> {<<d.v, [v |-> d.v, tag |-> d.tag]>> : d \in {x \in truth.sync : x.ep = ep /\ ok(x.v)}}
\* every duty of a scheduled slot that began after its epoch was resolved has been triggered (once everything the
\* slot tick caused has run), in one call, with at least these definitions (OnlyAssigned bounds them from above)
Complete == Quiescent =>
  \A a \in DOMAIN sched : sched[a].covered =>
     \A k \in 1..4 : LET lo == Lower(sched[a].slot, Types[k]) IN
        lo # {} => \/ \E b \in TIdx : /\ triggered[b].slot = sched[a].slot /\ triggered[b].type = Types[k]
                                      /\ lo \subseteq Pairs(triggered[b].defs)
                   \/ \E g \in gor \ ReadyGor :        \* still asleep until its deadline, holding these definitions
                         g.kind = "duty" /\ g.slot = sched[a].slot /\ g.type = Types[k] /\ lo \subseteq Pairs(g.defs)
\* sanity of the truth (the node assigns at most one attester slot per validator and epoch, one proposer per slot,
\* one sync committee entry per validator and epoch; every assigned validator is listed)
TruthSane == /\ \A d, e \in truth.att : (d.v = e.v /\ Epoch(d.slot) = Epoch(e.slot)) => d = e
             /\ \A d, e \in truth.pro : d.slot = e.slot => d = e
             /\ \A d, e \in truth.sync : (d.v = e.v /\ d.ep = e.ep) => d = e
             /\ \A d \in truth.att \cup truth.pro \cup truth.sync : d.v \in Ids
             /\ \A r, q \in truth.vals : r.id = q.id => r = q
             /\ \A r \in truth.vals : r.act < r.exit
\* sanity of the transcription of the early fetch (not part of C15): one FetchOnly per slot, with a flag on, for a
\* slot with attester definitions, never after that slot's attester duty reached the subscribers
FetchOnce == \A a, b \in DOMAIN fetched : a < b => fetched[a].slot # fetched[b].slot
FetchNotAfterTrigger == \A a \in DOMAIN fetched : /\ FeatOn /\ fetched[a].defs # Empty
                                                   /\ ~fetched[a].late
\* head events and FetchOnly calls never reach the duty subscribers: with the flags off nothing is marked or fetched
OffInert == feat = "off" => marked = {} /\ fetched = <<>>
Safety == AtMostOnce /\ OnlyAssigned /\ NotEarly /\ TickOrder /\ TickNotEarly /\ Complete
====
