SPECIFICATION GenSpec
CONSTANTS SlotDur = 3
 Extra = 1
 Feats = {"off", "on", "delay"}
 HeadPcs = {"idle", "sched"}
 NextResolve = "ascoded"
 TickMode = "ascoded"
 Variant = "code"
 MaxTime = 28
 GenEnd = 24
 MaxHeads = 10
 MaxFail = 2
 Interleave = FALSE
 MaxJump = 3
 BVariants = {1, 2}
 AttOffs = {0, 1, 2}
 ProMenu = {0, 1, 2, 3}
 SyncMenu = {0, 1, 2}
 Starts = {0, 1, 3, 4, 6, 8}
INVARIANTS Emit
CONSTRAINT Stop
CHECK_DEADLOCK FALSE
