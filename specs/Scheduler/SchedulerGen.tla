---- MODULE SchedulerGen ----
(* Schedule generation (SchedulerGen.cfg: flags off, no head events; SchedulerGenFeat.cfg: flags and head events): behaviours of the design spec; the environment's moves (the truth and the start time, every
   clock move, the outcome of every beacon request) are recorded in `hist` and printed when the clock has reached
   GenEnd and everything has run.  Run with -simulate.  checks/c15.py turns the request outcomes into the ordinals
   of the failing requests. *)
EXTENDS SchedulerMC, Json
CONSTANTS GenEnd, MaxHeads
VARIABLE hist
GenInit == MCInit /\ hist = <<[ev |-> "Cfg", truth |-> truth, start |-> now, feat |-> feat]>>
GenNext ==
  \/ GorStep /\ UNCHANGED <<nfail, hist>>
  \/ (ReadyGor = {}) /\ (Tick(EmitSlot) \/ SchedSlot \/ LoopStep) /\ UNCHANGED <<nfail, hist>>
  \* a head event (also one that does nothing: another slot, no duty, twice, flags off), between two clock moves or
  \* right after a tick (the executor delivers the latter from inside schedSlotFunc)
  \/ /\ pc \in HeadPcs /\ ReadyGor = {} /\ Cardinality({k \in DOMAIN hist : hist[k].ev = "Head"}) < MaxHeads
     /\ \E n \in {CurSlot(now) - 1, CurSlot(now), CurSlot(now) + 1} :
           /\ n >= 0 /\ ~(hist[Len(hist)].ev = "Head" /\ hist[Len(hist)].slot = n) /\ HeadEvent(n, TRUE)
           /\ hist' = Append(hist, [ev |-> "Head", slot |-> n, atsched |-> (pc = "sched"), sslot |-> slot])
     /\ UNCHANGED nfail
  \/ /\ ReadyGor = {}
     /\ \E ok \in BOOLEAN : /\ (ok \/ nfail < MaxFail) /\ nfail' = IF ok THEN nfail ELSE nfail + 1
                            /\ \/ CallVals(ok, ValsResp(now))
                               \/ \E k \in {"att", "pro", "sync"} : CallDuties(k, ok, FullResp(k, res.ep, res.vs))
                            /\ hist' = Append(hist, [ev |-> "Call", ok |-> ok])
  \/ \E to \in AdvTargets \cup {NextB + 1, NextB + 2} :
        to <= MaxTime /\ Advance(to) /\ UNCHANGED nfail /\ hist' = Append(hist, [ev |-> "Advance", to |-> to])
GenSpec == GenInit /\ [][GenNext]_<<mcvars, hist>>
Done == Quiescent /\ now >= GenEnd
Emit == ~Done \/ PrintT("@@SCHED@@" \o ToJson(hist))
Stop == ~Done
====
