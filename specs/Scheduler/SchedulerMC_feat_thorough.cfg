SPECIFICATION MCSpec
CONSTANTS SlotDur = 3
 Extra = 1
 Feats = {"off", "on", "delay"}
 HeadPcs = {"idle", "sched", "cur", "loop", "nxt"}
 NextResolve = "ascoded"
 TickMode = "ascoded"
 Variant = "code"
 MaxTime = 26
 MaxFail = 1
 Interleave = FALSE
 MaxJump = 2
 BVariants = {1}
 AttOffs = {0}
 ProMenu = {1}
 SyncMenu = {2}
 Starts = {0}
INVARIANTS AtMostOnce OnlyAssigned NotEarly TickOrder TickNotEarly Complete TruthOK TickFresh FetchOnce FetchNotAfterTrigger OffInert
CHECK_DEADLOCK FALSE
