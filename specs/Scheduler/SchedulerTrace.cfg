SPECIFICATION TraceSpec
CONSTANTS SlotDur = 12000
 Extra = 300
 NextResolve = "either"
 TickMode = "either"
 Variant = "code"
CONSTRAINT Mark
POSTCONDITION Report
CHECK_DEADLOCK FALSE
