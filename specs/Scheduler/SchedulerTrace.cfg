SPECIFICATION TraceSpec
CONSTANTS SlotDur = 12000
 NextResolve = "either"
 TickMode = "either"
 Variant = "code"
CONSTRAINT Mark
POSTCONDITION Report
CHECK_DEADLOCK FALSE
