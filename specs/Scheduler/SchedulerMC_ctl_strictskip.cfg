SPECIFICATION MCSpec
CONSTANTS SlotDur = 3
 Extra = 1
 Feats = {"off"}
 HeadPcs = {}
 NextResolve = "ascoded"
 TickMode = "ascoded"
 Variant = "strictskip"
 MaxTime = 26
 MaxFail = 1
 Interleave = FALSE
 MaxJump = 2
 BVariants = {1}
 AttOffs = {0}
 ProMenu = {1}
 SyncMenu = {2}
 Starts = {0}
INVARIANTS AtMostOnce OnlyAssigned NotEarly TickOrder TickNotEarly Complete TruthOK TickFresh
CHECK_DEADLOCK FALSE
