---- MODULE SchedulerMC ----
(* Exhaustive design check: every truth of a small menu (validator a always active, b activating in epoch 1 or
   exiting at epoch 2 -- its duties are returned even when inactive --, f foreign), every start time, every
   pattern of clock jumps (on time / two slots at once landing exactly on a boundary: the stale slot is still emitted
   / landing after the boundary: slots are skipped), every failure script with at most MaxFail failing requests.
   Goroutine interleavings: Interleave = TRUE explores all of them (small configuration); FALSE runs a spawned
   goroutine to completion first (they commute with everything: they only read their own snapshot).
   Feature flags: feat \in Feats; with a flag on the clock also moves in unit steps (the waiting attester goroutines
   fire at their deadline or later) and the environment delivers head events for the current and the next slot
   (i.e. also before the slot's tick) while the run loop is at one of HeadPcs ("idle": between ticks, "sched": after
   the tick and before scheduleSlot did anything, "cur"/"loop"/"nxt": in the middle of scheduleSlot). *)
EXTENDS Scheduler
CONSTANTS MaxTime, MaxFail, Interleave, MaxJump, BVariants, AttOffs, ProMenu, SyncMenu, Starts, Feats, HeadPcs
VARIABLE nfail
mcvars == <<vars, nfail>>
NE == 3
ValsOf(bv) == {[id |-> "a", known |-> TRUE, act |-> 0, exit |-> 99, unsol |-> FALSE],
               IF bv = 1 THEN [id |-> "b", known |-> TRUE, act |-> 1, exit |-> 99, unsol |-> TRUE]
                         ELSE [id |-> "b", known |-> TRUE, act |-> 0, exit |-> 2, unsol |-> TRUE],
               [id |-> "f", known |-> FALSE, act |-> 0, exit |-> 99, unsol |-> TRUE]}
\* attester: one slot per validator and epoch, rotating through the epoch; b is assigned even while inactive
AttOf(oa, ob) == {[v |-> "a", slot |-> 3 * e + ((oa + e) % 3), tag |-> 1] : e \in 0..(NE - 1)}
            \cup {[v |-> "b", slot |-> 3 * e + ((ob + 2 * e) % 3), tag |-> 2] : e \in 0..(NE - 1)}
            \cup {[v |-> "f", slot |-> 3 * e + 1, tag |-> 3] : e \in 0..(NE - 1)}
Pro(v, n) == [v |-> v, slot |-> n, tag |-> 0]
ProOf(k) == CASE k = 0 -> {}
              [] k = 1 -> {Pro("a", 2), Pro("f", 4), Pro("b", 3), Pro("a", 5)}
              [] k = 2 -> {Pro("a", 0), Pro("a", 1), Pro("b", 1 + 3), Pro("f", 8), Pro("a", 6)}
              [] k = 3 -> {Pro("b", 0), Pro("a", 3), Pro("a", 8)}
Syn(v, e) == [v |-> v, ep |-> e, tag |-> 5 + e]
SyncOf(k) == CASE k = 0 -> {}
               [] k = 1 -> {Syn("a", 1)}
               [] k = 2 -> {Syn("a", 1), Syn("b", 1), Syn("b", 2), Syn("f", 1), Syn("a", 0)}
MCTruths == {[S |-> 3, vals |-> ValsOf(bv), att |-> AttOf(oa, ob), pro |-> ProOf(p), sync |-> SyncOf(s)]
               : bv \in BVariants, oa \in AttOffs, ob \in AttOffs, p \in ProMenu, s \in SyncMenu}
MCInit == /\ truth \in MCTruths /\ now \in Starts /\ Init0 /\ nfail = 0 /\ feat \in Feats

MinId == CHOOSE x \in {g.id : g \in ReadyGor} : \A y \in {g.id : g \in ReadyGor} : x <= y
GorStep == \E g \in ReadyGor : /\ (Interleave \/ g.id = MinId)
                          /\ (SlotSub(g) \/ Delay(g, CodedDeadline(g)) \/ Fire(g, g.defs))
RunStep == \/ Tick(EmitSlot) /\ UNCHANGED nfail
           \/ SchedSlot /\ UNCHANGED nfail
           \/ LoopStep /\ UNCHANGED nfail
           \/ \E ok \in BOOLEAN : /\ (ok \/ nfail < MaxFail) /\ nfail' = IF ok THEN nfail ELSE nfail + 1
                                  /\ \/ CallVals(ok, ValsResp(now))
                                     \/ \E k \in {"att", "pro", "sync"} : CallDuties(k, ok, FullResp(k, res.ep, res.vs))
NextB == (CurSlot(now) + 1) * SlotDur
AdvTargets == (UNION {{NextB + j * SlotDur, NextB + j * SlotDur + 1} : j \in 0..(MaxJump - 1)} \ {NextB + 1})
              \cup (IF FeatOn THEN {now + 1} ELSE {})
\* head events that do something (the others are stuttering steps)
HeadStep == /\ pc \in HeadPcs /\ (Interleave \/ ReadyGor = {})
            /\ \E n \in {CurSlot(now), CurSlot(now) + 1} : CanFetch(n) /\ HeadEvent(n, TRUE)
MCNext == \/ GorStep /\ UNCHANGED nfail
          \/ (Interleave \/ ReadyGor = {}) /\ RunStep
          \/ HeadStep /\ UNCHANGED nfail
          \/ \E to \in AdvTargets : to <= MaxTime /\ Advance(to) /\ UNCHANGED nfail
MCSpec == MCInit /\ [][MCNext]_mcvars
\* the truths of the menu are sane
TruthOK == TruthSane
====
