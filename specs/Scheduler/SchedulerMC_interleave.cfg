SPECIFICATION MCSpec
CONSTANTS SlotDur = 3
 Extra = 1
 Feats = {"off"}
 HeadPcs = {}
 NextResolve = "ascoded"
 TickMode = "ascoded"
 Variant = "code"
 MaxTime = 13
 MaxFail = 1
 Interleave = TRUE
 MaxJump = 2
 BVariants = {1}
 AttOffs = {1}
 ProMenu = {1}
 SyncMenu = {2}
 Starts = {6}
INVARIANTS AtMostOnce OnlyAssigned NotEarly TickOrder TickNotEarly Complete TruthOK TickFresh
CHECK_DEADLOCK FALSE
