SPECIFICATION MCSpec
CONSTANTS SlotDur = 3
 Extra = 1
 Feats = {"off"}
 HeadPcs = {}
 NextResolve = "ascoded"
 TickMode = "ascoded"
 Variant = "code"
 MaxTime = 26
 MaxFail = 1
 Interleave = FALSE
 MaxJump = 2
 BVariants = {1, 2}
 AttOffs = {0, 1, 2}
 ProMenu = {1, 2, 3}
 SyncMenu = {0, 2}
 Starts = {0, 1, 6}
INVARIANTS AtMostOnce OnlyAssigned NotEarly TickOrder TickNotEarly Complete TruthOK TickFresh
CHECK_DEADLOCK FALSE
