SPECIFICATION MCSpec
CONSTANTS SlotDur = 3
 Extra = 1
 Feats = {"on"}
 HeadPcs = {"idle", "sched"}
 NextResolve = "ascoded"
 TickMode = "ascoded"
 Variant = "headfire"
 MaxTime = 26
 MaxFail = 1
 Interleave = FALSE
 MaxJump = 1
 BVariants = {1}
 AttOffs = {0}
 ProMenu = {1}
 SyncMenu = {2}
 Starts = {0}
INVARIANTS AtMostOnce OnlyAssigned NotEarly TickOrder TickNotEarly Complete TruthOK TickFresh FetchOnce FetchNotAfterTrigger OffInert
CHECK_DEADLOCK FALSE
