---- MODULE TraceCommon ----
(* Shared trace-validation idiom.  The executor's traces are in `traces.ndjson` in the working directory, ONE
   TRACE PER LINE (a JSON array of events).  Each trace is an independent initial state (variable `tr`), `l` is
   the position of the next event.  Two TLC registers hold, per trace, the high-water mark of `l` and the name
   of an invariant that failed on the furthest branch; both are printed by the POSTCONDITION and the verdict per
   trace is computed by tools/vlib.py: accepted iff the high-water mark is Len(trace)+1.  A state that violates
   an invariant is pruned (CheckInv is used inside the CONSTRAINT), so that one bad trace does not stop the
   validation of the others.  Run with -workers 1 (registers are per worker). *)
EXTENDS Integers, Sequences, TLC, Json
Traces == ndJsonDeserialize("traces.ndjson")
NTraces == Len(Traces)
VARIABLES tr, l
Trace == Traces[tr]
TLen == Len(Trace)
Ev == Trace[l]
IsEvent(e) == l <= TLen /\ Ev.ev = e /\ l' = l + 1 /\ tr' = tr
TrInit == tr \in 1..NTraces /\ l = 1
Silent == UNCHANGED <<tr, l>>
ASSUME TLCSet(1, [i \in 1..NTraces |-> 0]) /\ TLCSet(2, [i \in 1..NTraces |-> "-"])
HWMark == LET h == TLCGet(1) IN IF l > h[tr] THEN TLCSet(1, [h EXCEPT ![tr] = l]) ELSE TRUE
\* TLC evaluates the state CONSTRAINT of a successor BEFORE the ACTION_CONSTRAINT, so a trace spec that has an
\* ACTION_CONSTRAINT must advance the high-water mark there (as its LAST conjunct, on the primed variables) and not in
\* the CONSTRAINT: otherwise a final step that only the action constraint rejects would still count as consumed.
HWMarkA == LET h == TLCGet(1) IN IF l' > h[tr'] THEN TLCSet(1, [h EXCEPT ![tr'] = l']) ELSE TRUE
InvFail(name) == LET h == TLCGet(2) IN TLCSet(2, [h EXCEPT ![tr] = name]) /\ FALSE
CheckInv(name, pred) == pred \/ InvFail(name)
Report == JsonSerialize("verdict.json", [hw |-> TLCGet(1), fails |-> TLCGet(2)])
\* JSON arrays come back as sequences
SeqToSet(s) == {s[i] : i \in DOMAIN s}
Has(rec, f) == f \in DOMAIN rec
====
