SPECIFICATION MCSpec
CONSTANTS
 GateOn = FALSE
 NoVerify = FALSE
 CheckMode = "pubshare"
 MCCfgs <- Cfg3v2f
 MaxForge = 1
 Combine = FALSE
INVARIANTS I2_SenderBound
CHECK_DEADLOCK FALSE
