---- MODULE NodeSigsMC ----
(* Exhaustive design check: every cluster in MCCfgs (size, number of validators, position of the faulty peer) x every
   fault plan x the message interleavings that matter.

   A fault plan gives the faulty peer's behaviour per phase, a record [kind, val, peer]:
     exchange phases (dep, reg, lock)
       "honest"                it runs the step function
       "silent"                it sends nothing
       "swap"     val, peer    its partial for validator val is signed with PEER's secret share of val (shares swapped)
       "xval"     val          ... with its own share of ANOTHER validator                      (needs V >= 2)
       "xvalall"               every partial is signed with its share of the next validator   (needs V >= 2)
       "othermsg" val          ... is over another message
       "claim"    val, peer    ... claims PEER's share index
       "drop"     val          its set lacks validator val
       "forge"    peer         an EXTRA message claiming honest PEER's share index for every validator (signed with
                               its own shares), to every honest peer, at any time -- then it runs the step function
     node signatures (nsig)
       "honest" | "silent" | "otherkey" peer (signed with PEER's ENR key) | "otherhash" | "claim" peer (claims PEER's
       index) | "marker" (0xdeadbeef)
   Plans: at most one fault other than "forge", honest phases after it (nothing runs after it anyway, except after
   "marker"); forged extras (in at most MaxForge phases) either stand alone (Combine = FALSE) or also precede a later
   fault (Combine = TRUE).

   Reductions that lose no reachable verdict: the honest peers start in peer order and their messages are delivered in
   (from, to) order -- they fill different slots of different stores, so they commute; everything the faulty peer
   sends (its set, the forged extras) interleaves anywhere, in particular before / after the genuine partial of the
   peer whose index it claims and before / after that peer's own start.  The operator only cancels a stalled ceremony. *)
EXTENDS NodeSigs
CONSTANTS MCCfgs, MaxForge,
          Combine     \* TRUE: forged extras in earlier phases combine with a later fault; FALSE: one fault per plan
VARIABLES plan, forged       \* forged: receivers the extra message of the current phase went to
mcvars == <<vars, plan, forged>>

Flt(k, v, p) == [kind |-> k, val |-> v, peer |-> p]
HonestFlt == Flt("honest", 0, 0)
Others(c) == (1..c.n) \ {c.f}
ExBlocking(c) == {Flt("silent", 0, 0)}
                   \cup {Flt("swap", v, j) : v \in 1..c.V, j \in Others(c)}
                   \cup (IF c.V >= 2 THEN {Flt("xval", v, 0) : v \in 1..c.V} \cup {Flt("xvalall", 0, 0)} ELSE {})
                   \cup {Flt("othermsg", v, 0) : v \in 1..c.V}
                   \cup {Flt("claim", v, j) : v \in 1..c.V, j \in Others(c)}
                   \cup {Flt("drop", v, 0) : v \in 1..c.V}
ExForge(c) == {Flt("forge", 0, j) : j \in Others(c)}
NsBlocking(c) == {Flt("silent", 0, 0), Flt("otherhash", 0, 0), Flt("marker", 0, 0)}
                   \cup {Flt("otherkey", 0, j) : j \in Others(c)} \cup {Flt("claim", 0, j) : j \in Others(c)}
PhaseNo(p) == CASE p = "dep" -> 1 [] p = "reg" -> 2 [] p = "lock" -> 3 [] OTHER -> 4
Soft(c) == {s \in [ExPhases -> {HonestFlt} \cup ExForge(c)] : Cardinality({p \in ExPhases : s[p] # HonestFlt}) <= MaxForge}
Blocking(c, b) == IF b = "nsig" THEN NsBlocking(c) ELSE ExBlocking(c)
Plans(c) ==
  IF c.f = 0 THEN {[p \in MsgPhases |-> HonestFlt]}
  ELSE {[p \in MsgPhases |-> IF p = "nsig" THEN HonestFlt ELSE s[p]] : s \in Soft(c)}
       \cup UNION {{[p \in MsgPhases |-> IF p = b THEN flt ELSE IF PhaseNo(p) < PhaseNo(b) THEN s[p] ELSE HonestFlt] :
                      s \in (IF Combine THEN Soft(c) ELSE {[p \in ExPhases |-> HonestFlt]}), flt \in Blocking(c, b)} : b \in MsgPhases}

OtherVal(v) == (v % cfg.V) + 1
FParts(flt) ==
  LET h == HonestParts(F) IN
  CASE flt.kind = "swap"     -> (h \ {HonestPart(F, flt.val)}) \cup {Part(flt.val, F, flt.peer, flt.val, "right")}
    [] flt.kind = "xval"     -> (h \ {HonestPart(F, flt.val)}) \cup {Part(flt.val, F, F, OtherVal(flt.val), "right")}
    [] flt.kind = "xvalall"  -> {Part(v, F, F, OtherVal(v), "right") : v \in Vals}
    [] flt.kind = "othermsg" -> (h \ {HonestPart(F, flt.val)}) \cup {Part(flt.val, F, F, flt.val, "other")}
    [] flt.kind = "claim"    -> (h \ {HonestPart(F, flt.val)}) \cup {Part(flt.val, flt.peer, F, flt.val, "right")}
    [] flt.kind = "drop"     -> h \ {HonestPart(F, flt.val)}
    [] OTHER                 -> h
ForgedParts(flt) == {Part(v, flt.peer, F, v, "right") : v \in Vals}
FSigOf(flt) ==
  CASE flt.kind = "otherkey"  -> NSig(F, flt.peer, "hash")
    [] flt.kind = "otherhash" -> NSig(F, F, "other")
    [] flt.kind = "claim"     -> NSig(flt.peer, F, "hash")
    [] flt.kind = "marker"    -> NSig(F, 0, "marker")
    [] OTHER                  -> OwnSig(F)

Cur == IF phase \in MsgPhases THEN plan[phase] ELSE HonestFlt
FollowsScript == F = 0 \/ Cur.kind \in {"honest", "forge"}
\* canonical order of the honest peers' moves
MayStart(i) == /\ (i = F => FollowsScript)
               /\ \A k \in Runners : k < i => (pc[k] # "wait" \/ (k = F /\ ~FollowsScript))
HonestMsgs == {m \in net : m.from # F /\ Deliverable(m)}
First(ms) == CHOOSE m \in ms : \A x \in ms : m.from < x.from \/ (m.from = x.from /\ m.to <= x.to)
MayRecv(m) == m.from = F \/ (HonestMsgs # {} /\ m = First(HonestMsgs))

MCInit == /\ \E c \in MCCfgs : InitWith(c) /\ plan \in Plans(c)
          /\ forged = {}
MCNext ==
  \/ /\ UNCHANGED <<plan, forged>>
     /\ \/ \E i \in Runners : MayStart(i) /\ (Start(i) \/ NStart(i))
        \/ /\ ~FollowsScript /\ Cur.kind # "silent"
           /\ IF phase = "nsig" THEN FNSig(FSigOf(Cur)) ELSE FSend(FParts(Cur))
        \/ ~FollowsScript /\ Cur.kind = "silent" /\ FQuit
        \/ \E m \in net : MayRecv(m) /\ (Recv(m) \/ NRecv(m))
        \/ \E i \in Peers : \E out \in Verdicts(i) : Return(i, out)
        \/ \E i \in Peers : NReturn(i, Ok(0), SigList(i))
        \/ \E i \in Peers : ReturnCtx(i)
        \/ Stalled /\ Cancel
        \/ \E i \in Runners : Verify(i, VerifyVerdict(i))
  \/ /\ Cur.kind = "forge" /\ UNCHANGED plan
     /\ \E to \in Honest \ forged : FForge(to, ForgedParts(Cur)) /\ forged' = forged \cup {to}
  \/ Advance /\ forged' = {} /\ UNCHANGED plan
MCSpec == MCInit /\ [][MCNext]_mcvars

\* reachability controls (must be VIOLATED under the tree's constants: guard against vacuous invariants)
Reach_NoLock == \A i \in Peers : ~Written(i)
Reach_NoShortList == \A i \in Peers : res[i]["nsig"].st = "ok" => Len(res[i]["nsig"].list) = cfg.n
Reach_NoCancel == ~cancelled

\* cluster sets for the configurations
Cl(n, V) == {[n |-> n, V |-> V, f |-> f] : f \in 0..n}
Cfg3 == Cl(3, 1) \cup Cl(3, 2)
Cfg4 == Cl(4, 1) \cup Cl(4, 2)
Cfg34 == Cfg3 \cup Cfg4
Cfg3v2f == {[n |-> 3, V |-> 2, f |-> f] : f \in 1..3}
Cfg3v2one == {[n |-> 3, V |-> 2, f |-> 2]}
====
