SPECIFICATION MCSpec
CONSTANTS
 GateOn = TRUE
 NoVerify = FALSE
 CheckMode = "pubshare"
 MCCfgs <- Cfg3v2one
 MaxForge = 1
 Combine = FALSE
INVARIANTS Reach_NoShortList
CHECK_DEADLOCK FALSE
