---- MODULE NodeSigsTrace ----
(* Trace validation for ceremony steps 2..6.  Events are written by the executor (harness/nodesigs):
     {"ev":"Reset","sid","n","V","f"}                         fresh cluster: n real nodes, faulty peer f (0: none)
     {"ev":"Forge","ph","to","parts","admitted"}              an extra message of f was handed to `to`'s parsigex handler
                                                              under f's transport identity; admitted = handler returned nil
     {"ev":"Start","i","ph"}                                  peer i enters the step function of phase ph
     {"ev":"FSend","ph","parts"} / {"ev":"FQuit","ph"}        f leaves the script: exchange() with this set / nothing
     {"ev":"FNSig","sig":{idx,by,over}}                       f broadcasts this node signature
     {"ev":"Phase","i","ph","st","err","blame","lh","sigs"}   the step function returned: st = ok | abort (err = partial:
                                                              blame = peerIdx+1 | agg) | ctx | err | fail (verify: err =
                                                              class); lh = class of the lock hash; sigs = per returned
                                                              node signature whose ENR key verifies it (0: nobody's)
     {"ev":"Cancel"}                                          the operator cancelled the ceremony contexts
     {"ev":"Barrier","ph"}                                    every runner finished the phase: the next one starts
     {"ev":"Hang",..}                                         a step function did not return (no spec step)
   A partial is {"val","idx","by":[peer,val],"msg"}.  Message deliveries are not logged: they are silent steps, taken
   eagerly in (from, to) order before the next event (with the gate in place deliveries to different slots commute, and
   the driver logs every send before the first step function can return).
   A return is RECORDED as observed (so that the design spec's invariants name what went wrong) and additionally
   compared with what the transcription of the code yields (Conforms). *)
EXTENDS NodeSigs, TraceCommon
VARIABLE odd
tvars == <<vars, odd, tr, l>>
PartOf(p) == Part(p.val, p.idx, p.by[1], p.by[2], p.msg)
Parts(q) == {PartOf(q[k]) : k \in DOMAIN q}
SigOf(s) == NSig(s.idx, s.by, s.over)
TraceInit == /\ TrInit
             /\ InitWith([n |-> Traces[tr][1].n, V |-> Traces[tr][1].V, f |-> Traces[tr][1].f])
             /\ odd = ""
Ready == {m \in net : Deliverable(m)}
Quiet == Ready = {}
Least(ms) == CHOOSE m \in ms : \A x \in ms : m.from < x.from \/ (m.from = x.from /\ m.to <= x.to)
TDeliver == /\ ~Quiet /\ (Recv(Least(Ready)) \/ NRecv(Least(Ready))) /\ Silent /\ UNCHANGED odd
TReset == IsEvent("Reset") /\ l = 1 /\ UNCHANGED <<vars, odd>>
TStart == /\ IsEvent("Start") /\ Quiet /\ Ev.ph = phase
          /\ (Start(Ev.i) \/ NStart(Ev.i)) /\ UNCHANGED odd
TForge == /\ IsEvent("Forge") /\ Quiet /\ Ev.ph = phase /\ phase \in ExPhases /\ F # 0 /\ Ev.to \in Honest
          /\ store' = IF Ev.admitted THEN [store EXCEPT ![Ev.to] = StoreAdd(@, F, Parts(Ev.parts))] ELSE store
          /\ odd' = IF Ev.admitted = GateAdmits(F, Parts(Ev.parts)) THEN odd ELSE "gate"
          /\ UNCHANGED <<cfg, phase, script, off, cancelled, pc, net, slots, fmsg, res>>
TFSend == IsEvent("FSend") /\ Quiet /\ Ev.ph = phase /\ FSend(Parts(Ev.parts)) /\ UNCHANGED odd
TFQuit == IsEvent("FQuit") /\ Quiet /\ Ev.ph = phase /\ FQuit /\ UNCHANGED odd
TFNSig == IsEvent("FNSig") /\ Quiet /\ FNSig(SigOf(Ev.sig)) /\ UNCHANGED odd
TCancel == IsEvent("Cancel") /\ Cancel /\ UNCHANGED odd
TBarrier == IsEvent("Barrier") /\ Quiet /\ Advance /\ phase' = Ev.ph /\ UNCHANGED odd
Expected(i, out, list) ==
  CASE phase \in ExPhases -> (out = Ctx /\ cancelled) \/ (Complete(store[i]) /\ out \in Verdicts(i) /\ list = <<>>)
    [] phase = "nsig"     -> (out = Ctx /\ cancelled) \/ (Filled(i) /\ out = Ok(0) /\ list = SigList(i))
    [] OTHER              -> out = VerifyVerdict(i) /\ list = <<>>
TPhase == /\ IsEvent("Phase") /\ Quiet /\ Ev.ph = phase /\ phase # "done"
          /\ LET i == Ev.i
                 out == [st |-> Ev.st, blame |-> Ev.blame, err |-> Ev.err, lh |-> Ev.lh] IN
             /\ i \in Runners /\ pc[i] = (IF phase = "verify" THEN "wait" ELSE "run")
             /\ Finish(i, out, IF phase \in ExPhases THEN store[i] ELSE EmptyStore, Ev.sigs)
             /\ odd' = IF Expected(i, out, Ev.sigs) THEN odd ELSE "return"
TraceNext == TDeliver \/ TReset \/ TStart \/ TForge \/ TFSend \/ TFQuit \/ TFNSig \/ TCancel \/ TBarrier \/ TPhase
TraceSpec == TraceInit /\ [][TraceNext]_tvars
Conforms == odd = ""
Mark == /\ CheckInv("I2_SenderBound", I2_SenderBound) /\ CheckInv("I3_NoPassWithBad", I3_NoPassWithBad)
        /\ CheckInv("I4_HonestNotBlamed", I4_HonestNotBlamed) /\ CheckInv("I4_OnlyFaultsFail", I4_OnlyFaultsFail)
        /\ CheckInv("I1_LockSound", I1_LockSound) /\ CheckInv("LockAgree", LockAgree)
        /\ CheckInv("I4_NoStall", I4_NoStall) /\ CheckInv("TypeOK", TypeOK)
        /\ CheckInv("Conforms", Conforms)
        /\ HWMark
====
