SPECIFICATION MCSpec
CONSTANTS
 GateOn = TRUE
 NoVerify = TRUE
 CheckMode = "pubshare"
 MCCfgs <- Cfg3v2one
 MaxForge = 1
 Combine = FALSE
INVARIANTS I1_LockSound
CHECK_DEADLOCK FALSE
