---- MODULE NodeSigs ----
(* Ceremony steps 2..6 of dkg.Run: partial signature exchange + aggregation for deposit data ("dep"), builder
   registrations ("reg") and the lock hash ("lock"), the node signature exchange ("nsig") and the final
   lock.VerifySignatures ("verify"), transcribed from

     dkg/exchanger.go     newExchanger / verifyPeerShareIdx (the GATE) / exchange / pushPsigs / resolveQueriesUnsafe
     core/parsigex        handle: every partial of a received set goes through verifyFunc (= the gate), ONE refusal
                          rejects the WHOLE message; accepted sets go to parsigdb.StoreExternal
     core/parsigdb        store: at most one partial per (validator, share index): an equal duplicate is ignored, a
                          different second one is refused ("mismatching partial signed data"); threshold = n peers
     dkg/dkg.go           signAndAgg{DepositData,ValidatorRegistrations,LockHash}, agg*: every partial is verified
                          against pubshares[partial.ShareIdx] of its validator (the error names peerIdx = ShareIdx-1),
                          dep/reg: threshold aggregate verified against the validator GROUP key; lock: full BLS
                          aggregate of all n*V partials, tbls.VerifyAggregate against ALL pubshares
     dkg/nodesigs.go      nodeSigBcast.exchange / broadcastCallback / allSigs
     cluster/lock.go      VerifySignatures / verifyNodeSignatures

   Actions: Start / Recv / Return (exchange phases), NStart / NRecv / NReturn (node signatures), Verify, the step
   barrier Advance, the operator's Cancel + ReturnCtx, and the faulty peer's FSend / FQuit / FForge / FNSig (arbitrary
   arguments: the repertoire lives in NodeSigsMC).  Return / NReturn / Verify take the returned value as an argument
   so that the trace specification can record what was observed and let the invariants below judge it.

   Peers are 1..n; the SHARE INDEX OF A PEER IS ITS PEER INDEX here (peer i holds share index i of every validator;
   the code's peerIdx is i-1).  Validators are 1..V.  F is the faulty peer (0: none).  The phases are separated by the
   ceremony's step barrier (dkg/sync; family DKGSync): a phase starts when every running peer finished the previous one.
   `cfg` never changes: it is a variable so that one TLC run covers several clusters and every recorded trace brings
   its own.

   Crypto abstraction (as specs/BcastDKG, specs/Pipeline): a partial signature is the record
       [val, idx (CLAIMED share index), by (<<peer, val>>: whose secret share signed), msg ("right" | "other")]
   it verifies under pubshare (k, v) for the phase's message iff by = <<k, v>> and msg = "right".  A node signature is
       [idx (claimed peer index), by (whose ENR key signed), over ("hash" | "other" | "marker")]
   "marker" being the 4 bytes 0xdeadbeef (noneData).  All honest peers derive the same phase messages (deposit
   message / registration / lock hash are functions of the definition and of aggregates that are unique).

   The reliable broadcast under the node signatures is family BcastDKG's business: here a broadcast of sender s
   reaches every other peer as a whole, and a peer broadcasts at most one node signature.

   Switches (value of the tree first):
     GateOn     TRUE | FALSE                            verifyPeerShareIdx compares ShareIdx with the sender's
     NoVerify   FALSE | TRUE                            conf.NoVerify: step 6 skipped
     CheckMode  "pubshare" | "aggonly" | "groupkey"     what aggregation checks: every partial against
                pubshares[ShareIdx] (+ the aggregate) | the aggregate only | every partial against the group key *)
EXTENDS Integers, Sequences, FiniteSets, TLC
CONSTANTS GateOn, NoVerify, CheckMode

VARIABLES cfg,        \* [n, V, f]
          phase,      \* "dep" | "reg" | "lock" | "nsig" | "verify" | "done"
          script,     \* the faulty peer follows the protocol in the current phase (it runs the step function like everybody)
          off,        \* history: it left the script in some phase
          cancelled,  \* the operator cancelled the ceremony contexts
          pc,         \* [peer -> "wait" | "run" | "done"] in the current phase
          net,        \* messages in flight: set of [from, to, parts, sig]
          store,      \* [peer -> [val -> set of [part, from]]]: parsigdb of the current phase's signature type
          slots,      \* [peer -> [1..n -> node signature]]: nodeSigBcast.sigs
          fmsg,       \* history: [phase -> [sent, parts, sig]] what the faulty peer broadcast off script
          res         \* history: [peer -> [phase -> result]] what each step function returned
vars == <<cfg, phase, script, off, cancelled, pc, net, store, slots, fmsg, res>>

Peers == 1..cfg.n
Vals == 1..cfg.V
F == cfg.f
Honest == Peers \ {F}
ExPhases == {"dep", "reg", "lock"}
MsgPhases == {"dep", "reg", "lock", "nsig"}
AllPhases == {"dep", "reg", "lock", "nsig", "verify"}
NextPhase(p) == CASE p = "dep" -> "reg" [] p = "reg" -> "lock" [] p = "lock" -> "nsig" [] p = "nsig" -> "verify"
                  [] OTHER -> "done"
Runners == IF (IF phase = "verify" THEN ~off ELSE script) THEN Peers ELSE Honest

Part(v, k, bp, bv, m) == [val |-> v, idx |-> k, by |-> <<bp, bv>>, msg |-> m]
HonestPart(p, v) == Part(v, p, p, v, "right")
HonestParts(p) == {HonestPart(p, v) : v \in Vals}
VerifiesUnder(pt, k, v) == pt.by = <<k, v>> /\ pt.msg = "right"

NSig(k, b, o) == [idx |-> k, by |-> b, over |-> o]
EmptySig == NSig(0, 0, "empty")
OwnSig(p) == NSig(p, p, "hash")

EmptyStore == [v \in Vals |-> {}]
Result(st, blame, err, data, list, lh) == [st |-> st, blame |-> blame, err |-> err, data |-> data, list |-> list, lh |-> lh]
NoRes == Result("none", 0, "", <<>>, <<>>, 0)
NoMsg == [sent |-> FALSE, parts |-> {}, sig |-> EmptySig]

InitWith(c) ==
  /\ cfg = c
  /\ phase = "dep" /\ script = TRUE /\ off = FALSE /\ cancelled = FALSE
  /\ pc = [i \in 1..c.n |-> "wait"]
  /\ net = {}
  /\ store = [i \in 1..c.n |-> [v \in 1..c.V |-> {}]]
  /\ slots = [i \in 1..c.n |-> [k \in 1..c.n |-> EmptySig]]
  /\ fmsg = [p \in MsgPhases |-> NoMsg]
  /\ res = [i \in 1..c.n |-> [p \in AllPhases |-> NoRes]]

---------------------------------------------------------------------------------------------------
(* parsigex.handle + parsigdb.StoreExternal at receiver r for a set `parts` from transport sender s. *)
GateAdmits(s, parts) == ~GateOn \/ \A pt \in parts : pt.idx = s
StoreAdd(st, s, parts) ==
  [v \in Vals |-> st[v] \cup {[part |-> pt, from |-> s] :
                               pt \in {x \in parts : x.val = v /\ ~\E e \in st[v] : e.part.idx = x.idx}}]
Handle(r, s, parts) == IF GateAdmits(s, parts) THEN store' = [store EXCEPT ![r] = StoreAdd(@, s, parts)]
                       ELSE UNCHANGED store
Msg(s, r, parts, sg) == [from |-> s, to |-> r, parts |-> parts, sig |-> sg]

(* exchange(): StoreInternal (own database first, no gate; a refusal makes exchange fail before anything is sent),
   then the set goes to every other peer. *)
Start(i) ==
  /\ phase \in ExPhases /\ i \in Runners /\ pc[i] = "wait" /\ ~cancelled
  /\ LET own == HonestParts(i)
         clash == \E pt \in own : \E e \in store[i][pt.val] : e.part.idx = pt.idx /\ e.part # pt IN
     /\ store' = [store EXCEPT ![i] = StoreAdd(@, i, own)]
     /\ IF clash
          THEN /\ pc' = [pc EXCEPT ![i] = "done"]
               /\ res' = [res EXCEPT ![i][phase] = Result("err", 0, "mismatch", store'[i], <<>>, 0)]
               /\ UNCHANGED net
          ELSE /\ pc' = [pc EXCEPT ![i] = "run"]
               /\ net' = net \cup {Msg(i, r, own, EmptySig) : r \in Peers \ {i}}
               /\ UNCHANGED res
  /\ UNCHANGED <<cfg, phase, script, off, cancelled, slots, fmsg>>

(* The faulty peer leaves the script: it broadcasts an arbitrary set (at most one partial per validator: the set is
   a map keyed by validator), or nothing at all. *)
FSend(parts) ==
  /\ phase \in ExPhases /\ F # 0 /\ script /\ pc[F] = "wait"
  /\ script' = FALSE /\ off' = TRUE
  /\ fmsg' = [fmsg EXCEPT ![phase] = [sent |-> TRUE, parts |-> parts, sig |-> EmptySig]]
  /\ net' = net \cup {Msg(F, r, parts, EmptySig) : r \in Honest}
  /\ UNCHANGED <<cfg, phase, cancelled, pc, store, slots, res>>
FQuit ==
  /\ phase \in MsgPhases /\ F # 0 /\ script /\ pc[F] = "wait"
  /\ script' = FALSE /\ off' = TRUE
  /\ UNCHANGED <<cfg, phase, cancelled, pc, net, store, slots, fmsg, res>>
(* ... and at any time it may send an EXTRA message to a peer (handled at once: in flight for any time) *)
FForge(to, parts) ==
  /\ phase \in ExPhases /\ F # 0 /\ to \in Honest
  /\ Handle(to, F, parts)
  /\ UNCHANGED <<cfg, phase, script, off, cancelled, pc, net, slots, fmsg, res>>

Recv(m) ==
  /\ phase \in ExPhases /\ m \in net
  /\ net' = net \ {m}
  /\ Handle(m.to, m.from, m.parts)
  /\ UNCHANGED <<cfg, phase, script, off, cancelled, pc, slots, fmsg, res>>

(* parsigdb fires at exactly n partials of a validator, pushPsigs collects the validators, the pending query resolves
   when all V are there. *)
Complete(st) == \A v \in Vals : Cardinality(st[v]) = cfg.n
Entries(st) == UNION {st[v] : v \in Vals}
BadIdx(st) == {e.part.idx : e \in {x \in Entries(st) : ~VerifiesUnder(x.part, x.part.idx, x.part.val)}}
\* threshold aggregate of the n partials of validator v verifies under the group key iff every point is the right share
ThreshOK(st, v) == \A e \in st[v] : VerifiesUnder(e.part, e.part.idx, v)
\* full aggregate over ONE message: verifies against all pubshares iff the signing keys are a permutation of them
LockAggOK(st) == /\ \A e \in Entries(st) : e.part.msg = "right"
                 /\ Cardinality(Entries(st)) = cfg.n * cfg.V
                 /\ {e.part.by : e \in Entries(st)} = Peers \X Vals
Ok(lh) == [st |-> "ok", blame |-> 0, err |-> "", lh |-> lh]
Abort(b, e) == [st |-> "abort", blame |-> b, err |-> e, lh |-> 0]
Fail(e) == [st |-> "fail", blame |-> 0, err |-> e, lh |-> 0]
LockHashOf(i) == IF phase = "lock" THEN 1 ELSE 0
Verdicts(i) ==
  LET st == store[i] IN
  CASE CheckMode = "pubshare" -> IF BadIdx(st) = {} THEN {Ok(LockHashOf(i))} ELSE {Abort(b, "partial") : b \in BadIdx(st)}
    [] CheckMode = "aggonly"  -> IF (IF phase = "lock" THEN LockAggOK(st) ELSE \A v \in Vals : ThreshOK(st, v))
                                   THEN {Ok(LockHashOf(i))} ELSE {Abort(0, "agg")}
    [] OTHER                  -> {Abort(e.part.idx, "partial") : e \in Entries(st)}
\* the step function returns `out` (the trace specification passes what was observed)
Finish(i, out, data, list) ==
  /\ pc' = [pc EXCEPT ![i] = "done"]
  /\ res' = [res EXCEPT ![i][phase] = Result(out.st, out.blame, out.err, data, list, out.lh)]
  /\ UNCHANGED <<cfg, phase, script, off, cancelled, net, store, slots, fmsg>>
Return(i, out) ==
  /\ phase \in ExPhases /\ pc[i] = "run" /\ Complete(store[i]) /\ out \in Verdicts(i)
  /\ Finish(i, out, store[i], <<>>)
Cancel == /\ phase # "done" /\ ~cancelled /\ cancelled' = TRUE
          /\ UNCHANGED <<cfg, phase, script, off, pc, net, store, slots, fmsg, res>>
Ctx == [st |-> "ctx", blame |-> 0, err |-> "ctx", lh |-> 0]
ReturnCtx(i) == /\ phase \in MsgPhases /\ pc[i] = "run" /\ cancelled
                /\ Finish(i, Ctx, IF phase \in ExPhases THEN store[i] ELSE EmptyStore, <<>>)

---------------------------------------------------------------------------------------------------
(* nodeSigBcast.exchange: sign the lock hash, broadcast, own slot, then poll allSigs. *)
NStart(i) ==
  /\ phase = "nsig" /\ i \in Runners /\ pc[i] = "wait" /\ ~cancelled
  /\ pc' = [pc EXCEPT ![i] = "run"]
  /\ net' = net \cup {Msg(i, r, {}, OwnSig(i)) : r \in Peers \ {i}}
  /\ slots' = [slots EXCEPT ![i][i] = OwnSig(i)]
  /\ UNCHANGED <<cfg, phase, script, off, cancelled, store, fmsg, res>>
FNSig(sg) ==
  /\ phase = "nsig" /\ F # 0 /\ script /\ pc[F] = "wait"
  /\ script' = FALSE /\ off' = TRUE
  /\ fmsg' = [fmsg EXCEPT !["nsig"] = [sent |-> TRUE, parts |-> {}, sig |-> sg]]
  /\ net' = net \cup {Msg(F, r, {}, sg) : r \in Honest}
  /\ UNCHANGED <<cfg, phase, cancelled, pc, store, slots, res>>
(* broadcastCallback at r, transport sender s.  The marker is stored BEFORE the lock hash is awaited; everything
   else waits until r's own exchange() supplied the lock hash. *)
CallbackOK(r, s, sg) == /\ sg.idx \in Peers /\ sg.idx # r /\ sg.idx = s
                        /\ (sg.over = "marker" \/ (sg.by = sg.idx /\ sg.over = "hash"))
Deliverable(m) == IF phase = "nsig" THEN m.sig.over = "marker" \/ pc[m.to] # "wait" ELSE TRUE
NRecv(m) ==
  /\ phase = "nsig" /\ m \in net /\ Deliverable(m)
  /\ net' = net \ {m}
  /\ IF CallbackOK(m.to, m.from, m.sig)
       THEN slots' = [slots EXCEPT ![m.to][m.sig.idx] = IF m.sig.over = "marker" THEN NSig(m.sig.idx, 0, "marker") ELSE m.sig]
       ELSE UNCHANGED slots
  /\ UNCHANGED <<cfg, phase, script, off, cancelled, pc, store, fmsg, res>>
(* allSigs: every slot filled; marker slots are DELETED from the list (the rest moves up).  The list is described by
   whose key verifies each entry over the lock hash (0: nobody's). *)
Filled(i) == \A k \in Peers : slots[i][k].over # "empty"
SigList(i) == LET kept == SelectSeq([k \in Peers |-> slots[i][k]], LAMBDA s : s.over # "marker") IN
              [k \in 1..Len(kept) |-> IF kept[k].over = "hash" THEN kept[k].by ELSE 0]
NReturn(i, out, list) ==
  /\ phase = "nsig" /\ pc[i] = "run" /\ Filled(i) /\ out = Ok(0) /\ list = SigList(i)
  /\ Finish(i, out, EmptyStore, list)

(* lock.VerifySignatures on the lock the node assembled: aggregate against all pubshares, builder registrations
   against the group keys, node signatures: count = n and entry k under operator k's ENR key.  (Deposit data
   signatures are not part of it.) *)
VerifyVerdict(i) ==
  IF NoVerify THEN Ok(0)
  ELSE LET lk == res[i]["lock"].data
           rg == res[i]["reg"].data
           ls == res[i]["nsig"].list IN
       IF ~LockAggOK(lk) THEN Fail("aggsig")
       ELSE IF ~\A v \in Vals : ThreshOK(rg, v) THEN Fail("breg")
       ELSE IF Len(ls) # cfg.n THEN Fail("nsigcount")
       ELSE IF \E k \in Peers : ls[k] # k THEN Fail("nsig")
       ELSE Ok(0)
Verify(i, out) ==
  /\ phase = "verify" /\ i \in Runners /\ pc[i] = "wait" /\ out = VerifyVerdict(i)
  /\ Finish(i, out, EmptyStore, <<>>)

(* the step barrier *)
Advance ==
  /\ phase # "done"
  /\ \A i \in Runners : pc[i] = "done" /\ (phase # "verify" => res[i][phase].st = "ok")
  /\ phase' = NextPhase(phase)
  /\ pc' = [i \in Peers |-> "wait"]
  /\ net' = {}
  /\ store' = [i \in Peers |-> EmptyStore]
  /\ UNCHANGED <<cfg, off, cancelled, slots, fmsg, res>>
  /\ script' = TRUE

---------------------------------------------------------------------------------------------------
(* Invariants *)
Written(i) == res[i]["verify"].st = "ok"                      \* the node writes its cluster lock
GoodData(d) == \A v \in Vals, k \in Peers : \E e \in d[v] : e.part.idx = k /\ e.from = k /\ VerifiesUnder(e.part, k, v)
GoodList(ls) == Len(ls) = cfg.n /\ \A k \in Peers : ls[k] = k
\* I1: a lock is only written over partials that verify against the pubshare of the peer that sent them, and a
\*     complete, aligned list of node signatures
I1_LockSound == \A i \in Honest : Written(i) =>
                   /\ \A p \in ExPhases : res[i][p].st = "ok" /\ GoodData(res[i][p].data)
                   /\ res[i]["nsig"].st = "ok" /\ GoodList(res[i]["nsig"].list)
\* I2: what sits in the slot of share index k came from transport sender k (so it is only ever checked against k's pubshare)
I2_SenderBound == \A i \in Honest :
                   /\ \A e \in Entries(store[i]) : e.from = e.part.idx
                   /\ \A p \in ExPhases : res[i][p].st # "none" => \A e \in Entries(res[i][p].data) : e.from = e.part.idx
\* I3: nobody gets past a phase with a wrong / swapped / missing partial or node signature
NSigListOK(ls) == /\ \A k \in 1..Len(ls) : ls[k] \in Peers
                  /\ \A k \in 1..Len(ls), j \in 1..Len(ls) : k < j => ls[k] < ls[j]
                  /\ Peers \ {ls[k] : k \in 1..Len(ls)} \subseteq {F}
I3_NoPassWithBad == \A i \in Honest :
                   /\ \A p \in ExPhases : res[i][p].st = "ok" =>
                          /\ Complete(res[i][p].data) /\ GoodData(res[i][p].data)
                          /\ fmsg[p].sent => fmsg[p].parts = HonestParts(F)
                   /\ res[i]["nsig"].st = "ok" => NSigListOK(res[i]["nsig"].list)
\* I4: honest peers are never blamed, nothing fails while everybody follows the script, fault-free ceremonies complete
I4_HonestNotBlamed == \A i \in Honest, p \in AllPhases : res[i][p].st = "abort" => (F # 0 /\ res[i][p].blame = F)
I4_OnlyFaultsFail == \A i \in Peers, p \in AllPhases : res[i][p].st \in {"abort", "err", "fail"} => (F # 0 /\ off)
CanReturn(i) == IF phase \in ExPhases THEN Complete(store[i]) ELSE Filled(i)
Stalled == /\ phase \in MsgPhases /\ ~\E m \in net : Deliverable(m)
           /\ \A i \in Runners : pc[i] # "wait"
           /\ \E i \in Runners : pc[i] = "run" /\ ~CanReturn(i)
I4_NoStall == (Stalled /\ ~cancelled) => (F # 0 /\ ~script)
I4_FaultFreeCompletes == (phase = "done" /\ ~off /\ ~cancelled) => \A i \in Peers : Written(i)
\* all honest peers that assembled a lock assembled the same one
LockAgree == \A i, j \in Honest : (res[i]["lock"].st = "ok" /\ res[j]["lock"].st = "ok") => res[i]["lock"].lh = res[j]["lock"].lh
TypeOK == /\ phase \in AllPhases \cup {"done"}
          /\ \A i \in Peers : pc[i] \in {"wait", "run", "done"}
          /\ \A i \in Peers, v \in Vals : \A e, g \in store[i][v] : e.part.idx = g.part.idx => e = g
Safety == TypeOK /\ I1_LockSound /\ I2_SenderBound /\ I3_NoPassWithBad /\ I4_HonestNotBlamed /\ I4_OnlyFaultsFail
          /\ I4_NoStall /\ I4_FaultFreeCompletes /\ LockAgree
====
