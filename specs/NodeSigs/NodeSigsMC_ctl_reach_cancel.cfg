SPECIFICATION MCSpec
CONSTANTS
 GateOn = TRUE
 NoVerify = FALSE
 CheckMode = "pubshare"
 MCCfgs <- Cfg3v2f
 MaxForge = 1
 Combine = FALSE
INVARIANTS Reach_NoCancel
CHECK_DEADLOCK FALSE
