SPECIFICATION MCSpec
CONSTANTS
 GateOn = FALSE
 NoVerify = FALSE
 CheckMode = "pubshare"
 MCCfgs <- Cfg3v2f
 MaxForge = 1
 Combine = TRUE
INVARIANTS I4_HonestNotBlamed
CHECK_DEADLOCK FALSE
