SPECIFICATION MCSpec
CONSTANTS
 GateOn = TRUE
 NoVerify = FALSE
 CheckMode = "groupkey"
 MCCfgs <- Cfg3v2f
 MaxForge = 1
 Combine = FALSE
INVARIANTS I4_OnlyFaultsFail
CHECK_DEADLOCK FALSE
