SPECIFICATION MCSpec
CONSTANTS
 GateOn = TRUE
 NoVerify = FALSE
 CheckMode = "pubshare"
 MCCfgs <- Cfg4
 MaxForge = 1
 Combine = TRUE
INVARIANTS TypeOK I1_LockSound I2_SenderBound I3_NoPassWithBad I4_HonestNotBlamed I4_OnlyFaultsFail I4_NoStall I4_FaultFreeCompletes LockAgree
CHECK_DEADLOCK FALSE
