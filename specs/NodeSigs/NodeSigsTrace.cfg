SPECIFICATION TraceSpec
CONSTANTS
 GateOn = TRUE
 NoVerify = FALSE
 CheckMode = "pubshare"
CONSTRAINT Mark
POSTCONDITION Report
CHECK_DEADLOCK FALSE
