---- MODULE NodeSigsGen ----
(* Schedule generation: a behaviour of the design spec (cluster and fault plan chosen at random by TLC -simulate)
   is played to its end; the history variable records only the ENVIRONMENT's moves: the cluster with the faulty
   peer's plan, the phases the step barrier let the ceremony enter, and in which phase the operator had to cancel
   a stalled ceremony.  What the step functions return is the implementation's business. *)
EXTENDS NodeSigsMC, Json
CONSTANTS GenCfgs
VARIABLES hist, fin
gvars == <<mcvars, hist, fin>>
RunStep(p) == [ev |-> "Run", ph |-> p, cancel |-> FALSE]
GenInit == /\ \E c \in GenCfgs : InitWith(c) /\ plan \in Plans(c)
           /\ forged = {} /\ fin = FALSE
           /\ hist = <<[ev |-> "Cfg", n |-> cfg.n, V |-> cfg.V, f |-> cfg.f, plan |-> plan], RunStep("dep")>>
Over == phase = "done" \/ ((\A i \in Runners : pc[i] = "done") /\ \E i \in Runners : res[i][phase].st # "ok")
GenNext ==
  IF Over THEN ~fin /\ fin' = TRUE /\ UNCHANGED <<mcvars, hist>>
  ELSE /\ MCNext /\ UNCHANGED fin
       /\ hist' = IF phase' # phase /\ phase' # "done" THEN Append(hist, RunStep(phase'))
                  ELSE IF cancelled' # cancelled THEN [hist EXCEPT ![Len(hist)].cancel = TRUE]
                  ELSE hist
GenSpec == GenInit /\ [][GenNext]_gvars
Emit == ~fin \/ PrintT("@@SCHED@@" \o ToJson(hist))
GenAll == Cfg34
====
