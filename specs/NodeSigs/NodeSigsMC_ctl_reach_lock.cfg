SPECIFICATION MCSpec
CONSTANTS
 GateOn = TRUE
 NoVerify = FALSE
 CheckMode = "pubshare"
 MCCfgs <- Cfg3v2one
 MaxForge = 1
INVARIANTS Reach_NoLock
CHECK_DEADLOCK FALSE
