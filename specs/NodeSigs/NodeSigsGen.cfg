SPECIFICATION GenSpec
CONSTANTS
 GateOn = TRUE
 NoVerify = FALSE
 CheckMode = "pubshare"
 MCCfgs <- Cfg34
 GenCfgs <- GenAll
 MaxForge = 1
 Combine = TRUE
INVARIANTS Emit
CHECK_DEADLOCK FALSE
