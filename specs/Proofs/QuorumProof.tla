---- MODULE QuorumProof ----
(* Unbounded versions (every cluster size n >= 1) of the lemmas QuorumArith.tla has TLC evaluate for n = 1..200, proved
   with TLAPS: the arithmetic by the SMT back end, the set-level intersection property from FiniteSetTheorems. *)
EXTENDS Integers, FiniteSets, FiniteSetTheorems, TLAPS
Q(n) == (2 * n + 2) \div 3
F(n) == (n - 1) \div 3

THEOREM Arith == \A n \in Nat \ {0} :
                   /\ 2 * Q(n) - n >= F(n) + 1
                   /\ Q(n) <= n - F(n)
                   /\ n >= 3 * F(n) + 1
                   /\ 3 * Q(n) >= 2 * n /\ 3 * (Q(n) - 1) < 2 * n
                   /\ 3 * F(n) <= n - 1 /\ 3 * (F(n) + 1) > n - 1
                   /\ Q(n) \in Nat /\ F(n) \in Nat
  BY SMT DEF Q, F

(* Any two quorums of a cluster of n members have at least F(n)+1 members in common: with at most F(n) faulty members,
   one of the common members is honest. *)
THEOREM QuorumIntersection ==
  ASSUME NEW S, IsFiniteSet(S), Cardinality(S) > 0,
         NEW A \in SUBSET S, NEW B \in SUBSET S,
         Cardinality(A) >= Q(Cardinality(S)), Cardinality(B) >= Q(Cardinality(S))
  PROVE  Cardinality(A \cap B) >= F(Cardinality(S)) + 1
<1> DEFINE n == Cardinality(S)
<1>1. n \in Nat \ {0}  BY FS_CardinalityType
<1>2. IsFiniteSet(A) /\ IsFiniteSet(B) /\ IsFiniteSet(A \cup B) /\ IsFiniteSet(A \cap B)
      BY FS_Subset, FS_Union, FS_Intersection
<1>3. Cardinality(A \cup B) = Cardinality(A) + Cardinality(B) - Cardinality(A \cap B)  BY <1>2, FS_Union
<1>4. Cardinality(A \cup B) <= n  BY FS_Subset, A \cup B \subseteq S
<1>5. /\ Cardinality(A) \in Nat /\ Cardinality(B) \in Nat /\ Cardinality(A \cap B) \in Nat /\ Cardinality(A \cup B) \in Nat
      BY <1>2, FS_CardinalityType
<1>6. 2 * Q(n) - n >= F(n) + 1 /\ Q(n) \in Nat /\ F(n) \in Nat  BY <1>1, Arith
<1> QED  BY <1>1, <1>3, <1>4, <1>5, <1>6

(* A set of F(n)+1 members contains an honest one when at most F(n) are faulty. *)
THEOREM HonestInFPlus1 ==
  ASSUME NEW S, IsFiniteSet(S), NEW Byz \in SUBSET S, NEW X \in SUBSET S,
         Cardinality(Byz) <= F(Cardinality(S)), Cardinality(X) >= F(Cardinality(S)) + 1
  PROVE  \E x \in X : x \notin Byz
<1>1. IsFiniteSet(Byz) /\ IsFiniteSet(X)  BY FS_Subset
<1>2. SUFFICES ASSUME X \subseteq Byz PROVE FALSE  OBVIOUS
<1>3. Cardinality(X) <= Cardinality(Byz)  BY <1>1, <1>2, FS_Subset
<1>4. Cardinality(X) \in Nat /\ Cardinality(Byz) \in Nat  BY <1>1, FS_CardinalityType
<1>5. Cardinality(S) \in Nat  BY FS_CardinalityType
<1>6. F(Cardinality(S)) \in Int  BY <1>5, SMT DEF F
<1> QED  BY <1>3, <1>4, <1>6
====
