SPECIFICATION MCSpec
CONSTANTS Malformed = "ascoded"
 ApiErr = "ascoded"
 Variant = "duplast"
 AltForks = {"electra"}
INVARIANTS ArgFidelity
CHECK_DEADLOCK FALSE
