SPECIFICATION MCSpec
CONSTANTS Malformed = "ascoded"
 Variant = "duplast"
 AltForks = {"electra"}
INVARIANTS ArgFidelity
CHECK_DEADLOCK FALSE
