SPECIFICATION MCSpec
CONSTANTS Malformed = "strict"
 Variant = "none"
 AltForks = {"electra"}
INVARIANTS Safety Progress ClientFault4xx
CHECK_DEADLOCK FALSE
