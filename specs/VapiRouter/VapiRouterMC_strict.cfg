SPECIFICATION MCSpec
CONSTANTS Malformed = "strict"
 ApiErr = "strict"
 Variant = "none"
 AltForks = {"electra"}
INVARIANTS Safety Progress ClientFault4xx UpstreamStatusKept
CHECK_DEADLOCK FALSE
