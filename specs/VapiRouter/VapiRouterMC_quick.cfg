SPECIFICATION MCSpec
CONSTANTS Malformed = "ascoded"
 ApiErr = "ascoded"
 Variant = "none"
 AltForks = {"altair", "electra"}
INVARIANTS Safety Progress
CHECK_DEADLOCK FALSE
