SPECIFICATION MCSpec
CONSTANTS Malformed = "ascoded"
 ApiErr = "ascoded"
 Variant = "strictslash"
 AltForks = {"electra"}
INVARIANTS Exclusive
CHECK_DEADLOCK FALSE
