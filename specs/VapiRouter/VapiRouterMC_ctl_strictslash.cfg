SPECIFICATION MCSpec
CONSTANTS Malformed = "ascoded"
 Variant = "strictslash"
 AltForks = {"electra"}
INVARIANTS Exclusive
CHECK_DEADLOCK FALSE
