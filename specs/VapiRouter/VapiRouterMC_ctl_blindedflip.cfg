SPECIFICATION MCSpec
CONSTANTS Malformed = "ascoded"
 ApiErr = "ascoded"
 Variant = "blindedflip"
 AltForks = {"electra"}
INVARIANTS RespFidelity
CHECK_DEADLOCK FALSE
