SPECIFICATION MCSpec
CONSTANTS Malformed = "ascoded"
 Variant = "blindedflip"
 AltForks = {"electra"}
INVARIANTS RespFidelity
CHECK_DEADLOCK FALSE
