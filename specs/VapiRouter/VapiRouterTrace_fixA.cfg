SPECIFICATION TraceSpec
CONSTANTS Malformed = "ascoded"
 ApiErr = "strict"
 Variant = "none"
CONSTRAINT Mark
POSTCONDITION Report
CHECK_DEADLOCK FALSE
