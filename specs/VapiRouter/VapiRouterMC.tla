---- MODULE VapiRouterMC ----
(* Exhaustive design check: every request shape (a valid request of every table entry - every method, fork, body encoding -
   and ONE alteration of it: method, path shape, content type, accept, one parameter's class, version header, body form,
   what the Handler / upstream answers) x every step of the request.  States = cases x positions.
   The same set of cases is the schedule source (VapiRouterGen). *)
EXTENDS VapiRouter
CONSTANT AltForks      \* the forks under which the alterations of a versioned endpoint are enumerated (valid requests: all forks)

Methods == {"GET", "POST", "PUT", "DELETE"}
Shapes == {"trailing", "extra", "upcase", "otherver", "prefix", "dblslash", "dotdot", "encslash"}
Ctypes == {"none", "json", "jsonutf8", "both", "ssz", "text", "form"}
Accepts == {"none", "json", "ssz", "any", "sszpref"}

OkCls(k) == CASE k = "uint" -> "ok" [] k \in {"hex32", "hex96", "hexopt"} -> "ok" [] k = "vid" -> "idx" [] k = "ids" -> "idx1"
              [] k = "state" -> "head" [] OTHER -> "ok"
ClsOf(p) ==
  CASE p.k = "uint" -> {"ok", "max", "lead0", "zero", "alpha", "neg", "overflow", "plus", "hex"}
                       \cup (IF p.in = "query" THEN {"missing", "empty", "dup"} ELSE {})
    [] p.k \in {"hex32", "hex96"} -> {"ok", "no0x", "upper", "missing", "dup", "badhex", "short", "long", "empty"}
    [] p.k = "hexopt" -> {"ok", "no0x", "missing", "dup", "empty", "badhex", "short", "long"}
    [] p.k = "vid" -> {"idx", "pk", "alpha", "badpk", "neg"}
    [] p.k = "ids" -> IdsIdx \cup IdsPk \cup {"alpha", "mixed", "badpk"}
    [] p.k = "state" -> {"head", "root", "slot"}
    [] OTHER -> IF p.in = "query" THEN {"ok", "alpha", "missing", "max", "zero"} ELSE {"ok", "alpha"}
\* placeholders for what the concretisation fills in: cv (the canonical value), cv2 (the second value of a duplicate)
Par(p, cls) == [n |-> p.n, k |-> p.k, in |-> p.in, cls |-> cls, cv |-> "v:" \o p.n, cv2 |-> "w:" \o p.n]
DefAns == [kind |-> "ok", n |-> 1, ver |-> "deneb", blinded |-> "false", nofield |-> FALSE, meta |-> "ok", status |-> 200]
BodyEncs(e) == IF Table[e].body = "none" THEN {"json"} ELSE Table[e].enc
BodyForm0(e) == IF Table[e].body = "none" \/ (Table[e].body = "ids") THEN "empty" ELSE "ok"
VersOf(e) == IF Table[e].ver THEN (IF Table[e].h = "SubmitBlindedProposal" THEN BlindedForks ELSE Forks) ELSE {"none"}
\* the valid requests of entry e
Bases(e) ==
  { [ep |-> e, alt |-> "none", method |-> m, shape |-> "exact",
     ctype |-> IF Table[e].body = "none" \/ (Table[e].body = "ids" /\ m = "GET") THEN "none" ELSE enc,
     accept |-> "none", ver |-> v, vfork |-> v,
     params |-> [i \in DOMAIN Table[e].ps |-> Par(Table[e].ps[i], OkCls(Table[e].ps[i].k))],
     body |-> [enc |-> enc, form |-> BodyForm0(e)], bfork |-> v, bcv |-> "b:ids", ans |-> DefAns, builder |-> b, sent |-> <<"o1", "o2">>]
    : m \in Table[e].meth, enc \in BodyEncs(e), v \in VersOf(e), b \in (IF e = "propose_block_v3" THEN BOOLEAN ELSE {FALSE}) }
AltBases(e) == {b \in Bases(e) : b.ver \in AltForks \cup {"none"}}
A(b, alt) == [b EXCEPT !.alt = alt]
BodyForms(e) ==
  CASE Table[e].body = "objs" -> {"empty", "trunc", "garbage", "extrafield", "wrongtype"} \cup (IF Table[e].ver THEN {"wrongfork"} ELSE {})
    [] Table[e].body = "idx" -> {"okstr", "emptylist", "empty", "trunc", "garbage", "wrongtype", "overflow"}
    [] Table[e].body = "ignored" -> {"empty", "garbage"}
    [] OTHER -> {}
AnsAlts(e) ==
  LET rk == Table[e].rk
      h == Table[e].h IN
  IF h \in {"404", "swallow"} THEN {}
  ELSE IF h = "events" THEN {[DefAns EXCEPT !.kind = k, !.status = s] : k \in {"ok"}, s \in {204, 404, 503}}
                            \cup {[DefAns EXCEPT !.kind = "badaddr"], [DefAns EXCEPT !.kind = "auth"], [DefAns EXCEPT !.kind = "hop"]}
  ELSE {[DefAns EXCEPT !.kind = k] : k \in {"err", "panic", "cancel", "timeout"}}
       \cup {[DefAns EXCEPT !.kind = "apierr", !.status = st] : st \in {400, 404, 503}}
       \cup (IF rk = "duties" THEN {[DefAns EXCEPT !.meta = m] : m \in {"nil", "noeo", "nodroot", "badeo", "baddroot"}} ELSE {})
       \cup (IF rk \in {"duties", "sduties", "vals", "val", "data"} /\ h # "AttestationData" /\ h # "SyncCommitteeContribution"
               THEN {[DefAns EXCEPT !.n = n] : n \in {0, 2}} ELSE {})
       \cup (IF rk = "proposal" THEN {[DefAns EXCEPT !.ver = v, !.blinded = bl, !.nofield = nf] : v \in Forks, bl \in {"true", "false"}, nf \in BOOLEAN} ELSE {})
       \cup (IF rk = "versioned" THEN {[DefAns EXCEPT !.ver = v, !.nofield = nf] : v \in Forks, nf \in BOOLEAN} ELSE {})
Alts(b) ==
  LET e == b.ep IN
  {[A(b, "method") EXCEPT !.method = m] : m \in Methods \ {b.method}}
  \cup {[A(b, "shape") EXCEPT !.shape = s] : s \in Shapes \cup (IF Table[e].lastvar THEN {"emptyvar"} ELSE {})}
  \cup {[A(b, "ctype") EXCEPT !.ctype = t] : t \in Ctypes \ {b.ctype}}
  \cup {[A(b, "accept") EXCEPT !.accept = a] : a \in Accepts \ {"none"}}
  \cup UNION {{[A(b, "param") EXCEPT !.params[i] = Par(Table[e].ps[i], cls)] : cls \in ClsOf(Table[e].ps[i]) \ {b.params[i].cls}} : i \in DOMAIN b.params}
  \cup (IF Table[e].ver THEN {[A(b, "ver") EXCEPT !.ver = v] : v \in {"none", "bogus", "upper"}}
                              \cup (IF Table[e].h = "SubmitBlindedProposal" THEN {[A(b, "ver") EXCEPT !.ver = v, !.vfork = v] : v \in {"phase0", "altair"}} ELSE {})
        ELSE {})
  \cup {[A(b, "body") EXCEPT !.body.form = f] : f \in BodyForms(e)}
  \cup (IF Table[e].body = "ids" /\ b.method = "POST"
          THEN {[A(b, "body") EXCEPT !.body.form = f, !.params[2] = Par(Table[e].ps[2], "none"), !.ctype = "json"] : f \in {"ok", "okpk", "emptyobj", "garbage", "empty"}}
               \cup {[A(b, "body") EXCEPT !.body.form = "ok", !.ctype = "json"]}          \* ids in the query AND in the body: the query wins
          ELSE {})
  \cup {[A(b, "ans") EXCEPT !.ans = a] : a \in AnsAlts(e)}
\* requests for paths that are not in the table
Others ==
  { [ep |-> "other", alt |-> "other", method |-> m, shape |-> "exact", ctype |-> t, accept |-> "none", ver |-> "none", vfork |-> "none",
     params |-> <<>>, body |-> [enc |-> "json", form |-> IF m \in {"POST", "PUT"} THEN "ok" ELSE "empty"], bfork |-> "none",
     bcv |-> "", ans |-> a, builder |-> FALSE, sent |-> <<"o1">>]
    : m \in Methods, t \in {"none", "json", "ssz", "text"},
      a \in {[DefAns EXCEPT !.kind = k, !.status = s] : k \in {"ok"}, s \in {200, 204, 404, 503}} \cup {[DefAns EXCEPT !.kind = k] : k \in {"err", "cancel", "timeout"}}
           \cup {[DefAns EXCEPT !.kind = "apierr", !.status = st] : st \in {400, 404, 503}} }
Cases == UNION {Bases(e) : e \in Endpoints} \cup UNION {Alts(b) : b \in UNION {AltBases(e) : e \in Endpoints}} \cup Others

\* the scripted environment of the design check
RetOf(cc) == [kind |-> cc.ans.kind, objs |-> [i \in 1..cc.ans.n |-> "r"], ver |-> cc.ans.ver, blinded |-> cc.ans.blinded, nofield |-> cc.ans.nofield,
              ev |-> "7", cv |-> "9", meta |-> cc.ans.meta, eo |-> "true", droot |-> "0xdd", status |-> cc.ans.status]
PRetOf(cc) == [kind |-> IF cc.ans.kind \in {"err", "cancel", "timeout", "apierr"} THEN cc.ans.kind ELSE "ok", status |-> cc.ans.status, hdr |-> "up", body |-> "b"]
MCInit == c \in Cases /\ InitRun
MCNext == \/ Dispatch \/ Parse \/ RefuseWrongFork \/ Respond \/ EventsBadAddr \/ PRespond
          \/ CtxEnd(ImplCtxEnd(Blocked))
          \/ \E objs \in {c.sent, <<"x">>} : Call(objs, RetOf(c))
          \/ ProxyCall(NoMeta, PRetOf(c)) \/ EventsCall(NoMeta, PRetOf(c))
MCSpec == MCInit /\ [][MCNext]_vars
Progress == pc # "done" => ENABLED MCNext
Terminates == <>(pc = "done")
MCFair == MCSpec /\ WF_vars(MCNext)
====
