SPECIFICATION MCSpec
CONSTANTS Malformed = "ascoded"
 ApiErr = "ascoded"
 Variant = "none"
 AltForks = {"phase0", "altair", "bellatrix", "capella", "deneb", "electra", "fulu"}
INVARIANTS Safety Progress
CHECK_DEADLOCK FALSE
