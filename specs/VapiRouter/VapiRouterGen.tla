---- MODULE VapiRouterGen ----
(* Schedule generation.  The only environment move is the client's request (with what the scripted Handler / upstream will
   answer): every case of VapiRouterMC is one initial state, its successor carries the schedule in the history variable,
   printed once.  What the router does with the request is the router's business and is not recorded.  The literal strings
   and objects (paths, parameter values, bodies of the fork, digests) are filled in by checks/grow_vapirouter.py (seeded) and
   harness/vapirouter. *)
EXTENDS VapiRouterMC, Json
VARIABLE hist
GenInit == MCInit /\ hist = <<>>
Go == hist = <<>> /\ Dispatch /\ hist' = <<[ev |-> "Call"] @@ c>>
GenSpec == GenInit /\ [][Go]_<<vars, hist>>
Emit == hist = <<>> \/ PrintT("@@SCHED@@" \o ToJson(hist))
====
