SPECIFICATION MCSpec
CONSTANTS Malformed = "ascoded"
 ApiErr = "ascoded"
 Variant = "anymethod"
 AltForks = {"electra"}
INVARIANTS Exclusive
CHECK_DEADLOCK FALSE
