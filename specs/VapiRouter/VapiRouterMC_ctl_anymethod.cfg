SPECIFICATION MCSpec
CONSTANTS Malformed = "ascoded"
 Variant = "anymethod"
 AltForks = {"electra"}
INVARIANTS Exclusive
CHECK_DEADLOCK FALSE
