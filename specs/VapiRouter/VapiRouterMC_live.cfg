SPECIFICATION MCFair
CONSTANTS Malformed = "ascoded"
 ApiErr = "ascoded"
 Variant = "none"
 AltForks = {"electra"}
PROPERTIES Terminates
CHECK_DEADLOCK FALSE
