SPECIFICATION MCFair
CONSTANTS Malformed = "ascoded"
 Variant = "none"
 AltForks = {"electra"}
PROPERTIES Terminates
CHECK_DEADLOCK FALSE
