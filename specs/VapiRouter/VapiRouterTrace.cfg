SPECIFICATION TraceSpec
CONSTANTS Malformed = "ascoded"
 Variant = "none"
CONSTRAINT Mark
POSTCONDITION Report
CHECK_DEADLOCK FALSE
