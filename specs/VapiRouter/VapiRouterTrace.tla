---- MODULE VapiRouterTrace ----
(* Trace validation for core/validatorapi/router.go (harness/vapirouter).  One trace = one HTTP request sent to the REAL
   router (NewRouter served by httptest.Server) over a scripted Handler and a scripted upstream beacon node; events:
     {"ev":"Reset","sid":n, the case (VapiRouter.tla describes the fields), plus by the executor:
              "sent":[digest of every object of the body], "wire":{method,path,rawquery,body,ctype,accept,ver,_} what the
              client put on the wire, "clean": the cleaned path, "upauth","upxbn": the upstream's credentials / extra header}
     {"ev":"H","m":Handler method,"args":{name: value as string},"objs":[digest of every object it got],"ret":{what it answered}}
     {"ev":"PX","seen":{method,path,rawquery,body,ctype,accept,ver,_},"ret":{kind,status,hdr,body}}      Handler.Proxy was called
     {"ev":"UP","seen":{method,path,rawquery,accept,auth,xbn,xhop,_},"ret":{...}}                         the upstream was called
     {"ev":"Resp","status":n (0: connection broken),"ctype":"json"|"none"|"other","code":n,"objs":[..],"meta":{..},"loc":..}
     {"ev":"CtxEnd","ctxerr":"canceled"|"deadline"|"none"}   how the context of a Handler call that blocks (scripted) ended
     {"ev":"Probe","ok":bool}                     after a broken connection: the listener still serves a request
     {"ev":"End"}
   Nothing is inferred but whether the unmarshaller accepts a body made for another fork.  The steps without an event (mux,
   wrap, parameter parsing) are deterministic and taken eagerly.  An event the transcription cannot produce is RECORDED AS
   OBSERVED (odd is set) so that the contract invariants name what is wrong; Conforms (odd = "") is checked last. *)
EXTENDS VapiRouter, TraceCommon
VARIABLES odd, got, probed
tvars == <<vars, odd, got, probed, tr, l>>
Dummy == [ep |-> "other", alt |-> "other", method |-> "GET", shape |-> "exact", ctype |-> "none", accept |-> "none", ver |-> "none",
          vfork |-> "none", params |-> <<>>, body |-> [enc |-> "json", form |-> "empty"], bfork |-> "none", bcv |-> "",
          ans |-> [kind |-> "ok", n |-> 1, ver |-> "deneb", blinded |-> "false", nofield |-> FALSE, meta |-> "ok", status |-> 200],
          builder |-> FALSE, sent |-> <<>>, wire |-> NoMeta, clean |-> "", upauth |-> "", upxbn |-> ""]
TraceInit == /\ TrInit /\ InitRun /\ odd = "" /\ got = FALSE /\ probed = FALSE
             /\ c = IF TLen >= 1 /\ Trace[1].ev = "Reset" THEN Trace[1] ELSE Dummy
TReset == IsEvent("Reset") /\ l = 1 /\ UNCHANGED <<vars, odd, got, probed>>

\* ---- steps without an event
SilentEnabled == l >= 2 /\ pc \in {"start", "parse"}
TSilent == SilentEnabled /\ Silent /\ (Dispatch \/ Parse) /\ UNCHANGED <<odd, got, probed>>
Ready == l >= 2 /\ ~SilentEnabled
\* a body made for another fork was refused: the next event is the response
TRefuse == /\ Ready /\ l <= TLen /\ Ev.ev = "Resp" /\ Silent /\ RefuseWrongFork /\ UNCHANGED <<odd, got, probed>>

\* ---- the Handler method was called
Seen(m) == [m |-> m, args |-> Ev.args, objs |-> Ev.objs, ret |-> Ev.ret]
Conf == /\ Ev.m = T(c).h /\ Ev.args = ImplArgs(c) /\ (ObjsFixed(c) => Ev.objs = c.sent)
TH == /\ IsEvent("H") /\ Ready /\ UNCHANGED <<got, probed>>
      /\ IF pc = "call" /\ ~hcalled /\ Conf
           THEN Call(Ev.objs, Ev.ret) /\ UNCHANGED odd
           ELSE /\ hcalled' = TRUE /\ hcall' = Seen(Ev.m) /\ UNCHANGED <<ctxend, c, pcalled, pcall, ucalled, out>>
                /\ pc' = IF pc = "call" /\ ~hcalled THEN (IF Ev.ret.kind \in Blocking THEN "blocked" ELSE "respond") ELSE pc
                /\ odd' = IF pc = "call" /\ ~hcalled THEN "HandlerCall" ELSE "UnexpectedHandlerCall"

TPX == /\ IsEvent("PX") /\ Ready /\ UNCHANGED <<got, probed>>
       /\ IF pc = "proxy" /\ ~pcalled
            THEN ProxyCall(Ev.seen, Ev.ret) /\ odd' = IF Ev.seen # c.wire THEN "ProxySaw" ELSE odd
            ELSE /\ pcalled' = TRUE /\ pcall' = [m |-> "Proxy", args |-> Ev.seen, objs |-> <<>>, ret |-> Ev.ret] /\ odd' = "UnexpectedProxyCall"
                 /\ UNCHANGED <<ctxend, c, pc, hcalled, hcall, ucalled, out>>
UpWant == [method |-> c.wire.method, path |-> c.wire.path, rawquery |-> c.wire.rawquery, accept |-> c.wire.accept,
           auth |-> IF c.ans.kind = "auth" THEN c.upauth ELSE "", xbn |-> c.upxbn, xhop |-> ""] @@ NoMeta
TUP == /\ IsEvent("UP") /\ Ready /\ UNCHANGED <<got, probed>>
       /\ IF pc = "events" /\ ~ucalled /\ c.ans.kind # "badaddr"
            THEN EventsCall(Ev.seen, Ev.ret) /\ odd' = IF Ev.seen # UpWant THEN "UpstreamSaw" ELSE odd
            ELSE /\ ucalled' = TRUE /\ odd' = "UnexpectedUpstreamCall" /\ UNCHANGED <<ctxend, c, pc, hcalled, hcall, pcalled, pcall, out>>

\* ---- the response
Same(o) == /\ Ev.status = o.status /\ Ev.code = o.code /\ Ev.objs = o.objs /\ Ev.meta = o.meta
           /\ (o.status = 301 \/ Ev.ctype = o.ctype) /\ (o.status = 301 => Ev.loc = c.clean)
Observed == [status |-> Ev.status, ctype |-> Ev.ctype, code |-> Ev.code, objs |-> Ev.objs, meta |-> Ev.meta]
TResp == /\ IsEvent("Resp") /\ Ready /\ ~got /\ got' = TRUE /\ UNCHANGED probed
         /\ IF pc = "respond" /\ \E o \in OutsAfter(c, hcall.ret) : Same(o)
              THEN Respond /\ Same(out') /\ UNCHANGED odd
            ELSE IF pc = "prespond" THEN PRespond /\ odd' = (IF Same(out') THEN odd ELSE "Response")
            ELSE IF pc = "events" /\ c.ans.kind = "badaddr" THEN EventsBadAddr /\ odd' = (IF Same(out') THEN odd ELSE "Response")
            ELSE IF pc = "done" /\ Same(out) THEN UNCHANGED <<vars, odd>>
            ELSE /\ out' = Observed /\ pc' = "done" /\ odd' = "Response" /\ UNCHANGED <<ctxend, c, hcalled, hcall, pcalled, pcall, ucalled>>
\* ---- the context of a blocked Handler call ended (or not: "none")
TCtx == /\ IsEvent("CtxEnd") /\ Ready /\ UNCHANGED <<odd, got, probed>>
        /\ IF pc \in {"blocked", "pblocked"} THEN CtxEnd(Ev.ctxerr) ELSE ctxend' = Ev.ctxerr /\ UNCHANGED <<c, pc, hcalled, hcall, pcalled, pcall, ucalled, out>>
TProbe == IsEvent("Probe") /\ pc = "done" /\ got /\ Ev.ok = TRUE /\ probed' = TRUE /\ UNCHANGED <<vars, odd, got>>
TEnd == /\ IsEvent("End") /\ pc = "done" /\ got /\ UNCHANGED <<vars, odd, got, probed>>
        /\ (out.status = 0 => probed)
TraceNext == TReset \/ TSilent \/ TRefuse \/ TCtx \/ TH \/ TPX \/ TUP \/ TResp \/ TProbe \/ TEnd
TraceSpec == TraceInit /\ [][TraceNext]_tvars
Mark == /\ CheckInv("Exclusive", Exclusive) /\ CheckInv("NoCallOnFault", NoCallOnFault) /\ CheckInv("ArgFidelity", ArgFidelity)
        /\ CheckInv("RespFidelity", RespFidelity) /\ CheckInv("ErrorsShaped", ErrorsShaped) /\ CheckInv("CtxPropagates", CtxPropagates)
        /\ CheckInv("Conforms", odd = "")
        /\ HWMark
====
