SPECIFICATION GenSpec
CONSTANTS Malformed = "ascoded"
 ApiErr = "ascoded"
 Variant = "none"
 AltForks = {"phase0", "altair", "bellatrix", "capella", "deneb", "electra", "fulu"}
INVARIANTS Emit
CHECK_DEADLOCK FALSE
