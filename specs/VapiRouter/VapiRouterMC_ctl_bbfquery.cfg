SPECIFICATION MCSpec
CONSTANTS Malformed = "ascoded"
 Variant = "bbfquery"
 AltForks = {"electra"}
INVARIANTS ArgFidelity
CHECK_DEADLOCK FALSE
