SPECIFICATION MCSpec
CONSTANTS Malformed = "ascoded"
 ApiErr = "ascoded"
 Variant = "bbfquery"
 AltForks = {"electra"}
INVARIANTS ArgFidelity
CHECK_DEADLOCK FALSE
