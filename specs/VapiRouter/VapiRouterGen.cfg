SPECIFICATION GenSpec
CONSTANTS Malformed = "ascoded"
 Variant = "none"
 AltForks = {"electra"}
INVARIANTS Emit
CHECK_DEADLOCK FALSE
