SPECIFICATION GenSpec
CONSTANTS Malformed = "ascoded"
 ApiErr = "ascoded"
 Variant = "none"
 AltForks = {"electra"}
INVARIANTS Emit
CHECK_DEADLOCK FALSE
