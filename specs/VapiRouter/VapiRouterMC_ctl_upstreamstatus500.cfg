SPECIFICATION MCSpec
CONSTANTS Malformed = "ascoded"
 ApiErr = "ascoded"
 Variant = "none"
 AltForks = {"electra"}
INVARIANTS UpstreamStatusKept
CHECK_DEADLOCK FALSE
