SPECIFICATION MCSpec
CONSTANTS Malformed = "ascoded"
 Variant = "anyenc"
 AltForks = {"electra"}
INVARIANTS NoCallOnFault
CHECK_DEADLOCK FALSE
