SPECIFICATION MCSpec
CONSTANTS Malformed = "ascoded"
 ApiErr = "ascoded"
 Variant = "anyenc"
 AltForks = {"electra"}
INVARIANTS NoCallOnFault
CHECK_DEADLOCK FALSE
