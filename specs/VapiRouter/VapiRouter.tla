---- MODULE VapiRouter ----
(* The HTTP layer of the validator API: core/validatorapi/router.go (NewRouter, wrap, the per-endpoint handler functions,
   proxy, eventsHandler, writeError / writeResponse, the unmarshal / uint / hex helpers), TRANSCRIBED as a case analysis.

   The routing table is DATA (Table).  A request is an abstract record `c` (the classes of its parts; the literal strings
   and objects are chosen by checks/grow_vapirouter.py and harness/vapirouter when a case is instantiated):
     ep      the table entry the path was derived from        shape   how the path relates to the entry's pattern
     method  GET / POST / PUT / DELETE                           ctype   class of the Content-Type header
     accept  class of the Accept header                          ver     class of the Eth-Consensus-Version header
     params  <<[n, k, in, cls, cv]>> path / query parameters in the order the code checks them; k = kind, cls = class of
             the literal on the wire, cv = the canonical value it denotes
     body    [enc, form]                                         ans     what the scripted Handler / upstream answers
     builder the builderEnabled flag NewRouter got               sent    digests of the objects in the body (by the executor)
   `Route(c)` says who serves it, `Fault(c)` what the first malformed part costs, Call / Respond what the Handler sees and
   what the client gets.  The state machine is one request:  start -Dispatch-> parse -Parse-> call -Call-> respond
   -Respond-> done  (or proxy / events instead of parse), every step an atomic piece of the code.

   CONTRACT (from the package comment "serves the subset of endpoints related to distributed validation and reverse-proxies
   the rest", the handler doc comments, the beacon-API conventions they cite, and what a validator client needs):
     Exclusive      an intercepted (method, path) reaches exactly its Handler method and never the proxy; everything else
                    reaches the proxy (or, GET /eth/v1/events, the upstream) and never a Handler method
     NoCallOnFault  a malformed request is answered 4xx and neither Handler nor proxy is called
                    (AS CODED several client faults answer 500: constant Malformed, finding GROW-VAPIROUTER-client-fault-500)
     UpstreamStatusKept  an error of the Handler that carries an API status code (what the beacon node answered) comes back with it
                    (AS CODED it is a 500: constant ApiErr, finding GROW-VAPIROUTER-upstream-status-500)
     ArgFidelity    what the Handler receives is what the request said
     RespFidelity   what the client decodes is what the Handler returned (data, version / blinded / values in body and headers,
                    execution_optimistic / dependent_root), the proxied response is passed back unchanged
     ErrorsShaped   an error answer carries its own status as `code`; a Handler error is a 5xx; a panic costs one connection
     CtxPropagates  the context of a Handler call ends when the client goes away ("canceled") and after the request timeout
   Deliberately as coded (the documents are silent or the code says so): a wrong method / a trailing slash / an unknown
   sub-path of an intercepted path is PROXIED; a path that needs cleaning (// or ..) is redirected (301) to the clean path;
   an escaped slash (%2F) is matched like a slash; builder_boost_factor of the request is ignored (0 or max-uint64 by
   the builder flag); a duplicated fixed hex parameter counts as missing, a duplicated optional one (graffiti) as absent, a
   duplicated uint takes the first; graffiti is zero-padded / truncated to 32 bytes; the Accept header has no effect (the
   answer is always JSON); validators: ids in the query win over ids in the body; 2xx statuses of the events upstream
   collapse to 200. *)
EXTENDS Integers, Sequences, FiniteSets, TLC

CONSTANTS Malformed,    \* "ascoded": client faults whose apiError the code discards answer 500 | "strict": they must be 4xx
          ApiErr,       \* "ascoded": an error of the Handler / of Handler.Proxy that carries an API status code (eth2api.Error, what the
                        \* beacon node answered) is a 500 | "strict": it comes back with that status
          Variant       \* "none" | a named defect variant (control configurations)

Forks == {"phase0", "altair", "bellatrix", "capella", "deneb", "electra", "fulu"}
BlindedForks == Forks \ {"phase0", "altair"}
Zero32 == "0x0000000000000000000000000000000000000000000000000000000000000000"
MaxU64 == "18446744073709551615"

\* ---------------------------------------------------------------------------------------------------------------------
\* The table of NewRouter.  h: Handler method | "404" (respond404) | "swallow" (answers 200 without the Handler) | "events".
\* body: "none" (not looked at) | "ignored" | "objs" (list / object, unmarshal) | "idx" (valIndexesJSON) | "ids" (validators POST)
\* mask: the body's apiError is replaced by a plain error (errors.New) -> 500.   rk: response kind.
\* ---------------------------------------------------------------------------------------------------------------------
P(n, k, in) == [n |-> n, k |-> k, in |-> in]
E(meth, h, enc, ps, ver, body, mask, rk, lastvar) ==
  [meth |-> meth, h |-> h, enc |-> enc, ps |-> ps, ver |-> ver, body |-> body, mask |-> mask, rk |-> rk, lastvar |-> lastvar]
J == {"json"}
JS == {"json", "ssz"}
Epoch == <<P("epoch", "uint", "path")>>
Table ==
  [ attester_duties |-> E({"POST"}, "AttesterDuties", J, Epoch, FALSE, "idx", FALSE, "duties", TRUE),
    proposer_duties |-> E({"GET"}, "ProposerDuties", J, Epoch, FALSE, "none", FALSE, "duties", TRUE),
    proposer_duties_v2 |-> E({"GET"}, "ProposerDuties", J, Epoch, FALSE, "none", FALSE, "duties", TRUE),
    sync_committee_duties |-> E({"POST"}, "SyncCommitteeDuties", J, Epoch, FALSE, "idx", FALSE, "sduties", TRUE),
    attestation_data |-> E({"GET"}, "AttestationData", J, <<P("slot", "uint", "query"), P("committee_index", "uint", "query")>>,
                           FALSE, "none", FALSE, "data", FALSE),
    submit_attestations |-> E({"POST"}, "404", J, <<>>, FALSE, "none", FALSE, "none", FALSE),
    submit_attestations_v2 |-> E({"POST"}, "SubmitAttestations", J, <<>>, TRUE, "objs", TRUE, "none", FALSE),
    get_validators |-> E({"POST", "GET"}, "Validators", J, <<P("state_id", "state", "path"), P("id", "ids", "query")>>,
                         FALSE, "ids", TRUE, "vals", FALSE),
    get_validator |-> E({"GET"}, "Validators", J, <<P("state_id", "state", "path"), P("validator_id", "vid", "path")>>,
                        FALSE, "none", FALSE, "val", TRUE),
    propose_block |-> E({"GET"}, "404", JS, <<P("slot", "any", "path")>>, FALSE, "none", FALSE, "none", TRUE),
    propose_blinded_block |-> E({"GET"}, "404", J, <<P("slot", "any", "path")>>, FALSE, "none", FALSE, "none", TRUE),
    propose_block_v3 |-> E({"GET"}, "Proposal", JS, <<P("slot", "uint", "path"), P("randao_reveal", "hex96", "query"),
                                                       P("graffiti", "hexopt", "query"), P("builder_boost_factor", "any", "query")>>,
                           FALSE, "none", FALSE, "proposal", TRUE),
    submit_proposal_v1 |-> E({"POST"}, "SubmitProposal", JS, <<>>, TRUE, "objs", TRUE, "none", FALSE),
    submit_proposal_v2 |-> E({"POST"}, "SubmitProposal", JS, <<>>, TRUE, "objs", TRUE, "none", FALSE),
    submit_blinded_block_v1 |-> E({"POST"}, "SubmitBlindedProposal", JS, <<>>, TRUE, "objs", TRUE, "none", FALSE),
    submit_blinded_block_v2 |-> E({"POST"}, "SubmitBlindedProposal", JS, <<>>, TRUE, "objs", TRUE, "none", FALSE),
    submit_validator_registration |-> E({"POST"}, "swallow", JS, <<>>, FALSE, "ignored", FALSE, "none", FALSE),
    submit_voluntary_exit |-> E({"POST"}, "SubmitVoluntaryExit", J, <<>>, FALSE, "objs", FALSE, "none", FALSE),
    teku_proposer_config |-> E({"GET"}, "404", J, <<>>, FALSE, "none", FALSE, "none", FALSE),
    proposer_config |-> E({"GET"}, "404", J, <<>>, FALSE, "none", FALSE, "none", FALSE),
    aggregate_beacon_committee_selections |-> E({"POST"}, "BeaconCommitteeSelections", J, <<>>, FALSE, "objs", FALSE, "data", FALSE),
    aggregate_attestation |-> E({"GET"}, "404", J, <<>>, FALSE, "none", FALSE, "none", FALSE),
    aggregate_attestation_v2 |-> E({"GET"}, "AggregateAttestation", J,
                                   <<P("slot", "uint", "query"), P("attestation_data_root", "hex32", "query"),
                                     P("committee_index", "uint", "query")>>, FALSE, "none", FALSE, "versioned", FALSE),
    submit_aggregate_and_proofs |-> E({"POST"}, "404", J, <<>>, FALSE, "none", FALSE, "none", FALSE),
    submit_aggregate_and_proofs_v2 |-> E({"POST"}, "SubmitAggregateAttestations", J, <<>>, TRUE, "objs", FALSE, "none", FALSE),
    submit_sync_committee_messages |-> E({"POST"}, "SubmitSyncCommitteeMessages", J, <<>>, FALSE, "objs", FALSE, "none", FALSE),
    sync_committee_contribution |-> E({"GET"}, "SyncCommitteeContribution", J,
                                      <<P("slot", "uint", "query"), P("subcommittee_index", "uint", "query"),
                                        P("beacon_block_root", "hex32", "query")>>, FALSE, "none", FALSE, "data", FALSE),
    submit_contribution_and_proofs |-> E({"POST"}, "SubmitSyncCommitteeContributions", J, <<>>, FALSE, "objs", FALSE, "none", FALSE),
    submit_proposal_preparations |-> E({"POST"}, "swallow", J, <<>>, FALSE, "ignored", FALSE, "none", FALSE),
    aggregate_sync_committee_selections |-> E({"POST"}, "SyncCommitteeSelections", J, <<>>, FALSE, "objs", FALSE, "data", FALSE),
    node_version |-> E({"GET"}, "NodeVersion", J, <<>>, FALSE, "none", FALSE, "nodever", FALSE),
    events |-> E({"GET"}, "events", JS, <<>>, FALSE, "none", FALSE, "none", FALSE) ]
Endpoints == DOMAIN Table
\* "other": a path of the beacon API that is not in the table (e.g. /eth/v1/beacon/headers)
IsEntry(c) == c.ep \in Endpoints
T(c) == Table[c.ep]

\* ---------------------------------------------------------------------------------------------------------------------
\* Routing (gorilla/mux as NewRouter configures it: exact patterns with method matchers, then PathPrefix("/") -> proxy)
\* ---------------------------------------------------------------------------------------------------------------------
NeedsCleaning(c) == c.shape \in {"dblslash", "dotdot"}
\* shapes under which the pattern of c.ep still matches
PatternMatches(c) == IsEntry(c) /\ ( c.shape \in {"exact", "encslash"} \/ (Variant = "strictslash" /\ c.shape = "trailing") )
MethodMatches(c) == c.method \in T(c).meth \/ Variant = "anymethod"
Route(c) == IF NeedsCleaning(c) THEN "redirect"
            ELSE IF PatternMatches(c) /\ MethodMatches(c) THEN (IF T(c).h = "events" THEN "events" ELSE "handler")
            ELSE "proxy"
\* the CONTRACT's notion of "intercepted", stated on its own (not through Route)
Intercepted(c) == IsEntry(c) /\ c.shape \in {"exact", "encslash"} /\ c.method \in Table[c.ep].meth /\ Table[c.ep].h # "events"

\* ---------------------------------------------------------------------------------------------------------------------
\* wrap: content type
\* ---------------------------------------------------------------------------------------------------------------------
\* Content-Type classes: none | json | jsonutf8 ("application/json; charset=utf-8") | both ("application/json, application/octet-stream")
\*                       | ssz | text ("text/plain") | form
Typ(c) == IF c.ctype \in {"none", "json", "jsonutf8", "both"} THEN "json" ELSE IF c.ctype = "ssz" THEN "ssz" ELSE "unsupported"
CtypeFault(c) == IF Typ(c) = "unsupported" THEN 415
                 ELSE IF Typ(c) \notin T(c).enc /\ Variant # "anyenc" THEN 415 ELSE 0

\* ---------------------------------------------------------------------------------------------------------------------
\* parameters
\* ---------------------------------------------------------------------------------------------------------------------
\* a client fault that the code reports through a plain error (the apiError is discarded or never made)
Masked == IF Malformed = "ascoded" THEN 500 ELSE 400
UintPass == {"ok", "max", "lead0", "dup", "zero"}           \* dup: two values, the first counts
HexFixPass == {"ok", "no0x", "upper"}
HexOptZero == {"missing", "dup", "empty"}                    \* optional hex parameter counts as absent
HexOptPass == {"ok", "no0x", "short", "long"} \cup HexOptZero
IdsIdx == {"none", "idx1", "idxcsv", "idxrep", "idxspace", "idxmax"}
IdsPk == {"pk1", "pkcsv"}
ParamFault(p) ==
  CASE p.k = "uint" -> IF p.cls \in UintPass \/ (Variant = "zeroonbad" /\ p.cls # "missing") THEN 0 ELSE 400
    [] p.k \in {"hex32", "hex96"} -> IF p.cls \in HexFixPass THEN 0 ELSE 400
    [] p.k = "hexopt" -> IF p.cls \in HexOptPass THEN 0 ELSE 400
    [] p.k = "vid" -> IF p.cls \in {"idx", "pk"} THEN 0 ELSE Masked
    [] p.k = "ids" -> IF p.cls \in IdsIdx \cup IdsPk THEN 0 ELSE Masked
    [] OTHER -> 0                                            \* "state", "any": passed on / not looked at
\* the value the Handler gets for a parameter that passed
ArgVal(p) == IF p.k = "hexopt" /\ p.cls \in HexOptZero THEN Zero32
             ELSE IF Variant = "duplast" /\ p.cls = "dup" /\ p.k = "uint" THEN p.cv2
             ELSE IF Variant = "zeroonbad" /\ p.k = "uint" /\ p.cls \notin UintPass THEN "0"
             ELSE p.cv
\* the value the request DENOTES (contract side; nothing to say about a parameter that is at fault)
Denoted(p) == IF p.k = "hexopt" /\ p.cls \in HexOptZero THEN Zero32 ELSE p.cv
Seq2Set(s) == {s[i] : i \in DOMAIN s}
FirstFault(s) == IF \E i \in DOMAIN s : s[i] # 0 THEN s[CHOOSE i \in DOMAIN s : s[i] # 0 /\ \A j \in DOMAIN s : j < i => s[j] = 0] ELSE 0
ParamsFault(c) == FirstFault([i \in DOMAIN c.params |-> ParamFault(c.params[i])])

\* ---------------------------------------------------------------------------------------------------------------------
\* version header and body
\* ---------------------------------------------------------------------------------------------------------------------
\* ver classes: a fork name | "upper" (a fork name in other letter case: c.vfork says which) | "none" | "bogus"
VerFork(c) == IF c.ver = "upper" THEN c.vfork ELSE c.ver
VerFault(c) == IF ~T(c).ver THEN 0
               ELSE IF VerFork(c) \notin Forks THEN Masked
               ELSE IF T(c).h = "SubmitBlindedProposal" /\ VerFork(c) \notin BlindedForks THEN Masked
               ELSE 0
\* body forms: ok | extrafield (json: an unknown field somewhere) | okstr, emptylist (idx) | emptyobj (ids)
\*             | empty | trunc | garbage | wrongtype (json of another shape) | overflow (idx: an index above 2^64-1)
\*             | wrongfork (an object of fork c.bfork under a header of another fork: whether it parses depends on the two)
BodyPass == {"ok", "okpk", "extrafield", "okstr", "emptylist", "emptyobj"}
BodyLooked(c) == T(c).body \in {"objs", "idx"} \/ (T(c).body = "ids" /\ c.params[2].cls = "none" /\ c.body.form # "empty")
BodyBad(c) == c.body.form \notin BodyPass \cup {"wrongfork"} \/ (c.body.enc # Typ(c) /\ c.body.form # "empty" /\ Variant # "anyenc")
BodyFault(c) == IF ~BodyLooked(c) THEN 0
                ELSE IF BodyBad(c) THEN (IF T(c).mask THEN Masked ELSE 400)
                ELSE 0
\* the first fault in the order the code checks (wrap: content type; handler: parameters, version header, body)
Fault(c) == FirstFault(<<CtypeFault(c), ParamsFault(c), VerFault(c), BodyFault(c)>>)
\* CONTRACT side: a request that no reading of the documents makes valid
MalformedReq(c) == Intercepted(c) /\ Table[c.ep].h \notin {"404", "swallow"} /\ c.body.form # "wrongfork"
                   /\ ( Typ(c) = "unsupported" \/ Typ(c) \notin Table[c.ep].enc
                        \/ \E i \in DOMAIN c.params :
                             LET p == c.params[i] IN
                               \/ p.k = "uint" /\ p.cls \notin UintPass
                               \/ p.k \in {"hex32", "hex96"} /\ p.cls \notin HexFixPass
                               \/ p.k = "hexopt" /\ p.cls \notin HexOptPass
                               \/ p.k = "vid" /\ p.cls \notin {"idx", "pk"}
                               \/ p.k = "ids" /\ p.cls \notin IdsIdx \cup IdsPk
                        \/ (Table[c.ep].ver /\ (VerFork(c) \notin Forks \/ (Table[c.ep].h = "SubmitBlindedProposal" /\ VerFork(c) \notin BlindedForks)))
                        \/ (BodyLooked(c) /\ (c.body.form \notin BodyPass \/ (c.body.enc # Typ(c) /\ c.body.form # "empty"))) )

\* ---------------------------------------------------------------------------------------------------------------------
\* what the Handler is called with
\* ---------------------------------------------------------------------------------------------------------------------
ArgParams(c) == {i \in DOMAIN c.params : c.params[i].k # "any"}
IdsMode(p) == IF p.cls \in IdsPk \/ p.cls = "pk" THEN "pubkeys" ELSE "indices"
\* all values are strings (lists joined by ","); "_" keeps the record non-empty
BaseArgs(c, val(_)) ==
  LET names == {c.params[i].n : i \in {j \in ArgParams(c) : c.params[j].k \notin {"ids", "vid"}}} IN
  [n \in names \cup {"_"} |-> IF n = "_" THEN "" ELSE val(c.params[CHOOSE i \in ArgParams(c) : c.params[i].n = n])]
\* validators: ids of the query, else (POST) ids of the body (c.bcv: what the body's ids denote)
IdFromBody(c, p) == T(c).body = "ids" /\ p.cls = "none" /\ c.body.form \in {"ok", "okpk"}
IdArgs(c, val(_)) ==
  IF \E i \in DOMAIN c.params : c.params[i].k \in {"ids", "vid"}
    THEN LET p == c.params[CHOOSE i \in DOMAIN c.params : c.params[i].k \in {"ids", "vid"}]
             mode == IF IdFromBody(c, p) THEN (IF c.body.form = "okpk" THEN "pubkeys" ELSE "indices") ELSE IdsMode(p)
             v == IF IdFromBody(c, p) THEN c.bcv ELSE val(p) IN
         [indices |-> IF mode = "indices" THEN v ELSE "", pubkeys |-> IF mode = "pubkeys" THEN v ELSE ""]
    ELSE [n \in {} |-> ""]
Bbf(c) == IF Variant = "bbfquery" THEN c.params[4].cv ELSE IF c.builder THEN MaxU64 ELSE "0"
ExtraArgs(c) == IF T(c).h = "Proposal" THEN [builder_boost_factor |-> Bbf(c)]
                ELSE IF T(c).ver THEN [version |-> VerFork(c)]
                ELSE [n \in {} |-> ""]
ImplArgs(c) == BaseArgs(c, ArgVal) @@ IdArgs(c, ArgVal) @@ ExtraArgs(c)
\* CONTRACT side
WantBbf(c) == IF c.builder THEN MaxU64 ELSE "0"     \* "This gives maximum priority to builder blocks" (the request's own factor is not used)
WantArgs(c) == BaseArgs(c, Denoted) @@ IdArgs(c, Denoted)
               @@ (IF Table[c.ep].h = "Proposal" THEN [builder_boost_factor |-> WantBbf(c)]
                   ELSE IF Table[c.ep].ver THEN [version |-> VerFork(c)] ELSE [n \in {} |-> ""])
\* the objects of the body arrive as sent, unless the body was made for another fork (then only the count of calls is fixed)
ObjsFixed(c) == T(c).body \in {"objs", "idx"} /\ c.body.form # "wrongfork"

\* ---------------------------------------------------------------------------------------------------------------------
\* responses.  ret (what the Handler returned, as the stub logs it):
\*   [kind: "ok" | "err" | "panic", objs: <<digest>>, ver, blinded: "true"/"false", nofield: BOOLEAN, ev, cv (values, decimal),
\*    meta: "ok" | "nil" | "noeo" | "nodroot" | "badeo" | "baddroot", eo: "true"/"false", droot]
\*   proxy / events: [kind: "ok" | "err", status, hdr (value of X-Up), body (digest)]
\* out (what the client got): [status, ctype: "json" | "none" | other, code (of the error body, 0: none), objs, meta (record of strings)]
\* ---------------------------------------------------------------------------------------------------------------------
NoMeta == [x \in {"_"} |-> ""]
ErrOut(s) == [status |-> s, ctype |-> "json", code |-> s, objs |-> <<>>, meta |-> NoMeta]
EmptyOut == [status |-> 200, ctype |-> "none", code |-> 0, objs |-> <<>>, meta |-> NoMeta]
\* writeError knows its own apiError only: any other error is "Internal server error"
ApiErrStatus(ret) == IF ApiErr = "ascoded" THEN 500 ELSE ret.status
GoneOut == [status |-> 0, ctype |-> "none", code |-> 0, objs |-> <<>>, meta |-> NoMeta]
Blocking == {"cancel", "timeout"}
ImplCtxEnd(kind) == IF kind = "timeout" \/ Variant = "bgctx" THEN "deadline" ELSE "canceled"
BlindedOf(ret) == IF Variant = "blindedflip" THEN (IF ret.blinded = "true" THEN "false" ELSE "true") ELSE ret.blinded
\* response construction can fail on what the Handler returned
RetFault(rk, ret) ==
  CASE rk = "duties" -> IF ret.meta \in {"ok", "nil"} THEN 0 ELSE 500
    [] rk = "proposal" -> IF ret.nofield \/ (ret.blinded = "true" /\ ret.ver \notin BlindedForks) THEN 500 ELSE 0
    [] rk = "versioned" -> IF ret.nofield THEN 500 ELSE 0
    [] rk = "val" -> IF Len(ret.objs) = 0 THEN 404 ELSE IF Len(ret.objs) # 1 THEN 500 ELSE 0
    [] OTHER -> 0
OkMeta(rk, ret) ==
  CASE rk = "duties" -> [execution_optimistic |-> IF ret.meta = "nil" THEN "false" ELSE ret.eo,
                         dependent_root |-> IF ret.meta = "nil" THEN Zero32 ELSE ret.droot] @@ NoMeta
    [] rk = "sduties" -> [execution_optimistic |-> "false"] @@ NoMeta
    [] rk \in {"vals", "val"} -> [execution_optimistic |-> "false", finalized |-> "false"] @@ NoMeta
    [] rk = "versioned" -> [version |-> ret.ver, hversion |-> ret.ver] @@ NoMeta
    [] rk = "proposal" -> [version |-> ret.ver, hversion |-> ret.ver,
                           execution_payload_blinded |-> BlindedOf(ret), hblinded |-> BlindedOf(ret),
                           execution_payload_value |-> ret.ev, hev |-> ret.ev,
                           consensus_block_value |-> ret.cv, hcv |-> ret.cv] @@ NoMeta
    [] OTHER -> NoMeta
\* the duties and validators endpoints promise "empty json array instead of null"; the selections endpoints have no such line: an
\* empty answer of the Handler may come out as [] or as null (the client logs the digest "null" for it)
DataForms(rk, ret) == IF rk = "data" /\ ret.objs = <<>> THEN {<<>>, <<"null">>} ELSE {ret.objs}
\* the possible answers after the Handler returned `ret`
OutsAfter(c, ret) ==
  LET rk == T(c).rk IN
  IF ret.kind = "panic" THEN {GoneOut, ErrOut(500)}
  ELSE IF ret.kind = "cancel" THEN {GoneOut}                 \* the client is gone: nobody sees what is written
  ELSE IF ret.kind = "timeout" THEN {ErrOut(408)}
  ELSE IF ret.kind = "err" THEN {ErrOut(500)}
  ELSE IF ret.kind = "apierr" THEN {ErrOut(ApiErrStatus(ret))}
  ELSE IF rk = "none" THEN {EmptyOut}
  ELSE IF RetFault(rk, ret) # 0 THEN {ErrOut(RetFault(rk, ret))}
  ELSE {[status |-> 200, ctype |-> "json", code |-> 0, objs |-> o, meta |-> OkMeta(rk, ret)] : o \in DataForms(rk, ret)}
\* proxy: Handler.Proxy's response is copied (status, headers, body); its error is a 500
ProxyOut(ret) == IF ret.kind = "err" THEN ErrOut(500)
                 ELSE IF ret.kind = "apierr" THEN ErrOut(ApiErrStatus(ret))
                 ELSE [status |-> ret.status, ctype |-> "other", code |-> 0, objs |-> <<ret.body>>, meta |-> [hup |-> ret.hdr] @@ NoMeta]
\* events: httputil.ReverseProxy behind proxyResponseWriter (WriteHeader swallows 2xx -> the implicit 200)
EventsOut(ret) == IF ret.kind = "err" THEN ErrOut(500)
                  ELSE [status |-> IF ret.status \in 200..299 THEN 200 ELSE ret.status, ctype |-> "other", code |-> 0,
                        objs |-> <<ret.body>>, meta |-> [hup |-> ret.hdr] @@ NoMeta]

\* ---------------------------------------------------------------------------------------------------------------------
\* one request
\* ---------------------------------------------------------------------------------------------------------------------
VARIABLES c, pc, hcalled, hcall, pcalled, pcall, ucalled, out, ctxend
vars == <<c, pc, hcalled, hcall, pcalled, pcall, ucalled, out, ctxend>>
NoCall == [m |-> "-", args |-> NoMeta, objs |-> <<>>, ret |-> [kind |-> "-"]]
NoOut == [status |-> -1, ctype |-> "none", code |-> 0, objs |-> <<>>, meta |-> NoMeta]
InitRun == pc = "start" /\ hcalled = FALSE /\ hcall = NoCall /\ pcalled = FALSE /\ pcall = NoCall /\ ucalled = FALSE /\ out = NoOut /\ ctxend = ""
Finish(o) == out' = o /\ pc' = "done"

\* mux: clean-path redirect, route match
Dispatch == /\ pc = "start" /\ UNCHANGED <<ctxend, c, hcalled, hcall, pcalled, pcall, ucalled>>
            /\ CASE Route(c) = "redirect" -> Finish([status |-> 301, ctype |-> "other", code |-> 0, objs |-> <<>>, meta |-> NoMeta])
                 [] Route(c) = "handler" -> pc' = "parse" /\ out' = out
                 [] Route(c) = "proxy" -> pc' = "proxy" /\ out' = out
                 [] Route(c) = "events" -> pc' = "events" /\ out' = out
\* wrap + the handler function up to the Handler call
Parse == /\ pc = "parse" /\ UNCHANGED <<ctxend, c, hcalled, hcall, pcalled, pcall, ucalled>>
         /\ IF CtypeFault(c) # 0 THEN Finish(ErrOut(CtypeFault(c)))
            ELSE IF T(c).h = "404" THEN Finish(ErrOut(404))
            ELSE IF T(c).h = "swallow" THEN Finish(EmptyOut)
            ELSE IF Fault(c) # 0 THEN Finish(ErrOut(Fault(c)))
            ELSE pc' = "call" /\ out' = out
\* a body made for another fork: the unmarshaller may refuse it
RefuseWrongFork == /\ pc = "call" /\ c.body.form = "wrongfork" /\ UNCHANGED <<ctxend, c, hcalled, hcall, pcalled, pcall, ucalled>>
                   /\ Finish(ErrOut(IF T(c).mask THEN Masked ELSE 400))
\* the Handler method is called (objs: the objects it got; ret: what it answered)
Call(objs, ret) == /\ pc = "call" /\ UNCHANGED <<ctxend, c, pcalled, pcall, ucalled, out>>
                   /\ ObjsFixed(c) => objs = c.sent
                   /\ hcalled' = TRUE /\ hcall' = [m |-> T(c).h, args |-> ImplArgs(c), objs |-> objs, ret |-> ret]
                   /\ pc' = IF ret.kind \in Blocking THEN "blocked" ELSE "respond"
Respond == /\ pc = "respond" /\ UNCHANGED <<ctxend, c, hcalled, hcall, pcalled, pcall, ucalled>>
           /\ \E o \in OutsAfter(c, hcall.ret) : Finish(o)
\* proxy(h): Handler.Proxy gets the request as it came (seen: what it saw, as the stub logs it), its response is copied
ProxyCall(seen, ret) == /\ pc = "proxy" /\ UNCHANGED <<ctxend, c, hcalled, hcall, ucalled>>
                        /\ pcalled' = TRUE /\ pcall' = [m |-> "Proxy", args |-> seen, objs |-> <<>>, ret |-> ret]
                        /\ IF ret.kind \in Blocking THEN pc' = "pblocked" /\ out' = out ELSE Finish(ProxyOut(ret))
\* A Handler method (or Handler.Proxy) that does not return before its context ends: the context handed to it ends with
\* "canceled" when the client goes away and with "deadline" after defaultRequestTimeout (10 s); the error it then returns is
\* written as 408 (writeError looks at the context first).  err: how the context ended ("none": it did not).
CtxEnd(err) == /\ pc \in {"blocked", "pblocked"} /\ ctxend' = err /\ pc' = (IF pc = "blocked" THEN "respond" ELSE "prespond")
               /\ UNCHANGED <<c, hcalled, hcall, pcalled, pcall, ucalled, out>>
PRespond == /\ pc = "prespond" /\ UNCHANGED <<ctxend, c, hcalled, hcall, pcalled, pcall, ucalled>>
            /\ Finish(IF pcall.ret.kind = "cancel" THEN GoneOut ELSE ErrOut(408))
\* eventsHandler: reverse proxy to Handler.Address() with Handler.Headers(); an address that does not parse is a 500
EventsBadAddr == /\ pc = "events" /\ c.ans.kind = "badaddr" /\ UNCHANGED <<ctxend, c, hcalled, hcall, pcalled, pcall, ucalled>>
                 /\ Finish(ErrOut(500))
EventsCall(seen, ret) == /\ pc = "events" /\ c.ans.kind # "badaddr" /\ UNCHANGED <<ctxend, c, hcalled, hcall, pcalled>>
                         /\ ucalled' = TRUE /\ pcall' = [m |-> "Upstream", args |-> seen, objs |-> <<>>, ret |-> ret]
                         /\ Finish(EventsOut(ret))

\* ---------------------------------------------------------------------------------------------------------------------
\* CONTRACT
\* ---------------------------------------------------------------------------------------------------------------------
Done == pc = "done"
Exclusive == /\ hcalled => Intercepted(c) /\ ~pcalled /\ ~ucalled /\ hcall.m = Table[c.ep].h
             /\ pcalled => ~Intercepted(c) /\ ~hcalled /\ ~ucalled
             /\ ucalled => c.ep = "events" /\ c.method = "GET" /\ ~hcalled /\ ~pcalled
             /\ Done /\ ~Intercepted(c) /\ ~NeedsCleaning(c) /\ ~(c.ep = "events" /\ c.method = "GET" /\ c.shape \in {"exact", "encslash"}) => pcalled
NoCallOnFault == MalformedReq(c) => ~hcalled /\ ~pcalled /\ (Done => out.status \in 400..499 \/ (Malformed = "ascoded" /\ out.status = 500))
ClientFault4xx == Done /\ MalformedReq(c) => out.status \in 400..499
ArgFidelity == hcalled => hcall.args = WantArgs(c) /\ (c.body.form # "wrongfork" /\ Table[c.ep].body \in {"objs", "idx"} => hcall.objs = c.sent)
Get(m, k) == IF k \in DOMAIN m THEN m[k] ELSE "<absent>"
RespFidelity == /\ Done /\ hcalled /\ hcall.ret.kind = "ok" /\ out.status = 200 =>
                     /\ out.objs \in (IF Table[c.ep].rk = "none" THEN {<<>>} ELSE DataForms(Table[c.ep].rk, hcall.ret))
                     /\ Table[c.ep].rk = "proposal" => /\ Get(out.meta, "execution_payload_blinded") = hcall.ret.blinded /\ Get(out.meta, "hblinded") = hcall.ret.blinded
                                                        /\ Get(out.meta, "version") = hcall.ret.ver /\ Get(out.meta, "hversion") = hcall.ret.ver
                                                        /\ Get(out.meta, "hev") = hcall.ret.ev /\ Get(out.meta, "hcv") = hcall.ret.cv
                     /\ Table[c.ep].rk = "versioned" => Get(out.meta, "version") = hcall.ret.ver /\ Get(out.meta, "hversion") = hcall.ret.ver
                     /\ Table[c.ep].rk = "duties" /\ hcall.ret.meta = "ok" => Get(out.meta, "execution_optimistic") = hcall.ret.eo /\ Get(out.meta, "dependent_root") = hcall.ret.droot
                /\ Done /\ pcalled /\ pcall.ret.kind = "ok" => out.status = pcall.ret.status /\ out.objs = <<pcall.ret.body>> /\ Get(out.meta, "hup") = pcall.ret.hdr
                /\ Done /\ hcalled /\ hcall.ret.kind = "ok" /\ Table[c.ep].rk \in {"none", "data", "sduties", "vals", "nodever"} => out.status = 200
ErrorsShaped == Done => /\ out.status >= 400 /\ ~(pcalled /\ pcall.ret.kind = "ok") /\ ~ucalled => out.code = out.status /\ out.ctype = "json"
                        /\ hcalled /\ hcall.ret.kind = "err" => out.status \in 500..599
                        /\ out.status # 0 \/ (hcalled /\ hcall.ret.kind \in {"panic", "cancel"}) \/ (pcalled /\ pcall.ret.kind = "cancel")
\* the context the Handler gets is the request's: it ends when the client goes away, and after the request timeout
Blocked == IF hcalled THEN hcall.ret.kind ELSE IF pcalled THEN pcall.ret.kind ELSE "-"
CtxPropagates == Done => /\ Blocked = "cancel" => ctxend = "canceled"
                         /\ Blocked = "timeout" => ctxend = "deadline" /\ out.status = 408
\* (finding GROW-VAPIROUTER-upstream-status-500: violated as coded)
UpstreamStatusKept == Done /\ Blocked = "apierr" => out.status = (IF hcalled THEN hcall.ret.status ELSE pcall.ret.status) /\ out.code = out.status
Safety == Exclusive /\ NoCallOnFault /\ ArgFidelity /\ RespFidelity /\ ErrorsShaped /\ CtxPropagates
====
