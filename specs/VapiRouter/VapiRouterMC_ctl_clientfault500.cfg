SPECIFICATION MCSpec
CONSTANTS Malformed = "ascoded"
 ApiErr = "ascoded"
 Variant = "none"
 AltForks = {"electra"}
INVARIANTS ClientFault4xx
CHECK_DEADLOCK FALSE
