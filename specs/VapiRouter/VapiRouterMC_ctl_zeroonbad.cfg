SPECIFICATION MCSpec
CONSTANTS Malformed = "ascoded"
 Variant = "zeroonbad"
 AltForks = {"electra"}
INVARIANTS NoCallOnFault
CHECK_DEADLOCK FALSE
