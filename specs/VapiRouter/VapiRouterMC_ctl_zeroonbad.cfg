SPECIFICATION MCSpec
CONSTANTS Malformed = "ascoded"
 ApiErr = "ascoded"
 Variant = "zeroonbad"
 AltForks = {"electra"}
INVARIANTS NoCallOnFault
CHECK_DEADLOCK FALSE
