SPECIFICATION TraceSpec
CONSTANTS Malformed = "strict"
 ApiErr = "ascoded"
 Variant = "none"
CONSTRAINT Mark
POSTCONDITION Report
CHECK_DEADLOCK FALSE
