SPECIFICATION MCSpec
CONSTANTS Malformed = "ascoded"
 Variant = "bgctx"
 AltForks = {"electra"}
INVARIANTS CtxPropagates
CHECK_DEADLOCK FALSE
