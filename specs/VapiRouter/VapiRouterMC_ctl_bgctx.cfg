SPECIFICATION MCSpec
CONSTANTS Malformed = "ascoded"
 ApiErr = "ascoded"
 Variant = "bgctx"
 AltForks = {"electra"}
INVARIANTS CtxPropagates
CHECK_DEADLOCK FALSE
