SPECIFICATION TraceSpec
CONSTANTS Malformed = "strict"
 ApiErr = "strict"
 Variant = "none"
CONSTRAINT Mark
POSTCONDITION Report
CHECK_DEADLOCK FALSE
