SPECIFICATION TraceSpec
CONSTANTS Malformed = "strict"
 Variant = "none"
CONSTRAINT Mark
POSTCONDITION Report
CHECK_DEADLOCK FALSE
