SPECIFICATION TraceSpec
CONSTANTS Kinds <- K3
 SliceKinds = {"sync"}
 Epochs <- TEpochs
 Vals <- TVals
 Reqs <- TReqs
 TrimThreshold = 3
 GuardGeneration = "either"
 ShareRefs = FALSE
 OnFetchError = "either"
CONSTRAINT Mark
ACTION_CONSTRAINT ActOK
POSTCONDITION Report
CHECK_DEADLOCK FALSE
