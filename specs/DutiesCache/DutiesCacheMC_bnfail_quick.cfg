SPECIFICATION MCSpec
CONSTANTS Kinds <- K1
 SliceKinds = {"sync"}
 Epochs = {1, 2}
 Vals = {1, 2}
 Reqs = {r1, r2}
 TrimThreshold = 1
 GuardGeneration = "yes"
 ShareRefs = FALSE
 OnFetchError = "error"
 MaxCalls = 3
 MaxVer = 1
 MaxInv = 1
 MaxTrim = 0
 MaxFail = 1
INVARIANTS Safety FetchExactlyMissing
PROPERTIES DropsAffectedProp FailProp
VIEW View
SYMMETRY ReqSym
CHECK_DEADLOCK FALSE
