SPECIFICATION MCSpec
CONSTANTS Kinds <- K1
 SliceKinds = {"sync"}
 Epochs = {1, 2}
 Vals = {1, 2}
 Reqs = {r1, r2}
 TrimThreshold = 1
 GuardGeneration = "yes"
 ShareRefs = FALSE
 OnFetchError = "error"
 MaxCalls = 3
 MaxVer = 0
 MaxInv = 1
 MaxTrim = 1
 MaxFail = 2
INVARIANTS Safety FetchExactlyMissing
PROPERTIES DropsAffectedProp FailProp
VIEW View
SYMMETRY ReqSym
CHECK_DEADLOCK FALSE
