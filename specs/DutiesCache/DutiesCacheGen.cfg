SPECIFICATION GenSpec
CONSTANTS Kinds <- K3
 SliceKinds = {"sync"}
 Epochs = {1, 2, 3, 4, 5, 6}
 Vals = {1, 2, 3}
 Reqs = {1, 2, 3}
 TrimThreshold = 3
 GuardGeneration = "yes"
 ShareRefs = FALSE
 OnFetchError = "error"
 GenLen = 22
 MaxVer = 2
 MaxFail = 2
INVARIANTS Emit
CONSTRAINT Stop
CHECK_DEADLOCK FALSE
