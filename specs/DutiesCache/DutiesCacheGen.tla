---- MODULE DutiesCacheGen ----
(* Schedule generation: behaviours of the design spec, recorded in `hist` (only the ENVIRONMENT's moves: Call, the
   beacon node computing / failing / delivering an answer, Reorg, Invalidate, Trim, Mutate; the cache's own steps are the
   implementation's business).  The executor runs these sequentially (each stimulus runs until the cache code blocks
   in the beacon call or returns), so here the cache's internal steps are urgent.  Run with -simulate. *)
EXTENDS DutiesCache, Json, SequencesExt
CONSTANTS GenLen, MaxVer, MaxFail
VARIABLE hist
K3 == <<"prop", "att", "sync">>
KIdx(k) == CHOOSE i \in DOMAIN Kinds : Kinds[i] = k
\* proposers: none / one / two duties, others none / one; everything changes with the version
GenN(k, e, x, v) == IF k = "prop" THEN (x + e + v) % 3 ELSE (x + e + v + KIdx(k)) % 2
GenAsg == {a \in {[k |-> k, e |-> e, x |-> x, v |-> v, n |-> GenN(k, e, x, v)] :
                     k \in KindSet, e \in Epochs, x \in Vals, v \in 0..MaxVer} : a.n > 0}
GenInit == InitCache /\ asg = GenAsg /\ hist = <<[ev |-> "Config", asg |-> SetToSeq(GenAsg)]>>
Menu == {<<k, e, S>> : k \in KindSet, e \in {4, 5}, S \in {{1}, {2, 3}, {1, 2, 3}, {3}}}
\* keep the mix useful: no two maintenance / mutation steps in a row
Quiet == hist[Len(hist)].ev \in {"Invalidate", "Trim", "Mutate"}
NFails == Cardinality({i \in DOMAIN hist : hist[i].ev = "Compute" /\ "fail" \in DOMAIN hist[i]})
FirstIdle(r) == rq[r].st = "idle" /\ \A q \in Reqs : q < r => rq[q].st # "idle"
GenNext ==
  IF ENABLED Internal THEN Internal /\ UNCHANGED hist
  ELSE
  \/ \E r \in Reqs, m \in Menu : FirstIdle(r) /\ Call(r, m[1], m[2], m[3])
        /\ hist' = Append(hist, [ev |-> "Call", r |-> r, k |-> m[1], e |-> m[2], S |-> SetToSeq(m[3])])
  \/ \E r \in Reqs : Fetch(r) /\ hist' = Append(hist, [ev |-> "Compute", r |-> r])
  \/ \E r \in Reqs : NFails < MaxFail /\ FetchFail(r) /\ hist' = Append(hist, [ev |-> "Compute", r |-> r, fail |-> TRUE])
  \/ \E r \in Reqs : Deliver(r) /\ hist' = Append(hist, [ev |-> "Deliver", r |-> r])
  \/ \E e0 \in {3, 4} : tv[6] < MaxVer /\ Reorg(e0) /\ hist' = Append(hist, [ev |-> "Reorg", e0 |-> e0])
  \/ \E e0 \in {3, 4} : ~Quiet /\ InvCall(e0) /\ hist' = Append(hist, [ev |-> "Invalidate", e0 |-> e0])
  \/ \E ep \in {2, 8} : ~Quiet /\ TrimCall(ep) /\ hist' = Append(hist, [ev |-> "Trim", ep |-> ep])
  \/ \E n \in 0..1 : ~Quiet /\ last.r # 0 /\ UNCHANGED vars /\ hist' = Append(hist, [ev |-> "Mutate", a |-> n])
GenSpec == GenInit /\ [][GenNext]_<<vars, hist>>
Emit == Len(hist) < GenLen \/ PrintT("@@SCHED@@" \o ToJson(hist))
Stop == Len(hist) <= GenLen
====
