---- MODULE DutiesCache ----
(* app/eth2wrap/cache.go: ProposerDutiesCache / AttesterDutiesCache / SyncCommDutiesCache, storeOrAmend*Duties,
   InvalidateCache, Trim.  The three duty kinds are three textual copies of the same code over separate maps and
   separate RWMutexes; the state below is therefore indexed by kind.  One action per critical section:

     request r = Call ; ReadGen (invalidations.Load) ; Lookup (fetch*Duties under RLock + hit/missing computation on
                 the snapshot) ; [ BN call: Fetch (the beacon node computes its answer) ; Deliver (answer reaches the
                 cache) ; StoreOrAmend (storeOrAmend*Duties under Lock) ] ; Return
                 or, when the beacon node fails the call: ... ; FetchFail ; Deliver (the error reaches the cache) ;
                 ReturnErr
     InvalidateCache(e0) = InvCall ; InvBump ; InvTrim per kind in the order of Kinds (trimAfter*Duties) ; InvRet
     Trim(ep)            = TrimCall ; TrimStep per kind (trimBefore*Duties(ep - TrimThreshold)) ; TrimRet

   Beacon truth: tv[e] is the version of epoch e (bumped by Reorg(e0) for e > e0); the table asg lists how many
   duties validator x has in epoch e of kind k at version v (absent = none; a proposer may have several).  A duty
   is [x, j, v, f]: validator, ordinal, version and f = identity of the fetch whose response object it came
   from (heap model for "callers receive private copies": the index slice of a sync duty <<f, x>> and the
   metadata map <<f, 0>> are the mutable objects reachable from an answer).

   GuardGeneration  what storeOrAmend* does when InvalidateCache was called since the request read the counter:
       "no"      stores anyway (pinned tree: pre-reorg duties are stored after the invalidation)
       "yes"     drops the store (pending_fixes/C20-straddling-fetch.diff; what the design check uses)
       "either"  both allowed (trace validation: the property decides, not the mechanism)
   ShareRefs  TRUE: cache and answers share slices/maps (pinned tree); FALSE: answers are private copies.

   Beacon-node failure: the environment decides per beacon call whether the node answers (Fetch) or fails
   (FetchFail); Deliver hands either outcome to the cache code.  OnFetchError says what the cache does with a failed
   call:
       "error"    the request fails with the error; nothing is stored (cache.go: `return ...WithMeta{}, err`)
       "partial"  control: when the lookup hit duties of the epoch, they are returned WITHOUT error (an answer that
                  silently lacks the missing indices) - must violate NoPartialOnError
       "either"   both allowed (trace validation: the answer decides, not the mechanism)
   A request whose indices were all requested before never calls the beacon node, so a failing node does not
   matter to it (Lookup goes straight to "ret"). *)
EXTENDS Integers, Sequences, FiniteSets, TLC
CONSTANTS Kinds,            \* sequence of kinds in the order InvalidateCache / Trim visit them
          SliceKinds,       \* kinds whose duties carry a slice ({"sync"}: ValidatorSyncCommitteeIndices)
          Epochs, Vals, Reqs,
          TrimThreshold,    \* dutiesCacheTrimThreshold = 3
          GuardGeneration, ShareRefs, OnFetchError

VARIABLES asg,        \* beacon truth table: set of [k, e, x, v, n]  (constant during a behaviour)
          tv,         \* tv[e]: current truth version of epoch e
          has, requested, cached, meta,   \* per kind and epoch: the three maps of *Duties (has = key present)
          gen,        \* DutiesCache.invalidations
          rq,         \* requests in flight
          mt,         \* InvalidateCache / Trim in flight
          floor,      \* floor[e]: truth version of e when the last completed InvalidateCache covering e was called
          nfetch, dirty, outs,   \* heap model: fetch counter, mutated objects, object sets handed to callers
          last        \* observation: the answer returned by the latest Return
cvars == <<has, requested, cached, meta>>
vars == <<asg, tv, has, requested, cached, meta, gen, rq, mt, floor, nfetch, dirty, outs, last>>

KindSet == {Kinds[i] : i \in DOMAIN Kinds}
NK == Len(Kinds)
Max(a, b) == IF a >= b THEN a ELSE b
N(k, e, x, v) == LET m == {a \in asg : a.k = k /\ a.e = e /\ a.x = x /\ a.v = v}
                 IN IF m = {} THEN 0 ELSE (CHOOSE a \in m : TRUE).n
\* what the beacon node answers for kind k, epoch e, index set S at version v
BN(k, e, S, v) == UNION {{[x |-> x, j |-> j, v |-> v] : j \in 1..N(k, e, x, v)} : x \in S}
Strip(D) == {[x |-> d.x, j |-> d.j, v |-> d.v] : d \in D}

NoMeta == [v |-> -1, f |-> 0]
ZeroE == [e \in Epochs |-> 0]
NoMt == [type |-> "none", arg |-> 0, i |-> 0, snap |-> ZeroE]
NoAns == [r |-> 0, err |-> FALSE, part |-> FALSE]
Idle == [st |-> "idle", k |-> "none", e |-> -1, S |-> {}, gen |-> -1, full |-> FALSE, hit |-> {}, hmeta |-> NoMeta,
         missing |-> {}, got |-> {}, gmeta |-> NoMeta, fl |-> 0, ep |-> FALSE, part |-> FALSE]

InitCache ==
  /\ tv = [e \in Epochs |-> 0]
  /\ has = [k \in KindSet |-> [e \in Epochs |-> FALSE]]
  /\ requested = [k \in KindSet |-> [e \in Epochs |-> {}]]
  /\ cached = [k \in KindSet |-> [e \in Epochs |-> {}]]
  /\ meta = [k \in KindSet |-> [e \in Epochs |-> NoMeta]]
  /\ gen = 0 /\ rq = [r \in Reqs |-> Idle] /\ mt = NoMt /\ floor = [e \in Epochs |-> 0]
  /\ nfetch = 0 /\ dirty = {} /\ outs = {} /\ last = NoAns

---------------------------------------------------------------------------------------------------
(* A request. *)
Call(r, k, e, S) ==
  /\ rq[r].st = "idle" /\ S # {}
  /\ rq' = [rq EXCEPT ![r] = [Idle EXCEPT !.st = "called", !.k = k, !.e = e, !.S = S, !.fl = floor[e]]]
  /\ UNCHANGED <<asg, tv, cvars, gen, mt, floor, nfetch, dirty, outs, last>>

\* gen := c.invalidations.Load()   (before the lookup, outside any lock)
ReadGen(r) ==
  /\ rq[r].st = "called"
  /\ rq' = [rq EXCEPT ![r].st = "lookup", ![r].gen = gen]
  /\ UNCHANGED <<asg, tv, cvars, gen, mt, floor, nfetch, dirty, outs, last>>

\* fetch*Duties(epoch) under RLock, then the hit / missing computation on that snapshot: a hit is decided from
\* requestedIdxs (a validator without duty is in requestedIdxs but not in duties)
Lookup(r) ==
  /\ rq[r].st = "lookup"
  /\ LET k == rq[r].k  e == rq[r].e  S == rq[r].S IN
     IF has[k][e]
       THEN LET missing == S \ requested[k][e]
                hit == {d \in cached[k][e] : d.x \in S} IN
            IF missing = {}
              THEN rq' = [rq EXCEPT ![r].st = "ret", ![r].full = TRUE, ![r].hit = hit, ![r].hmeta = meta[k][e]]
              \* (what only the non-"error" variants read is not recorded otherwise: fewer states)
              ELSE rq' = [rq EXCEPT ![r].st = "fetch", ![r].hit = hit, ![r].missing = missing,
                                    ![r].hmeta = IF OnFetchError = "error" THEN NoMeta ELSE meta[k][e],
                                    ![r].ep = (OnFetchError # "error")]
       ELSE rq' = [rq EXCEPT ![r].st = "fetch", ![r].missing = S]
  /\ UNCHANGED <<asg, tv, cvars, gen, mt, floor, nfetch, dirty, outs, last>>

\* the beacon node computes its answer for exactly the missing indices, at the version current at that moment
Fetch(r) ==
  /\ rq[r].st = "fetch"
  /\ LET k == rq[r].k  e == rq[r].e
         fid == IF ShareRefs THEN nfetch + 1 ELSE 0 IN
     /\ rq' = [rq EXCEPT ![r].st = "got",
                         ![r].got = {[x |-> d.x, j |-> d.j, v |-> d.v, f |-> fid] : d \in BN(k, e, rq[r].missing, tv[e])},
                         ![r].gmeta = [v |-> tv[e], f |-> fid]]
     /\ nfetch' = fid
  /\ UNCHANGED <<asg, tv, cvars, gen, mt, floor, dirty, outs, last>>

\* the beacon node fails this call (timeout, 5xx, ...): no answer
FetchFail(r) ==
  /\ rq[r].st = "fetch"
  /\ rq' = [rq EXCEPT ![r].st = "goterr"]
  /\ UNCHANGED <<asg, tv, cvars, gen, mt, floor, nfetch, dirty, outs, last>>

\* the response (or the error) reaches the cache code; on an error the request fails -- or, in the control variant,
\* is answered with the duties the lookup found for the epoch
Deliver(r) ==
  /\ \/ /\ rq[r].st = "got"
        /\ rq' = [rq EXCEPT ![r].st = "store"]
     \/ /\ rq[r].st = "goterr"
        /\ \/ /\ OnFetchError = "partial" => ~(rq[r].ep /\ rq[r].hit # {})
              /\ rq' = [rq EXCEPT ![r].st = "reterr"]
           \/ /\ OnFetchError # "error" /\ rq[r].ep /\ (OnFetchError = "partial" => rq[r].hit # {})
              /\ rq' = [rq EXCEPT ![r].st = "ret", ![r].part = TRUE]
  /\ UNCHANGED <<asg, tv, cvars, gen, mt, floor, nfetch, dirty, outs, last>>

\* storeOrAmend*Duties under Lock: first store of the epoch, or amend with the NEWLY requested indices only
ApplyStore(r) ==
  LET k == rq[r].k  e == rq[r].e IN
  IF ~has[k][e]
    THEN /\ has' = [has EXCEPT ![k][e] = TRUE]
         /\ requested' = [requested EXCEPT ![k][e] = rq[r].missing]
         /\ cached' = [cached EXCEPT ![k][e] = rq[r].got]
         /\ meta' = [meta EXCEPT ![k][e] = rq[r].gmeta]
    ELSE LET newly == rq[r].missing \ requested[k][e] IN
         /\ requested' = [requested EXCEPT ![k][e] = @ \cup newly]
         /\ cached' = [cached EXCEPT ![k][e] = @ \cup {d \in rq[r].got : d.x \in newly}]
         /\ UNCHANGED <<has, meta>>
Stale(r) == rq[r].gen # gen
StoreOrAmend(r) ==
  /\ rq[r].st = "store"
  /\ \/ (GuardGeneration = "yes" => ~Stale(r)) /\ ApplyStore(r)
     \/ (GuardGeneration # "no" /\ Stale(r)) /\ UNCHANGED cvars           \* the store is dropped
  /\ rq' = [rq EXCEPT ![r].st = "ret"]
  /\ UNCHANGED <<asg, tv, gen, mt, floor, nfetch, dirty, outs, last>>

Objs(k, D, m) == {<<d.f, d.x>> : d \in {c \in D : k \in SliceKinds}} \cup {<<m.f, 0>>}
Return(r) ==
  /\ rq[r].st = "ret"
  /\ LET k == rq[r].k  e == rq[r].e
         fromCache == rq[r].full \/ rq[r].part
         D == IF fromCache THEN rq[r].hit ELSE rq[r].hit \cup rq[r].got
         m == IF fromCache THEN rq[r].hmeta ELSE rq[r].gmeta
         o == Objs(k, D, m) IN
     /\ last' = [r |-> r, k |-> k, e |-> e, S |-> rq[r].S, duties |-> Strip(D), mv |-> m.v, fl |-> rq[r].fl,
                 tvr |-> tv[e], corrupt |-> ShareRefs /\ o \cap dirty # {}, err |-> FALSE, part |-> rq[r].part]
     /\ outs' = IF ShareRefs THEN outs \cup {o} ELSE outs
  /\ rq' = [rq EXCEPT ![r] = Idle]
  /\ UNCHANGED <<asg, tv, cvars, gen, mt, floor, nfetch, dirty>>
\* the request fails with the beacon node's error: no answer, nothing stored
ReturnErr(r) ==
  /\ rq[r].st = "reterr"
  /\ last' = [r |-> r, k |-> rq[r].k, e |-> rq[r].e, S |-> rq[r].S, duties |-> {}, mv |-> -1, fl |-> rq[r].fl,
              tvr |-> tv[rq[r].e], corrupt |-> FALSE, err |-> TRUE, part |-> FALSE]
  /\ rq' = [rq EXCEPT ![r] = Idle]
  /\ UNCHANGED <<asg, tv, cvars, gen, mt, floor, nfetch, dirty, outs>>

---------------------------------------------------------------------------------------------------
(* Environment. *)
Reorg(e0) ==
  /\ tv' = [e \in Epochs |-> IF e > e0 THEN tv[e] + 1 ELSE tv[e]]
  /\ UNCHANGED <<asg, cvars, gen, rq, mt, floor, nfetch, dirty, outs, last>>

\* a caller writes to every slice / map reachable from an answer it received
Mutate(o) ==
  /\ o \in outs
  /\ dirty' = IF ShareRefs THEN dirty \cup o ELSE dirty
  /\ UNCHANGED <<asg, tv, cvars, gen, rq, mt, floor, nfetch, outs, last>>

InvCall(e0) ==
  /\ mt.type = "none"
  /\ mt' = [type |-> "inv", arg |-> e0, i |-> 0, snap |-> tv]
  /\ UNCHANGED <<asg, tv, cvars, gen, rq, floor, nfetch, dirty, outs, last>>
InvBump ==
  /\ mt.type = "inv" /\ mt.i = 0
  /\ gen' = gen + 1 /\ mt' = [mt EXCEPT !.i = 1]
  /\ UNCHANGED <<asg, tv, cvars, rq, floor, nfetch, dirty, outs, last>>
DropEpochs(k, Gone(_)) ==
  /\ has' = [has EXCEPT ![k] = [e \in Epochs |-> IF Gone(e) THEN FALSE ELSE @[e]]]
  /\ requested' = [requested EXCEPT ![k] = [e \in Epochs |-> IF Gone(e) THEN {} ELSE @[e]]]
  /\ cached' = [cached EXCEPT ![k] = [e \in Epochs |-> IF Gone(e) THEN {} ELSE @[e]]]
  /\ meta' = [meta EXCEPT ![k] = [e \in Epochs |-> IF Gone(e) THEN NoMeta ELSE @[e]]]
\* trimAfter*Duties(e0) under Lock
InvTrim ==
  /\ mt.type = "inv" /\ mt.i \in 1..NK
  /\ LET G(e) == e > mt.arg IN DropEpochs(Kinds[mt.i], G)
  /\ mt' = [mt EXCEPT !.i = @ + 1]
  /\ UNCHANGED <<asg, tv, gen, rq, floor, nfetch, dirty, outs, last>>
InvRet ==
  /\ mt.type = "inv" /\ mt.i = NK + 1
  /\ floor' = [e \in Epochs |-> IF e > mt.arg THEN Max(floor[e], mt.snap[e]) ELSE floor[e]]
  /\ mt' = NoMt
  /\ UNCHANGED <<asg, tv, cvars, gen, rq, nfetch, dirty, outs, last>>

TrimCall(ep) ==
  /\ mt.type = "none"
  /\ mt' = [type |-> "trim", arg |-> ep, i |-> IF ep < TrimThreshold THEN NK + 1 ELSE 1, snap |-> ZeroE]
  /\ UNCHANGED <<asg, tv, cvars, gen, rq, floor, nfetch, dirty, outs, last>>
\* trimBefore*Duties(ep - TrimThreshold) under Lock
TrimStep ==
  /\ mt.type = "trim" /\ mt.i \in 1..NK
  /\ LET G(e) == e < mt.arg - TrimThreshold IN DropEpochs(Kinds[mt.i], G)
  /\ mt' = [mt EXCEPT !.i = @ + 1]
  /\ UNCHANGED <<asg, tv, gen, rq, floor, nfetch, dirty, outs, last>>
TrimRet ==
  /\ mt.type = "trim" /\ mt.i = NK + 1
  /\ mt' = NoMt
  /\ UNCHANGED <<asg, tv, cvars, gen, rq, floor, nfetch, dirty, outs, last>>

\* steps the implementation takes on its own
Internal == \/ \E r \in Reqs : ReadGen(r) \/ Lookup(r) \/ StoreOrAmend(r) \/ Return(r) \/ ReturnErr(r)
            \/ InvBump \/ InvTrim \/ InvRet \/ TrimStep \/ TrimRet

---------------------------------------------------------------------------------------------------
(* Properties (C20). *)
\* every index asked for is answered completely with the beacon's duties of ONE version that existed by the time
\* of the return; nothing else is in the answer; order is not part of the property
\* (a request that failed with an error served nothing: the three answer properties do not apply to it)
Answered == last.r # 0 /\ ~last.err
AnswerEqualsBN ==
  Answered =>
    /\ \A x \in last.S : \E v \in 0..last.tvr : {d \in last.duties : d.x = x} = BN(last.k, last.e, {x}, v)
    /\ \A d \in last.duties : d.x \in last.S
    /\ last.mv \in 0..last.tvr
\* a request that started after InvalidateCache(e0) returned sees nothing older than what the beacon node held
\* when that invalidation was called (epochs > e0)
FreshAfterInvalidate ==
  Answered => /\ \A d \in last.duties : d.v >= last.fl
              /\ last.mv >= last.fl
\* what a caller did to an earlier answer is not visible in a later one
PrivateCopies == Answered => ~last.corrupt
\* a beacon-node failure is never papered over: an answer given WITHOUT error after the request's beacon call failed
\* is still the beacon node's answer for the whole requested set (with OnFetchError = "error" there is no such answer)
NoPartialOnError == (Answered /\ last.part) => AnswerEqualsBN
\* the cache holds, per requested index, the complete beacon answer of one version; only requested indices
CacheSound ==
  \A k \in KindSet, e \in Epochs :
    /\ ~has[k][e] => requested[k][e] = {} /\ cached[k][e] = {}
    /\ \A d \in cached[k][e] : d.x \in requested[k][e]
    /\ \A x \in requested[k][e] :
         \E v \in 0..tv[e] : Strip({d \in cached[k][e] : d.x = x}) = BN(k, e, {x}, v)
\* nothing older than the last completed invalidation stays cached (needs the generation guard)
CacheFresh ==
  \A k \in KindSet, e \in Epochs :
    /\ \A d \in cached[k][e] : d.v >= floor[e]
    /\ has[k][e] => meta[k][e].v >= floor[e]
NoDirtyCache ==
  \A k \in KindSet, e \in Epochs :
    /\ \A d \in cached[k][e] : k \in SliceKinds => <<d.f, d.x>> \notin dirty
    /\ has[k][e] => <<meta[k][e].f, 0>> \notin dirty
TypeOK == /\ gen \in Nat /\ mt.i \in 0..(NK + 1)
          /\ \A r \in Reqs : rq[r].st \in {"idle", "called", "lookup", "fetch", "got", "goterr", "store", "ret", "reterr"}
Safety == AnswerEqualsBN /\ NoPartialOnError /\ FreshAfterInvalidate /\ PrivateCopies /\ CacheSound /\ CacheFresh /\ NoDirtyCache /\ TypeOK
\* a fetch asks the beacon node for nothing the cache already holds, and for everything it does not
FetchExactlyMissing ==
  \A r \in Reqs : rq[r].st = "fetch" =>
     /\ rq[r].missing # {} /\ rq[r].missing \subseteq rq[r].S
     /\ \A d \in rq[r].hit : d.x \in rq[r].S \ rq[r].missing
\* after the critical section of an invalidation / trim the affected epochs are gone (so they are fetched afresh)
DropsAffected ==
  /\ (mt.type = "inv" /\ mt'.type = "inv" /\ mt.i \in 1..NK /\ mt'.i = mt.i + 1)
        => \A e \in Epochs : e > mt.arg => ~has'[Kinds[mt.i]][e]
  /\ (mt.type = "trim" /\ mt'.type = "trim" /\ mt.i \in 1..NK /\ mt'.i = mt.i + 1)
        => \A e \in Epochs : (e < mt.arg - TrimThreshold => ~has'[Kinds[mt.i]][e])
                          /\ (e >= mt.arg - TrimThreshold => has'[Kinds[mt.i]][e] = has[Kinds[mt.i]][e])
DropsAffectedProp == [][DropsAffected]_vars
\* a failed beacon call leaves no trace in the cache: from the moment the node failed the call until the request has
\* returned, none of that request's steps writes the maps (so the missing indices stay missing and a retry asks the
\* node for them again)
FailStoresNothing ==
  \A r \in Reqs : (rq[r].st \in {"goterr", "reterr"} /\ rq'[r] # rq[r]) => UNCHANGED cvars
\* ... and it fails with an error exactly when the beacon call failed (OnFetchError = "error")
ErrorIffFetchFailed ==
  \A r \in Reqs :
    /\ (rq[r].st = "goterr" /\ rq'[r] # rq[r]) => (rq'[r].st = "reterr")
    /\ (rq'[r].st = "reterr") => (rq[r].st \in {"goterr", "reterr"})
FailProp == [][FailStoresNothing /\ ErrorIffFetchFailed]_vars
====
