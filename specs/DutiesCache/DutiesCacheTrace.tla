---- MODULE DutiesCacheTrace ----
(* Trace validation for app/eth2wrap/cache.go.  Events written by the executor (harness/c20):
     {"ev":"Reset","sid":n,"asg":[{"k","e","x","v","n"},..]}  fresh DutiesCache; beacon truth table
     {"ev":"Call","r","k","e","S":[..]}       logged BEFORE the goroutine calling <Kind>DutiesCache(e, S) starts
     {"ev":"FetchCall","r","k","e","idxs"}    the cache's beacon call arrived at the mock (indices asked for)
     {"ev":"Compute","r","v"}                 the mock computed its answer (truth version v of that epoch)
     {"ev":"Fail","r"}                        instead of Compute: the mock will fail this call (the driver's choice)
     {"ev":"Deliver","r"}                     logged BEFORE the mock is allowed to return to the cache code
     {"ev":"Ret","r","ans":[{"x","j","v"},..],"mv"}   logged AFTER the call returned (v = -1: undecodable / mutated)
     {"ev":"Ret","r","err":".."}              the call returned a non-nil error (whatever else it returned is ignored)
                                              (after every Ret the driver overwrites the backing array of the index slice
                                              it passed in, as a caller may: no event, the slice is the caller's own)
     {"ev":"Reorg","e0"}  {"ev":"InvCall","e0"} {"ev":"InvRet"}  {"ev":"TrimCall","ep"} {"ev":"TrimRet"}
     {"ev":"Mutate","a"}                      the driver wrote to everything reachable from an earlier answer
   Call-type events are logged before the operation starts and return-type events after it completed, so the
   cache's own steps (ReadGen, Lookup, StoreOrAmend, InvBump, InvTrim, TrimStep) are silent steps TLC places between
   them (linearisation is inferred, never read off a clock).  In sequential schedules the brackets are tight and
   the placement is unique.  "Hang" matches no step. *)
EXTENDS DutiesCache, TraceCommon
VARIABLE seen                      \* requests whose beacon call has arrived at the mock
tvars == <<vars, tr, l, seen>>
K3 == <<"prop", "att", "sync">>
TEpochs == 0..12
TVals == 1..8
TReqs == 1..8
TraceInit == TrInit /\ InitCache /\ asg = SeqToSet(Trace[1].asg) /\ seen = {}

TReset == IsEvent("Reset") /\ UNCHANGED <<vars, seen>>
TCall == IsEvent("Call") /\ Call(Ev.r, Ev.k, Ev.e, SeqToSet(Ev.S)) /\ UNCHANGED seen
TFetchCall == /\ IsEvent("FetchCall") /\ Ev.r \notin seen
              /\ rq[Ev.r].st = "fetch" /\ rq[Ev.r].k = Ev.k /\ rq[Ev.r].e = Ev.e
              /\ rq[Ev.r].missing = SeqToSet(Ev.idxs) /\ Len(Ev.idxs) = Cardinality(rq[Ev.r].missing)
              /\ seen' = seen \cup {Ev.r} /\ UNCHANGED vars
TCompute == /\ IsEvent("Compute") /\ Ev.r \in seen
            /\ rq[Ev.r].st = "fetch" /\ tv[rq[Ev.r].e] = Ev.v
            /\ Fetch(Ev.r) /\ UNCHANGED seen
TFail == /\ IsEvent("Fail") /\ Ev.r \in seen
         /\ FetchFail(Ev.r) /\ UNCHANGED seen
\* after a failed call OnFetchError = "either" leaves open whether the cache code is about to return the error or an
\* answer; the Ret event that follows decides, and the answer is judged like any other (Mark)
TDeliver == IsEvent("Deliver") /\ Deliver(Ev.r) /\ UNCHANGED seen
\* the returned answer is bound to the spec's in Mark (named failures)
TRet == IsEvent("Ret") /\ ~Has(Ev, "err") /\ Return(Ev.r) /\ seen' = seen \ {Ev.r}
TRetErr == IsEvent("Ret") /\ Has(Ev, "err") /\ ReturnErr(Ev.r) /\ seen' = seen \ {Ev.r}
TReorg == IsEvent("Reorg") /\ Reorg(Ev.e0) /\ UNCHANGED seen
TInvCall == IsEvent("InvCall") /\ InvCall(Ev.e0) /\ UNCHANGED seen
TInvRet == IsEvent("InvRet") /\ InvRet /\ UNCHANGED seen
TTrimCall == IsEvent("TrimCall") /\ TrimCall(Ev.ep) /\ UNCHANGED seen
TTrimRet == IsEvent("TrimRet") /\ TrimRet /\ UNCHANGED seen
\* with private copies a caller's writes change nothing the cache will ever hand out
TMutate == IsEvent("Mutate") /\ UNCHANGED <<vars, seen>>
TSilent == /\ \/ \E r \in Reqs : ReadGen(r) \/ Lookup(r) \/ StoreOrAmend(r)
              \/ InvBump \/ InvTrim \/ TrimStep
           /\ Silent /\ UNCHANGED seen
\* the node's active validator set changed (what an index-less request stands for): requests that name their indices - the
\* statement's subject - do not depend on it
TSetActive == IsEvent("SetActive") /\ UNCHANGED vars /\ UNCHANGED seen
TraceNext == TSetActive \/ TReset \/ TCall \/ TFetchCall \/ TCompute \/ TFail \/ TDeliver \/ TRet \/ TRetErr \/ TReorg \/ TInvCall \/ TInvRet
             \/ TTrimCall \/ TTrimRet \/ TMutate \/ TSilent
TraceSpec == TraceInit /\ [][TraceNext]_tvars

\* the properties of the answers are evaluated where an answer appears: in the states whose latest consumed event
\* is a Ret (`last` is then the spec's answer for that very return)
Prev == Trace[l - 1]
JustRet == l > 1 /\ Prev.ev = "Ret" /\ ~Has(Prev, "err")
LoggedDuties == {[x |-> d.x, j |-> d.j, v |-> d.v] : d \in SeqToSet(Prev.ans)}
Mark == /\ JustRet => /\ CheckInv("PrivateCopies", Prev.mv # -1 /\ \A d \in LoggedDuties : d.v # -1)
                       /\ CheckInv("AnswerAsSpec", /\ LoggedDuties = last.duties
                                                   /\ Len(Prev.ans) = Cardinality(last.duties)
                                                   /\ Prev.mv = last.mv)
                       /\ CheckInv("NoPartialOnError", NoPartialOnError)
                       /\ CheckInv("AnswerEqualsBN", AnswerEqualsBN)
                       /\ CheckInv("FreshAfterInvalidate", FreshAfterInvalidate)
        /\ CheckInv("FetchExactlyMissing", FetchExactlyMissing)
        /\ CheckInv("TypeOK", TypeOK)
ActOK == /\ CheckInv("DropsAffected", DropsAffected)
         /\ CheckInv("FailStoresNothing", FailStoresNothing)
         /\ HWMarkA
====
