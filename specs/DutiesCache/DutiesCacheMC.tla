---- MODULE DutiesCacheMC ----
(* Exhaustive design check: every interleaving of up to MaxCalls requests (any epoch, any non-empty index subset,
   |Reqs| of them in flight at a time) with beacon fetches, reorgs, InvalidateCache, Trim and caller mutations at any
   point, over a truth table in which validators have none, one or two duties and a reorg changes both the
   contents and who has duties.

   Beacon-node failure: up to MaxFail beacon calls fail (FetchFail instead of Fetch, at any point the call could
   have been answered); the failing request returns an error and must leave no trace in the cache.

   Reduction (by hand, sound for the invariants checked): steps that only touch the request's / the maintenance
   call's own record are taken as soon as they are enabled (Return, Deliver, ReadGen right after Call, InvBump right
   after InvCall, InvRet / TrimRet right after the last critical section).  Delaying them instead only yields
   behaviours with the same cache evolution and a weaker obligation (an earlier Call / a later InvRet gives a lower
   floor; a later Return a higher upper version bound), see the comments at the actions.  Lookup, Fetch,
   StoreOrAmend, InvTrim, TrimStep -- the steps that read or write shared state -- interleave freely. *)
EXTENDS DutiesCache
CONSTANTS MaxCalls, MaxVer, MaxInv, MaxTrim, MaxFail
VARIABLE used        \* [calls, invs, trims, fails] spent so far
mcvars == <<vars, used>>
K1 == <<"sync">>
K2 == <<"prop", "sync">>
T(k, e, x, v, n) == [k |-> k, e |-> e, x |-> x, v |-> v, n |-> n]
\* epoch 1: validator 1 has no duty before the reorg and one after it, validator 2 has two duties in both versions;
\* epoch 2: validator 1 loses its duty in the reorg, validator 2 goes from two duties to one; validator 3 always one
TableA(k) == {T(k, 1, 2, 0, 2), T(k, 1, 3, 0, 1), T(k, 2, 1, 0, 1), T(k, 2, 2, 0, 2), T(k, 2, 3, 0, 1),
              T(k, 1, 1, 1, 1), T(k, 1, 2, 1, 2), T(k, 1, 3, 1, 1), T(k, 2, 2, 1, 1), T(k, 2, 3, 1, 1),
              T(k, 1, 1, 2, 1), T(k, 2, 1, 2, 2), T(k, 2, 3, 2, 1)}
MCAsg == UNION {TableA(k) : k \in KindSet}
MCInit == InitCache /\ asg = MCAsg /\ used = [calls |-> 0, invs |-> 0, trims |-> 0, fails |-> 0]
MaxE == CHOOSE e \in Epochs : \A f \in Epochs : f <= e
MinE == CHOOSE e \in Epochs : \A f \in Epochs : f >= e
Local == \/ \E r \in Reqs : Return(r) \/ ReturnErr(r) \/ Deliver(r) \/ ReadGen(r)
         \/ InvBump \/ InvRet \/ TrimRet
MCNext ==
  IF ENABLED Local THEN Local /\ UNCHANGED used
  ELSE
  \/ /\ used.calls < MaxCalls /\ used' = [used EXCEPT !.calls = @ + 1]
     /\ \E r \in Reqs, k \in KindSet, e \in Epochs, S \in (SUBSET Vals) \ {{}} : Call(r, k, e, S)
  \/ /\ UNCHANGED used
     /\ \/ \E r \in Reqs : Lookup(r) \/ Fetch(r) \/ StoreOrAmend(r)
        \/ \E e0 \in (Epochs \cup {MinE - 1}) \ {MaxE} : tv[MaxE] < MaxVer /\ Reorg(e0)
        \/ \E o \in outs : o \ dirty # {} /\ Mutate(o)
        \/ InvTrim \/ TrimStep
  \/ /\ used.fails < MaxFail /\ used' = [used EXCEPT !.fails = @ + 1]
     /\ \E r \in Reqs : FetchFail(r)
  \/ /\ used.invs < MaxInv /\ used' = [used EXCEPT !.invs = @ + 1]
     /\ \E e0 \in (Epochs \cup {MinE - 1}) \ {MaxE} : InvCall(e0)
  \/ /\ used.trims < MaxTrim /\ used' = [used EXCEPT !.trims = @ + 1]
     /\ \E ep \in {TrimThreshold - 1, MaxE + TrimThreshold} : TrimCall(ep)
MCSpec == MCInit /\ [][MCNext]_mcvars
\* `last` does not influence behaviour; two states that differ only in a `last` that satisfies the invariants
\* have the same future, so the fingerprint keeps only whether it does
LastOK == AnswerEqualsBN /\ FreshAfterInvalidate /\ PrivateCopies /\ NoPartialOnError
View == <<asg, tv, has, requested, cached, meta, gen, rq, mt, floor, nfetch, dirty, outs, LastOK, used>>
ReqSym == Permutations(Reqs)
====
