SPECIFICATION MCSpec
CONSTANTS n1 = n1
 n2 = n2
 n3 = n3
 n4 = n4
 Nodes = {n1, n2, n3, n4}
 Byz = {n4}
 NV = 1
 Cands = {"A", "B"}
 DecCands = {"A", "B"}
 ThrMinus = 0
 ExVerify = TRUE
 AggVerify = FALSE
 Agreement = TRUE
 MaxBad = 1
 MaxCrash = 1
 ByzClaims = "own"
 HonestBatches = "any"
INVARIANTS GroupValid
VIEW View
SYMMETRY Sym
CHECK_DEADLOCK FALSE
