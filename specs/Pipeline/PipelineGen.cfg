SPECIFICATION GenSpec
CONSTANTS Nodes = {1, 2, 3, 4}
 Byz = {4}
 NV = 1
 Cands = {"A", "B", "C"}
 ThrMinus = 0
 ExVerify = TRUE
 AggVerify = TRUE
 GenLen = 26
 MaxByzMsgs = 4
INVARIANTS Emit
CONSTRAINT Stop
CHECK_DEADLOCK FALSE
