---- MODULE PipelineMC ----
(* Exhaustive design check of the composition: every interleaving of decisions (agreeing, or -- Agreement = FALSE -- not
   even that: OneRoot rests on the DutyDB's uniqueness and the threshold arithmetic alone), conflicting re-stores,
   validator-client signing (any number of repeats, up to MaxBad defective clients), delivery of every exchange message
   to every peer in any order, any number of times or never, up to MaxCrash crashes at any point, and Byzantine shares
   that sign every candidate towards every node (different candidates to different nodes) under their own or any
   foreign share index, any number of times.
   No message/step budget is needed: repeats that change no store are stuttering steps of the VIEW (histories as
   sets/bags, the outbox as a set of entries, the last action's outputs hidden), and the stores only grow.
   Nodes are model values (symmetry over the honest ones). *)
EXTENDS Pipeline
CONSTANTS Agreement,    \* TRUE: the environment's decisions agree (C02/C03); FALSE: any honest node may decide anything
          MaxBad,       \* nodes whose validator client is defective
          MaxCrash,
          ByzClaims,    \* "own": Byzantine partials claim their own share; "any": also every foreign share index
          DecCands,     \* candidates consensus may hand to a node (a subset of Cands; Byzantine shares sign all of Cands)
          HonestBatches \* "any": a validator client signs any non-empty subset of the validators per call;
                        \* "all": always all of them (what keeps NV = 2 tractable: Byzantine batches stay arbitrary)
\* what C02/C03 establish: a node's decision equals every earlier honest decision (a call on a node that already holds
\* a value is the "conflicting re-store" the DutyDB must refuse)
AgreeOK(i, c) == Agreement => (stored[i] = "none" => decided \subseteq {c})
Claims(z) == IF ByzClaims = "own" THEN {z} ELSE Nodes
ByzBatches(z) == UNION {[S -> [cand : Cands, claim : Claims(z)]] : S \in SUBSET Vals \ {{}}}
BadNodes == {i \in Honest : \E v \in Vals : \E e \in psdb[i][v] : e.share = i /\ ~e.good}
MCNext ==
  \/ \E i \in Honest, c \in DecCands : AgreeOK(i, c) /\ Decide(i, c)
  \/ \E i \in Honest, vs \in (IF HonestBatches = "all" THEN {Vals} ELSE SUBSET Vals \ {{}}), good \in BOOLEAN :
       /\ ~good => (i \in BadNodes \/ Cardinality(BadNodes) < MaxBad)
       /\ VCSign(i, vs, good)
  \/ \E k \in DOMAIN outbox, to \in Honest : Deliver(k, to)
  \/ \E z \in Byz, to \in Honest : \E b \in ByzBatches(z) : ByzSign(z, to, b)
  \/ \E i \in Honest : Cardinality({j \in Honest : ~alive[j]}) < MaxCrash /\ Crash(i)
MCSpec == Init /\ [][MCNext]_vars
Bag(s) == LET S == {s[k] : k \in DOMAIN s} IN [e \in S |-> Cardinality({k \in DOMAIN s : s[k] = e})]
View == <<alive, stored, psdb, aggdb, {outbox[k] : k \in DOMAIN outbox}, Bag(fired), Bag(emitted), decided, signed>>
Sym == Permutations(Honest)
====
