SPECIFICATION MCSpec
CONSTANTS n1 = n1
 n2 = n2
 n3 = n3
 Nodes = {n1, n2, n3}
 Byz = {}
 NV = 2
 Cands = {"A", "B"}
 DecCands = {"A", "B"}
 ThrMinus = 0
 ExVerify = TRUE
 AggVerify = TRUE
 Agreement = TRUE
 MaxBad = 1
 MaxCrash = 0
 ByzClaims = "own"
 HonestBatches = "all"
INVARIANTS Safety
PROPERTIES StoredStable RejectKeeps
VIEW View
SYMMETRY Sym
CHECK_DEADLOCK FALSE
