SPECIFICATION TraceSpec
CONSTANTS Nodes = {1, 2, 3, 4}
 Byz = {4}
 NV = 2
 Cands = {"A", "B", "C"}
 ThrMinus = 0
 ExVerify = TRUE
 AggVerify = TRUE
CONSTRAINT Mark
ACTION_CONSTRAINT ActOK
POSTCONDITION Report
CHECK_DEADLOCK FALSE
