SPECIFICATION MCSpec
CONSTANTS n1 = n1
 n2 = n2
 n3 = n3
 n4 = n4
 Nodes = {n1, n2, n3, n4}
 Byz = {n4}
 NV = 2
 Cands = {"A", "B"}
 DecCands = {"A"}
 ThrMinus = 0
 ExVerify = TRUE
 AggVerify = TRUE
 Agreement = TRUE
 MaxBad = 0
 MaxCrash = 0
 ByzClaims = "own"
 HonestBatches = "all"
INVARIANTS Safety
PROPERTIES StoredStable RejectKeeps
VIEW View
SYMMETRY Sym
CHECK_DEADLOCK FALSE
