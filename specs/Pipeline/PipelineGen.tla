---- MODULE PipelineGen ----
(* Schedule generation: behaviours of the design spec; every action of Pipeline is a move of the ENVIRONMENT (consensus
   output, validator client, network, adversary, crash), so `hist` records all of them with their arguments -- and nothing of
   what the nodes answered.  Decisions agree (AgreeOK) except for the conflicting re-store on a node that already holds a
   value.  Run with -simulate; a behaviour is printed when it reaches GenLen steps. *)
EXTENDS Pipeline, Json
CONSTANTS GenLen, MaxByzMsgs
VARIABLE hist
AgreeOK(i, c) == stored[i] = "none" => decided \subseteq {c}
Count(e) == Cardinality({k \in DOMAIN hist : hist[k].ev = e})
GClaims(z) == {z, CHOOSE h \in Honest : TRUE}
GBatches(z) == UNION {[S -> [cand : Cands, claim : GClaims(z)]] : S \in SUBSET Vals \ {{}}}
BatchSeq(b) == LET s == Sorted(DOMAIN b) IN [k \in DOMAIN s |-> [v |-> s[k], c |-> b[s[k]].cand, claim |-> b[s[k]].claim]]
GenInit == Init /\ hist = <<>>
GenNext ==
  \/ \E i \in Honest, c \in {"A", "B"} :
       /\ AgreeOK(i, c) /\ (stored[i] # "none" => Len(hist) % 4 = 0)
       /\ Decide(i, c) /\ hist' = Append(hist, [ev |-> "Decide", i |-> i, c |-> c])
  \/ \E i \in Honest, vs \in SUBSET Vals \ {{}}, good \in BOOLEAN :
       /\ ~good => (Len(hist) % 5 = 0 /\ \A k \in DOMAIN hist : hist[k].ev = "VCSign" => hist[k].good)
       /\ (\A v \in vs : signed[i][v] # {}) => Len(hist) % 6 = 1          \* a repeat, now and then
       /\ VCSign(i, vs, good) /\ hist' = Append(hist, [ev |-> "VCSign", i |-> i, vs |-> Sorted(vs), good |-> good])
  \/ \E k \in DOMAIN outbox, to \in Honest :
       /\ (\E j \in DOMAIN hist : hist[j].ev = "Deliver" /\ hist[j].k = k /\ hist[j].to = to) => Len(hist) % 5 = 2
       /\ Deliver(k, to) /\ hist' = Append(hist, [ev |-> "Deliver", k |-> k, to |-> to])
  \/ \E z \in Byz, to \in Honest : \E b \in GBatches(z) :
       /\ Count("ByzSign") < MaxByzMsgs /\ Len(hist) % 2 = 0
       /\ ByzSign(z, to, b) /\ hist' = Append(hist, [ev |-> "ByzSign", b |-> z, to |-> to, batch |-> BatchSeq(b)])
  \/ \E i \in Honest : /\ Count("Crash") = 0 /\ Len(hist) % 7 = 3
                       /\ Crash(i) /\ hist' = Append(hist, [ev |-> "Crash", i |-> i])
GenSpec == GenInit /\ [][GenNext]_<<vars, hist>>
Emit == Len(hist) < GenLen \/ PrintT("@@SCHED@@" \o ToJson(hist))
Stop == Len(hist) <= GenLen
====
