---- MODULE Pipeline ----
(* The signing pipeline of a cluster as core.Wire (core/interfaces.go) composes it, one duty (attester) and NV validators:

      Consensus --Store--> DutyDB --AwaitAttestation--> VC --StoreInternal--> ParSigDB --Broadcast--> ParSigEx ~~> peers
      peers ~~> ParSigEx(verify) --StoreExternal--> ParSigDB --threshold--> SigAgg(aggregate, verify) --> AggSigDB, Broadcaster

   Every call chain of the composition is synchronous (Wire without the async-retry option), so ONE ACTION = ONE CALL INTO A
   NODE with everything it causes:
     Decide(i,c)        the consensus subscriber hands candidate c to node i's DutyDB.Store (core/dutydb/memory.go
                        storeAttestationUnsafe: first value wins, the same value again is accepted, another value is refused
                        with a clash error and changes nothing).  Consensus itself is ABSTRACT: which calls the environment
                        makes is constrained by the MC/Gen modules (AgreeOK = what C02/C03 establish), not here.
     VCSign(i,vs,good)  node i's validator client asks the DutyDB (AwaitAttestation) and signs WHAT IT SERVES for the validators
                        vs with share i, ParSigDB.StoreInternal = StoreExternal, then (only when that returned nil) the
                        internal subscriber = ParSigEx.Broadcast = one outbox entry.  good = FALSE is a defective local
                        client whose signature does not verify (the stub validator API of the executor does not check it:
                        this is what makes SigAgg's own verification observable inside the composition).
     Deliver(k,to)      outbox entry k reaches node `to` (any order, any number of times, never = loss):
                        core/parsigex/parsigex.go handle: EVERY entry is verified against the public share of the CLAIMED
                        share index, one failure drops the whole message; then ParSigDB.StoreExternal.
     ByzSign(z,to,b)    a Byzantine node's share z signs any candidate, claims any share index, sends it to any node
     Crash(i)           node i takes no further step (what it already sent stays in flight)

   ParSigDB.StoreExternal (core/parsigdb/memory.go, after pending_fixes/C07-*.diff): per validator of the batch: same
   share and same data = duplicate (ignored); same share, other data = refused (error, store untouched, REST OF THE BATCH
   STILL PROCESSED); else appended, and the trigger fires iff the root group OF THE PARTIAL JUST STORED now has exactly Thr
   members; the threshold subscriber (SigAgg.Aggregate) gets all groups that fired in this call: it aggregates, VERIFIES
   every aggregate against the group key and only then publishes: AggSigDB.Store (refuses other data for the key), then
   Broadcaster.Broadcast (= emission).  An error of the subscriber chain is returned by StoreExternal, so StoreInternal
   does not broadcast to the peers.

   Crypto abstraction (DESIGN.md section 3): a partial is [share, cand, good]; good = it verifies under the public share
   of `share` for candidate cand.  An aggregate of Thr partials with distinct shares over one candidate verifies under the
   group key iff all of them are good (C08).

   Switches for CONTROLS (all designs the invariants must exclude; trace validation uses 0/TRUE/TRUE):
     ThrMinus   subtracted from the threshold ceil(2N/3)
     ExVerify   FALSE: ParSigEx does not verify
     AggVerify  FALSE: SigAgg does not verify *)
EXTENDS Integers, Sequences, FiniteSets, TLC
CONSTANTS Nodes, Byz, NV, Cands, ThrMinus, ExVerify, AggVerify

N == Cardinality(Nodes)            \* share index = node (1..N in traces; model values under symmetry in MC)
Honest == Nodes \ Byz
Vals == 1..NV
F == (N - 1) \div 3
Thr == (2 * N + 2) \div 3 - ThrMinus          \* ceil(2N/3): cluster.Threshold

VARIABLES alive,      \* node -> BOOLEAN
          stored,     \* node -> "none" | candidate          (DutyDB)
          psdb,       \* node -> validator -> set of partials (ParSigDB)
          aggdb,      \* node -> validator -> NoAgg | [cand, ok] (AggSigDB)
          outbox,     \* sequence of [from, batch]: every ParSigEx.Broadcast of the cluster, in order
          fired,      \* history: sequence of [node, v, cand, shares] handed to SigAgg
          emitted,    \* history: sequence of [node, v, cand, ok] handed to the beacon node
          decided,    \* history: candidates some honest DutyDB accepted
          signed,     \* history: node -> validator -> candidates its validator client signed (soundly or not)
          res         \* outputs of the last action: [err, verr, emit, out]
vars == <<alive, stored, psdb, aggdb, outbox, fired, emitted, decided, signed, res>>

NoAgg == [cand |-> "none", ok |-> FALSE]
Res0 == [err |-> FALSE, verr |-> FALSE, emit |-> <<>>, out |-> 0]
RECURSIVE Sorted(_)
Sorted(S) == IF S = {} THEN <<>>
             ELSE LET m == CHOOSE x \in S : \A y \in S : x <= y IN <<m>> \o Sorted(S \ {m})

Init == /\ alive = [i \in Nodes |-> TRUE]
        /\ stored = [i \in Nodes |-> "none"]
        /\ psdb = [i \in Nodes |-> [v \in Vals |-> {}]]
        /\ aggdb = [i \in Nodes |-> [v \in Vals |-> NoAgg]]
        /\ outbox = <<>> /\ fired = <<>> /\ emitted = <<>> /\ decided = {}
        /\ signed = [i \in Nodes |-> [v \in Vals |-> {}]]
        /\ res = Res0

(* What ParSigDB.StoreExternal(batch b) does at node i, incl. the threshold subscriber chain. *)
StoreEffect(i, b) ==
  LET vs == DOMAIN b
      cur(v) == psdb[i][v]
      same(v) == {e \in cur(v) : e.share = b[v].share}
      mism(v) == same(v) # {} /\ b[v] \notin same(v)
      added(v) == same(v) = {}
      grp(v) == {e \in cur(v) \cup {b[v]} : e.cand = b[v].cand}
      FS == {v \in vs : added(v) /\ Cardinality(grp(v)) = Thr}
      good(v) == \A e \in grp(v) : e.good
      aggFail == AggVerify /\ \E v \in FS : ~good(v)
      ag(v) == [cand |-> b[v].cand, ok |-> good(v)]
      clash(v) == aggdb[i][v] # NoAgg /\ aggdb[i][v] # ag(v)
      pub == FS # {} /\ ~aggFail /\ ~\E v \in FS : clash(v)
      fs == Sorted(FS)
  IN [ps   |-> [v \in Vals |-> IF v \in vs /\ added(v) THEN cur(v) \cup {b[v]} ELSE cur(v)],
      \* (a refused AggSigDB entry stops Store at that validator; which others of the same call were already written
      \*  depends on Go map order -- only reachable in the control configurations, modelled as "all the others")
      ag   |-> [v \in Vals |-> IF v \in FS /\ ~aggFail /\ ~clash(v) THEN ag(v) ELSE aggdb[i][v]],
      fire |-> [k \in DOMAIN fs |-> [node |-> i, v |-> fs[k], cand |-> b[fs[k]].cand,
                                     shares |-> {e.share : e \in grp(fs[k])}]],
      emit |-> IF pub THEN [k \in DOMAIN fs |-> [node |-> i, v |-> fs[k], cand |-> b[fs[k]].cand, ok |-> good(fs[k])]]
               ELSE <<>>,
      err  |-> (\E v \in vs : mism(v)) \/ (FS # {} /\ ~pub)]

Apply(i, e) == /\ psdb' = [psdb EXCEPT ![i] = e.ps]
               /\ aggdb' = [aggdb EXCEPT ![i] = e.ag]
               /\ fired' = fired \o e.fire
               /\ emitted' = emitted \o e.emit

Decide(i, c) ==
  /\ i \in Honest /\ alive[i] /\ c \in Cands
  /\ LET clash == stored[i] \notin {"none", c} IN
       /\ stored' = IF stored[i] = "none" THEN [stored EXCEPT ![i] = c] ELSE stored
       /\ decided' = IF clash THEN decided ELSE decided \cup {c}
       /\ res' = [Res0 EXCEPT !.err = clash]
  /\ UNCHANGED <<alive, psdb, aggdb, outbox, fired, emitted, signed>>

VCSign(i, vs, good) ==
  /\ i \in Honest /\ alive[i] /\ stored[i] # "none" /\ vs # {} /\ vs \subseteq Vals
  /\ LET c == stored[i]
         b == [v \in vs |-> [share |-> i, cand |-> c, good |-> good]]
         e == StoreEffect(i, b)
     IN /\ Apply(i, e)
        /\ outbox' = IF e.err THEN outbox ELSE Append(outbox, [from |-> i, batch |-> b])
        /\ signed' = [signed EXCEPT ![i] = [v \in Vals |-> IF v \in vs THEN @[v] \cup {c} ELSE @[v]]]
        /\ res' = [err |-> e.err, verr |-> FALSE, emit |-> e.emit, out |-> IF e.err THEN 0 ELSE Len(outbox) + 1]
  /\ UNCHANGED <<alive, stored, decided>>

\* parsigex.handle at node `to` for a received batch
Receive(to, b) ==
  IF ExVerify /\ \E v \in DOMAIN b : ~b[v].good
    THEN /\ res' = [Res0 EXCEPT !.verr = TRUE]
         /\ UNCHANGED <<psdb, aggdb, fired, emitted>>
    ELSE LET e == StoreEffect(to, b) IN
         /\ Apply(to, e)
         /\ res' = [err |-> e.err, verr |-> FALSE, emit |-> e.emit, out |-> 0]

Deliver(k, to) ==
  /\ k \in DOMAIN outbox /\ to \in Honest /\ alive[to] /\ to # outbox[k].from
  /\ Receive(to, outbox[k].batch)
  /\ UNCHANGED <<alive, stored, outbox, decided, signed>>

\* b : validators -> [cand, claim]
ByzBatch(z, b) == [v \in DOMAIN b |-> [share |-> b[v].claim, cand |-> b[v].cand, good |-> b[v].claim = z]]
ByzSign(z, to, b) ==
  /\ z \in Byz /\ to \in Honest /\ alive[to] /\ DOMAIN b # {} /\ DOMAIN b \subseteq Vals
  /\ Receive(to, ByzBatch(z, b))
  /\ UNCHANGED <<alive, stored, outbox, decided, signed>>

Crash(i) == /\ i \in Honest /\ alive[i]
            /\ alive' = [alive EXCEPT ![i] = FALSE] /\ res' = Res0
            /\ UNCHANGED <<stored, psdb, aggdb, outbox, fired, emitted, decided, signed>>

---------------------------------------------------------------------------------------------------
(* Properties (C01). *)
Em == {emitted[k] : k \in DOMAIN emitted}
Fi == {fired[k] : k \in DOMAIN fired}
\* all fully signed objects for one validator carry the same signing root, from any node at any time
OneRoot == \A a, b \in Em : a.v = b.v => a.cand = b.cand
\* ... and verify under the group key
GroupValid == \A a \in Em : a.ok
\* a node hands a validator's object to the beacon node at most once
AtMostOncePerNode == \A j, k \in DOMAIN emitted : (emitted[j].node = emitted[k].node /\ emitted[j].v = emitted[k].v) => j = k
\* what is emitted was decided (when the Byzantine shares alone cannot reach the threshold)
OnlyDecided == Cardinality(Byz) < Thr => \A a \in Em : a.cand \in decided
\* the design argument: (1) an honest share signs one candidate, (2) a group handed to SigAgg has Thr distinct shares
\* and its honest members really signed that candidate, (3) two groups share an honest member
HonestSignsOne == \A i \in Honest, v \in Vals : Cardinality(signed[i][v]) <= 1
ThresholdBacked == \A f \in Fi : /\ Cardinality(f.shares) = Thr
                                 /\ ExVerify => \A s \in f.shares \ Byz : f.cand \in signed[s][f.v]
OverlapHonest == \A f, g \in Fi : f.v = g.v => (f.shares \cap g.shares) \ Byz # {}
FiredOnce == \A j, k \in DOMAIN fired : (fired[j].node = fired[k].node /\ fired[j].v = fired[k].v) => j = k
EmittedWasFired == \A a \in Em : \E f \in Fi : f.node = a.node /\ f.v = a.v /\ f.cand = a.cand
\* no lost trigger: a group that holds Thr matching partials was handed to SigAgg
NoLostTrigger == \A i \in Honest, v \in Vals, c \in Cands :
                   Cardinality({e \in psdb[i][v] : e.cand = c}) >= Thr => \E f \in Fi : f.node = i /\ f.v = v /\ f.cand = c
OneSharePerKey == \A i \in Honest, v \in Vals : \A e1, e2 \in psdb[i][v] : e1.share = e2.share => e1 = e2
\* the exchange lets only partials in that verify for the claimed share (a defective LOCAL client's own partial excepted)
OnlyGoodFromPeers == ExVerify => \A i \in Honest, v \in Vals : \A e \in psdb[i][v] : e.good \/ e.share = i
TypeOK == /\ \A i \in Nodes : stored[i] \in Cands \cup {"none"}
          /\ \A k \in DOMAIN outbox : outbox[k].from \in Honest
Safety == /\ OneRoot /\ GroupValid /\ AtMostOncePerNode /\ OnlyDecided /\ HonestSignsOne /\ ThresholdBacked
          /\ OverlapHonest /\ FiredOnce /\ EmittedWasFired /\ NoLostTrigger /\ OneSharePerKey /\ OnlyGoodFromPeers /\ TypeOK
\* the arithmetic the argument rests on
ASSUME ThrMinus = 0 => (2 * Thr - N >= F + 1 /\ Thr <= N - F)

\* action properties: the DutyDB never replaces what it serves; a refused or rejected input changes no store
StoredStableA == \A i \in Nodes : stored[i] # "none" => stored'[i] = stored[i]
RejectKeepsA == res'.verr => (psdb' = psdb /\ aggdb' = aggdb /\ emitted' = emitted /\ fired' = fired)
StoredStable == [][StoredStableA]_vars
RejectKeeps == [][RejectKeepsA]_vars
====
