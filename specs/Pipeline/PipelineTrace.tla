---- MODULE PipelineTrace ----
(* Trace validation for the composed pipeline (harness/c01).  One event per driver action, written after the call into
   the node has returned (every call chain of the composition is synchronous), with everything the call caused:
     {"ev":"Reset","sid":k,"n":N,"t":threshold the executor configured (cluster.Threshold),"byz":[..],"nv":NV,..}
     {"ev":"Decide","i":node,"c":cand,"by":"driver"|"qbft","err":b}             DutyDB.Store through the consensus subscriber
     {"ev":"VCSign","i":node,"vs":[v..],"blocked":TRUE}                           nothing was ever stored: the query would block
     {"ev":"VCSign","i":node,"vs":[v..],"good":b,"blocked":FALSE,"signed":[cand the DutyDB served, per v],
                    "err":b,"out":[outbox ids added],"emit":[{"v","c","ok"}..]}
     {"ev":"Deliver","k":outbox id,"to":node,"verr":b (exchange verification refused the message),"err":b (subscriber
                    chain returned an error),"out":[..],"emit":[..]}
     {"ev":"ByzSign","b":z,"to":node,"batch":[{"v","c","claim"}..],"verr":b,"err":b,"out":[..],"emit":[..]}
     {"ev":"Crash","i":node}
   emit lists what the node's Broadcaster was handed during the call, in call order (validators ascending inside one
   Broadcast): candidate by message root, ok = the signature verifies under the validator's GROUP key.
   No silent steps: the trace specification is deterministic. *)
EXTENDS Pipeline, TraceCommon
tvars == <<vars, tr, l>>
TraceInit == Init /\ TrInit
EmitOf(s) == [k \in DOMAIN s |-> [v |-> s[k].v, c |-> s[k].cand, ok |-> s[k].ok]]
OutOf(o) == IF o = 0 THEN <<>> ELSE <<o>>
Outputs == /\ Ev.err = res'.err /\ Ev.emit = EmitOf(res'.emit) /\ Ev.out = OutOf(res'.out)
TReset == /\ IsEvent("Reset") /\ UNCHANGED vars
          /\ Ev.n = N /\ Ev.t = Thr /\ SeqToSet(Ev.byz) = Byz /\ Ev.nv = NV
\* a decision produced by the real consensus component inside the composition (by = "qbft") is an output of the system: it
\* must agree with every earlier decision; a decision scripted by the driver (by = "driver") is an environment move
TDecide == /\ IsEvent("Decide") /\ Decide(Ev.i, Ev.c) /\ Ev.err = res'.err
           /\ Ev.by = "qbft" => (decided \subseteq {Ev.c} /\ ~Ev.err)
TVCSign == /\ IsEvent("VCSign")
           /\ IF Ev.blocked
                THEN Ev.i \in Honest /\ alive[Ev.i] /\ stored[Ev.i] = "none" /\ UNCHANGED vars
                ELSE /\ Len(Ev.vs) = Cardinality(SeqToSet(Ev.vs))
                     /\ VCSign(Ev.i, SeqToSet(Ev.vs), Ev.good)
                     /\ Len(Ev.signed) = Len(Ev.vs) /\ \A k \in DOMAIN Ev.signed : Ev.signed[k] = stored[Ev.i]
                     /\ Outputs
TDeliver == /\ IsEvent("Deliver") /\ Deliver(Ev.k, Ev.to) /\ Ev.verr = res'.verr /\ Outputs
BatchOf(s) == [v \in {s[k].v : k \in DOMAIN s} |->
                 LET e == s[CHOOSE k \in DOMAIN s : s[k].v = v] IN [cand |-> e.c, claim |-> e.claim]]
TByzSign == /\ IsEvent("ByzSign")
            /\ Len(Ev.batch) = Cardinality({Ev.batch[k].v : k \in DOMAIN Ev.batch})
            /\ \A k \in DOMAIN Ev.batch : Ev.batch[k].c \in Cands /\ Ev.batch[k].claim \in Nodes
            /\ ByzSign(Ev.b, Ev.to, BatchOf(Ev.batch)) /\ Ev.verr = res'.verr /\ Outputs
TCrash == IsEvent("Crash") /\ Crash(Ev.i)
TraceNext == TReset \/ TDecide \/ TVCSign \/ TDeliver \/ TByzSign \/ TCrash
TraceSpec == TraceInit /\ [][TraceNext]_tvars
Mark == /\ CheckInv("OneRoot", OneRoot) /\ CheckInv("GroupValid", GroupValid)
        /\ CheckInv("AtMostOncePerNode", AtMostOncePerNode) /\ CheckInv("OnlyDecided", OnlyDecided)
        /\ CheckInv("HonestSignsOne", HonestSignsOne) /\ CheckInv("ThresholdBacked", ThresholdBacked)
        /\ CheckInv("OverlapHonest", OverlapHonest) /\ CheckInv("FiredOnce", FiredOnce)
        /\ CheckInv("EmittedWasFired", EmittedWasFired) /\ CheckInv("NoLostTrigger", NoLostTrigger)
        /\ CheckInv("OneSharePerKey", OneSharePerKey) /\ CheckInv("OnlyGoodFromPeers", OnlyGoodFromPeers)
        /\ CheckInv("TypeOK", TypeOK)
ActOK == /\ CheckInv("StoredStable", StoredStableA) /\ CheckInv("RejectKeeps", RejectKeepsA)
         /\ HWMarkA
====
