SPECIFICATION MCSpec
CONSTANTS n1 = n1
 n2 = n2
 n3 = n3
 n4 = n4
 n5 = n5
 Nodes = {n1, n2, n3, n4, n5}
 Byz = {n5}
 NV = 1
 Cands = {"A", "B"}
 DecCands = {"A"}
 ThrMinus = 0
 ExVerify = TRUE
 AggVerify = TRUE
 Agreement = TRUE
 MaxBad = 0
 MaxCrash = 0
 ByzClaims = "own"
 HonestBatches = "any"
INVARIANTS Safety
PROPERTIES StoredStable RejectKeeps
VIEW View
SYMMETRY Sym
CHECK_DEADLOCK FALSE
