SPECIFICATION FairSpec
CONSTANTS
 N = 3
 T = 2
 NV = 1
 Cmds = {1, 2, 3, 4, 5}
 DupLastWins = TRUE
 Defect = "noAdopt"
 Honest = {1, 2}
 Args <- ArgsLive
 ByzPosts <- ByzNone
 MaxByz = 0
 Faults <- FApi
 MaxFault = 1
 Tampers <- TNone
 MaxTamper = 0
 Plants <- PNone
 MaxPlant = 0
 Ticks <- TkNone
 MaxTick = 0
 Nodes = {1}
 NodeApiOn = TRUE
 NodeWatch = TRUE
 MaxNode = 1
 Policy = "live"
PROPERTIES Applied Terminates
CHECK_DEADLOCK FALSE
