SPECIFICATION MCSpec
CONSTANTS
 N = 4
 T = 3
 NV = 1
 Cmds = {1, 2, 3, 4}
 DupLastWins = TRUE
 Defect = "none"
 Honest = {1, 2, 3}
 Args <- ArgsOne
 ByzPosts <- ByzNone
 MaxByz = 0
 Faults <- FNone
 MaxFault = 0
 Tampers <- TNone
 MaxTamper = 0
 Plants <- PNone
 MaxPlant = 0
 Ticks <- TkNone
 MaxTick = 0
 Nodes = {1}
 NodeApiOn = TRUE
 NodeWatch = TRUE
 MaxNode = 1
 Policy = "free"
INVARIANTS Safety ViewNewestButD1 TimerSane
PROPERTIES MCFetchWritesGoodButD1 MCFileStable MCNodeKeeps MCSignJoins
VIEW View
CHECK_DEADLOCK FALSE
