SPECIFICATION MCSpec
CONSTANTS
 N = 3
 T = 2
 NV = 1
 Cmds = {1, 2, 3}
 DupLastWins = TRUE
 Defect = "none"
 Honest = {1, 2}
 Args <- ArgsBad
 ByzPosts <- ByzNone
 MaxByz = 0
 Faults <- FNone
 MaxFault = 0
 Tampers <- TNone
 MaxTamper = 0
 Plants <- PSome
 MaxPlant = 1
 Ticks <- TkNone
 MaxTick = 0
 Nodes = {}
 NodeApiOn = TRUE
 NodeWatch = TRUE
 MaxNode = 0
 Policy = "free"
INVARIANTS Safety ViewNewestButD1 TimerSane
PROPERTIES MCFetchWritesGoodButD1 MCFileStable MCNodeKeeps MCSignJoins
VIEW View
CHECK_DEADLOCK FALSE
