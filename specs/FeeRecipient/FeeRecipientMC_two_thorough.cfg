SPECIFICATION MCSpec
CONSTANTS
 N = 3
 T = 2
 NV = 2
 Cmds = {1, 2, 3}
 DupLastWins = TRUE
 Defect = "none"
 Honest = {1, 2}
 Args <- ArgsTwo
 ByzPosts <- ByzNone
 MaxByz = 0
 Faults <- FApi
 MaxFault = 1
 Tampers <- TAll
 MaxTamper = 1
 Plants <- PTwo
 MaxPlant = 1
 Ticks <- TkNone
 MaxTick = 0
 Nodes = {1}
 NodeApiOn = TRUE
 NodeWatch = TRUE
 MaxNode = 1
 Policy = "free"
INVARIANTS Safety ViewNewestButD1 TimerSane
PROPERTIES MCFetchWritesGoodButD1 MCFileStable MCNodeKeeps MCSignJoins
VIEW View
CHECK_DEADLOCK FALSE
