SPECIFICATION MCSpec
CONSTANTS
 N = 3
 T = 2
 NV = 1
 Cmds = {1, 2, 3}
 DupLastWins = TRUE
 Defect = "none"
 Honest = {1, 2}
 Args <- ArgsNow
 ByzPosts <- ByzNone
 MaxByz = 0
 Faults <- FNone
 MaxFault = 0
 Tampers <- TNone
 MaxTamper = 0
 Plants <- PNone
 MaxPlant = 0
 Ticks <- TkHour
 MaxTick = 1
 Nodes = {1}
 NodeApiOn = TRUE
 NodeWatch = FALSE
 MaxNode = 1
 Policy = "free"
INVARIANTS Safety ViewNewestButD1 TimerSane
PROPERTIES MCFetchWritesGoodButD1 MCFileStable MCNodeKeeps MCSignJoins
VIEW View
CHECK_DEADLOCK FALSE
