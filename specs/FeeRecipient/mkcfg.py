#!/usr/bin/env python3
"""Writes the FeeRecipientMC_*.cfg and FeeRecipientGen_*.cfg files of this directory (run it here after changing a bound)."""
OV = {"Args", "ByzPosts", "Faults", "Tampers", "Plants", "Ticks"}
BASE = dict(N=3, T=2, NV=1, Cmds="{1, 2, 3}", DupLastWins="TRUE", Defect='"none"', Honest="{1, 2}", Args="ArgsCore", ByzPosts="ByzNone",
            MaxByz=0, Faults="FApi", MaxFault=1, Tampers="TAll", MaxTamper=1, Plants="PNone", MaxPlant=0, Ticks="TkNone", MaxTick=0,
            Nodes="{1}", NodeApiOn="TRUE", NodeWatch="TRUE", MaxNode=1, Policy='"free"')
INV = "Safety ViewNewestButD1 TimerSane"            # as coded: D1 is in
PROPS = "MCFetchWritesGoodButD1 MCFileStable MCNodeKeeps MCSignJoins"
INV_STRICT = "Safety ViewNewest TimerSane"
PROPS_STRICT = "MCFetchWritesGood MCFileStable MCNodeKeeps MCSignJoins"


def mc(name, inv=INV, props=PROPS, spec="MCSpec", view=True, **kw):
    d = dict(BASE)
    d.update(kw)
    out = ["SPECIFICATION " + spec, "CONSTANTS"] + [" %s %s %s" % (k, "<-" if k in OV else "=", v) for k, v in d.items()]
    if inv:
        out.append("INVARIANTS " + inv)
    if props:
        out.append("PROPERTIES " + props)
    if view:
        out.append("VIEW View")
    out.append("CHECK_DEADLOCK FALSE")
    open("FeeRecipientMC_%s.cfg" % name, "w").write("\n".join(out) + "\n")


NOTAMP = dict(Tampers="TNone", MaxTamper=0)
NOFAULT = dict(Faults="FNone", MaxFault=0)
NONODE = dict(Nodes="{}", MaxNode=0)
mc("core", Tampers="TSig")
mc("twofr", Args="ArgsTwoFr", Tampers="TGroups")
mc("byz", Args="ArgsByz", ByzPosts="Byz3", MaxByz=1, Tampers="TSig", Nodes="{}", MaxNode=0, **NOFAULT)
mc("now", Args="ArgsNow", Ticks="TkHour", MaxTick=1, NodeWatch="FALSE", **NOTAMP, **NOFAULT)
mc("gas", Args="ArgsGas", Plants="PSome", MaxPlant=1, **NOTAMP, **NOFAULT, **NONODE)
mc("two", NV=2, Args="ArgsTwo", Plants="PTwo", MaxPlant=1, **NOTAMP, **NOFAULT)
mc("bad", Args="ArgsBad", Plants="PSome", MaxPlant=1, **NOTAMP, **NOFAULT, **NONODE)
mc("list", Args="ArgsList", Plants="PSome", MaxPlant=1, **NOTAMP, **NOFAULT, **NONODE)
mc("plant", Args="ArgsFetch", Plants="PSomeOld", MaxPlant=2, MaxNode=3, Cmds="{1, 2}", ByzPosts="Byz3", **NOTAMP)
mc("timer", Args="ArgsFetch", Cmds="{1}", Ticks="TkHour", MaxTick=3, NodeWatch="FALSE", MaxNode=2, ByzPosts="Byz3", MaxByz=2, Tampers="TGroups", MaxFault=2)
mc("strict", inv=INV_STRICT, props=PROPS_STRICT, DupLastWins="FALSE", Args="ArgsFetch", Plants="PDup", MaxPlant=2, MaxNode=2, Cmds="{1, 2}", Tampers="TGroups")
mc("four", N=4, T=3, Honest="{1, 2, 3}", Cmds="{1, 2, 3, 4}", Args="ArgsOne", **NOTAMP, **NOFAULT)
mc("core_thorough", Cmds="{1, 2, 3, 4}", Tampers="TSig")
mc("strict_api", inv=INV_STRICT, props=PROPS_STRICT, DupLastWins="FALSE", Args="ArgsTwoFr", Cmds="{1, 2, 3, 4}", Tampers="TGroups", **NOFAULT)
mc("bad_thorough", Args="ArgsBad", Plants="PSome", MaxPlant=1, **NOTAMP, **NONODE)
mc("list_thorough", Args="ArgsList", Plants="PSome", MaxPlant=1, Tampers="TGroups", **NOFAULT, **NONODE)
mc("timer_thorough", Args="ArgsFetch", Cmds="{1}", Ticks="TkHour", MaxTick=4, NodeWatch="FALSE", MaxNode=2, ByzPosts="Byz3", MaxByz=2, Tampers="TGroups", MaxFault=2)
mc("twofr_thorough", Args="ArgsTwoFr", Tampers="TGroups", Cmds="{1, 2, 3, 4}", **NOFAULT)
mc("byz_thorough", Args="ArgsTwoFr", ByzPosts="Byz3", MaxByz=2, Tampers="TSig", **NOFAULT)
mc("two_thorough", NV=2, Args="ArgsTwo", Tampers="TAll", Plants="PTwo", MaxPlant=1)
mc("now_thorough", Args="ArgsNow", Ticks="TkHour", MaxTick=2, NodeWatch="FALSE", Tampers="TGroups", **NOFAULT)
mc("gas_thorough", Args="ArgsGas", Plants="PSome", MaxPlant=1, **NOTAMP, **NOFAULT)
mc("four_thorough", N=4, T=3, Honest="{1, 2, 3}", Cmds="{1, 2, 3, 4}", Args="ArgsCore", Tampers="TSig", **NOFAULT)
mc("strict_thorough", inv=INV_STRICT, props=PROPS_STRICT, DupLastWins="FALSE", Args="ArgsCore", Plants="PDup", MaxPlant=2, MaxNode=2, Tampers="TGroups")
LIVE = dict(inv="", props="Applied Terminates", spec="FairSpec", view=False, Policy='"live"', Args="ArgsLive", Faults="FApi", MaxFault=1,
            Cmds="{1, 2, 3, 4, 5}", **NOTAMP)
mc("live", **LIVE)
# controls: each MUST be reported violated
mc("ctl_noApiVerify", inv="HeldValid", props="", Defect='"noApiVerify"', Tampers="TSig")
mc("ctl_noFetchVerify", inv="", props="MCFetchWritesGood", Defect='"noFetchVerify"', Tampers="TSig", **NONODE)
mc("ctl_aggShort", inv="Unforgeable", props="", Defect='"aggShort"', Tampers="TSig", **NONODE)
mc("ctl_staleWins", inv="", props="MCFetchWritesGood", Defect='"staleWins"', Plants="PSome", MaxPlant=1, **NOTAMP, **NOFAULT, **NONODE)
mc("ctl_noAdopt", inv="", props="MCSignJoins", Defect='"noAdopt"', **NOTAMP, **NONODE)
mc("ctl_noValidateTs", inv="", props="MCSignJoins", Defect='"noValidateTs"', Args="ArgsBad", **NOTAMP, **NONODE)
mc("ctl_applyOlder", inv="ViewSound", props="", Defect='"applyOlder"', Args="ArgsFetch", Cmds="{1}", Plants="POld", MaxPlant=1, **NOTAMP)
mc("ctl_D1_view", inv="ViewNewest", props="", Args="ArgsFetch", Plants="PDup", MaxPlant=1, Cmds="{1}", **NOTAMP)
mc("ctl_D1_api", inv="ViewNewest", props="", Args="ArgsTwoFrOnly", Cmds="{1, 2, 3, 4}", Tampers="TDesc", **NOFAULT)
mc("ctl_D1_file", inv="", props="MCFetchWritesGood", Args="ArgsCore", Plants="PDup", MaxPlant=1, **NOTAMP, **NONODE)
mc("ctl_live_noAdopt", **dict(LIVE, Defect='"noAdopt"'))

GBASE = dict(BASE, N=4, T=3, Cmds="{1, 2, 3, 4, 5, 6, 7, 8}", Honest="{1, 2, 3}", Faults="FCodes", MaxFault=2, MaxTamper=2, Nodes="{1, 2}", MaxNode=3,
             GenLen=20)


def gen(name, **kw):
    d = dict(GBASE)
    d.update(kw)
    out = ["SPECIFICATION GenSpec", "CONSTANTS"] + [" %s %s %s" % (k, "<-" if k in OV else "=", v) for k, v in d.items()]
    out += ["INVARIANTS Emit", "CONSTRAINT Stop", "CHECK_DEADLOCK FALSE"]
    open("FeeRecipientGen_%s.cfg" % name, "w").write("\n".join(out) + "\n")


gen("core")
gen("small", N=3, T=2, Honest="{1, 2}", Args="ArgsTwoFr", ByzPosts="Byz3", MaxByz=2, GenLen=16)
gen("two", NV=2, Args="ArgsTwo", Plants="PTwo", MaxPlant=2, GenLen=22)
gen("gas", N=3, T=2, Honest="{1, 2, 3}", Args="ArgsGas", Plants="PSome", MaxPlant=2)
gen("now", N=3, T=2, Honest="{1, 2, 3}", Args="ArgsNow", Ticks="TkHour", MaxTick=4, NodeWatch="FALSE", GenLen=22)
gen("list", N=3, T=2, Honest="{1, 2, 3}", Args="ArgsList", Plants="PSome", MaxPlant=1, MaxNode=0)
gen("dup", N=3, T=2, Honest="{1, 2}", Args="ArgsCore", Plants="PDup", MaxPlant=2, GenLen=16)
