SPECIFICATION MCSpec
CONSTANTS
 N = 3
 T = 2
 NV = 1
 Cmds = {1}
 DupLastWins = TRUE
 Defect = "none"
 Honest = {1, 2}
 Args <- ArgsFetch
 ByzPosts <- Byz3
 MaxByz = 2
 Faults <- FApi
 MaxFault = 2
 Tampers <- TGroups
 MaxTamper = 1
 Plants <- PNone
 MaxPlant = 0
 Ticks <- TkHour
 MaxTick = 3
 Nodes = {1}
 NodeApiOn = TRUE
 NodeWatch = FALSE
 MaxNode = 2
 Policy = "free"
INVARIANTS Safety ViewNewestButD1 TimerSane
PROPERTIES MCFetchWritesGoodButD1 MCFileStable MCNodeKeeps MCSignJoins
VIEW View
CHECK_DEADLOCK FALSE
