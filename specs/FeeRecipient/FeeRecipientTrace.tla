---- MODULE FeeRecipientTrace ----
(* Trace validation for the fee-recipient flow.  harness/feerecipient runs the real CLI commands (`charon feerecipient sign |
   fetch | list`) and the real builderRegistrationService against an in-process API front (testutil/obolapimock behind a
   gate); every request of a command or of a node is stopped at the gate and let through one at a time, so the log is the
   linearisation.  Events (all in the abstract terms of FeeRecipient.tla, computed by observation functions that do not
   use the code under test):

     Reset  {sid, mode, n, t, nv}                                cluster shape; mode "A" real time + fsnotify, "B" virtual time
     Tick   {d}                                                  (mode B) the clock advances by d seconds
     Start  {c, op, kind, vs, fr, gl, ts}                        an operator's command line
     Api    {who: "cmd", op, kind: "fetch" | "post", lock, filter | share, parts, f, status, code, body, resp}
            {who: "node", op, kind: "fetch", lock, filter, f, code, body, resp, at}      at: (mode B) when the request was made
            {who: "byz", share, lock, parts, status}             a direct post
     Done   {c, ok, err, file, printed, panic}                   the command returned (panic: it crashed); the operator's overrides file afterwards
     Plant  {op, file, shares}                                   an overrides file appears in an operator's directory
     Node   {op, act: "start", api, watch, ok} | {op, act: "stop"}
     Reload {op}                                                 (mode A) the node has processed a file event
     View   {op, view}                                           what Registrations() / FeeRecipient() of the node answer now
     End                                                         every command has returned

   Start, Tick, Plant, direct posts, faults, the delivered answers, node starts and stops are the environment's;
   everything else is bound to the design spec: the request must be the one the command has to make in the state the
   spec is in, the result, the file and the node's answers must be the spec's.  There is no unlogged choice: validation is
   linear. *)
EXTENDS FeeRecipient, TraceCommon
CONSTANT AllowPanic      \* deviation D2, as coded: `sign` panics on an answer whose groups carry no message (the contract: it fails)
tvars == <<vars, tr, l>>
Cfg == Traces[tr][1]
TraceInit == TrInit /\ Init

Named(name, p) == IF p THEN TRUE ELSE InvFail(name)
Running(o) == {c \in Cmds : cmd[c].op = o /\ cmd[c].pc \notin {"idle", "done", "fin"}}
TheCmd(o) == CHOOSE c \in Running(o) : TRUE

MsgOf(m) == Msg(m.v, m.fr, m.gl, m.ts)
RegOf(r) == [m |-> MsgOf(r.m), by |-> r.by]
SigOf(s) == [idx |-> s.idx, sv |-> s.sv, sk |-> s.sk, m |-> MsgOf(s.m)]
GroupOfJ(g) == [m |-> MsgOf(g.m), sigs |-> [j \in DOMAIN g.sigs |-> SigOf(g.sigs[j])], q |-> g.q]
RespOf(e) == IF Has(e, "resp") THEN [j \in DOMAIN e.resp |-> [v |-> e.resp[j].v, groups |-> [h \in DOMAIN e.resp[j].groups |-> GroupOfJ(e.resp[j].groups[h])]]] ELSE <<>>
PartsOf(e) == [j \in DOMAIN e.parts |-> [sv |-> e.parts[j].sv, sk |-> e.parts[j].sk, m |-> MsgOf(e.parts[j].m)]]
FileOf(f) == [st |-> f.st, regs |-> [j \in DOMAIN f.regs |-> RegOf(f.regs[j])]]
ArgOf(e) == [kind |-> e.kind, vs |-> e.vs, fr |-> e.fr, gl |-> e.gl, ts |-> e.ts]
\* what the client makes of the answer: 2xx is a response; 404 "no partial registrations found" is an empty one
Usable(e) == e.f = "none" /\ (e.code \in 200..299 \/ (e.code = 404 /\ e.body = "nopart"))
Delivered(e) == IF Usable(e) /\ e.code \in 200..299 THEN RespOf(e) ELSE <<>>

TReset == IsEvent("Reset") /\ l = 1 /\ UNCHANGED vars
TTick == IsEvent("Tick") /\ Tick(Ev.d)
TStart == IsEvent("Start") /\ Ev.c \in Cmds /\ Start(Ev.c, Ev.op, ArgOf(Ev))

\* a request of an operator's command
TApiCmd == /\ IsEvent("Api") /\ Ev.who = "cmd"
           /\ Named("UnexpectedRequest", Running(Ev.op) # {})
           /\ LET c == TheCmd(Ev.op)
                  want == ApiReq(c) IN
              /\ Named("ReqKind", Ev.kind = want.kind)
              /\ Named("ReqLock", Ev.lock)
              /\ IF want.kind = "post"
                   THEN /\ Named("ReqShareIndex", Ev.share = want.share)
                        /\ Named("ReqParts", PartsOf(Ev) = want.parts)
                        /\ Named("PostStatus", Ev.f = "pre" \/ Ev.status = ApiPost(store, want).status)
                   ELSE Named("ReqFilter", Ev.filter = want.filter)
              /\ ApiStep(c, Ev.f, Ev.code, Usable(Ev), Delivered(Ev))
\* a fetch of a node's Run loop
TApiNode == /\ IsEvent("Api") /\ Ev.who = "node"
            /\ Named("UnexpectedFetch", node[Ev.op].up /\ node[Ev.op].pend)
            /\ Named("NodeReqLock", Ev.lock)
            /\ Named("NodeReqFilter", Ev.filter = <<>>)
            /\ Named("FetchDue", Cfg.mode = "A" \/ Ev.at = node[Ev.op].due)
            /\ NodeApi(Ev.op, Usable(Ev), Delivered(Ev))
\* a direct post
TApiByz == /\ IsEvent("Api") /\ Ev.who = "byz"
           /\ LET q == [kind |-> "post", lock |-> Ev.lock, share |-> Ev.share, parts |-> PartsOf(Ev), filter |-> <<>>] IN
              /\ Named("ByzStatus", Ev.status = ApiPost(store, q).status)
              /\ Byz(q)

PrintedOf(e) == {[v |-> e.printed[j].v, fr |-> e.printed[j].fr, gl |-> e.printed[j].gl, ts |-> e.printed[j].ts, lock |-> e.printed[j].lock,
                  ovr |-> e.printed[j].ovr, remote |-> e.printed[j].remote] : j \in DOMAIN e.printed}
SameFile(obs, f) == obs.st = f.st /\ (f.st = "ok" => (Len(obs.regs) = Len(f.regs) /\ Range(obs.regs) = Range(f.regs)))
TDone == /\ IsEvent("Done") /\ Ev.c \in Cmds
         /\ Named("EarlyReturn", cmd[Ev.c].pc = "fin")
         /\ Named("Panic", AllowPanic \/ ~Has(Ev, "panic"))
         /\ Named("Result", Ev.ok = cmd[Ev.c].ok)
         /\ Named("File", SameFile(FileOf(Ev.file), file[cmd[Ev.c].op]))
         /\ Named("Printed", (cmd[Ev.c].kind = "list" /\ cmd[Ev.c].ok) => (PrintedOf(Ev) = cmd[Ev.c].out /\ Len(Ev.printed) = Cardinality(cmd[Ev.c].out)))
         /\ Finish(Ev.c)
TPlant == /\ IsEvent("Plant")
          /\ LET f == FileOf(Ev.file)
                 S == [j \in DOMAIN f.regs |-> SeqToSet(Ev.shares[j])] IN
             /\ Named("PlantedEntry", \A j \in DOMAIN f.regs : S[j] = {} \/ f.regs[j].by = PlantBy(f.regs[j].m, S[j]))
             /\ Plant(Ev.op, f, S)
TNodeStart == /\ IsEvent("Node") /\ Ev.act = "start"
              /\ Named("NodeAlreadyUp", ~node[Ev.op].up)
              /\ NodeStart(Ev.op, Ev.api, Ev.watch)
              /\ Named("NodeStarted", Ev.ok = node'[Ev.op].up)
TNodeStop == IsEvent("Node") /\ Ev.act = "stop" /\ NodeStop(Ev.op)
TReload == /\ IsEvent("Reload")
           /\ Named("UnexpectedReload", node[Ev.op].up /\ node[Ev.op].watch /\ ~node[Ev.op].pend)
           /\ NodeReload(Ev.op)
ViewOf(e) == [v \in DOMAIN e.view |-> [m |-> MsgOf(e.view[v].m), by |-> e.view[v].by, fr |-> e.view[v].fr]]
TView == /\ IsEvent("View") /\ UNCHANGED vars
         /\ Named("ViewOfDownNode", node[Ev.op].up)
         /\ Named("View", ViewOf(Ev) = NodeView(Ev.op))
TEnd == /\ IsEvent("End") /\ UNCHANGED vars
        /\ Named("AllReturned", \A c \in Cmds : cmd[c].pc \in {"idle", "done"})

TraceNext == TReset \/ TTick \/ TStart \/ TApiCmd \/ TApiNode \/ TApiByz \/ TDone \/ TPlant \/ TNodeStart \/ TNodeStop \/ TReload \/ TView \/ TEnd
TraceSpec == TraceInit /\ [][TraceNext]_tvars
Mark == /\ CheckInv("TypeOK", TypeOK) /\ CheckInv("StoreAuthentic", StoreAuthentic) /\ CheckInv("Unforgeable", Unforgeable)
        /\ CheckInv("ViewSound", ViewSound) /\ CheckInv("HeldValid", HeldValid)
        /\ CheckInv("ViewNewest", ViewNewestButD1)
ActOK == /\ CheckInv("FetchWritesGood", FetchWritesGoodButD1A) /\ CheckInv("FileStable", FileStableA)
         /\ CheckInv("NodeKeeps", NodeKeepsA) /\ CheckInv("SignJoins", SignJoinsA)
         /\ HWMarkA
====
