---- MODULE FeeRecipient ----
(* The fee-recipient / builder-registration override flow, end to end: the operators' commands `charon feerecipient
   sign | fetch | list` (cmd/feerecipientsign.go, feerecipientfetch.go, feerecipientlist.go), the Obol API client
   (app/obolapi/feerecipient.go: PostPartialFeeRecipients, PostFeeRecipientsFetch) and the node side
   (app/builderregistration.go: ProcessValidators / AggregatePartialSignatures, Load- and MergeBuilderRegistrationOverrides,
   the builderRegistrationService with its Run loop: file reload, API fetch on a timer, recompute).

   Cryptography is abstract.  A MESSAGE is [v, fr, gl, ts]: the validator whose public key is in the message (1..NV: a
   validator of the lock, 0: a foreign validator with a key of its own, -1: a key nobody has), the fee recipient (0: the
   address the lock gives that validator, 1..3: three other addresses), the gas limit (1: the lock's, 2, 3: others) and
   the timestamp in seconds relative to the timestamp of the lock's own registrations (which is 0).  A PARTIAL SIGNATURE
   is the token [sv, sk, m]: made with share sk of validator sv over message m (builder domain of the lock's fork
   version).  A REGISTRATION is [m, by]: `by` is the validator whose group key verifies the signature over m (-1:
   nobody's); it is VALID iff by = m.v (verifyRegistrationSignature checks against the key inside the message).

   One action per request on the wire and per critical section of the node's Run loop:

     sign   Start (flags, lock, key shares, overrides file, --timestamp validation) -> s_fetch (status of the requested
            validators at the API) -> plan: skip / adopt the in-progress group's message / new message / refuse
            -> s_post (ONE request with all partial registrations) -> fin
     fetch  Start -> f_fetch (all or the requested validators) -> aggregate every quorum group, verify, merge with the
            verified entries of the existing overrides file (newest timestamp per validator, existing wins ties), write -> fin
     list   Start (overrides file) -> l_fetch (failure is soft) -> newest of lock / overrides / remote per validator -> fin
     node   NodeStart (strict load of the file, recompute; with an API client the first fetch is due at once),
            NodeApi (one fetch of the Run loop: replaces the API overrides by the verified aggregates of the response,
            recompute; the next fetch is due 1 h later when the fetch failed or a validator still has an incomplete
            group, else 24 h), NodeReload (a file event: strict load, a failing load keeps what was loaded before;
            a file event makes the next fetch due at once), NodeStop, Tick (virtual time: timers fire).

   The ENVIRONMENT: Start of a command, the API's answers (ANY response: the server's aggregation behaviour is not the
   operators' business), faults on requests, direct posts of a Byzantine operator (Byz), files that appear in an
   operator's directory (Plant), the clock.

   DupLastWins = TRUE is the code as it is (deviation D1: where ONE source lists a validator twice the LAST entry is taken
   whatever its timestamp -- the map-building loops of mergeRegistrations / applyBuilderRegistrationOverrides and the
   short cuts of mergeOverrides); FALSE is the documented "newest timestamp per validator".  Defect switches plausible
   defects on for the control configurations. *)
EXTENDS Integers, Sequences, FiniteSets, TLC

CONSTANTS N, T, NV,        \* operators 1..N (share index = operator index), threshold, validators 1..NV
          Cmds,            \* command identifiers
          DupLastWins,     \* D1, as coded
          Defect           \* "none" | "noApiVerify" | "noFetchVerify" | "staleWins" | "noAdopt" | "noValidateTs" | "applyOlder" | "aggShort"

Ops == 1..N
Vals == 1..NV
FetchSoon == 3600
FetchLate == 86400

VARIABLES store,     \* API: the partial registrations it accepted, a set of [m, k]
          file,      \* per operator: the overrides file [st: "absent" | "ok" | "junk", regs: sequence of registrations]
          cmd,       \* the commands
          node,      \* per operator: the builder registration service of its node
          clock,     \* seconds since the lock's registration timestamp
          produced,  \* ghost: the partial signatures that exist, a set of [m, k] (share k of validator m.v over m)
          last       \* ghost: what the last step decided (for the action properties)
vars == <<store, file, cmd, node, clock, produced, last>>

Range(s) == {s[j] : j \in DOMAIN s}
MaxOf(S) == CHOOSE x \in S : \A y \in S : y <= x
MinOf(S) == CHOOSE x \in S : \A y \in S : x <= y
RECURSIVE SetToSortSeq(_)
SetToSortSeq(S) == IF S = {} THEN <<>> ELSE <<MinOf(S)>> \o SetToSortSeq(S \ {MinOf(S)})

Msg(v, fr, gl, ts) == [v |-> v, fr |-> fr, gl |-> gl, ts |-> ts]
NoMsg == Msg(-2, -2, -2, -2)
BaseMsg(v) == Msg(v, 0, 1, 0)
BaseReg(v) == [m |-> BaseMsg(v), by |-> v]
Valid(r) == r.by = r.m.v /\ r.by # -1
NoGroup == [m |-> NoMsg, sigs |-> <<>>, q |-> FALSE]
NoEntry == [v |-> -2, groups |-> <<>>]
NoFile == [st |-> "absent", regs |-> <<>>]

\* --fee-recipient: 1..3 the addresses in lower case, 4 the EIP-55 form of address 1, 90.. refused (zero address, bad
\* checksum, malformed)
FrBad(a) == a \notin 1..4
FrOf(a) == IF a = 4 THEN 1 ELSE a

---------------------------------------------------------------------------------------------------
(* Files.  LoadBuilderRegistrationOverrides is strict (one bad entry fails the load), MergeBuilderRegistrationOverrides
   is lenient with the existing file (unreadable: empty; bad entries dropped). *)
LoadOK(f) == f.st # "junk" /\ \A j \in DOMAIN f.regs : Valid(f.regs[j])
Loaded(f) == IF f.st = "ok" THEN f.regs ELSE <<>>
Lenient(f) == IF f.st = "ok" THEN SelectSeq(f.regs, Valid) ELSE <<>>

KeysOf(s) == {s[j].m.v : j \in DOMAIN s}
LastFor(s, v) == s[MaxOf({j \in DOMAIN s : s[j].m.v = v})]
\* the documented choice among several entries of one source: the newest, the earlier one on a tie
NewestFor(s, v) == LET J == {j \in DOMAIN s : s[j].m.v = v}
                       top == MaxOf({s[j].m.ts : j \in J}) IN
                   s[MinOf({j \in J : s[j].m.ts = top})]
PickFor(s, v) == IF DupLastWins THEN LastFor(s, v) ELSE NewestFor(s, v)
MapOf(s) == [v \in KeysOf(s) |-> PickFor(s, v)]
MapToSeq(f) == LET ks == SetToSortSeq(DOMAIN f) IN [j \in DOMAIN ks |-> f[ks[j]]]

\* mergeRegistrations: incoming entries replace only when STRICTLY newer, in order
Newer(a, b) == IF Defect = "staleWins" THEN TRUE ELSE a.m.ts > b.m.ts
RECURSIVE FoldIn(_, _)
FoldIn(f, inc) == IF inc = <<>> THEN f
                  ELSE LET r == Head(inc)
                           v == r.m.v IN
                       FoldIn(IF v \in DOMAIN f /\ ~Newer(r, f[v]) THEN f
                              ELSE [x \in DOMAIN f \cup {v} |-> IF x = v THEN r ELSE f[x]], Tail(inc))
MergeRegs(base, inc) == MapToSeq(FoldIn(MapOf(base), inc))
\* mergeOverrides(file, api): "keeping the entry with the highest timestamp per pubkey, entries in a win ties"
MergeOverrides(a, b) == IF DupLastWins /\ Len(a) = 0 THEN b ELSE IF DupLastWins /\ Len(b) = 0 THEN a ELSE MergeRegs(a, b)

\* applyBuilderRegistrationOverrides + the fee recipient map: what Registrations() and FeeRecipient() answer
Effective(fo, ao) ==
  LET ov == MergeOverrides(fo, ao)
      f == MapOf(ov) IN
  [v \in Vals |-> IF v \in DOMAIN f /\ (f[v].m.ts > 0 \/ Defect = "applyOlder")
                    THEN [m |-> f[v].m, by |-> f[v].by, fr |-> f[v].m.fr]
                    ELSE [m |-> BaseMsg(v), by |-> v, fr |-> 0]]

---------------------------------------------------------------------------------------------------
(* A fetch response: a sequence of entries [v, groups]; a group is [m, sigs, q], a signature [idx, sv, sk, m]: listed
   under share index idx, made by share sk of validator sv over m.  ProcessValidators / AggregatePartialSignatures. *)
Groups(R) == UNION {Range(R[j].groups) : j \in DOMAIN R}
SigIdx(g) == {g.sigs[j].idx : j \in DOMAIN g.sigs}
SigAt(g, i) == g.sigs[MaxOf({j \in DOMAIN g.sigs : g.sigs[j].idx = i})]      \* a map by share index: the last one stays
GoodSig(g, i) == LET s == SigAt(g, i) IN s.sv = g.m.v /\ s.sk = i /\ s.m = g.m
Need == IF Defect = "aggShort" THEN T - 1 ELSE T
AggBy(g) == IF g.m.v \in Vals /\ (\A i \in SigIdx(g) : GoodSig(g, i)) /\ Cardinality(SigIdx(g)) >= Need THEN g.m.v ELSE -1
AggErr(R) == \E g \in Groups(R) : g.q /\ g.sigs = <<>>                            \* tbls.ThresholdAggregate refuses
RECURSIVE Flat(_)
Flat(ss) == IF ss = <<>> THEN <<>> ELSE Head(ss) \o Flat(Tail(ss))
QuorumGroups(R) == SelectSeq(Flat([j \in DOMAIN R |-> R[j].groups]), LAMBDA g : g.q)
Aggregated(R) == LET qs == QuorumGroups(R) IN [j \in DOMAIN qs |-> [m |-> qs[j].m, by |-> AggBy(qs[j])]]
HasIncomplete(R) == \E g \in Groups(R) : ~g.q
Malformed(R) == \E g \in Groups(R) : g.m = NoMsg                                 \* "message": null
EntryFor(R, v) == IF \E j \in DOMAIN R : R[j].v = v THEN R[MaxOf({j \in DOMAIN R : R[j].v = v})] ELSE NoEntry
FirstWhere(gs, P(_)) == IF \E j \in DOMAIN gs : P(gs[j]) THEN gs[MinOf({j \in DOMAIN gs : P(gs[j])})] ELSE NoGroup
LastWhere(gs, P(_)) == IF \E j \in DOMAIN gs : P(gs[j]) THEN gs[MaxOf({j \in DOMAIN gs : P(gs[j])})] ELSE NoGroup
SigsIn(R) == UNION {{[m |-> g.sigs[j].m, k |-> g.sigs[j].sk] : j \in {h \in DOMAIN g.sigs : g.sigs[h].sv = g.sigs[h].m.v /\ g.sigs[h].sv \in Vals}} : g \in Groups(R)}

---------------------------------------------------------------------------------------------------
(* The API server's store (testutil/obolapimock/feerecipient.go as coded): a partial registration is kept when it
   verifies under the public share, of the share index in the URL, of the validator in the message. *)
Res(s, st) == [status |-> s, store |-> st]
RECURSIVE PostLoop(_, _, _)
PostLoop(st, share, parts) ==
  IF parts = <<>> THEN Res(200, st)
  ELSE LET p == Head(parts) IN
       IF p.m.v \notin Vals THEN Res(400, st)                                         \* cannot find public key in lock file
       ELSE IF ~(p.sv = p.m.v /\ p.sk = share) THEN Res(400, st)                      \* cannot verify signature
       ELSE PostLoop(st \cup {[m |-> p.m, k |-> share]}, share, Tail(parts))
ApiPost(st, q) == IF ~q.lock THEN Res(404, st) ELSE IF q.share \notin Ops THEN Res(400, st) ELSE PostLoop(st, q.share, q.parts)
PostOK(code) == code \in 200..299 \/ code = 409

\* what a well-behaved API answers: per validator the newest group with a quorum and the newest without
MsgsOf(st, v) == {e.m : e \in {x \in st : x.m.v = v}}
SharesOf(st, m) == {e.k : e \in {x \in st : x.m = m}}
GroupOf(st, m) == LET ks == SetToSortSeq(SharesOf(st, m)) IN
                  [m |-> m, sigs |-> [j \in DOMAIN ks |-> [idx |-> ks[j], sv |-> m.v, sk |-> ks[j], m |-> m]], q |-> Len(ks) >= T]
Top(S) == CHOOSE m \in S : \A x \in S : x.ts < m.ts \/ (x.ts = m.ts /\ (x.fr < m.fr \/ (x.fr = m.fr /\ x.gl <= m.gl)))
HonestEntry(st, v) == LET Q == {m \in MsgsOf(st, v) : Cardinality(SharesOf(st, m)) >= T}
                          I == MsgsOf(st, v) \ Q IN
                      [v |-> v, groups |-> (IF Q = {} THEN <<>> ELSE <<GroupOf(st, Top(Q))>>) \o (IF I = {} THEN <<>> ELSE <<GroupOf(st, Top(I))>>)]
Wanted(filter) == IF filter = <<>> THEN Vals ELSE Range(filter) \cap Vals
HonestResp(st, filter) == LET vs == SetToSortSeq({v \in Wanted(filter) : MsgsOf(st, v) # {}}) IN [j \in DOMAIN vs |-> HonestEntry(st, vs[j])]

---------------------------------------------------------------------------------------------------
(* feerecipient sign: filterPubkeysByStatus for one validator.  ov: the overrides of the operator's file as loaded at the
   start (per validator the last entry), ts0: --timestamp or the clock. *)
SameFr(g, fr) == g.m.fr = fr
ResolveGl(a, ov, v, q) ==
  IF a.gl # 0 THEN a.gl
  ELSE LET o1 == IF v \in DOMAIN ov /\ ov[v].ts > 0 THEN ov[v] ELSE BaseMsg(v) IN
       IF q # NoGroup /\ q.m.ts > o1.ts THEN q.m.gl ELSE o1.gl
PlanOne(a, ov, R, v, now) ==
  LET e == EntryFor(R, v)
      q == FirstWhere(e.groups, LAMBDA g : g.q)
      inc == IF Defect = "noAdopt" THEN NoGroup ELSE FirstWhere(e.groups, LAMBDA g : ~g.q /\ SameFr(g, FrOf(a.fr)))
      ts0 == IF a.ts # -1 THEN a.ts ELSE now IN
  IF q # NoGroup /\ SameFr(q, FrOf(a.fr)) THEN [do |-> "skip", m |-> NoMsg]
  ELSE IF inc # NoGroup THEN [do |-> "sign", m |-> Msg(v, FrOf(a.fr), inc.m.gl, inc.m.ts)]
  ELSE IF q = NoGroup /\ e # NoEntry /\ (\E j \in DOMAIN e.groups : ~e.groups[j].q) THEN [do |-> "fail", m |-> NoMsg]
  ELSE IF q # NoGroup /\ ~(ts0 > q.m.ts) THEN [do |-> "fail", m |-> NoMsg]
  ELSE [do |-> "sign", m |-> Msg(v, FrOf(a.fr), ResolveGl(a, ov, v, q), ts0)]
Plan(a, ov, R, now) == [j \in DOMAIN a.vs |-> PlanOne(a, ov, R, a.vs[j], now)]
PlanFails(p) == \E j \in DOMAIN p : p[j].do = "fail"
PlanMsgs(p) == LET s == SelectSeq(p, LAMBDA x : x.do = "sign") IN [j \in DOMAIN s |-> s[j].m]
\* validateTimestamp
ValidTs(a, ov) == Defect = "noValidateTs" \/ \A j \in DOMAIN a.vs : a.ts > 0 /\ (a.vs[j] \in DOMAIN ov => a.ts > ov[a.vs[j]].ts)

(* feerecipient list: resolveLatestRegistrations; `remote` maps a validator to the message of its (last) quorum group *)
GroupsFor(R, v) == Flat([j \in DOMAIN R |-> IF R[j].v = v THEN R[j].groups ELSE <<>>])
RemoteOf(R, ok) == IF ~ok \/ AggErr(R) THEN <<>>
                   ELSE [v \in {x \in Vals : LastWhere(GroupsFor(R, x), LAMBDA g : g.q) # NoGroup} |->
                           LastWhere(GroupsFor(R, v), LAMBDA g : g.q).m]
Equiv(a, b) == a.fr = b.fr /\ a.gl = b.gl /\ a.ts = b.ts
ListOne(v, ov, rem) ==
  LET w1 == IF v \in DOMAIN ov /\ ov[v].ts > 0 THEN ov[v] ELSE BaseMsg(v)
      w == IF v \in DOMAIN rem /\ rem[v].ts > w1.ts THEN rem[v] ELSE w1 IN
  [v |-> v, fr |-> w.fr, gl |-> w.gl, ts |-> w.ts, lock |-> Equiv(w, BaseMsg(v)), ovr |-> (v \in DOMAIN ov /\ Equiv(w, ov[v])),
   remote |-> (v \in DOMAIN rem /\ Equiv(w, rem[v]))]
Listing(a, ov, rem) == {ListOne(v, ov, rem) : v \in (IF a.vs = <<>> THEN Vals ELSE Range(a.vs) \cap Vals)}

---------------------------------------------------------------------------------------------------
IdleCmd == [op |-> 0, kind |-> "-", vs |-> <<>>, fr |-> 0, gl |-> 0, ts |-> -1, pc |-> "idle", ov |-> <<>>, posts |-> <<>>, ok |-> FALSE, out |-> {}]
NodeDown == [up |-> FALSE, api |-> FALSE, watch |-> FALSE, fo |-> <<>>, ao |-> <<>>, pend |-> FALSE, due |-> 0]
NoLast == [k |-> "-", op |-> 0]

Init == /\ store = {} /\ file = [o \in Ops |-> NoFile] /\ cmd = [c \in Cmds |-> IdleCmd] /\ node = [o \in Ops |-> NodeDown]
        /\ clock = 1000 /\ produced = {} /\ last = NoLast

Fin(r, ok) == [r EXCEPT !.pc = "fin", !.ok = ok]
OvOf(f) == LET s == Loaded(f) IN [v \in KeysOf(s) |-> LastFor(s, v).m]

\* the command line: kind, vs (--validator-public-keys: validators, 0 a key that is not in the lock), fr (--fee-recipient),
\* gl (--gas-limit, 0: not given), ts (--timestamp, -1: not given)
Begin(o, a) ==
  LET b == [IdleCmd EXCEPT !.op = o, !.kind = a.kind, !.vs = a.vs, !.fr = a.fr, !.gl = a.gl, !.ts = a.ts]
      f == file[o]
      foreign == \E j \in DOMAIN a.vs : a.vs[j] \notin Vals IN
  CASE a.kind = "sign" -> IF FrBad(a.fr) \/ foreign \/ a.vs = <<>> \/ ~LoadOK(f) THEN Fin(b, FALSE)
                          ELSE IF a.ts # -1 /\ ~ValidTs(a, OvOf(f)) THEN Fin(b, FALSE)
                          ELSE [b EXCEPT !.pc = "s_fetch", !.ov = OvOf(f)]
    [] a.kind = "fetch" -> [b EXCEPT !.pc = "f_fetch"]
    [] a.kind = "list" -> IF foreign \/ ~LoadOK(f) THEN Fin(b, FALSE) ELSE [b EXCEPT !.pc = "l_fetch", !.ov = OvOf(f)]

Busy(o) == \E d \in Cmds : cmd[d].op = o /\ cmd[d].pc \notin {"idle", "done"}
Start(c, o, a) == /\ cmd[c].pc = "idle" /\ o \in Ops /\ ~Busy(o)
                  /\ cmd' = [cmd EXCEPT ![c] = Begin(o, a)]
                  /\ last' = [k |-> "start", op |-> o]
                  /\ UNCHANGED <<store, file, node, clock, produced>>
Finish(c) == /\ cmd[c].pc = "fin"
             /\ cmd' = [cmd EXCEPT ![c] = [IdleCmd EXCEPT !.pc = "done", !.op = cmd[c].op, !.kind = cmd[c].kind, !.ok = cmd[c].ok]]
             /\ last' = [k |-> "finish", op |-> cmd[c].op]
             /\ UNCHANGED <<store, file, node, clock, produced>>

(* ---- a command's request at the API ---- *)
Part(o, m) == [sv |-> m.v, sk |-> o, m |-> m]
ApiReq(c) == LET r == cmd[c] IN
  IF r.pc = "s_post" THEN [kind |-> "post", lock |-> TRUE, share |-> r.op, parts |-> [j \in DOMAIN r.posts |-> Part(r.op, r.posts[j])], filter |-> <<>>]
  ELSE [kind |-> "fetch", lock |-> TRUE, share |-> 0, parts |-> <<>>, filter |-> r.vs]

\* merge into the overrides file what a fetch delivered: MergeBuilderRegistrationOverrides + writeSignedValidatorRegistrations
Fetched(R) == IF Defect = "noFetchVerify" THEN Aggregated(R) ELSE SelectSeq(Aggregated(R), Valid)
Written(f, R) == [st |-> "ok", regs |-> MergeRegs(Lenient(f), Fetched(R))]

\* f: "none" | "pre" (never served) | "post" (served, the client is told `code`); ok: the client holds a usable fetch
\* response R (2xx, or the 404 "no partial registrations found" which the client takes for an empty answer)
ApiStep(c, f, code, ok, R) ==
  /\ cmd[c].pc \in {"s_fetch", "s_post", "f_fetch", "l_fetch"}
  /\ LET r == cmd[c]
         q == ApiReq(c)
         res == IF q.kind = "post" /\ f # "pre" THEN ApiPost(store, q) ELSE Res(0, store)
         seen == IF f = "none" THEN res.status ELSE code
         plan == Plan(r, r.ov, R, clock)
         good == ok /\ f = "none" IN
     /\ store' = res.store
     /\ produced' = produced \cup (IF q.kind = "post" THEN {[m |-> q.parts[j].m, k |-> q.parts[j].sk] : j \in DOMAIN q.parts}
                                   ELSE IF good THEN SigsIn(R) ELSE {})
     /\ CASE r.pc = "s_fetch" ->
               /\ cmd' = [cmd EXCEPT ![c] = IF ~good \/ Malformed(R) \/ PlanFails(plan) THEN Fin(r, FALSE)
                                            ELSE IF PlanMsgs(plan) = <<>> THEN Fin(r, TRUE)
                                            ELSE [r EXCEPT !.pc = "s_post", !.posts = PlanMsgs(plan)]]
               /\ file' = file
               /\ last' = [k |-> "plan", op |-> r.op, good |-> good, args |-> [vs |-> r.vs, fr |-> r.fr, ts |-> r.ts], ov |-> r.ov, R |-> R, plan |-> plan]
          [] r.pc = "s_post" ->
               /\ cmd' = [cmd EXCEPT ![c] = Fin(r, PostOK(seen))]
               /\ file' = file
               /\ last' = [k |-> "post", op |-> r.op]
          [] r.pc = "f_fetch" ->
               LET write == good /\ ~AggErr(R) /\ QuorumGroups(R) # <<>> IN
               /\ cmd' = [cmd EXCEPT ![c] = Fin(r, good /\ ~AggErr(R))]
               /\ file' = IF write THEN [file EXCEPT ![r.op] = Written(file[r.op], R)] ELSE file
               /\ last' = [k |-> IF write THEN "write" ELSE "nowrite", op |-> r.op]
          [] r.pc = "l_fetch" ->
               /\ cmd' = [cmd EXCEPT ![c] = Fin([r EXCEPT !.out = Listing(r, r.ov, RemoteOf(R, good))], TRUE)]
               /\ file' = file
               /\ last' = [k |-> "list", op |-> r.op]
  /\ UNCHANGED <<node, clock>>

(* ---- the node ---- *)
\* NewBuilderRegistrationService: strict load (a bad file: the node does not start); Run: with an API client the timer fires at once
NodeStart(o, api, watch) ==
  /\ ~node[o].up
  /\ node' = [node EXCEPT ![o] = IF LoadOK(file[o])
                                 THEN [up |-> TRUE, api |-> api, watch |-> watch, fo |-> Loaded(file[o]), ao |-> <<>>, pend |-> api, due |-> clock]
                                 ELSE NodeDown]
  /\ last' = [k |-> "nodestart", op |-> o]
  /\ UNCHANGED <<store, file, cmd, clock, produced>>
NodeStop(o) == /\ node[o].up /\ node' = [node EXCEPT ![o] = NodeDown] /\ last' = [k |-> "nodestop", op |-> o]
               /\ UNCHANGED <<store, file, cmd, clock, produced>>
\* fetchFromAPI; ok: the client holds a usable response R
Kept(R) == IF Defect = "noApiVerify" THEN Aggregated(R) ELSE SelectSeq(Aggregated(R), Valid)
AfterApi(n, ok, R) == LET good == ok /\ ~AggErr(R) IN
                      [n EXCEPT !.ao = IF good THEN Kept(R) ELSE @, !.pend = FALSE,
                                !.due = clock + (IF ~good \/ HasIncomplete(R) THEN FetchSoon ELSE FetchLate)]
NodeApi(o, ok, R) ==
  /\ node[o].up /\ node[o].pend
  /\ node' = [node EXCEPT ![o] = AfterApi(@, ok, R)]
  /\ produced' = produced \cup (IF ok THEN SigsIn(R) ELSE {})
  /\ last' = [k |-> "nodeapi", op |-> o]
  /\ UNCHANGED <<store, file, cmd, clock>>
\* a Write / Create event for the overrides file: reloadFromFile, then the fetch timer is reset to zero
AfterReload(n, f) == [n EXCEPT !.fo = IF LoadOK(f) THEN Loaded(f) ELSE @, !.pend = n.api, !.due = IF n.api THEN clock ELSE @]
NodeReload(o) ==
  /\ node[o].up /\ node[o].watch /\ ~node[o].pend
  /\ node' = [node EXCEPT ![o] = AfterReload(@, file[o])]
  /\ last' = [k |-> "reload", op |-> o]
  /\ UNCHANGED <<store, file, cmd, clock, produced>>
Tick(d) == /\ d > 0 /\ clock' = clock + d
           /\ node' = [o \in Ops |-> IF node[o].up /\ node[o].api /\ ~node[o].pend /\ node[o].due <= clock + d THEN [node[o] EXCEPT !.pend = TRUE] ELSE node[o]]
           /\ last' = [k |-> "tick", op |-> 0]
           /\ UNCHANGED <<store, file, cmd, produced>>
NodeView(o) == Effective(node[o].fo, node[o].ao)

(* ---- the environment ---- *)
\* anybody can post: the partial signature is the authorisation
Byz(q) == LET res == ApiPost(store, q) IN
          /\ store' = res.store
          /\ produced' = produced \cup {[m |-> q.parts[j].m, k |-> q.parts[j].sk] : j \in {h \in DOMAIN q.parts : q.parts[h].sv = q.parts[h].m.v /\ q.parts[h].sv \in Vals}}
          /\ last' = [k |-> "byz", op |-> 0]
          /\ UNCHANGED <<file, cmd, node, clock>>
\* a file appears in an operator's directory; S[j]: the shares of validator regs[j].m.v whose partial signatures were aggregated for entry j
PlantBy(m, S) == IF m.v \in Vals /\ Cardinality(S) >= T THEN m.v ELSE -1
Plant(o, f, S) ==
  /\ file' = [file EXCEPT ![o] = f]
  /\ produced' = produced \cup UNION {{[m |-> f.regs[j].m, k |-> k] : k \in S[j]} : j \in DOMAIN f.regs}
  /\ last' = [k |-> "plant", op |-> o]
  /\ UNCHANGED <<store, cmd, node, clock>>

---------------------------------------------------------------------------------------------------
(* Contract *)
TypeOK == /\ \A c \in Cmds : cmd[c].pc \in {"idle", "s_fetch", "s_post", "f_fetch", "l_fetch", "fin", "done"}
          /\ \A o \in Ops : file[o].st \in {"absent", "ok", "junk"} /\ (node[o].pend => node[o].up /\ node[o].api)
\* the API only keeps what verifies: the partial signature of the share it is filed under, for a validator of the lock
StoreAuthentic == \A e \in store : e.m.v \in Vals /\ e.k \in Ops /\ e \in produced
\* "a validator's effective fee recipient / gas limit / registration changes only when at least THRESHOLD distinct
\* operators signed the SAME message with their own share for that validator": wherever a registration that verifies
\* under a cluster validator's key shows up (other than the lock's own), threshold many shares signed exactly its message
Backed(r) == (Valid(r) /\ r.m.v \in Vals /\ r.m # BaseMsg(r.m.v)) => Cardinality({k \in Ops : [m |-> r.m, k |-> k] \in produced}) >= T
Unforgeable == /\ \A o \in Ops : \A j \in DOMAIN file[o].regs : Backed(file[o].regs[j])
               /\ \A o \in Ops : (\A j \in DOMAIN node[o].fo : Backed(node[o].fo[j])) /\ (\A j \in DOMAIN node[o].ao : Backed(node[o].ao[j]))
               /\ \A o \in Ops : node[o].up => \A v \in Vals : Backed([m |-> NodeView(o)[v].m, by |-> NodeView(o)[v].by])
\* what the node answers verifies under the validator's own key, is the lock's registration or strictly newer, and the
\* fee recipient it hands to the proposer is the one of that registration
ViewSound == \A o \in Ops : node[o].up => \A v \in Vals :
               LET w == NodeView(o)[v] IN
               /\ w.by = v /\ w.m.v = v
               /\ (w.m = BaseMsg(v) /\ w.fr = 0) \/ (w.m.ts > 0 /\ w.fr = w.m.fr)
\* "keeping the entry with the highest timestamp per pubkey; entries of the file win ties; the lock wins unless the
\* override is strictly newer": the answer is a function of the lock and the verified overrides the node holds, and it
\* is the newest of them  -- NOT as coded where one source lists a validator twice (D1)
Cands(o, v) == {r \in Range(node[o].fo) \cup Range(node[o].ao) : r.m.v = v /\ Valid(r)}
ViewNewestOf(o) == \A v \in Vals :
                     LET w == NodeView(o)[v]
                         C == Cands(o, v)
                         top == MaxOf({r.m.ts : r \in C} \cup {0})
                         F == {r \in C : r.m.ts = top /\ r \in Range(node[o].fo)} IN
                     /\ w.m.ts = top
                     /\ top = 0 => w.m = BaseMsg(v)
                     /\ top > 0 => (\E r \in C : r.m = w.m) /\ (F # {} => \E r \in F : r.m = w.m)
ViewNewest == \A o \in Ops : node[o].up => ViewNewestOf(o)
DupFree(s) == \A i, j \in DOMAIN s : i # j => s[i].m.v # s[j].m.v
\* ... and as far as D1 does not apply
ViewNewestButD1 == \A o \in Ops : (node[o].up /\ (~DupLastWins \/ (DupFree(node[o].fo) /\ DupFree(node[o].ao)))) => ViewNewestOf(o)
\* the node only holds overrides that verify
HeldValid == \A o \in Ops : (\A j \in DOMAIN node[o].fo : Valid(node[o].fo[j])) /\ (\A j \in DOMAIN node[o].ao : Valid(node[o].ao[j]))
Safety == TypeOK /\ StoreAuthentic /\ Unforgeable /\ ViewSound /\ HeldValid

\* Action properties (over `last`, the decision of the step).
\* feerecipient fetch writes only registrations that verify, at most one per validator, and never lets an entry go back:
\* a validator's newest verified entry before is still there or replaced by a strictly newer one
NewestTs(s, v) == MaxOf({s[j].m.ts : j \in {h \in DOMAIN s : s[h].m.v = v}})
FetchWritesGoodA == (last'.k = "write" =>
                        LET o == last'.op
                            old == Lenient(file[o])
                            new == file'[o].regs IN
                        /\ file'[o].st = "ok" /\ \A j \in DOMAIN new : Valid(new[j])
                        /\ \A i, j \in DOMAIN new : i # j => new[i].m.v # new[j].m.v
                        /\ \A v \in KeysOf(old) : v \in KeysOf(new) /\ NewestTs(new, v) >= NewestTs(old, v)
                                                  /\ (NewestTs(new, v) = NewestTs(old, v) => \E j \in DOMAIN old : old[j] = LastFor(new, v)))
\* only a fetch that delivered a quorum group (or a Plant) changes an overrides file; a failing API keeps it
FileStableA == \A o \in Ops : file'[o] # file[o] => (last'.k \in {"write", "plant"} /\ last'.op = o)
\* a failing API / an unreadable file keeps the node's last good state
NodeKeepsA == (\A o \in Ops : (node[o].up /\ node'[o].up) =>
                   /\ (node'[o].ao # node[o].ao => last'.k = "nodeapi" /\ last'.op = o)
                   /\ (node'[o].fo # node[o].fo => last'.k = "reload" /\ last'.op = o /\ LoadOK(file[o])))
\* feerecipient sign: an operator that sees an in-progress group for the requested fee recipient signs THAT message (and
\* signs nothing for a validator whose quorum registration already has the fee recipient); with --timestamp the message
\* is strictly newer than the lock's and the operator's own overrides; nothing is posted when one validator is refused
SignJoinsA == (last'.k = "plan" /\ last'.good =>
                  \A j \in DOMAIN last'.plan :
                    LET v == last'.args.vs[j]
                        e == EntryFor(last'.R, v)
                        p == last'.plan[j]
                        fr == FrOf(last'.args.fr)
                        q == FirstWhere(e.groups, LAMBDA g : g.q)
                        inc == FirstWhere(e.groups, LAMBDA g : ~g.q /\ g.m.fr = fr) IN
                    /\ (q # NoGroup /\ q.m.fr = fr) => p.do = "skip"
                    /\ (~(q # NoGroup /\ q.m.fr = fr) /\ inc # NoGroup) => (p.do = "sign" /\ p.m.ts = inc.m.ts /\ p.m.gl = inc.m.gl /\ p.m.fr = fr)
                    /\ (p.do = "sign" /\ inc = NoGroup /\ last'.args.ts # -1) =>
                          (p.m.ts = last'.args.ts /\ p.m.ts > 0 /\ (v \in DOMAIN last'.ov => p.m.ts > last'.ov[v].ts) /\ (q # NoGroup => p.m.ts > q.m.ts)))
FetchWritesGoodButD1A == (last'.k = "write" /\ DupLastWins /\ ~DupFree(Lenient(file[last'.op]))) \/ FetchWritesGoodA
FetchWritesGood == [][FetchWritesGoodA]_vars
FileStable == [][FileStableA]_vars
NodeKeeps == [][NodeKeepsA]_vars
SignJoins == [][SignJoinsA]_vars
====
