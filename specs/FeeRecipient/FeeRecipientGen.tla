---- MODULE FeeRecipientGen ----
(* Schedule generation: behaviours of the design spec under the bounds of FeeRecipientMC; the ENVIRONMENT's moves are
   recorded in the history variable `hist`: the command lines started, which command's pending request is let through
   next (and with which fault / which tampering of the API's answer), the direct posts of the Byzantine operator, planted
   overrides files, node starts / stops, which node's pending fetch is answered next, clock ticks.  What the commands and
   the nodes do with it is the implementation's business.  NodeWatch = TRUE generates schedules for the executor's real-time
   mode "A" (real fsnotify: every answered fetch of a node is followed by a reload of its file), FALSE for the virtual-time
   mode "B" (testing/synctest: timers, --timestamp not given).  Run with -simulate; checks/grow_feerecipient.py turns a
   history into a schedule for harness/feerecipient. *)
EXTENDS FeeRecipientMC, Json
CONSTANTS GenLen
VARIABLES hist
Rec(e) == hist' = Append(hist, e)
M2J(m) == [v |-> m.v, fr |-> m.fr, gl |-> m.gl, ts |-> m.ts]
GenInit == MCInit /\ hist = <<>>
\* one fetch of a node's Run loop; in mode A the executor makes the file reload follow at once
NodeAnswer(o, ok, R) ==
  IF NodeWatch THEN /\ node[o].up /\ node[o].pend
                    /\ node' = [node EXCEPT ![o] = AfterReload(AfterApi(@, ok, R), file[o])]
                    /\ produced' = produced \cup (IF ok THEN SigsIn(R) ELSE {})
                    /\ last' = [k |-> "nodeapi", op |-> o]
                    /\ UNCHANGED <<store, file, cmd, clock>>
  ELSE NodeApi(o, ok, R)
GenNext ==
  \/ \E c \in Cmds : First(c) /\ \E o \in Honest : \E a \in Args :
        /\ StartOK(o, a) /\ Start(c, o, a) /\ UNCHANGED Budget
        /\ Rec([ev |-> "Start", c |-> c, op |-> o, kind |-> a.kind, vs |-> a.vs, fr |-> a.fr, gl |-> a.gl, ts |-> a.ts])
  \/ \E c \in Cmds : Finish(c) /\ UNCHANGED <<Budget, hist>>
  \/ \E c \in Cmds : AtApi(c) /\ ApiStep(c, "none", 0, TRUE, Deliver(c)) /\ UNCHANGED Budget /\ Rec([ev |-> "Step", c |-> c])
  \/ \E o \in Nodes : NodeAnswer(o, TRUE, NodeDeliver) /\ UNCHANGED Budget /\ Rec([ev |-> "NodeStep", op |-> o])
  \/ /\ nfault < MaxFault /\ nfault' = nfault + 1 /\ UNCHANGED <<nbyz, ntamper, nplant, ntick, nnode>>
     /\ \/ \E c \in Cmds : AtApi(c) /\ \E f \in Faults : ApiStep(c, f[1], f[2], FALSE, <<>>) /\ Rec([ev |-> "Step", c |-> c, f |-> f[1], code |-> f[2]])
        \/ \E o \in Nodes : \E f \in Faults : NodeAnswer(o, FALSE, <<>>) /\ Rec([ev |-> "NodeStep", op |-> o, f |-> f[1], code |-> f[2]])
  \/ /\ ntamper < MaxTamper /\ ntamper' = ntamper + 1 /\ UNCHANGED <<nbyz, nfault, nplant, ntick, nnode>>
     /\ \/ \E c \in Cmds : AtApi(c) /\ ApiReq(c).kind = "fetch" /\ \E k \in Tampers :
             ApiStep(c, "none", 0, TRUE, Tamper(k, Deliver(c), store)) /\ Rec([ev |-> "Step", c |-> c, tamper |-> k])
        \/ \E o \in Nodes : \E k \in Tampers : NodeAnswer(o, TRUE, Tamper(k, NodeDeliver, store)) /\ Rec([ev |-> "NodeStep", op |-> o, tamper |-> k])
  \/ /\ nbyz < MaxByz /\ nbyz' = nbyz + 1 /\ UNCHANGED <<nfault, ntamper, nplant, ntick, nnode>>
     /\ \E q \in ByzPosts : Byz(q) /\ Rec([ev |-> "Byz", share |-> q.share,
                                         parts |-> [j \in DOMAIN q.parts |-> [sv |-> q.parts[j].sv, sk |-> q.parts[j].sk, m |-> M2J(q.parts[j].m)]]])
  \/ /\ nplant < MaxPlant /\ nplant' = nplant + 1 /\ UNCHANGED <<nbyz, nfault, ntamper, ntick, nnode>>
     /\ \E p \in Plants : /\ (\A j \in DOMAIN p[2].regs : p[2].regs[j].m.v \in Vals \cup {0}) /\ Plant(p[1], p[2], p[3])
                          /\ Rec([ev |-> "Plant", op |-> p[1], st |-> p[2].st,
                                  regs |-> [j \in DOMAIN p[2].regs |-> [m |-> M2J(p[2].regs[j].m), shares |-> SetToSortSeq(p[3][j])]]])
  \/ /\ ntick < MaxTick /\ ntick' = ntick + 1 /\ UNCHANGED <<nbyz, nfault, ntamper, nplant, nnode>>
     /\ \E d \in Ticks : Tick(d) /\ Rec([ev |-> "Tick", d |-> d])
  \/ /\ nnode < MaxNode /\ nnode' = nnode + 1 /\ UNCHANGED <<nbyz, nfault, ntamper, nplant, ntick>>
     /\ \E o \in Nodes : \/ NodeStart(o, NodeApiOn, NodeWatch) /\ Rec([ev |-> "NodeStart", op |-> o, api |-> NodeApiOn])
                         \/ NodeStop(o) /\ Rec([ev |-> "NodeStop", op |-> o])
GenSpec == GenInit /\ [][GenNext]_<<mcvars, hist>>
Emit == Len(hist) < GenLen \/ PrintT("@@SCHED@@" \o ToJson([mode |-> IF NodeWatch THEN "A" ELSE "B", n |-> N, t |-> T, nv |-> NV, steps |-> hist]))
Stop == Len(hist) <= GenLen
====
