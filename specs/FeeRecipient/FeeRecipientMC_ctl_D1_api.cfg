SPECIFICATION MCSpec
CONSTANTS
 N = 3
 T = 2
 NV = 1
 Cmds = {1, 2, 3, 4}
 DupLastWins = TRUE
 Defect = "none"
 Honest = {1, 2}
 Args <- ArgsTwoFrOnly
 ByzPosts <- ByzNone
 MaxByz = 0
 Faults <- FNone
 MaxFault = 0
 Tampers <- TDesc
 MaxTamper = 1
 Plants <- PNone
 MaxPlant = 0
 Ticks <- TkNone
 MaxTick = 0
 Nodes = {1}
 NodeApiOn = TRUE
 NodeWatch = TRUE
 MaxNode = 1
 Policy = "free"
INVARIANTS ViewNewest
VIEW View
CHECK_DEADLOCK FALSE
