SPECIFICATION MCSpec
CONSTANTS
 N = 3
 T = 2
 NV = 1
 Cmds = {1}
 DupLastWins = TRUE
 Defect = "none"
 Honest = {1, 2}
 Args <- ArgsFetch
 ByzPosts <- ByzNone
 MaxByz = 0
 Faults <- FApi
 MaxFault = 1
 Tampers <- TNone
 MaxTamper = 0
 Plants <- PDup
 MaxPlant = 1
 Ticks <- TkNone
 MaxTick = 0
 Nodes = {1}
 NodeApiOn = TRUE
 NodeWatch = TRUE
 MaxNode = 1
 Policy = "free"
INVARIANTS ViewNewest
VIEW View
CHECK_DEADLOCK FALSE
