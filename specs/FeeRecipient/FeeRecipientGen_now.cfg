SPECIFICATION GenSpec
CONSTANTS
 N = 3
 T = 2
 NV = 1
 Cmds = {1, 2, 3, 4, 5, 6, 7, 8}
 DupLastWins = TRUE
 Defect = "none"
 Honest = {1, 2, 3}
 Args <- ArgsNow
 ByzPosts <- ByzNone
 MaxByz = 0
 Faults <- FCodes
 MaxFault = 2
 Tampers <- TAll
 MaxTamper = 2
 Plants <- PNone
 MaxPlant = 0
 Ticks <- TkHour
 MaxTick = 4
 Nodes = {1, 2}
 NodeApiOn = TRUE
 NodeWatch = FALSE
 MaxNode = 3
 Policy = "free"
 GenLen = 22
INVARIANTS Emit
CONSTRAINT Stop
CHECK_DEADLOCK FALSE
