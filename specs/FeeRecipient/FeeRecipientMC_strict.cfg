SPECIFICATION MCSpec
CONSTANTS
 N = 3
 T = 2
 NV = 1
 Cmds = {1, 2}
 DupLastWins = FALSE
 Defect = "none"
 Honest = {1, 2}
 Args <- ArgsFetch
 ByzPosts <- ByzNone
 MaxByz = 0
 Faults <- FApi
 MaxFault = 1
 Tampers <- TGroups
 MaxTamper = 1
 Plants <- PDup
 MaxPlant = 2
 Ticks <- TkNone
 MaxTick = 0
 Nodes = {1}
 NodeApiOn = TRUE
 NodeWatch = TRUE
 MaxNode = 2
 Policy = "free"
INVARIANTS Safety ViewNewest TimerSane
PROPERTIES MCFetchWritesGood MCFileStable MCNodeKeeps MCSignJoins
VIEW View
CHECK_DEADLOCK FALSE
