SPECIFICATION MCSpec
CONSTANTS
 N = 3
 T = 2
 NV = 1
 Cmds = {1, 2}
 DupLastWins = TRUE
 Defect = "none"
 Honest = {1, 2}
 Args <- ArgsFetch
 ByzPosts <- Byz3
 MaxByz = 0
 Faults <- FApi
 MaxFault = 1
 Tampers <- TNone
 MaxTamper = 0
 Plants <- PSomeOld
 MaxPlant = 2
 Ticks <- TkNone
 MaxTick = 0
 Nodes = {1}
 NodeApiOn = TRUE
 NodeWatch = TRUE
 MaxNode = 3
 Policy = "free"
INVARIANTS Safety ViewNewestButD1 TimerSane
PROPERTIES MCFetchWritesGoodButD1 MCFileStable MCNodeKeeps MCSignJoins
VIEW View
CHECK_DEADLOCK FALSE
