SPECIFICATION GenSpec
CONSTANTS
 N = 3
 T = 2
 NV = 1
 Cmds = {1, 2, 3, 4, 5, 6, 7, 8}
 DupLastWins = TRUE
 Defect = "none"
 Honest = {1, 2}
 Args <- ArgsCore
 ByzPosts <- ByzNone
 MaxByz = 0
 Faults <- FCodes
 MaxFault = 2
 Tampers <- TAll
 MaxTamper = 2
 Plants <- PDup
 MaxPlant = 2
 Ticks <- TkNone
 MaxTick = 0
 Nodes = {1, 2}
 NodeApiOn = TRUE
 NodeWatch = TRUE
 MaxNode = 3
 Policy = "free"
 GenLen = 16
INVARIANTS Emit
CONSTRAINT Stop
CHECK_DEADLOCK FALSE
