\* Trace validation by hand (checks/grow_feerecipient.py writes one of these per cluster shape and deviation set):
\*   put the traces, one JSON array per line, into traces.ndjson next to the modules and run TLC with -workers 1.
SPECIFICATION TraceSpec
CONSTANTS
 N = 3
 T = 2
 NV = 2
 Cmds = {1, 2, 3, 4, 5, 6, 7, 8, 9, 10, 11, 12, 13, 14, 15, 16, 17, 18, 19, 20}
 DupLastWins = TRUE
 AllowPanic = TRUE
 Defect = "none"
CONSTRAINT Mark
ACTION_CONSTRAINT ActOK
POSTCONDITION Report
CHECK_DEADLOCK FALSE
