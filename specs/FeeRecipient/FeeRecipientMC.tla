---- MODULE FeeRecipientMC ----
(* Exhaustive design check of FeeRecipient: every interleaving, at request granularity, of the commands the honest
   operators may start (Args), the nodes' fetches and reloads (Nodes: the operators that run a node; NodeApiOn / NodeWatch:
   how it is started), the answers of the API (the well-behaved answer or one of Tampers of it, at most MaxTamper), faults
   on requests (Faults, at most MaxFault), direct posts of a Byzantine operator (ByzPosts, at most MaxByz), planted
   overrides files (Plants, at most MaxPlant) and the clock (Ticks, at most MaxTick).  Commands are started in the order
   of their identifiers (symmetry).  All bounds are here, none in the actions. *)
EXTENDS FeeRecipient
CONSTANTS Honest, Args, ByzPosts, MaxByz, Faults, MaxFault, Tampers, MaxTamper, Plants, MaxPlant, Ticks, MaxTick,
          Nodes, NodeApiOn, NodeWatch, MaxNode, Policy
VARIABLES nbyz, nfault, ntamper, nplant, ntick, nnode
Budget == <<nbyz, nfault, ntamper, nplant, ntick, nnode>>
mcvars == <<vars, nbyz, nfault, ntamper, nplant, ntick, nnode>>

A(kind, vs, fr, gl, ts) == [kind |-> kind, vs |-> vs, fr |-> fr, gl |-> gl, ts |-> ts]
Sign(vs, fr, gl, ts) == A("sign", vs, fr, gl, ts)
Fetch(vs) == A("fetch", vs, 0, 0, -1)
List(vs) == A("list", vs, 0, 0, -1)

ArgsCore == {Sign(<<1>>, 1, 0, 1), Sign(<<1>>, 1, 0, 2), Fetch(<<>>)}
ArgsTwoFr == {Sign(<<1>>, 1, 0, 1), Sign(<<1>>, 2, 0, 2), Fetch(<<>>)}
ArgsTwoFrOnly == {Sign(<<1>>, 1, 0, 1), Sign(<<1>>, 2, 0, 2)}
ArgsNow == {Sign(<<1>>, 1, 0, -1), Sign(<<1>>, 2, 2, -1), Fetch(<<1>>)}
ArgsGas == {Sign(<<1>>, 1, 2, 1), Sign(<<1>>, 1, 0, 1), Sign(<<1>>, 2, 0, 2), Fetch(<<>>)}
ArgsTwo == {Sign(<<1, 2>>, 1, 0, 1), Sign(<<2>>, 2, 0, 1), Fetch(<<>>), Fetch(<<2>>)}
ArgsBad == {Sign(<<1>>, 4, 0, 1), Sign(<<1>>, 90, 0, 1), Sign(<<1, 0>>, 1, 0, 1), Sign(<<1>>, 1, 0, 0), Sign(<<1>>, 2, 0, 2), Fetch(<<0>>)}
ArgsList == {Sign(<<1>>, 1, 0, 1), Sign(<<1>>, 2, 3, 2), Fetch(<<>>), List(<<>>), List(<<1>>)}
ArgsLive == {Sign(<<1>>, 1, 0, -1), Fetch(<<>>)}
ArgsFetch == {Fetch(<<>>)}
ArgsOne == {Sign(<<1>>, 1, 0, 1), Fetch(<<>>)}
ArgsByz == {Sign(<<1>>, 1, 0, 1), Sign(<<1>>, 2, 0, 2), Fetch(<<>>)}

\* direct posts of operator b: its own partial over messages of its choosing, under another share index, for a foreign key
P(share, sv, sk, m) == [kind |-> "post", lock |-> TRUE, share |-> share, parts |-> <<[sv |-> sv, sk |-> sk, m |-> m]>>, filter |-> <<>>]
ByzB(b) == {P(b, 1, b, Msg(1, 1, 1, 1)), P(b, 1, b, Msg(1, 3, 1, 5)), P(b, 1, b, Msg(1, 1, 1, 2)),
            P(1, 1, b, Msg(1, 3, 1, 5)), P(b, 1, b, Msg(0, 3, 1, 5))}
Byz3 == ByzB(3)
ByzNone == {}

FNone == {}
FApi == {<<"pre", 500>>, <<"post", 500>>}
FCodes == {<<"pre", 500>>, <<"post", 500>>, <<"pre", 404>>, <<"post", 409>>}

\* what a faulty API could answer instead of R
AllGroups(st, v, desc) == LET ms == MsgsOf(st, v)
                              ts == SetToSortSeq({m.ts : m \in ms})
                              one(t) == LET S == {m \in ms : m.ts = t}
                                            RECURSIVE seq(_)
                                            seq(X) == IF X = {} THEN <<>> ELSE <<GroupOf(st, Top(X))>> \o seq(X \ {Top(X)}) IN seq(S)
                              asc == Flat([j \in DOMAIN ts |-> one(ts[j])]) IN
                          IF desc THEN [j \in DOMAIN asc |-> asc[Len(asc) + 1 - j]] ELSE asc
Tamper(kind, R, st) ==
  LET each(f(_)) == [j \in DOMAIN R |-> [R[j] EXCEPT !.groups = [h \in DOMAIN R[j].groups |-> f(R[j].groups[h])]]] IN
  CASE kind = "dropsig" -> each(LAMBDA g : IF g.q THEN [g EXCEPT !.sigs = Tail(g.sigs)] ELSE g)
    [] kind = "flipq" -> each(LAMBDA g : [g EXCEPT !.q = TRUE])
    [] kind = "unq" -> each(LAMBDA g : [g EXCEPT !.q = FALSE])
    [] kind = "emptyq" -> each(LAMBDA g : IF g.q THEN [g EXCEPT !.sigs = <<>>] ELSE g)
    [] kind = "shift" -> each(LAMBDA g : [g EXCEPT !.sigs = [j \in DOMAIN g.sigs |-> [g.sigs[j] EXCEPT !.idx = (@ % N) + 1]]])
    [] kind = "rev" -> [j \in DOMAIN R |-> [R[j] EXCEPT !.groups = [h \in DOMAIN R[j].groups |-> R[j].groups[Len(R[j].groups) + 1 - h]]]]
    [] kind = "all" -> [j \in DOMAIN R |-> [R[j] EXCEPT !.groups = AllGroups(st, R[j].v, FALSE)]]
    [] kind = "alldesc" -> [j \in DOMAIN R |-> [R[j] EXCEPT !.groups = AllGroups(st, R[j].v, TRUE)]]
    [] kind = "older" -> [j \in DOMAIN R |-> [R[j] EXCEPT !.groups = LET a == SelectSeq(AllGroups(st, R[j].v, FALSE), LAMBDA g : g.q) IN IF a = <<>> THEN <<>> ELSE <<a[1]>>]]
    [] kind = "empty" -> <<>>
    [] OTHER -> R
TNone == {}
TAll == {"dropsig", "flipq", "unq", "emptyq", "shift", "rev", "all", "alldesc", "older", "empty"}
TSig == {"dropsig", "flipq", "shift", "emptyq"}
TDesc == {"alldesc"}
TGroups == {"rev", "all", "alldesc", "older", "unq", "empty"}

\* overrides files that appear in an operator's directory: <<o, file, shares per entry>>
R_(m, by) == [m |-> m, by |-> by]
F_(regs) == [st |-> "ok", regs |-> regs]
PNone == {}
PSome == {<<1, F_(<<R_(Msg(1, 2, 1, 3), 1)>>), <<{1, 2}>>>>,                                 \* a good override
          <<1, F_(<<R_(Msg(1, 2, 1, 3), -1)>>), <<{1}>>>>,                                   \* too few shares
          <<1, [st |-> "junk", regs |-> <<>>], <<>>>>,                                       \* not JSON
          <<1, F_(<<R_(Msg(0, 2, 1, 3), 0)>>), <<{}>>>>}                                     \* a validator that is not in the lock
POld == {<<1, F_(<<R_(Msg(1, 2, 1, 0), 1)>>), <<{1, 2}>>>>}                                \* a good registration that is NOT newer than the lock's
PSomeOld == PSome \cup POld
PTwo == {<<1, F_(<<R_(Msg(1, 2, 1, 3), 1), R_(Msg(2, 2, 1, 1), -1)>>), <<{1, 2}, {2}>>>>,    \* a good and a bad entry
         <<1, F_(<<R_(Msg(2, 3, 2, 2), 2)>>), <<{1, 2}>>>>}
PDup == {<<1, F_(<<R_(Msg(1, 2, 1, 5), 1), R_(Msg(1, 3, 1, 3), 1)>>), <<{1, 2}, {1, 2}>>>>,  \* one validator twice, the older entry last
         <<1, F_(<<R_(Msg(1, 3, 1, 3), 1), R_(Msg(1, 2, 1, 5), 1)>>), <<{1, 2}, {1, 2}>>>>}

TkNone == {}
TkHour == {3600, 86400}

HasOK(o, kind) == \E c \in Cmds : cmd[c].op = o /\ cmd[c].kind = kind /\ cmd[c].pc \in {"fin", "done"} /\ cmd[c].ok
\* Policy "live": an operator signs until it succeeded once; operator 1 fetches once every honest operator has signed
StartOK(o, a) == CASE Policy = "free" -> TRUE
                   [] Policy = "live" -> IF a.kind = "sign" THEN ~HasOK(o, "sign")
                                         ELSE o = 1 /\ (\A p \in Honest : HasOK(p, "sign")) /\ file[1].st # "ok"

MCInit == Init /\ nbyz = 0 /\ nfault = 0 /\ ntamper = 0 /\ nplant = 0 /\ ntick = 0 /\ nnode = 0

First(c) == \A d \in Cmds : d < c => cmd[d].pc # "idle"
EnvStart == \E c \in Cmds : First(c) /\ \E o \in Honest : \E a \in Args : StartOK(o, a) /\ Start(c, o, a)
Deliver(c) == HonestResp(store, ApiReq(c).filter)
NodeDeliver == HonestResp(store, <<>>)
AtApi(c) == cmd[c].pc \in {"s_fetch", "s_post", "f_fetch", "l_fetch"}
Step(c) == Finish(c) \/ (AtApi(c) /\ ApiStep(c, "none", 0, TRUE, Deliver(c)))
NodeStep(o) == NodeApi(o, TRUE, NodeDeliver) \/ NodeReload(o)
Steps == ((\E c \in Cmds : Step(c)) \/ (\E o \in Nodes : NodeStep(o))) /\ UNCHANGED Budget
Faulty == /\ nfault < MaxFault /\ nfault' = nfault + 1 /\ UNCHANGED <<nbyz, ntamper, nplant, ntick, nnode>>
          /\ \/ \E c \in Cmds : AtApi(c) /\ \E f \in Faults : ApiStep(c, f[1], f[2], FALSE, <<>>)
             \/ (Faults # {} /\ \E o \in Nodes : NodeApi(o, FALSE, <<>>))
Tampering == /\ ntamper < MaxTamper /\ ntamper' = ntamper + 1 /\ UNCHANGED <<nbyz, nfault, nplant, ntick, nnode>>
             /\ \/ \E c \in Cmds : AtApi(c) /\ ApiReq(c).kind = "fetch" /\ \E k \in Tampers : ApiStep(c, "none", 0, TRUE, Tamper(k, Deliver(c), store))
                \/ \E o \in Nodes : \E k \in Tampers : NodeApi(o, TRUE, Tamper(k, NodeDeliver, store))
Byzantine == /\ nbyz < MaxByz /\ nbyz' = nbyz + 1 /\ UNCHANGED <<nfault, ntamper, nplant, ntick, nnode>>
             /\ \E q \in ByzPosts : Byz(q)
Planting == /\ nplant < MaxPlant /\ nplant' = nplant + 1 /\ UNCHANGED <<nbyz, nfault, ntamper, ntick, nnode>>
            /\ \E p \in Plants : (\A j \in DOMAIN p[2].regs : p[2].regs[j].m.v \in Vals \cup {0}) /\ Plant(p[1], p[2], p[3])
Ticking == /\ ntick < MaxTick /\ ntick' = ntick + 1 /\ UNCHANGED <<nbyz, nfault, ntamper, nplant, nnode>>
           /\ \E d \in Ticks : Tick(d)
NodeLife == /\ nnode < MaxNode /\ nnode' = nnode + 1 /\ UNCHANGED <<nbyz, nfault, ntamper, nplant, ntick>>
            /\ \E o \in Nodes : NodeStart(o, NodeApiOn, NodeWatch) \/ NodeStop(o)

MCNext == (EnvStart /\ UNCHANGED Budget) \/ Steps \/ Faulty \/ Tampering \/ Byzantine \/ Planting \/ Ticking \/ NodeLife
MCSpec == MCInit /\ [][MCNext]_mcvars
\* `last` is only read (primed) by the action properties, on the transition that sets it
View == <<store, file, cmd, node, clock, produced, nbyz, nfault, ntamper, nplant, ntick, nnode>>

MCFetchWritesGood == [][FetchWritesGoodA]_mcvars
MCFetchWritesGoodButD1 == [][FetchWritesGoodButD1A]_mcvars
MCFileStable == [][FileStableA]_mcvars
MCNodeKeeps == [][NodeKeepsA]_mcvars
MCSignJoins == [][SignJoinsA]_mcvars

\* the timer: a node that is not fetching has its next fetch ahead, at most a day away
TimerSane == \A o \in Ops : (node[o].up /\ node[o].api /\ ~node[o].pend) => (node[o].due > clock /\ node[o].due <= clock + FetchLate)

(* Liveness (Policy = "live", no Byzantine operator, an API that does not tamper, finitely many faults): the new fee
   recipient reaches the node of operator 1. *)
Fair == /\ \A c \in Cmds : WF_mcvars(Step(c) /\ UNCHANGED Budget)
        /\ WF_mcvars(EnvStart /\ UNCHANGED Budget)
        /\ \A o \in Nodes : WF_mcvars(NodeApi(o, TRUE, NodeDeliver) /\ UNCHANGED Budget) /\ WF_mcvars(NodeReload(o) /\ UNCHANGED Budget)
        /\ WF_mcvars(NodeLife)
FairSpec == MCSpec /\ Fair
Applied == <>[](node[1].up /\ NodeView(1)[1].fr = 1)
Terminates == \A c \in Cmds : (cmd[c].pc \notin {"idle", "done"}) ~> (cmd[c].pc = "done")
====
