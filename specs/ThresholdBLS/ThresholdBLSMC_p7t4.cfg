SPECIFICATION MCSpec
CONSTANTS P = 7
 NMin = 4
 NMax = 4
 TMax = 4
 KeyMode = "id"
 VerifyMode = "pairing"
INVARIANTS TypeOK Algebra
CHECK_DEADLOCK FALSE
