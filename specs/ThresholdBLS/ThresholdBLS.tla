---- MODULE ThresholdBLS ----
(* tbls/tbls.go + tbls/herumi.go (C08): ThresholdSplit (Shamir sharing, one share per id), RecoverSecret /
   RecoverPubkey / ThresholdAggregate (Lagrange interpolation at 0 over the MAP KEYS of the argument), Sign,
   Verify.

   Part 1 -- the algebra, as TLC evaluates it over the prime field GF(P).  BLS is abstracted in the exponent:
   the public key of sk is sk, Sign(sk, h) = sk * h for the message hash h # 0, Verify(pk, h, s) <=> s = pk * h.
   A threshold operation is handed a set of POINTS <<x, y>> (x = the map key, y = share / public share / partial
   signature) and interpolates at 0.  The theorem TLC checks for every polynomial, every subset of size >= T and
   every single substitution:
        the combination verifies under the group key   <=>   every presented point lies on the curve (x, f(x)*h)
   and, for a substituted point, lying on the curve is a COINCIDENCE of the small field: for every case the
   polynomials for which it happens are exactly a 1/P fraction (the kernel of a non-zero linear form), i.e.
   nothing the 255-bit field ever meets.  That is why the oracle of the executor is the RELATION
   (equal / not equal, verifies / does not), never a number.

   Part 2 -- the case machine: one Split, then Recover(S) and/or Combine(S, sub); `obs` holds the case and the
   model's value of each relation.  The machine's states ARE the scenario space of the property; ThresholdBLSMC
   checks Part 1 on every one of them (small n), ThresholdBLSGen prints every one of them as a schedule
   (n <= 7), ThresholdBLSTrace demands the model's relations of what the real code did.

   Shares are addressed by RANK (1..n in the order of the ids ThresholdSplit returned), so the statement does not
   depend on the ids being 1..n; rank n+1 stands for an id that belongs to no share.

   KeyMode / VerifyMode select controls that MUST violate the theorem:
     KeyMode    "id" as coded: interpolation over the map keys        "running": over a running index 1,2,3...
     VerifyMode "pairing" as coded: s = pk * h                        "deser": accepts whatever deserialises *)
EXTENDS Integers, FiniteSets, Sequences, TLC
CONSTANTS P,            \* prime modulus of the algebra (used by ThresholdBLSMC only)
          KeyMode, VerifyMode

------------------------------------------------------------------------------------------------------------
(* Part 1: algebra over GF(P) *)
Zp == 0..(P - 1)
Mod(a) == ((a % P) + P) % P
RECURSIVE Pow(_, _)
Pow(a, e) == IF e = 0 THEN 1 ELSE Mod(a * Pow(a, e - 1))
Inv(a) == Pow(Mod(a), P - 2)                                  \* Fermat
RECURSIVE Eval(_, _, _)
Eval(coef, x, i) == IF i > Len(coef) THEN 0 ELSE Mod(coef[i] + x * Eval(coef, x, i + 1))   \* Horner
F(coef, x) == Eval(coef, x, 1)                                \* coef[1] = f(0) is the secret
RECURSIVE Num(_, _), Den(_, _), SumPts(_, _)
Num(X, xi) == IF X = {} THEN 1 ELSE LET x == CHOOSE y \in X : TRUE IN
                Mod((IF x = xi THEN 1 ELSE x) * Num(X \ {x}, xi))
Den(X, xi) == IF X = {} THEN 1 ELSE LET x == CHOOSE y \in X : TRUE IN
                Mod((IF x = xi THEN 1 ELSE x - xi) * Den(X \ {x}, xi))
Lambda(X, xi) == Mod(Num(X, xi) * Inv(Den(X, xi)))            \* prod_{x # xi} x / (x - xi)
SumPts(pts, X) == IF pts = {} THEN 0 ELSE LET p == CHOOSE q \in pts : TRUE IN
                    Mod(Lambda(X, p[1]) * p[2] + SumPts(pts \ {p}, X))
\* herumi Recover: interpolation at 0 of points with pairwise distinct abscissae.  "running": the map key is ignored
\* and the k-th smallest key is taken to be k.
RankIn(X, x) == Cardinality({y \in X : y <= x})
Interp(pts) == LET X == {p[1] : p \in pts} IN
               IF KeyMode = "id" THEN SumPts(pts, X)
               ELSE LET q == {<<RankIn(X, p[1]), p[2]>> : p \in pts} IN SumPts(q, {p[1] : p \in q})
Verify(pk, h, s) == IF VerifyMode = "pairing" THEN s = Mod(pk * h) ELSE TRUE

------------------------------------------------------------------------------------------------------------
(* Part 2: the case machine *)
VARIABLES n, t,        \* the split under test: n shares, threshold t (0 before Split)
          phase,       \* "new" | "split" | "rec" | "done" | "replayed"
          obs          \* the last evaluated case with the model's relations
vars == <<n, t, phase, obs>>

\* substitutions: [kind, pos, arg] with pos a rank in S
\*   "none"                       all partials honest
\*   "share"  arg = rank j # pos  the partial filed under pos was made with share j's key; arg = 0: with a fresh key
\*   "index"  arg = rank not in S the partial made by pos is filed under the id of rank arg (n+1: an id of no share)
\*   "msg"                        the partial of pos was made over a different message
\*   "junk"   arg = 0 | 1         the partial of pos is 96 bytes that are no signature (0: not decodable, 1: one byte of the
\*                                honest signature flipped): aggregation fails or yields something that does not verify
NoSub == [kind |-> "none", pos |-> 0, arg |-> 0]
Subs(S) == {NoSub}
           \cup UNION {{[kind |-> "share", pos |-> i, arg |-> j] : j \in (0..n) \ {i}} : i \in S}
           \cup {[kind |-> "index", pos |-> i, arg |-> j] : i \in S, j \in (1..(n + 1)) \ S}
           \cup {[kind |-> "msg", pos |-> i, arg |-> 0] : i \in S}
           \cup {[kind |-> "junk", pos |-> i, arg |-> a] : i \in S, a \in {0, 1}}
Subsets == {S \in SUBSET (1..n) : Cardinality(S) >= t}

Init == n = 0 /\ t = 0 /\ phase = "new" /\ obs = [kind |-> "none"]
\* herumi ThresholdSplit: threshold <= 1 is refused; shares for ids 1..total.  (total < threshold is not refused by
\* the code and not quantified by the property: not part of the machine.)
Split(nn, tt) == /\ phase = "new" /\ tt >= 2 /\ nn >= tt
                 /\ n' = nn /\ t' = tt /\ phase' = "split"
                 /\ obs' = [kind |-> "split", ok |-> TRUE, count |-> nn]
\* RecoverSecret / RecoverPubkey from the shares of S
Recover(S) == /\ phase = "split" /\ S \in Subsets
              /\ phase' = "rec" /\ UNCHANGED <<n, t>>
              /\ obs' = [kind |-> "recover", S |-> S, secretEq |-> TRUE, pubEq |-> TRUE]
\* ThresholdAggregate of the partials of S (one of them possibly substituted) against the undivided key
\* (also right after a combination with a substituted partial -- one that failed or did not verify: the next one must be
\*  judged on its own, whatever the earlier call left behind in the implementation)
Combine(S, sub) == /\ \/ phase \in {"split", "rec"}
                      \/ phase \in {"done", "replayed"}               \* a further combination in the same process (after a failed
                                                                    \* or an honest one): judged on its own like the first
                   /\ S \in Subsets /\ sub \in Subs(S)
                   /\ phase' = "done" /\ UNCHANGED <<n, t>>
                   /\ obs' = [kind |-> "combine", S |-> S, sub |-> sub,
                              altered |-> sub.kind # "none",      \* the substituted partial differs from the honest one
                              aggEq |-> sub.kind = "none",        \* aggregate = signature of the undivided key
                              verifies |-> sub.kind = "none"]     \* aggregate verifies under the group public key

(* Replay: verification is a pure function of (public key, message, signature), independent of what was verified
   before.  After the honest combination every signature in play (each partial under its share's public key, the
   aggregate under the group key, the plain BLS aggregate of the partials under VerifyAggregate) is first verified
   against the message it was made over, then THE SAME BYTES are presented for another message, then for the original
   one again; and two signatures over two messages are verified, then each presented for the other's message. *)
Replay == /\ phase = "done" /\ obs.kind = "combine" /\ obs.sub.kind = "none"
          /\ phase' = "replayed" /\ UNCHANGED <<n, t>>
          /\ obs' = [kind |-> "replay", S |-> obs.S,
                     genuine |-> TRUE,           \* every signature verifies for the message it was made over
                     replayVerifies |-> FALSE,   \* none of them verifies for another message afterwards
                     crossVerifies |-> FALSE,    \* nor for the message of another, already verified, signature
                     stillVerifies |-> TRUE]     \* and each still verifies for its own message after that

------------------------------------------------------------------------------------------------------------
(* The link between the two parts: for a case, the points the real code is handed (ranks are ids in the model). *)
Polys == [1..t -> Zp]
Hs == 1..(P - 1)
\* the point presented for rank i of S under substitution sub; w = value of a fresh key, h2 = the other message
Point(c, i, sub, h, h2, w) ==
  IF sub.kind = "none" \/ sub.pos # i THEN <<i, Mod(F(c, i) * h)>>
  ELSE IF sub.kind = "junk" THEN <<i, Mod(w * h)>>                \* no signature at all: algebraically a value off the curve
  ELSE IF sub.kind = "share" THEN <<i, Mod((IF sub.arg = 0 THEN w ELSE F(c, sub.arg)) * h)>>
  ELSE IF sub.kind = "index" THEN <<sub.arg, Mod(F(c, i) * h)>>
  ELSE <<i, Mod(F(c, i) * h2)>>
Points(c, S, sub, h, h2, w) == {Point(c, i, sub, h, h2, w) : i \in S}
OnCurve(c, pt, h) == pt[2] = Mod(F(c, pt[1]) * h)
AllOnCurve(c, S, sub, h, h2, w) == \A pt \in Points(c, S, sub, h, h2, w) : OnCurve(c, pt, h)

\* any >= t shares recover the secret (and, pk = sk in the exponent, the group public key)
RecoverThm(S) == \A c \in Polys : Interp({<<i, F(c, i)>> : i \in S}) = c[1]
(* verifies <=> all points on the curve; equal to the direct signature <=> verifies; the honest combination is on the
   curve; a substituted one is on the curve for exactly a 1/P fraction of the polynomials (never, for a fresh key that
   differs from the honest one).  Everything is linear in the message hash, so h = 1 and h2 = the RATIO of the two
   hashes (any element but 0 and 1) lose no generality; the Lagrange coefficients depend on the abscissae only and are
   tabulated once per case (lam) -- Agg(pts) is Interp(pts) with that table. *)
RECURSIVE SumL(_, _)
SumL(pts, lam) == IF pts = {} THEN 0 ELSE LET p == CHOOSE q \in pts : TRUE IN Mod(lam[p[1]] * p[2] + SumL(pts \ {p}, lam))
CombineThm(S, sub) ==
  LET X == IF sub.kind = "index" THEN (S \ {sub.pos}) \cup {sub.arg} ELSE S
      Key(x) == IF KeyMode = "id" THEN x ELSE RankIn(X, x)
      K == {Key(x) : x \in X}
      lam == [x \in X |-> Lambda(K, Key(x))]
      fresh == (sub.kind = "share" /\ sub.arg = 0) \/ sub.kind = "junk"
      H2s == IF sub.kind = "msg" THEN 2..(P - 1) ELSE {2}
  IN
  /\ \A c \in Polys : \A h2 \in H2s : \A w \in (IF fresh THEN Zp ELSE {0}) :
       LET pts == Points(c, S, sub, 1, h2, w)
           agg == SumL(pts, lam)
           on == \A pt \in pts : OnCurve(c, pt, 1)
       IN /\ Verify(c[1], 1, agg) <=> on
          /\ (agg = c[1]) <=> on
          /\ sub.kind = "none" => on
  /\ sub.kind # "none" =>
       \A h2 \in H2s :
          \* a fresh key equal to the honest one is no substitution: take one that differs
          LET co == {c \in Polys : AllOnCurve(c, S, sub, 1, h2, IF fresh THEN Mod(F(c, sub.pos) + 1) ELSE 0)}
          IN IF fresh THEN co = {} ELSE Cardinality(co) * P = Cardinality(Polys)
\* a signature by a non-zero key never verifies for another message (h2 = the ratio of the hashes), whichever of the
\* two messages it was made over; the keys: every share of S, the group key, the sum of the shares (VerifyAggregate)
RECURSIVE SumF(_, _)
SumF(c, S) == IF S = {} THEN 0 ELSE LET i == CHOOSE x \in S : TRUE IN Mod(F(c, i) + SumF(c, S \ {i}))
ReplayThm(S) == \A c \in Polys : \A h2 \in 2..(P - 1) :
                  \A k \in {F(c, i) : i \in S} \cup {c[1], SumF(c, S)} :
                     /\ Verify(k, 1, k) /\ Verify(k, h2, Mod(k * h2))
                     /\ k # 0 => (~Verify(k, h2, k) /\ ~Verify(k, 1, Mod(k * h2)))
\* the model's relations are the field's, coincidences aside
Algebra == /\ obs.kind = "recover" => (RecoverThm(obs.S) /\ obs.secretEq /\ obs.pubEq)
           /\ obs.kind = "combine" => /\ CombineThm(obs.S, obs.sub)
                                      /\ obs.verifies = (obs.sub.kind = "none") /\ obs.aggEq = obs.verifies
           /\ obs.kind = "replay" => /\ ReplayThm(obs.S)
                                     /\ obs.genuine /\ obs.stillVerifies /\ ~obs.replayVerifies /\ ~obs.crossVerifies
TypeOK == /\ phase \in {"new", "split", "rec", "done", "replayed"}
          /\ phase # "new" => (t >= 2 /\ n >= t)
          /\ obs.kind \in {"none", "split", "recover", "combine", "replay"}
====
