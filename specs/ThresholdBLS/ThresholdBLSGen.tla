---- MODULE ThresholdBLSGen ----
(* The scenario space of the property, enumerated by plain model checking: the reachable "done" states of the case
   machine ARE the cases -- every n in NMin..NMax, every 2 <= t <= n, every subset of at least t shares, the honest
   combination and every single substitution.  Each case is printed once as a schedule for the executor (Split, then
   Recover for the honest case, then Combine, then Replay for the honest case); secrets and messages are seeded by checks/c08.py. *)
EXTENDS ThresholdBLS, Json
CONSTANTS NMin, NMax
SetToSortedSeq(S) == LET RECURSIVE f(_) f(R) == IF R = {} THEN <<>> ELSE LET m == CHOOSE x \in R : \A y \in R : x <= y
                                                                          IN <<m>> \o f(R \ {m}) IN f(S)
GenNext == \/ \E nn \in NMin..NMax : \E tt \in 2..nn : Split(nn, tt)
           \/ \E S \in SUBSET (1..n) : \E sub \in Subs(S) : Combine(S, sub)
GenSpec == Init /\ [][GenNext]_vars
Sched == LET S == SetToSortedSeq(obs.S) IN
         <<[ev |-> "Split", n |-> n, t |-> t]>>
         \o (IF obs.sub.kind = "none" THEN <<[ev |-> "Recover", S |-> S]>> ELSE <<>>)
         \o <<[ev |-> "Combine", S |-> S, sub |-> obs.sub]>>
         \o (IF obs.sub.kind = "none" THEN <<[ev |-> "Replay"]>> ELSE <<>>)
Emit == phase # "done" \/ PrintT("@@SCHED@@" \o ToJson(Sched))
====
