SPECIFICATION MCSpec
CONSTANTS P = 5
 NMin = 3
 NMax = 3
 TMax = 2
 KeyMode = "running"
 VerifyMode = "pairing"
INVARIANTS TypeOK Algebra
CHECK_DEADLOCK FALSE
