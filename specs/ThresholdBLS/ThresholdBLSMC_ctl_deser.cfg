SPECIFICATION MCSpec
CONSTANTS P = 5
 NMin = 3
 NMax = 3
 TMax = 2
 KeyMode = "id"
 VerifyMode = "deser"
INVARIANTS TypeOK Algebra
CHECK_DEADLOCK FALSE
