SPECIFICATION MCSpec
CONSTANTS P = 11
 NMin = 4
 NMax = 4
 TMax = 2
 KeyMode = "id"
 VerifyMode = "pairing"
INVARIANTS TypeOK Algebra
CHECK_DEADLOCK FALSE
