SPECIFICATION GenSpec
CONSTANTS P = 2
 KeyMode = "id"
 VerifyMode = "pairing"
 NMin = 2
 NMax = 7
INVARIANTS Emit
CHECK_DEADLOCK FALSE
