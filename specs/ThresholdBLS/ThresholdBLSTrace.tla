---- MODULE ThresholdBLSTrace ----
(* Trace validation for tbls (harness/c08).  One trace = one case; the executor logs observed RELATIONS:
     {"ev":"Reset","sid":k}
     {"ev":"Split","n":..,"t":..,"ok":bool,"ids":[ids of the returned shares, sorted],...}
     {"ev":"Recover","S":[ranks],"err":bool,"secretEq":bool,"pubEq":bool}
     {"ev":"Combine","S":[ranks],"sub":{kind,pos,arg},"setupErr":bool,"aggErr":bool,"altered":bool,"aggEqAll":bool,
      "aggEqAny":bool,"verifiesAll":bool,"verifiesAny":bool}
     {"ev":"Replay","genuine":bool,"replayVerifies":bool,"crossVerifies":bool,"stillVerifies":bool,...per-kind detail}
       same process, same signature bytes: genuine verification first, then against another message, then again
   The tbls functions range over Go maps, so the executor repeats each of them: "All" = the relation held in every
   repetition, "Any" = in at least one.  A relation the model says holds must hold in ALL, one it says fails in NONE.
   Each event is bound to the machine's action and the logged relations must be the model's (obs').  Where the
   statement is silent the binding is open: whether a substituted combination fails inside ThresholdAggregate or only
   at Verify ("aggErr"), and which ids ThresholdSplit hands out (only: n of them, pairwise distinct). *)
EXTENDS ThresholdBLS, TraceCommon
tvars == <<vars, tr, l>>
TraceInit == Init /\ TrInit
TReset == IsEvent("Reset") /\ l = 1 /\ UNCHANGED vars
TSplit == /\ IsEvent("Split") /\ Split(Ev.n, Ev.t)
          /\ Ev.ok = obs'.ok /\ Len(Ev.ids) = obs'.count /\ Cardinality(SeqToSet(Ev.ids)) = obs'.count
TRecover == /\ IsEvent("Recover") /\ Recover(SeqToSet(Ev.S))
            /\ Ev.err = FALSE /\ Ev.secretEq = obs'.secretEq /\ Ev.pubEq = obs'.pubEq
TCombine == /\ IsEvent("Combine") /\ Combine(SeqToSet(Ev.S), Ev.sub)
            /\ Ev.setupErr = FALSE
            /\ Ev.altered = obs'.altered
            /\ IF obs'.aggEq THEN Ev.aggEqAll ELSE ~Ev.aggEqAny
            /\ IF obs'.verifies THEN Ev.verifiesAll ELSE ~Ev.verifiesAny
            /\ (obs'.verifies => Ev.aggErr = FALSE)
TReplay == /\ IsEvent("Replay") /\ Replay
           /\ Ev.setupErr = FALSE
           /\ Ev.genuine = obs'.genuine /\ Ev.replayVerifies = obs'.replayVerifies
           /\ Ev.crossVerifies = obs'.crossVerifies /\ Ev.stillVerifies = obs'.stillVerifies
\* the batch's witness (a key, a message, its signature and a signature by another key), verified before the first and after
\* the last case of the process: valid stays valid, forged stays forged
TRevisit == IsEvent("Revisit") /\ Ev.validBefore /\ Ev.validAfter /\ ~Ev.forgedBefore /\ ~Ev.forgedAfter /\ UNCHANGED vars
TraceNext == TReset \/ TSplit \/ TRecover \/ TCombine \/ TReplay \/ TRevisit
TraceSpec == TraceInit /\ [][TraceNext]_tvars
Mark == CheckInv("TypeOK", TypeOK) /\ HWMark
====
