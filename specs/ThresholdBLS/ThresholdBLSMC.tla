---- MODULE ThresholdBLSMC ----
(* Exhaustive check of the algebra on every case of the machine for NMin <= n <= NMax, 2 <= t <= min(n, TMax):
   every subset of at least t shares, every single substitution, every polynomial over GF(P), every ratio of
   two distinct message hashes, every value of a fresh key.  The states of this model are the cases. *)
EXTENDS ThresholdBLS
CONSTANTS NMin, NMax, TMax
ASSUME P > NMax + 1
MCNext == \/ \E nn \in NMin..NMax : \E tt \in 2..(IF nn < TMax THEN nn ELSE TMax) : Split(nn, tt)
          \/ \E S \in SUBSET (1..n) : Recover(S)
          \/ \E S \in SUBSET (1..n) : \E sub \in Subs(S) : Combine(S, sub)
          \/ Replay
MCSpec == Init /\ [][MCNext]_vars
====
