SPECIFICATION MCSpec
CONSTANTS P = 5
 NMin = 2
 NMax = 3
 TMax = 3
 KeyMode = "id"
 VerifyMode = "pairing"
INVARIANTS TypeOK Algebra
CHECK_DEADLOCK FALSE
