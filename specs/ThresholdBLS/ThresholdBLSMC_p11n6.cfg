SPECIFICATION MCSpec
CONSTANTS P = 11
 NMin = 6
 NMax = 6
 TMax = 2
 KeyMode = "id"
 VerifyMode = "pairing"
INVARIANTS TypeOK Algebra
CHECK_DEADLOCK FALSE
