SPECIFICATION MCSpec
CONSTANTS P = 13
 NMin = 7
 NMax = 7
 TMax = 2
 KeyMode = "id"
 VerifyMode = "pairing"
INVARIANTS TypeOK Algebra
CHECK_DEADLOCK FALSE
