SPECIFICATION TraceSpec
CONSTANTS P = 2
 KeyMode = "id"
 VerifyMode = "pairing"
CONSTRAINT Mark
POSTCONDITION Report
CHECK_DEADLOCK FALSE
