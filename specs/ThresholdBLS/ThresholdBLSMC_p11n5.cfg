SPECIFICATION MCSpec
CONSTANTS P = 11
 NMin = 5
 NMax = 5
 TMax = 3
 KeyMode = "id"
 VerifyMode = "pairing"
INVARIANTS TypeOK Algebra
CHECK_DEADLOCK FALSE
