SPECIFICATION MCSpec
CONSTANTS
 Objs = {1, 2}
 Mode = "coded"
 Defect = "incExtraAllRounds"
 Cfgs <- CInc
 MaxCalls = 2
 Rounds = {1, 2}
 Steps = {250, 1000}
 MaxTime = 2000
INVARIANTS AsDocumented
VIEW View
CHECK_DEADLOCK FALSE
