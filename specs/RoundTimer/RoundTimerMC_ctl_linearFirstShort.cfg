SPECIFICATION MCSpec
CONSTANTS
 Objs = {1, 2}
 Mode = "coded"
 Defect = "linearFirstShort"
 Cfgs <- CLinearDirect
 MaxCalls = 2
 Rounds = {1, 2}
 Steps = {200, 500}
 MaxTime = 1600
INVARIANTS AsDocumented
VIEW View
CHECK_DEADLOCK FALSE
