SPECIFICATION MCSpec
CONSTANTS
 Objs = {1, 2}
 Mode = "coded"
 Defect = "late"
 Cfgs <- CLinear
 MaxCalls = 2
 Rounds = {1, 2}
 Steps = {200, 1000}
 MaxTime = 2000
INVARIANTS Prompt
VIEW View
CHECK_DEADLOCK FALSE
