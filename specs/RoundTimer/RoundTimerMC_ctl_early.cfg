SPECIFICATION MCSpec
CONSTANTS
 Objs = {1, 2}
 Mode = "coded"
 Defect = "early"
 Cfgs <- CLinear
 MaxCalls = 2
 Rounds = {1, 2}
 Steps = {200, 1000}
 MaxTime = 2000
INVARIANTS NeverEarly
VIEW View
CHECK_DEADLOCK FALSE
