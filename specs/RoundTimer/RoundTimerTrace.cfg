SPECIFICATION TraceSpec
CONSTANTS
 Objs = {1, 2}
 Mode = "contract"
 Defect = "none"
CONSTRAINT Mark
POSTCONDITION Report
CHECK_DEADLOCK FALSE
