SPECIFICATION MCSpec
CONSTANTS
 Objs = {1, 2}
 Mode = "coded"
 Defect = "sharedMemory"
 Cfgs <- CEagerRel
 MaxCalls = 3
 Rounds = {1, 2}
 Steps = {500, 1000}
 MaxTime = 3000
INVARIANTS AsDocumented
VIEW View
CHECK_DEADLOCK FALSE
