SPECIFICATION MCSpec
CONSTANTS
 Objs = {1}
 Mode = "coded"
 Defect = "none"
 Cfgs <- CObsRel
 MaxCalls = 4
 Rounds = {1, 2}
 Steps = {1000}
 MaxTime = 5000
INVARIANTS QbftRoundHasTime Safety
CHECK_DEADLOCK FALSE
