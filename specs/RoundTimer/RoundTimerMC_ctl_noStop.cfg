SPECIFICATION MCSpec
CONSTANTS
 Objs = {1, 2}
 Mode = "coded"
 Defect = "noStop"
 Cfgs <- CInc
 MaxCalls = 2
 Rounds = {1, 2}
 Steps = {250, 1000}
 MaxTime = 2000
INVARIANTS NoFireAfterStop
VIEW View
CHECK_DEADLOCK FALSE
