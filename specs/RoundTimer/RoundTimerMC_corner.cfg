SPECIFICATION MCSpec
CONSTANTS
 Objs = {1, 2}
 Mode = "coded"
 Defect = "none"
 Cfgs <- CCorner
 MaxCalls = 2
 Rounds <- CornerRounds
 Steps = {250, 500}
 MaxTime = 1500
INVARIANTS Safety
VIEW View
INVARIANTS CornerFiresAtOnce
CHECK_DEADLOCK FALSE
