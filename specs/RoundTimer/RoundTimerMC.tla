---- MODULE RoundTimerMC ----
(* Exhaustive design check: every sequence of Timer(round) calls on two timer objects (rounds in any order, repeats),
   stop functions at every position (also repeated and after the channel fired), clock steps from Steps.  Bounds (all
   here, none in the actions): MaxCalls, Rounds, Steps, MaxTime.  The configuration (feature flags, genesis, how the two
   objects were made and for which duty) is drawn in the initial state from the family Cfgs. *)
EXTENDS RoundTimer
CONSTANTS Cfgs, MaxCalls, Rounds, Steps, MaxTime

Flags(l, e, p) == [linear |-> l, eager |-> e, proposal |-> p]
Obj(via, timing, dtype, slot) == [via |-> via, timing |-> timing, dtype |-> dtype, slot |-> slot, fake |-> TRUE]
Mk(f, hasgen, genesis, slotms, o1, o2) ==
  [linear |-> f.linear, eager |-> f.eager, proposal |-> f.proposal, hasgen |-> hasgen, genesis |-> genesis, slotms |-> slotms,
   obj |-> <<o1, o2>>]
AllFlags == {Flags(l, e, p) : l \in BOOLEAN, e \in BOOLEAN, p \in BOOLEAN}
\* increasing policy, made directly: a proposer and an attester instance
CInc == {Mk(Flags(FALSE, FALSE, p), FALSE, 0, 0, Obj("inc", FALSE, "proposer", 0), Obj("inc", FALSE, "attester", 0)) : p \in BOOLEAN}
\* eager policy on relative time (constructors without genesis / with a zero genesis)
CEagerRel == {Mk(Flags(FALSE, TRUE, p), hg, 0, 0, Obj("eager", FALSE, "proposer", 0), Obj("eager", hg, "attester", 0)) :
                p \in BOOLEAN, hg \in BOOLEAN}
\* eager policy with absolute deadlines: duty start before, at and after the clock's start; two duties of one slot
CEagerAbs == {Mk(Flags(FALSE, TRUE, p), TRUE, g, 3000, Obj("func", TRUE, "proposer", 1), Obj("func", TRUE, "attester", 0)) :
                p \in BOOLEAN, g \in {-4000, -3000, -2000}}
\* linear: proposer duties only, the other duty falls back
CLinear == {Mk(Flags(TRUE, e, p), TRUE, -3000, 3000, Obj("func", TRUE, "proposer", 1), Obj("func", TRUE, "aggregator", 0)) :
                e \in BOOLEAN, p \in BOOLEAN}
CLinearDirect == {Mk(Flags(FALSE, FALSE, p), FALSE, 0, 0, Obj("linear", FALSE, "proposer", 0), Obj("linear", FALSE, "unknown", 0)) :
                p \in BOOLEAN}
\* selection: all flag combinations x duty
CSelect == {Mk(f, TRUE, 0, 3000, Obj("func", TRUE, d1, 0), Obj("func", TRUE, d2, 0)) :
                f \in AllFlags, d1 \in {"proposer"}, d2 \in {"attester", "randao"}}
\* corners: rounds <= 0 as coded
\* one proposer instance with genesis such that the duty starts at the clock's start (absolute) / no genesis (relative)
CObsAbs == {Mk(Flags(FALSE, TRUE, FALSE), TRUE, -3000, 3000, Obj("func", TRUE, "proposer", 1), Obj("func", TRUE, "proposer", 1))}
CObsRel == {Mk(Flags(FALSE, TRUE, FALSE), FALSE, 0, 0, Obj("eager", FALSE, "proposer", 0), Obj("eager", FALSE, "proposer", 0))}
CCorner == {Mk(Flags(FALSE, TRUE, TRUE), FALSE, 0, 0, Obj("eager", FALSE, "proposer", 0), Obj("linear", FALSE, "unknown", 0)),
            Mk(Flags(FALSE, FALSE, TRUE), FALSE, 0, 0, Obj("inc", FALSE, "proposer", 0), Obj("inc", FALSE, "unknown", 0))}

MCInit == Init0 /\ cfg \in Cfgs
MCNext == \/ \E o \in Objs, r \in Rounds : Len(calls) < MaxCalls /\ Call(o, r)
          \/ \E k \in DOMAIN calls : Stop(k) \/ \E v \in calls[k].set : Fire(k, v)
          \/ \E d \in Steps : now + d <= MaxTime /\ Advance(d)
MCSpec == MCInit /\ [][MCNext]_vars
(* VIEW: calls are identified up to their position in the sequence.  The future depends on the bag of armed calls (with
   their bookkeeping), on the number of calls made, per (object, round) on how many calls there were (0, 1, more) and when the
   first one was made (eager policy on relative time), on the memory `first` -- not on the order or the bookkeeping of the calls
   that are over.  The truth of Safety is part of the view, so a violating state is never identified with a good one. *)
ArmedIdx == {k \in DOMAIN calls : Armed(k)}
ArmedBag == {<<calls[k], Cardinality({j \in ArmedIdx : calls[j] = calls[k]})>> : k \in ArmedIdx}
Odd == {calls[k] : k \in waiting \ ArmedIdx}
Hist == [o \in Objs, r \in Rounds |->
           LET P == Prior(o, r) IN
             IF P = {} THEN <<0, 0>>
             ELSE <<IF Cardinality(P) >= 2 THEN 2 ELSE 1, IF Kind(o) = "eager" /\ ~UsesTiming(o) THEN calls[MinOf(P)].t ELSE 0>>]
View == <<cfg, now, Len(calls), ArmedBag, Odd, Hist, first, Safety>>
CornerRounds == {-1, 0, 1}

(* coded corners, as observations (documentation silent): a round whose duration is <= 0 fires at once *)
CornerFiresAtOnce == \A k \in DOMAIN calls : (calls[k].r <= 0 /\ Kind(calls[k].o) # "eager" /\ Timeout(calls[k].o, calls[k].r) <= 0) => calls[k].set = {calls[k].t}


(* OBSERVATION (as coded, reported by the obs_ configurations; system-level consequence: known finding
   C04-eager-timer-tie-desync).  qbft.Run enters round r at the instant the timer of round r-1 fired.  With absolute
   deadlines (genesis + slot given: production) the first deadline of round r is dutyStart + r s whatever happened before: a
   round r-1 that was doubled (justified PRE-PREPARE seen) ends at dutyStart + 2(r-1) s >= dutyStart + r s, so round r starts
   with a deadline that has passed -- its channel fires at once, the round has no time at all (and without doubling every
   round lasts 1 s, not "1s, 2s, 3s").  On relative time (constructors without genesis) every round has its r seconds. *)
EnteredAtTimeout(k) == \E j \in 1..(k - 1) : /\ calls[j].o = calls[k].o /\ calls[j].r = calls[k].r - 1
                                             /\ calls[j].nf > 0 /\ calls[j].fat = calls[k].t /\ calls[j].ft = calls[k].t
                                             /\ \A i \in 1..j : \A a \in calls[i].set : a > calls[i].t     \* nothing was late before
QbftRoundHasTime == \A k \in DOMAIN calls :
                      (Kind(calls[k].o) = "eager" /\ {j \in 1..(k - 1) : calls[j].o = calls[k].o /\ calls[j].r = calls[k].r} = {}
                       /\ EnteredAtTimeout(k)) => \A a \in calls[k].set : a > calls[k].t

(* Liveness: with a clock that keeps going, every armed channel whose deadline lies within the model's horizon fires
   (or is stopped). *)
FireK(k) == IF k \in DOMAIN calls THEN \E v \in calls[k].set : Fire(k, v) ELSE FALSE
Fair == WF_vars(\E d \in Steps : now + d <= MaxTime /\ Advance(d)) /\ \A k \in 1..MaxCalls : WF_vars(FireK(k))
FairSpec == MCSpec /\ Fair
Horizon == MaxTime - (CHOOSE s \in Steps : \A x \in Steps : s >= x)
InHorizon(k) == IF k \in DOMAIN calls THEN \A a \in calls[k].set : a <= Horizon ELSE FALSE
Fired(k) == IF k \in DOMAIN calls THEN calls[k].nf > 0 ELSE FALSE
Over(k) == IF k \in DOMAIN calls THEN calls[k].nf > 0 \/ calls[k].stopAt # -1 ELSE FALSE
EveryTimerFires == \A k \in 1..MaxCalls : InHorizon(k) ~> Over(k)
\* NOT a property (control): stopped channels fire too
StoppedFire == \A k \in 1..MaxCalls : InHorizon(k) ~> Fired(k)
====
