SPECIFICATION MCSpec
CONSTANTS
 Objs = {1, 2}
 Mode = "contract"
 Defect = "none"
 Cfgs <- CEagerRel
 MaxCalls = 3
 Rounds = {1}
 Steps = {500, 1000}
 MaxTime = 4000
INVARIANTS Safety
VIEW View
CHECK_DEADLOCK FALSE
