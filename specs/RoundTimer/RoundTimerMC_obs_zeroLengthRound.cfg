SPECIFICATION MCSpec
CONSTANTS
 Objs = {1}
 Mode = "coded"
 Defect = "none"
 Cfgs <- CObsAbs
 MaxCalls = 3
 Rounds = {1, 2}
 Steps = {1000}
 MaxTime = 4000
INVARIANTS QbftRoundHasTime
CHECK_DEADLOCK FALSE
