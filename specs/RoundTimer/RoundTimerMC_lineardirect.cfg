SPECIFICATION MCSpec
CONSTANTS
 Objs = {1, 2}
 Mode = "coded"
 Defect = "none"
 Cfgs <- CLinearDirect
 MaxCalls = 3
 Rounds = {1, 2, 3}
 Steps = {200, 500}
 MaxTime = 1600
INVARIANTS Safety
VIEW View
CHECK_DEADLOCK FALSE
