SPECIFICATION FairSpec
CONSTANTS
 Objs = {1, 2}
 Mode = "coded"
 Defect = "none"
 Cfgs <- CEagerAbs
 MaxCalls = 3
 Rounds = {1, 2}
 Steps = {500, 1000}
 MaxTime = 3000
PROPERTIES EveryTimerFires
CHECK_DEADLOCK FALSE
