---- MODULE RoundTimerTrace ----
(* Trace validation for core/consensus/timer/roundtimer.go.  The executor (harness/roundtimer) runs every schedule inside a
   testing/synctest bubble; objects made with a *Clock constructor hang on a clockwork fake clock that is advanced in
   lock step with the bubble's virtual clock, the others (incl. everything GetRoundTimerFunc returns) on the real clock of
   the bubble.  Times are milliseconds since the bubble's start.  After EVERY step the executor polls all channels it
   was ever handed (also those that fired or were stopped) and logs what it received, then `Polled`:

     Reset  {sid, linear, eager, proposal, hasgen, genesis, slotms, objs: [{ctor, dtype, slot}]}
     Type   {o, type, eager}                  obj.Type(), Type().Eager()
     Call   {o, k, r, t}                      k-th call overall: obj.Timer(r)          (|r| > 1000000 is logged as +-1000001)
     Stop   {k, t}                            the stop function of call k
     Adv    {d, t}                            both clocks advanced by d, t = reading afterwards
     Fire   {k, v, sub, t}                    channel k delivered the time value v (sub: its sub-millisecond part in ns)
     Polled {t, w}                            all channels polled; w = number of waiters of the fake clock
     End

   Call/Stop/Adv are bound to the design spec's actions in CONTRACT mode (deadline sets from the documentation), Fire to
   Fire(k, v): the value a channel delivers is the instant its timer was due, so v must be an allowed deadline of the call,
   reached by the clock (v <= t) and not yet reached at the previous poll.  Polled demands Quiet: every channel whose (last
   allowed) deadline has been reached has fired, and w equals the number of armed calls on fake-clock objects (nothing is
   left behind by a stop function, nothing is missing). *)
EXTENDS RoundTimer, TraceCommon
tvars == <<vars, tr, l>>

IncCtors == {"inc", "incClock", "incDuty", "incDutyClock"}
EagerCtors == {"eager", "eagerClock", "eagerDuty", "eagerDutyClock", "eagerTiming", "eagerTimingClock"}
LinearCtors == {"linear", "linearClock", "linearDuty", "linearDutyClock"}
TimingCtors == {"func", "eagerTiming", "eagerTimingClock"}
FakeCtors == {"incClock", "incDutyClock", "eagerClock", "eagerDutyClock", "eagerTimingClock", "linearClock", "linearDutyClock"}
ViaOf(c) == CASE c = "func" -> "func" [] c \in IncCtors -> "inc" [] c \in EagerCtors -> "eager" [] c \in LinearCtors -> "linear"
ObjOf(x) == [via |-> ViaOf(x.ctor), timing |-> x.ctor \in TimingCtors, fake |-> x.ctor \in FakeCtors, dtype |-> x.dtype, slot |-> x.slot]
CfgOf(e) == [linear |-> e.linear, eager |-> e.eager, proposal |-> e.proposal, hasgen |-> e.hasgen, genesis |-> e.genesis,
             slotms |-> e.slotms, obj |-> [o \in DOMAIN e.objs |-> ObjOf(e.objs[o])]]
TraceInit == TrInit /\ Init0 /\ cfg = CfgOf(Traces[tr][1])

Named(name, p) == IF p THEN TRUE ELSE InvFail(name)
AtT == now = Ev.t
FakeWaiters == Cardinality({k \in waiting : cfg.obj[calls[k].o].fake})

TReset == IsEvent("Reset") /\ l = 1 /\ UNCHANGED vars
TType == /\ IsEvent("Type") /\ Ev.o \in Objs /\ UNCHANGED vars
         /\ Named("TypeMatchesFlags", Ev.type = TypeName(DocKind(Ev.o)) /\ Ev.eager = (DocKind(Ev.o) = "eager"))
TCall == IsEvent("Call") /\ AtT /\ Ev.o \in Objs /\ Ev.k = Len(calls) + 1 /\ Call(Ev.o, Ev.r)
TStop == IsEvent("Stop") /\ AtT /\ Stop(Ev.k)
TAdv == IsEvent("Adv") /\ Advance(Ev.d) /\ now' = Ev.t
TFire == /\ IsEvent("Fire") /\ AtT /\ Ev.k \in DOMAIN calls
         /\ Named("FireAfterStop", calls[Ev.k].stopAt = -1)
         /\ Named("FireTwice", calls[Ev.k].nf = 0)
         /\ Named("FireWholeMs", Ev.sub = 0)
         /\ Named("FireNotEarly", Ev.v <= now)
         /\ Named("FireAtFirstReading", Ev.v > calls[Ev.k].since)
         /\ Named("FireAtDeadline", calls[Ev.k].free \/ Ev.v \in calls[Ev.k].set)
         /\ Fire(Ev.k, Ev.v)
TPolled == /\ IsEvent("Polled") /\ AtT /\ UNCHANGED vars
           /\ Named("FiredByNow", Quiet)
           /\ Named("ClockWaiters", Ev.w = FakeWaiters)
TEnd == IsEvent("End") /\ UNCHANGED vars
TraceNext == TReset \/ TType \/ TCall \/ TStop \/ TAdv \/ TFire \/ TPolled \/ TEnd
TraceSpec == TraceInit /\ [][TraceNext]_tvars
Mark == /\ CheckInv("TypeOK", TypeOK) /\ CheckInv("AtMostOnce", AtMostOnce) /\ CheckInv("NeverEarly", NeverEarly)
        /\ CheckInv("Prompt", Prompt) /\ CheckInv("NoFireAfterStop", NoFireAfterStop) /\ CheckInv("NoLeak", NoLeak)
        /\ HWMark
====
