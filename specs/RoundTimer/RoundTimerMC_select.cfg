SPECIFICATION MCSpec
CONSTANTS
 Objs = {1, 2}
 Mode = "coded"
 Defect = "none"
 Cfgs <- CSelect
 MaxCalls = 2
 Rounds = {1}
 Steps = {1000}
 MaxTime = 2000
INVARIANTS Safety
VIEW View
CHECK_DEADLOCK FALSE
