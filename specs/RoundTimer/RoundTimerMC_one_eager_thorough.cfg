SPECIFICATION MCSpec
CONSTANTS
 Objs = {1}
 Mode = "coded"
 Defect = "none"
 Cfgs <- CEagerRel
 MaxCalls = 5
 Rounds = {1, 2, 3, 4}
 Steps = {1000}
 MaxTime = 6000
INVARIANTS Safety
VIEW View
CHECK_DEADLOCK FALSE
