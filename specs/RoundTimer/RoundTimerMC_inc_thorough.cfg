SPECIFICATION MCSpec
CONSTANTS
 Objs = {1, 2}
 Mode = "coded"
 Defect = "none"
 Cfgs <- CInc
 MaxCalls = 4
 Rounds = {1, 2}
 Steps = {250, 1000}
 MaxTime = 2000
INVARIANTS Safety
VIEW View
CHECK_DEADLOCK FALSE
