SPECIFICATION MCSpec
CONSTANTS
 Objs = {1, 2}
 Mode = "coded"
 Defect = "resetOnRepeat"
 Cfgs <- CEagerRel
 MaxCalls = 3
 Rounds = {1, 2}
 Steps = {500, 1000}
 MaxTime = 3000
INVARIANTS DoubleNotReset
VIEW View
CHECK_DEADLOCK FALSE
