---- MODULE RoundTimerGen ----
(* Schedule generation: behaviours of the design spec (coded mode); the ENVIRONMENT's moves -- Timer(round) on an object,
   a stop function, a clock step -- are recorded in the history variable `hist`, preceded by the configuration drawn in the
   initial state.  What fires when is the implementation's business.  Run with -simulate. *)
EXTENDS RoundTimer, Json, TLC
CONSTANTS MaxCalls, Rounds, Steps, GenLen
VARIABLES hist
GObjs == {[via |-> v, timing |-> tm, dtype |-> d, slot |-> s, fake |-> TRUE] :
            v \in Vias, tm \in BOOLEAN, d \in {"unknown", "proposer", "attester", "aggregator"}, s \in {0, 1}}
GOK(x) == /\ (x.via = "func" => x.timing)
          /\ (x.via \in {"inc", "linear"} => ~x.timing)
          /\ (x.dtype = "unknown" => x.slot = 0)
GenCfgs == {[linear |-> l, eager |-> e, proposal |-> p, hasgen |-> hg, genesis |-> g, slotms |-> sm, obj |-> <<o1, o2>>] :
              l \in BOOLEAN, e \in BOOLEAN, p \in BOOLEAN, hg \in BOOLEAN, g \in {-4000, 0, 1500}, sm \in {0, 3000},
              o1 \in {x \in GObjs : GOK(x)}, o2 \in {x \in GObjs : GOK(x) /\ x.via \in {"func", "eager"}}}
GenInit == Init0 /\ cfg \in GenCfgs /\ hist = <<>>
Rec(e) == hist' = Append(hist, e)
GenNext ==
  \/ \E o \in Objs, r \in Rounds : Len(calls) < MaxCalls /\ Call(o, r) /\ Rec([ev |-> "Call", o |-> o, r |-> r])
  \/ \E k \in DOMAIN calls : Stop(k) /\ Rec([ev |-> "Stop", k |-> k])
  \/ \E d \in Steps : Advance(d) /\ Rec([ev |-> "Adv", d |-> d])
  \/ \E k \in DOMAIN calls : \E v \in calls[k].set : Fire(k, v) /\ UNCHANGED hist
GenSpec == GenInit /\ [][GenNext]_<<vars, hist>>
Emit == Len(hist) < GenLen \/ PrintT("@@SCHED@@" \o ToJson([cfg |-> cfg, steps |-> hist]))
Stop_ == Len(hist) <= GenLen
====
