---- MODULE RoundTimer ----
(* Design specification of core/consensus/timer/roundtimer.go: the round timer objects qbft.Run arms at every round change
   and again on a justified PRE-PREPARE (core/qbft/qbft.go: `stopTimer(); timerChan, stopTimer = d.NewTimer(round)`), and the
   selection of the policy by the feature flags (GetRoundTimerFunc).  Component level counterpart of specs/QBFT/QBFTTimed.tla.

   Time is in milliseconds on the injected clock (clockwork fake clock, or the real clock inside a testing/synctest bubble),
   relative to the clock's start.  One action per call whose effects are atomic in the code:

     Call(o, r)     t.Timer(r) on timer object o: computes the deadline (under the object's mutex for the eager policy),
                    remembers the first deadline of the round (eager), arms a timer of the clock
     Fire(k, v)     the clock delivers the time v on the channel the k-th call returned (clockwork: inside Advance /
                    at once for a duration <= 0; runtime timer: when the virtual clock reaches it)
     Stop(k)        the stop function the k-th call returned
     Advance(d)     the environment moves the clock

   The environment moves at quiescent moments only (Quiet: every channel that has to fire at the present clock reading has
   fired): that IS the timeliness half of the contract -- a channel fires not later than the first clock reading at or after
   its deadline.

   Two modes (constant Mode).  "coded": deadlines as the code computes them (per-round memory `first` = firstDeadlines).
   "contract": deadlines as the documentation defines them, computed from the HISTORY of calls; where the documentation is
   silent the set of allowed deadlines has several elements (third and later call for one round under the eager policy) or
   the call is `free` (round numbers < 1 or absurdly large: any firing time).  The design check runs the coded mode and
   checks AsDocumented (coded deadline \in documented set) + the properties below; the trace specification runs the
   contract mode.  Defect # "none" switches on one named defect variant (control configurations: TLC must report them). *)
EXTENDS Integers, Sequences, FiniteSets

CONSTANTS Objs,      \* timer objects (1..n): one per consensus instance
          Mode,      \* "coded" | "contract"
          Defect     \* "none" | name of a defect variant

VARIABLES cfg,       \* fixed configuration: feature flags, genesis, slot duration, how each object was made (see CfgOK)
          now,       \* clock reading
          calls,     \* sequence of records, one per Timer(round) call (see Call)
          first,     \* [Objs -> function round -> first deadline]   the eager policy's firstDeadlines map
          waiting    \* calls whose timer is among the clock's waiters

vars == <<cfg, now, calls, first, waiting>>

IncRoundStart == 750
IncRoundIncrease == 250
LinearRoundInc == 1000
ProposalRoundExtra == 500
LinearLaterStep == 200      \* linear policy, rounds > 1: 200*(round-1)+200 (constant of the code; the documentation says
                            \* "start timeout with lower value which will increase linearly")
MaxRound == 100000          \* larger round numbers: time.Duration arithmetic is not the contract's business

Max2(a, b) == IF a >= b THEN a ELSE b
MinOf(S) == CHOOSE x \in S : \A y \in S : x <= y

Vias == {"func", "inc", "eager", "linear"}
DutyTypes == {"unknown", "proposer", "attester", "aggregator", "sync_contribution", "randao", "sync_message"}
\* obj[o]: via    "func" = GetRoundTimerFunc(genesis, slotDuration)(duty); otherwise the constructor family used directly
\*         timing the constructor was given genesis time and slot duration ("func" always passes them on)
\*         dtype, slot  the duty (constructors without duty: "unknown", 0)
\*         fake   driven by the fake clock (else the real clock)
CfgOK == /\ cfg.linear \in BOOLEAN /\ cfg.eager \in BOOLEAN /\ cfg.proposal \in BOOLEAN
         /\ cfg.hasgen \in BOOLEAN /\ cfg.genesis \in Int /\ cfg.slotms \in Int
         /\ \A o \in Objs : /\ cfg.obj[o].via \in Vias /\ cfg.obj[o].timing \in BOOLEAN /\ cfg.obj[o].fake \in BOOLEAN
                            /\ cfg.obj[o].dtype \in STRING /\ cfg.obj[o].slot \in Int

\* ---------------------------------------------------------------------------------------------------------------------
\* which policy: docs/consensus.md ("linear ... only affects Proposer duties, for the remaining ones it fallbacks to either
\* EagerDoubleLinearRoundTimer or IncreasingRoundTimer depending on feature set flags ... has precedence over the
\* EagerDoubleLinearRoundTimer"; eager is the default, increasing when eager is disabled)
DocSelect(d) == IF cfg.linear /\ d = "proposer" THEN "linear" ELSE IF cfg.eager THEN "eager" ELSE "inc"
\* GetRoundTimerFunc as coded
Select(d) ==
  CASE Defect = "eagerBeforeLinear" -> IF cfg.eager THEN "eager" ELSE IF cfg.linear /\ d = "proposer" THEN "linear" ELSE "inc"
    [] Defect = "linearAllDuties" -> IF cfg.linear THEN "linear" ELSE IF cfg.eager THEN "eager" ELSE "inc"
    [] OTHER -> IF cfg.linear
                  THEN (IF d = "proposer" THEN "linear" ELSE IF cfg.eager THEN "eager" ELSE "inc")
                  ELSE IF cfg.eager THEN "eager" ELSE "inc"
Kind(o) == IF cfg.obj[o].via = "func" THEN Select(cfg.obj[o].dtype) ELSE cfg.obj[o].via
DocKind(o) == IF cfg.obj[o].via = "func" THEN DocSelect(cfg.obj[o].dtype) ELSE cfg.obj[o].via
TypeName(k) == CASE k = "inc" -> "inc" [] k = "eager" -> "eager_dlinear" [] OTHER -> "linear"
TypeOf(o) == TypeName(Kind(o))
IsEager(o) == Kind(o) = "eager"            \* Type.Eager()

\* ---------------------------------------------------------------------------------------------------------------------
\* durations
IncT(r) == IncRoundStart + IncRoundIncrease * r
LinT(r) == LinearRoundInc * r
PropT(r) == LinT(r) + ProposalRoundExtra
Prop(o) == cfg.proposal /\ cfg.obj[o].dtype = "proposer"
\* the documented duration of round r under policy kd
DocTimeout(o, kd, r) ==
  CASE kd = "inc" -> IF Prop(o) /\ r = 1 THEN PropT(1) ELSE IncT(r)
    [] kd = "eager" -> IF Prop(o) THEN PropT(r) ELSE LinT(r)
    [] OTHER -> IF r = 1 THEN (IF Prop(o) THEN PropT(1) ELSE 1000) ELSE LinearLaterStep * r
\* as coded
Timeout(o, r) ==
  LET kd == Kind(o) IN
  CASE Defect = "incExtraAllRounds" /\ kd = "inc" -> IF Prop(o) THEN PropT(r) ELSE IncT(r)
    [] Defect = "incStartsAtBase" /\ kd = "inc" -> IncRoundStart + IncRoundIncrease * (r - 1)
    [] Defect = "linearFirstShort" /\ kd = "linear" -> LinearLaterStep * r
    [] OTHER -> DocTimeout(o, kd, r)

DutyDelay(o) == LET d == cfg.obj[o].dtype IN
                  CASE d = "attester" -> cfg.slotms \div 3
                    [] d \in {"aggregator", "sync_contribution"} -> (2 * cfg.slotms) \div 3
                    [] OTHER -> 0
UsesTiming(o) == cfg.obj[o].timing /\ cfg.hasgen /\ cfg.slotms > 0
DutyStart(o) == cfg.genesis + cfg.slotms * cfg.obj[o].slot + DutyDelay(o)

ValidRound(r) == r >= 1 /\ r <= MaxRound

\* ---------------------------------------------------------------------------------------------------------------------
\* the deadline as coded (the memory is keyed by round; Defect "sharedMemory": one map for all objects)
Mem(o) == IF Defect = "sharedMemory" THEN MinOf(Objs) ELSE o
CodedDeadline(o, r) ==
  LET T == Timeout(o, r) IN
  IF Kind(o) # "eager" THEN now + T
  ELSE IF r \in DOMAIN first[Mem(o)] /\ Defect # "resetOnRepeat"
         THEN first[Mem(o)][r] + T
         ELSE IF UsesTiming(o) /\ Defect # "ignoreTiming" THEN DutyStart(o) + T ELSE now + T
\* the deadlines the documentation allows, from the history of calls
Prior(o, r) == {k \in DOMAIN calls : calls[k].o = o /\ calls[k].r = r}
DocDeadlines(o, r) ==
  LET kd == DocKind(o)
      T == DocTimeout(o, kd, r)
      P == Prior(o, r)
      ref == IF UsesTiming(o) THEN DutyStart(o) ELSE IF P = {} THEN now ELSE calls[MinOf(P)].t
  IN IF kd # "eager" THEN {now + T}
     ELSE IF P = {} THEN {ref + T}                               \* "starts at an absolute time", "1s, 2s, 3s"
     ELSE IF Cardinality(P) = 1 THEN {ref + 2 * T}               \* "rather double the timeout"
     ELSE {ref + 2 * T, ref + 3 * T, ref + 4 * T}                \* not documented: doubled once / extended again / doubled again
\* a deadline that has passed: the channel fires at once (never earlier than the call, not later than the present reading)
Arm(S) == {Max2(d, now) : d \in S}

Armed(k) == calls[k].stopAt = -1 /\ calls[k].nf = 0
\* a waiting timer that has to fire at the present clock reading
Due(k) == /\ ~calls[k].free
          /\ IF Defect = "late" THEN \A a \in calls[k].set : a < now ELSE \A a \in calls[k].set : a <= now
Quiet == \A k \in waiting : ~Due(k)

Init0 == now = 0 /\ calls = <<>> /\ first = [o \in Objs |-> <<>>] /\ waiting = {}

Call(o, r) ==
  /\ Quiet
  /\ LET dl == CodedDeadline(o, r)
         coded == Max2(dl, now)
         doc == Arm(DocDeadlines(o, r))
         valid == ValidRound(r)
         rec == [o |-> o, r |-> r, t |-> now,
                 free |-> (Mode = "contract" /\ ~valid),
                 set |-> IF Mode = "coded" THEN {coded} ELSE IF valid THEN doc ELSE {},
                 ok |-> (~valid \/ coded \in doc),
                 since |-> now - 1, stopAt |-> -1, nf |-> 0, fat |-> -1, ft |-> -1]
     IN /\ calls' = Append(calls, rec)
        /\ waiting' = waiting \cup {Len(calls) + 1}
        /\ first' = IF Kind(o) = "eager" /\ (Mode = "coded" \/ valid) /\ (r \notin DOMAIN first[Mem(o)] \/ Defect = "accumulate")
                      THEN [first EXCEPT ![Mem(o)] = [x \in DOMAIN first[Mem(o)] \cup {r} |-> IF x = r THEN dl ELSE first[Mem(o)][x]]]
                      ELSE first
  /\ UNCHANGED <<cfg, now>>

Fire(k, v) ==
  /\ k \in waiting
  /\ calls[k].free \/ v \in calls[k].set
  /\ IF Defect = "early" THEN v <= now + 250 ELSE v <= now
  /\ Defect = "late" \/ v > calls[k].since
  /\ calls' = [calls EXCEPT ![k].nf = @ + 1, ![k].fat = v, ![k].ft = now]
  /\ waiting' = IF Defect = "refire" /\ calls[k].nf = 0 THEN waiting ELSE waiting \ {k}
  /\ UNCHANGED <<cfg, now, first>>

Stop(k) ==
  /\ Quiet
  /\ k \in DOMAIN calls
  /\ IF Armed(k)
       THEN /\ calls' = [calls EXCEPT ![k].stopAt = now]
            /\ waiting' = IF Defect = "noStop" THEN waiting ELSE waiting \ {k}
       ELSE UNCHANGED <<calls, waiting>>            \* after the channel fired / a second time: nothing happens
  /\ UNCHANGED <<cfg, now, first>>

Advance(d) ==
  /\ Quiet
  /\ d > 0
  /\ now' = now + d
  /\ calls' = [k \in DOMAIN calls |-> IF k \in waiting THEN [calls[k] EXCEPT !.since = now] ELSE calls[k]]
  /\ UNCHANGED <<cfg, first, waiting>>

\* ---------------------------------------------------------------------------------------------------------------------
\* the contract
TypeOK == /\ now \in Nat /\ waiting \subseteq DOMAIN calls
          /\ \A k \in DOMAIN calls : calls[k].o \in Objs /\ calls[k].nf \in Nat
\* every deadline is one the documentation defines for that call
AsDocumented == \A k \in DOMAIN calls : calls[k].ok
\* the policy (and Type()) is the one the feature flags select
SelectionAsDocumented == \A o \in Objs : Kind(o) = DocKind(o)
\* a channel fires at most once ...
AtMostOnce == \A k \in DOMAIN calls : calls[k].nf <= 1
\* ... never before the clock reaches the deadline ...
NeverEarly == \A k \in DOMAIN calls : calls[k].nf > 0 => calls[k].fat <= calls[k].ft /\ calls[k].fat >= calls[k].t
\* ... at the first clock reading at or after it ...
Prompt == /\ \A k \in DOMAIN calls : calls[k].nf > 0 => calls[k].fat > calls[k].since
          /\ \A k \in DOMAIN calls : (Armed(k) /\ ~calls[k].free) => \E a \in calls[k].set : a > calls[k].since
\* ... and never after its stop function was called
NoFireAfterStop == \A k \in DOMAIN calls : calls[k].stopAt # -1 => calls[k].nf = 0
\* nothing is left behind: the clock's waiters are exactly the armed calls
NoLeak == waiting = {k \in DOMAIN calls : Armed(k)}
\* the memory of one timer object is its own: what an object's call yields depends on that object's calls only, and timers of
\* different rounds are independent (checked through AsDocumented: the documented set is computed from the calls of the
\* same object and round only); the eager doubling refers to the FIRST deadline, not to the time of the repeated call
DoubleNotReset ==
  \A k \in DOMAIN calls :
    LET P == {j \in 1..(k - 1) : calls[j].o = calls[k].o /\ calls[j].r = calls[k].r} IN
      (DocKind(calls[k].o) = "eager" /\ Cardinality(P) = 1 /\ ValidRound(calls[k].r) /\ ~calls[k].free /\ Mode = "coded")
        => \A a \in calls[k].set : a = Max2(calls[k].t, calls[MinOf(P)].t * (IF UsesTiming(calls[k].o) THEN 0 ELSE 1)
                                             + (IF UsesTiming(calls[k].o) THEN DutyStart(calls[k].o) ELSE 0)
                                             + 2 * DocTimeout(calls[k].o, "eager", calls[k].r))
Safety == TypeOK /\ AsDocumented /\ SelectionAsDocumented /\ AtMostOnce /\ NeverEarly /\ Prompt /\ NoFireAfterStop /\ NoLeak
          /\ DoubleNotReset
====
