SPECIFICATION GenSpec
CONSTANTS
 Objs = {1, 2}
 Mode = "coded"
 Defect = "none"
 MaxCalls = 8
 Rounds = {1, 2, 3, 4}
 Steps = {250, 500, 1000, 1500}
 GenLen = 16
INVARIANTS Emit
CONSTRAINT Stop_
CHECK_DEADLOCK FALSE
