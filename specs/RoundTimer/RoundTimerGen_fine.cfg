SPECIFICATION GenSpec
CONSTANTS
 Objs = {1, 2}
 Mode = "coded"
 Defect = "none"
 MaxCalls = 6
 Rounds = {1, 2}
 Steps = {50, 200, 250, 1000}
 GenLen = 14
INVARIANTS Emit
CONSTRAINT Stop_
CHECK_DEADLOCK FALSE
