SPECIFICATION MCSpec
CONSTANTS
 Objs = {1, 2}
 Mode = "coded"
 Defect = "linearAllDuties"
 Cfgs <- CSelect
 MaxCalls = 1
 Rounds = {1}
 Steps = {1000}
 MaxTime = 1000
INVARIANTS SelectionAsDocumented
VIEW View
CHECK_DEADLOCK FALSE
