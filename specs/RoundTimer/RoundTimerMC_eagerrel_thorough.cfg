SPECIFICATION MCSpec
CONSTANTS
 Objs = {1, 2}
 Mode = "coded"
 Defect = "none"
 Cfgs <- CEagerRel
 MaxCalls = 4
 Rounds = {1, 2}
 Steps = {500, 1000}
 MaxTime = 4000
INVARIANTS Safety
VIEW View
CHECK_DEADLOCK FALSE
