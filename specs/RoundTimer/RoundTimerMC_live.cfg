SPECIFICATION FairSpec
CONSTANTS
 Objs = {1, 2}
 Mode = "coded"
 Defect = "none"
 Cfgs <- CEagerAbs
 MaxCalls = 2
 Rounds = {1, 2}
 Steps = {1000}
 MaxTime = 3000
PROPERTIES EveryTimerFires
CHECK_DEADLOCK FALSE
