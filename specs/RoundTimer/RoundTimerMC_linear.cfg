SPECIFICATION MCSpec
CONSTANTS
 Objs = {1, 2}
 Mode = "coded"
 Defect = "none"
 Cfgs <- CLinear
 MaxCalls = 3
 Rounds = {1, 2}
 Steps = {200, 1000}
 MaxTime = 2000
INVARIANTS Safety
VIEW View
CHECK_DEADLOCK FALSE
