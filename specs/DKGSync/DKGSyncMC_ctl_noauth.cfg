SPECIFICATION MCSpec
CONSTANTS
 MaxStep = 2
 StopAt = 2
 Tol = 1
 AuthGate = FALSE
 Regress = TRUE
 Off = 0
 MCCfgs <- C3f
 MaxF = 2
 MaxCrash = 0
 Streams = {1}
 FSteps = {0, 1, 2, 3, 4}
 FAuth = {"ok", "sig", "ver"}
INVARIANTS Safety

CHECK_DEADLOCK FALSE
