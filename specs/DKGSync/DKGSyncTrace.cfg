SPECIFICATION TraceSpec
CONSTANTS
 MaxStep = 99
 Tol = 1
 AuthGate = TRUE
 Regress = TRUE
 Off = 0
CONSTRAINT Mark
POSTCONDITION Report
CHECK_DEADLOCK FALSE
