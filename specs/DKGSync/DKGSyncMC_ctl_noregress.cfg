SPECIFICATION MCSpec
CONSTANTS
 MaxStep = 2
 StopAt = 2
 Tol = 1
 AuthGate = TRUE
 Regress = FALSE
 Off = 0
 MCCfgs <- C3f
 MaxF = 3
 MaxCrash = 0
 Streams = {1, 2}
 FSteps = {0, 1}
 FAuth = {"ok"}
INVARIANTS Safety

CHECK_DEADLOCK FALSE
