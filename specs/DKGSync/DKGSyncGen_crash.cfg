SPECIFICATION GenSpec
CONSTANTS
 MaxStep = 3
 Tol = 1
 AuthGate = TRUE
 Regress = TRUE
 Off = 0
 GenLen = 30
 Crashes = TRUE
 FaultAfter = 99
 StopFrom = 2
 GenCfgs = "all"
INVARIANTS Emit
CHECK_DEADLOCK FALSE
