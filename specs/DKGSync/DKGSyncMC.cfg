SPECIFICATION MCSpec
CONSTANTS
 MaxStep = 2
 StopAt = 2
 Tol = 1
 AuthGate = TRUE
 Regress = TRUE
 Off = 0
 MCCfgs <- C3fr
 MaxF = 4
 MaxCrash = 0
 Streams = {1, 2}
 FSteps = {0, 1, 2, 3, 4}
 FAuth = {"ok", "sig", "ver"}
INVARIANTS Safety
PROPERTIES Monotone
CHECK_DEADLOCK FALSE
