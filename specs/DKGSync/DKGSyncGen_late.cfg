SPECIFICATION GenSpec
CONSTANTS
 MaxStep = 3
 Tol = 1
 AuthGate = TRUE
 Regress = TRUE
 Off = 0
 GenLen = 34
 Crashes = FALSE
 FaultAfter = 18
 StopFrom = 2
 GenCfgs = "all"
INVARIANTS Emit
CHECK_DEADLOCK FALSE
