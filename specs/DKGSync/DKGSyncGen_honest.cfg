SPECIFICATION GenSpec
CONSTANTS
 MaxStep = 3
 Tol = 1
 AuthGate = TRUE
 Regress = TRUE
 Off = 0
 GenLen = 30
 Crashes = FALSE
 FaultAfter = 0
 GenCfgs = "honest"
INVARIANTS Emit
CHECK_DEADLOCK FALSE
