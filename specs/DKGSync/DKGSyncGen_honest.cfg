SPECIFICATION GenSpec
CONSTANTS
 MaxStep = 2
 Tol = 1
 AuthGate = TRUE
 Regress = TRUE
 Off = 0
 GenLen = 40
 Crashes = FALSE
 FaultAfter = 0
 StopFrom = 3
 GenCfgs = "honest"
INVARIANTS Emit
CHECK_DEADLOCK FALSE
