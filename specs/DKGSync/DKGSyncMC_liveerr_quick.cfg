SPECIFICATION FairSpec
CONSTANTS
 MaxStep = 1
 StopAt = 1
 Tol = 1
 AuthGate = TRUE
 Regress = TRUE
 Off = 0
 MCCfgs <- C3fr
 MaxF = 2
 MaxCrash = 0
 Streams = {1}
 FSteps = {0, 1, 3}
 FAuth = {"ok", "sig"}

PROPERTIES ErrorAborts ClientErrAborts
CHECK_DEADLOCK FALSE
