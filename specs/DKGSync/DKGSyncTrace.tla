---- MODULE DKGSyncTrace ----
(* Trace validation for dkg/sync + dkg.startSyncProtocol.  Events are written by the executor (harness/dkgsync):
     {"ev":"Reset","n","f","frej"}                         fresh cluster (members 1..n, f = faulty member or 0)
     {"ev":"Start"|"Next"|"Stop","i"}                      the driver (playing dkg.Run) makes the call on member i
     {"ev":"Started"|"Passed"|"Stopped","i","ok","err"}    that call returned (logged by the calling goroutine)
     {"ev":"Crash","i"}                                    the driver cancels i's context and closes its host
     {"ev":"FOpen","s","to","ok"}                          the faulty member opened stream s to honest `to`
     {"ev":"FMsg","s","to","auth","step","shutdown"}       it is about to write one MsgSync (logged BEFORE the write: the
                                                           server acts on it before it answers, and an honest member may
                                                           see and log that before the faulty member has read the answer)
     {"ev":"FResp","s","to","resp"}                        the answer: resp = "ok" | "sig" | "ver" | "step" | "closed"
     {"ev":"FClose","s"}   {"ev":"Cancel"} (end of the schedule: every context is cancelled)   {"ev":"Skip",..}

   The periodic messages of the honest clients, Connected, and the shutdown handshake are NOT logged: what the
   server of i knows about honest j at the time of an event is any step value j had since the last value an
   observation fixed (rep[i][j] is a lower bound here) -- the existential choice is made canonically (smallest
   feasible value), so validation is linear.  A member inside startSyncProtocol may already have set its step to 1
   (EffStep).  The faulty member's messages are synchronous: rep[i][f], conn, serr are exact; because the honest
   members' polls (1 ms / 100 ms / 250 ms) race with them, "was satisfiable at some point since the call was made"
   is remembered in the sticky flags wasc / fok.  A return that the design spec has no reason for is rejected with
   the name of the violated property. *)
EXTENDS DKGSync, TraceCommon
VARIABLES wasc,       \* [member -> inside startSyncProtocol: no error, every peer connected, seen at some point (then kept)]
          fok,        \* [member -> waiting: no error and the faulty peer's report within the barrier, seen at some point]
          cans,       \* [member -> it was able to send its shutdown flags at some point (passed / could pass its final barrier)]
          expect,     \* [stream -> the answer the design spec gives to the message in flight on it]
          cancelled
tvars == <<vars, tr, l, wasc, fok, cans, expect, cancelled>>
R == Traces[tr][1]
TraceInit == /\ TrInit /\ InitWith([n |-> R.n, f |-> R.f, frej |-> R.frej])
             /\ wasc = [i \in 1..4 |-> FALSE] /\ fok = [i \in 1..4 |-> FALSE] /\ cans = [i \in 1..4 |-> FALSE]
             /\ expect = [s \in 1..16 |-> "-"] /\ cancelled = FALSE

Max(a, b) == IF a > b THEN a ELSE b
\* ---- predicates over an explicit state record, so that they can be evaluated on the successor state as well ----
St == [phase |-> phase, step |-> step, serr |-> serr, conn |-> conn, rep |-> rep, cause |-> cause]
StP == [phase |-> phase', step |-> step', serr |-> serr', conn |-> conn', rep |-> rep', cause |-> cause']
ConnNow(S, i) == /\ S.serr[i] = "none" /\ "peererr" \notin S.cause[i]
                 /\ \A j \in Honest \ {i} : S.phase[j] # "idle"
                 /\ Faulty \subseteq S.conn[i]
KOf(S, i) == IF S.phase[i] = "conn" THEN 1 ELSE S.step[i]
FokNow(S, i) == S.serr[i] = "none" /\ \A f \in Faulty : S.rep[i][f] \in KOf(S, i)..(KOf(S, i) + Tol)
\* the step counter of honest j as another member may already have seen it
EffStep(j) == IF step[j] = 0 /\ wasc[j] THEN 1 ELSE step[j]        \* (also when it failed / crashed in there afterwards)
Views(i, j) == IF phase[j] = "idle" THEN {rep[i][j]} ELSE {rep[i][j]} \cup (Max(rep[i][j], 0)..EffStep(j))
HonOK(i, k) == \A j \in Honest \ {i} : \E v \in Views(i, j) : v \in k..(k + Tol)
MinView(i, j, k) == LET ok == {v \in Views(i, j) : v \in k..(k + Tol)} IN
                    IF ok = {} THEN rep[i][j] ELSE CHOOSE v \in ok : \A w \in ok : v <= w
Fixed(i, k) == [rep EXCEPT ![i] = [j \in Members |-> IF j \in Honest \ {i} THEN MinView(i, j, k) ELSE @[j]]]
\* honest j has sent (or is able to send) its shutdown flag: it passed, or can pass, its final barrier
CanShut(j) == phase[j] \in {"closing", "down"} \/ (phase[j] = "stopwait" /\ fok[j] /\ HonOK(j, step[j]))

Track == /\ wasc' = [i \in 1..4 |-> i \in Honest /\ (wasc[i] \/ (StP.phase[i] = "conn" /\ ConnNow(StP, i)))]      \* sticky
         /\ fok' = [i \in 1..4 |-> /\ i \in Honest /\ StP.phase[i] \in {"conn", "wait", "stopwait", "crashed"}
                                   /\ \/ fok[i] /\ (StP.phase[i] = phase[i] \/ StP.phase[i] = "crashed")   \* same call still pending
                                      \/ StP.phase[i] # "crashed" /\ FokNow(StP, i) /\ (StP.phase[i] = "conn" => wasc'[i])]
         /\ cans' = [i \in 1..4 |-> i \in Honest /\ (cans[i] \/ CanShut(i))]

\* CheckInv for use INSIDE an action: there TLC explores both sides of a disjunction (it would run InvFail, which records the
\* name, even when the predicate holds), whereas IF only evaluates the chosen branch
Chk(name, pred) == IF pred THEN TRUE ELSE InvFail(name)

\* ---- the driver's calls and the faulty member ----
TReset == IsEvent("Reset") /\ l = 1 /\ UNCHANGED <<vars, expect, cancelled>> /\ Track
TCall == /\ \/ IsEvent("Start") /\ Start(Ev.i)
            \/ IsEvent("Next") /\ Next(Ev.i)
            \/ IsEvent("Stop") /\ Stop(Ev.i)
         /\ UNCHANGED <<expect, cancelled>> /\ Track
TCrash == /\ IsEvent("Crash") /\ Ev.i \in Honest
          /\ IF phase[Ev.i] \in DeadPh \cup {"idle"} THEN UNCHANGED vars ELSE Crash(Ev.i)
          /\ UNCHANGED <<expect, cancelled>> /\ Track
TSkip == IsEvent("Skip") /\ UNCHANGED <<vars, expect, cancelled>> /\ Track
TCancel == IsEvent("Cancel") /\ cancelled' = TRUE /\ UNCHANGED <<vars, expect>> /\ Track
\* the member's Run is ending (its context is cancelled before the return is logged): the stream may already be dead
Aborting(i) == serr[i] # "none" \/ ~ServerUp(i) \/ cancelled \/ (cfg.f # 0 /\ cfg.frej)
TFOpen == /\ IsEvent("FOpen") /\ Ev.to \in Honest
          /\ IF ~Ev.ok THEN Aborting(Ev.to) /\ UNCHANGED vars
             ELSE IF ~ServerUp(Ev.to) /\ phase[Ev.to] # "idle"
               THEN UNCHANGED vars     \* the member's Run has just ended, its host is not closed yet: the stream is stillborn
             ELSE IF \A x \in fst : x.s # Ev.s THEN FOpen(Ev.s, Ev.to)
             ELSE \* the driver re-uses a stream id: it resets the old stream first (FClose, then FOpen)
                  LET x == CHOOSE y \in fst : y.s = Ev.s IN
                  /\ ServerUp(Ev.to)
                  /\ fst' = (fst \ {x}) \cup {[s |-> Ev.s, to |-> Ev.to]}
                  /\ conn' = [conn EXCEPT ![x.to] = @ \ {cfg.f}]
                  /\ UNCHANGED <<cfg, phase, step, passed, cause, rep, shut, serr, valid, sent>>
          /\ UNCHANGED <<expect, cancelled>> /\ Track
TFMsg == /\ IsEvent("FMsg")
         /\ LET m == Msg(Ev.auth, Ev.step, Ev.shutdown) IN
            IF [s |-> Ev.s, to |-> Ev.to] \in fst /\ ServerUp(Ev.to)
              THEN /\ expect' = [expect EXCEPT ![Ev.s] = Outcome(Ev.to, cfg.f, m)]
                   /\ FMsg(Ev.s, m)
              ELSE expect' = [expect EXCEPT ![Ev.s] = "closed"] /\ UNCHANGED vars     \* the server had ended that stream
         /\ UNCHANGED cancelled /\ Track
TFResp == /\ IsEvent("FResp")
          \* (what a dead member's host still says is nobody's business)
          /\ Chk("ServerAnswer", (Ev.resp = expect[Ev.s]) \/ (Ev.resp = "closed" /\ Aborting(Ev.to))
                                  \/ (expect[Ev.s] = "closed" /\ ~ServerUp(Ev.to)))
          /\ UNCHANGED <<vars, expect, cancelled>> /\ Track
TFClose == /\ IsEvent("FClose")
           /\ IF \E x \in fst : x.s = Ev.s THEN FClose(Ev.s) ELSE UNCHANGED vars
           /\ UNCHANGED <<expect, cancelled>> /\ Track

\* ---- returns ----
What(ph) == CASE ph = "conn" -> "Started" [] ph = "wait" -> "Passed" [] ph \in {"stopwait", "closing"} -> "Stopped" [] OTHER -> "-"
FarNow(i) == \/ \E f \in Faulty : rep[i][f] >= KOf(St, i) + 2
             \/ \E j \in Honest \ {i} : EffStep(j) >= KOf(St, i) + 2
ErrClasses(i) == (IF serr[i] # "none" THEN {serr[i], "ctx"} ELSE {})
                 \cup (IF cfg.f # 0 /\ cfg.frej /\ phase[i] \in {"conn", "wait"} THEN {"peererr", "ctx"} ELSE {})
                 \cup (IF phase[i] \in {"wait", "stopwait"} /\ FarNow(i) THEN {"toofar"} ELSE {})
\* ... of a member the driver has crashed, or after the final Cancel: any error
TRetDead == /\ \/ IsEvent("Started") \/ IsEvent("Passed") \/ IsEvent("Stopped")
            /\ Ev.i \in Honest /\ phase[Ev.i] = "crashed"
            /\ Ev.ok => Chk("ReturnAfterCrash", fok[Ev.i])
            /\ UNCHANGED <<vars, expect, cancelled>> /\ Track
TRetErr == /\ \/ IsEvent("Started") \/ IsEvent("Passed") \/ IsEvent("Stopped")
           /\ Ev.i \in Honest /\ Ev.ev = What(phase[Ev.i]) /\ ~Ev.ok
           /\ Chk("FailHasCause", cancelled \/ Ev.err \in ErrClasses(Ev.i))
           /\ Die(Ev.i, "failed", {Ev.err})
           /\ UNCHANGED <<cfg, step, passed, rep, shut, serr, valid, sent, expect, cancelled>> /\ Track
\* startSyncProtocol returned nil: connected to everybody, then barrier 1
TStarted == /\ IsEvent("Started") /\ Ev.ok /\ Ev.i \in Honest /\ phase[Ev.i] = "conn"
            /\ LET i == Ev.i IN
               /\ Chk("AuthOnly", wasc[i])
               /\ Chk("BarrierFaultyPeer", fok[i])
               /\ Chk("BarrierSafe", HonOK(i, 1))
               /\ phase' = [phase EXCEPT ![i] = "run"] /\ step' = [step EXCEPT ![i] = 1]
               /\ passed' = [passed EXCEPT ![i] = 1]
               /\ rep' = Fixed(i, 1)
               /\ conn' = [conn EXCEPT ![i] = @ \cup {j \in Honest \ {i} : ~Dead(j)}]
               /\ valid' = [valid EXCEPT ![i] = @ \cup (Honest \ {i})]
            /\ UNCHANGED <<cfg, cause, shut, serr, sent, fst, expect, cancelled>> /\ Track
TPassed == /\ IsEvent("Passed") /\ Ev.ok /\ Ev.i \in Honest /\ phase[Ev.i] = "wait"
           /\ LET i == Ev.i IN
              /\ Chk("BarrierFaultyPeer", fok[i])
              /\ Chk("BarrierSafe", HonOK(i, step[i]))
              /\ phase' = [phase EXCEPT ![i] = "run"] /\ passed' = [passed EXCEPT ![i] = step[i]]
              /\ rep' = Fixed(i, step[i])
           /\ UNCHANGED <<cfg, step, cause, conn, shut, serr, valid, sent, fst, expect, cancelled>> /\ Track
\* shutdownFunc returned nil: final barrier, a shutdown message to every peer, a shutdown flag from every peer
TStopped == /\ IsEvent("Stopped") /\ Ev.ok /\ Ev.i \in Honest /\ phase[Ev.i] \in {"stopwait", "closing"}
            /\ LET i == Ev.i
                   adv == {j \in Honest \ {i} : phase[j] = "stopwait"}      \* they passed their final barrier unseen
               IN
               /\ phase[i] = "stopwait" => Chk("BarrierFaultyPeer", fok[i]) /\ Chk("BarrierSafe", HonOK(i, step[i]))
               /\ Chk("CleanShutdown", (\A j \in Honest \ {i} : cans[j] \/ CanShut(j)) /\ Faulty \subseteq shut[i])
               /\ phase' = [j \in Honest |-> IF j = i THEN "down" ELSE IF j \in adv THEN "closing" ELSE phase[j]]
               /\ passed' = [j \in Honest |-> IF j = i \/ j \in adv THEN step[j] ELSE passed[j]]
               /\ rep' = IF phase[i] = "stopwait" THEN Fixed(i, step[i]) ELSE rep
               /\ shut' = [j \in Honest |-> IF j = i THEN Peers(i) ELSE IF ServerUp(j) THEN shut[j] \cup {i} ELSE shut[j]]
               /\ sent' = [sent EXCEPT ![i] = Peers(i)]
               /\ conn' = [j \in Honest |-> conn[j] \ {i}]
               /\ fst' = {x \in fst : x.to # i}
            /\ UNCHANGED <<cfg, step, cause, serr, valid, expect, cancelled>> /\ Track
TraceNext == TReset \/ TCall \/ TCrash \/ TSkip \/ TCancel \/ TFOpen \/ TFMsg \/ TFResp \/ TFClose
             \/ TRetDead \/ TRetErr \/ TStarted \/ TPassed \/ TStopped
TraceSpec == TraceInit /\ [][TraceNext]_tvars

\* the design spec's invariants on the reconstructed state (a member inside startSyncProtocol counts with EffStep)
TBarrierSafe == \A i \in Honest : /\ \A j \in Honest \ {i} : passed[i] <= EffStep(j)
                                  /\ \A f \in Faulty : passed[i] >= 1 => rep[i][f] >= passed[i]
TNotAhead == \A i, j \in Honest : step[i] <= EffStep(j) + 1
TCleanShutdown == \A i \in Honest : phase[i] = "down" =>
                    /\ shut[i] = Peers(i)
                    /\ \A j \in Honest \ {i} : phase[j] \in {"closing", "down", "crashed", "failed"} /\ passed[j] >= passed[i]
Mark == /\ CheckInv("BarrierSafe", TBarrierSafe) /\ CheckInv("NotAhead", TNotAhead)
        /\ CheckInv("AuthOnly", AuthOnly) /\ CheckInv("FailHasCause", FailHasCause)
        /\ CheckInv("CleanShutdown", TCleanShutdown)
        /\ HWMark
====
