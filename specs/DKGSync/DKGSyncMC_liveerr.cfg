SPECIFICATION FairSpec
CONSTANTS
 MaxStep = 2
 StopAt = 2
 Tol = 1
 AuthGate = TRUE
 Regress = TRUE
 Off = 0
 MCCfgs <- C3fr
 MaxF = 2
 MaxCrash = 0
 Streams = {1}
 FSteps = {0, 1, 2, 3, 4}
 FAuth = {"ok", "sig", "ver"}

PROPERTIES ErrorAborts ClientErrAborts
CHECK_DEADLOCK FALSE
