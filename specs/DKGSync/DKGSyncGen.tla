---- MODULE DKGSyncGen ----
(* Schedule generation: behaviours of the design spec, recorded in the history variable `hist`.  Only the ENVIRONMENT's
   moves are recorded (Run reaching startSyncProtocol / the next step / stopSync, a member crashing, everything the faulty
   member does) plus "Await i": the driver blocks until the pending call of member i has returned -- recorded exactly
   when the model says that this return is DUE (so that a return that never comes is a hang and everything else the
   executor observes is validated in the order it really happened).

   The members' own steps are taken eagerly, in a canonical order, between two environment moves: every periodic message
   is delivered at once (the executor cannot see them; eventually they are), Connected / Pass / Fail / ShutMsg / Down as
   soon as they are enabled; TooFar only when it is certain (no other peer lags, see DKGSync!TooFar).
   Discipline that keeps real runs away from races the model cannot see (eager delivery is only a prediction: the real
   members poll every 1 ms / 10 ms / 100 ms / 250 ms):
     * the faulty member closes a stream (FClose, shutdown flag) towards i, and an honest member crashes, only when no
       running member is still inside startSyncProtocol (the 250 ms connection loop samples `connected` late);
     * an honest member crashes only when every running member has passed the barrier of its current step (its last
       step report has then certainly been delivered) and nobody is inside shutdownFunc;
     * a member inside shutdownFunc passes its last barrier without a visible return: the faulty member only sends it
       valid messages with a step inside the barrier;
     * before FaultAfter recorded moves the faulty member behaves (valid messages, steps that keep the barriers
       passable), so that faults also hit ceremonies that are under way.
   Run with -simulate. *)
EXTENDS DKGSync, Json, Sequences, Randomization
CONSTANTS GenLen, GenCfgs, Crashes, FaultAfter, StopFrom
VARIABLES hist, pend, fin
gvars == <<vars, hist, pend, fin>>

GCfgs == {[n |-> 3, f |-> 0, frej |-> FALSE], [n |-> 4, f |-> 0, frej |-> FALSE]}
         \cup {[n |-> 3, f |-> f, frej |-> FALSE] : f \in 1..3} \cup {[n |-> 4, f |-> f, frej |-> FALSE] : f \in {1, 4}}
         \cup {[n |-> 3, f |-> 2, frej |-> TRUE]}
GenInit == /\ \E c \in (IF GenCfgs = "all" THEN GCfgs ELSE {x \in GCfgs : x.f = 0}) : InitWith(c) /\ hist = <<[ev |-> "Cfg", n |-> c.n, f |-> c.f, frej |-> c.frej]>>
           /\ pend = [i \in 1..4 |-> FALSE] /\ fin = FALSE

Changes(j, i) == rep[i][j] # step[j] \/ j \notin conn[i]
Lagging(i) == \E j \in Peers(i) : rep[i][j] < Bar(i)
\* the last step report of a member that died may never have been sent: a barrier that needs exactly that value is not DUE
Sure(i) == \A j \in Honest \ {i} : Dead(j) => step[j] # Bar(i)
\* one eager internal step (canonical choice); a step that makes a pending call return appends "Await"
Ret(i) == hist' = Append(hist, [ev |-> "Await", i |-> i]) /\ pend' = [pend EXCEPT ![i] = FALSE]
Quiet == UNCHANGED <<hist, pend>>
IntEnabled ==
  \/ \E j, i \in Honest : i # j /\ ClientUp(j, i) /\ ServerUp(i) /\ Changes(j, i)
  \/ \E i \in Honest : ENABLED Connected(i) \/ (ENABLED Pass(i) /\ Sure(i)) \/ ENABLED Fail(i) \/ ENABLED Down(i) \/ ENABLED FRej(i)
                       \/ (ENABLED TooFar(i) /\ ~Lagging(i) /\ Sure(i))
  \/ \E i \in Honest, j \in Members : ENABLED ShutMsg(i, j)
Internal ==
  /\ UNCHANGED fin
  /\ IF \E i \in Honest : ENABLED Fail(i)
       THEN LET i == CHOOSE x \in Honest : ENABLED Fail(x) IN Fail(i) /\ (IF pend[i] THEN Ret(i) ELSE Quiet)
     \* (a member that is about to die dies BEFORE its next periodic message is counted as delivered)
     ELSE IF \E i \in Honest : ENABLED TooFar(i) /\ ~Lagging(i) /\ Sure(i)
       THEN LET i == CHOOSE x \in Honest : ENABLED TooFar(x) /\ ~Lagging(x) /\ Sure(x) IN TooFar(i) /\ Ret(i)
     ELSE IF \E i \in Honest : ENABLED FRej(i)
       THEN LET i == CHOOSE x \in Honest : ENABLED FRej(x) IN FRej(i) /\ Quiet
     ELSE IF \E j, i \in Honest : i # j /\ ClientUp(j, i) /\ ServerUp(i) /\ Changes(j, i)
       THEN LET p == CHOOSE q \in Honest \X Honest : q[1] # q[2] /\ ClientUp(q[1], q[2]) /\ ServerUp(q[2]) /\ Changes(q[1], q[2])
            IN Ping(p[1], p[2]) /\ Quiet
     ELSE IF \E i \in Honest : ENABLED Connected(i)
       THEN LET i == CHOOSE x \in Honest : ENABLED Connected(x) IN Connected(i) /\ Quiet
     ELSE IF \E i \in Honest : ENABLED Pass(i) /\ Sure(i)
       THEN LET i == CHOOSE x \in Honest : ENABLED Pass(x) /\ Sure(x) IN Pass(i) /\ (IF phase[i] = "wait" THEN Ret(i) ELSE Quiet)
     ELSE IF \E i \in Honest, j \in Members : ENABLED ShutMsg(i, j)
       THEN LET p == CHOOSE q \in Honest \X Members : ENABLED ShutMsg(q[1], q[2]) IN ShutMsg(p[1], p[2]) /\ Quiet
     ELSE LET i == CHOOSE x \in Honest : ENABLED Down(x) IN Down(i) /\ Ret(i)

InStart(i) == phase[i] \in {"conn", "wait"} /\ passed[i] = 0        \* still inside startSyncProtocol
NoneInStart == \A i \in Honest : ~InStart(i)
Pick(k, S) == IF Cardinality(S) <= k THEN S ELSE RandomSubset(k, S)
Call(i, what) == hist' = Append(hist, [ev |-> what, i |-> i]) /\ pend' = [pend EXCEPT ![i] = TRUE]
HonestMove ==
     \/ \E i \in Honest : Start(i) /\ Call(i, "Start")
     \/ \E i \in Honest : Next(i) /\ Call(i, "Next")
     \/ \E i \in Honest : step[i] >= StopFrom /\ Stop(i) /\ Call(i, "Stop")
     \/ \E i \in Honest :
          /\ Crashes /\ Len(hist) > 12 /\ NoneInStart /\ \A q \in Honest : phase[q] \notin {"stopwait", "closing"} /\ \A j \in Honest \ {i} : Dead(j) \/ phase[j] = "idle" \/ passed[j] >= step[i]
          /\ Crash(i) /\ hist' = Append(hist, [ev |-> "Crash", i |-> i]) /\ pend' = [pend EXCEPT ![i] = FALSE]
FaultyMove ==
     \/ \E s \in 1..3, i \in Honest :
          /\ \A x \in fst : x.to # i \/ Cardinality({y \in fst : y.to = i}) < 2
          /\ FOpen(s, i) /\ hist' = Append(hist, [ev |-> "FOpen", s |-> s, to |-> i]) /\ UNCHANGED pend
     \/ \E x \in fst : Len(hist) > FaultAfter /\ NoneInStart /\ FClose(x.s) /\ hist' = Append(hist, [ev |-> "FClose", s |-> x.s]) /\ UNCHANGED pend
     \/ \E x \in fst :
          LET cur == rep[x.to][cfg.f]
              tgt == {step[x.to], step[x.to] + 1}
              g0 == {v \in tgt : IF cur < 0 THEN v \in {0, 1} ELSE v >= cur /\ v <= cur + 2}
              good == IF g0 # {} THEN g0 ELSE IF cur < 0 THEN {0, 1} ELSE {cur}
              early == Len(hist) <= FaultAfter IN
          \E a \in (IF early THEN {"ok"} ELSE {"ok", "sig", "ver"}), sd \in (IF early THEN {FALSE} ELSE BOOLEAN) :
          \E st \in (IF early \/ a # "ok" THEN Pick(1, good) ELSE Pick(2, {v \in 0..(MaxStep + 4) : v >= cur - 1 /\ v <= cur + 3})) :
            /\ sd => NoneInStart
            \* a member inside shutdownFunc passes its last barrier unseen: nothing that could race with that
            /\ phase[x.to] \in {"stopwait", "closing"} => a = "ok" /\ st \in good
            /\ early => (st # cur \/ cfg.f \notin conn[x.to])
            /\ FMsg(x.s, Msg(a, st, sd)) /\ UNCHANGED pend
            /\ hist' = Append(hist, [ev |-> "FMsg", s |-> x.s, auth |-> a, step |-> st, shutdown |-> sd])
\* the faulty member and the honest members take turns (otherwise simulation mostly picks among its many messages)
EnvMove ==
  /\ UNCHANGED fin
  /\ IF Len(hist) % 2 = 0 /\ ENABLED FaultyMove THEN FaultyMove
     ELSE IF ENABLED HonestMove THEN HonestMove ELSE FaultyMove
GenNext ==
  IF IntEnabled THEN Internal
  ELSE IF Len(hist) >= GenLen + 1 \/ ~ENABLED EnvMove THEN ~fin /\ fin' = TRUE /\ UNCHANGED <<vars, hist, pend>>
  ELSE EnvMove
GenSpec == GenInit /\ [][GenNext]_gvars
Emit == ~fin \/ PrintT("@@SCHED@@" \o ToJson(hist))
====
