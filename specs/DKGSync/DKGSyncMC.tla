---- MODULE DKGSyncMC ----
(* Exhaustive design check.  Bounds (all here, none in the actions):
     MCCfgs    the clusters explored in one run (size, who is faulty, whether the faulty member's server refuses)
     MaxF      messages of the faulty member            Streams   its stream ids
     MaxCrash  crashes of honest members                FSteps    the step values it may report
   Reductions that lose no reachable state: a periodic message that changes nothing at the server is skipped. *)
EXTENDS DKGSync
CONSTANTS MCCfgs, MaxF, MaxCrash, Streams, FSteps, FAuth, StopAt
VARIABLES nf, nc
mcvars == <<vars, nf, nc>>
MCInit == (\E c \in MCCfgs : InitWith(c)) /\ nf = 0 /\ nc = 0
Changes(j, i) == rep[i][j] # step[j] \/ j \notin conn[i]
Internal ==
  \/ \E j, i \in Honest : Changes(j, i) /\ Ping(j, i)
  \/ \E i \in Honest : Connected(i) \/ Pass(i) \/ TooFar(i) \/ Fail(i) \/ Down(i) \/ FRej(i)
  \/ \E i \in Honest, j \in Members : ShutMsg(i, j)
Env ==
  \/ \E i \in Honest : Start(i) \/ (step[i] < StopAt /\ Next(i)) \/ (step[i] = StopAt /\ Stop(i))
MCNext ==
  \/ (Internal \/ Env) /\ UNCHANGED <<nf, nc>>
  \/ \E i \in Honest : nc < MaxCrash /\ Crash(i) /\ nc' = nc + 1 /\ UNCHANGED nf
  \/ \E s \in Streams, i \in Honest : FOpen(s, i) /\ UNCHANGED <<nf, nc>>
  \/ \E s \in Streams : FClose(s) /\ UNCHANGED <<nf, nc>>
  \/ \E s \in Streams, a \in FAuth, st \in FSteps, sd \in BOOLEAN :
        nf < MaxF /\ FMsg(s, Msg(a, st, sd)) /\ nf' = nf + 1 /\ UNCHANGED nc
MCSpec == MCInit /\ [][MCNext]_mcvars
\* liveness: the goroutines keep running and Run keeps going
Fair == /\ \A j, i \in 1..4 : WF_vars(j \in Honest /\ i \in Honest /\ Changes(j, i) /\ Ping(j, i))
        /\ \A i \in 1..4 : /\ WF_vars(i \in Honest /\ Connected(i)) /\ WF_vars(i \in Honest /\ Pass(i))
                           /\ WF_vars(i \in Honest /\ Fail(i)) /\ WF_vars(i \in Honest /\ Down(i))
                           /\ WF_vars(i \in Honest /\ FRej(i)) /\ WF_vars(i \in Honest /\ Start(i))
                           /\ WF_vars(i \in Honest /\ step[i] < StopAt /\ Next(i))
                           /\ WF_vars(i \in Honest /\ step[i] = StopAt /\ Stop(i))
                           /\ \A j \in 1..4 : WF_vars(i \in Honest /\ j \in Members /\ ShutMsg(i, j))
FairSpec == MCSpec /\ Fair
\* fault-free: everybody completes the ceremony and shuts down cleanly
AllDown == <>(\A i \in Honest : phase[i] = "down")
\* a refused message makes the receiving member abort (unless it only waits for the shutdown flags any more)
ErrorAborts == \A i \in 1..4 : (i \in Honest /\ serr[i] # "none" /\ phase[i] # "closing") ~> (i \in Honest /\ phase[i] \in DeadPh \cup {"closing"})
ClientErrAborts == \A i \in 1..4 : (i \in Honest /\ HasClientErr(i) /\ phase[i] \in {"conn", "wait", "run"}) ~> (i \in Honest /\ phase[i] \notin {"conn", "wait", "run"})
\* NOT a property of the tree (control): once a member failed, every member terminates
ThirdParty == (\E i \in Honest : phase[i] = "failed") ~> (\A j \in Honest : Dead(j))
C3h == {[n |-> 3, f |-> 0, frej |-> FALSE]}
C3f == {[n |-> 3, f |-> 2, frej |-> FALSE]}
C3fr == {[n |-> 3, f |-> 2, frej |-> FALSE], [n |-> 3, f |-> 3, frej |-> TRUE]}
C4f == {[n |-> 4, f |-> 1, frej |-> FALSE]}
C2f == {[n |-> 2, f |-> 1, frej |-> FALSE]}
C34 == {[n |-> 3, f |-> 0, frej |-> FALSE], [n |-> 4, f |-> 0, frej |-> FALSE]}
View == <<vars>>
====
