---- MODULE DKGSync ----
(* dkg/sync (client.go, server.go) and its use in dkg/dkg.go (startSyncProtocol, the step barrier nextStepSync, stopSync).

   Every member of the ceremony runs one sync SERVER and one sync CLIENT per peer.  A client keeps one long-lived stream
   to its peer's server and sends, every `period`, MsgSync{hash signature, version, step, shutdown}; the server answers
   every message (MsgSyncResponse{error}).  One action per critical section:

     server.handleStream, one loop iteration      == Recv   (validReq -> setErr | setConnected; updateStep; response;
                                                              shutdown flag)  -- used by Ping / ShutMsg / FMsg
     startSyncProtocol: clients connected, server.Err()==nil, AwaitAllConnected     == Connected  (then step := 1)
     stepSyncFunc: step++, SetStep on every client                                  == Next / Stop (env: Run got there)
     server.AwaitAllAtStep returns nil / "peer step is too far ahead"               == Pass / TooFar
     the failure monitor (server.Err() != nil), a client's Run returning an error,
       AwaitAllConnected / AwaitAllAtStep returning server.Err()                    == Fail
     shutdownFunc: client.Shutdown (one per peer) / AwaitAllShutdown returns        == ShutMsg / Down

   Members are 1..cfg.n; at most one of them (cfg.f, 0 = none) is faulty.  The faulty member has no state: it opens
   streams to the servers of honest members and sends arbitrary MsgSync messages over them (FOpen / FMsg / FClose); its
   own server either answers the honest clients normally or (cfg.frej: it runs with ANOTHER definition hash) answers
   every message with an error (FRej).  `cfg` never changes: it is a variable only so that one TLC run covers several
   clusters and every recorded trace brings its own.

   A message is [auth, step, shutdown]; auth = "ok" | "ver" (version differs / does not parse) | "sig" (the hash
   signature does not verify under the sender's libp2p key for this server's definition hash) -- validReq checks the
   version first.  rep[i][j] = -1 means: server i has no entry for j in `steps`.

   What the code does and the task description did not expect (followed here, see the hand-back report):
     * updateStep tolerates a jump of +2 (only > last+2 is refused); the barrier then fails with "too far ahead".
     * a stream that ends (peer crashed, disconnected) only clears `connected`: it is not an error, the entry in
       `steps` stays, the honest client reconnects for ever.  Nobody but the two ends of a refused message learns
       about a failure through this protocol (control cfg thirdparty: a third member waits at its barrier for ever).
     * a shutdown flag is honoured even when the message failed validReq.

   Switches for the control configurations (the tree's values first):
     Tol       1      a peer is "at step k" when it reported k..k+Tol
     AuthGate  TRUE   only messages that pass validReq are counted as connected / tracked in `steps`
     Regress   TRUE   updateStep refuses a report that is behind the last known step (restart detection)
     Off       0      AwaitAllAtStep(step - Off) *)
EXTENDS Integers, FiniteSets, TLC
CONSTANTS MaxStep,     \* ceremony steps after the initial barrier: Next is possible while step <= MaxStep (Run: 6)
          Tol, AuthGate, Regress, Off

VARIABLES cfg,      \* [n, f, frej]
          phase,    \* [honest -> "idle" | "conn" | "wait" | "run" | "stopwait" | "closing" | "down" | "failed" | "crashed"]
          step,     \* [honest -> the step its clients report]                       (stepSyncFunc's `step`)
          passed,   \* history: [honest -> highest barrier AwaitAllAtStep let it through]
          cause,    \* history: [honest -> classes of failure present at that member]
          conn,     \* [honest -> server.connected]
          rep,      \* [honest -> [member -> server.steps, -1 = no entry]]
          shut,     \* [honest -> server.shutdown]
          serr,     \* [honest -> server.err as a class: "none" | "sig" | "ver" | "step"]
          valid,    \* history: [honest -> peers that ever sent it a message that passed validReq]
          sent,     \* [honest -> peers its client.Shutdown has completed for]
          fst       \* open streams of the faulty member: set of [s, to]
vars == <<cfg, phase, step, passed, cause, conn, rep, shut, serr, valid, sent, fst>>

Members == 1..cfg.n
Faulty == IF cfg.f = 0 THEN {} ELSE {cfg.f}
Honest == Members \ Faulty
Peers(i) == Members \ {i}
DeadPh == {"failed", "crashed", "down"}
Dead(i) == phase[i] \in DeadPh
ServerUp(i) == phase[i] \notin DeadPh \cup {"idle"}
\* the client of honest j towards i is running (it stops at j's end, and one by one in shutdownFunc)
ClientUp(j, i) == phase[j] \in {"conn", "wait", "run", "stopwait"} \/ (phase[j] = "closing" /\ i \notin sent[j])
Msg(a, s, sd) == [auth |-> a, step |-> s, shutdown |-> sd]

InitWith(c) ==
  LET H == (1..c.n) \ (IF c.f = 0 THEN {} ELSE {c.f}) IN
  /\ cfg = c
  /\ phase = [i \in H |-> "idle"] /\ step = [i \in H |-> 0] /\ passed = [i \in H |-> 0]
  /\ cause = [i \in H |-> {}]
  /\ conn = [i \in H |-> {}] /\ rep = [i \in H |-> [j \in 1..c.n |-> -1]] /\ shut = [i \in H |-> {}]
  /\ serr = [i \in H |-> "none"] /\ valid = [i \in H |-> {}] /\ sent = [i \in H |-> {}]
  /\ fst = {}

---------------------------------------------------------------------------------------------------
(* server.handleStream: one message m from peer p at the server of honest i. *)
BadStep(cur, s) == IF cur >= 0 THEN (Regress /\ s < cur) \/ s > cur + 2        \* behind / ahead the last known step
                   ELSE s < 0 \/ s > 1                               \* abnormal initial step
Counted(m) == m.auth = "ok" \/ ~AuthGate                            \* (control AuthGate = FALSE: everything is counted)
Outcome(i, p, m) == IF m.auth # "ok" THEN m.auth
                    ELSE IF BadStep(rep[i][p], m.step) THEN "step" ELSE "ok"
\* the handler returns (stream closed by the server, clearConnected) after a refused step and after a shutdown message
Ends(i, p, m) == (Counted(m) /\ BadStep(rep[i][p], m.step)) \/ m.shutdown
Recv(i, p, m) ==
  LET bad == Counted(m) /\ BadStep(rep[i][p], m.step) IN
  /\ serr' = [serr EXCEPT ![i] = IF m.auth # "ok" THEN m.auth ELSE IF bad THEN "step" ELSE @]
  /\ valid' = [valid EXCEPT ![i] = IF m.auth = "ok" THEN @ \cup {p} ELSE @]
  /\ conn' = [conn EXCEPT ![i] = IF Ends(i, p, m) THEN @ \ {p} ELSE IF Counted(m) THEN @ \cup {p} ELSE @]
  /\ rep' = [rep EXCEPT ![i][p] = IF Counted(m) /\ ~bad THEN m.step ELSE @]
  /\ shut' = [shut EXCEPT ![i] = IF m.shutdown /\ ~bad THEN @ \cup {p} ELSE @]

(* A member's Run ends (error, crash, or completion): its host is closed, its streams end everywhere. *)
Die(j, ph, c) ==
  /\ phase' = [phase EXCEPT ![j] = ph]
  /\ cause' = [cause EXCEPT ![j] = @ \cup c]
  /\ conn' = [i \in Honest |-> conn[i] \ {j}]
  /\ fst' = {x \in fst : x.to # j}

---------------------------------------------------------------------------------------------------
(* Honest members. *)
Start(i) ==                                              \* env: Run reaches startSyncProtocol
  /\ i \in Honest /\ phase[i] = "idle"
  /\ phase' = [phase EXCEPT ![i] = "conn"]
  /\ UNCHANGED <<cfg, step, passed, cause, conn, rep, shut, serr, valid, sent, fst>>
\* the periodic message of j's client reaches the server of i
Ping(j, i) ==
  /\ j \in Honest /\ i \in Honest /\ i # j /\ ClientUp(j, i) /\ ServerUp(i)
  /\ Recv(i, j, Msg("ok", step[j], FALSE))
  /\ UNCHANGED <<cfg, phase, step, passed, cause, sent, fst>>
HasClientErr(i) == "peererr" \in cause[i]
Connected(i) ==
  /\ i \in Honest /\ phase[i] = "conn" /\ serr[i] = "none" /\ ~HasClientErr(i)
  /\ \A j \in Honest \ {i} : ServerUp(j)                 \* its own clients have a stream
  /\ conn[i] = Peers(i)                                  \* AwaitAllConnected
  /\ phase' = [phase EXCEPT ![i] = "wait"] /\ step' = [step EXCEPT ![i] = 1]
  /\ UNCHANGED <<cfg, passed, cause, conn, rep, shut, serr, valid, sent, fst>>
Bar(i) == step[i] - Off
Known(i) == \A j \in Peers(i) : rep[i][j] >= 0
AllAt(i) == Known(i) /\ \A j \in Peers(i) : rep[i][j] \in Bar(i)..(Bar(i) + Tol)
Pass(i) ==
  /\ i \in Honest /\ phase[i] \in {"wait", "stopwait"} /\ serr[i] = "none" /\ AllAt(i)
  /\ passed' = [passed EXCEPT ![i] = step[i]]
  /\ phase' = [phase EXCEPT ![i] = IF @ = "wait" THEN "run" ELSE "closing"]
  /\ UNCHANGED <<cfg, step, cause, conn, rep, shut, serr, valid, sent, fst>>
\* isAllAtStep: "peer step is too far ahead" -- when another peer lags as well, Go's map order decides whether the
\* barrier keeps waiting or fails: enabled, not forced
FarAhead(i) == Known(i) /\ \E j \in Peers(i) : rep[i][j] >= Bar(i) + 2
TooFar(i) ==
  /\ i \in Honest /\ phase[i] \in {"wait", "stopwait"} /\ serr[i] = "none" /\ FarAhead(i)
  /\ Die(i, "failed", {"toofar"})
  /\ UNCHANGED <<cfg, step, passed, rep, shut, serr, valid, sent>>
\* the server recorded an error (monitor / AwaitAll* return it), or a client's Run failed before shutdown started
FailCause(i) == (IF serr[i] # "none" /\ phase[i] \in {"conn", "wait", "run", "stopwait"} THEN {serr[i]} ELSE {})
                \cup (IF HasClientErr(i) /\ phase[i] \in {"conn", "wait", "run"} THEN {"peererr"} ELSE {})
Fail(i) ==
  /\ i \in Honest /\ FailCause(i) # {}
  /\ Die(i, "failed", FailCause(i))
  /\ UNCHANGED <<cfg, step, passed, rep, shut, serr, valid, sent>>
Next(i) ==                                               \* env: Run finished a ceremony step
  /\ i \in Honest /\ phase[i] = "run" /\ step[i] <= MaxStep
  /\ step' = [step EXCEPT ![i] = @ + 1] /\ phase' = [phase EXCEPT ![i] = "wait"]
  /\ UNCHANGED <<cfg, passed, cause, conn, rep, shut, serr, valid, sent, fst>>
Stop(i) ==                                               \* env: Run calls stopSync (shutdownStarted := true)
  /\ i \in Honest /\ phase[i] = "run"
  /\ step' = [step EXCEPT ![i] = @ + 1] /\ phase' = [phase EXCEPT ![i] = "stopwait"]
  /\ UNCHANGED <<cfg, passed, cause, conn, rep, shut, serr, valid, sent, fst>>
\* client.Shutdown towards peer j returns (it only waits for that client's Run to end)
ShutMsg(i, j) ==
  /\ i \in Honest /\ phase[i] = "closing" /\ j \in Peers(i) \ sent[i]
  /\ sent' = [sent EXCEPT ![i] = @ \cup {j}]
  /\ IF j \in Honest /\ ServerUp(j) THEN Recv(j, i, Msg("ok", step[i], TRUE))
     ELSE UNCHANGED <<conn, rep, shut, serr, valid>>
  /\ UNCHANGED <<cfg, phase, step, passed, cause, fst>>
Down(i) ==                                               \* AwaitAllShutdown
  /\ i \in Honest /\ phase[i] = "closing" /\ sent[i] = Peers(i) /\ shut[i] = Peers(i)
  /\ Die(i, "down", {})
  /\ UNCHANGED <<cfg, step, passed, rep, shut, serr, valid, sent>>
Crash(i) ==                                              \* env: the process dies / is stopped by its operator
  /\ i \in Honest /\ phase[i] \notin DeadPh \cup {"idle"}
  /\ Die(i, "crashed", {"crash"})
  /\ UNCHANGED <<cfg, step, passed, rep, shut, serr, valid, sent>>

(* The faulty member. *)
FOpen(s, i) ==
  /\ cfg.f # 0 /\ i \in Honest /\ ServerUp(i) /\ \A x \in fst : x.s # s
  /\ fst' = fst \cup {[s |-> s, to |-> i]}
  /\ UNCHANGED <<cfg, phase, step, passed, cause, conn, rep, shut, serr, valid, sent>>
FMsg(s, m) ==
  /\ \E x \in fst : /\ x.s = s /\ ServerUp(x.to)
                    /\ Recv(x.to, cfg.f, m)
                    /\ fst' = IF Ends(x.to, cfg.f, m) THEN fst \ {x} ELSE fst
  /\ UNCHANGED <<cfg, phase, step, passed, cause, sent>>
FClose(s) ==
  /\ \E x \in fst : /\ x.s = s
                    /\ fst' = fst \ {x}
                    /\ conn' = [conn EXCEPT ![x.to] = @ \ {cfg.f}]
  /\ UNCHANGED <<cfg, phase, step, passed, cause, rep, shut, serr, valid, sent>>
\* its server refuses the message of honest i's client: that client's Run returns "peer responded with error"
FRej(i) ==
  /\ cfg.f # 0 /\ cfg.frej /\ i \in Honest /\ phase[i] \in {"conn", "wait", "run", "stopwait"} /\ ~HasClientErr(i)
  /\ cause' = [cause EXCEPT ![i] = @ \cup {"peererr"}]
  /\ UNCHANGED <<cfg, phase, step, passed, conn, rep, shut, serr, valid, sent, fst>>

---------------------------------------------------------------------------------------------------
(* Properties. *)
Started(j) == phase[j] # "idle"
\* no member passes barrier k before every peer's step counter reached k (for the faulty peer: before it REPORTED >= k)
BarrierSafe == \A i \in Honest : /\ \A j \in Honest \ {i} : passed[i] <= step[j]
                                 /\ \A f \in Faulty : passed[i] >= 1 => rep[i][f] >= passed[i]
\* ... so honest members are never more than one step apart
NotAhead == \A i, j \in Honest : step[i] <= step[j] + 1
\* a peer whose messages never passed validReq is neither counted as connected nor tracked, and nobody passes a barrier
\* without every peer having authenticated
AuthOnly == \A i \in Honest : /\ conn[i] \subseteq valid[i]
                              /\ \A j \in Peers(i) : rep[i][j] >= 0 => j \in valid[i]
                              /\ passed[i] >= 1 => Peers(i) \subseteq valid[i]
\* nobody fails without a cause
FailHasCause == \A i \in Honest : phase[i] = "failed" => cause[i] # {}
\* without a faulty member and without crashes no message is ever refused and nobody fails (no false restart detection)
HonestNeverRefused == (cfg.f = 0 /\ \A i \in Honest : phase[i] # "crashed") =>
                         \A i \in Honest : serr[i] = "none" /\ phase[i] # "failed"
\* clean shutdown: a member completes only after EVERY peer sent it the shutdown flag, and an honest peer sends that only
\* after it passed the final ("shutdown ready") barrier, i.e. after everybody finished all work
CleanShutdown == \A i \in Honest : phase[i] = "down" =>
                    /\ shut[i] = Peers(i)
                    /\ \A j \in Honest \ {i} : phase[j] \in {"closing", "down", "crashed"} /\ passed[j] >= passed[i]
ShutOnlyAfterBarrier == \A i \in Honest : \A j \in shut[i] \cap Honest : passed[j] = step[j] /\ phase[j] \in {"closing", "down", "crashed"}
TypeOK == /\ \A i \in Honest : step[i] \in 0..(MaxStep + 2) /\ passed[i] <= step[i]
          /\ \A x \in fst : x.to \in Honest
Safety == BarrierSafe /\ NotAhead /\ AuthOnly /\ FailHasCause /\ HonestNeverRefused /\ CleanShutdown
          /\ ShutOnlyAfterBarrier /\ TypeOK
\* histories only grow; a server error is never cleared
Monotone == [][/\ \A i \in Honest : passed[i] <= passed'[i] /\ step[i] <= step'[i] /\ valid[i] \subseteq valid'[i]
                                   /\ cause[i] \subseteq cause'[i] /\ shut[i] \subseteq shut'[i]
                                   /\ (serr[i] # "none" => serr'[i] # "none")
               /\ cfg' = cfg]_vars
====
