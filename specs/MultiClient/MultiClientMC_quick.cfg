SPECIFICATION MCSpec
CONSTANTS FallbackMode = "last"
 FailFast = FALSE
 CancelMode = "coded"
 WaitMode = "none"
 MaxP = 3
 MaxB = 1
 MaxDeaf = 1
INVARIANTS Safety NeverStuckBehindOthers
CHECK_DEADLOCK FALSE
