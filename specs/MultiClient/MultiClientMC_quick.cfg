SPECIFICATION MCSpec
CONSTANTS FallbackMode = "last"
 FailFast = FALSE
 MaxP = 3
 MaxB = 1
INVARIANTS Safety NeverStuckBehindOthers
CHECK_DEADLOCK FALSE
