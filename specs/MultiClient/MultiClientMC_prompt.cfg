SPECIFICATION MCSpec
CONSTANTS FallbackMode = "free"
 FailFast = FALSE
 CancelMode = "prompt"
 WaitMode = "none"
 MaxP = 3
 MaxB = 1
 MaxDeaf = 2
INVARIANTS Safety NeverStuckBehindOthers CancelPromptInv
CHECK_DEADLOCK FALSE
