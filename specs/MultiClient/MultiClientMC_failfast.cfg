SPECIFICATION MCSpec
CONSTANTS FallbackMode = "last"
 FailFast = TRUE
 CancelMode = "coded"
 WaitMode = "none"
 MaxP = 2
 MaxB = 1
 MaxDeaf = 0
INVARIANTS FailOnlyIfAllFail
CHECK_DEADLOCK FALSE
