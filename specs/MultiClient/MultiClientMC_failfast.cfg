SPECIFICATION MCSpec
CONSTANTS FallbackMode = "last"
 FailFast = TRUE
 MaxP = 2
 MaxB = 1
INVARIANTS FailOnlyIfAllFail
CHECK_DEADLOCK FALSE
