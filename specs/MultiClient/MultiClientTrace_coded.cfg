SPECIFICATION TraceSpec
CONSTANTS FallbackMode = "free"
 FailFast = FALSE
 CancelMode = "coded"
 WaitMode = "none"
 NotSyncedAs = "unavail"
CONSTRAINT Mark
POSTCONDITION Report
CHECK_DEADLOCK FALSE
