SPECIFICATION FairSpec
CONSTANTS FallbackMode = "last"
 FailFast = FALSE
 MaxP = 2
 MaxB = 1
PROPERTIES SuccessIfAny CancelPrompt Terminates
CHECK_DEADLOCK FALSE
