---- MODULE MultiClientGen ----
(* Schedule generation: behaviours of the design spec (fallback decision and cancellation as coded) recorded in the
   history variable `hist`: the configuration (outcome CLASS per node; checks/c19.py picks a concrete error variant per
   class; the nodes that ignore their request context) and the environment's moves Call / NodeDone(i) /
   CancelCaller(how).  What the call answers is the implementation's business.  Printed when the call has returned
   or when it can only wait for hung or stuck nodes (so stuck nodes are released in some schedules and left stuck
   until the end in others).  Run with -simulate. *)
EXTENDS MultiClient, Json
CONSTANTS MaxP, MaxB, MaxDeaf
VARIABLE hist
GenInit == \E p \in 1..MaxP, b \in 0..MaxB, st \in Styles :
             \E o \in [1..(p + b) -> ClassesOf(st)], df \in SUBSET (1..(p + b)) :
               /\ Cardinality(df) <= MaxDeaf
               /\ InitWith(p, b, st, o, df)
               /\ hist = <<[ev |-> "Cfg", P |-> p, B |-> b, style |-> st, out |-> o,
                            deaf |-> [i \in 1..(p + b) |-> i \in df]]>>
GenNext ==
  \/ Call /\ hist' = Append(hist, [ev |-> "Call"])
  \/ \E i \in Nodes : NodeDone(i) /\ hist' = Append(hist, [ev |-> "NodeDone", i |-> i])
  \/ \E how \in {"cancel", "deadline"} : CancelCaller /\ hist' = Append(hist, [ev |-> "CancelCaller", how |-> how])
  \/ CtxReturn /\ UNCHANGED hist
  \/ Deliver /\ UNCHANGED hist
GenSpec == GenInit /\ [][GenNext]_<<vars, hist>>
Stuck == phase \in {"prim", "fall"} /\ ~CtxDue /\ \A i \in Running : outcome[i] = "hang" \/ i \in deaf
Emit == ~(delivered \/ Stuck) \/ PrintT("@@SCHED@@" \o ToJson(hist))
====
