---- MODULE MultiClientGen ----
(* Schedule generation: behaviours of the design spec (fallback decision as coded) recorded in the history variable
   `hist`: the configuration (outcome CLASS per node; checks/c19.py picks a concrete error variant per class) and the
   environment's moves Call / NodeDone(i) / CancelCaller(how).  What the call answers is the implementation's
   business.  Printed when the call has returned or when it can only wait for hung nodes.  Run with -simulate. *)
EXTENDS MultiClient, Json
CONSTANTS MaxP, MaxB
VARIABLE hist
GenInit == \E p \in 1..MaxP, b \in 0..MaxB, st \in Styles :
             \E o \in [1..(p + b) -> ClassesOf(st)] :
               /\ InitWith(p, b, st, o)
               /\ hist = <<[ev |-> "Cfg", P |-> p, B |-> b, style |-> st, out |-> o]>>
GenNext ==
  \/ Call /\ hist' = Append(hist, [ev |-> "Call"])
  \/ \E i \in Nodes : NodeDone(i) /\ hist' = Append(hist, [ev |-> "NodeDone", i |-> i])
  \/ \E how \in {"cancel", "deadline"} : CancelCaller /\ hist' = Append(hist, [ev |-> "CancelCaller", how |-> how])
  \/ CtxReturn /\ UNCHANGED hist
  \/ Deliver /\ UNCHANGED hist
GenSpec == GenInit /\ [][GenNext]_<<vars, hist>>
Stuck == phase \in {"prim", "fall"} /\ ~cancelled /\ \A i \in (Active \cap started) \ done : outcome[i] = "hang"
Emit == ~(delivered \/ Stuck) \/ PrintT("@@SCHED@@" \o ToJson(hist))
====
