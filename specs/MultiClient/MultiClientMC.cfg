SPECIFICATION MCSpec
CONSTANTS FallbackMode = "last"
 FailFast = FALSE
 CancelMode = "coded"
 WaitMode = "none"
 MaxP = 3
 MaxB = 2
 MaxDeaf = 2
INVARIANTS Safety NeverStuckBehindOthers
CHECK_DEADLOCK FALSE
