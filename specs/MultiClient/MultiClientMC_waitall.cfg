SPECIFICATION MCSpec
CONSTANTS FallbackMode = "last"
 FailFast = FALSE
 CancelMode = "coded"
 WaitMode = "all"
 MaxP = 2
 MaxB = 1
 MaxDeaf = 1
INVARIANTS PromptReturn
CHECK_DEADLOCK FALSE
