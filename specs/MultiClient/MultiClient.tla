---- MODULE MultiClient ----
(* app/eth2wrap/eth2wrap.go provide/submit over app/forkjoin (C19).

   provide(ctx, clients, fallbacks, work, isSuccess):  runForkJoin(clients); when that fails with an error of an
   unavailability class and fallbacks are configured: runForkJoin(fallbacks).
   runForkJoin(cs): forkjoin.New(ctx, work, WithoutFailFast, WithWorkers(len(cs))) -- every node of cs is called in
   parallel on a worker context derived from the caller's; the caller ranges over the UNBUFFERED join channel and
   examines one result per iteration:
        ctx.Err() != nil                      -> return ctx.Err()
        res.Err == nil && isSuccess(output)   -> return that output   (deferred cancel(): worker contexts cancelled,
                                                                       results of the others dropped)
        otherwise                             -> nokResp = res        (the LAST examined failure is kept)
   channel closed (all results examined)      -> return nokResp.Output, nokResp.Err
   submit = provide with an empty output and no success predicate.

   One action per loop iteration (NodeDone); the end of the loop and the fallback decision are part of the iteration
   that examined the last result (nothing can interleave but the caller's cancellation, which yields the same
   answer either way).  Node outcome classes:
     "ok"       answers successfully
     "nok"      answers without error but with an output the success predicate refuses (NodeSyncing: is_syncing)
     "unavail"  error of an unavailability class: timeout / syncing / bad gateway / unreachable
     "other"    any other error (4xx, 500, ...)
     "hang"     never answers (returns only when its context is cancelled); a SLOW node is one that answers late in
                the completion order, which the free order of NodeDone steps covers.

   FallbackMode selects the fallback decision taken when the last primary failed:
     "last"    as coded: iff the LAST examined failure is an error of an unavailability class
     "free"    what the property demands (used by trace validation): required when ALL primary failures are of that
               class, forbidden when NONE is (and none is an unsuccessful output), either otherwise
     "anyerr"  control (must violate FallbackRule): on any error
   FailFast = TRUE is a control too (forkjoin's default: the first failure cancels the other workers).

   Nodes that IGNORE their request context (`deaf`; a request blocked on a mutex, in a DNS lookup, in a client that
   does not look at ctx).  Orthogonal to the outcome class: a deaf node answers with its outcome when the environment
   releases it (NodeDone), a deaf "hang" node never does; cancelling its worker context has no effect on it.
   Which response decides (unchanged code): the caller's loop returns from INSIDE the range over the join channel,
   and forkjoin's cancel() (default: no WithWaitOnCancel) only cancels the worker context and closes dropOutput --
   it does not wait for the workers.  Hence
     * provide AND submit (= provide with a predicate that accepts every nil-error result): the FIRST examined
       result without error that passes the predicate decides; the call returns at once, whatever the other
       requests do (slow, hung, deaf);
     * a failure needs every result of the stage (WithoutFailFast), so a deaf node that has not answered keeps the
       stage open -- the statement's "fails only when all primaries fail";
     * the caller's cancellation is noticed when the NEXT result is examined (`if ctx.Err() != nil`): every running
       request that honours its context answers at once with the context's error, so the call returns promptly
       as long as ONE running request of the stage honours its context.
   CancelMode selects what a cancelled call does while every running request of the stage is deaf:
     "prompt"  the property: it returns with the context's error at once
     "coded"   the unchanged code: it stays blocked on the join channel until a deaf node is released (its result
               is then examined, ctx.Err() != nil -> the context's error)      [finding C19-cancel-waits-for-deaf-node]
     "either"  both allowed (generic trace validation; the dedicated family validates with "prompt")
   WaitMode = "all" is a control (must violate PromptReturn): the return waits until every started request has
   returned (forkjoin.WithWaitOnCancel: the deferred cancel() blocks on <-done). *)
EXTENDS Integers, Sequences, FiniteSets, TLC
CONSTANTS FallbackMode, FailFast, CancelMode, WaitMode

VARIABLES np, nb, style, outcome,   \* configuration: #primaries, #fallbacks, call style, outcome class per node
          deaf,          \* configuration: nodes whose requests ignore their context
          phase,         \* "idle" (not called yet) | "prim" | "fall" | "done" (provide has its answer)
          started,       \* nodes whose API method has been invoked
          done,          \* nodes whose result has been examined by the caller's loop
          last,          \* nokResp: node of the last examined failure (0 = none)
          ret,           \* [k |-> "none"|"ok"|"nok"|"err"|"ctx", by |-> node or 0]
          delivered,     \* the call has returned to the caller
          cancelled,     \* the caller's context is cancelled / past its deadline
          usedFallback,
          wcanc,         \* started nodes that were still running when the answer was fixed: their worker context
                         \* is cancelled (deferred cancel() of forkjoin / the caller's own cancellation)
          relsd          \* deaf nodes of wcanc that the environment released after the answer was fixed
cvars == <<np, nb, style, outcome, deaf>>
vars == <<np, nb, style, outcome, deaf, phase, started, done, last, ret, delivered, cancelled, usedFallback, wcanc, relsd>>

Prim == 1..np
Fall == (np + 1)..(np + nb)
Nodes == 1..(np + nb)
Styles == {"att", "sync", "submit"}    \* provide without predicate / provide with isSyncStateOk / submit
ClassesOf(st) == IF st = "sync" THEN {"ok", "nok", "unavail", "other", "hang"} ELSE {"ok", "unavail", "other", "hang"}
NoRet == [k |-> "none", by |-> 0]

InitWith(p, b, st, o, df) ==
  /\ np = p /\ nb = b /\ style = st /\ outcome = o /\ deaf = df
  /\ phase = "idle" /\ started = {} /\ done = {} /\ last = 0 /\ ret = NoRet /\ delivered = FALSE
  /\ cancelled = FALSE /\ usedFallback = FALSE /\ wcanc = {} /\ relsd = {}

Active == IF phase = "prim" THEN Prim ELSE IF phase = "fall" THEN Fall ELSE {}

\* the answer is fixed: runForkJoin returns, its deferred cancel() cancels the workers that are still running
Finish(r, st, dn) == /\ ret' = r /\ phase' = "done" /\ wcanc' = st \ dn

\* running requests of the stage / those of them that answer (with the context's error) when their context is cancelled
Running == (Active \cap started) \ done
HearsCancel == Running \ deaf
\* a cancelled call MUST return now / MAY return now
CtxDue == cancelled /\ phase \in {"prim", "fall"} /\ (CancelMode = "prompt" \/ HearsCancel # {})
CtxMay == cancelled /\ phase \in {"prim", "fall"} /\ (CtxDue \/ CancelMode = "either")

\* m := multi client; m.<Method>(ctx, ...)
Call ==
  /\ phase = "idle"
  /\ IF cancelled
       THEN \* workCtx is born cancelled: the workers skip the work function, every result is ctx.Err()
            /\ Finish([k |-> "ctx", by |-> 0], {}, {}) /\ UNCHANGED started
       ELSE /\ phase' = "prim" /\ started' = Prim /\ UNCHANGED <<ret, wcanc>>
  /\ UNCHANGED <<cvars, done, last, delivered, cancelled, usedFallback, relsd>>

FallbackChoices(i) ==
  IF nb = 0 THEN {FALSE}
  ELSE CASE FallbackMode = "last"   -> {outcome[i] = "unavail"}
         [] FallbackMode = "anyerr" -> {outcome[i] # "nok"}
         [] OTHER -> LET cls == {outcome[j] : j \in Prim} IN
                     IF cls = {"unavail"} THEN {TRUE}
                     ELSE IF "unavail" \notin cls /\ "nok" \notin cls THEN {FALSE}
                     ELSE BOOLEAN

\* one iteration of `for res := range join()`: the result of node i is examined
NodeDone(i) ==
  /\ phase \in {"prim", "fall"} /\ ~CtxDue
  /\ i \in Running
  /\ outcome[i] # "hang"
  /\ done' = done \cup {i}
  /\ IF cancelled
       THEN \* every running request ignores the cancellation (CancelMode "coded"/"either"): the released node's
            \* result is the next one examined, `ctx.Err() != nil` -> the context's error, whatever the result is
            Finish([k |-> "ctx", by |-> 0], started, done') /\ UNCHANGED <<started, last, usedFallback>>
     ELSE IF outcome[i] = "ok"
       THEN Finish([k |-> "ok", by |-> i], started, done') /\ UNCHANGED <<started, last, usedFallback>>
     ELSE
       /\ last' = i
       /\ LET failRet == [k |-> IF outcome[i] = "nok" THEN "nok" ELSE "err", by |-> i] IN
          IF FailFast /\ outcome[i] # "nok"
            THEN \* control: the failure cancels the other workers, the call fails although others might answer
                 Finish(failRet, started, done') /\ UNCHANGED <<started, usedFallback>>
          ELSE IF ~(Active \subseteq done')
            THEN UNCHANGED <<phase, started, ret, wcanc, usedFallback>>
          ELSE IF phase = "prim"
            THEN \E fb \in FallbackChoices(i) :
                   IF fb THEN /\ phase' = "fall" /\ started' = started \cup Fall /\ usedFallback' = TRUE
                              /\ UNCHANGED <<ret, wcanc>>
                   ELSE Finish(failRet, started, done') /\ UNCHANGED <<started, usedFallback>>
          ELSE Finish(failRet, started, done') /\ UNCHANGED <<started, usedFallback>>
  /\ UNCHANGED <<cvars, delivered, cancelled, relsd>>

\* the caller cancels its context (or its deadline passes)
CancelCaller == /\ ~cancelled /\ phase # "done" /\ cancelled' = TRUE
                /\ UNCHANGED <<cvars, phase, started, done, last, ret, delivered, usedFallback, wcanc, relsd>>

\* every running node that honours its context returns the context's error; the first of these results is examined:
\* ctx.Err() != nil
CtxReturn == /\ CtxMay /\ Finish([k |-> "ctx", by |-> 0], started, done)
             /\ UNCHANGED <<cvars, started, done, last, delivered, cancelled, usedFallback, relsd>>

\* the environment releases a deaf node whose answer nobody waits for any more
Release(i) == /\ phase = "done" /\ ~delivered /\ i \in (wcanc \cap deaf) \ relsd /\ outcome[i] # "hang"
              /\ relsd' = relsd \cup {i}
              /\ UNCHANGED <<cvars, phase, started, done, last, ret, delivered, cancelled, usedFallback, wcanc>>

\* the call returns to the caller; the requests still running have had their context cancelled, those that honour it
\* have returned; WaitMode "all" (control): the return waits for the deaf ones as well
RetDue == phase = "done" /\ ~delivered
WaitsFor == IF WaitMode = "all" THEN (wcanc \cap deaf) \ relsd ELSE {}
Deliver == /\ RetDue /\ WaitsFor = {} /\ delivered' = TRUE
           /\ UNCHANGED <<cvars, phase, started, done, last, ret, cancelled, usedFallback, wcanc, relsd>>

---------------------------------------------------------------------------------------------------
(* Properties (C19). *)
PrimOK == {i \in Prim : outcome[i] = "ok"}
PrimCls == {outcome[i] : i \in Prim}
Failed(i) == outcome[i] \in {"nok", "unavail", "other"}

TypeOK == /\ started \subseteq Nodes /\ done \subseteq started /\ wcanc \subseteq started /\ deaf \subseteq Nodes
          /\ relsd \subseteq wcanc \cap deaf
          /\ ret.k \in {"none", "ok", "nok", "err", "ctx"} /\ ret.by \in Nodes \cup {0}
          /\ (ret.k = "none") = (phase # "done")
          /\ phase \in {"idle", "prim", "fall", "done"}
\* the result is the answer of exactly one node that answered successfully and that was consulted
ExactlyOneAnswer == ret.k = "ok" => /\ ret.by \in started /\ outcome[ret.by] = "ok"
                                    /\ (ret.by \in Prim \/ usedFallback)
\* a failure is one node's failure too
FailureIsOneNodes == ret.k \in {"err", "nok"} => /\ ret.by \in done /\ Failed(ret.by)
                                                 /\ (ret.k = "nok") = (outcome[ret.by] = "nok")
\* the call fails only when all primaries failed (and, when fallbacks were consulted, all of them as well)
FailOnlyIfAllFail == ret.k \in {"err", "nok"} => /\ \A i \in Prim : Failed(i) /\ i \in done
                                                 /\ usedFallback => \A i \in Fall : Failed(i) /\ i \in done
\* a successful primary is never overruled, fallbacks are not consulted while a primary may still answer
NoFallbackBeforeAllFailed == (started \cap Fall # {}) => (usedFallback /\ \A i \in Prim : Failed(i) /\ i \in done)
\* fallback is taken when every primary failure indicates unavailability, not taken when none does
FallbackRule == /\ usedFallback => (PrimCls \cap {"unavail", "nok"} # {})
                /\ (ret.k \in {"err", "nok"} /\ ~usedFallback /\ nb > 0) => PrimCls # {"unavail"}
\* does not wait for slower or hung nodes: as soon as a successful result has been examined the answer is fixed
\* (a result examined after the caller's cancellation is discarded: the context's error is the answer)
NoWaitForSlow == (\E i \in done : outcome[i] = "ok") => (ret.k = "ok" \/ (cancelled /\ ret.k = "ctx"))
\* does not wait for STUCK nodes either: once the answer is fixed the return needs no further move of the environment
PromptReturn == RetDue => ENABLED Deliver
\* cancelling the caller's context returns promptly: nothing but the return of the context's error can happen
CancelPromptInv == (cancelled /\ phase \in {"prim", "fall"}) => CtxDue
\* the workers of the nodes still running are cancelled once the answer is fixed
WorkersCancelled == phase = "done" => wcanc = started \ done
\* cancellation is the only source of a ctx answer
CtxOnlyIfCancelled == ret.k = "ctx" => cancelled
Safety == TypeOK /\ ExactlyOneAnswer /\ FailureIsOneNodes /\ FailOnlyIfAllFail /\ NoFallbackBeforeAllFailed
          /\ FallbackRule /\ NoWaitForSlow /\ WorkersCancelled /\ CtxOnlyIfCancelled /\ PromptReturn
====
