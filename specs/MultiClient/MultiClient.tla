---- MODULE MultiClient ----
(* app/eth2wrap/eth2wrap.go provide/submit over app/forkjoin (C19).

   provide(ctx, clients, fallbacks, work, isSuccess):  runForkJoin(clients); when that fails with an error of an
   unavailability class and fallbacks are configured: runForkJoin(fallbacks).
   runForkJoin(cs): forkjoin.New(ctx, work, WithoutFailFast, WithWorkers(len(cs))) -- every node of cs is called in
   parallel on a worker context derived from the caller's; the caller ranges over the UNBUFFERED join channel and
   examines one result per iteration:
        ctx.Err() != nil                      -> return ctx.Err()
        res.Err == nil && isSuccess(output)   -> return that output   (deferred cancel(): worker contexts cancelled,
                                                                       results of the others dropped)
        otherwise                             -> nokResp = res        (the LAST examined failure is kept)
   channel closed (all results examined)      -> return nokResp.Output, nokResp.Err
   submit = provide with an empty output and no success predicate.

   One action per loop iteration (NodeDone); the end of the loop and the fallback decision are part of the iteration
   that examined the last result (nothing can interleave but the caller's cancellation, which yields the same
   answer either way).  Node outcome classes:
     "ok"       answers successfully
     "nok"      answers without error but with an output the success predicate refuses (NodeSyncing: is_syncing)
     "unavail"  error of an unavailability class: timeout / syncing / bad gateway / unreachable
     "other"    any other error (4xx, 500, ...)
     "hang"     never answers (returns only when its context is cancelled); a SLOW node is one that answers late in
                the completion order, which the free order of NodeDone steps covers.

   FallbackMode selects the fallback decision taken when the last primary failed:
     "last"    as coded: iff the LAST examined failure is an error of an unavailability class
     "free"    what the property demands (used by trace validation): required when ALL primary failures are of that
               class, forbidden when NONE is (and none is an unsuccessful output), either otherwise
     "anyerr"  control (must violate FallbackRule): on any error
   FailFast = TRUE is a control too (forkjoin's default: the first failure cancels the other workers). *)
EXTENDS Integers, Sequences, FiniteSets, TLC
CONSTANTS FallbackMode, FailFast

VARIABLES np, nb, style, outcome,   \* configuration: #primaries, #fallbacks, call style, outcome class per node
          phase,         \* "idle" (not called yet) | "prim" | "fall" | "done" (provide has its answer)
          started,       \* nodes whose API method has been invoked
          done,          \* nodes whose result has been examined by the caller's loop
          last,          \* nokResp: node of the last examined failure (0 = none)
          ret,           \* [k |-> "none"|"ok"|"nok"|"err"|"ctx", by |-> node or 0]
          delivered,     \* the call has returned to the caller
          cancelled,     \* the caller's context is cancelled / past its deadline
          usedFallback,
          wcanc          \* started nodes that were still running when the answer was fixed: their worker context
                         \* is cancelled (deferred cancel() of forkjoin / the caller's own cancellation)
cvars == <<np, nb, style, outcome>>
vars == <<np, nb, style, outcome, phase, started, done, last, ret, delivered, cancelled, usedFallback, wcanc>>

Prim == 1..np
Fall == (np + 1)..(np + nb)
Nodes == 1..(np + nb)
Styles == {"att", "sync", "submit"}    \* provide without predicate / provide with isSyncStateOk / submit
ClassesOf(st) == IF st = "sync" THEN {"ok", "nok", "unavail", "other", "hang"} ELSE {"ok", "unavail", "other", "hang"}
NoRet == [k |-> "none", by |-> 0]

InitWith(p, b, st, o) ==
  /\ np = p /\ nb = b /\ style = st /\ outcome = o
  /\ phase = "idle" /\ started = {} /\ done = {} /\ last = 0 /\ ret = NoRet /\ delivered = FALSE
  /\ cancelled = FALSE /\ usedFallback = FALSE /\ wcanc = {}

Active == IF phase = "prim" THEN Prim ELSE IF phase = "fall" THEN Fall ELSE {}

\* the answer is fixed: runForkJoin returns, its deferred cancel() cancels the workers that are still running
Finish(r, st, dn) == /\ ret' = r /\ phase' = "done" /\ wcanc' = st \ dn

\* m := multi client; m.<Method>(ctx, ...)
Call ==
  /\ phase = "idle"
  /\ IF cancelled
       THEN \* workCtx is born cancelled: the workers skip the work function, every result is ctx.Err()
            /\ Finish([k |-> "ctx", by |-> 0], {}, {}) /\ UNCHANGED started
       ELSE /\ phase' = "prim" /\ started' = Prim /\ UNCHANGED <<ret, wcanc>>
  /\ UNCHANGED <<cvars, done, last, delivered, cancelled, usedFallback>>

FallbackChoices(i) ==
  IF nb = 0 THEN {FALSE}
  ELSE CASE FallbackMode = "last"   -> {outcome[i] = "unavail"}
         [] FallbackMode = "anyerr" -> {outcome[i] # "nok"}
         [] OTHER -> LET cls == {outcome[j] : j \in Prim} IN
                     IF cls = {"unavail"} THEN {TRUE}
                     ELSE IF "unavail" \notin cls /\ "nok" \notin cls THEN {FALSE}
                     ELSE BOOLEAN

\* one iteration of `for res := range join()`: the result of node i is examined
NodeDone(i) ==
  /\ phase \in {"prim", "fall"} /\ ~cancelled
  /\ i \in (Active \cap started) \ done
  /\ outcome[i] # "hang"
  /\ done' = done \cup {i}
  /\ IF outcome[i] = "ok"
       THEN Finish([k |-> "ok", by |-> i], started, done') /\ UNCHANGED <<started, last, usedFallback>>
     ELSE
       /\ last' = i
       /\ LET failRet == [k |-> IF outcome[i] = "nok" THEN "nok" ELSE "err", by |-> i] IN
          IF FailFast /\ outcome[i] # "nok"
            THEN \* control: the failure cancels the other workers, the call fails although others might answer
                 Finish(failRet, started, done') /\ UNCHANGED <<started, usedFallback>>
          ELSE IF ~(Active \subseteq done')
            THEN UNCHANGED <<phase, started, ret, wcanc, usedFallback>>
          ELSE IF phase = "prim"
            THEN \E fb \in FallbackChoices(i) :
                   IF fb THEN /\ phase' = "fall" /\ started' = started \cup Fall /\ usedFallback' = TRUE
                              /\ UNCHANGED <<ret, wcanc>>
                   ELSE Finish(failRet, started, done') /\ UNCHANGED <<started, usedFallback>>
          ELSE Finish(failRet, started, done') /\ UNCHANGED <<started, usedFallback>>
  /\ UNCHANGED <<cvars, delivered, cancelled>>

\* the caller cancels its context (or its deadline passes)
CancelCaller == /\ ~cancelled /\ phase # "done" /\ cancelled' = TRUE
                /\ UNCHANGED <<cvars, phase, started, done, last, ret, delivered, usedFallback, wcanc>>

\* every running node returns its context's error; the first of these results is examined: ctx.Err() != nil
CtxDue == cancelled /\ phase \in {"prim", "fall"}
CtxReturn == /\ CtxDue /\ Finish([k |-> "ctx", by |-> 0], started, done)
             /\ UNCHANGED <<cvars, started, done, last, delivered, cancelled, usedFallback>>

\* the call returns to the caller
RetDue == phase = "done" /\ ~delivered
Deliver == /\ RetDue /\ delivered' = TRUE
           /\ UNCHANGED <<cvars, phase, started, done, last, ret, cancelled, usedFallback, wcanc>>

---------------------------------------------------------------------------------------------------
(* Properties (C19). *)
PrimOK == {i \in Prim : outcome[i] = "ok"}
PrimCls == {outcome[i] : i \in Prim}
Failed(i) == outcome[i] \in {"nok", "unavail", "other"}

TypeOK == /\ started \subseteq Nodes /\ done \subseteq started /\ wcanc \subseteq started
          /\ ret.k \in {"none", "ok", "nok", "err", "ctx"} /\ ret.by \in Nodes \cup {0}
          /\ (ret.k = "none") = (phase # "done")
          /\ phase \in {"idle", "prim", "fall", "done"}
\* the result is the answer of exactly one node that answered successfully and that was consulted
ExactlyOneAnswer == ret.k = "ok" => /\ ret.by \in started /\ outcome[ret.by] = "ok"
                                    /\ (ret.by \in Prim \/ usedFallback)
\* a failure is one node's failure too
FailureIsOneNodes == ret.k \in {"err", "nok"} => /\ ret.by \in done /\ Failed(ret.by)
                                                 /\ (ret.k = "nok") = (outcome[ret.by] = "nok")
\* the call fails only when all primaries failed (and, when fallbacks were consulted, all of them as well)
FailOnlyIfAllFail == ret.k \in {"err", "nok"} => /\ \A i \in Prim : Failed(i) /\ i \in done
                                                 /\ usedFallback => \A i \in Fall : Failed(i) /\ i \in done
\* a successful primary is never overruled, fallbacks are not consulted while a primary may still answer
NoFallbackBeforeAllFailed == (started \cap Fall # {}) => (usedFallback /\ \A i \in Prim : Failed(i) /\ i \in done)
\* fallback is taken when every primary failure indicates unavailability, not taken when none does
FallbackRule == /\ usedFallback => (PrimCls \cap {"unavail", "nok"} # {})
                /\ (ret.k \in {"err", "nok"} /\ ~usedFallback /\ nb > 0) => PrimCls # {"unavail"}
\* does not wait for slower or hung nodes: as soon as a successful result has been examined the answer is fixed
NoWaitForSlow == (\E i \in done : outcome[i] = "ok") => ret.k = "ok"
\* the workers of the nodes still running are cancelled once the answer is fixed
WorkersCancelled == phase = "done" => wcanc = started \ done
\* cancellation is the only source of a ctx answer
CtxOnlyIfCancelled == ret.k = "ctx" => cancelled
Safety == TypeOK /\ ExactlyOneAnswer /\ FailureIsOneNodes /\ FailOnlyIfAllFail /\ NoFallbackBeforeAllFailed
          /\ FallbackRule /\ NoWaitForSlow /\ WorkersCancelled /\ CtxOnlyIfCancelled
====
