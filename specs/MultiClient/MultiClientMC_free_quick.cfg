SPECIFICATION MCSpec
CONSTANTS FallbackMode = "free"
 FailFast = FALSE
 CancelMode = "either"
 WaitMode = "none"
 MaxP = 3
 MaxB = 1
 MaxDeaf = 1
INVARIANTS Safety NeverStuckBehindOthers
CHECK_DEADLOCK FALSE
