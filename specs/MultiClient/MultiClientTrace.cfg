SPECIFICATION TraceSpec
CONSTANTS FallbackMode = "free"
 FailFast = FALSE
 NotSyncedAs = "unavail"
CONSTRAINT Mark
POSTCONDITION Report
CHECK_DEADLOCK FALSE
