SPECIFICATION GenSpec
CONSTANTS FallbackMode = "last"
 FailFast = FALSE
 MaxP = 3
 MaxB = 2
INVARIANTS Emit
CHECK_DEADLOCK FALSE
