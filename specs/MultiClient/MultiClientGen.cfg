SPECIFICATION GenSpec
CONSTANTS FallbackMode = "last"
 FailFast = FALSE
 CancelMode = "coded"
 WaitMode = "none"
 MaxP = 3
 MaxB = 2
 MaxDeaf = 2
INVARIANTS Emit
CHECK_DEADLOCK FALSE
