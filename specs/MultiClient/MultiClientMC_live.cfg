SPECIFICATION FairSpec
CONSTANTS FallbackMode = "last"
 FailFast = FALSE
 MaxP = 3
 MaxB = 2
PROPERTIES SuccessIfAny CancelPrompt Terminates
CHECK_DEADLOCK FALSE
