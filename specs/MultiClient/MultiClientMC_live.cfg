SPECIFICATION FairSpec
CONSTANTS FallbackMode = "last"
 FailFast = FALSE
 CancelMode = "coded"
 WaitMode = "none"
 MaxP = 3
 MaxB = 1
 MaxDeaf = 1
PROPERTIES SuccessIfAny CancelPrompt Terminates
CHECK_DEADLOCK FALSE
