SPECIFICATION MCSpec
CONSTANTS FallbackMode = "anyerr"
 FailFast = FALSE
 MaxP = 2
 MaxB = 1
INVARIANTS FallbackRule
CHECK_DEADLOCK FALSE
