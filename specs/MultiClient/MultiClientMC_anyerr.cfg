SPECIFICATION MCSpec
CONSTANTS FallbackMode = "anyerr"
 FailFast = FALSE
 CancelMode = "coded"
 WaitMode = "none"
 MaxP = 2
 MaxB = 1
 MaxDeaf = 0
INVARIANTS FallbackRule
CHECK_DEADLOCK FALSE
