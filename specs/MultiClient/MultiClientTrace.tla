---- MODULE MultiClientTrace ----
(* Trace validation for eth2wrap.multi (provide/submit over forkjoin).  The executor (harness/c19) runs every call in
   a testing/synctest bubble and logs an event only after synctest.Wait() reported that every goroutine of the call
   is durably blocked -- the component is quiescent, so the effects of a stimulus are complete when it is logged:
     {"ev":"Reset","sid":n,"P":p,"B":b,"style":"att"|"sync"|"submit","out":[variant per node],
                  "deaf":[per node: its requests ignore their context],"t":0}
     {"ev":"Call","started":[nodes invoked so far],"t":virtual seconds since the start of the schedule}
     {"ev":"NodeDone","i":node released with its scripted outcome,"started":[...],"t":..}
     {"ev":"CancelCaller","how":"cancel"|"deadline","t":..}
     {"ev":"Return","kind":"ok"|"nok"|"err"|"ctx","by":node whose answer came back,
                   "t":virtual time at which the call returned, taken by the calling goroutine}    right after the stimulus
     {"ev":"End","started":[...],"cancelled":[nodes still blocked in a request whose context is cancelled],"t":..}
   Urgency: because of the quiescence, a call whose answer is fixed HAS returned before the next event is logged
   (RetDue => the next event is Return) -- this is "does not wait for slower, hung or stuck nodes": after the first
   successful release the trace must continue with Return although other nodes are still blocked, also those that
   ignore the cancellation of their context; and a cancelled call has its ctx answer (CtxDue => the silent CtxReturn
   comes first).  The executor moves the virtual clock by one second before every stimulus: the Return carries the
   time of the stimulus that decided it.  A Return that shows up only after the executor released a stuck node (a
   later step, a later time) has no matching step: the release is a NodeDone event, which needs ~RetDue.
   Latitude where the property statement is silent (FallbackMode = "free" in the cfg, and below):
     * which failed node's failure is reported when all failed (the code: the last examined one)
     * a cancelled call may report the caller's ctx error or the ctx error of one of its cancelled nodes
     * a call on an already cancelled context may or may not have invoked nodes
     * submit-style results carry no value: the node is identified only when the best-client selector credited one *)
EXTENDS MultiClient, TraceCommon
(* Named deviation C19-notsynced-no-fallback: go-eth2-client answers the duty endpoints of a node that is syncing with
   client.ErrNotSynced ("client is not synced"); the property counts that as unavailability ("unavail"); the pinned
   tree's isSyncingError does not recognise it, i.e. treats it as "other" (MultiClientTrace_notsynced.cfg). *)
CONSTANT NotSyncedAs
ClassOf == [ok |-> "ok", nok |-> "nok", hang |-> "hang", notsynced |-> NotSyncedAs,
            timeout |-> "unavail", clienttimeout |-> "unavail", notactive |-> "unavail",
            syncing503 |-> "unavail", syncing500 |-> "unavail", optimistic |-> "unavail",
            e502 |-> "unavail", e503 |-> "unavail", e504 |-> "unavail",
            refused |-> "unavail", reset |-> "unavail", unreach |-> "unavail", dns |-> "unavail",
            e400 |-> "other", e404 |-> "other", e429 |-> "other", e500 |-> "other", plain |-> "other"]
tvars == <<vars, tr, l>>
R == Trace[1]
TraceInit == /\ TrInit
             /\ InitWith(R.P, R.B, R.style, [i \in 1..(R.P + R.B) |-> ClassOf[R.out[i]]],
                         {i \in 1..(R.P + R.B) : R.deaf[i]})
Quiet == ~CtxDue /\ ~RetDue
TReset == IsEvent("Reset") /\ l = 1 /\ UNCHANGED vars
TCall == /\ IsEvent("Call") /\ Quiet /\ Call
         /\ (~cancelled => SeqToSet(Ev.started) = started')
TNodeDone == /\ IsEvent("NodeDone") /\ Quiet /\ Ev.i \in Nodes /\ NodeDone(Ev.i)
             /\ SeqToSet(Ev.started) = started'
TCancel == IsEvent("CancelCaller") /\ Quiet /\ CancelCaller
TCtx == CtxReturn /\ Silent
\* failed nodes of the fork-join that produced the failure
FailedOfPhase == {j \in done : Failed(j) /\ ((j \in Fall) = usedFallback)}
TReturn == /\ IsEvent("Return") /\ Deliver
           /\ Ev.t = Trace[l - 1].t       \* returned at the virtual time of the stimulus just logged
           /\ \/ Ev.kind = "ok" /\ ret.k = "ok" /\ (Ev.by = ret.by \/ (style = "submit" /\ Ev.by = 0))
              \/ Ev.kind \in {"err", "nok"} /\ ret.k \in {"err", "nok"} /\ Ev.by \in FailedOfPhase
                   /\ (Ev.kind = "nok") = (outcome[Ev.by] = "nok")
              \/ Ev.kind = "ctx" /\ ret.k = "ctx"
              \/ Ev.kind = "err" /\ ret.k = "ctx" /\ Ev.by \in wcanc \ deaf
TEnd == /\ IsEvent("End") /\ l = TLen /\ Quiet /\ UNCHANGED vars
        /\ (phase = "done" => SeqToSet(Ev.cancelled) = wcanc)
        /\ (~cancelled => SeqToSet(Ev.started) = started)
TraceNext == TReset \/ TCall \/ TNodeDone \/ TCancel \/ TCtx \/ TReturn \/ TEnd
TraceSpec == TraceInit /\ [][TraceNext]_tvars
Mark == /\ CheckInv("TypeOK", TypeOK) /\ CheckInv("ExactlyOneAnswer", ExactlyOneAnswer)
        /\ CheckInv("FailureIsOneNodes", FailureIsOneNodes) /\ CheckInv("FailOnlyIfAllFail", FailOnlyIfAllFail)
        /\ CheckInv("NoFallbackBeforeAllFailed", NoFallbackBeforeAllFailed) /\ CheckInv("FallbackRule", FallbackRule)
        /\ CheckInv("NoWaitForSlow", NoWaitForSlow) /\ CheckInv("WorkersCancelled", WorkersCancelled)
        /\ CheckInv("CtxOnlyIfCancelled", CtxOnlyIfCancelled)
        /\ HWMark
====
