SPECIFICATION MCSpec
CONSTANTS FallbackMode = "last"
 FailFast = FALSE
 CancelMode = "coded"
 WaitMode = "none"
 MaxP = 2
 MaxB = 1
 MaxDeaf = 1
INVARIANTS CancelPromptInv
CHECK_DEADLOCK FALSE
