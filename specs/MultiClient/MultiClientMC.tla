---- MODULE MultiClientMC ----
(* Exhaustive design check: every number of primaries 1..MaxP and fallbacks 0..MaxB, every call style, every
   outcome vector, every set of at most MaxDeaf nodes that ignore their context, every completion order, the caller's
   cancellation at any point (also before the call), the release of stuck nodes after the answer is fixed. *)
EXTENDS MultiClient
CONSTANTS MaxP, MaxB, MaxDeaf
MCInit == \E p \in 1..MaxP, b \in 0..MaxB, st \in Styles :
            \E o \in [1..(p + b) -> ClassesOf(st)], df \in SUBSET (1..(p + b)) :
              Cardinality(df) <= MaxDeaf /\ InitWith(p, b, st, o, df)
MCNext == Call \/ (\E i \in Nodes : NodeDone(i) \/ Release(i)) \/ CancelCaller \/ CtxReturn \/ Deliver
MCSpec == MCInit /\ [][MCNext]_vars
\* liveness: the caller's loop keeps running, nodes that do not hang answer eventually (a deaf one: late)
FairSpec == /\ MCSpec /\ WF_vars(Call) /\ WF_vars(CtxReturn) /\ WF_vars(Deliver)
            /\ \A i \in 1..(MaxP + MaxB) : WF_vars(NodeDone(i))
\* a call succeeds whenever one primary answers successfully (unless the caller gives up)
SuccessIfAny == (PrimOK # {}) ~> (delivered /\ ret.k \in {"ok", "ctx"})
\* cancelling the caller's context returns -- as coded not while every running request is stuck for good
\* (CancelPromptInv is the safety form without that exception)
StuckForGood == phase \in {"prim", "fall"} /\ \A i \in Running : i \in deaf /\ outcome[i] = "hang"
CancelPrompt == cancelled ~> (delivered \/ (CancelMode # "prompt" /\ StuckForGood))
\* without hanging nodes every call returns
Terminates == (\A i \in Nodes : outcome[i] # "hang") ~> delivered
\* with a successful primary the call returns even if every other node hangs or is stuck: no step but the successful
\* node's own completion (or the caller's cancellation) is needed -- as a state predicate: while a successful primary
\* is running and the call is not cancelled, that node's NodeDone is enabled
NeverStuckBehindOthers == (phase = "prim" /\ ~cancelled) => \A i \in PrimOK : ENABLED NodeDone(i)
====
