SPECIFICATION GenSpec
CONSTANTS
 N = 3
 T = 2
 Byz = {}
 ExVerify = FALSE
 Off = {"OneRoot"}
 MDuties = {"c"}
 SigDuties = {}
 MRoots = {"A", "B"}
 Budget = 12
 ByzBudget = 0
 Prefix = "decided"
 Acts = {"back"}
 GenLen = 10
INVARIANTS Emit
CONSTRAINT Stop
CHECK_DEADLOCK FALSE
