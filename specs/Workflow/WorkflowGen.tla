---- MODULE WorkflowGen ----
(* Schedule generation: behaviours of the design instance WorkflowMC from the "decided" window (consensus has decided, the
   validator clients were served), the ENVIRONMENT's moves are recorded in the history variable `hist`:
     Deliver {from, to}     one copy of member from's partial-signature message reaches node `to` (never = lost, twice = duplicate)
     Byz {to, what}         the Byzantine member puts a message of kind `what` on the wire to node `to`
                            (otherdata: its own share over other data; garbage: the agreed data under no share at all;
                             claim: another share index claimed; own: its regular partial signature)
   What the nodes do with it is the implementation's business.  checks/grow_workflow.py turns every history into the
   exchange's plan for the duties of one slot of a cluster run (harness/workflow: cfg.script).  Run with -simulate. *)
EXTENDS WorkflowMC, Json
CONSTANT GenLen
VARIABLE hist
gvars == <<mvars, hist>>
Rec(e) == hist' = Append(hist, e)
What(z, p) == CASE p.ok /\ p.r = First -> "own" [] p.ok -> "otherdata" [] p.sh = z -> "garbage" [] OTHER -> "claim"
GenInit == MCInit /\ hist = <<>>
GTop == /\ Depth = 0 /\ Spend
        /\ \E n \in Nodes, d \in MDuties :
             \/ \E p \in VCParts(d, n) : SIntC(Fresh, n, d, {p}) /\ UNCHANGED hist
             \/ \E s \in S(d).sent : /\ SExtC(Fresh, n, d, s.parts)
                                     /\ IF s.to = 0 THEN Rec([ev |-> "Deliver", from |-> s.from, to |-> n]) ELSE UNCHANGED hist
GByz == /\ Depth = 0 /\ bleft > 0 /\ bleft' = bleft - 1 /\ UNCHANGED left
        /\ \E z \in Byz, d \in MDuties : \E to \in Nodes \ {z} : \E p \in ByzParts(d, z) :
             ByzSend(z, to, d, {p}) /\ Rec([ev |-> "Byz", to |-> to, what |-> What(z, p)])
GenNext == GTop \/ GByz \/ ((Nested \/ Return) /\ UNCHANGED hist)
GenSpec == GenInit /\ [][GenNext]_gvars
Done == Depth = 0 /\ (left = 0 \/ Len(hist) >= GenLen)
Emit == ~Done \/ PrintT("@@SCHED@@" \o ToJson(hist))
Stop == ~Done
====
