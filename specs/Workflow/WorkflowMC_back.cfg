SPECIFICATION MCSpec
CONSTANTS
 N = 3
 T = 2
 Byz = {3}
 ExVerify = TRUE
 Off = {"OneRoot"}
 MDuties = {"c"}
 SigDuties = {}
 MRoots = {"A", "B"}
 Budget = 5
 ByzBudget = 2
 Prefix = "decided"
 Acts = {"back"}
INVARIANT Safety
CHECK_DEADLOCK FALSE
