SPECIFICATION MCSpec
CONSTANTS
 N = 3
 T = 2
 Byz = {3}
 ExVerify = TRUE
 Off = {}
 MDuties = {"c"}
 SigDuties = {}
 MRoots = {"A", "B"}
 Budget = 7
 Prefix = "decided"
 Acts = {"back"}
INVARIANT Safety
CHECK_DEADLOCK FALSE
