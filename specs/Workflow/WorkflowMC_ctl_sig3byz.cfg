SPECIFICATION MCSpec
CONSTANTS
 N = 3
 T = 2
 Byz = {3}
 ExVerify = TRUE
 Off = {"OneRoot"}
 MDuties = {"s"}
 SigDuties = {"s"}
 MRoots = {"A", "B"}
 Budget = 4
 ByzBudget = 2
 Prefix = "none"
 Acts = {"back"}
INVARIANT OneRootI
CHECK_DEADLOCK FALSE
