SPECIFICATION MCSpec
CONSTANTS
 N = 3
 T = 2
 Byz = {3}
 ExVerify = FALSE
 Off = {"OneRoot"}
 MDuties = {"c"}
 SigDuties = {}
 MRoots = {"A", "B"}
 Budget = 4
 ByzBudget = 2
 Prefix = "decided"
 Acts = {"back"}
INVARIANT Safety
CHECK_DEADLOCK FALSE
