\* Default design-check window (= WorkflowMC_back.cfg); the other windows, the thorough sizes and the CONTROL variants
\* (WorkflowMC_ctl_*.cfg: each MUST violate the invariant named in checks/grow_workflow.py CONTROLS) are separate files.
SPECIFICATION MCSpec
CONSTANTS
 N = 3
 T = 2
 Byz = {3}
 ExVerify = TRUE
 Off = {"OneRoot"}
 MDuties = {"c"}
 SigDuties = {}
 MRoots = {"A", "B"}
 Budget = 5
 ByzBudget = 2
 Prefix = "decided"
 Acts = {"back"}
INVARIANT Safety
CHECK_DEADLOCK FALSE
