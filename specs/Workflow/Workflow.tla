---- MODULE Workflow ----
(* The core workflow of a charon cluster as core.Wire (core/interfaces.go) + app/app.go wireCoreWorkflow COMPOSE it, seen
   from the edges: every node n of 1..N runs

     Scheduler --Fetch/Participate--> Fetcher --Propose--> Consensus ==(QBFT over p2p)==> Consensus --Store--> DutyDB
     DutyDB --Await*--> ValidatorAPI <--http--> validator client --submit--> ValidatorAPI(verify partial) --StoreInternal-->
     ParSigDB --Broadcast--> ParSigEx ~~> peers' ParSigEx(verify) --StoreExternal--> ParSigDB --threshold--> SigAgg(verify)
     SigAgg --Store--> AggSigDB, --Broadcast--> Broadcaster --> beacon node

   ONE ACTION PER EDGE CALL.  The observer (core.VerifWithObserver, outermost wire option) reports the ENTRY of a call
   (<Edge>C, with the arguments: duty d, validators v, data roots, share indices, `ok` = the signature verifies under the
   public share of the claimed index / the group key -- the crypto abstraction of DESIGN.md section 3) and its RETURN
   (<Edge>R, with err); calls nest (StoreInternal contains the Broadcast to the peers and, when a threshold is reached, the
   SigAgg.Aggregate that contains AggSigDB.Store and Broadcaster.Broadcast), `open` holds the calls in flight.  What the
   components do inside (QBFT, the databases) is NOT modelled: every action's GUARDS state what the composition promises at
   that edge in terms of what crossed the other edges before (value flow, causal order).  The state is the per-duty HISTORY
   of what crossed the edges; nothing else.  The global safety properties (C01: a cluster never emits two different signed
   objects for one duty and validator; only decided data is signed; what is emitted verifies) are INVARIANTS that the
   model checker derives from the guards (WorkflowMC), given <= f Byzantine members whose validator client / exchange
   traffic is arbitrary (ByzSend, SIntC of a member of Byz) but whose charon node is the real software.

   Guards are named: G(name, p).  A name in the constant set Off switches that guard off (CONTROL variants: the design
   without that promise must violate an invariant).  In trace validation a failed guard is reported by name.

   Deviations the code knowingly makes are ordinary behaviours here, not violations:
     * a wrapped edge (WithAsyncRetry: Fetch, Participate, Propose, ParSigEx.Broadcast, Broadcaster.Broadcast) returns nil
       at once, the real call runs later and may be REPEATED after a temporary failure: ExSend may follow one PBcC any
       number of times (ExFail = an attempt that failed), BNSub (what reaches the beacon node) may follow one BcC any
       number of times (BNFail = a submission the beacon node refused with a retryable error);
     * Participate without Propose (PartC has no guard), Propose without Participate;
     * duties that expire: a Store* call returns nil or an error and nothing follows (no guard demands progress).

   Records:  unsigned set element  [v, u]                (validator, root of the unsigned duty data)
             partial               [v, k, sh, r, u, ok]  (k: sync subcommittee, else 0; sh: claimed share index; r: message
                                                          root = what is signed; u: root of the unsigned data embedded, "" if
                                                          the duty has none)
             aggregate             [v, k, r, u, ok]      (ok: verifies under the validator's group key) *)
EXTENDS Integers, Sequences, FiniteSets, TLC
CONSTANTS N,          \* nodes = share indices 1..N
          T,          \* threshold (cluster lock)
          Byz,        \* members whose validator client and exchange traffic are arbitrary
          ExVerify,   \* the exchange verifies every received partial under the claimed share's public key
          Off         \* names of guards that are switched off (controls)
Nodes == 1..N
VARIABLES st,     \* duty -> history record (Empty for a duty not seen yet)
          open    \* call id -> [ev, n, d, x]: calls in flight
vars == <<st, open>>

Empty == [fetchT |-> {}, fetched |-> {}, proposed |-> {}, tried |-> {}, stored |-> {}, served |-> {}, own |-> {},
          recv |-> {}, sent |-> {}, fired |-> {}, aggd |-> {}, aggok |-> {}, bcast |-> {}]
S(d) == IF d \in DOMAIN st THEN st[d] ELSE Empty
Upd(d, s) == st' = [x \in DOMAIN st \cup {d} |-> IF x = d THEN s ELSE st[x]]
GFail(name) == FALSE                                   \* trace validation: records the name (overridden in the cfg)
G(name, p) == IF (name \in Off) \/ p THEN TRUE ELSE GFail(name)     \* (IF, not \/: TLC explores every disjunct of an action)

Init == st = <<>> /\ open = <<>>

OpenC(id, rec) == /\ id \notin DOMAIN open
                  /\ open' = [x \in DOMAIN open \cup {id} |-> IF x = id THEN rec ELSE open[x]]
Close(id) == open' = [x \in DOMAIN open \ {id} |-> open[x]]
Is(id, ev, n, d) == id \in DOMAIN open /\ open[id].ev = ev /\ open[id].n = n /\ open[id].d = d
InFlight(evs, n, d) == {c \in DOMAIN open : open[c].ev \in evs /\ open[c].n = n /\ open[c].d = d}

URoots(set) == {e.u : e \in set}
Keys(xs) == {[v |-> x.v, k |-> x.k] : x \in xs}
Groups(xs) == {[v |-> x.v, k |-> x.k, r |-> x.r] : x \in xs}
At(n, xs) == {x \in xs : x.n = n}

---------------------------------------------------------------------------------------------------------------------
(* Scheduler -> Fetcher, Consensus.Participate; beacon node -> Fetcher; Fetcher -> Consensus.Propose *)
FetchC(id, n, d) == /\ Upd(d, [S(d) EXCEPT !.fetchT = @ \cup {n}])
                    /\ OpenC(id, [ev |-> "Fetch", n |-> n, d |-> d, x |-> {}])
PartC(id, n, d) == /\ OpenC(id, [ev |-> "Part", n |-> n, d |-> d, x |-> {}]) /\ UNCHANGED st
\* the node's beacon node answered an attestation-data query for the duty with data of root u
BNAtt(n, d, u) == Upd(d, [S(d) EXCEPT !.fetched = @ \cup {[n |-> n, u |-> u]}]) /\ UNCHANGED open
\* att: the duty is an attester duty (its candidates come from the attestation-data endpoint)
PropC(id, n, d, att, set) ==
  /\ G("ProposeAfterFetch", n \in S(d).fetchT)
  /\ G("ProposeWhatWasFetched", att => \A e \in set : [n |-> n, u |-> e.u] \in S(d).fetched)
  /\ Upd(d, [S(d) EXCEPT !.proposed = @ \cup {set}])
  /\ OpenC(id, [ev |-> "Prop", n |-> n, d |-> d, x |-> set])
\* a call whose return changes nothing
PlainR(id, ev, n, d) == Is(id, ev, n, d) /\ Close(id) /\ UNCHANGED st

(* Consensus -> DutyDB *)
StoreC(id, n, d, set) ==
  /\ G("Validity", set \in S(d).proposed)                       \* decided values were proposed by SOME node
  /\ Upd(d, [S(d) EXCEPT !.tried = @ \cup {[n |-> n, set |-> set]}])
  /\ OpenC(id, [ev |-> "Store", n |-> n, d |-> d, x |-> set])
StoreR(id, n, d, err) ==
  /\ Is(id, "Store", n, d) /\ Close(id)
  /\ IF err THEN UNCHANGED st
     ELSE /\ G("Agreement", \A s \in S(d).stored : s.set = open[id].x)     \* every node stores the same value
          /\ G("ServedIsStored", \A q \in At(n, S(d).served) : q.u \in URoots(open[id].x))
          /\ Upd(d, [S(d) EXCEPT !.stored = @ \cup {[n |-> n, set |-> open[id].x]}])

(* DutyDB -> ValidatorAPI (vc = TRUE: the answer goes to the validator client) / Fetcher (vc = FALSE) *)
Await(n, d, vc, u, err) ==
  /\ UNCHANGED open
  /\ IF err THEN UNCHANGED st
     ELSE /\ G("ServedWasStored", \E s \in At(n, S(d).tried) : u \in URoots(s.set))
          /\ G("ServedIsStored", \A s \in At(n, S(d).stored) : u \in URoots(s.set))
          /\ IF vc THEN Upd(d, [S(d) EXCEPT !.served = @ \cup {[n |-> n, u |-> u]}]) ELSE UNCHANGED st
(* AggSigDB -> ValidatorAPI / Fetcher: an aggregate signature that was stored at this node *)
AwaitSig(n, d, v, r, ok, err) ==
  /\ UNCHANGED vars
  /\ err \/ /\ G("AwaitedSigWasStored", \E e \in At(n, S(d).aggd) : e.v = v /\ e.r = r)
            /\ G("GroupValid", ok)

(* ValidatorAPI -> ParSigDB.StoreInternal: what the node's validator client signed *)
SIntC(id, n, d, parts) ==
  /\ G("OwnShare", \A p \in parts : p.sh = n)
  /\ G("VAPIVerifies", \A p \in parts : p.ok)
  /\ G("SignsWhatWasServed", n \in Byz \/ \A p \in parts : p.u = "" \/ [n |-> n, u |-> p.u] \in S(d).served)
  /\ G("SignsOnce", n \in Byz \/ \A p \in parts : \A q \in At(n, S(d).own) : (q.p.v = p.v /\ q.p.k = p.k) => q.p.r = p.r)
  /\ Upd(d, [S(d) EXCEPT !.own = @ \cup {[n |-> n, p |-> p] : p \in parts},
                         !.recv = @ \cup {[n |-> n, p |-> p] : p \in parts}])
  /\ OpenC(id, [ev |-> "SInt", n |-> n, d |-> d, x |-> parts])
(* ParSigDB -> ParSigEx.Broadcast (inside StoreInternal) *)
PBcC(id, n, d, parts) ==
  /\ G("BroadcastOwnStored", \E c \in InFlight({"SInt"}, n, d) : open[c].x = parts)
  /\ Upd(d, [S(d) EXCEPT !.sent = @ \cup {[from |-> n, to |-> 0, parts |-> parts]}])
  /\ OpenC(id, [ev |-> "PBc", n |-> n, d |-> d, x |-> parts])
\* an attempt of the exchange component (under the retry wrapper; fail: it returned a temporary error)
ExSend(n, d, parts) ==
  /\ G("SendWhatWasBroadcast", [from |-> n, to |-> 0, parts |-> parts] \in S(d).sent)
  /\ UNCHANGED vars
\* arbitrary traffic of a Byzantine member
ByzSend(n, to, d, parts) ==
  /\ n \in Byz
  /\ Upd(d, [S(d) EXCEPT !.sent = @ \cup {[from |-> n, to |-> to, parts |-> parts]}])
  /\ UNCHANGED open
(* ParSigEx -> ParSigDB.StoreExternal *)
SExtC(id, n, d, parts) ==
  /\ G("ReceivedWasSent", \E s \in S(d).sent : s.parts = parts /\ s.from # n /\ s.to \in {0, n})
  /\ G("ExchangeVerifies", ~ExVerify \/ \A p \in parts : p.ok)
  /\ Upd(d, [S(d) EXCEPT !.recv = @ \cup {[n |-> n, p |-> p] : p \in parts}])
  /\ OpenC(id, [ev |-> "SExt", n |-> n, d |-> d, x |-> parts])

(* ParSigDB threshold -> SigAgg.Aggregate (inside a Store call of the node) *)
Grp(parts, key) == {p \in parts : p.v = key.v /\ p.k = key.k}
AggC(id, n, d, parts) ==
  /\ G("AggregateInsideStore", InFlight({"SInt", "SExt"}, n, d) # {})
  /\ \A key \in Keys(parts) : LET g == Grp(parts, key) IN
       /\ G("OneRootPerGroup", \A p, q \in g : p.r = q.r)
       /\ G("DistinctShares", \A p, q \in g : p.sh = q.sh => p = q)
       /\ G("Threshold", Cardinality(g) >= T)
       /\ G("AggregateStoredPartials", \A p \in g : [n |-> n, p |-> p] \in S(d).recv)
  /\ G("FiredOnce", \A f \in Groups(parts) : [n |-> n, g |-> f] \notin S(d).fired)
  /\ Upd(d, [S(d) EXCEPT !.fired = @ \cup {[n |-> n, g |-> f] : f \in Groups(parts)}])
  /\ OpenC(id, [ev |-> "Agg", n |-> n, d |-> d, x |-> parts])
\* the Aggregate call in flight that produced `set`: same (validator, root) groups, and (crypto) the aggregate verifies
\* under the group key iff every partial verified under its share
Produced(n, d, set) ==
  \E c \in InFlight({"Agg"}, n, d) :
     /\ Groups(open[c].x) = Groups(set)
     /\ ("CryptoConsistent" \in Off) \/ \A e \in set : e.ok = (\A p \in Grp(open[c].x, e) : p.ok)
(* SigAgg -> AggSigDB.Store *)
ADBC(id, n, d, set) ==
  /\ G("StoreWhatSigAggProduced", Produced(n, d, set))
  /\ G("GroupValid", \A e \in set : e.ok)
  /\ Upd(d, [S(d) EXCEPT !.aggd = @ \cup {[n |-> n, v |-> e.v, k |-> e.k, r |-> e.r, u |-> e.u, ok |-> e.ok] : e \in set}])
  /\ OpenC(id, [ev |-> "ADB", n |-> n, d |-> d, x |-> set])
ADBR(id, n, d, err) ==
  /\ Is(id, "ADB", n, d) /\ Close(id)
  /\ IF err THEN UNCHANGED st
     ELSE Upd(d, [S(d) EXCEPT !.aggok = @ \cup {[n |-> n, g |-> f] : f \in Groups(open[id].x)}])
(* SigAgg -> Broadcaster.Broadcast: the emission (C01) *)
BcC(id, n, d, set) ==
  /\ G("BroadcastWhatSigAggProduced", Produced(n, d, set))
  /\ G("BroadcastAfterAggStore", \A f \in Groups(set) : [n |-> n, g |-> f] \in S(d).aggok)
  /\ G("GroupValid", \A e \in set : e.ok)
  /\ G("OneRoot", \A e \in set : \A b \in S(d).bcast : (b.v = e.v /\ b.k = e.k) => b.r = e.r)
  /\ Upd(d, [S(d) EXCEPT !.bcast = @ \cup {[n |-> n, v |-> e.v, k |-> e.k, r |-> e.r, u |-> e.u, ok |-> e.ok] : e \in set}])
  /\ OpenC(id, [ev |-> "Bc", n |-> n, d |-> d, x |-> set])

(* Broadcaster -> beacon node (under the retry wrapper: a failed submission is repeated): set = [r, ok] as the beacon node
   receives it (no validator attribution) *)
BNSub(n, d, set) ==
  /\ G("SubmitWhatWasBroadcast", \A e \in set : \E b \in At(n, S(d).bcast) : b.r = e.r)
  /\ G("GroupValid", \A e \in set : e.ok)
  /\ UNCHANGED vars

---------------------------------------------------------------------------------------------------------------------
(* Global safety (checked by TLC on WorkflowMC; they follow from the guards when |Byz| < T). *)
Duties == DOMAIN st
\* C01: the cluster never emits two different signed objects for one duty and validator
OneRootI == \A d \in Duties : \A a, b \in st[d].bcast : (a.v = b.v /\ a.k = b.k) => a.r = b.r
\* what is emitted / stored as aggregate verifies under the group key
GroupValidI == \A d \in Duties : \A a \in st[d].bcast \cup st[d].aggd : a.ok
\* consensus: all nodes store the same value, and it was proposed
AgreementI == \A d \in Duties : \A a, b \in st[d].stored : a.set = b.set
ValidityI == \A d \in Duties : \A a \in st[d].stored \cup st[d].tried : a.set \in st[d].proposed
\* a validator client is only served what the node's DutyDB was handed
ServedI == \A d \in Duties : \A q \in st[d].served : \E s \in At(q.n, st[d].tried) : q.u \in URoots(s.set)
\* only decided data is emitted (duties with unsigned data)
OnlyDecidedI == \A d \in Duties : \A a \in st[d].bcast : a.u = "" \/ \E s \in st[d].tried : a.u \in URoots(s.set)
\* every group handed to SigAgg was backed by T distinct shares that the node had been handed
BackedI == \A d \in Duties : \A f \in st[d].fired :
             Cardinality({q.p.sh : q \in {q \in At(f.n, st[d].recv) : q.p.v = f.g.v /\ q.p.k = f.g.k /\ q.p.r = f.g.r}}) >= T
\* what is emitted was aggregated and stored at that node before
EmittedWasAggregatedI == \A d \in Duties : \A a \in st[d].bcast :
                            /\ [n |-> a.n, g |-> [v |-> a.v, k |-> a.k, r |-> a.r]] \in st[d].fired
                            /\ [n |-> a.n, g |-> [v |-> a.v, k |-> a.k, r |-> a.r]] \in st[d].aggok
\* the exchange lets only partials in that verify (a node's own partials were verified by its validator API)
OnlyVerifiedI == ExVerify => \A d \in Duties : \A q \in st[d].recv : q.p.ok
\* an honest validator client signs one object per duty and validator, and only data it was served
HonestSignsI == \A d \in Duties : \A q \in st[d].own : q.n \in Byz \/
                   /\ q.p.u = "" \/ [n |-> q.n, u |-> q.p.u] \in st[d].served
                   /\ \A q2 \in At(q.n, st[d].own) : (q2.p.v = q.p.v /\ q2.p.k = q.p.k) => q2.p.r = q.p.r
Safety == /\ OneRootI /\ GroupValidI /\ AgreementI /\ ValidityI /\ ServedI /\ OnlyDecidedI /\ BackedI
          /\ EmittedWasAggregatedI /\ OnlyVerifiedI /\ HonestSignsI
====
