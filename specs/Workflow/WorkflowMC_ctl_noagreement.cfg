SPECIFICATION MCSpec
CONSTANTS
 N = 3
 T = 2
 Byz = {3}
 ExVerify = TRUE
 Off = {"OneRoot", "Agreement"}
 MDuties = {"c"}
 SigDuties = {}
 MRoots = {"A", "B"}
 Budget = 4
 ByzBudget = 0
 Prefix = "fetched"
 Acts = {"front"}
INVARIANT AgreementI
CHECK_DEADLOCK FALSE
