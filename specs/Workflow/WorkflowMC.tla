---- MODULE WorkflowMC ----
(* Design check of Workflow.tla on a small abstract instance: the ENVIRONMENT and the COMPONENTS may do anything the
   guards of the edge actions allow (arguments are drawn from small domains: one validator, MRoots candidate data,
   MDuties duties of which SigDuties have no unsigned data), the invariants of Workflow.tla must follow.  Calls nest
   properly and one chain of calls is in flight at a time (ids 1..depth, LIFO) -- the guards only look at the history and
   at the chain that contains the call, so interleaving two chains adds nothing but states.  `left` bounds the number of
   top-level calls / environment moves of a behaviour (ByzBudget: of Byzantine messages).  The regular configurations
   switch the guard "OneRoot" OFF (trace validation checks it at every Broadcast): C01 must FOLLOW from the other guards --
   threshold, distinct stored shares, honest clients sign once and only what they were served, agreement.  Each CONTROL
   configuration (WorkflowMC_ctl_*.cfg) switches one more promise off and must violate an invariant.

   Crypto assumption (DESIGN.md section 3): a partial that verifies under share sh over root r exists only if the holder
   of sh signed r: a Byzantine member makes valid partials for ITS share over anything, invalid ones for any index, and
   replays what was sent (a replay is a duplicate delivery: SExtC of the same `sent` entry again). *)
EXTENDS Workflow
CONSTANTS MDuties, SigDuties, MRoots, Budget, ByzBudget,
          Prefix,     \* "none" | "fetched" (every node fetched and proposed every candidate) | "decided" (... and every node's
                      \* DutyDB stored the first candidate and served it to its validator client): windows into long behaviours
          Acts        \* subset of {"front", "back"}: which halves of the pipeline move
VARIABLES left, bleft
mvars == <<vars, left, bleft>>
Depth == Cardinality(DOMAIN open)
Fresh == Depth + 1
TopIs(evs) == Depth > 0 /\ open[Depth].ev \in evs
Honest == Nodes \ Byz
UOf(d, r) == IF d \in SigDuties THEN "" ELSE r
USet(u) == {[v |-> 1, u |-> u]}
First == CHOOSE r \in MRoots : TRUE
Part(d, sh, r, ok) == [v |-> 1, k |-> 0, sh |-> sh, r |-> r, u |-> UOf(d, r), ok |-> ok]
Agg(d, r, ok) == [v |-> 1, k |-> 0, r |-> r, u |-> UOf(d, r), ok |-> ok]
\* partials a validator client of node n can make: with its own share (valid) or not (invalid, any claimed index)
VCParts(d, n) == {Part(d, n, r, TRUE) : r \in MRoots} \cup {Part(d, sh, r, FALSE) : sh \in Nodes, r \in MRoots}
\* what a Byzantine member can put on the wire
\* (invalid ones only matter when the exchange does not verify; over the candidate the honest members sign)
ByzParts(d, z) == {Part(d, z, r, TRUE) : r \in MRoots} \cup (IF ExVerify /\ "ExchangeVerifies" \notin Off THEN {} ELSE {Part(d, sh, First, FALSE) : sh \in Nodes})
Spend == left > 0 /\ left' = left - 1 /\ UNCHANGED bleft
Keep == UNCHANGED <<left, bleft>>

Fetched == [Empty EXCEPT !.fetchT = Nodes, !.fetched = {[n |-> n, u |-> u] : n \in Nodes, u \in MRoots},
                         !.proposed = {USet(u) : u \in MRoots}]
Decided == [Fetched EXCEPT !.tried = {[n |-> n, set |-> USet(First)] : n \in Nodes},
                           !.stored = {[n |-> n, set |-> USet(First)] : n \in Nodes},
                           !.served = {[n |-> n, u |-> First] : n \in Nodes}]
MCInit == /\ open = <<>> /\ left = Budget /\ bleft = ByzBudget
          /\ st = CASE Prefix = "none" -> <<>>
                    [] Prefix = "fetched" -> [d \in MDuties \ SigDuties |-> Fetched]
                    [] Prefix = "decided" -> [d \in MDuties \ SigDuties |-> Decided]

TopCall ==
  /\ Depth = 0 /\ Spend
  /\ \E n \in Nodes, d \in MDuties :
       \/ "front" \in Acts /\ d \notin SigDuties /\ FetchC(Fresh, n, d)
       \/ "front" \in Acts /\ d \notin SigDuties /\ \E u \in MRoots : PropC(Fresh, n, d, TRUE, USet(u))
       \/ "front" \in Acts /\ d \notin SigDuties /\ \E u \in MRoots : StoreC(Fresh, n, d, USet(u))
       \/ \E p \in VCParts(d, n) : SIntC(Fresh, n, d, {p})
       \/ "back" \in Acts /\ \E s \in S(d).sent : SExtC(Fresh, n, d, s.parts)
Nested ==
  /\ Keep /\ "back" \in Acts
  /\ \E n \in Nodes, d \in MDuties :
       \/ TopIs({"SInt"}) /\ PBcC(Fresh, n, d, open[Depth].x)
       \/ TopIs({"SInt", "SExt"}) /\ \E ps \in SUBSET {q.p : q \in At(n, S(d).recv)} : ps # {} /\ AggC(Fresh, n, d, ps)
       \/ TopIs({"Agg"}) /\ \E r \in MRoots, ok \in BOOLEAN : ADBC(Fresh, n, d, {Agg(d, r, ok)})
       \/ TopIs({"Agg"}) /\ \E r \in MRoots, ok \in BOOLEAN : BcC(Fresh, n, d, {Agg(d, r, ok)})
Return ==
  /\ Depth > 0 /\ Keep
  /\ LET c == open[Depth] IN
       \/ c.ev \in {"Fetch", "Prop", "SInt", "PBc", "SExt", "Agg", "Bc"} /\ PlainR(Depth, c.ev, c.n, c.d)
       \/ c.ev = "Store" /\ \E err \in BOOLEAN : StoreR(Depth, c.n, c.d, err)
       \/ c.ev = "ADB" /\ \E err \in BOOLEAN : ADBR(Depth, c.n, c.d, err)
Env ==
  \E n \in Nodes, d \in MDuties :
       \/ Spend /\ "front" \in Acts /\ Depth = 0 /\ d \notin SigDuties /\ \E u \in MRoots : BNAtt(n, d, u)
       \/ Spend /\ "front" \in Acts /\ Depth <= 1 /\ d \notin SigDuties /\ \E u \in MRoots : Await(n, d, TRUE, u, FALSE)
       \/ /\ "back" \in Acts /\ Depth = 0 /\ bleft > 0 /\ bleft' = bleft - 1 /\ UNCHANGED left
          /\ \E to \in Nodes \ {n} : \E p \in ByzParts(d, n) : ByzSend(n, to, d, {p})
MCNext == TopCall \/ Nested \/ Return \/ Env
MCSpec == MCInit /\ [][MCNext]_mvars
====
