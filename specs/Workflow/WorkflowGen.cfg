SPECIFICATION GenSpec
CONSTANTS
 N = 4
 T = 3
 Byz = {4}
 ExVerify = FALSE
 Off = {"OneRoot"}
 MDuties = {"c"}
 SigDuties = {}
 MRoots = {"A", "B"}
 Budget = 12
 ByzBudget = 3
 Prefix = "decided"
 Acts = {"back"}
 GenLen = 10
INVARIANTS Emit
CONSTRAINT Stop
CHECK_DEADLOCK FALSE
