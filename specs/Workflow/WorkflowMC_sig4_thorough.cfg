SPECIFICATION MCSpec
CONSTANTS
 N = 4
 T = 3
 Byz = {4}
 ExVerify = TRUE
 Off = {"OneRoot"}
 MDuties = {"s"}
 SigDuties = {"s"}
 MRoots = {"A", "B"}
 Budget = 5
 ByzBudget = 2
 Prefix = "none"
 Acts = {"back"}
INVARIANT Safety
CHECK_DEADLOCK FALSE
