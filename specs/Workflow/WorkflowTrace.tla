---- MODULE WorkflowTrace ----
(* Trace validation of ONE interleaved cluster log of real, fully wired charon nodes (harness/workflow: app.Run x N in one
   process, real QBFT over libp2p on loopback, validator mocks over http).  Events are ordered by a global atomic sequence
   number taken inside the observer (core.VerifWithObserver is the outermost wire option: it sees exactly the calls the
   components make across the edges of core.Wire):

     Reset  {n: N, t: threshold of the lock, nv, byz: [share index], exverify, mode: "mem" | "p2p", kind, seed}
     <E>C   {c: call id, n: node = share index, d: "<slot>/<duty type>", ty: duty type, + arguments}   entry of an edge call
     <E>R   {c, n, d, err}                                                                             its return
            E = Fetch {vs} | Part | Prop {set: [{v,u}]} | Store {set: [{v,u}]} | SInt {parts} | PBc {parts} | SExt {parts}
              | Agg {parts} | ADB {set: [{v,k,r,u,ok}]} | Bc {set: [{v,k,r,u,ok}]};  parts = [{v,k,sh,r,u,ok}]
     Await  {n, d, k: att | prop | agg | contrib (DutyDB -> validator API) | fatt (DutyDB -> fetcher) | vsig | fsig (AggSigDB
             -> validator API / fetcher), u: root of the answer, err [, v, ok]}                         after the query returned
     BNAtt  {n, d, u}          node n's beacon mock answered an attestation-data query with data of root u
     ExSend / ExFail {n, d, parts}   (mode mem) an attempt of the in-memory exchange component's Broadcast (under the retry wrapper)
     ByzSend {n, to, d, parts, what}  the Byzantine member puts a crafted message on the wire
     BNSub / BNFail {n, d, set: [{r, ok}]}   node n's Broadcaster submits signed objects to its beacon mock (BNFail: the mock
                                      answers with a retryable error, the retryer repeats the Broadcast)
     Start / Stop {n}, RunErr, End   life cycle (no spec step: nothing is demanded of progress)

   Roots are real HashTreeRoot / MessageRoot values (12 hex digits), ok flags real tbls verifications under the lock's public
   shares / group keys.  Unlogged steps (QBFT, the databases, the retryer, http) are abstracted by the guards of Workflow.tla;
   the trace specification is deterministic (one spec step per event), validation is linear.  Liveness is NOT judged. *)
EXTENDS Workflow, TraceCommon
tvars == <<vars, tr, l>>
TraceInit == Init /\ TrInit
Cfg == Trace[1]
Plain == {"Fetch", "Part", "Prop", "SInt", "PBc", "SExt", "Agg", "Bc"}
VCKinds == {"att", "prop", "agg", "contrib"}
PartsOf(e) == SeqToSet(e.parts)
SetOf(e) == SeqToSet(e.set)
Nop == UNCHANGED vars

TReset == /\ IsEvent("Reset") /\ l = 1 /\ Nop
          /\ Ev.n = N /\ Ev.t = T /\ SeqToSet(Ev.byz) = Byz /\ Ev.exverify = ExVerify
TCall ==
  \/ IsEvent("FetchC") /\ FetchC(Ev.c, Ev.n, Ev.d)
  \/ IsEvent("PartC") /\ PartC(Ev.c, Ev.n, Ev.d)
  \/ IsEvent("PropC") /\ PropC(Ev.c, Ev.n, Ev.d, Ev.ty = "attester", SetOf(Ev))
  \/ IsEvent("StoreC") /\ StoreC(Ev.c, Ev.n, Ev.d, SetOf(Ev))
  \/ IsEvent("SIntC") /\ SIntC(Ev.c, Ev.n, Ev.d, PartsOf(Ev))
  \/ IsEvent("PBcC") /\ PBcC(Ev.c, Ev.n, Ev.d, PartsOf(Ev))
  \/ IsEvent("SExtC") /\ SExtC(Ev.c, Ev.n, Ev.d, PartsOf(Ev))
  \/ IsEvent("AggC") /\ AggC(Ev.c, Ev.n, Ev.d, PartsOf(Ev))
  \/ IsEvent("ADBC") /\ ADBC(Ev.c, Ev.n, Ev.d, SetOf(Ev))
  \/ IsEvent("BcC") /\ BcC(Ev.c, Ev.n, Ev.d, SetOf(Ev))
TRet ==
  \/ \E e \in Plain : IsEvent(e \o "R") /\ PlainR(Ev.c, e, Ev.n, Ev.d)
  \/ IsEvent("StoreR") /\ StoreR(Ev.c, Ev.n, Ev.d, Ev.err)
  \/ IsEvent("ADBR") /\ ADBR(Ev.c, Ev.n, Ev.d, Ev.err)
TOther ==
  \/ /\ IsEvent("Await")
     /\ \/ Ev.k \in VCKinds /\ Await(Ev.n, Ev.d, TRUE, Ev.u, Ev.err)
        \/ Ev.k = "fatt" /\ Await(Ev.n, Ev.d, FALSE, Ev.u, Ev.err)
        \/ Ev.k \in {"vsig", "fsig"} /\ AwaitSig(Ev.n, Ev.d, IF Has(Ev, "v") THEN Ev.v ELSE 0, Ev.u,
                                                 IF Has(Ev, "ok") THEN Ev.ok ELSE FALSE, Ev.err)
  \/ IsEvent("BNAtt") /\ BNAtt(Ev.n, Ev.d, Ev.u)
  \/ IsEvent("ExSend") /\ ExSend(Ev.n, Ev.d, PartsOf(Ev))
  \/ IsEvent("ExFail") /\ ExSend(Ev.n, Ev.d, PartsOf(Ev))
  \/ IsEvent("ByzSend") /\ ByzSend(Ev.n, Ev.to, Ev.d, PartsOf(Ev))
  \/ IsEvent("BNSub") /\ BNSub(Ev.n, Ev.d, SetOf(Ev))
  \/ IsEvent("BNFail") /\ BNSub(Ev.n, Ev.d, SetOf(Ev))
  \/ \E e \in {"Start", "Stop", "RunErr", "End"} : IsEvent(e) /\ Nop
TraceNext == TReset \/ TCall \/ TRet \/ TOther
TraceSpec == TraceInit /\ [][TraceNext]_tvars
Mark == HWMark
====
