SPECIFICATION MCSpec
CONSTANTS
 N = 3
 T = 2
 Byz = {3}
 ExVerify = TRUE
 Off = {"OneRoot"}
 MDuties = {"c"}
 SigDuties = {}
 MRoots = {"A", "B"}
 Budget = 7
 ByzBudget = 1
 Prefix = "none"
 Acts = {"front", "back"}
INVARIANT Safety
CHECK_DEADLOCK FALSE
