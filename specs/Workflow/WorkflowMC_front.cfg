SPECIFICATION MCSpec
CONSTANTS
 N = 3
 T = 2
 Byz = {3}
 ExVerify = TRUE
 Off = {"OneRoot"}
 MDuties = {"c"}
 SigDuties = {}
 MRoots = {"A", "B"}
 Budget = 7
 ByzBudget = 0
 Prefix = "none"
 Acts = {"front"}
INVARIANT Safety
CHECK_DEADLOCK FALSE
