SPECIFICATION MCSpec
CONSTANTS
 N = 3
 T = 2
 Byz = {3}
 ExVerify = TRUE
 Off = {"OneRoot", "Threshold"}
 MDuties = {"c"}
 SigDuties = {}
 MRoots = {"A", "B"}
 Budget = 3
 ByzBudget = 0
 Prefix = "decided"
 Acts = {"back"}
INVARIANT OneRootI
CHECK_DEADLOCK FALSE
