SPECIFICATION MCSpec
CONSTANTS
 N = 3
 T = 2
 Byz = {3}
 ExVerify = FALSE
 Off = {"OneRoot", "GroupValid"}
 MDuties = {"c"}
 SigDuties = {}
 MRoots = {"A", "B"}
 Budget = 4
 ByzBudget = 1
 Prefix = "decided"
 Acts = {"back"}
INVARIANT GroupValidI
CHECK_DEADLOCK FALSE
