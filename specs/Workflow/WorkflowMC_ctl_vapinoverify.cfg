SPECIFICATION MCSpec
CONSTANTS
 N = 3
 T = 2
 Byz = {3}
 ExVerify = TRUE
 Off = {"OneRoot", "VAPIVerifies"}
 MDuties = {"c"}
 SigDuties = {}
 MRoots = {"A", "B"}
 Budget = 2
 ByzBudget = 0
 Prefix = "decided"
 Acts = {"back"}
INVARIANT OnlyVerifiedI
CHECK_DEADLOCK FALSE
