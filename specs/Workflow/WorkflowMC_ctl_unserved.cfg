SPECIFICATION MCSpec
CONSTANTS
 N = 3
 T = 2
 Byz = {3}
 ExVerify = TRUE
 Off = {"OneRoot", "SignsWhatWasServed"}
 MDuties = {"c"}
 SigDuties = {}
 MRoots = {"A", "B"}
 Budget = 3
 ByzBudget = 1
 Prefix = "decided"
 Acts = {"back"}
INVARIANT OnlyDecidedI
CHECK_DEADLOCK FALSE
