SPECIFICATION MCSpec
CONSTANTS
 N = 3
 T = 2
 Byz = {3}
 ExVerify = TRUE
 Off = {"OneRoot", "BroadcastWhatSigAggProduced", "BroadcastAfterAggStore"}
 MDuties = {"c"}
 SigDuties = {}
 MRoots = {"A", "B"}
 Budget = 4
 ByzBudget = 0
 Prefix = "decided"
 Acts = {"back"}
INVARIANT OneRootI
CHECK_DEADLOCK FALSE
