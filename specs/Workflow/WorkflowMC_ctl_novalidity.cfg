SPECIFICATION MCSpec
CONSTANTS
 N = 3
 T = 2
 Byz = {3}
 ExVerify = TRUE
 Off = {"OneRoot", "Validity"}
 MDuties = {"c"}
 SigDuties = {}
 MRoots = {"A", "B"}
 Budget = 2
 ByzBudget = 0
 Prefix = "none"
 Acts = {"front"}
INVARIANT ValidityI
CHECK_DEADLOCK FALSE
