\* Reference configuration.  checks/grow_workflow.py (cfg_of) generates one configuration per cluster shape from the Reset
\* event of each recorded log: N, T, Byz and ExVerify are the run's.
SPECIFICATION TraceSpec
CONSTANTS
 N = 4
 T = 3
 Byz = {}
 ExVerify = TRUE
 Off = {}
 GFail <- InvFail
CONSTRAINT Mark
POSTCONDITION Report
CHECK_DEADLOCK FALSE
