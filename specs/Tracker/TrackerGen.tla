---- MODULE TrackerGen ----
(* Schedule generation (TLC -simulate): behaviours of the design spec; every move is the environment's (the workflow
   components and the two deadliners), so all of them are recorded in `hist`, preceded by the configuration.  The
   events of each duty follow the workflow order loosely (next step, one skipped, a duplicate, a late first step); their
   parameters are drawn with RandomElement so that calls do not outnumber deadlines among the successor states. *)
EXTENDS Tracker, Json
CONSTANTS GenLen
VARIABLES hist, cur, fam
gvars == <<vars, hist, cur, fam>>
Families == {{"proposer", "randao"}, {"aggregator", "prepare_aggregator", "attester"},
             {"sync_contribution", "prepare_sync_contribution", "sync_message"},
             {"attester", "exit", "proposer", "randao"}, {"aggregator", "sync_contribution", "attester"}}
AllTypes == UNION Families
GenDuties == {Duty(s, t) : s \in 1..2, t \in fam}
PKSets == {{"a"}, {"b"}, {"a", "b"}}
GenInit == /\ Init
           /\ fam \in Families
           /\ conf \in {[n |-> 3, from |-> f, incl |-> i, exempt |-> {"exit"}, rootasc |-> <<"x", "y">>] :
                          f \in {0, 2}, i \in {{"proposer"}, {"proposer", "attester", "aggregator"}}}
           /\ cur = [d \in {Duty(s, t) : s \in 1..2, t \in AllTypes} |-> 0]
           /\ hist = <<[ev |-> "Config", n |-> conf.n, from |-> conf.from, incl |-> "attester" \in conf.incl,
                        exempt |-> SetToSeq(conf.exempt)]>>
EnvLast(t) == IF t \in conf.incl THEN INC ELSE BC
NextSteps(d) == {s \in {cur[d] + 1, cur[d] + 2, cur[d], F} : s \in (1..EnvLast(d.type)) \ {VAPI}}
GenCall == \E d \in GenDuties : \E w \in 1..3 :      \* (weight: three draws per duty)
           \* RandomElement is drawn once per binding (a LET would draw again at every use)
           \E step \in {RandomElement(NextSteps(d))} :
           \E e \in {RandomElement({"nil", "bnptr", "bnval", "cancel", "deadline", "other"})} :
           \E ok \in {RandomElement({TRUE, FALSE})} :
           \E pks \in {RandomElement(PKSets)} :
           \E sh \in {IF step \in ParSigSteps THEN RandomElement(1..3) ELSE 0} :
           \E root \in {IF step \in ParSigSteps THEN RandomElement({"x", "y"}) ELSE ""} :
             LET err == IF ok THEN "nil" ELSE e IN
             /\ Call(d, step, pks, err, sh, root)
             /\ cur' = [cur EXCEPT ![d] = IF step > cur[d] THEN step ELSE cur[d]]
             /\ hist' = Append(hist, [ev |-> "Call", step |-> Label(step), d |-> d, pks |-> SetToSeq(pks), err |-> err,
                                      share |-> sh, root |-> root])
GenNext == \/ GenCall /\ UNCHANGED fam
           \/ \E d \in GenDuties : d \notin anaExp /\ cur[d] > 0 /\ Deadline(d)
                                   /\ hist' = Append(hist, [ev |-> "Deadline", d |-> d]) /\ UNCHANGED <<cur, fam>>
           \/ \E d \in GenDuties : d \in anaExp /\ d \notin delExp /\ Delete(d)
                                   /\ hist' = Append(hist, [ev |-> "Delete", d |-> d]) /\ UNCHANGED <<cur, fam>>
GenSpec == GenInit /\ [][GenNext]_gvars
Emit == Len(hist) < GenLen \/ PrintT("@@SCHED@@" \o ToJson(hist))
Stop == Len(hist) <= GenLen
====
