---- MODULE Tracker ----
(* core/tracker/tracker.go (+ reason.go): the tracker receives one event per workflow component, duty and validator,
   keeps them per duty, and when the analyser deadliner emits a duty it decides whether the duty failed, at which step
   and why (analyseDutyFailed / analyseFetcherFailed*: transcribed below as a table), which peers participated
   (analyseParticipation) and whether the partial signatures were consistent (extractParSigs / reportParSigs), and
   instruments that.  Run() is one sequential loop; one action per select arm:

     Call      case e := <-t.input      all events of one core.Tracker interface call (one per validator of the set; they
                                        share duty, step and error, so their relative (Go map) order is immaterial)
     Deadline  case <-t.analyser.C()    analysis + reporting
     Delete    case <-t.deleter.C()     forget the duty's events

   The two deadliners are the environment: they follow the core.Deadliner contract (property C16): Add answers Exempt
   for duty types that never expire, Expired once the deadline has passed, Scheduled otherwise; a scheduled duty is emitted
   exactly once, at its deadline.  Their state (anaAdded, anaExp, delAdded, delExp) is part of the model because what the
   tracker asks them decides what it keeps.

   What the tracker reports is modelled as the SET of observation records `obs` a step produces: one record per
   prometheus counter of package core/tracker that moved (with its labels and the delta) and one per "Duty failed" log
   record (step, reason code, error).  That is all the default reporters do, and all the executor can see.

   An event is [step, pk, err, share, root]: step 1..11 in workflow order, err an error KIND ("nil" = no error), share /
   root describe the partial signature carried by the three parsig steps (share = 0: none).

   BNErrs is the set of error kinds the fetcher-failure analysis recognises as beacon-node API errors:
     {"bnval","bnptr"}   the documented contract of reason fetch_bn_error (any eth2api.Error in the chain)
     {"bnval"}           the pinned tree: errors.As with a VALUE target misses the *api.Error go-eth2-client returns
   Variant = "coded" is the transcription; the other values are defects used by the control configurations. *)
EXTENDS Integers, Sequences, FiniteSets, TLC, SequencesExt

CONSTANTS BNErrs, Variant

VARIABLES conf,       \* [n: number of peers (share indices 1..n), from: fromSlot, incl: duty types whose last step is chain
                      \*  inclusion, exempt: duty types the deadliners exempt, rootasc: the message roots in ascending byte order]
          events,     \* t.events: function duty -> sequence of events (absent = nil)
          anaAdded, anaExp, delAdded, delExp,       \* the two deadliners
          aggSup, conSup,                           \* state of newUnsupportedIgnorer
          obs,        \* what the last step reported (set of observation records)
          reports     \* history: sequence of [d, failed, step, reason, ignored] analysed so far
vars == <<conf, events, anaAdded, anaExp, delAdded, delExp, aggSup, conSup, obs, reports>>

\* steps, in the order of the `step` enum
F == 1  C == 2  DDB == 3  VAPI == 4  PSI == 5  PEX == 6  PSE == 7  SAG == 8  ASD == 9  BC == 10  INC == 11
Labels == <<"fetcher", "consensus", "duty_db", "validator_api", "parsig_db_local", "parsig_ex", "parsig_db_external",
            "sig_aggregation", "aggsig_db", "bcast", "chain_inclusion">>
StepOf(label) == CHOOSE i \in 1..11 : Labels[i] = label
Label(s) == IF s = 0 THEN "unknown" ELSE Labels[s]
ParSigSteps == {PSI, PEX, PSE}

Duty(slot, type) == [slot |-> slot, type |-> type]
EvOf(E, d) == IF d \in DOMAIN E THEN E[d] ELSE <<>>
MaxOf(S) == CHOOSE x \in S : \A y \in S : y <= x
MinOf(S) == CHOOSE x \in S : \A y \in S : x <= y

---------------------------------------------------------------------------------------------------
(* dutyFailedStep *)
LastStep(type) == IF type \in conf.incl THEN INC ELSE BC
DFS(es, type) ==
  IF es = <<>> THEN [failed |-> TRUE, step |-> 0, err |-> "nil"]
  ELSE LET top  == MaxOf({es[i].step : i \in DOMAIN es})
           idx  == {i \in DOMAIN es : es[i].step = top}
           last == es[IF Variant = "first_event" THEN MinOf(idx) ELSE MaxOf(idx)]
       IN IF top = LastStep(type) /\ last.err = "nil"
            THEN [failed |-> FALSE, step |-> 0, err |-> "nil"]
            ELSE [failed |-> TRUE, step |-> top, err |-> last.err]

(* extractParSigs: the first event per (validator, share) that carries a partial signature counts *)
ParSigIdx(es) == {i \in DOMAIN es : es[i].share > 0}
FirstOf(es, pk, sh) == MinOf({i \in ParSigIdx(es) : es[i].pk = pk /\ es[i].share = sh})
ParSigKeys(es) == {<<es[i].pk, es[i].share>> : i \in ParSigIdx(es)}
RootsOfPk(es, pk) == {es[FirstOf(es, k[1], k[2])].root : k \in {k \in ParSigKeys(es) : k[1] = pk}}
Consistent(es) == \A k \in ParSigKeys(es) : Cardinality(RootsOfPk(es, k[1])) <= 1

---------------------------------------------------------------------------------------------------
(* analyseDutyFailed and analyseFetcherFailed*: the reason table *)
Verdict(failed, step, reason, err) == [failed |-> failed, step |-> step, reason |-> reason, err |-> err]
Prereq(p, rEx, rExt, rZero, rOther) ==
  CASE p.step = PEX -> rEx [] p.step = PSE -> rExt [] p.step = 0 -> rZero [] OTHER -> rOther

AnalyseFetcher(d, E, err) ==
  CASE d.type = "proposer" ->
         LET ra == DFS(EvOf(E, Duty(d.slot, "randao")), "randao") IN
         Verdict(TRUE, F, IF ra.failed THEN Prereq(ra, "proposer_no_external_randaos", "proposer_insufficient_randaos",
                                                   "proposer_zero_randaos", "failed_proposer_randao")
                                       ELSE "bug_fetch_error", err)
    [] d.type = "aggregator" ->
         IF err = "nil" THEN Verdict(FALSE, F, "", "nil")      \* no aggregators in this slot
         ELSE LET pa == DFS(EvOf(E, Duty(d.slot, "prepare_aggregator")), "prepare_aggregator")
                  at == DFS(EvOf(E, Duty(d.slot, "attester")), "attester") IN
              IF pa.failed THEN Verdict(TRUE, F, Prereq(pa, "no_aggregator_selections", "insufficient_aggregator_selections",
                                                        "zero_aggregator_prepares", "failed_aggregator_selection"), err)
              ELSE Verdict(TRUE, F, IF at.failed /\ at.step <= DDB THEN "missing_aggregator_attestation" ELSE "bug_fetch_error", err)
    [] d.type = "sync_contribution" ->
         IF err = "nil" THEN Verdict(FALSE, F, "", "nil")
         ELSE LET ps == DFS(EvOf(E, Duty(d.slot, "prepare_sync_contribution")), "prepare_sync_contribution")
                  sm == DFS(EvOf(E, Duty(d.slot, "sync_message")), "sync_message") IN
              IF ps.failed THEN Verdict(TRUE, F, Prereq(ps, "sync_contribution_no_external_prepares", "sync_contribution_few_prepares",
                                                        "sync_contribution_zero_prepares", "sync_contribution_failed_prepare"), err)
              ELSE Verdict(TRUE, F, IF sm.failed /\ sm.step <= ASD THEN "sync_contribution_no_sync_msg" ELSE "bug_fetch_error", err)
    [] OTHER -> Verdict(TRUE, F, IF err \in BNErrs THEN "fetch_bn_error" ELSE "bug_fetch_error", err)

Analyse(d, E) ==
  LET es == EvOf(E, d)
      r  == DFS(es, d.type)
      e  == r.err
  IN IF ~r.failed THEN Verdict(FALSE, 0, "", "nil")
     ELSE CASE r.step = F    -> AnalyseFetcher(d, E, e)
            [] r.step = C    -> Verdict(TRUE, C, IF e # "nil" THEN "no_consensus" ELSE "unknown", e)
            [] r.step = DDB  -> IF e # "nil" THEN Verdict(TRUE, DDB, "bug_duty_db_error", e)
                                ELSE Verdict(TRUE, VAPI, "no_local_vc_signature", e)
            [] r.step = PSI  -> Verdict(TRUE, PSI, "bug_par_sig_db_internal", e)
            [] r.step = PEX  -> Verdict(TRUE, PEX, IF e = "nil" THEN "no_peer_signatures" ELSE "unknown", e)
            [] r.step = PSE  -> IF e # "nil" THEN Verdict(TRUE, PSE, "bug_par_sig_db_external", e)
                                ELSE IF Consistent(es) THEN Verdict(TRUE, PSE, "insufficient_peer_signatures", e)
                                ELSE IF d.type \in {"sync_message", "sync_contribution"}
                                       THEN Verdict(TRUE, PSE, "par_sig_db_inconsistent_sync", e)
                                       ELSE Verdict(TRUE, PSE, "bug_par_sig_db_inconsistent", e)
            [] r.step = SAG  -> Verdict(TRUE, SAG, IF e # "nil" THEN "bug_sig_agg" ELSE "unknown", e)
            [] r.step = ASD  -> Verdict(TRUE, ASD, "bug_aggregation_error", e)
            [] r.step = BC   -> IF e = "nil" THEN Verdict(TRUE, BC, "unknown", "bug: missing chain inclusion event")
                                ELSE Verdict(TRUE, BC, "broadcast_bn_error", e)
            [] r.step = INC  -> IF e = "nil" THEN Verdict(TRUE, INC, "unknown", "bug: missing chain inclusion error")
                                ELSE Verdict(TRUE, INC, "not_included_onchain", e)
            [] r.step = 0    -> Verdict(TRUE, 0, "unknown", "no events for duty")
            [] OTHER         -> Verdict(TRUE, r.step, "unknown", "duty failed at step")

(* newUnsupportedIgnorer *)
Ignored(d, v) == /\ v.failed /\ v.step = F
                 /\ \/ (~aggSup /\ d.type = "aggregator" /\ v.reason = "zero_aggregator_prepares")
                    \/ (~conSup /\ d.type = "sync_contribution" /\ v.reason = "sync_contribution_zero_prepares")

---------------------------------------------------------------------------------------------------
(* analyseParticipation *)
Scheduled(E, slot, type, pk) == \E i \in DOMAIN EvOf(E, Duty(slot, type)) :
                                  EvOf(E, Duty(slot, type))[i].step = F /\ EvOf(E, Duty(slot, type))[i].pk = pk
Expected(d, pk, E) ==
  CASE d.type \in {"exit", "builder_registration"} -> TRUE
    [] d.type = "randao" -> Scheduled(E, d.slot, "proposer", pk) \/ Scheduled(E, d.slot, "builder_proposer", pk)
    [] d.type = "prepare_aggregator" -> Scheduled(E, d.slot, "attester", pk)
    [] d.type \in {"prepare_sync_contribution", "sync_message"} -> Scheduled(E, d.slot, "sync_contribution", pk)
    [] OTHER -> Scheduled(E, d.slot, d.type, pk)
StoreIdx(es) == {i \in DOMAIN es : es[i].step \in {PSI, PSE}}
PartOf(d, E, sh) ==
  LET es == EvOf(E, d)
      ok == {i \in StoreIdx(es) : es[i].share = sh /\ Expected(d, es[i].pk, E)}
  IN IF Variant = "count_dups" THEN Cardinality(ok) ELSE Cardinality({es[i].pk : i \in ok})
UnexpOf(d, E, sh) ==
  LET es == EvOf(E, d) IN Cardinality({i \in StoreIdx(es) : es[i].share = sh /\ ~Expected(d, es[i].pk, E)})
ExpectedPerPeer(d, E) == LET es == EvOf(E, d) IN Cardinality({es[i].pk : i \in DOMAIN es})
SharesSeen(d, E) == LET es == EvOf(E, d) IN {es[i].share : i \in StoreIdx(es)}

---------------------------------------------------------------------------------------------------
(* what the default reporters instrument: observation records *)
Rec(m, t, p, r, s, e, v) == [m |-> m, t |-> t, p |-> p, r |-> r, s |-> s, e |-> e, v |-> v]
Pos(x) == {rec \in x : rec.v > 0}

AttCount(d, E) == IF d.type # "attester" THEN 0
                  ELSE LET es == EvOf(E, d) IN Cardinality({i \in DOMAIN es : es[i].step = F})

FailedObs(d, v, cnt) ==
  IF ~v.failed /\ v.step = F THEN {}
  ELSE IF ~v.failed
    THEN {Rec("expect_duties_total", d.type, 0, "", "", "", 1), Rec("success_duties_total", d.type, 0, "", "", "", 1)}
         \cup Pos({Rec("attestation_expect_total", "", 0, "", "", "", cnt), Rec("attestation_success_total", "", 0, "", "", "", cnt)})
    ELSE {Rec("log_failed", d.type, 0, v.reason, Label(v.step), v.err, 1),
          Rec("expect_duties_total", d.type, 0, "", "", "", 1), Rec("failed_duties_total", d.type, 0, "", "", "", 1),
          Rec("failed_duty_reasons_total", d.type, 0, v.reason, "", "", 1)}
         \cup Pos({Rec("attestation_expect_total", "", 0, "", "", "", cnt)})

PartObs(d, E, failed) ==
  IF (\A sh \in SharesSeen(d, E) : PartOf(d, E, sh) = 0) /\ ~failed THEN {}
  ELSE LET ex == ExpectedPerPeer(d, E) IN
       Pos(UNION {LET pa == PartOf(d, E, p) un == UnexpOf(d, E, p) IN
                  {Rec("participation_success_total", d.type, p, "", "", "", pa),
                   Rec("participation_total", d.type, p, "", "", "", pa),
                   Rec("participation_expected_total", d.type, p, "", "", "", ex),
                   Rec("participation_missed_total", d.type, p, "", "", "", ex - pa),
                   Rec("unexpected_events_total", "", p, "", "", "", IF pa = 0 THEN un ELSE 0)} : p \in 1..conf.n})

(* reportParSigs / reportSyncMessageCohorts *)
RootsSeen(es) == {es[FirstOf(es, k[1], k[2])].root : k \in ParSigKeys(es)}
SharesOfRoot(es, r) == {k[2] : k \in {k \in ParSigKeys(es) : es[FirstOf(es, k[1], k[2])].root = r}}
RootPos(r) == CHOOSE i \in DOMAIN conf.rootasc : conf.rootasc[i] = r
Before(es, a, b) == LET na == Cardinality(SharesOfRoot(es, a)) nb == Cardinality(SharesOfRoot(es, b)) IN
                    na > nb \/ (na = nb /\ RootPos(a) < RootPos(b))
SharesSeenAll(es) == {es[i].share : i \in ParSigIdx(es)}
Rank(es, r) == Cardinality({q \in RootsSeen(es) : q # r /\ Before(es, q, r)})
ParSigObs(d, E) ==
  LET es == EvOf(E, d) IN
  IF d.type = "sync_message"
    THEN {Rec("parsig_cohort_rank_total", d.type, sh, ToString(Rank(es, r)), "", "", 1) :
              <<r, sh>> \in {x \in RootsSeen(es) \X SharesSeenAll(es) : x[2] \in SharesOfRoot(es, x[1])}}
         \cup (IF Cardinality(RootsSeen(es)) > 1 THEN {Rec("inconsistent_parsigs_total", d.type, 0, "", "", "", 1)} ELSE {})
    ELSE IF Consistent(es) THEN {} ELSE {Rec("inconsistent_parsigs_total", d.type, 0, "", "", "", 1)}
AnalysisObs(d, E) ==
  LET v == Analyse(d, E) IN
  ParSigObs(d, E) \cup (IF Ignored(d, v) THEN {} ELSE FailedObs(d, v, AttCount(d, E)) \cup PartObs(d, E, v.failed))

---------------------------------------------------------------------------------------------------
Init == /\ events = <<>> /\ anaAdded = {} /\ anaExp = {} /\ delAdded = {} /\ delExp = {}
        /\ aggSup = FALSE /\ conSup = FALSE /\ obs = {} /\ reports = <<>>

\* one call of the core.Tracker interface: an event per validator of the set (a parsig step with no partial signature has an
\* empty set: nothing reaches the tracker)
Call(d, step, pks, err, share, root) ==
  LET eff == IF step \in ParSigSteps /\ share = 0 THEN {} ELSE pks
      sh  == IF step \in ParSigSteps THEN share ELSE 0
      new == [i \in 1..Cardinality(eff) |-> [step |-> step, pk |-> SetToSeq(eff)[i], err |-> err, share |-> sh,
                                             root |-> IF sh > 0 THEN root ELSE ""]]
      ign == eff = {} \/ d.slot < conf.from \/ d.type \in conf.exempt \/ d \in delExp
      late == d \in anaExp /\ Variant # "accept_late"
  IN /\ obs' = {}
     /\ UNCHANGED <<conf, anaExp, delExp, aggSup, conSup, reports>>
     /\ IF ign THEN UNCHANGED <<events, anaAdded, delAdded>>
        ELSE /\ delAdded' = delAdded \cup {d}
             /\ IF late THEN UNCHANGED <<events, anaAdded>>
                ELSE /\ anaAdded' = anaAdded \cup {d}
                     /\ events' = [x \in DOMAIN events \cup {d} |-> IF x = d THEN EvOf(events, d) \o new ELSE events[x]]

\* the analyser deadline of d passes; the deadliner emits d iff it was scheduled
AnaFires(d) == d \in anaAdded /\ d \notin anaExp
Deadline(d) ==
  /\ anaExp' = anaExp \cup {d}
  /\ UNCHANGED <<conf, events, anaAdded, delAdded, delExp>>
  /\ IF AnaFires(d)
       THEN LET v == Analyse(d, events) IN
            /\ obs' = AnalysisObs(d, events)
            /\ aggSup' = (aggSup \/ (~v.failed /\ d.type = "aggregator"))
            /\ conSup' = (conSup \/ (~v.failed /\ d.type = "sync_contribution"))
            /\ reports' = Append(reports, [d |-> d, failed |-> v.failed, step |-> v.step, reason |-> v.reason,
                                           ignored |-> Ignored(d, v)])
       ELSE obs' = {} /\ UNCHANGED <<aggSup, conSup, reports>>

DelFires(d) == d \in delAdded /\ d \notin delExp
Delete(d) ==
  /\ delExp' = delExp \cup {d}
  /\ obs' = {}
  /\ UNCHANGED <<conf, anaAdded, anaExp, delAdded, aggSup, conSup, reports>>
  /\ IF DelFires(d) THEN events' = [x \in DOMAIN events \ {d} |-> events[x]] ELSE UNCHANGED events

---------------------------------------------------------------------------------------------------
(* Properties.  They are stated independently of the table above and evaluated for EVERY duty in EVERY reachable
   state ("if the deadline of d passed now"). *)
Known == DOMAIN events
HasStep(es, s) == \E i \in DOMAIN es : es[i].step = s
LastErrAt(es, s) == es[MaxOf({i \in DOMAIN es : es[i].step = s})].err
Top(es) == MaxOf({es[i].step : i \in DOMAIN es})
NoopType(t) == t \in {"aggregator", "sync_contribution"}

\* a duty whose final step (broadcast; chain inclusion where tracked) completed is never reported failed, and only such a
\* duty (or an aggregation duty that had nothing to do) is reported as not failed
SuccessIffFinal ==
  \A d \in Known : LET es == events[d] v == Analyse(d, events) IN
     es # <<>> =>
       LET final == HasStep(es, LastStep(d.type)) /\ Top(es) = LastStep(d.type) /\ LastErrAt(es, LastStep(d.type)) = "nil"
           noop  == NoopType(d.type) /\ Top(es) = F /\ LastErrAt(es, F) = "nil"
       IN (final => ~v.failed) /\ (~v.failed => (final \/ noop))
\* a failed duty is attributed to the step it got stuck at: the furthest step that reported anything (or the local validator
\* client when the duty data was stored and nothing came back), never to a step behind which there is evidence of progress
StuckStep ==
  \A d \in Known : LET es == events[d] v == Analyse(d, events) IN
     (es # <<>> /\ v.failed) =>
        /\ v.step # 0
        /\ \A i \in DOMAIN es : es[i].step <= v.step
        /\ (HasStep(es, v.step) \/ (v.step = VAPI /\ Top(es) = DDB /\ LastErrAt(es, DDB) = "nil"))
\* the reason belongs to the step
FetchReasons == {"fetch_bn_error", "bug_fetch_error", "missing_aggregator_attestation", "insufficient_aggregator_selections",
                 "zero_aggregator_prepares", "failed_aggregator_selection", "no_aggregator_selections",
                 "proposer_insufficient_randaos", "proposer_zero_randaos", "failed_proposer_randao", "proposer_no_external_randaos",
                 "sync_contribution_no_sync_msg", "sync_contribution_few_prepares", "sync_contribution_zero_prepares",
                 "sync_contribution_failed_prepare", "sync_contribution_no_external_prepares"}
ReasonsOf(s) == CASE s = F -> FetchReasons [] s = C -> {"no_consensus", "unknown"} [] s = DDB -> {"bug_duty_db_error"}
                  [] s = VAPI -> {"no_local_vc_signature"} [] s = PSI -> {"bug_par_sig_db_internal"}
                  [] s = PEX -> {"no_peer_signatures", "unknown"}
                  [] s = PSE -> {"bug_par_sig_db_external", "insufficient_peer_signatures", "bug_par_sig_db_inconsistent",
                                 "par_sig_db_inconsistent_sync"}
                  [] s = SAG -> {"bug_sig_agg", "unknown"} [] s = ASD -> {"bug_aggregation_error"}
                  [] s = BC -> {"broadcast_bn_error", "unknown"} [] s = INC -> {"not_included_onchain", "unknown"}
                  [] OTHER -> {"unknown"}
ReasonOfStep == \A d \in Known : LET v == Analyse(d, events) IN v.failed => v.reason \in ReasonsOf(v.step)
\* a fetch failure of a duty that depends on an earlier duty of the slot is attributed to that duty exactly when it did not complete
Completed(d) == LET es == EvOf(events, d) IN
                es # <<>> /\ Top(es) = LastStep(d.type) /\ LastErrAt(es, LastStep(d.type)) = "nil"
RandaoReasons == {"proposer_insufficient_randaos", "proposer_zero_randaos", "failed_proposer_randao", "proposer_no_external_randaos"}
PrepAggReasons == {"insufficient_aggregator_selections", "zero_aggregator_prepares", "failed_aggregator_selection", "no_aggregator_selections"}
PrepSyncReasons == {"sync_contribution_few_prepares", "sync_contribution_zero_prepares", "sync_contribution_failed_prepare",
                    "sync_contribution_no_external_prepares"}
Dependency ==
  \A d \in Known : LET v == Analyse(d, events) IN
    (v.failed /\ v.step = F) =>
      /\ d.type = "proposer" => (v.reason \in RandaoReasons <=> ~Completed(Duty(d.slot, "randao")))
      /\ d.type = "aggregator" => /\ v.reason \in PrepAggReasons <=> ~Completed(Duty(d.slot, "prepare_aggregator"))
                                  /\ v.reason = "missing_aggregator_attestation" => ~Completed(Duty(d.slot, "attester"))
      /\ d.type = "sync_contribution" => /\ v.reason \in PrepSyncReasons <=> ~Completed(Duty(d.slot, "prepare_sync_contribution"))
                                         /\ v.reason = "sync_contribution_no_sync_msg" => ~Completed(Duty(d.slot, "sync_message"))
      /\ d.type \notin {"proposer", "aggregator", "sync_contribution"} => v.reason \in {"fetch_bn_error", "bug_fetch_error"}
\* participation: a share counts at most once per validator, only for validators the duty has events for, and only through
\* a partial signature of that share stored for this duty
Participation ==
  \A d \in Known : \A sh \in SharesSeen(d, events) : LET es == events[d] IN
     /\ PartOf(d, events, sh) <= ExpectedPerPeer(d, events)
     /\ PartOf(d, events, sh) <= Cardinality({es[i].pk : i \in {i \in StoreIdx(es) : es[i].share = sh}})
\* analysis happens at most once per duty ...
AnalysedOnce == \A i, j \in DOMAIN reports : reports[i].d = reports[j].d => i = j
\* ... only for duties that had events, only when their deadline passes, and nothing is instrumented at any other time
OnlyAtDeadline == [][(reports' # reports \/ obs' # {}) => \E d \in anaExp' \ anaExp : reports' = Append(reports, Last(reports'))]_vars
\* events of a duty whose deadline has passed are not recorded
LateDropped == [][\A d \in anaExp : d \in DOMAIN events' => (d \in DOMAIN events /\ events'[d] = events[d])]_vars
Safety == SuccessIffFinal /\ StuckStep /\ ReasonOfStep /\ Dependency /\ Participation /\ AnalysedOnce
====
