SPECIFICATION TableSpec
CONSTANTS
 BNErrs = {"bnval", "bnptr"}
 Variant = "coded"
 MCTypes = {"attester"}
 MCMain = "attester"
 MCIncl = {"proposer", "attester", "aggregator"}
 MCPKs = {"a", "b"}
 MCErrs = {"nil", "bnptr", "bnval", "cancel", "deadline", "other"}
 MCRoots = {"x", "y"}
 MCN = 2
 MCSteps = {1}
 PreFull = TRUE
 MaxCalls = 0
INVARIANTS SuccessIffFinal StuckStep ReasonOfStep Dependency Participation ObsSane
CHECK_DEADLOCK FALSE
