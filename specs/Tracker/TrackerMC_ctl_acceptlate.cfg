SPECIFICATION MCSpec
CONSTANTS
 BNErrs = {"bnval", "bnptr"}
 Variant = "accept_late"
 MCTypes = {"attester"}
 MCMain = "attester"
 MCIncl = {"proposer"}
 MCPKs = {"a"}
 MCErrs = {"nil"}
 MCRoots = {"x", "y"}
 MCN = 2
 MCSteps = {1, 10}
 PreFull = TRUE
 MaxCalls = 3
INVARIANTS SuccessIffFinal StuckStep ReasonOfStep Dependency Participation AnalysedOnce AnalysedHadDeadline
PROPERTIES MCOnlyAtDeadline MCLateDropped
CHECK_DEADLOCK FALSE
