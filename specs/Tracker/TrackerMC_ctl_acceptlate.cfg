SPECIFICATION MCSpec
CONSTANTS
 BNErrs = {"bnval", "bnptr"}
 Variant = "accept_late"
 MCTypes = {"attester"}
 MCIncl = {"proposer"}
 MCPKs = {"a"}
 MCErrs = {"nil"}
 MCRoots = {"x", "y"}
 MCN = 2
 MaxCalls = 3
INVARIANTS SuccessIffFinal StuckStep ReasonOfStep Dependency Participation AnalysedOnce
PROPERTIES MCOnlyAtDeadline MCLateDropped
VIEW View
CHECK_DEADLOCK FALSE
