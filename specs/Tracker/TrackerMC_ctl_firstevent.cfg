SPECIFICATION MCSpec
CONSTANTS
 BNErrs = {"bnval", "bnptr"}
 Variant = "first_event"
 MCTypes = {"attester"}
 MCIncl = {"proposer"}
 MCPKs = {"a"}
 MCErrs = {"nil", "other"}
 MCRoots = {"x", "y"}
 MCN = 2
 MaxCalls = 4
INVARIANTS SuccessIffFinal StuckStep ReasonOfStep Dependency Participation AnalysedOnce
PROPERTIES MCOnlyAtDeadline MCLateDropped
VIEW View
CHECK_DEADLOCK FALSE
