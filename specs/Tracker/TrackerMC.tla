---- MODULE TrackerMC ----
(* Exhaustive design check of the tracker's state machine and reason table: the environment (the workflow components of one
   node) emits the events of each duty roughly in workflow order -- a later step (any number of steps may be missing), the
   same step again (a duplicate, possibly with a different error), a late repetition of the first step -- with any error
   kind at any step, any validator subset, partial signatures of any share with either message root; deadlines and
   deletions pass at any time (a deletion only after the analysis deadline, as tracker.New requires).
   Every invariant is evaluated for every duty in every reachable state. *)
EXTENDS Tracker
CONSTANTS MCTypes,     \* duty types of the one slot that is explored (a dependency family)
          MCPKs, MCErrs, MCRoots, MCN, MCIncl, MaxCalls
VARIABLES cur,         \* environment: furthest step emitted per duty
          ncalls
mcvars == <<vars, cur, ncalls>>
MCDuties == {Duty(1, t) : t \in MCTypes}
MCInit == /\ Init
          /\ conf = [n |-> MCN, from |-> 0, incl |-> MCIncl, exempt |-> {}, rootasc |-> <<"x", "y">>]
          /\ cur = [d \in MCDuties |-> 0] /\ ncalls = 0
EnvLast(t) == IF t \in MCIncl THEN INC ELSE BC
NextSteps(d) == ((cur[d]..INC) \cup (IF cur[d] >= 3 THEN {F} ELSE {})) \ {0, VAPI}
MCCall == \E d \in MCDuties : \E step \in NextSteps(d) : \E err \in MCErrs : \E pks \in SUBSET MCPKs \ {{}} :
            /\ ncalls < MaxCalls /\ step <= EnvLast(d.type)
            /\ \E sh \in (IF step \in ParSigSteps THEN 1..MCN ELSE {0}) : \E root \in (IF step \in ParSigSteps THEN MCRoots ELSE {""}) :
                 Call(d, step, pks, err, sh, root)
            /\ cur' = [cur EXCEPT ![d] = IF step > cur[d] THEN step ELSE cur[d]]
            /\ ncalls' = ncalls + 1
MCNext == \/ MCCall
          \/ \E d \in MCDuties : d \notin anaExp /\ Deadline(d) /\ UNCHANGED <<cur, ncalls>>
          \/ \E d \in MCDuties : d \in anaExp /\ d \notin delExp /\ Delete(d) /\ UNCHANGED <<cur, ncalls>>
MCSpec == MCInit /\ [][MCNext]_mcvars
MCOnlyAtDeadline == [][(reports' # reports \/ obs' # {}) => \E d \in anaExp' \ anaExp : reports' = Append(reports, Last(reports'))]_mcvars
MCLateDropped == [][\A d \in anaExp : d \in DOMAIN events' => (d \in DOMAIN events /\ events'[d] = events[d])]_mcvars
\* obs and reports are outputs / history: they do not influence behaviour (reports only through AnalysedOnce, which the
\* expiry sets already determine)
View == <<conf, events, anaAdded, anaExp, delAdded, delExp, aggSup, conSup, cur, ncalls>>
====
