---- MODULE TrackerMC ----
(* Exhaustive design check of the tracker, in two parts.

   TableSpec (case analysis: every initial state IS a case, there are no transitions): the events of the duties of one
   dependency family of one slot (e.g. proposer + randao) are drawn from a repertoire of event profiles -- nothing; a single
   event at any step with any error kind; the same step twice with different errors (first versus last event); a scheduled
   duty (fetcher event) that got stuck at a later step; partial signatures of two shares with equal / different message
   roots, duplicated, for scheduled and unscheduled validators.  The duty under analysis ranges over the full repertoire,
   its prerequisite duties over the single-event profiles.  The invariants of Tracker.tla are evaluated for every duty of
   every case.

   MCSpec (state machine): calls in any order for a small universe, deadlines and deletions at any time (a deletion only
   after the analysis deadline, as tracker.New requires), late events: analysed at most once, only at the deadline, late
   events dropped, nothing instrumented in between; plus all table invariants in every reachable state. *)
EXTENDS Tracker
CONSTANTS MCTypes,     \* duty types of the one slot that is explored; MCMain is the duty type under analysis
          MCMain, MCPKs, MCErrs, MCRoots, MCN, MCIncl, MCSteps, MaxCalls,
          PreFull      \* TRUE: prerequisite duties range over every (step, error) pair; FALSE: errors only at their last step
                       \* (an error at an earlier step of a prerequisite is indistinguishable from getting stuck there)
VARIABLES ncalls
mcvars == <<vars, ncalls>>
MCDuties == {Duty(1, t) : t \in MCTypes}
MCConf == [n |-> MCN, from |-> 0, incl |-> MCIncl, exempt |-> {}, rootasc |-> <<"x", "y">>]
EnvLast(t) == IF t \in MCIncl THEN INC ELSE BC

---------------------------------------------------------------------------------------------------
E1(s, e, pk) == [step |-> s, pk |-> pk, err |-> e, share |-> IF s \in ParSigSteps THEN 1 ELSE 0,
                 root |-> IF s \in ParSigSteps THEN "x" ELSE ""]
PS(s, pk, sh, root) == [step |-> s, pk |-> pk, err |-> "nil", share |-> sh, root |-> root]
AllSteps(t) == (1..EnvLast(t)) \ {VAPI}
PK1 == CHOOSE p \in MCPKs : TRUE
Single(t) == {<<>>} \cup {<<E1(s, e, PK1)>> : s \in AllSteps(t), e \in MCErrs}
Pre(t) == IF PreFull THEN Single(t)
          ELSE {<<>>} \cup {<<E1(s, "nil", PK1)>> : s \in AllSteps(t)} \cup {<<E1(EnvLast(t), e, PK1)>> : e \in MCErrs}
Full(t) ==
  Single(t)
  \cup {<<E1(s, e1, PK1), E1(s, e2, PK1)>> : s \in AllSteps(t), e1 \in MCErrs, e2 \in MCErrs}
  \cup {<<E1(F, "nil", PK1), E1(s, e, PK1)>> : s \in AllSteps(t) \ {F}, e \in MCErrs}
  \cup {<<E1(s, e, PK1), E1(F, "nil", PK1)>> : s \in AllSteps(t) \ {F}, e \in MCErrs}           \* a late fetcher event
  \cup {<<E1(s1, e, PK1), E1(s2, "nil", PK1)>> : s1 \in AllSteps(t), s2 \in AllSteps(t), e \in MCErrs}   \* out of order
  \cup UNION {UNION {{<<E1(F, "nil", pf), PS(PSI, p1, 1, "x"), PS(PSE, p2, 2, r)>>,
                      <<E1(F, "nil", pf), PS(PSI, p1, 1, "x"), PS(PSE, p2, 2, r), PS(PSE, p2, 2, "x")>>,
                      <<PS(PSE, p1, 2, r), PS(PSE, p2, 2, "x"), PS(PSE, p2, 1, "x"), E1(F, "nil", pf)>>}
                     : r \in MCRoots} : <<pf, p1, p2>> \in MCPKs \X MCPKs \X MCPKs}
TableInit == /\ conf = MCConf /\ ncalls = 0
             /\ anaAdded = {} /\ anaExp = {} /\ delAdded = {} /\ delExp = {} /\ aggSup = FALSE /\ conSup = FALSE
             /\ obs = {} /\ reports = <<>>
             /\ \E m \in Full(MCMain) : \E f \in [MCDuties \ {Duty(1, MCMain)} -> UNION {Pre(t) : t \in MCTypes \ {MCMain}}] :
                  events = [d \in MCDuties |-> IF d.type = MCMain THEN m ELSE f[d]]
TableSpec == TableInit /\ [][UNCHANGED mcvars]_mcvars
\* the observation function is total on every case and never reports a duty both ways or twice
ObsSane == \A d \in Known : LET o == AnalysisObs(d, events) IN
             /\ Cardinality({r \in o : r.m = "expect_duties_total"}) <= 1
             /\ ~(\E r \in o : r.m = "success_duties_total") \/ ~(\E r \in o : r.m \in {"failed_duties_total", "log_failed"})
             /\ \A r \in o : r.v > 0

---------------------------------------------------------------------------------------------------
MCInit == Init /\ conf = MCConf /\ ncalls = 0
MCCall == \E d \in MCDuties : \E step \in MCSteps : \E err \in MCErrs : \E pks \in SUBSET MCPKs \ {{}} :
            /\ ncalls < MaxCalls /\ step <= EnvLast(d.type)
            /\ \E sh \in (IF step \in ParSigSteps THEN 1..MCN ELSE {0}) : \E root \in (IF step \in ParSigSteps THEN MCRoots ELSE {""}) :
                 Call(d, step, pks, err, sh, root)
            /\ ncalls' = ncalls + 1
MCNext == \/ MCCall
          \/ \E d \in MCDuties : d \notin anaExp /\ Deadline(d) /\ UNCHANGED ncalls
          \/ \E d \in MCDuties : d \in anaExp /\ d \notin delExp /\ Delete(d) /\ UNCHANGED ncalls
MCSpec == MCInit /\ [][MCNext]_mcvars
MCOnlyAtDeadline == [][(reports' # reports \/ obs' # {}) => \E d \in anaExp' \ anaExp : reports' = Append(reports, Last(reports'))]_mcvars
MCLateDropped == [][\A d \in anaExp : d \in DOMAIN events' => (d \in DOMAIN events /\ events'[d] = events[d])]_mcvars
\* a duty that was analysed had events, and its deadline has passed
AnalysedHadDeadline == \A i \in DOMAIN reports : reports[i].d \in anaExp /\ reports[i].d \in anaAdded
====
