SPECIFICATION TraceSpec
CONSTANTS
 BNErrs = {"bnval", "bnptr"}
 Variant = "coded"
CONSTRAINT Mark
POSTCONDITION Report
CHECK_DEADLOCK FALSE
