SPECIFICATION TableSpec
CONSTANTS
 BNErrs = {"bnval", "bnptr"}
 Variant = "coded"
 MCTypes = {"sync_contribution", "prepare_sync_contribution", "sync_message"}
 MCMain = "sync_contribution"
 MCIncl = {"proposer"}
 MCPKs = {"a"}
 MCErrs = {"nil", "other"}
 MCRoots = {"x", "y"}
 MCN = 2
 MCSteps = {1}
 PreFull = FALSE
 MaxCalls = 0
INVARIANTS SuccessIffFinal StuckStep ReasonOfStep Dependency Participation ObsSane
CHECK_DEADLOCK FALSE
