---- MODULE TrackerTrace ----
(* Trace validation for core/tracker (executor: harness/tracker).  Events, logged after the tracker's loop is quiescent:
     {"ev":"Reset","sid":..,"n":peers,"from":fromSlot,"incl":[types with chain inclusion],"exempt":[types],"rootasc":[roots ascending]}
     {"ev":"Call","step":label,"d":{"slot":..,"type":..},"pks":[..],"err":kind,"share":k,"root":r,"obs":[records]}
     {"ev":"Deadline","d":..,"fired":bool,"obs":[records]}      the analyser deadline of d passes
     {"ev":"Delete","d":..,"fired":bool,"obs":[records]}        the deleter deadline of d passes
     {"ev":"End","obs":[records]}                               end of the schedule
   (Counter movements are gathered at Deadline / Delete / End; after a Call only the log is inspected: a report made while
   an event is merely recorded shows up in the next gathered observation, where it matches nothing.)
   `obs` is everything the tracker instrumented while processing the stimulus: one record per counter of package
   core/tracker that moved and per "Duty failed" log record.  The spec computes what the reason table demands (variable
   obs); the logged set is kept in `seen` and compared in the CONSTRAINT, split by reporter so that the verdict names
   the part of the contract that was broken. *)
EXTENDS Tracker, TraceCommon
VARIABLE seen
tvars == <<vars, seen, tr, l>>
TraceInit == /\ Init /\ TrInit /\ seen = {}
             /\ conf = [n |-> 0, from |-> 0, incl |-> {}, exempt |-> {}, rootasc |-> <<>>]
TReset == /\ IsEvent("Reset") /\ l = 1
          /\ conf' = [n |-> Ev.n, from |-> Ev.from, incl |-> SeqToSet(Ev.incl), exempt |-> SeqToSet(Ev.exempt), rootasc |-> Ev.rootasc]
          /\ seen' = {}
          /\ UNCHANGED <<events, anaAdded, anaExp, delAdded, delExp, aggSup, conSup, obs, reports>>
TCall == /\ IsEvent("Call")
         /\ Call(Ev.d, StepOf(Ev.step), SeqToSet(Ev.pks), Ev.err, Ev.share, Ev.root)
         /\ seen' = SeqToSet(Ev.obs)
TDeadline == /\ IsEvent("Deadline") /\ Ev.fired = AnaFires(Ev.d)
             /\ Deadline(Ev.d)
             /\ seen' = SeqToSet(Ev.obs)
TDelete == /\ IsEvent("Delete") /\ Ev.fired = DelFires(Ev.d)
           /\ Delete(Ev.d)
           /\ seen' = SeqToSet(Ev.obs)
TEnd == /\ IsEvent("End") /\ l = TLen
        /\ obs' = {} /\ seen' = SeqToSet(Ev.obs)
        /\ UNCHANGED <<conf, events, anaAdded, anaExp, delAdded, delExp, aggSup, conSup, reports>>
TraceNext == TReset \/ TCall \/ TDeadline \/ TDelete \/ TEnd
TraceSpec == TraceInit /\ [][TraceNext]_tvars

DutyMetrics == {"log_failed", "expect_duties_total", "failed_duties_total", "failed_duty_reasons_total", "success_duties_total",
                "attestation_expect_total", "attestation_success_total"}
PartMetrics == {"participation_success_total", "participation_total", "participation_expected_total", "participation_missed_total",
                "unexpected_events_total"}
ParSigMetrics == {"inconsistent_parsigs_total", "parsig_cohort_rank_total"}
Sel(S, M) == {r \in S : r.m \in M}
JustDeadline == l > 1 /\ Trace[l - 1].ev = "Deadline"
Mark == /\ CheckInv("NothingReportedOutsideAnalysis", JustDeadline \/ seen = {})
        /\ CheckInv("FailedDutyVerdictPerTable", Sel(seen, DutyMetrics) = Sel(obs, DutyMetrics))
        /\ CheckInv("ParticipationPerContract", Sel(seen, PartMetrics) = Sel(obs, PartMetrics))
        /\ CheckInv("ParSigConsistencyReport", Sel(seen, ParSigMetrics) = Sel(obs, ParSigMetrics))
        /\ CheckInv("NoOtherInstrumentation", Sel(seen, DutyMetrics \cup PartMetrics \cup ParSigMetrics) = seen)
        /\ CheckInv("AnalysedOnce", AnalysedOnce)
        /\ HWMark
====
