SPECIFICATION GenSpec
CONSTANTS
 BNErrs = {"bnval", "bnptr"}
 Variant = "coded"
 GenLen = 36
INVARIANTS Emit
CONSTRAINT Stop
CHECK_DEADLOCK FALSE
