SPECIFICATION MCSpec
CONSTANTS
 BNErrs = {"bnval", "bnptr"}
 Variant = "coded"
 MCTypes = {"aggregator", "prepare_aggregator"}
 MCMain = "attester"
 MCIncl = {"proposer"}
 MCPKs = {"a"}
 MCErrs = {"nil", "other"}
 MCRoots = {"x", "y"}
 MCN = 2
 MCSteps = {1, 7, 10}
 PreFull = TRUE
 MaxCalls = 3
INVARIANTS SuccessIffFinal StuckStep ReasonOfStep Dependency Participation AnalysedOnce AnalysedHadDeadline
PROPERTIES MCOnlyAtDeadline MCLateDropped
CHECK_DEADLOCK FALSE
