SPECIFICATION MCSpec
CONSTANTS
 BNErrs = {"bnval", "bnptr"}
 Variant = "coded"
 MCTypes = {"attester"}
 MCIncl = {"proposer", "attester", "aggregator"}
 MCPKs = {"a", "b"}
 MCErrs = {"nil", "bnptr"}
 MCRoots = {"x", "y"}
 MCN = 2
 MaxCalls = 4
INVARIANTS SuccessIffFinal StuckStep ReasonOfStep Dependency Participation AnalysedOnce
PROPERTIES MCOnlyAtDeadline MCLateDropped
VIEW View
CHECK_DEADLOCK FALSE
