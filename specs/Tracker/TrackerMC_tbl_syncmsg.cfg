SPECIFICATION TableSpec
CONSTANTS
 BNErrs = {"bnval", "bnptr"}
 Variant = "coded"
 MCTypes = {"sync_message", "sync_contribution"}
 MCMain = "sync_message"
 MCIncl = {"proposer"}
 MCPKs = {"a", "b"}
 MCErrs = {"nil", "other"}
 MCRoots = {"x", "y"}
 MCN = 2
 MCSteps = {1}
 PreFull = TRUE
 MaxCalls = 0
INVARIANTS SuccessIffFinal StuckStep ReasonOfStep Dependency Participation ObsSane
CHECK_DEADLOCK FALSE
