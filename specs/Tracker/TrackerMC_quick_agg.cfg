SPECIFICATION MCSpec
CONSTANTS
 BNErrs = {"bnval", "bnptr"}
 Variant = "coded"
 MCTypes = {"aggregator", "prepare_aggregator", "attester"}
 MCIncl = {"proposer"}
 MCPKs = {"a"}
 MCErrs = {"nil", "other"}
 MCRoots = {"x", "y"}
 MCN = 1
 MaxCalls = 3
INVARIANTS SuccessIffFinal StuckStep ReasonOfStep Dependency Participation AnalysedOnce
PROPERTIES MCOnlyAtDeadline MCLateDropped
VIEW View
CHECK_DEADLOCK FALSE
