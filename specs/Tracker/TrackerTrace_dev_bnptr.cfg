SPECIFICATION TraceSpec
CONSTANTS
 BNErrs = {"bnval"}
 Variant = "coded"
CONSTRAINT Mark
POSTCONDITION Report
CHECK_DEADLOCK FALSE
