SPECIFICATION MCSpec
CONSTANTS
 BNErrs = {"bnval", "bnptr"}
 Variant = "count_dups"
 MCTypes = {"attester"}
 MCIncl = {"proposer"}
 MCPKs = {"a"}
 MCErrs = {"nil"}
 MCRoots = {"x", "y"}
 MCN = 2
 MaxCalls = 6
INVARIANTS SuccessIffFinal StuckStep ReasonOfStep Dependency Participation AnalysedOnce
PROPERTIES MCOnlyAtDeadline MCLateDropped
VIEW View
CHECK_DEADLOCK FALSE
