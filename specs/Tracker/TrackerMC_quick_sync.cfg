SPECIFICATION MCSpec
CONSTANTS
 BNErrs = {"bnval", "bnptr"}
 Variant = "coded"
 MCTypes = {"sync_contribution", "prepare_sync_contribution", "sync_message"}
 MCIncl = {"proposer"}
 MCPKs = {"a"}
 MCErrs = {"nil", "other"}
 MCRoots = {"x", "y"}
 MCN = 1
 MaxCalls = 3
INVARIANTS SuccessIffFinal StuckStep ReasonOfStep Dependency Participation AnalysedOnce
PROPERTIES MCOnlyAtDeadline MCLateDropped
VIEW View
CHECK_DEADLOCK FALSE
