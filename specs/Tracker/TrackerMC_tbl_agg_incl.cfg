SPECIFICATION TableSpec
CONSTANTS
 BNErrs = {"bnval", "bnptr"}
 Variant = "coded"
 MCTypes = {"aggregator", "prepare_aggregator", "attester"}
 MCMain = "aggregator"
 MCIncl = {"proposer", "attester", "aggregator"}
 MCPKs = {"a"}
 MCErrs = {"nil", "other"}
 MCRoots = {"x", "y"}
 MCN = 2
 MCSteps = {1}
 PreFull = TRUE
 MaxCalls = 0
INVARIANTS SuccessIffFinal StuckStep ReasonOfStep Dependency Participation ObsSane
CHECK_DEADLOCK FALSE
