---- MODULE ParSigDB ----
(* core/parsigdb/memory.go.  One action per critical section / per step a concurrent caller can observe:

     CallBegin     StoreExternal/StoreInternal entered: `status := db.deadliner.Add(duty)` (an expired duty drops the
                   whole batch silently)
     StoreEntry    one iteration of `for pubkey, sig := range signedSet`: db.store under db.mu (duplicate /
                   mismatch / append + keysByDuty index + trackExemptUnsafe cap with eviction + snapshot) followed by
                   getThresholdMatching on the snapshot.  Go map order => any order of the batch's validators.
     FireSubs      the threshSubs loop after the range loop (outside the mutex), with everything that reached
                   threshold in this call
     InternalSubs  StoreInternal's internalSubs loop
     CallEnd       return (err = some entry of the batch was refused)
     Trim          one iteration of Trim's loop for a duty received from deadliner.C()

   A duty is [id, typ, ex]: ex = the deadliner never expires it (DeadlineExempt is a pure function of the duty type in
   core/deadline.go); typ is the duty type (the exempt cap is per share x validator x type; typ = "sig" is
   core.DutySignature whose data has no message root: every partial counts for the one group).
   A partial is [share, root, sig, sub]: sig distinguishes two different signatures over the same root (parSignedDataEqual
   compares the whole JSON), sub is the sync subcommittee index read from the payload (part of the store key).
   A key is [duty, val, sub].

   Two switches select what the PINNED tree does where the property demands something else (both are defects that
   pending_fixes/C07-*.diff repair; the trace specification runs with both FALSE):
     AbortOnReject   TRUE: the first refused entry returns from StoreExternal at once: entries of the batch that were
                     already stored stay stored, but their threshold output is dropped and no subscriber runs
     FireOnAnyGroup  TRUE: getThresholdMatching reports ANY root group of the snapshot that has exactly thr members,
                     not only the group of the partial just stored *)
EXTENDS Integers, Sequences, FiniteSets, TLC
CONSTANTS Cap,              \* maxExemptEntriesPerShare (10 in the code)
          AbortOnReject, FireOnAnyGroup

VARIABLES thr,        \* threshold (constant during a behaviour; a variable so that one trace run can mix clusters)
          entries,    \* db.entries: set of [k |-> key, p |-> partial]
          indexed,    \* db.keysByDuty: set of keys Trim will delete
          exq,        \* db.exemptEntries: [share, val, typ] -> sequence of keys, oldest first
          call,       \* in-flight calls: id -> [duty, batch, internal, todo, out, err, fdone, idone]
          fired,      \* history: sequence of [c, duty, sets] handed to the threshold subscribers
          internals,  \* history: sequence of [c, duty, batch] handed to the internal subscribers
          rets,       \* history: sequence of [c, err]
          acc,        \* history: every [k, p] ever appended to entries
          gen         \* history: key -> [tc, ec] = how often the key was trimmed / had a partial evicted
vars == <<thr, entries, indexed, exq, call, fired, internals, rets, acc, gen>>

Get(f, x, def) == IF x \in DOMAIN f THEN f[x] ELSE def
Put(f, x, y) == [z \in DOMAIN f \cup {x} |-> IF z = x THEN y ELSE f[z]]
Drop(f, x) == [z \in DOMAIN f \ {x} |-> f[z]]
G0 == [tc |-> 0, ec |-> 0]
EOf(ent, k) == {e.p : e \in {x \in ent : x.k = k}}
E(k) == EOf(entries, k)
KeyOf(d, v, p) == [duty |-> d, val |-> v, sub |-> p.sub]

\* the partials of S that sign the same thing as a partial with root r
Grp(d, S, r) == IF d.typ = "sig" THEN S ELSE {e \in S : e.root = r}
RootsOf(d, S) == IF d.typ = "sig" THEN {"-"} ELSE {e.root : e \in S}
\* getThresholdMatching(duty.Type, snapshot, threshold) after partial p was appended: the sets it may return
Candidates(d, snap, p) ==
  IF Cardinality(snap) < thr THEN {}
  ELSE IF d.typ = "sig" THEN (IF Cardinality(snap) = thr THEN {snap} ELSE {})
  ELSE IF FireOnAnyGroup
         THEN {Grp(d, snap, r) : r \in {q \in RootsOf(d, snap) : Cardinality(Grp(d, snap, q)) = thr}}
  ELSE IF Cardinality(Grp(d, snap, p.root)) = thr THEN {Grp(d, snap, p.root)} ELSE {}

Init0 == /\ entries = {} /\ indexed = {} /\ exq = <<>> /\ call = <<>>
         /\ fired = <<>> /\ internals = <<>> /\ rets = <<>> /\ acc = {} /\ gen = <<>>

CallBegin(c, d, b, internal, expired) ==
  /\ c \notin DOMAIN call
  /\ expired => ~d.ex
  /\ call' = Put(call, c, [duty |-> d, batch |-> b, internal |-> internal,
                           todo |-> IF expired THEN {} ELSE DOMAIN b,
                           out |-> {}, err |-> FALSE, fdone |-> FALSE, idone |-> FALSE])
  /\ UNCHANGED <<thr, entries, indexed, exq, fired, internals, rets, acc, gen>>

StoreEntry(c, v) ==
  /\ c \in DOMAIN call /\ v \in call[c].todo
  /\ LET d == call[c].duty
         p == call[c].batch[v]
         k == KeyOf(d, v, p)
         cur == E(k)
         same == {e \in cur : e.share = p.share}
     IN
     IF same # {} /\ p \in same                      \* duplicate: "Ignoring duplicate partial signature"
       THEN /\ call' = [call EXCEPT ![c].todo = @ \ {v}]
            /\ UNCHANGED <<thr, entries, indexed, exq, fired, internals, rets, acc, gen>>
     ELSE IF same # {}                               \* same share, different data: refused, store untouched
       THEN /\ IF AbortOnReject
                 THEN call' = [call EXCEPT ![c].todo = {}, ![c].out = {}, ![c].err = TRUE]   \* BatchAbort
                 ELSE call' = [call EXCEPT ![c].todo = @ \ {v}, ![c].err = TRUE]
            /\ UNCHANGED <<thr, entries, indexed, exq, fired, internals, rets, acc, gen>>
     ELSE LET ek == [share |-> p.share, val |-> v, typ |-> d.typ]
              q0 == Append(Get(exq, ek, <<>>), k)
              evict == d.ex /\ Len(q0) > Cap         \* trackExemptUnsafe: oldest entry of this share goes
              ent1 == entries \cup {[k |-> k, p |-> p]}
              ent2 == IF evict THEN {e \in ent1 : ~(e.k = Head(q0) /\ e.p.share = p.share)} ELSE ent1
              gen2 == IF evict /\ ent2 # ent1
                        THEN Put(gen, Head(q0), [Get(gen, Head(q0), G0) EXCEPT !.ec = @ + 1]) ELSE gen
              snap == EOf(ent2, k)                   \* the copy returned by store
              cands == Candidates(d, snap, p)
          IN /\ entries' = ent2
             /\ exq' = IF d.ex THEN Put(exq, ek, IF evict THEN Tail(q0) ELSE q0) ELSE exq
             /\ indexed' = IF ~d.ex /\ cur = {} THEN indexed \cup {k} ELSE indexed
             /\ acc' = acc \cup {[k |-> k, p |-> p]}
             /\ gen' = gen2
             /\ IF cands = {}
                  THEN call' = [call EXCEPT ![c].todo = @ \ {v}]
                  ELSE \E S \in cands :
                         call' = [call EXCEPT ![c].todo = @ \ {v},
                                              ![c].out = @ \cup {[v |-> v, S |-> S, g |-> Get(gen2, k, G0)]}]
             /\ UNCHANGED <<thr, fired, internals, rets>>

LoopDone(c) == c \in DOMAIN call /\ call[c].todo = {}
FireSubs(c) ==
  /\ LoopDone(c) /\ call[c].out # {} /\ ~call[c].fdone
  /\ fired' = Append(fired, [c |-> c, duty |-> call[c].duty, sets |-> call[c].out])
  /\ call' = [call EXCEPT ![c].fdone = TRUE]
  /\ UNCHANGED <<thr, entries, indexed, exq, internals, rets, acc, gen>>

SubsDone(c) == LoopDone(c) /\ (call[c].out = {} \/ call[c].fdone)
\* StoreInternal calls its subscribers only when StoreExternal returned nil; the property is silent about a batch
\* with a refused entry, so both are allowed there.
InternalSubs(c) ==
  /\ SubsDone(c) /\ call[c].internal /\ ~call[c].idone
  /\ internals' = Append(internals, [c |-> c, duty |-> call[c].duty, batch |-> call[c].batch])
  /\ call' = [call EXCEPT ![c].idone = TRUE]
  /\ UNCHANGED <<thr, entries, indexed, exq, fired, rets, acc, gen>>

CallEnd(c) ==
  /\ SubsDone(c)
  /\ (call[c].internal /\ ~call[c].err) => call[c].idone
  /\ rets' = Append(rets, [c |-> c, err |-> call[c].err])
  /\ call' = Drop(call, c)
  /\ UNCHANGED <<thr, entries, indexed, exq, fired, internals, acc, gen>>

Trim(d) ==
  LET ks == {k \in indexed : k.duty = d} IN
  /\ entries' = {e \in entries : e.k \notin ks}
  /\ indexed' = indexed \ ks
  /\ gen' = [k \in DOMAIN gen \cup ks |-> IF k \in ks THEN [Get(gen, k, G0) EXCEPT !.tc = @ + 1] ELSE gen[k]]
  /\ UNCHANGED <<thr, exq, call, fired, internals, rets, acc>>

---------------------------------------------------------------------------------------------------
(* Properties (C07). *)
FiredSet == UNION {{[i |-> i, k |-> KeyOf(fired[i].duty, o.v, CHOOSE p \in o.S : TRUE), S |-> o.S, g |-> o.g]
                      : o \in fired[i].sets} : i \in DOMAIN fired}
Keys == {e.k : e \in entries}
Quiescent == DOMAIN call = {}
DistinctShares(S) == Cardinality({e.share : e \in S})
HasThreshold(k) == \E r \in RootsOf(k.duty, E(k)) : DistinctShares(Grp(k.duty, E(k), r)) >= thr

\* never twice: per key at most one trigger between two disturbances (Trim / cap eviction) of that key
AtMostOnce == \A f1, f2 \in FiredSet : (f1.k = f2.k /\ f1.g = f2.g) => f1.i = f2.i
\* never with fewer, with mixed roots, with a repeated share, with something never accepted for that key
MatchingOK == \A f \in FiredSet :
                /\ Cardinality(f.S) = thr /\ DistinctShares(f.S) = thr
                /\ Cardinality(RootsOf(f.k.duty, f.S)) = 1
                /\ \A p \in f.S : p.sub = f.k.sub /\ [k |-> f.k, p |-> p] \in acc
\* one subscriber call carries at most one set per validator
OnePerVal == \A i \in DOMAIN fired : \A o1, o2 \in fired[i].sets : o1.v = o2.v => o1 = o2
\* the store never holds two partials of one share for a key
OneSharePerKey == \A e1, e2 \in entries : (e1.k = e2.k /\ e1.p.share = e2.p.share) => e1 = e2
\* no lost trigger: once all calls have returned, a key holding a threshold of matching partials was triggered
\* since it was last trimmed
NoLostTrigger == Quiescent => \A k \in Keys : HasThreshold(k) =>
                                 \E f \in FiredSet : f.k = k /\ f.g.tc = Get(gen, k, G0).tc
\* Trim bookkeeping: every stored key of a duty that expires is indexed
IndexOK == \A k \in Keys : ~k.duty.ex => k \in indexed
CapOK == \A ek \in DOMAIN exq : Len(exq[ek]) <= Cap
Safety == AtMostOnce /\ MatchingOK /\ OnePerVal /\ OneSharePerKey /\ NoLostTrigger /\ IndexOK /\ CapOK

\* action properties -------------------------------------------------------------------------------
\* "as soon as": the store step that completes a group of exactly thr matching partials puts it into that call's output
FiresWhenReachedA ==
  \A c \in DOMAIN call \cap DOMAIN call' : \A v \in call[c].todo \ call'[c].todo :
     LET d == call[c].duty  p == call[c].batch[v]  k == KeyOf(d, v, p)  S == Grp(d, EOf(entries', k), p.root) IN
       ([k |-> k, p |-> p] \in entries' \ entries /\ Cardinality(S) = thr)
          => \E o \in call'[c].out : o.v = v /\ o.S = S
\* a refused entry leaves the store as it was
RejectKeepsStoreA ==
  \A c \in DOMAIN call \cap DOMAIN call' : (call'[c].err /\ ~call[c].err) => entries' = entries
\* what is handed over is what the store held for that key when the partial was appended
FiredFromStoreA ==
  \A c \in DOMAIN call \cap DOMAIN call' : \A o \in call'[c].out \ call[c].out :
     \A p \in o.S : [k |-> KeyOf(call[c].duty, o.v, p), p |-> p] \in entries'
FiresWhenReached == [][FiresWhenReachedA]_vars
RejectKeepsStore == [][RejectKeepsStoreA]_vars
FiredFromStore == [][FiredFromStoreA]_vars
====
