SPECIFICATION MCSpec
CONSTANTS Cap = 2
 AbortOnReject = FALSE
 FireOnAnyGroup = FALSE
 NShares = 7
 NVals = 1
 NRoots = 2
 NSigs = 1
 ThrMC = 5
 MaxCalls = 4
 MaxTrims = 0
 NConc = 2
 MaxBatch = 1
 Prefill = 3
 DutySet = "one"
 WithInternal = FALSE
 WithExpired = FALSE
INVARIANTS Safety
PROPERTIES FiresWhenReached RejectKeepsStore FiredFromStore
VIEW View
CHECK_DEADLOCK FALSE
