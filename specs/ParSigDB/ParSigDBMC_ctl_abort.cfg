SPECIFICATION MCSpec
CONSTANTS Cap = 2
 AbortOnReject = TRUE
 FireOnAnyGroup = FALSE
 NShares = 4
 NVals = 2
 NRoots = 2
 NSigs = 1
 ThrMC = 3
 MaxCalls = 3
 MaxTrims = 0
 NConc = 1
 MaxBatch = 2
 Prefill = 2
 DutySet = "one"
 WithInternal = FALSE
 WithExpired = FALSE
INVARIANTS NoLostTrigger
VIEW View
CHECK_DEADLOCK FALSE
