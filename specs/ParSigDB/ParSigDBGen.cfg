SPECIFICATION GenSpec
CONSTANTS Cap = 10
 AbortOnReject = FALSE
 FireOnAnyGroup = FALSE
 GenLen = 18
 NShares = 4
 NVals = 2
 ThrGen = 3
INVARIANTS Emit
CONSTRAINT Stop
CHECK_DEADLOCK FALSE
