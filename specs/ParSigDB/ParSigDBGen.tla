---- MODULE ParSigDBGen ----
(* Schedule generation: behaviours of the design spec with one call at a time; only the ENVIRONMENT's moves (Call with
   its arguments, Trim) are recorded in `hist`; what the store does with them is the implementation's business.
   Run with -simulate. *)
EXTENDS ParSigDB, Json
CONSTANTS GenLen, NShares, NVals, ThrGen
VARIABLE hist
GShares == 1..NShares
GVals == 1..NVals
GDuties == {[id |-> "a", typ |-> "att", ex |-> FALSE], [id |-> "c", typ |-> "contrib", ex |-> FALSE],
            [id |-> "e", typ |-> "exit", ex |-> TRUE]}
GSubs(d) == IF d.typ = "contrib" THEN {0, 1} ELSE {0}
\* honest-looking majority: most generated partials sign root x with signature 0; at most one odd one per batch
Honest(d) == [share : GShares, root : {"x"}, sig : {0}, sub : GSubs(d)]
GPartial(d) == [share : GShares, root : {"x", "y"}, sig : {0, 1}, sub : GSubs(d)]
GBatches(d) == UNION {{b \in [S -> GPartial(d)] : Cardinality({v \in S : b[v] \notin Honest(d)}) <= 1}
                        : S \in SUBSET GVals \ {{}}}
GB == [d \in GDuties |-> GBatches(d)]
BatchSeq(b) == LET RECURSIVE F(_)
                   F(S) == IF S = {} THEN <<>>
                           ELSE LET v == CHOOSE x \in S : \A y \in S : x <= y
                                IN <<[v |-> v, share |-> b[v].share, root |-> b[v].root, sig |-> b[v].sig, sub |-> b[v].sub]>> \o F(S \ {v})
               IN F(DOMAIN b)
GenInit == Init0 /\ thr = ThrGen /\ hist = <<[ev |-> "Cfg", t |-> ThrGen]>>
GenNext ==
  \/ /\ DOMAIN call = {} /\ Len(hist) <= GenLen
     /\ \E d \in GDuties, internal \in BOOLEAN : \E expired \in (IF Len(hist) % 5 = 0 /\ ~d.ex THEN BOOLEAN ELSE {FALSE}), b \in GB[d] :
          /\ CallBegin(1, d, b, internal, expired)
          /\ hist' = Append(hist, [ev |-> "Call", duty |-> d, internal |-> internal, expired |-> expired,
                                   batch |-> BatchSeq(b)])
  \/ \E c \in DOMAIN call : /\ \/ \E v \in call[c].todo : StoreEntry(c, v)
                               \/ FireSubs(c) \/ InternalSubs(c) \/ CallEnd(c)
                            /\ UNCHANGED hist
  \/ /\ DOMAIN call = {} /\ Len(hist) <= GenLen
     /\ \E d \in GDuties : (\E k \in indexed : k.duty = d) /\ Trim(d) /\ hist' = Append(hist, [ev |-> "Trim", duty |-> d])
GenSpec == GenInit /\ [][GenNext]_<<vars, hist>>
Emit == ~(Len(hist) = GenLen + 1 /\ DOMAIN call = {}) \/ PrintT("@@SCHED@@" \o ToJson(hist))
Stop == Len(hist) <= GenLen + 1
====
