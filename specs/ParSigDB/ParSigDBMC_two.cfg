SPECIFICATION MCSpec
CONSTANTS Cap = 2
 AbortOnReject = FALSE
 FireOnAnyGroup = FALSE
 NShares = 2
 NVals = 1
 NRoots = 2
 NSigs = 1
 ThrMC = 2
 MaxCalls = 4
 MaxTrims = 1
 NConc = 1
 MaxBatch = 1
 Prefill = 0
 DutySet = "two"
 WithInternal = FALSE
 WithExpired = FALSE
INVARIANTS Safety
PROPERTIES FiresWhenReached RejectKeepsStore FiredFromStore
VIEW View
CHECK_DEADLOCK FALSE
