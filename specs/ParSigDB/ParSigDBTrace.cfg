SPECIFICATION TraceSpec
CONSTANTS Cap = 10
 AbortOnReject = FALSE
 FireOnAnyGroup = FALSE
CONSTRAINT Mark
ACTION_CONSTRAINT ActOK
POSTCONDITION Report
CHECK_DEADLOCK FALSE
