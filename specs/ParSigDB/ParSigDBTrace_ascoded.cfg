SPECIFICATION TraceSpec
CONSTANTS Cap = 10
 AbortOnReject = TRUE
 FireOnAnyGroup = TRUE
CONSTRAINT MarkAsCoded
ACTION_CONSTRAINT ActOK
POSTCONDITION Report
CHECK_DEADLOCK FALSE
