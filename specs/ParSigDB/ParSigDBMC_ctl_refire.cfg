SPECIFICATION MCSpec
CONSTANTS Cap = 2
 AbortOnReject = FALSE
 FireOnAnyGroup = TRUE
 NShares = 4
 NVals = 1
 NRoots = 2
 NSigs = 1
 ThrMC = 3
 MaxCalls = 5
 MaxTrims = 0
 NConc = 2
 MaxBatch = 1
 Prefill = 0
 DutySet = "one"
 WithInternal = FALSE
 WithExpired = FALSE
INVARIANTS AtMostOnce
VIEW View
CHECK_DEADLOCK FALSE
