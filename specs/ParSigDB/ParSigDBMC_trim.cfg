SPECIFICATION MCSpec
CONSTANTS Cap = 2
 AbortOnReject = FALSE
 FireOnAnyGroup = FALSE
 NShares = 3
 NVals = 1
 NRoots = 2
 NSigs = 1
 ThrMC = 2
 MaxCalls = 4
 MaxTrims = 2
 NConc = 2
 MaxBatch = 1
 Prefill = 0
 DutySet = "one"
 WithInternal = TRUE
 WithExpired = TRUE
INVARIANTS Safety
PROPERTIES FiresWhenReached RejectKeepsStore FiredFromStore
VIEW View
CHECK_DEADLOCK FALSE
