---- MODULE ParSigDBMC ----
(* Exhaustive design check: every interleaving of up to NConc concurrent StoreExternal/StoreInternal calls with
   batches of 1..MaxBatch validators over Shares x Roots x Sigs (duplicates, minority roots, equivocation with another
   root or with another signature over the same root), expired calls, Trim, an exempt duty type with cap Cap, the
   rootless signature duty, a sync-contribution duty with two subcommittees.
   Prefill > 0 starts from a store that already holds shares 1..Prefill over root x for every validator of duty DA
   (a scenario-seeded window: keeps n=7,t=5 small). *)
EXTENDS ParSigDB
CONSTANTS NShares, NVals, NRoots, NSigs, ThrMC, MaxCalls, MaxTrims, NConc, MaxBatch, Prefill,
          DutySet,         \* "one" | "two" | "exempt" | "sig" | "subs"
          WithInternal, WithExpired
Shares == 1..NShares
Vals == 1..NVals
RootIds == <<"x", "y", "z">>
Roots == {RootIds[i] : i \in 1..NRoots}
Sigs == 0..(NSigs - 1)
DA == [id |-> "a", typ |-> "att", ex |-> FALSE]
DB == [id |-> "b", typ |-> "att", ex |-> FALSE]
DS == [id |-> "s", typ |-> "sig", ex |-> FALSE]
DC == [id |-> "c", typ |-> "contrib", ex |-> FALSE]
DE(i) == [id |-> "e" \o ToString(i), typ |-> "exit", ex |-> TRUE]
Duties == CASE DutySet = "one" -> {DA}
            [] DutySet = "two" -> {DA, DB}
            [] DutySet = "sig" -> {DS}
            [] DutySet = "subs" -> {DC}
            [] DutySet = "exempt" -> {DE(i) : i \in 1..(Cap + 1)}
SubsFor(d) == IF d.typ = "contrib" THEN {0, 1} ELSE {0}
Partial(d) == [share : Shares, root : Roots, sig : Sigs, sub : SubsFor(d)]
Batches(d) == UNION {[S -> Partial(d)] : S \in {X \in SUBSET Vals : X # {} /\ Cardinality(X) <= MaxBatch}}
PrefillEntries == {[k |-> [duty |-> DA, val |-> v, sub |-> 0],
                    p |-> [share |-> s, root |-> "x", sig |-> 0, sub |-> 0]] : v \in Vals, s \in 1..Prefill}
MCInit == /\ thr = ThrMC
          /\ entries = PrefillEntries /\ acc = PrefillEntries /\ indexed = {e.k : e \in PrefillEntries}
          /\ exq = <<>> /\ call = <<>> /\ fired = <<>> /\ internals = <<>> /\ rets = <<>> /\ gen = <<>>
NCalls == Len(rets) + Cardinality(DOMAIN call)
NTrims == LET S == {gen[k].tc : k \in DOMAIN gen} IN IF S = {} THEN 0 ELSE CHOOSE m \in S : \A n \in S : m >= n
MCNext ==
  \/ /\ NCalls < MaxCalls /\ Cardinality(DOMAIN call) < NConc
     /\ \E d \in Duties, internal \in (IF WithInternal THEN BOOLEAN ELSE {FALSE}),
           expired \in (IF WithExpired THEN BOOLEAN ELSE {FALSE}) :
          \E b \in Batches(d) : CallBegin(NCalls + 1, d, b, internal, expired)
  \/ \E c \in DOMAIN call : \/ \E v \in call[c].todo : StoreEntry(c, v)
                            \/ FireSubs(c) \/ InternalSubs(c) \/ CallEnd(c)
  \/ \E d \in Duties : NTrims < MaxTrims /\ (\E k \in indexed : k.duty = d) /\ Trim(d)
MCSpec == MCInit /\ [][MCNext]_vars
\* history variables only matter up to order / length
View == <<thr, entries, indexed, exq, call, {fired[i] : i \in DOMAIN fired}, Len(internals), Len(rets), acc, gen>>
\* call ids are NCalls+1 at begin: with concurrent calls ids stay unique because rets grows when a call leaves
====
