SPECIFICATION MCSpec
CONSTANTS Cap = 2
 AbortOnReject = FALSE
 FireOnAnyGroup = FALSE
 NShares = 3
 NVals = 1
 NRoots = 1
 NSigs = 1
 ThrMC = 2
 MaxCalls = 5
 MaxTrims = 0
 NConc = 2
 MaxBatch = 1
 Prefill = 0
 DutySet = "exempt"
 WithInternal = FALSE
 WithExpired = FALSE
INVARIANTS Safety
PROPERTIES FiresWhenReached RejectKeepsStore FiredFromStore
VIEW View
CHECK_DEADLOCK FALSE
