SPECIFICATION MCSpec
CONSTANTS Cap = 2
 AbortOnReject = FALSE
 FireOnAnyGroup = FALSE
 NShares = 4
 NVals = 1
 NRoots = 2
 NSigs = 2
 ThrMC = 3
 MaxCalls = 6
 MaxTrims = 0
 NConc = 2
 MaxBatch = 1
 Prefill = 0
 DutySet = "one"
 WithInternal = FALSE
 WithExpired = FALSE
INVARIANTS Safety
PROPERTIES FiresWhenReached RejectKeepsStore FiredFromStore
VIEW View
CHECK_DEADLOCK FALSE
