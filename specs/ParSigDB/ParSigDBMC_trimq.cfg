SPECIFICATION MCSpec
CONSTANTS Cap = 2
 AbortOnReject = FALSE
 FireOnAnyGroup = FALSE
 NShares = 3
 NVals = 1
 NRoots = 2
 NSigs = 1
 ThrMC = 2
 MaxCalls = 3
 MaxTrims = 2
 NConc = 2
 MaxBatch = 1
 Prefill = 1
 DutySet = "one"
 WithInternal = FALSE
 WithExpired = TRUE
INVARIANTS Safety
PROPERTIES FiresWhenReached RejectKeepsStore FiredFromStore
VIEW View
CHECK_DEADLOCK FALSE
