SPECIFICATION MCSpec
CONSTANTS Cap = 2
 AbortOnReject = FALSE
 FireOnAnyGroup = FALSE
 NShares = 3
 NVals = 2
 NRoots = 2
 NSigs = 1
 ThrMC = 3
 MaxCalls = 2
 MaxTrims = 0
 NConc = 2
 MaxBatch = 2
 Prefill = 2
 DutySet = "one"
 WithInternal = FALSE
 WithExpired = FALSE
INVARIANTS Safety
PROPERTIES FiresWhenReached RejectKeepsStore FiredFromStore
VIEW View
CHECK_DEADLOCK FALSE
