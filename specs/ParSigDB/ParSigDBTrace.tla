---- MODULE ParSigDBTrace ----
(* Trace validation for core/parsigdb/memory.go.  Events (harness/c07), in the order the tracer's mutex serialised them:
     {"ev":"Reset","sid":n,"t":threshold}
     {"ev":"Call","c":id,"duty":{"id","typ","ex"},"status":"scheduled"|"expired"|"exempt","internal":b,
                  "batch":[{"v","share","root","sig","sub"},..]}       written BEFORE StoreExternal/StoreInternal is called
     {"ev":"Fired","c":id,"duty":..,"sets":[{"v","parts":[{"share","root","sig","sub"},..]},..]}
                                                                       written inside the threshold subscriber
     {"ev":"Internal","c":id,"duty":..,"batch":[..]}                   written inside the internal subscriber
     {"ev":"Ret","c":id,"err":b}                                       written AFTER the call returned
     {"ev":"Trim","id":n,"duty":..}  /  {"ev":"TrimDone","id":n}       before the duty is sent on deadliner.C() / after a
                                                                       barrier duty was taken by the Trim loop
   The per-entry store steps and the Trim critical section are not logged: they are silent steps that TLC places
   between the bracketing events (linearisability by trace validation); calls of different goroutines overlap in the
   concurrent tier.

   Partial-order reduction.  The whole trace is known, so for every call the window in which its store steps can
   have happened is known: from its Call event to its first Fired/Ret event.  A store step conflicts with a store
   step of ANOTHER call only when both touch the same key, or both belong to never-expiring duties of one type and
   validator (the cap eviction reaches into other keys of that type and validator), and with a Trim of its duty.  An
   entry that has no conflicting step in any call/Trim whose window overlaps its own commutes with everything that can
   happen inside its window, so it is executed at once and in a fixed order (priority over every other step);
   only contended entries (`cont`) float.  Sequential traces thereby become deterministic. *)
EXTENDS ParSigDB, TraceCommon
VARIABLES trims,      \* id -> [duty, done, cont]: Trim requests sent; done = executed; cont = floats (see above)
          cont        \* call id -> validators of its batch whose store step floats
tvars == <<vars, trims, cont, tr, l>>
MinOf(S) == CHOOSE x \in S : \A y \in S : x <= y
\* lookahead --------------------------------------------------------------------------------------------
CallIdx == {i \in 1..TLen : Trace[i].ev = "Call"}
TrimIdx == {i \in 1..TLen : Trace[i].ev = "Trim"}
EndOf(i) == LET later == {j \in (i + 1)..TLen : Trace[j].ev \in {"Fired", "Ret"} /\ Trace[j].c = Trace[i].c}
            IN IF later = {} THEN TLen + 1 ELSE MinOf(later)
TrimEnd(i) == LET later == {j \in (i + 1)..TLen : Trace[j].ev = "TrimDone" /\ Trace[j].id = Trace[i].id}
              IN IF later = {} THEN TLen + 1 ELSE MinOf(later)
Overlap(a, ae, b, be) == b < ae /\ a < be
Conflict(d1, b1, d2, b2) == \/ d1 = d2 /\ b1.v = b2.v /\ b1.sub = b2.sub
                            \/ d1.ex /\ d2.ex /\ d1.typ = d2.typ /\ b1.v = b2.v
ContendedVals(i) ==
  LET e == EndOf(i)  d == Trace[i].duty  B == SeqToSet(Trace[i].batch) IN
  IF AbortOnReject THEN {b.v : b \in B}          \* as coded a refused entry cuts the loop short: order matters
  ELSE {b.v : b \in {x \in B :
          \/ \E i2 \in CallIdx \ {i} : /\ Overlap(i, e, i2, EndOf(i2)) /\ Trace[i2].status # "expired"
                                       /\ \E b2 \in SeqToSet(Trace[i2].batch) : Conflict(d, x, Trace[i2].duty, b2)
          \/ \E j \in TrimIdx : Overlap(i, e, j, TrimEnd(j)) /\ Trace[j].duty = d}}
TrimContended(j) == \E i \in CallIdx : /\ Overlap(j, TrimEnd(j), i, EndOf(i)) /\ Trace[i].duty = Trace[j].duty
                                        /\ Trace[i].status # "expired"
FreeCalls == {c \in DOMAIN call : call[c].todo \ cont[c] # {}}
FreeTrims == {i \in DOMAIN trims : ~trims[i].done /\ ~trims[i].cont}
Urgent == FreeCalls # {} \/ FreeTrims # {}
PartOf(e) == [share |-> e.share, root |-> e.root, sig |-> e.sig, sub |-> e.sub]
PartSet(s) == {PartOf(s[i]) : i \in DOMAIN s}
BatchOf(s) == [v \in {s[i].v : i \in DOMAIN s} |-> PartOf(s[CHOOSE i \in DOMAIN s : s[i].v = v])]

TraceInit == Init0 /\ TrInit /\ trims = <<>> /\ cont = <<>> /\ thr = Traces[tr][1].t
TReset == IsEvent("Reset") /\ UNCHANGED <<vars, trims, cont>>
TCall == /\ IsEvent("Call") /\ ~Urgent
         /\ Len(Ev.batch) = Cardinality({Ev.batch[i].v : i \in DOMAIN Ev.batch})
         /\ (Ev.status = "exempt") = (Ev.duty.ex /\ Ev.status # "expired")
         /\ CallBegin(Ev.c, Ev.duty, BatchOf(Ev.batch), Ev.internal, Ev.status = "expired")
         /\ cont' = Put(cont, Ev.c, ContendedVals(l))
         /\ UNCHANGED trims
TStoreFree == /\ FreeCalls # {}
              /\ LET c == MinOf(FreeCalls) IN StoreEntry(c, MinOf(call[c].todo \ cont[c]))
              /\ Silent /\ UNCHANGED <<trims, cont>>
TStore == /\ ~Urgent
          /\ \E c \in DOMAIN call : \E v \in call[c].todo : StoreEntry(c, v)
          /\ Silent /\ UNCHANGED <<trims, cont>>
TFired == /\ IsEvent("Fired") /\ ~Urgent /\ Ev.c \in DOMAIN call
          /\ FireSubs(Ev.c)
          /\ Ev.duty = call[Ev.c].duty
          /\ \A i \in DOMAIN Ev.sets : Len(Ev.sets[i].parts) = Cardinality(PartSet(Ev.sets[i].parts))
          /\ Len(Ev.sets) = Cardinality({Ev.sets[i].v : i \in DOMAIN Ev.sets})
          /\ {[v |-> Ev.sets[i].v, S |-> PartSet(Ev.sets[i].parts)] : i \in DOMAIN Ev.sets}
               = {[v |-> o.v, S |-> o.S] : o \in call[Ev.c].out}
          /\ UNCHANGED <<trims, cont>>
TInternal == /\ IsEvent("Internal") /\ ~Urgent /\ Ev.c \in DOMAIN call
             /\ InternalSubs(Ev.c)
             /\ Ev.duty = call[Ev.c].duty
             /\ Len(Ev.batch) = Cardinality({Ev.batch[i].v : i \in DOMAIN Ev.batch})
             /\ BatchOf(Ev.batch) = call[Ev.c].batch
             /\ UNCHANGED <<trims, cont>>
TRet == /\ IsEvent("Ret") /\ ~Urgent /\ Ev.c \in DOMAIN call
        /\ CallEnd(Ev.c)
        /\ Ev.err = call[Ev.c].err
        /\ cont' = Drop(cont, Ev.c)
        /\ UNCHANGED trims
TTrim == /\ IsEvent("Trim") /\ ~Urgent /\ Ev.id \notin DOMAIN trims
         /\ trims' = Put(trims, Ev.id, [duty |-> Ev.duty, done |-> FALSE, cont |-> TrimContended(l)])
         /\ UNCHANGED <<vars, cont>>
TDoTrimFree == /\ FreeCalls = {} /\ FreeTrims # {}
               /\ LET i == MinOf(FreeTrims) IN Trim(trims[i].duty) /\ trims' = [trims EXCEPT ![i].done = TRUE]
               /\ Silent /\ UNCHANGED cont
TDoTrim == /\ ~Urgent
           /\ \E i \in DOMAIN trims : /\ ~trims[i].done /\ Trim(trims[i].duty)
                                      /\ trims' = [trims EXCEPT ![i].done = TRUE]
           /\ Silent /\ UNCHANGED cont
TTrimDone == /\ IsEvent("TrimDone") /\ ~Urgent /\ Ev.id \in DOMAIN trims /\ trims[Ev.id].done
             /\ trims' = Drop(trims, Ev.id) /\ UNCHANGED <<vars, cont>>
TraceNext == TReset \/ TCall \/ TStoreFree \/ TDoTrimFree \/ TStore \/ TFired \/ TInternal \/ TRet \/ TTrim \/ TDoTrim \/ TTrimDone
TraceSpec == TraceInit /\ [][TraceNext]_tvars
Mark == /\ CheckInv("AtMostOnce", AtMostOnce) /\ CheckInv("MatchingOK", MatchingOK)
        /\ CheckInv("OnePerVal", OnePerVal) /\ CheckInv("OneSharePerKey", OneSharePerKey)
        /\ CheckInv("NoLostTrigger", NoLostTrigger) /\ CheckInv("IndexOK", IndexOK) /\ CheckInv("CapOK", CapOK)
\* for ParSigDBTrace_ascoded.cfg (the two defects of the pinned tree switched on): everything but the two invariants they break
MarkAsCoded == /\ CheckInv("MatchingOK", MatchingOK) /\ CheckInv("OnePerVal", OnePerVal)
               /\ CheckInv("OneSharePerKey", OneSharePerKey) /\ CheckInv("IndexOK", IndexOK) /\ CheckInv("CapOK", CapOK)
ActOK == /\ CheckInv("FiresWhenReached", FiresWhenReachedA)
         /\ CheckInv("RejectKeepsStore", RejectKeepsStoreA)
         /\ CheckInv("FiredFromStore", FiredFromStoreA)
         /\ HWMarkA
====
