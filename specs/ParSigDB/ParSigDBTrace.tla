---- MODULE ParSigDBTrace ----
(* Trace validation for core/parsigdb/memory.go.  Events (harness/c07), in the order the tracer's mutex serialised them:
     {"ev":"Reset","sid":n,"t":threshold}
     {"ev":"Call","c":id,"duty":{"id","typ","ex"},"status":"scheduled"|"expired"|"exempt","internal":b,
                  "batch":[{"v","share","root","sig","sub"},..]}       written BEFORE StoreExternal/StoreInternal is called
     {"ev":"Fired","c":id,"duty":..,"sets":[{"v","parts":[{"share","root","sig","sub"},..]},..]}
                                                                       written inside the threshold subscriber
     {"ev":"Internal","c":id,"duty":..,"batch":[..]}                   written inside the internal subscriber
     {"ev":"Ret","c":id,"err":b}                                       written AFTER the call returned
     {"ev":"Trim","id":n,"duty":..}  /  {"ev":"TrimDone","id":n}       before the duty is sent on deadliner.C() / after a
                                                                       barrier duty was taken by the Trim loop
   The per-entry store steps and the Trim critical section are not logged: they are silent steps that TLC places
   between the bracketing events (linearisability by trace validation); calls of different goroutines overlap in the
   concurrent tier. *)
EXTENDS ParSigDB, TraceCommon
VARIABLE trims        \* id -> duty: Trim requests sent but not yet executed
tvars == <<vars, trims, tr, l>>
PartOf(e) == [share |-> e.share, root |-> e.root, sig |-> e.sig, sub |-> e.sub]
PartSet(s) == {PartOf(s[i]) : i \in DOMAIN s}
BatchOf(s) == [v \in {s[i].v : i \in DOMAIN s} |-> PartOf(s[CHOOSE i \in DOMAIN s : s[i].v = v])]

TraceInit == Init0 /\ TrInit /\ trims = <<>> /\ thr = Traces[tr][1].t
TReset == IsEvent("Reset") /\ UNCHANGED <<vars, trims>>
TCall == /\ IsEvent("Call")
         /\ Len(Ev.batch) = Cardinality({Ev.batch[i].v : i \in DOMAIN Ev.batch})
         /\ (Ev.status = "exempt") = (Ev.duty.ex /\ Ev.status # "expired")
         /\ CallBegin(Ev.c, Ev.duty, BatchOf(Ev.batch), Ev.internal, Ev.status = "expired")
         /\ UNCHANGED trims
TStore == \E c \in DOMAIN call : \E v \in call[c].todo : StoreEntry(c, v) /\ Silent /\ UNCHANGED trims
TFired == /\ IsEvent("Fired") /\ Ev.c \in DOMAIN call
          /\ FireSubs(Ev.c)
          /\ Ev.duty = call[Ev.c].duty
          /\ \A i \in DOMAIN Ev.sets : Len(Ev.sets[i].parts) = Cardinality(PartSet(Ev.sets[i].parts))
          /\ Len(Ev.sets) = Cardinality({Ev.sets[i].v : i \in DOMAIN Ev.sets})
          /\ {[v |-> Ev.sets[i].v, S |-> PartSet(Ev.sets[i].parts)] : i \in DOMAIN Ev.sets}
               = {[v |-> o.v, S |-> o.S] : o \in call[Ev.c].out}
          /\ UNCHANGED trims
TInternal == /\ IsEvent("Internal") /\ Ev.c \in DOMAIN call
             /\ InternalSubs(Ev.c)
             /\ Ev.duty = call[Ev.c].duty
             /\ Len(Ev.batch) = Cardinality({Ev.batch[i].v : i \in DOMAIN Ev.batch})
             /\ BatchOf(Ev.batch) = call[Ev.c].batch
             /\ UNCHANGED trims
TRet == /\ IsEvent("Ret") /\ Ev.c \in DOMAIN call
        /\ CallEnd(Ev.c)
        /\ Ev.err = call[Ev.c].err
        /\ UNCHANGED trims
TTrim == /\ IsEvent("Trim") /\ Ev.id \notin DOMAIN trims
         /\ trims' = Put(trims, Ev.id, [duty |-> Ev.duty, done |-> FALSE]) /\ UNCHANGED vars
TDoTrim == \E i \in DOMAIN trims : /\ ~trims[i].done /\ Trim(trims[i].duty)
                                    /\ trims' = [trims EXCEPT ![i].done = TRUE] /\ Silent
TTrimDone == /\ IsEvent("TrimDone") /\ Ev.id \in DOMAIN trims /\ trims[Ev.id].done
             /\ trims' = Drop(trims, Ev.id) /\ UNCHANGED vars
TraceNext == TReset \/ TCall \/ TStore \/ TFired \/ TInternal \/ TRet \/ TTrim \/ TDoTrim \/ TTrimDone
TraceSpec == TraceInit /\ [][TraceNext]_tvars
Mark == /\ CheckInv("AtMostOnce", AtMostOnce) /\ CheckInv("MatchingOK", MatchingOK)
        /\ CheckInv("OnePerVal", OnePerVal) /\ CheckInv("OneSharePerKey", OneSharePerKey)
        /\ CheckInv("NoLostTrigger", NoLostTrigger) /\ CheckInv("IndexOK", IndexOK) /\ CheckInv("CapOK", CapOK)
        /\ HWMark
\* for ParSigDBTrace_ascoded.cfg (the two defects of the pinned tree switched on): everything but the two invariants they break
MarkAsCoded == /\ CheckInv("MatchingOK", MatchingOK) /\ CheckInv("OnePerVal", OnePerVal)
               /\ CheckInv("OneSharePerKey", OneSharePerKey) /\ CheckInv("IndexOK", IndexOK) /\ CheckInv("CapOK", CapOK)
               /\ HWMark
ActOK == /\ CheckInv("FiresWhenReached", FiresWhenReachedA)
         /\ CheckInv("RejectKeepsStore", RejectKeepsStoreA)
         /\ CheckInv("FiredFromStore", FiredFromStoreA)
====
