SPECIFICATION MCSpec
CONSTANTS MinReq = 2
 CountWeight = 1000
 MaxPrios = 1000
 SortInput = TRUE
 N = 3
 Real = {1}
 Slots = {1}
 ExT = 1
 SlotLen = 0
 DLOff = 2
 V2Versions = {"v2", "v3"}
 DupPolicy = "last"
 MaxTime = 2
 MaxInject = 1
 Malformed = FALSE
 Lossy = TRUE
 WithDecide = TRUE
INVARIANTS FirstWins
CHECK_DEADLOCK FALSE
