---- MODULE PriorityMC ----
(* Exhaustive design check of the exchange: N peers, the real ones run the protocol for one duty slot with fixed own
   lists; the scripted peers (environment, may be Byzantine) send requests/responses out of a small repertoire: a good
   message, a CONFLICTING second message, one with a forged peer id, one with a bad signature, (control) a malformed one.
   Every interleaving of trigger, request/response delivery, loss, timeout, deadline, decision. *)
EXTENDS Priority
CONSTANTS MaxTime, MaxInject, Malformed, Lossy, WithDecide
Scripted == Peers \ Real
OwnList(i) == IF i % 2 = 1 THEN <<"v2", "v1">> ELSE <<"v1", "v2">>
OwnTopics(i) == <<[topic |-> "version", prios |-> OwnList(i)]>>
M(p, s, l) == [peer |-> p, slot |-> s, topics |-> <<[topic |-> "version", prios |-> l]>>]
\* <<message, validator verdict>> a scripted peer b may send
Repertoire(b) == {<<M(b, 1, <<"v1">>), TRUE>>, <<M(b, 1, <<"v2", "v1">>), TRUE>>,
                  <<M(CHOOSE r \in Real : TRUE, 1, <<"v3">>), TRUE>>,     \* forged peer id
                  <<M(b, 1, <<"v3">>), FALSE>>}                           \* bad signature
                 \cup (IF Malformed THEN {<<M(b, 1, <<"v1", "v1">>), TRUE>>, <<M(b, 2, <<"v1">>), TRUE>>} ELSE {})
\* StartAll is the tail of the loop iteration that added the last message: nothing of that node interleaves
MCNext ==
  IF \E x \in IS : AllDue(x) THEN \E x \in IS : StartAll(x) ELSE
  \/ \E i \in Real : Trigger(i, 1, OwnTopics(i))
  \/ \E i, j \in Real : DeliverReq(i, j, 1) \/ DeliverResp(i, j, 1)
  \/ (Lossy /\ \E i \in Real, j \in Peers : SendFail(i, j, 1))
  \/ \E x \in IS : Serve(x) \/ TimerFire(x) \/ Expire(x)
  \/ \E b \in Scripted, j \in Real, k \in 1..MaxInject : \E mv \in Repertoire(b) : RecvReq(<<0, k, 0>>, b, j, mv[1], mv[2])
  \/ \E b \in Scripted, i \in Real : \E mv \in Repertoire(b) : RecvResp(i, b, 1, mv[1], mv[2])
  \/ (now < MaxTime /\ Advance(1))
  \/ (WithDecide /\ \E i, by \in Real : (\A k \in DOMAIN outp : outp[k].i # i) /\ Decide(i, 1, by))
MCSpec == Init /\ [][MCNext]_vars
\* when nothing is lost and nobody misbehaves, everybody proposes the same topics ("consensus is reached if quorum
\* peers propose the same value"): with all messages in, the proposals agree
FullExchangeAgree == \A x, y \in IS : (why[x] = "all" /\ why[y] = "all" /\ prop[x] # NoProp /\ prop[y] # NoProp
                                        /\ Range(prop[x].msgs) = Range(prop[y].msgs)) => prop[x].topics = prop[y].topics
====
