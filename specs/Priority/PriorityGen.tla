---- MODULE PriorityGen ----
(* Schedule generation: behaviours of the design spec recorded in the history variable `hist` -- the configuration and
   the ENVIRONMENT's moves only (trigger, deliveries, losses, scripted peers' messages, time, decisions, queries); what
   the nodes answer, propose and return is the implementation's business.  Internal steps are taken first (the executor
   only applies a stimulus to a quiescent component).  Printed at GenLen moves.  Run with -simulate. *)
EXTENDS Priority, Json
CONSTANTS MaxTime, GenLen
VARIABLE hist
Scripted == Peers \ Real
Asc(S) == [n \in 1..Cardinality(S) |-> CHOOSE k \in S : Cardinality({u \in S : u < k}) = n - 1]
SetToSeqAsc == Asc(Real)
SlotSeq == Asc(Slots)
LV(i) == CASE i = 1 -> <<"v1.11", "v1.10">> [] i = 2 -> <<"v1.10", "v1.11">> [] i = 3 -> <<"v1.12", "v1.11", "v1.10">> [] OTHER -> <<"v1.10">>
LP(i) == CASE i = 1 -> <<"/qbft/2", "/hs/1">> [] i = 2 -> <<"/hs/1", "/qbft/2">> [] OTHER -> <<"/qbft/2">>
LR(i) == CASE i = 1 -> <<"full">> [] i = 2 -> <<"builder", "full">> [] OTHER -> <<"full", "synthetic">>
Topics3(v, p, r) == <<[topic |-> "version", prios |-> v], [topic |-> "protocol", prios |-> p], [topic |-> "proposal", prios |-> r]>>
LocalTopics(i) == Topics3(LV(i), LP(i), LR(i))
M(p, s, tp) == [peer |-> p, slot |-> s, topics |-> tp]
Repertoire(b) == {<<M(b, s, Topics3(<<"v1.10", "v1.11">>, <<"/hs/1">>, <<"full">>)), TRUE>> : s \in Slots}
           \cup {<<M(b, s, Topics3(<<"v1.12">>, <<"/qbft/2", "/hs/1">>, <<"builder">>)), TRUE>> : s \in Slots}
           \cup {<<M(b, 1, <<[topic |-> "version", prios |-> <<"v1.11">>]>>), TRUE>>,
                 <<M(b, 1, Topics3(<<>>, <<"/abft/1">>, <<>>)), TRUE>>,
                 <<M(CHOOSE r \in Real : TRUE, 1, LocalTopics(1)), TRUE>>,
                 <<M(b, 1, LocalTopics(2)), FALSE>>,
                 <<M(b, 1, Topics3(<<"v1.10", "v1.10">>, <<>>, <<>>)), TRUE>>,
                 <<M(b, 1, <<[topic |-> "version", prios |-> <<"v1.10">>], [topic |-> "version", prios |-> <<"v1.11">>]>>), TRUE>>,
                 <<M(b, 99, LocalTopics(1)), TRUE>>}
CfgRec == [ev |-> "Cfg", n |-> N, real |-> SetToSeqAsc, minreq |-> MinReq, ext |-> ExT, slotlen |-> SlotLen, dloff |-> DLOff,
           slots |-> SlotSeq, local |-> [k \in {ToString(i) : i \in Real} |->
                        LET i == CHOOSE i \in Real : ToString(i) = k IN [versions |-> LV(i), protocols |-> LP(i), proposals |-> LR(i)]]]
GenInit == Init /\ hist = <<CfgRec>>
Urgent == \E x \in IS : (Running(x) /\ buf[x] # <<>>) \/ AllDue(x) \/ TimerDue(x) \/ ExpireDue(x)
Rec(r) == hist' = Append(hist, r)
GenNext ==
  IF Urgent THEN (\E x \in IS : Serve(x) \/ StartAll(x) \/ TimerFire(x) \/ Expire(x)) /\ UNCHANGED hist ELSE
  \/ \E i \in Real, s \in Slots : Trigger(i, s, LocalTopics(i)) /\ Rec([ev |-> "Trigger", i |-> i, s |-> s])
  \/ \E i, j \in Real, s \in Slots : DeliverReq(i, j, s) /\ Rec([ev |-> "DeliverReq", from |-> i, to |-> j, s |-> s])
  \/ \E i, j \in Real, s \in Slots : DeliverResp(i, j, s) /\ Rec([ev |-> "DeliverResp", from |-> i, to |-> j, s |-> s])
  \/ \E i \in Real, j \in Peers, s \in Slots : SendFail(i, j, s) /\ Rec([ev |-> "SendFail", from |-> i, to |-> j, s |-> s])
  \/ \E b \in Scripted, j \in Real : \E mv \in Repertoire(b) :
        /\ RecvReq(<<0, Len(hist), 0>>, b, j, mv[1], mv[2])
        /\ Rec([ev |-> "InjectReq", rid |-> Len(hist), as |-> b, to |-> j, msg |-> mv[1], valid |-> mv[2]])
  \/ \E b \in Scripted, i \in Real, s \in Slots : \E mv \in Repertoire(b) :
        /\ RecvResp(i, b, s, mv[1], mv[2])
        /\ Rec([ev |-> "InjectResp", from |-> i, to |-> b, s |-> s, msg |-> mv[1], valid |-> mv[2]])
  \/ \E by \in {1, 2, ExT, SlotLen} : now + by <= MaxTime /\ Advance(by) /\ Rec([ev |-> "Advance", by |-> by])
  \/ \E i, by \in Real, s \in Slots : Decide(i, s, by) /\ Rec([ev |-> "Decide", i |-> i, s |-> s, by |-> by])
  \/ \E i \in Real, q \in {0} \cup Slots \cup {9} : isr[i] # <<>> /\ UNCHANGED vars /\ Rec([ev |-> "Query", i |-> i, slot |-> q])
GenSpec == GenInit /\ [][GenNext]_<<vars, hist>>
Emit == Len(hist) < GenLen \/ PrintT("@@SCHED@@" \o ToJson(hist))
Stop == Len(hist) <= GenLen
====
