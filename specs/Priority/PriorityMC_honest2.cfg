SPECIFICATION MCSpec
CONSTANTS MinReq = 2
 CountWeight = 1000
 MaxPrios = 1000
 SortInput = TRUE
 N = 2
 Real = {1, 2}
 Slots = {1}
 ExT = 1
 SlotLen = 0
 DLOff = 2
 V2Versions = {"v2", "v3"}
 DupPolicy = "first"
 MaxTime = 2
 MaxInject = 1
 Malformed = FALSE
 Lossy = TRUE
 WithDecide = TRUE
INVARIANTS Safety NoAbort FullExchangeAgree
CHECK_DEADLOCK FALSE
