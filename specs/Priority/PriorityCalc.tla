---- MODULE PriorityCalc ----
(* core/priority/calculate.go: the pure result function calculateResult(msgs, minRequired), transcribed (see Priority.tla
   for the protocol around it).  A message is [peer, slot, topics], topics a sequence of [topic, prios], prios a sequence.
   SortInput = FALSE is a CONTROL (ties then fall in arrival order instead of peer order). *)
EXTENDS Integers, Sequences, FiniteSets, TLC
CONSTANTS MinReq,       \* minRequired (the cluster threshold in app.go)
          CountWeight,  \* countWeight = maxPriorities = 1000 in the code
          MaxPrios,     \* maxPriorities (a topic with >= MaxPrios priorities is refused)
          SortInput     \* TRUE: as coded
Range(q) == {q[k] : k \in DOMAIN q}
HasDup(q) == \E a, b \in DOMAIN q : a < b /\ q[a] = q[b]
None == "none"
(* ------------------------------------------- PART 1: calculateResult ------------------------------------------- *)
\* first error of one message's topics in scan order, or None
TopicErrAt(ts, t) ==
  IF \E a \in 1..(t - 1) : ts[a].topic = ts[t].topic THEN "duplicate topic"
  ELSE IF Len(ts[t].prios) >= MaxPrios THEN "max priority reached"
  ELSE IF HasDup(ts[t].prios) THEN "duplicate priority"
  ELSE None
TopicsErr(ts) == LET bad == {t \in DOMAIN ts : TopicErrAt(ts, t) # None} IN
                 IF bad = {} THEN None ELSE TopicErrAt(ts, CHOOSE t \in bad : \A u \in bad : t <= u)
MsgErrAt(ms, k) ==
  IF ms[k].slot # ms[1].slot THEN "mismatching duties"
  ELSE IF \E a \in 1..(k - 1) : ms[a].peer = ms[k].peer THEN "duplicate peer"
  ELSE TopicsErr(ms[k].topics)
CalcErr(ms) ==
  IF ms = <<>> THEN "messages empty"
  ELSE LET bad == {k \in DOMAIN ms : MsgErrAt(ms, k) # None} IN
       IF bad = {} THEN None ELSE MsgErrAt(ms, CHOOSE k \in bad : \A u \in bad : k <= u)

\* sortInput: the messages in ascending peer order (only used on validated input: peers are distinct)
SortedMsgs(ms) == IF ~SortInput THEN ms ELSE
                  LET ps == {ms[k].peer : k \in DOMAIN ms}
                      nth(n) == CHOOSE p \in ps : Cardinality({q \in ps : q < p}) = n - 1
                  IN [n \in 1..Cardinality(ps) |-> CHOOSE m \in Range(ms) : m.peer = nth(n)]
TopicsOf(ms) == UNION {{m.topics[t].topic : t \in DOMAIN m.topics} : m \in Range(ms)}
\* the priority lists proposed for topic tp, in sorted message order
RECURSIVE ListsFor(_, _, _)
ListsFor(sm, tp, k) ==
  IF k > Len(sm) THEN <<>>
  ELSE LET ts == sm[k].topics
           hit == {t \in DOMAIN ts : ts[t].topic = tp}
       IN (IF hit = {} THEN <<>> ELSE <<ts[CHOOSE t \in hit : TRUE].prios>>) \o ListsFor(sm, tp, k + 1)
RECURSIVE Flatten(_)
Flatten(ls) == IF ls = <<>> THEN <<>> ELSE Head(ls) \o Flatten(Tail(ls))
RECURSIVE FirstSeen(_, _, _)
FirstSeen(q, k, acc) == IF k > Len(q) THEN acc
                        ELSE FirstSeen(q, k + 1, IF q[k] \in Range(acc) THEN acc ELSE Append(acc, q[k]))
IndexOf(q, x) == CHOOSE k \in DOMAIN q : q[k] = x
\* scores[priority] += countWeight - order
ScoreIn(ls, p) == LET in == {k \in DOMAIN ls : p \in Range(ls[k])}
                      RECURSIVE Sum(_)
                      Sum(S) == IF S = {} THEN 0 ELSE LET k == CHOOSE k \in S : TRUE
                                                      IN (CountWeight - (IndexOf(ls[k], p) - 1)) + Sum(S \ {k})
                  IN Sum(in)
\* slices.SortStableFunc by score decreasing, then the minScore filter
TopicRes(sm, tp) ==
  LET ls == ListsFor(sm, tp, 1)
      all == FirstSeen(Flatten(ls), 1, <<>>)
      ps == Range(all)
      \* (TLCEval: TLC would otherwise re-evaluate the function body at every application)
      sc == TLCEval([p \in ps |-> ScoreIn(ls, p)])
      ix == TLCEval([p \in ps |-> IndexOf(all, p)])
      \* position after a STABLE sort by decreasing score
      pos == TLCEval([p \in ps |-> 1 + Cardinality({q \in ps : sc[q] > sc[p] \/ (sc[q] = sc[p] /\ ix[q] < ix[p])})])
      at == TLCEval([n \in 1..Len(all) |-> CHOOSE p \in ps : pos[p] = n])
      sorted == at
      kept == SelectSeq(sorted, LAMBDA p : sc[p] > (MinReq - 1) * CountWeight)
  IN [topic |-> tp, prios |-> [n \in 1..Len(kept) |-> [p |-> kept[n], score |-> sc[kept[n]]]]]
CalcTopics(ms) == LET sm == SortedMsgs(ms) IN {TopicRes(sm, tp) : tp \in TopicsOf(ms)}
NoProp == [msgs |-> <<>>, topics |-> {}]
Calc(ms) == [msgs |-> ms, topics |-> CalcTopics(ms)]

\* what the documentation promises about one topic's result (checked over all inputs by PriorityCalcMC, and on
\* every proposal the implementation makes by the trace spec)
Support(ms, tp, p) == {m \in Range(ms) : \E t \in DOMAIN m.topics : m.topics[t].topic = tp /\ p \in Range(m.topics[t].prios)}
OrderSum(ms, tp, p) == LET S == Support(ms, tp, p)
                           RECURSIVE Sum(_)
                           Sum(X) == IF X = {} THEN 0
                                     ELSE LET m == CHOOSE m \in X : TRUE
                                              t == CHOOSE t \in DOMAIN m.topics : m.topics[t].topic = tp
                                          IN (IndexOf(m.topics[t].prios, p) - 1) + Sum(X \ {m})
                       IN Sum(S)
Proposed(ms, tp) == UNION {UNION {Range(m.topics[t].prios) : t \in {u \in DOMAIN m.topics : m.topics[u].topic = tp}} : m \in Range(ms)}
LongestList(ms) == LET ls == UNION {{Len(m.topics[t].prios) : t \in DOMAIN m.topics} : m \in Range(ms)} \cup {0}
                   IN CHOOSE x \in ls : \A y \in ls : y <= x
\* "Weight count more than relative priority" only works while the orders of one priority sum up to less than one
\* count: guaranteed when  (#messages) * (longest list - 1) < CountWeight
WeightDominates(ms) == Len(ms) * (LongestList(ms) - 1) < CountWeight
ResOK(ms, r) ==
  LET ps == [n \in DOMAIN r.prios |-> r.prios[n].p]
      cnt == TLCEval([p \in Range(ps) |-> Cardinality(Support(ms, r.topic, p))])
      osum == TLCEval([p \in Range(ps) |-> OrderSum(ms, r.topic, p)])
  IN /\ Cardinality(Range(ps)) = Len(ps)                     \* no priority twice
     /\ Range(ps) \subseteq Proposed(ms, r.topic)
     \* only priorities that at least minRequired peers provided
     /\ \A p \in Range(ps) : cnt[p] >= MinReq
     \* the reported score is count * weight - sum of orders
     /\ \A n \in DOMAIN ps : r.prios[n].score = cnt[ps[n]] * CountWeight - osum[ps[n]]
     \* scores never increase along the result
     /\ \A a \in DOMAIN ps : a < Len(ps) => r.prios[a].score >= r.prios[a + 1].score
ResDocOK(ms, r) ==
  LET ps == [n \in DOMAIN r.prios |-> r.prios[n].p]
      all == Proposed(ms, r.topic)
      cnt == TLCEval([p \in all |-> Cardinality(Support(ms, r.topic, p))])
      osum == TLCEval([p \in Range(ps) |-> OrderSum(ms, r.topic, p)])
  IN \* every priority that minRequired peers provided is included ...
     /\ \A p \in all : cnt[p] >= MinReq => p \in Range(ps)
     \* ... ordered by number of peers, then by overall priority
     /\ \A a \in DOMAIN ps : a < Len(ps) =>
           \/ cnt[ps[a]] > cnt[ps[a + 1]]
           \/ cnt[ps[a]] = cnt[ps[a + 1]] /\ osum[ps[a]] <= osum[ps[a + 1]]
CalcOK(ms, res) == /\ \A r \in res.topics : ResOK(ms, r) /\ (WeightDominates(ms) => ResDocOK(ms, r))
                   /\ {r.topic : r \in res.topics} = TopicsOf(ms)
                   /\ Cardinality(res.topics) = Cardinality(TopicsOf(ms))

====
