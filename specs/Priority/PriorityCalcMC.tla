---- MODULE PriorityCalcMC ----
(* Exhaustive check of the result function: every assignment of a priority list (any arrangement of any subset of
   Prios, plus the lists in BadLists) or "absent" to each of NP peers, one topic.  States = cases: a case is built peer by
   peer (so that the last level is spread over the workers); the invariants speak about complete cases only.
   For every case EVERY arrival order of the present messages is evaluated. *)
EXTENDS PriorityCalc
CONSTANTS NP, Prios, BadLists, AssumeDominates
VARIABLE c
Bad2 == {<<"a", "a">>, <<"b", "a", "b">>}
Absent == <<"-absent-">>
RECURSIVE Arr(_)
Arr(S) == IF S = {} THEN {<<>>} ELSE UNION {{<<x>> \o q : q \in Arr(S \ {x})} : x \in S}
Lists == UNION {Arr(S) : S \in SUBSET Prios} \cup BadLists
Init == c = <<>>
Next == Len(c) < NP /\ \E l \in Lists \cup {Absent} : c' = Append(c, l)
Spec == Init /\ [][Next]_c
Complete == Len(c) = NP /\ \E k \in 1..NP : c[k] # Absent
Present == {k \in 1..NP : c[k] # Absent}
MsgOf(k) == [peer |-> k, slot |-> 1, topics |-> <<[topic |-> "t", prios |-> c[k]]>>]
Orders == Arr(Present)                        \* every arrival order (sequence of peers)
MsgsIn(o) == [n \in DOMAIN o |-> MsgOf(o[n])]
Asc(S) == [n \in 1..Cardinality(S) |-> CHOOSE k \in S : Cardinality({u \in S : u < k}) = n - 1]
Canon == MsgsIn(Asc(Present))
Defective == \E k \in Present : HasDup(c[k]) \/ Len(c[k]) >= MaxPrios
\* an error is reported iff some message is defective, whatever the arrival order
ErrorIff == Complete => \A o \in Orders : (CalcErr(MsgsIn(o)) # None) = Defective
\* the result does not depend on the order in which the messages arrived
OrderInsensitive == (Complete /\ ~Defective) => \A o \in Orders : CalcTopics(MsgsIn(o)) = CalcTopics(Canon)
\* only priorities that minRequired peers provided; scores as documented; (while count outweighs order) all of them,
\* ordered by count and then by overall priority
DocRules == (Complete /\ ~Defective) =>
              LET ms == Canon IN \A r \in CalcTopics(ms) : ResOK(ms, r) /\ ((AssumeDominates => WeightDominates(ms)) => ResDocOK(ms, r))
\* equal scores: first seen wins, peers taken in ascending order
Rank(p) == LET k == CHOOSE k \in Present : p \in Range(c[k]) /\ \A u \in Present : p \in Range(c[u]) => k <= u
           IN k * (Cardinality(Prios) + 2) + IndexOf(c[k], p)
TieBreak == (Complete /\ ~Defective) =>
              \A r \in CalcTopics(Canon) : \A a, b \in DOMAIN r.prios :
                 (a < b /\ r.prios[a].score = r.prios[b].score) => Rank(r.prios[a].p) < Rank(r.prios[b].p)
\* exactly one result entry for the one topic
OneTopic == (Complete /\ ~Defective) => Cardinality(CalcTopics(Canon)) = 1
====
