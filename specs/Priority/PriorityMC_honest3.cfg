SPECIFICATION MCSpec
CONSTANTS MinReq = 2
 CountWeight = 1000
 MaxPrios = 1000
 SortInput = TRUE
 N = 3
 Real = {1, 2, 3}
 Slots = {1}
 ExT = 1
 SlotLen = 0
 DLOff = 50
 V2Versions = {"v2", "v3"}
 DupPolicy = "first"
 MaxTime = 1
 MaxInject = 1
 Malformed = FALSE
 Lossy = FALSE
 WithDecide = FALSE
INVARIANTS Safety NoAbort FullExchangeAgree
CHECK_DEADLOCK FALSE
