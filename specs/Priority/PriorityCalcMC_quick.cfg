SPECIFICATION Spec
CONSTANTS MinReq = 2
 CountWeight = 1000
 MaxPrios = 1000
 SortInput = TRUE
 NP = 3
 Prios = {"a", "b", "c"}
 BadLists = {}
 AssumeDominates = TRUE
INVARIANTS ErrorIff OrderInsensitive DocRules TieBreak OneTopic
CHECK_DEADLOCK FALSE
