SPECIFICATION Spec
CONSTANTS MinReq = 3
 CountWeight = 1000
 MaxPrios = 1000
 SortInput = TRUE
 NP = 4
 Prios = {"a", "b", "c"}
 BadLists = {}
 AssumeDominates = TRUE
INVARIANTS ErrorIff OrderInsensitive DocRules TieBreak OneTopic
CHECK_DEADLOCK FALSE
