SPECIFICATION GenSpec
CONSTANTS MinReq = 2
 CountWeight = 1000
 MaxPrios = 1000
 SortInput = TRUE
 N = 3
 Real = {1, 2, 3}
 Slots = {1, 2}
 ExT = 3
 SlotLen = 6
 DLOff = 5
 V2Versions = {"v1.11", "v1.12", "v1.13", "v2.0"}
 DupPolicy = "first"
 MaxTime = 20
 GenLen = 40
INVARIANTS Emit
CONSTRAINT Stop
CHECK_DEADLOCK FALSE
