SPECIFICATION Spec
CONSTANTS MinReq = 2
 CountWeight = 1000
 MaxPrios = 1000
 SortInput = FALSE
 NP = 3
 Prios = {"a", "b"}
 BadLists = {}
 AssumeDominates = TRUE
INVARIANTS OrderInsensitive
CHECK_DEADLOCK FALSE
