---- MODULE Priority ----
(* core/priority/{calculate.go, prioritiser.go, component.go} + core/infosync/infosync.go (growth family "Priority").

   PART 1 - the pure result function calculateResult(msgs, minRequired), transcribed:
     validateMsgs      first error in scan order: mismatching duties / duplicate peer / duplicate topic /
                       max priority reached (len >= MaxPrios) / duplicate priority            -> CalcErr
     sortInput         messages ordered by peer id (model peer index order = order of the peer id strings)
     per topic         allPriorities = first-seen order over the sorted messages; score[p] += CountWeight - order;
                       STABLE sort by score decreasing; kept iff score > (MinReq-1)*CountWeight  -> TopicRes
     result            Msgs = the input sequence AS GIVEN (arrival order), Topics = one entry per topic seen (ordered by
                       topic hash in the code: the model keeps a set, the trace spec checks that the order is consistent)
   PART 2 - the exchange (prioritiser.go runInstance/exchange/handleRequest), one action per loop iteration / handler
            critical section, for every real node i and duty slot s:
     Trigger(i,s,tp)   Component.Prioritise -> Prioritiser.Prioritise -> runInstance: own message, one send per other peer
     RecvReq           handleRequest of a request (from a real or from a scripted = environment/Byzantine peer): peer id
                       check, validator (signature), gater, deadliner, enqueue into the per-duty request buffer
     Serve(i,s)        loop iteration `req := <-requests`: addMsg (FIRST message per peer wins), answer with own
     RecvResp          a response to i's own request comes back: peer id check, validator, then `msg := <-responses`:
                       addMsg.  The duty of a RESPONSE is not compared with the requested one (as coded).
     SendFail          the send fails (lost request or lost response)
     TimerFire(i,s)    `<-exTimeout`: consensus starts with what has been received
     StartCons         after every iteration: not started and len(msgs) = len(peers) -> consensus starts
                       startConsensus: calculateResult; an ERROR ENDS THE INSTANCE (Prioritise returns it), otherwise
                       consensus.ProposePriority(result) is called once
     Expire(i,s)       the duty deadline passes: ctx of the instance ends, Prioritise returns nil
   PART 3 - consensus, abstract as in Pipeline.tla: per slot ONE decided value among the proposals (agreement and
            validity are C02/C03's business); Decide(i,s) hands it to node i's subscribers
   PART 4 - infosync: the subscriber stores [slot, versions, protocols, proposals] when versions is not empty (unless
            Equal to the last stored one) and the sync-contribution gate; Protocols/Proposals/SyncContributionsSupported
            scan the stored results in APPEND order until the first one with a greater slot (as coded).
*)
EXTENDS PriorityCalc
CONSTANTS N,            \* peers 1..N
          Real,         \* peers that are real components; the others are scripted by the environment (may be Byzantine)
          Slots,        \* duty slots the gater lets through
          ExT,          \* exchange timeout (ticks)
          SlotLen, DLOff, \* deadline of slot s = s*SlotLen + DLOff
          V2Versions,   \* version strings >= minSyncContributionV2Version (v1.11)
          DupPolicy     \* "first": as coded (addMsg keeps the first message of a peer); "last": CONTROL

Peers == 1..N
Deadline(s) == s * SlotLen + DLOff
NoMsg == [peer |-> 0, slot |-> 0, topics |-> <<>>]

(* --------------------------------------------- PART 2: the exchange --------------------------------------------- *)
VARIABLES now,
          st,       \* [Real \X Slots -> "idle" | "run" (exchanging) | "cons" (consensus started) | "failed" | "done"]
          own,      \* own message of the instance
          msgs,     \* runInstance's msgs
          seen,     \* dedupPeers
          buf,      \* per-duty request buffer: requests enqueued and not served yet, <<rid, msg>>
          trig,     \* start time of the instance (exTimeout = trig + ExT)
          fired,    \* exTimeout consumed
          sends,    \* history/output: [from, to, slot, msg] sendFunc invocations of real nodes
          sdone,    \* sends that have returned (response handed over, failed, cancelled)
          handled,  \* history/output: [rid, to, slot, res] answers of handleRequest
          prop,     \* ProposePriority argument, NoProp before
          why,      \* history: "all" | "timeout": what started consensus
          ret,      \* what Prioritise returned: None (still running) | "nil" | error text
          dec,      \* [Slots -> decided result or NoProp]
          outp,     \* history/output: sequence of [i, slot, topics] subscriber calls
          isr,      \* infosync results per real node: Seq([slot, versions, protocols, proposals])
          isc,      \* infosync sync-contribution gate results: Seq([slot, enabled])
          first     \* history: first message accepted from peer j by instance (i,s), for FirstWins
evars == <<st, own, msgs, seen, buf, trig, fired, sends, sdone, handled, prop, why, ret, first>>
ivars == <<dec, outp, isr, isc>>
vars == <<now, evars, ivars>>
IS == Real \X Slots

Init == /\ now = 0
        /\ st = [x \in IS |-> "idle"] /\ own = [x \in IS |-> NoMsg] /\ msgs = [x \in IS |-> <<>>]
        /\ seen = [x \in IS |-> {}] /\ buf = [x \in IS |-> <<>>] /\ trig = [x \in IS |-> 0]
        /\ fired = [x \in IS |-> FALSE] /\ sends = {} /\ sdone = {} /\ handled = {}
        /\ prop = [x \in IS |-> NoProp] /\ why = [x \in IS |-> None] /\ ret = [x \in IS |-> None]
        /\ dec = [s \in Slots |-> NoProp] /\ outp = <<>> /\ isr = [i \in Real |-> <<>>] /\ isc = [i \in Real |-> <<>>]
        /\ first = [x \in IS |-> [j \in Peers |-> NoMsg]]

Running(x) == st[x] \in {"run", "cons"}
Gone(s) == now >= Deadline(s)
\* pending sends of the instance x = <<i, s>>
MySends(x) == {m \in sends : m.from = x[1] /\ m.slot = x[2]}

\* addMsg: the first message of each peer (own is NOT in dedupPeers)
AddMsg(x, m) == IF m.peer \in seen[x]
                  THEN IF DupPolicy = "first" THEN UNCHANGED <<msgs, seen, first>>
                       ELSE /\ msgs' = [msgs EXCEPT ![x] = [k \in DOMAIN @ |-> IF @[k].peer = m.peer /\ k > 1 THEN m ELSE @[k]]]
                            /\ UNCHANGED <<seen, first>>
                  ELSE /\ msgs' = [msgs EXCEPT ![x] = Append(@, m)]
                       /\ seen' = [seen EXCEPT ![x] = @ \cup {m.peer}]
                       /\ first' = [first EXCEPT ![x][m.peer] = m]

\* Component.Prioritise(duty, topics...) / infosync.Trigger
Trigger(i, s, tp) ==
  LET x == <<i, s>> m == [peer |-> i, slot |-> s, topics |-> tp] IN
  /\ st[x] = "idle"
  /\ IF Gone(s)
       THEN \* deadliner.Add answers expired: "Dropping priority protocol instance", nil
            /\ st' = [st EXCEPT ![x] = "done"] /\ ret' = [ret EXCEPT ![x] = "nil"]
            /\ UNCHANGED <<own, msgs, trig, sends>>
       ELSE /\ st' = [st EXCEPT ![x] = "run"] /\ own' = [own EXCEPT ![x] = m]
            /\ msgs' = [msgs EXCEPT ![x] = <<m>>] /\ trig' = [trig EXCEPT ![x] = now]
            /\ sends' = sends \cup {[from |-> i, to |-> j, slot |-> s, msg |-> m] : j \in Peers \ {i}}
            /\ UNCHANGED ret
  /\ UNCHANGED <<now, seen, buf, fired, sdone, handled, prop, why, first, ivars>>

\* handleRequest up to the enqueue.  `a` is the authenticated sender, m the message, valid the validator's verdict
ReqErr(a, m, valid) ==
  IF m.peer # a THEN "invalid priority message peer id"
  ELSE IF ~valid THEN "invalid priority message"
  ELSE IF m.slot \notin Slots THEN "invalid duty"
  ELSE IF Gone(m.slot) THEN "duty expired or exempt"
  ELSE None
RecvReq(rid, a, j, m, valid) ==
  /\ j \in Real /\ a # j
  /\ \A h \in handled : h.rid # rid
  /\ IF ReqErr(a, m, valid) # None
       THEN handled' = handled \cup {[rid |-> rid, to |-> j, res |-> [k |-> "err", e |-> ReqErr(a, m, valid), m |-> NoMsg]]}
            /\ UNCHANGED buf
       ELSE /\ Len(buf[<<j, m.slot>>]) < 2 * N          \* a full buffer blocks the handler: not modelled
            /\ \A k \in DOMAIN buf[<<j, m.slot>>] : buf[<<j, m.slot>>][k][1] # rid
            /\ buf' = [buf EXCEPT ![<<j, m.slot>>] = Append(@, <<rid, m>>)]
            /\ UNCHANGED handled
  /\ UNCHANGED <<now, st, own, msgs, seen, trig, fired, sends, sdone, prop, why, ret, first, ivars>>
\* a real node's pending request reaches its (real) destination
Rid(i, j, s) == <<i, j, s>>
DeliverReq(i, j, s) ==
  /\ \E m \in sends : m.from = i /\ m.to = j /\ m.slot = s /\ <<i, j, s>> \notin sdone
                      /\ RecvReq(Rid(i, j, s), i, j, m.msg, TRUE)

\* loop iteration: req := <-requests; addMsg(req.Msg); req.Response <- own
Serve(x) ==
  /\ Running(x) /\ buf[x] # <<>>
  /\ LET rid == Head(buf[x])[1] m == Head(buf[x])[2] IN
       /\ AddMsg(x, m)
       /\ handled' = handled \cup {[rid |-> rid, to |-> x[1], res |-> [k |-> "resp", e |-> None, m |-> own[x]]]}
  /\ buf' = [buf EXCEPT ![x] = Tail(@)]
  /\ UNCHANGED <<now, st, own, trig, fired, sends, sdone, prop, why, ret, ivars>>

\* the answer to i's request to j comes back (from the real j's handler, or scripted): exchange()'s checks, then
\* the loop iteration `msg := <-responses`
RecvResp(i, j, s, m, valid) ==
  LET x == <<i, s>> IN
  /\ \E q \in sends : q.from = i /\ q.to = j /\ q.slot = s
  /\ <<i, j, s>> \notin sdone /\ Running(x)
  /\ sdone' = sdone \cup {<<i, j, s>>}
  /\ IF m.peer # j \/ ~valid THEN UNCHANGED <<msgs, seen, first>>      \* "Invalid priority message ...": dropped
     ELSE AddMsg(x, m)
  /\ UNCHANGED <<now, st, own, buf, trig, fired, sends, handled, prop, why, ret, ivars>>
DeliverResp(i, j, s) ==
  /\ j \in Real
  /\ \E h \in handled : h.rid = Rid(i, j, s) /\ h.to = j /\ h.res.k = "resp" /\ RecvResp(i, j, s, h.res.m, TRUE)
\* the send errors (request or response lost, stream reset, the handler answered with an error)
SendFail(i, j, s) ==
  /\ \E q \in sends : q.from = i /\ q.to = j /\ q.slot = s
  /\ <<i, j, s>> \notin sdone /\ Running(<<i, s>>)
  /\ sdone' = sdone \cup {<<i, j, s>>}
  /\ UNCHANGED <<now, st, own, msgs, seen, buf, trig, fired, sends, handled, prop, why, ret, first, ivars>>

\* startConsensus
StartWith(x, reason) ==
  /\ why' = [why EXCEPT ![x] = reason]
  /\ IF CalcErr(msgs[x]) # None
       THEN \* runInstance returns the error, Component.Prioritise's deferred cancel() ends the instance
            /\ st' = [st EXCEPT ![x] = "failed"]
            /\ ret' = [ret EXCEPT ![x] = CalcErr(msgs[x])]
            /\ sdone' = sdone \cup {<<m.from, m.to, m.slot>> : m \in MySends(x)}
            /\ UNCHANGED prop
       ELSE /\ st' = [st EXCEPT ![x] = "cons"] /\ prop' = [prop EXCEPT ![x] = Calc(msgs[x])]
            /\ UNCHANGED <<ret, sdone>>
AllDue(x) == st[x] = "run" /\ Len(msgs[x]) = N
StartAll(x) == /\ AllDue(x) /\ StartWith(x, "all")
               /\ UNCHANGED <<now, own, msgs, seen, buf, trig, fired, sends, handled, first, ivars>>
TimerDue(x) == Running(x) /\ ~fired[x] /\ now >= trig[x] + ExT
TimerFire(x) ==
  /\ TimerDue(x) /\ ~AllDue(x)
  /\ fired' = [fired EXCEPT ![x] = TRUE]
  /\ IF st[x] = "run" THEN StartWith(x, "timeout") ELSE UNCHANGED <<st, prop, why, ret, sdone>>
  /\ UNCHANGED <<now, own, msgs, seen, buf, trig, sends, handled, first, ivars>>
\* the duty deadline: the context of the instance ends (the timer, when it was due earlier, has fired before)
ExpireDue(x) == Running(x) /\ Gone(x[2])
Expire(x) ==
  /\ ExpireDue(x) /\ ~(TimerDue(x) /\ trig[x] + ExT < Deadline(x[2])) /\ ~AllDue(x)
  /\ st' = [st EXCEPT ![x] = "done"] /\ ret' = [ret EXCEPT ![x] = "nil"]
  /\ sdone' = sdone \cup {<<m.from, m.to, m.slot>> : m \in MySends(x)}
  /\ UNCHANGED <<now, own, msgs, seen, buf, trig, fired, sends, handled, prop, why, first, ivars>>
Advance(by) == by > 0 /\ now' = now + by /\ UNCHANGED <<evars, ivars>>

(* ------------------------------------- PART 3 + 4: consensus, infosync ------------------------------------- *)
PriosOf(res, tp) == LET hit == {r \in res.topics : r.topic = tp} IN
                    IF hit = {} THEN <<>>
                    ELSE LET r == CHOOSE r \in hit : TRUE IN [n \in DOMAIN r.prios |-> r.prios[n].p]
ISRes(s, res) == [slot |-> s, versions |-> PriosOf(res, "version"), protocols |-> PriosOf(res, "protocol"),
                  proposals |-> PriosOf(res, "proposal")]
\* addResult / addSyncContribResult (maxResults = 100 is never reached)
AddIS(q, r) == IF r.versions = <<>> THEN q
               ELSE IF q # <<>> /\ q[Len(q)] = r THEN q ELSE Append(q, r)
AddSC(q, s, en) == IF q # <<>> /\ q[Len(q)].enabled = en THEN q ELSE Append(q, [slot |-> s, enabled |-> en])
\* the abstract consensus decides the proposal of `by` (once per slot) and node i's subscribers are called with it
Decide(i, s, by) ==
  /\ i \in Real /\ by \in Real /\ prop[<<by, s>>] # NoProp
  /\ dec[s] \in {NoProp, prop[<<by, s>>]}
  /\ dec' = [dec EXCEPT ![s] = prop[<<by, s>>]]
  /\ LET v == dec'[s] r == ISRes(s, v) IN
       /\ outp' = Append(outp, [i |-> i, slot |-> s, topics |-> v.topics])
       /\ isr' = [isr EXCEPT ![i] = AddIS(@, r)]
       /\ isc' = [isc EXCEPT ![i] = AddSC(@, s, \E k \in DOMAIN r.versions : r.versions[k] \in V2Versions)]
  /\ UNCHANGED <<now, evars>>
\* the queries, as coded: scan in append order, stop at the first stored slot above q
\* number of leading stored results whose slot is <= the queried one (the loops break at the first greater slot)
Prefix(q, slot) == LET above == {k \in DOMAIN q : q[k].slot > slot} IN
                   IF above = {} THEN Len(q) ELSE (CHOOSE k \in above : \A u \in above : k <= u) - 1
\* (dflt: the node's local protocols)
QProtocols(i, slot, dflt) == LET n == Prefix(isr[i], slot) IN IF n = 0 THEN dflt ELSE isr[i][n].protocols
QProposals(i, slot) == LET n == Prefix(isr[i], slot) IN IF n = 0 THEN <<"full">> ELSE isr[i][n].proposals
QSync(i, slot) == LET n == Prefix(isc[i], slot) IN IF n = 0 THEN FALSE ELSE isc[i][n].enabled

(* ---------------------------------------------------- properties ---------------------------------------------------- *)
TypeOK == /\ \A x \in IS : st[x] \in {"idle", "run", "cons", "failed", "done"}
          /\ \A x \in IS : (prop[x] # NoProp) => st[x] \in {"cons", "done"}
\* one message per peer, the own one first, and it is the FIRST one accepted from that peer
OnePerPeer == \A x \in IS : /\ ~HasDup([k \in DOMAIN msgs[x] |-> msgs[x][k].peer])
                            /\ Running(x) => msgs[x][1] = own[x]
FirstWins == \A x \in IS : \A k \in 2..Len(msgs[x]) : msgs[x][k] = first[x][msgs[x][k].peer]
\* a node proceeds to consensus when all peers answered or the exchange timeout fired -- never otherwise
ProceedRule == \A x \in IS : /\ (why[x] = "all") => Len(msgs[x]) = N
                             /\ (why[x] = "timeout") => fired[x]
                             /\ (prop[x] # NoProp) => why[x] # None
\* what is proposed is the result function applied to the messages held at that time; it satisfies the documented rules
ProposalOK == \A x \in IS : prop[x] # NoProp => CalcErr(prop[x].msgs) = None /\ prop[x].msgs[1].peer = x[1]
\* (expensive: evaluated by the trace spec on what the implementation proposed, and by the thorough design check)
ProposalCalcOKAt(x) == prop[x] # NoProp =>
                 /\ prop[x].topics = CalcTopics(prop[x].msgs)
                 /\ CalcOK(prop[x].msgs, prop[x])
ProposalCalcOK == \A x \in IS : ProposalCalcOKAt(x)
\* same inputs (as a set) => same result on every node
SameInputsAt(x) == \A y \in IS : (prop[x] # NoProp /\ prop[y] # NoProp /\ Range(prop[x].msgs) = Range(prop[y].msgs))
                                            => prop[x].topics = prop[y].topics
SameInputsSameResult == \A x \in IS : SameInputsAt(x)
\* nodes that decide, decide the same, proposed, result
DecidedOK == /\ \A a, b \in Range(outp) : a.slot = b.slot => a.topics = b.topics
             /\ \A a \in Range(outp) : \E x \in IS : x[2] = a.slot /\ prop[x] # NoProp /\ prop[x].topics = a.topics
\* the handler answers a request only with the own message of that duty's instance
AnswersOwn == \A h \in handled : h.res.k = "resp" => \E s \in Slots : h.res.m = own[<<h.to, s>>] /\ h.res.m # NoMsg
\* stored infosync results have versions
ISOK == \A i \in Real : \A k \in DOMAIN isr[i] : isr[i][k].versions # <<>>
\* no instance is aborted by what its peers sent (holds only while every peer's message is well formed: see the
\* control cfg PriorityMC_ctl_malformed)
NoAbort == \A x \in IS : st[x] # "failed"
Safety == TypeOK /\ OnePerPeer /\ FirstWins /\ ProceedRule /\ ProposalOK /\ SameInputsSameResult /\ DecidedOK
          /\ AnswersOwn /\ ISOK
====
