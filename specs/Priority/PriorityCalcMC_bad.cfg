SPECIFICATION Spec
CONSTANTS MinReq = 2
 CountWeight = 1000
 MaxPrios = 3
 SortInput = TRUE
 NP = 3
 Prios = {"a", "b", "c"}
 BadLists <- Bad2
 AssumeDominates = TRUE
INVARIANTS ErrorIff OrderInsensitive DocRules TieBreak OneTopic
CHECK_DEADLOCK FALSE
