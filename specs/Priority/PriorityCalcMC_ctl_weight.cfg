SPECIFICATION Spec
CONSTANTS MinReq = 2
 CountWeight = 2
 MaxPrios = 1000
 SortInput = TRUE
 NP = 3
 Prios = {"a", "b", "c"}
 BadLists = {}
 AssumeDominates = FALSE
INVARIANTS DocRules
CHECK_DEADLOCK FALSE
