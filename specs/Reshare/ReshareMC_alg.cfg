SPECIFICATION MCSpec
CONSTANTS Variant = "ok"
 NoneMode = "dedup"
 RmAllMode = "required"
 MCP = 7
 MCShapes = {"reshare3", "rm3p", "add2", "repl3", "rm4t2", "add3"}
 MCVs = {1}
 PolyMode = "all"
 OrderMode = "canon"
 MaxDup = 0
 Phaser = FALSE
INVARIANTS TypeOK NoFailure Refused SameVerdict AllOrNothing GroupKeyUnchanged Agreement KeyedByShareIdx OwnShareMatches LeaversGetNothing AnyTRecover AnyTSign ThresholdIsNT BelowThresholdSafe OldSharesStillValid ExpectedRespected
VIEW MCView
CHECK_DEADLOCK TRUE
