SPECIFICATION TraceSpec
CONSTANTS Variant = "ok"
 NoneMode = "dedup"
 RmAllMode = "ascoded"
CONSTRAINT Mark
POSTCONDITION Report
CHECK_DEADLOCK FALSE
