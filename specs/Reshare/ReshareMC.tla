---- MODULE ReshareMC ----
(* Exhaustive design check of one reshare ceremony.
   MCShapes  the configurations explored (names, see Shape below): the four edit shapes and refusals
   PolyMode  "all"   the old sharing and every dealer's polynomial range over ALL polynomials of the field (the algebra)
             "most"  all but the last dealer
             "few"   two choices each     "one"  one choice each (delivery orders)
   OrderMode "free"  every interleaving of starts, deliveries and node steps (a node may be arbitrarily slow)
             "eager" every interleaving of starts and deliveries; a node that can take a step takes it first
             "canon" one canonical delivery order, eager nodes
   MaxDup    bound on re-deliveries of a none key under NoneMode "ascoded" (every other re-delivery is dropped by the board: a
             stuttering step of every behaviour)
   Phaser    TRUE: a waiting leaver is released by kyber's time phaser (LeaverTimeout); FALSE: time stands still *)
EXTENDS Reshare
CONSTANTS MCP, MCShapes, MCVs, PolyMode, OrderMode, MaxDup, Phaser
VARIABLE dups
mcvars == <<vars, dups>>

Cfg(M, N0, part, holders, added, removed, T, NT, V) ==
  [M |-> M, N0 |-> N0, part |-> part, holders |-> holders, added |-> added, removed |-> removed, short |-> {}, badexp |-> {},
   T |-> T, NT |-> NT, V |-> V, p |-> MCP]
Shape(name, V) ==
  CASE name = "reshare3"  -> Cfg(3, 3, {1, 2, 3}, {1, 2, 3}, {}, {}, 2, 2, V)            \* reshare, same operators
    [] name = "reshare3t3" -> Cfg(3, 3, {1, 2, 3}, {1, 2, 3}, {}, {}, 3, 3, V)
    [] name = "add3"      -> Cfg(4, 3, {1, 2, 3, 4}, {1, 2, 3}, {4}, {}, 2, 2, V)        \* add-operators: 4 has no share
    [] name = "add2"      -> Cfg(3, 2, {1, 2, 3}, {1, 2}, {3}, {}, 2, 2, V)
    [] name = "rm4"       -> Cfg(4, 4, {1, 3, 4}, {1, 3, 4}, {}, {2}, 3, 0, V)           \* remove-operators: 2 stays away
    [] name = "rm4t2"     -> Cfg(4, 4, {1, 3, 4}, {1, 3, 4}, {}, {2}, 2, 2, V)
    [] name = "rm4p"      -> Cfg(4, 4, {1, 2, 3, 4}, {1, 2, 3, 4}, {}, {2}, 3, 0, V)     \* ... 2 contributes and leaves
    [] name = "rm3p"      -> Cfg(3, 3, {1, 2, 3}, {1, 2, 3}, {}, {1}, 2, 2, V)
    [] name = "rm4pp"     -> Cfg(4, 4, {1, 2, 3, 4}, {1, 2, 3, 4}, {}, {1, 3}, 3, 2, V)  \* two leavers, new cluster {2, 4}
    [] name = "repl3"     -> Cfg(4, 3, {1, 2, 3}, {1, 3}, {2}, {4}, 2, 2, V)             \* replace-operator at position 2
    [] name = "repl4"     -> Cfg(5, 4, {1, 2, 3, 4}, {1, 2, 4}, {3}, {5}, 3, 3, V)
    [] name = "rmlow"     -> Cfg(4, 4, {3, 4}, {3, 4}, {}, {1, 2}, 2, 0, V)              \* insecure threshold 2 of 4: 1, 2 removed
    [] name = "addbad"    -> [Cfg(4, 3, {1, 2, 3, 4}, {1, 2, 3}, {4}, {}, 2, 2, V) EXCEPT !.badexp = {<<4, V - 1>>}]  \* 4's lock names another key
    [] name = "lost"      -> Cfg(3, 3, {1, 2, 3}, {1, 2}, {}, {}, 2, 2, V)               \* 3 lost its shares
    \* refusals
    [] name = "rmfew"     -> Cfg(4, 4, {3, 4}, {3, 4}, {}, {1, 2}, 3, 0, V)              \* fewer than T old shares take part
    [] name = "rmall"     -> Cfg(3, 3, {1, 2, 3}, {1, 2, 3}, {}, {1, 2, 3}, 2, 0, V)     \* everybody leaves
    [] name = "repl3t3"   -> Cfg(4, 3, {1, 2, 3}, {1, 3}, {2}, {4}, 3, 3, V)             \* replace in a 3-of-3 cluster
    [] name = "addswap"   -> Cfg(4, 3, {1, 2, 3, 4}, {1, 2, 3}, {4}, {3}, 2, 2, V)       \* as many leave as join
    [] name = "ntbig"     -> Cfg(3, 3, {1, 2, 3}, {1, 2, 3}, {}, {}, 2, 4, V)            \* new threshold above the new size
    [] name = "both"      -> Cfg(3, 3, {1, 2, 3}, {1, 2}, {3}, {3}, 2, 2, V)             \* added and removed (not well-formed)
ASSUME \A s \in MCShapes, V \in MCVs : ParOK(Shape(s, V))

\* polynomial choices: k = 1, 2 selects one of two fixed polynomials
Fix(len, salt, a, p) == [k \in 1..len |-> (salt + a * k * k + (a - 1) * salt * k + 1) % p]
OPolys(c) == IF PolyMode \in {"all", "most"} THEN [0..(c.V - 1) -> [1..c.T -> 0..(c.p - 1)]]
             ELSE {[v \in 0..(c.V - 1) |-> Fix(c.T, 2 * v + 1, a, c.p)] : a \in IF PolyMode = "one" THEN {1} ELSE {1, 2}}
LastDealer == IF Dealers = {} THEN 0 ELSE CHOOSE m \in Dealers : \A o \in Dealers : o <= m
DPolys(i) == IF PolyMode = "all" \/ (PolyMode = "most" /\ i # LastDealer) THEN [Vals -> [1..PolyLen(i) -> Zp]]
             ELSE {[v \in Vals |-> Fix(PolyLen(i), i + 2 * v, a, par.p)] : a \in IF PolyMode = "one" THEN {1} ELSE {1, 2}}

MCInit == /\ \E s \in MCShapes, V \in MCVs : LET c == Shape(s, V) IN \E op \in OPolys(c) : InitWith(c, op)
          /\ dups = 0
Idle == {i \in P : phase[i] = "idle"}
Stepper == {j \in P : NodeEnabled(j)}
PendDeal == {m \in P \X P \X Vals : m[1] # m[2] /\ HasDealt(m[1], m[3]) /\ <<m[1], m[3]>> \notin dealIn[m[2]]}
PendResp == {m \in P \X P \X Vals : m[1] # m[2] /\ HasResponded(m[1], m[3]) /\ <<m[1], m[3]>> \notin respIn[m[2]]}
PendShare == {m \in P \X P \X Vals : m[1] # m[2] /\ HasShared(m[1], m[3]) /\ <<m[1], m[3]>> \notin shDel[m[2]] /\ Room(m[2])}
MinTriple(S) == CHOOSE m \in S : \A o \in S : m[3] * 10000 + m[1] * 100 + m[2] <= o[3] * 10000 + o[1] * 100 + o[2]
Deliveries ==
  \/ \E m \in PendDeal : DeliverDeal(m[1], m[2], m[3]) /\ UNCHANGED dups     \* re-deliveries: stuttering (see MaxDup)
  \/ \E m \in PendResp : DeliverResp(m[1], m[2], m[3]) /\ UNCHANGED dups
  \/ \E m \in PendShare : DeliverShare(m[1], m[2], m[3]) /\ UNCHANGED dups
  \/ \E i, j \in P, v \in Vals : /\ NoneMode = "ascoded" /\ IsNone(i) /\ <<i, v>> \in shDel[j] /\ dups < MaxDup
                                 /\ DeliverShare(i, j, v) /\ dups' = dups + 1
Starts == \E i \in P : \E c \in DPolys(i) : Start(i, c) /\ UNCHANGED dups
Timeouts == Phaser /\ \E j \in P : LeaverTimeout(j) /\ UNCHANGED dups
FreeNext == Starts \/ Deliveries \/ Timeouts \/ (\E j \in P : NodeStep(j) /\ UNCHANGED dups)
EagerNext == IF Stepper # {} THEN NodeStep(Min(Stepper)) /\ UNCHANGED dups
             ELSE Starts \/ Deliveries \/ Timeouts
CanonNext == IF Stepper # {} THEN NodeStep(Min(Stepper)) /\ UNCHANGED dups
             ELSE IF Idle # {} THEN \E c \in DPolys(Min(Idle)) : Start(Min(Idle), c) /\ UNCHANGED dups
             ELSE IF PendDeal # {} THEN LET m == MinTriple(PendDeal) IN DeliverDeal(m[1], m[2], m[3]) /\ UNCHANGED dups
             ELSE IF PendResp # {} THEN LET m == MinTriple(PendResp) IN DeliverResp(m[1], m[2], m[3]) /\ UNCHANGED dups
             ELSE IF PendShare # {} THEN LET m == MinTriple(PendShare) IN DeliverShare(m[1], m[2], m[3]) /\ UNCHANGED dups
             ELSE FALSE
\* a finished ceremony stutters (all done, or refused by everybody): TLC's deadlock check then reports exactly the runs
\* that get stuck before every node has returned
Over == AllDone \/ \A j \in P : phase[j] = "failed"
MCNext == (CASE OrderMode = "free" -> FreeNext [] OrderMode = "eager" -> EagerNext [] OTHER -> CanonNext)
          \/ (Over /\ UNCHANGED mcvars)
MCSpec == MCInit /\ [][MCNext]_mcvars
\* bounded liveness: with every message delivered eventually (and the phaser running) a ceremony ends: everybody done or
\* everybody refused -- or, with a faulty input, cannot end (ReshareMC_ctl_live_lost.cfg MUST violate Terminates)
MCProgress == CASE OrderMode = "free" -> FreeNext [] OrderMode = "eager" -> EagerNext [] OTHER -> CanonNext
LiveSpec == MCInit /\ [][MCNext]_mcvars /\ WF_mcvars(MCProgress)
Terminates == <>Over
MCView == <<par, opoly, phase, cur, dpoly, dealIn, respIn, queue, shDel, seen, took, sk, res, errc, dups>>
====
