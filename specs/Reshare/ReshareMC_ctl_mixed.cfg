SPECIFICATION MCSpec
CONSTANTS Variant = "ok"
 NoneMode = "dedup"
 RmAllMode = "required"
 MCP = 5
 MCShapes = {"rm4p"}
 MCVs = {1}
 PolyMode = "one"
 OrderMode = "canon"
 MaxDup = 0
 Phaser = FALSE
INVARIANTS MixedAlwaysRecovers
VIEW MCView
CHECK_DEADLOCK TRUE
