SPECIFICATION TraceSpec
CONSTANTS Variant = "ok"
 NoneMode = "dedup"
 RmAllMode = "required"
CONSTRAINT Mark
POSTCONDITION Report
CHECK_DEADLOCK FALSE
