---- MODULE Reshare ----
(* dkg/pedersen/reshare.go (RunReshareDKG: BroadcastNodePubKeyWithShares / makeNodes, validatePubKeyShares, restoreDistKeyShare /
   restoreCommits, the classification of the participants into kyber's OldNodes / NewNodes, the compact re-indexing of a
   remove-only ceremony, validateReshareNodeCounts, the "one original node remains" check, validateThreshold, then PER
   VALIDATOR, one after the other over one shared board: a kyber share/dkg RESHARING Protocol in FastSync mode and processKey
   (new share holders) or broadcastNoneKey (leaving nodes)), its use of board.go (as specs/Pedersen: bundle de-duplication,
   the n-slot share channel, readBoardChannel's one-message-per-peer collection; an EMPTY validator public-key-share message
   = the "none key" of a leaving node is exempt from the board's de-duplication) and the part of drand/kyber share/dkg an
   honest resharing runs through: a dealer (old node holding a share) deals a polynomial of NewThreshold coefficients whose
   constant term is ITS OLD SHARE; every new node checks each deal against the dealer's commitments and against the old public
   polynomial (restored from the exchanged public shares), answers (FastSync: a success per dealer); with all responses in,
   computeResharingResult: new share = Lagrange interpolation at 0, over the FIRST OldThreshold dealers by index, of the
   shares dealt to it; a node that only leaves (old, not new) deals, never responds, and ends with a kyber error that
   RunReshareDKG ignores.

   One ceremony.  Universe 1..M of node ids: id = cluster.NodeIdx.ShareIdx = PeerIdx + 1 in config.PeerMap.  The ORIGINAL cluster
   is 1..N0 with threshold T (old sharing polynomial opoly[v] of T coefficients per validator, share of id i = opoly[v](i)).
   par.part = the PeerMap, par.holders = participants that own old shares, par.added / par.removed = the ids listed in
   ReshareConfig.AddedPeers / RemovedPeers (listed ids need not be in the PeerMap).  The four `charon alpha edit` shapes:
     reshare            part = 1..N0, added = removed = {},                       NT = T
     add-operators      part = 1..N0+k, added = N0+1..N0+k,                       NT = T
     remove-operators   part = the remaining operators (+ removed ones that still contribute: --participating-operator-enrs),
                        removed = all removed operators, added = {},              NT = 0 (default) or ceil(2n'/3)..n'-1
     replace-operator   part = 1..N0 where id r is the NEW operator (no share), added = {r}, removed = {an id outside part}, NT = T
   Algebra in the exponent over GF(p) as specs/Pedersen: Pub(x) = x, Sign(sk, h) = sk * h.

   Environment actions (a schedule):  Start(i, c)  node i enters RunReshareDKG, c[v] = the witness coefficients 2..NewT of its
   dealing polynomials; DeliverDeal / DeliverResp / DeliverShare(i, j, v): any order, any number of times.
   Node steps (deterministic): Begin (all node keys in: validations), Respond, Finish (kyber result; share message / none key
   out), Push (own entry into the share channel: a plain blocking send), Take (readBoardChannel).
   LeaverTimeout: NOT reachable while time stands still -- a leaving node that has all responses BEFORE its last deal bundle
   waits for kyber's time phaser (2 phases); the design check counts these steps in `ticks`.

   NoneMode   what the board does with a RE-DELIVERED none key: "dedup" REQUIRED (a duplicate is harmless) | "ascoded" it is
              queued again (finding GROW-RESHARE-nonekey-dup: it can fill the share channel of a slow node: that node never returns)
   RmAllMode  the "at least one original node remains" check: "required" by identity | "ascoded" by kyber index AFTER the
              compact re-indexing of the new nodes (finding GROW-RESHARE-rmall-index: spurious refusal)
   Variant    controls that MUST violate an invariant (ReshareMC_ctl_*.cfg):
     "ok" as coded | "nocompact" remove-only ceremony without re-indexing | "sumshares" new share = plain sum of the dealt
     shares (fresh-DKG result) | "newtdealers" interpolation over the first NewThreshold dealers | "oldrank" dealers interpolated
     at their rank instead of their original index | "leaverkey" a leaving node announces its old public share instead of the
     none key | "defaultnt" the configured new threshold is ignored | "noexpected" a share-less node does not compare the restored
     group key with the expected one *)
EXTENDS Integers, FiniteSets, Sequences, TLC
CONSTANTS Variant, NoneMode, RmAllMode

VARIABLES par,      \* [M, N0, part, holders, added, removed, short, badexp, T, NT, V, p] (fixed by Init)
          opoly,    \* [validator -> coefficient sequence of length T]: the old sharing (witness)
          phase,    \* node -> "idle" | "keys" | "deal" | "resp" | "wait" | "push" | "coll" | "done" | "failed"
          cur,      \* node -> validator it works on (a node that failed entering round v keeps cur = v)
          dpoly,    \* node -> [validator -> coefficients 2..NewT of its dealing polynomial] (witness, dealers only)
          dealIn,   \* node -> set of <<dealer, validator>>: deal bundles its board let through
          respIn,   \* node -> set of <<share holder, validator>>
          queue,    \* node -> the share channel: sequence of [src, v]
          shDel,    \* node -> set of <<src, validator>>: share messages delivered at least once
          seen,     \* node -> peers counted in the running collection
          took,     \* node -> [peer -> validator tag of the message counted for it]
          sk,       \* node -> [validator -> new secret share]
          res,      \* node -> [validator -> [gk, ss, ps]]: share.Share{PubKey, SecretShare, PublicShares} (new share holders)
          errc,     \* node -> set of error classes that apply to its failure
          ticks     \* number of LeaverTimeout steps (history)
vars == <<par, opoly, phase, cur, dpoly, dealIn, respIn, queue, shDel, seen, took, sk, res, errc, ticks>>

P == par.part
Vals == 0..(par.V - 1)
A == par.added \cap P
R == par.removed \cap P
O == P \ A                                   \* kyber OldNodes (kyber index = id - 1)
Nw == P \ R                                  \* kyber NewNodes
NumShares(k) == IF k \in par.holders THEN (IF k \in par.short THEN par.V - 1 ELSE par.V) ELSE 0
Senders == {k \in P : NumShares(k) > 0}      \* announce public shares with their node key; kyber Config.Share # nil
Dealers == O \cap Senders
Card(S) == Cardinality(S)
Min(S) == CHOOSE m \in S : \A o \in S : m <= o
Rank(i, S) == Card({k \in S : k < i}) + 1
Compact == par.removed # {} /\ par.added = {}              \* "len(RemovedPeers) > 0 && len(AddedPeers) == 0"
\* THE CONTRACT: the share index of a member of the new cluster = its position in the new cluster lock
ContractX(i) == IF Compact THEN Rank(i, Nw) ELSE i
\* the code: kyber new index + 1
NewX(i) == IF Compact /\ Variant # "nocompact" THEN Rank(i, Nw) ELSE i
DefaultThreshold(n) == (2 * n + 2) \div 3                   \* cluster.Threshold
NewT == IF par.NT <= 0 THEN DefaultThreshold(Card(Nw)) ELSE par.NT
LibNewT == IF Variant = "defaultnt" THEN DefaultThreshold(Card(Nw)) ELSE NewT

------------------------------------------------------------------------------------------------------------
(* algebra over GF(par.p), as in specs/Pedersen *)
Zp == 0..(par.p - 1)
Mod(a) == ((a % par.p) + par.p) % par.p
RECURSIVE Pow(_, _)
Pow(a, e) == IF e = 0 THEN 1
             ELSE IF e % 2 = 0 THEN LET h == Pow(a, e \div 2) IN Mod(h * h)
             ELSE Mod(a * Pow(a, e - 1))
Inv(a) == Pow(Mod(a), par.p - 2)
RECURSIVE EvalFrom(_, _, _)
EvalFrom(coef, x, k) == IF k > Len(coef) THEN 0 ELSE Mod(coef[k] + x * EvalFrom(coef, x, k + 1))
Eval(coef, x) == EvalFrom(coef, x, 1)
Pub(x) == x
RECURSIVE Num(_, _), Den(_, _), SumPts(_, _), SumOf(_, _), FirstK(_, _)
Num(X, xi) == IF X = {} THEN 1 ELSE LET x == CHOOSE y \in X : TRUE IN
                Mod((IF x = xi THEN 1 ELSE x) * Num(X \ {x}, xi))
Den(X, xi) == IF X = {} THEN 1 ELSE LET x == CHOOSE y \in X : TRUE IN
                Mod((IF x = xi THEN 1 ELSE x - xi) * Den(X \ {x}, xi))
Lambda(X, xi) == Mod(Num(X, xi) * Inv(Den(X, xi)))
SumPts(pts, X) == IF pts = {} THEN 0 ELSE LET q == CHOOSE r \in pts : TRUE IN
                    Mod(Lambda(X, q[1]) * q[2] + SumPts(pts \ {q}, X))
Interp(pts) == SumPts(pts, {q[1] : q \in pts})                     \* tbls RecoverPubkey / ThresholdAggregate
SumOf(S, f) == IF S = {} THEN 0 ELSE LET i == CHOOSE x \in S : TRUE IN Mod(f[i] + SumOf(S \ {i}, f))
FirstK(S, k) == IF k <= 0 \/ S = {} THEN {} ELSE LET m == Min(S) IN {m} \cup FirstK(S \ {m}, k - 1)
Sign(s, h) == Mod(s * h)
Verify(pk, h, s) == s = Mod(pk * h)
DistinctX(pts) == \A q1, q2 \in pts : q1[1] = q2[1] => q1 = q2

OldShare(v, i) == Eval(opoly[v], i)                                \* the share of original operator i
OldKey(v) == Pub(opoly[v][1])

------------------------------------------------------------------------------------------------------------
(* the refusals of RunReshareDKG -- the spec is the oracle of the case enumeration *)
ErrBoth == par.added \cap par.removed # {}                          \* "peer cannot be both added and removed"
ErrCount == \E k \in Senders : NumShares(k) # par.V                 \* validatePubKeyShares
RestoreFails == Card(Senders) < par.T                               \* RecoverPubPoly: "not enough good public shares"
ErrRm == par.removed # {} /\ Card(O) < par.T                        \* validateReshareNodeCounts
ErrAdd == par.added # {} /\ Card(Nw) <= Card(O)
ErrNoShare(i) == par.added # {} /\ i \notin A /\ i \notin Senders   \* "existing node in add operation must have shares"
ErrRmAll == par.removed # {} /\
              IF RmAllMode = "required" THEN O \cap Nw = {}
              ELSE ~ \E o \in O, w \in Nw : o = NewX(w)             \* "oldNode.Index == newNode.Index"
ErrThr == NewT < 1 \/ NewT > Card(Nw)                               \* validateThreshold
Classes(i) == (IF ErrCount THEN {"sharecount"} ELSE {}) \cup (IF RestoreFails THEN {"restore"} ELSE {})
              \cup (IF ErrRm THEN {"rmcount"} ELSE {}) \cup (IF ErrAdd THEN {"addcount"} ELSE {})
              \cup (IF ErrNoShare(i) THEN {"noshare"} ELSE {}) \cup (IF ErrRmAll THEN {"rmall"} ELSE {})
              \cup (IF ErrThr THEN {"threshold"} ELSE {})
\* a configuration as one of the four edit commands produces it: every participant that is not added owns its shares
WellFormed == /\ par.holders = P \ par.added /\ par.short = {} /\ par.badexp = {}
              /\ par.added \cap par.removed = {} /\ par.added \subseteq P
\* ... and that MUST be carried out: enough old shares take part, somebody new joins an add, an original member stays
Acceptable == /\ WellFormed /\ ~RestoreFails /\ ~ErrRm /\ ~ErrAdd /\ ~ErrThr
              /\ (par.removed # {} => O \cap Nw # {})

PolyLen(i) == IF i \in Senders /\ LibNewT >= 1 THEN LibNewT - 1 ELSE 0
PolyShape(i, c) == /\ DOMAIN c = Vals
                   /\ \A v \in Vals : c[v] \in [1..PolyLen(i) -> Zp]
ParOK(c) == /\ c.part \subseteq 1..c.M /\ c.part # {} /\ c.holders \subseteq c.part /\ c.holders \subseteq 1..c.N0
            /\ c.added \subseteq 1..c.M /\ c.removed \subseteq 1..c.M /\ c.short \subseteq c.holders
            /\ c.holders \cap c.added = {} /\ c.T >= 1 /\ c.T <= c.N0 /\ c.V >= 1 /\ c.p > c.M

InitWith(c, op) ==
  /\ par = c /\ opoly = op
  /\ phase = [i \in c.part |-> "idle"] /\ cur = [i \in c.part |-> 0]
  /\ dpoly = [i \in c.part |-> <<>>]
  /\ dealIn = [i \in c.part |-> {}] /\ respIn = [i \in c.part |-> {}]
  /\ queue = [i \in c.part |-> <<>>] /\ shDel = [i \in c.part |-> {}]
  /\ seen = [i \in c.part |-> {}] /\ took = [i \in c.part |-> <<>>]
  /\ sk = [i \in c.part |-> <<>>] /\ res = [i \in c.part |-> <<>>]
  /\ errc = [i \in c.part |-> {}] /\ ticks = 0

Running(i) == phase[i] \in {"deal", "resp", "wait", "push", "coll", "done"}
Past(i, v) == phase[i] = "failed" /\ cur[i] > v                     \* failed entering a later round
HasDealt(i, v) == i \in Dealers /\ ((Running(i) /\ cur[i] >= v) \/ Past(i, v))
HasResponded(i, v) == i \in Nw /\ (Past(i, v) \/ (Running(i) /\ (cur[i] > v \/ (cur[i] = v /\ phase[i] \in {"resp", "push", "coll", "done"}))))
HasShared(i, v) == Past(i, v) \/ (Running(i) /\ (cur[i] > v \/ (cur[i] = v /\ phase[i] \in {"push", "coll", "done"})))
\* the dealing polynomial of dealer i: constant term = its OLD share
DealPoly(i, v) == <<OldShare(v, i)>> \o dpoly[i][v]
Commit(i, v) == [k \in 1..Len(DealPoly(i, v)) |-> Pub(DealPoly(i, v)[k])]
DealtShare(i, v, j) == Eval(DealPoly(i, v), NewX(j))                \* dpriv.Eval(node.Index) = f(index + 1)
IsNone(i) == i \notin Nw /\ Variant # "leaverkey"                   \* its share message is the empty none key

\* every message on the network: <<kind, from, to, validator>>, 1 deal bundle, 2 response bundle, 4 share message
Msgs == {m \in {1} \X P \X P \X Vals : m[2] # m[3] /\ HasDealt(m[2], m[4])}
        \cup {m \in {2} \X P \X P \X Vals : m[2] # m[3] /\ HasResponded(m[2], m[4])}
        \cup {m \in {4} \X P \X P \X Vals : m[2] # m[3] /\ HasShared(m[2], m[4])}
Returned == {i \in P : phase[i] \in {"done", "failed"}}

------------------------------------------------------------------------------------------------------------
(* environment *)
Start(i, c) ==
  /\ i \in P /\ phase[i] = "idle" /\ PolyShape(i, c)
  /\ dpoly' = [dpoly EXCEPT ![i] = c]
  /\ IF ErrBoth THEN phase' = [phase EXCEPT ![i] = "failed"] /\ errc' = [errc EXCEPT ![i] = {"both"}]
     ELSE phase' = [phase EXCEPT ![i] = "keys"] /\ UNCHANGED errc
  /\ UNCHANGED <<par, opoly, cur, dealIn, respIn, queue, shDel, seen, took, sk, res, ticks>>

DeliverDeal(i, j, v) ==
  /\ i \in P /\ j \in P /\ i # j /\ v \in Vals /\ HasDealt(i, v)
  /\ dealIn' = [dealIn EXCEPT ![j] = @ \cup {<<i, v>>}]
  /\ UNCHANGED <<par, opoly, phase, cur, dpoly, respIn, queue, shDel, seen, took, sk, res, errc, ticks>>
DeliverResp(i, j, v) ==
  /\ i \in P /\ j \in P /\ i # j /\ v \in Vals /\ HasResponded(i, v)
  /\ respIn' = [respIn EXCEPT ![j] = @ \cup {<<i, v>>}]
  /\ UNCHANGED <<par, opoly, phase, cur, dpoly, dealIn, queue, shDel, seen, took, sk, res, errc, ticks>>
\* board.handleValidatorPubKeyShareMessage: "len(share) > 0 && b.dedup.isDuplicate(...)": drop; else into the n-slot channel
Room(j) == Len(queue[j]) < Card(P)
DeliverShare(i, j, v) ==
  /\ i \in P /\ j \in P /\ i # j /\ v \in Vals /\ HasShared(i, v)
  /\ IF <<i, v>> \notin shDel[j]
     THEN /\ Room(j)
          /\ queue' = [queue EXCEPT ![j] = Append(@, [src |-> i, v |-> v])]
          /\ shDel' = [shDel EXCEPT ![j] = @ \cup {<<i, v>>}]
     ELSE IF IsNone(i) /\ NoneMode = "ascoded"
     THEN /\ Room(j)
          /\ queue' = [queue EXCEPT ![j] = Append(@, [src |-> i, v |-> v])]
          /\ UNCHANGED shDel
     ELSE UNCHANGED <<queue, shDel>>
  /\ UNCHANGED <<par, opoly, phase, cur, dpoly, dealIn, respIn, seen, took, sk, res, errc, ticks>>

------------------------------------------------------------------------------------------------------------
(* node steps *)
\* a share-less node restores the old public polynomial per round and compares its constant term with the expected key
BadExpected(i, v) == i \notin Senders /\ <<i, v>> \in par.badexp /\ Variant # "noexpected"
EnterPhase(i, v) == IF BadExpected(i, v) THEN "failed" ELSE "deal"
EnterErr(i, v) == IF BadExpected(i, v) THEN {"expected"} ELSE {}

\* makeNodes: every participant has cast its node key (with its public shares); then the validations
Begin(i) ==
  /\ phase[i] = "keys" /\ \A k \in P : phase[k] # "idle"
  /\ IF Classes(i) # {}
     THEN phase' = [phase EXCEPT ![i] = "failed"] /\ errc' = [errc EXCEPT ![i] = Classes(i)]
     ELSE phase' = [phase EXCEPT ![i] = EnterPhase(i, 0)] /\ errc' = [errc EXCEPT ![i] = EnterErr(i, 0)]
  /\ UNCHANGED <<par, opoly, cur, dpoly, dealIn, respIn, queue, shDel, seen, took, sk, res, ticks>>

\* kyber startFast: "deals.Len() == oldN" (its own bundle comes back through the board) -> ProcessDeals
DealsHave(j) == {i \in O : (i = j /\ j \in Dealers) \/ <<i, cur[j]>> \in dealIn[j]}
RespsHave(j) == {i \in Nw : (i = j /\ HasResponded(j, cur[j])) \/ <<i, cur[j]>> \in respIn[j]}
\* "len(bundle.Public) != d.c.Threshold", share against commitments, "d.olddpub.Eval(DealerIndex) == pubPoly.Commit()"
DealOK(i, v, j) == /\ Len(Commit(i, v)) = LibNewT /\ Eval(Commit(i, v), NewX(j)) = Pub(DealtShare(i, v, j))
                   /\ Commit(i, v)[1] = Pub(OldShare(v, i))
Respond(j) ==
  /\ phase[j] = "deal" /\ DealsHave(j) = O
  /\ phase' = [phase EXCEPT ![j] =
        IF j \in Nw THEN (IF \A i \in O \ {j} : DealOK(i, cur[j], j) THEN "resp" ELSE "failed")
        \* a leaving node: ProcessDeals moves on silently; "resps.Len() == newN" is only examined when a response arrives
        ELSE IF RespsHave(j) = Nw THEN "wait" ELSE "resp"]
  /\ UNCHANGED <<par, opoly, cur, dpoly, dealIn, respIn, queue, shDel, seen, took, sk, res, errc, ticks>>

\* computeResharingResult: RecoverPriPoly(shares, oldT, ...): the first oldT dealers by index, at x = index + 1
NDealers == IF Variant = "newtdealers" THEN LibNewT ELSE par.T
TS == FirstK(O, NDealers)
DX(o) == IF Variant = "oldrank" THEN Rank(o, O) ELSE o
TSX == {DX(o) : o \in TS}
NewShare(j, v) == IF Variant = "sumshares" THEN SumOf(O, [o \in O |-> DealtShare(o, v, j)])
                  ELSE SumOf(TS, [o \in TS |-> Mod(Lambda(TSX, DX(o)) * DealtShare(o, v, j))])
NewGk(v) == IF Variant = "sumshares" THEN SumOf(O, [o \in O |-> Commit(o, v)[1]])
            ELSE SumOf(TS, [o \in TS |-> Mod(Lambda(TSX, DX(o)) * Commit(o, v)[1])])
\* "resps.Len() == newN" -> ProcessResponses: a new node: the result; a leaving node: an error that RunReshareDKG ignores.
\* processKey / broadcastNoneKey -> BroadcastValidatorPubKeyShare: the sends first ...
FinishEff(j) ==
  /\ LET v == cur[j] IN
       sk' = [sk EXCEPT ![j] = IF j \in Nw THEN (v :> NewShare(j, v)) @@ @ ELSE @]
  /\ phase' = [phase EXCEPT ![j] = "push"]
  /\ UNCHANGED <<par, opoly, cur, dpoly, dealIn, respIn, queue, shDel, seen, took, res, errc>>
Finish(j) == phase[j] = "resp" /\ RespsHave(j) = Nw /\ Card(TS) = NDealers /\ FinishEff(j) /\ UNCHANGED ticks
\* kyber's time phaser (JustifPhase after 2 phase durations): only this gets a waiting leaver on
LeaverTimeout(j) == phase[j] = "wait" /\ FinishEff(j) /\ ticks' = ticks + 1
\* ... then "b.valPubKeySharesCh <- own": a plain send, needs room
Push(j) ==
  /\ phase[j] = "push" /\ Room(j)
  /\ queue' = [queue EXCEPT ![j] = Append(@, [src |-> j, v |-> cur[j]])]
  /\ phase' = [phase EXCEPT ![j] = "coll"]
  /\ seen' = [seen EXCEPT ![j] = {}] /\ took' = [took EXCEPT ![j] = <<>>]
  /\ UNCHANGED <<par, opoly, cur, dpoly, dealIn, respIn, shDel, sk, res, errc, ticks>>

\* readBoardChannel: first message per peer counts, |P| distinct peers complete the collection; processKey: an empty
\* message is skipped, publicShares[config.PeerMap[peer].ShareIdx] = the received bytes
MsgEmpty(i) == IsNone(i)
MsgVal(i, v) == IF i \in Nw THEN Pub(sk[i][v]) ELSE Pub(OldShare(v, i))      \* ELSE: variant "leaverkey" only
Take(j) ==
  /\ phase[j] = "coll" /\ queue[j] # <<>>
  /\ LET m == Head(queue[j])
         v == cur[j]
         counts == m.src \notin seen[j]
         nseen == IF counts THEN seen[j] \cup {m.src} ELSE seen[j]
         ntook == IF counts THEN (m.src :> m.v) @@ took[j] ELSE took[j]
         complete == nseen = P
         keys == {i \in nseen : ~MsgEmpty(i)}
     IN /\ queue' = [queue EXCEPT ![j] = Tail(@)]
        /\ IF ~complete
           THEN /\ seen' = [seen EXCEPT ![j] = nseen] /\ took' = [took EXCEPT ![j] = ntook]
                /\ UNCHANGED <<phase, cur, res, errc>>
           ELSE /\ res' = [res EXCEPT ![j] = IF j \in Nw
                                             THEN (v :> [gk |-> NewGk(v), ss |-> sk[j][v],
                                                         ps |-> [i \in keys |-> MsgVal(i, ntook[i])]]) @@ @
                                             ELSE @]
                /\ seen' = [seen EXCEPT ![j] = {}] /\ took' = [took EXCEPT ![j] = <<>>]
                /\ IF v + 1 < par.V
                   THEN /\ phase' = [phase EXCEPT ![j] = EnterPhase(j, v + 1)] /\ cur' = [cur EXCEPT ![j] = v + 1]
                        /\ errc' = [errc EXCEPT ![j] = EnterErr(j, v + 1)]
                   ELSE phase' = [phase EXCEPT ![j] = "done"] /\ UNCHANGED <<cur, errc>>
  /\ UNCHANGED <<par, opoly, dpoly, dealIn, respIn, shDel, sk, ticks>>

NodeStep(j) == Begin(j) \/ Respond(j) \/ Finish(j) \/ Push(j) \/ Take(j)
NodeEnabled(j) == \/ phase[j] = "keys" /\ \A k \in P : phase[k] # "idle"
                  \/ phase[j] = "deal" /\ DealsHave(j) = O
                  \/ phase[j] = "resp" /\ RespsHave(j) = Nw /\ Card(TS) = NDealers
                  \/ phase[j] = "push" /\ Room(j)
                  \/ phase[j] = "coll" /\ queue[j] # <<>>
Quiet == \A j \in P : ~NodeEnabled(j)

------------------------------------------------------------------------------------------------------------
(* The contract, stated over the results of a ceremony (docs/dkg.md, the doc comments of reshare.go / protocolsteps.go:
   "runs a resharing DKG to update key shares while keeping the same public key", `charon alpha edit ...`). *)
AllDone == \A j \in P : phase[j] = "done"
SubsetsOf(S, k) == {X \in SUBSET S : Card(X) = k}
PsKeys(j, v) == DOMAIN res[j][v].ps
GkEq(v) == \A j, k \in Nw : res[j][v].gk = res[k][v].gk
PsEq(v) == \A j, k \in Nw : res[j][v].ps = res[k][v].ps
GkOld(j, v) == res[j][v].gk = OldKey(v)
Own(j, v) == j \in PsKeys(j, v) /\ Pub(res[j][v].ss) = res[j][v].ps[j]
RecPk(k, v, S) == /\ S \subseteq PsKeys(k, v)
                  /\ Interp({<<ContractX(i), res[k][v].ps[i]>> : i \in S}) = res[k][v].gk
AggSig(v, S, h) == Interp({<<ContractX(i), Sign(res[i][v].ss, h)>> : i \in S})
SigOK(v, S, h) == Verify(OldKey(v), h, AggSig(v, S, h))             \* under the PRE-reshare group key
PartialsOK(k, v, S, h) == /\ S \subseteq PsKeys(k, v)
                          /\ \A i \in S : Verify(res[k][v].ps[i], h, Sign(res[i][v].ss, h))
OldAggSig(v, S, h) == Interp({<<i, Sign(OldShare(v, i), h)>> : i \in S})
OldSigOK(v, S, h) == Verify(OldKey(v), h, OldAggSig(v, S, h))
MixedPts(v, So, Sn, h) == {<<i, Sign(OldShare(v, i), h)>> : i \in So} \cup {<<ContractX(i), Sign(res[i][v].ss, h)>> : i \in Sn}
MixedX(So, Sn) == So \cup {ContractX(i) : i \in Sn}
MixedDistinct(So, Sn) == Card(MixedX(So, Sn)) = Card(So) + Card(Sn)
MixedOK(v, So, Sn, h) == Verify(OldKey(v), h, Interp(MixedPts(v, So, Sn, h)))
\* leading coefficient of the new sharing polynomial (degree exactly NewT - 1 <=> # 0)
LeadNew(v) == SumOf(TS, [o \in TS |-> IF Len(DealPoly(o, v)) >= NewT /\ NewT >= 1
                                      THEN Mod(Lambda(TSX, DX(o)) * DealPoly(o, v)[NewT]) ELSE 0])
Hs == {1, 2}

\* (a) the group public key is UNCHANGED
GroupKeyUnchanged == \A j \in Nw : \A v \in DOMAIN res[j] : GkOld(j, v)
\* (b) every new node holds the same table, keyed by the share index of the PeerMap; its own entry matches its secret share
Agreement == \A j, k \in Nw : \A v \in DOMAIN res[j] \cap DOMAIN res[k] :
                res[j][v].gk = res[k][v].gk /\ res[j][v].ps = res[k][v].ps
KeyedByShareIdx == \A j \in Nw : \A v \in DOMAIN res[j] : PsKeys(j, v) = Nw
OwnShareMatches == AllDone => \A j, k \in Nw, v \in Vals : j \in PsKeys(k, v) /\ Pub(res[j][v].ss) = res[k][v].ps[j]
LeaversGetNothing == \A j \in P \ Nw : res[j] = <<>>
\* (c) any NewT members of the new cluster, at their positions in the new cluster, reconstruct / sign; NewT - 1 do not
AnyTRecover == AllDone => \A k \in Nw, v \in Vals : \A S \in SUBSET Nw : Card(S) >= NewT => RecPk(k, v, S)
AnyTSign == AllDone => \A v \in Vals : \A S \in SUBSET Nw : Card(S) >= NewT =>
                \A h \in Hs : SigOK(v, S, h) /\ \A k \in Nw : PartialsOK(k, v, S, h)
ThresholdIsNT == \A i \in Dealers : Running(i) => \A v \in Vals : Len(DealPoly(i, v)) = NewT
BelowThresholdSafe == AllDone /\ NewT >= 2 => \A v \in Vals : LeadNew(v) # 0 =>
                        \A S \in SubsetsOf(Nw, NewT - 1) : \A h \in Hs : ~SigOK(v, S, h)
\* (d) what holds of the OLD shares: the group key is unchanged, so ANY T old shares (removed operators included) keep
\* reconstructing it -- a reshare does not revoke them; they lie on a different polynomial than the new shares, so a
\* mixture of fewer than T old and fewer than NewT new shares is not a sharing of the key (no identity: ReshareMC_ctl_mixed)
OldSharesStillValid == (\A j \in P : phase[j] = "idle") => \A v \in Vals : \A S \in SubsetsOf(1..par.N0, par.T) : \A h \in Hs : OldSigOK(v, S, h)
MixedAlwaysRecovers == AllDone => \A v \in Vals : \A So \in SUBSET (1..par.N0), Sn \in SUBSET Nw :
                         (So # {} /\ Sn # {} /\ Card(So) < par.T /\ Card(Sn) < NewT /\ MixedDistinct(So, Sn)
                          /\ Card(So) + Card(Sn) >= NewT) => MixedOK(v, So, Sn, 1)
\* (e) all or nothing; an acceptable configuration is carried out
AllOrNothing == (\E i \in P : phase[i] = "failed") => \A k \in P : phase[k] # "done"
NoFailure == Acceptable => \A j \in P : phase[j] # "failed"
Refused == ~Acceptable /\ WellFormed => \A j \in P : phase[j] \in {"idle", "keys", "failed"}
SameVerdict == WellFormed => \A j, k \in P : ~(phase[j] = "failed" /\ phase[k] \notin {"idle", "keys", "failed"})
\* a share-less node only accepts the group key its cluster lock names
ExpectedRespected == \A j \in Nw \ Senders : \A v \in DOMAIN res[j] : <<j, v>> \notin par.badexp
NoPhaserNeeded == ticks = 0
TypeOK == /\ \A j \in P : phase[j] \in {"idle", "keys", "deal", "resp", "wait", "push", "coll", "done", "failed"}
          /\ \A j \in P : cur[j] \in Vals /\ Len(queue[j]) <= Card(P) /\ seen[j] \subseteq P
          /\ \A j \in P : DOMAIN res[j] \subseteq Vals
Safety == TypeOK /\ NoFailure /\ Refused /\ SameVerdict /\ AllOrNothing /\ GroupKeyUnchanged /\ Agreement /\ KeyedByShareIdx
          /\ OwnShareMatches /\ LeaversGetNothing /\ AnyTRecover /\ AnyTSign /\ ThresholdIsNT /\ BelowThresholdSafe
          /\ OldSharesStillValid /\ ExpectedRespected
====
