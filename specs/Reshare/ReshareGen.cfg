SPECIFICATION GenSpec
CONSTANTS Variant = "ok"
 NoneMode = "dedup"
 RmAllMode = "required"
 GenP = 11
 MinN = 3
 MaxN = 4
 MaxV = 2
 MaxRe = 3
INVARIANTS Emit
CHECK_DEADLOCK FALSE
