SPECIFICATION TraceSpec
CONSTANTS Variant = "ok"
 NoneMode = "ascoded"
 RmAllMode = "required"
CONSTRAINT Mark
POSTCONDITION Report
CHECK_DEADLOCK FALSE
