SPECIFICATION MCSpec
CONSTANTS Variant = "ok"
 NoneMode = "dedup"
 RmAllMode = "required"
 MCP = 5
 MCShapes = {"rm4", "rm4p", "reshare3t3"}
 MCVs = {1}
 PolyMode = "most"
 OrderMode = "canon"
 MaxDup = 0
 Phaser = FALSE
INVARIANTS TypeOK NoFailure Refused SameVerdict AllOrNothing GroupKeyUnchanged Agreement KeyedByShareIdx OwnShareMatches LeaversGetNothing AnyTRecover AnyTSign ThresholdIsNT BelowThresholdSafe OldSharesStillValid ExpectedRespected
VIEW MCView
CHECK_DEADLOCK TRUE
