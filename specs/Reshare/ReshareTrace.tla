---- MODULE ReshareTrace ----
(* Trace validation for pedersen.RunReshareDKG (harness/reshare).  One trace = one ceremony.  The executor logs an event only
   when every goroutine of the ceremony is blocked (testing/synctest), so the effects of a stimulus are complete:
     {"ev":"Reset","sid":k,"M","N0","part","holders","added","removed","short","badexp","T","NT","V","p",
                   "opoly":[[coef]*T per validator]   the model WITNESS of the old sharing (chosen by the schedule)
                   "nt":NewT, "newidx":[[member, share index in the new cluster]..]   what the relations were computed for}
     {"ev":"Start","i":i,"c":[[coef]*(NewT-1) per validator], OBS}   node i entered RunReshareDKG.  c = the model WITNESS
                                                                 coefficients of its dealing polynomials (dealers only)
     {"ev":"D","k":kind,"i":i,"j":j,"v":v,"found":b, OBS}       the network delivers the kind-k packet number v from i to j
                                                                 (1 deal bundle, 2 response bundle, 4 validator public-key
                                                                 share / none key; first delivery or re-delivery);
                                                                 found = the packet exists (else {"ev":"Abort"} ends the trace)
     OBS = "sent":[[kind,from,to,number]..]   the packets that appeared since the previous event
           "done":[nodes], "failed":[nodes], "errs":[class per failed node]   the nodes whose RunReshareDKG returned
     {"ev":"End","open":[nodes that have not returned]}          the schedule is over and the ceremony is not complete
     {"ev":"Check", ...}   every participant returned without error: relations computed with real tbls calls between the OLD
           key material and the results: nres (shares returned per participant), gkeq / pseq (new members agree), gkold (group
           key = the PRE-reshare key), own, pskeys, subs (EVERY subset of exactly nt new members at the share indices newidx:
           rec / psig / sig under the OLD key / same), below (nt-1 new members), olds (T OLD shares), mixed (So old + Sn new)
   The model runs the nodes eagerly (silent steps, before the next event); at every quiescent point it DEMANDS that the
   packets that appeared and the nodes that returned (with an error class that applies) are exactly the model's, and finally
   the model's value of every relation.  Latitude: a NEGATIVE relation (below, mixed) is demanded when the witness refutes it;
   the error class of a refusal is one of the classes that apply.
   ReshareTrace.cfg: the required behaviour.  ReshareTrace_dev_nonedup.cfg: NoneMode "ascoded" = the named deviation of finding
   GROW-RESHARE-nonekey-dup; ReshareTrace_dev_rmall.cfg: RmAllMode "ascoded" = finding GROW-RESHARE-rmall-index. *)
EXTENDS Reshare, TraceCommon
VARIABLES base, ret      \* the messages / returned nodes that existed before the last consumed event
tvars == <<vars, tr, l, base, ret>>
R0 == Trace[1]
Pairs(s) == {<<b[1], b[2]>> : b \in SeqToSet(s)}
ParOf(r) == [M |-> r.M, N0 |-> r.N0, part |-> SeqToSet(r.part), holders |-> SeqToSet(r.holders), added |-> SeqToSet(r.added),
             removed |-> SeqToSet(r.removed), short |-> SeqToSet(r.short), badexp |-> Pairs(r.badexp),
             T |-> r.T, NT |-> r.NT, V |-> r.V, p |-> r.p]
TraceInit == TrInit /\ InitWith(ParOf(R0), [v \in 0..(R0.V - 1) |-> R0.opoly[v + 1]]) /\ base = {} /\ ret = {}
H == 2
Stepper == {j \in P : NodeEnabled(j)}
TAuto == Stepper # {} /\ Silent /\ NodeStep(Min(Stepper)) /\ UNCHANGED <<base, ret>>
Snap == base' = Msgs /\ ret' = Returned
\* inside an action TLC explores BOTH disjuncts of CheckInv's "pred \/ InvFail(name)": IF evaluates one branch only
Rel(name, pred) == IF pred THEN TRUE ELSE InvFail(name)
TReset == /\ IsEvent("Reset") /\ l = 1 /\ UNCHANGED <<vars, base, ret>>
          /\ Rel("Reset.par", ParOK(par) /\ Len(R0.opoly) = par.V /\ \A v \in Vals : opoly[v] \in [1..par.T -> Zp])
          /\ Rel("Reset.nt", R0.nt = NewT)
          /\ Rel("Reset.newidx", Pairs(R0.newidx) = {<<i, ContractX(i)>> : i \in Nw})
TStart == /\ IsEvent("Start") /\ Quiet /\ Ev.i \in P /\ Len(Ev.c) = par.V
          /\ Start(Ev.i, [v \in Vals |-> Ev.c[v + 1]]) /\ Snap
Exists(k, i, v) == CASE k = 1 -> HasDealt(i, v) [] k = 2 -> HasResponded(i, v) [] OTHER -> HasShared(i, v)
TD == /\ IsEvent("D") /\ Quiet /\ Ev.i \in P /\ Ev.j \in P /\ Ev.v \in Vals /\ Ev.k \in {1, 2, 4}
      /\ Rel("D.found", Ev.found = Exists(Ev.k, Ev.i, Ev.v))
      /\ IF ~Ev.found THEN UNCHANGED vars
         ELSE CASE Ev.k = 1 -> DeliverDeal(Ev.i, Ev.j, Ev.v)
                [] Ev.k = 2 -> DeliverResp(Ev.i, Ev.j, Ev.v)
                [] OTHER -> DeliverShare(Ev.i, Ev.j, Ev.v)
      /\ Snap
\* the schedule names a packet that does not exist (and the model agrees): the executor stops.  Only a schedule written for the
\* required behaviour and validated against a deviation gets here (a probe of a finding after the point where they part)
TAbort == /\ IsEvent("Abort") /\ l = TLen /\ l > 2 /\ Trace[l - 1].ev = "D" /\ ~Trace[l - 1].found
          /\ UNCHANGED <<vars, base, ret>>
TEnd == /\ IsEvent("End") /\ l = TLen /\ Quiet /\ ~AllDone /\ UNCHANGED <<vars, base, ret>>
        /\ Rel("End.open", SeqToSet(Ev.open) = P \ Returned)
Rows(s) == {s[x].j : x \in DOMAIN s}
TCheck == /\ IsEvent("Check") /\ l = TLen /\ Quiet /\ AllDone /\ UNCHANGED <<vars, base, ret>>
          /\ Len(Ev.gkeq) = par.V /\ Len(Ev.pseq) = par.V
          /\ Rel("Check.nres", /\ {x[1] : x \in SeqToSet(Ev.nres)} = P
                               /\ \A x \in SeqToSet(Ev.nres) : x[2] = IF x[1] \in Nw THEN par.V ELSE 0)
          /\ Rel("Check.gkeq", \A v \in Vals : Ev.gkeq[v + 1] = GkEq(v))
          /\ Rel("Check.pseq", \A v \in Vals : Ev.pseq[v + 1] = PsEq(v))
          /\ Rows(Ev.gkold) = Nw /\ Rows(Ev.own) = Nw /\ Rows(Ev.pskeys) = Nw
          /\ Rel("Check.gkold", \A x \in DOMAIN Ev.gkold : Len(Ev.gkold[x].r) = par.V /\
                                   \A v \in Vals : Ev.gkold[x].r[v + 1] = GkOld(Ev.gkold[x].j, v))
          /\ Rel("Check.own", \A x \in DOMAIN Ev.own : Len(Ev.own[x].r) = par.V /\
                                   \A v \in Vals : Ev.own[x].r[v + 1] = Own(Ev.own[x].j, v))
          /\ Rel("Check.pskeys", \A x \in DOMAIN Ev.pskeys : Len(Ev.pskeys[x].k) = par.V /\
                                   \A v \in Vals : SeqToSet(Ev.pskeys[x].k[v + 1]) = PsKeys(Ev.pskeys[x].j, v))
          \* every validator was examined: over ALL subsets of exactly NewT new members (the executor lists up to 30)
          /\ Rel("Check.allsubsets", Card(SubsetsOf(Nw, NewT)) <= 30 => \A v \in Vals :
                  {SeqToSet(Ev.subs[x].S) : x \in {y \in DOMAIN Ev.subs : Ev.subs[y].v = v}} = SubsetsOf(Nw, NewT))
          /\ Rel("Check.somebelow", NewT >= 2 => \A v \in Vals : \E x \in DOMAIN Ev.below : Ev.below[x].v = v)
          /\ Rel("Check.someold", \A v \in Vals : \E x \in DOMAIN Ev.olds : Ev.olds[x].v = v)
          /\ Rel("Check.somemixed", (par.T >= 2 /\ NewT >= 2 /\ \E i \in 1..par.N0, k \in Nw : i # ContractX(k)) =>
                                       \A v \in Vals : \E x \in DOMAIN Ev.mixed : Ev.mixed[x].v = v)
          /\ \A x \in DOMAIN Ev.subs :
               LET e == Ev.subs[x]  S == SeqToSet(e.S)  k == e.k
                   x0 == CHOOSE y \in DOMAIN Ev.subs : Ev.subs[y].v = e.v /\ \A z \in DOMAIN Ev.subs : Ev.subs[z].v = e.v => y <= z
               IN /\ e.v \in Vals /\ S \subseteq Nw /\ Card(S) = NewT /\ Len(e.S) = NewT /\ k \in S
                  /\ Rel("Check.rec", e.rec = RecPk(k, e.v, S))
                  /\ Rel("Check.psig", e.psig = PartialsOK(k, e.v, S, H))
                  /\ Rel("Check.sig", e.sig = SigOK(e.v, S, H))
                  /\ Rel("Check.same", e.same = (AggSig(e.v, S, H) = AggSig(e.v, SeqToSet(Ev.subs[x0].S), H)))
          /\ \A x \in DOMAIN Ev.below :
               LET e == Ev.below[x]  S == SeqToSet(e.S)
               IN /\ e.v \in Vals /\ S \subseteq Nw /\ Card(S) = NewT - 1 /\ Len(e.S) = NewT - 1
                  /\ Rel("Check.below", SigOK(e.v, S, H) \/ ~e.sig)
          /\ \A x \in DOMAIN Ev.olds :
               LET e == Ev.olds[x]  S == SeqToSet(e.S)
               IN /\ e.v \in Vals /\ S \subseteq 1..par.N0 /\ Card(S) = par.T /\ Len(e.S) = par.T
                  /\ Rel("Check.olds", e.sig = OldSigOK(e.v, S, H))
          /\ \A x \in DOMAIN Ev.mixed :
               LET e == Ev.mixed[x]  So == SeqToSet(e.So)  Sn == SeqToSet(e.Sn)
               IN /\ e.v \in Vals /\ So \subseteq 1..par.N0 /\ Sn \subseteq Nw /\ So # {} /\ Sn # {}
                  /\ Card(So) < par.T /\ Card(Sn) < NewT /\ MixedDistinct(So, Sn)
                  /\ Rel("Check.mixed", MixedOK(e.v, So, Sn, H) \/ ~e.sig)
TraceNext == TReset \/ TAuto \/ TStart \/ TD \/ TAbort \/ TEnd \/ TCheck
TraceSpec == TraceInit /\ [][TraceNext]_tvars
\* the observations of the last consumed event, demanded when the model has run to quiescence
Prev == Trace[l - 1]
AsMsgs(s) == {<<m[1], m[2], m[3], m[4]>> : m \in SeqToSet(s)}
ObsDue == l > 1 /\ Prev.ev \in {"Start", "D"} /\ Quiet
Obs == ObsDue => /\ CheckInv("sent", AsMsgs(Prev.sent) = Msgs \ base)
                 /\ CheckInv("done", SeqToSet(Prev.done) = {i \in Returned \ ret : phase[i] = "done"})
                 /\ CheckInv("failed", SeqToSet(Prev.failed) = {i \in Returned \ ret : phase[i] = "failed"})
                 /\ CheckInv("errs", Len(Prev.errs) = Len(Prev.failed) /\
                                     \A x \in DOMAIN Prev.failed : Prev.failed[x] \in P /\ Prev.errs[x] \in errc[Prev.failed[x]])
                 /\ (AllDone => l = TLen /\ Ev.ev = "Check")              \* a completed ceremony is examined
                 /\ (l = TLen + 1 => FALSE)                                \* a trace ends with End or Check
Mark == /\ CheckInv("TypeOK", TypeOK) /\ CheckInv("AllOrNothing", AllOrNothing) /\ CheckInv("SameVerdict", SameVerdict)
        /\ CheckInv("GroupKeyUnchanged", GroupKeyUnchanged) /\ CheckInv("Agreement", Agreement)
        /\ CheckInv("KeyedByShareIdx", KeyedByShareIdx) /\ CheckInv("OwnShareMatches", OwnShareMatches)
        /\ CheckInv("LeaversGetNothing", LeaversGetNothing) /\ CheckInv("ThresholdIsNT", ThresholdIsNT)
        /\ CheckInv("ExpectedRespected", ExpectedRespected)
        /\ (RmAllMode = "required" => CheckInv("NoFailure", NoFailure) /\ CheckInv("Refused", Refused))
        /\ Obs
        /\ (Quiet => HWMark)       \* an event counts as consumed when its observations have been confirmed
====
