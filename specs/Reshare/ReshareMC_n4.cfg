SPECIFICATION MCSpec
CONSTANTS Variant = "ok"
 NoneMode = "dedup"
 RmAllMode = "required"
 MCP = 5
 MCShapes = {"rm4p", "add3"}
 MCVs = {1}
 PolyMode = "one"
 OrderMode = "eager"
 MaxDup = 0
 Phaser = TRUE
INVARIANTS TypeOK NoFailure Refused SameVerdict AllOrNothing GroupKeyUnchanged Agreement KeyedByShareIdx OwnShareMatches LeaversGetNothing AnyTRecover AnyTSign ThresholdIsNT BelowThresholdSafe OldSharesStillValid ExpectedRespected
VIEW MCView
CHECK_DEADLOCK TRUE
