SPECIFICATION LiveSpec
CONSTANTS Variant = "ok"
 NoneMode = "dedup"
 RmAllMode = "required"
 MCP = 5
 MCShapes = {"lost"}
 MCVs = {1}
 PolyMode = "one"
 OrderMode = "eager"
 MaxDup = 0
 Phaser = TRUE
INVARIANTS TypeOK
PROPERTIES Terminates
CHECK_DEADLOCK FALSE
