SPECIFICATION MCSpec
CONSTANTS Variant = "leaverkey"
 NoneMode = "dedup"
 RmAllMode = "required"
 MCP = 5
 MCShapes = {"rm4p"}
 MCVs = {1}
 PolyMode = "one"
 OrderMode = "canon"
 MaxDup = 0
 Phaser = FALSE
INVARIANTS TypeOK NoFailure Refused SameVerdict AllOrNothing GroupKeyUnchanged Agreement KeyedByShareIdx OwnShareMatches LeaversGetNothing AnyTRecover AnyTSign ThresholdIsNT BelowThresholdSafe OldSharesStillValid ExpectedRespected
VIEW MCView
CHECK_DEADLOCK TRUE
