SPECIFICATION MCSpec
CONSTANTS Variant = "ok"
 NoneMode = "dedup"
 RmAllMode = "required"
 MCP = 7
 MCShapes = {"reshare3", "reshare3t3", "add3", "add2", "rm4", "rm4t2", "rm4p", "rm3p", "rm4pp", "repl3", "repl4", "rmfew", "rmall", "repl3t3", "addswap", "ntbig", "both"}
 MCVs = {1, 2}
 PolyMode = "one"
 OrderMode = "canon"
 MaxDup = 0
 Phaser = FALSE
INVARIANTS TypeOK NoFailure Refused SameVerdict AllOrNothing GroupKeyUnchanged Agreement KeyedByShareIdx OwnShareMatches LeaversGetNothing AnyTRecover AnyTSign ThresholdIsNT BelowThresholdSafe OldSharesStillValid ExpectedRespected NoPhaserNeeded
CHECK_DEADLOCK TRUE
