SPECIFICATION MCSpec
CONSTANTS Variant = "ok"
 NoneMode = "ascoded"
 RmAllMode = "required"
 MCP = 5
 MCShapes = {"rm3p"}
 MCVs = {2}
 PolyMode = "one"
 OrderMode = "eager"
 MaxDup = 1
 Phaser = TRUE
INVARIANTS TypeOK NoFailure Refused SameVerdict AllOrNothing GroupKeyUnchanged Agreement KeyedByShareIdx OwnShareMatches LeaversGetNothing AnyTRecover AnyTSign ThresholdIsNT BelowThresholdSafe OldSharesStillValid ExpectedRespected
VIEW MCView
CHECK_DEADLOCK FALSE
