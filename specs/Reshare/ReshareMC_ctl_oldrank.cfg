SPECIFICATION MCSpec
CONSTANTS Variant = "oldrank"
 NoneMode = "dedup"
 RmAllMode = "required"
 MCP = 7
 MCShapes = {"rm4"}
 MCVs = {1}
 PolyMode = "one"
 OrderMode = "canon"
 MaxDup = 0
 Phaser = FALSE
INVARIANTS TypeOK NoFailure Refused SameVerdict AllOrNothing GroupKeyUnchanged Agreement KeyedByShareIdx OwnShareMatches LeaversGetNothing AnyTRecover AnyTSign ThresholdIsNT BelowThresholdSafe OldSharesStillValid ExpectedRespected
VIEW MCView
CHECK_DEADLOCK TRUE
