SPECIFICATION MCSpec
CONSTANTS Variant = "ok"
 NoneMode = "dedup"
 RmAllMode = "required"
 MCP = 5
 MCShapes = {"rm3p", "repl3", "add2", "reshare3"}
 MCVs = {1, 2}
 PolyMode = "one"
 OrderMode = "eager"
 MaxDup = 0
 Phaser = TRUE
INVARIANTS TypeOK NoFailure Refused SameVerdict AllOrNothing GroupKeyUnchanged Agreement KeyedByShareIdx OwnShareMatches LeaversGetNothing AnyTRecover AnyTSign ThresholdIsNT BelowThresholdSafe OldSharesStillValid ExpectedRespected
VIEW MCView
CHECK_DEADLOCK TRUE
