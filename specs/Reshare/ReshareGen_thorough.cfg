SPECIFICATION GenSpec
CONSTANTS Variant = "ok"
 NoneMode = "dedup"
 RmAllMode = "required"
 GenP = 11
 MinN = 3
 MaxN = 5
 MaxV = 2
 MaxRe = 4
INVARIANTS Emit
CHECK_DEADLOCK FALSE
