---- MODULE ReshareGen ----
(* Schedule generation: behaviours of the design spec recorded in the history variable `hist`: the ceremony's configuration
   (one of the four edit shapes over an original cluster of MinN..MaxN operators; p = the field of the model witness, opoly =
   the witness of the old sharing) and the ENVIRONMENT's moves -- which node starts when (with the model coefficients of its
   dealing polynomials: a witness only the trace spec uses, the real node draws its own), which message the network delivers
   when, first deliveries and re-deliveries.  Nodes run eagerly.  Re-deliveries generated here are the ones on which the
   required behaviour and the code as written agree (any bundle, any key at any time: dropped by the board; a none key while
   the receiver still collects that validator and has counted the sender, or after the receiver returned); a leaver is never
   handed its last response before its last deal (it would wait for kyber's time phaser: a dedicated probe of
   checks/grow_reshare.py, like the re-deliveries that tell required and as-coded apart).
   Run with -simulate (the polynomials are drawn with RandomElement). *)
EXTENDS Reshare, Json
CONSTANTS GenP, MinN, MaxN, MaxV, MaxRe
VARIABLES hist, nre
Cfg(M, N0, part, holders, added, removed, T, NT, V) ==
  [M |-> M, N0 |-> N0, part |-> part, holders |-> holders, added |-> added, removed |-> removed, short |-> {}, badexp |-> {},
   T |-> T, NT |-> NT, V |-> V, p |-> GenP]
Dflt(n) == (2 * n + 2) \div 3
Shapes(V) ==
  UNION {
    {Cfg(n, n, 1..n, 1..n, {}, {}, t, t, V)} \cup                                                         \* reshare
    {Cfg(n, n, 1..n, 1..n, {}, {}, t, nt, V) : nt \in 1..n} \cup                                          \* ... to another threshold
    {Cfg(n + k, n, 1..(n + k), 1..n, (n + 1)..(n + k), {}, t, t, V) : k \in {x \in 1..2 : n + x <= MaxN + 1}} \cup   \* add
    {Cfg(n, n, (1..n) \ {g}, (1..n) \ {g}, {}, {g}, t, 0, V) : g \in {x \in 1..n : t <= n - 1}} \cup      \* remove, g stays away
    {Cfg(n, n, 1..n, 1..n, {}, {g}, t, 0, V) : g \in 1..n} \cup                                           \* remove, g contributes
    {Cfg(n, n, (1..n) \ {g}, (1..n) \ {g}, {}, {g, h}, t, 0, V) : g \in {x \in 1..n : t <= n - 1}, h \in {x \in 1..n : n >= 4}} \cup
    {Cfg(n + 1, n, 1..n, (1..n) \ {r}, {r}, {n + 1}, t, t, V) : r \in {x \in 1..n : t <= n - 1}}         \* replace
    : n \in MinN..MaxN, t \in 2..MaxN}
Good(c) == c.T <= c.N0 /\ c.added \cap c.removed = {} /\ ParOK(c)
AsSeqV(f, V) == [v \in 1..V |-> f[v - 1]]
GenInit == \E V \in 1..MaxV : \E c \in {x \in Shapes(V) : Good(x)} :
             LET op == [v \in 0..(V - 1) |-> [k \in 1..c.T |-> RandomElement(0..(GenP - 1))]] IN
             /\ InitWith(c, op)
             /\ hist = <<[ev |-> "Cfg", M |-> c.M, N0 |-> c.N0, part |-> c.part, holders |-> c.holders, added |-> c.added,
                          removed |-> c.removed, short |-> {}, badexp |-> {}, T |-> c.T, NT |-> c.NT, V |-> V, p |-> GenP,
                          opoly |-> AsSeqV(op, V), shape |-> "tlc"]>>
             /\ nre = 0
RandPoly(i) == [v \in Vals |-> [k \in 1..PolyLen(i) |-> RandomElement(Zp)]]
Stepper == {j \in P : NodeEnabled(j)}
D(k, i, j, v) == [ev |-> "D", k |-> k, i |-> i, j |-> j, v |-> v]
\* the last response for a leaver whose deals are not complete
Waits(i, j, v) == /\ j \notin Nw /\ cur[j] = v /\ phase[j] = "deal" /\ DealsHave(j) # O
                  /\ {k \in Nw : <<k, v>> \in respIn[j]} \cup {i} = Nw
EnvNext ==
  \/ \E i \in P : LET c == RandPoly(i) IN Start(i, c) /\ hist' = Append(hist, [ev |-> "Start", i |-> i, c |-> AsSeqV(c, par.V)]) /\ UNCHANGED nre
  \/ \E i, j \in P, v \in Vals :
       /\ DeliverDeal(i, j, v) /\ hist' = Append(hist, D(1, i, j, v))
       /\ IF <<i, v>> \in dealIn[j] THEN nre < MaxRe /\ nre' = nre + 1 ELSE UNCHANGED nre
  \/ \E i, j \in P, v \in Vals :
       /\ DeliverResp(i, j, v) /\ ~Waits(i, j, v) /\ hist' = Append(hist, D(2, i, j, v))
       /\ IF <<i, v>> \in respIn[j] THEN nre < MaxRe /\ nre' = nre + 1 ELSE UNCHANGED nre
  \/ \E i, j \in P, v \in Vals :
       /\ DeliverShare(i, j, v) /\ hist' = Append(hist, D(4, i, j, v))
       /\ IF <<i, v>> \in shDel[j]
          THEN /\ nre < MaxRe /\ nre' = nre + 1
               /\ \/ ~IsNone(i)
                  \/ phase[j] = "coll" /\ cur[j] = v /\ i \in seen[j] /\ Room(j)
                  \/ phase[j] = "done" /\ Len(queue[j]) < Card(P) - 1
          ELSE UNCHANGED nre
GenNext == IF Stepper # {} THEN NodeStep(Min(Stepper)) /\ UNCHANGED <<hist, nre>> ELSE EnvNext
GenSpec == GenInit /\ [][GenNext]_<<vars, hist, nre>>
\* the contract's new threshold and share indices travel with the schedule (the trace spec recomputes them)
Final == <<[hist[1] EXCEPT !.ev = "Cfg"] @@ [nt |-> NewT, newidx |-> {<<i, ContractX(i)>> : i \in Nw}]>> \o Tail(hist)
Emit == ~(AllDone /\ Quiet) \/ PrintT("@@SCHED@@" \o ToJson(Final))
====
