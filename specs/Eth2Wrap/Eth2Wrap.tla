---- MODULE Eth2Wrap ----
(* Growth family Eth2Wrap: the parts of app/eth2wrap that specs/DutiesCache and specs/MultiClient do not cover --
     Eth2WrapSynth   synthproposer.go  synthetic proposer duties, synthetic proposals, their cache
     Eth2WrapLazy    lazy.go           the client that connects on first use
     Eth2WrapVal     cache.go          the ValidatorCache
   Three independent components (in charon they are stacked: synthWrapper over multi over lazy over the http adapter whose
   ActiveValidators is ValidatorCache.GetByHead; none of them relies on more than the eth2wrap.Client interface of the
   next).  Each has its own variables, actions and contract; this module puts them side by side: a step is a step of one
   component. *)
EXTENDS Eth2WrapSynth, Eth2WrapLazy, Eth2WrapVal
vars == <<svars, lvars, vvars>>
Init == SInit /\ LInit /\ VInit
SOnly == UNCHANGED <<lvars, vvars>>
LOnly == UNCHANGED <<svars, vvars>>
VOnly == UNCHANGED <<svars, lvars>>
====
