---- MODULE Eth2WrapGen ----
(* Schedule generation: behaviours of the design spec of one component (Mode); the ENVIRONMENT's moves are recorded in the
   history variable `hist` -- calls with their arguments, what the wrapped client / the connect function / the beacon node
   answers, cancellations, ticks of the clock, a caller scribbling over the duties it got.  What the implementation does
   in between is the implementation's business.  The environment moves at quiescent moments only (that is what the
   executor can reproduce: synctest.Wait() in S and L, "a call is at the beacon node or nothing is under way" in V).
   Calls are made in the order of their numbers.  Run with -simulate; checks/grow_eth2wrapx.py turns a history into a
   schedule almost one to one. *)
EXTENDS Eth2Wrap, Json
CONSTANTS Mode, GenLen, GSPE
VARIABLES hist
Rec(e) == hist' = Append(hist, e)
Keep == UNCHANGED hist

\* ----- S ------------------------------------------------------------------------------------------------------------
GVals == {1, 2, 3, 5, 6}
GEpochs == {1, 2, 3}
GSlots == {e * GSPE + k : e \in GEpochs, k \in 0..(GSPE - 1)}
GVers == {"phase0", "altair", "bellatrix", "capella", "deneb", "electra", "fulu"}
GGraffiti == {SynthGraffiti, "real", "SYNTHETIC BLOCK: DO NOT SUBMIT!", "SYNTHETIC BLOCK: DO NOT SUBMI", ""}
GFees == {[v \in {1} |-> 7], [v \in {2, 3} |-> 8], [v \in {5, 6} |-> 9], [v \in {1, 2, 3} |-> 4]}
GArgs == LET B(n) == {[NoArgs EXCEPT !.n = n, !.op = op, !.epoch = e] : op \in {"duties", "dutiesc"}, e \in GEpochs}
                     \cup {[NoArgs EXCEPT !.n = n, !.op = "proposal", !.slot = s] : s \in GSlots}
                     \cup {[NoArgs EXCEPT !.n = n, !.op = op, !.g = g, !.ver = v] : op \in {"submit", "submitb"}, g \in GGraffiti, v \in GVers}
                     \cup {[NoArgs EXCEPT !.n = n, !.op = "prep", !.fees = f] : f \in GFees}
         IN UNION {B(n) : n \in Nodes}
GValSets == {[v \in S |-> v] : S \in {{1, 2, 3}, {1, 3, 5}, {1, 2, 3, 5, 6}, {2, 6}, {1, 5}}}
GDuty(v, s) == [v |-> v, slot |-> s, pk |-> v]
GSl(e) == {e * GSPE + k : k \in 0..(GSPE - 1)}
GReal(e, idx) == {<<>>} \cup {<<GDuty(v, s)>> : v \in idx, s \in GSl(e)}
                        \cup {<<GDuty(p[1], p[3]), GDuty(p[2], p[4])>> : p \in {q \in idx \X idx \X GSl(e) \X GSl(e) : q[1] # q[2] /\ q[3] # q[4]}}
GBlocks == {[ver |-> v, tok |-> 7, ntx |-> n] : v \in GVers \cup {"unknown"}, n \in {0, 9, 25, 40}}
GAnswers(c) ==
  LET k == ss[c].req.k
      err == {[NoAnsS EXCEPT !.how = "err"]} IN
  CASE k = "vals" -> {[NoAnsS EXCEPT !.how = "ok", !.vals = A] : A \in GValSets} \cup err
    [] k = "duties" -> {[NoAnsS EXCEPT !.how = "ok", !.duties = R] : R \in GReal(ss[c].req.epoch, ss[c].req.idx)} \cup err
    [] k = "spec" -> {[NoAnsS EXCEPT !.how = "ok", !.spe = GSPE]} \cup err \cup {[NoAnsS EXCEPT !.how = "zero"]}
    [] k = "block" -> {[NoAnsS EXCEPT !.how = "ok", !.blk = b] : b \in GBlocks} \cup {[NoAnsS EXCEPT !.how = "404"], [NoAnsS EXCEPT !.how = "500"]} \cup err
    [] k = "prop" -> {[NoAnsS EXCEPT !.how = "ok", !.tok = 5]} \cup err
    [] OTHER -> {[NoAnsS EXCEPT !.how = "ok"]} \cup err
\* errors are rarer than answers
Few(S) == IF S = {} THEN {} ELSE {RandomElement(S), RandomElement(S), RandomElement(S)}
GPick(c) == LET A == GAnswers(c)  ok == {a \in A : a.how = "ok"} IN Few(IF RandomElement(1..4) = 1 THEN A ELSE ok)
SNextCall == CHOOSE c \in SCalls \cup {0} : IF \E d \in SCalls : ss[d].pc = "idle"
                                                THEN c \in SCalls /\ ss[c].pc = "idle" /\ \A d \in SCalls : ss[d].pc = "idle" => c <= d ELSE c = 0
SGen == \/ /\ SQuiet /\ SNextCall # 0
           /\ \E a \in Few(GArgs) : SCall(SNextCall, a) /\ Rec([ev |-> "Call", c |-> SNextCall, a |-> a])
        \/ \E c \in SCalls : /\ SQuiet /\ ss[c].pc = "wait"
                             /\ \E ans \in GPick(c) : SAnswer(c, ans) /\ Rec([ev |-> "Ans", c |-> c, ans |-> ans])
        \/ \E c \in SCalls : SQuiet /\ ss[c].res.kind = "duties" /\ SScribble(c) /\ Rec([ev |-> "Scribble", c |-> c])
        \/ \E c \in SCalls : SInternal(c) /\ Keep

\* ----- L ------------------------------------------------------------------------------------------------------------
LNextCall == CHOOSE c \in LCalls \cup {0} : IF \E d \in LCalls : ls[d].pc = "idle"
                                                THEN c \in LCalls /\ ls[c].pc = "idle" /\ \A d \in LCalls : ls[d].pc = "idle" => c <= d ELSE c = 0
GLOps == ClientOps \cup SyncOps \cup SetOps
LSetterFree == \A d \in LCalls : ls[d].pc \notin {"set1", "set2"}
LGen == \/ /\ LQuiet /\ LNextCall # 0
           /\ \E op \in GLOps, t \in 1..3 : LCall(LNextCall, op, IF op \in SetOps THEN t ELSE 0)
                                             /\ Rec([ev |-> "Call", c |-> LNextCall, op |-> op, tok |-> IF op \in SetOps THEN t ELSE 0])
        \/ \E c \in LCalls, how \in {"ok", "ok", "err", "errcl"} : LQuiet /\ LProvAnswer(c, how) /\ Rec([ev |-> "PAns", c |-> c, how |-> how])
        \/ \E c \in LCalls : LQuiet /\ ls[c].op \in ClientOps /\ ls[c].pc \notin {"done", "ret"} /\ LCancel(c) /\ Rec([ev |-> "Cancel", c |-> c])
        \/ \E c \in LCalls : LQuiet /\ LSelTick(c) /\ Rec([ev |-> "Tick"])
        \/ \E c \in LCalls : (LInternal(c) /\ ~LSelTick(c)) /\ Keep

\* ----- V ------------------------------------------------------------------------------------------------------------
VNextCall == CHOOSE c \in VCalls \cup {0} : IF \E d \in VCalls : vs[d].pc = "idle"
                                                THEN c \in VCalls /\ vs[c].pc = "idle" /\ \A d \in VCalls : vs[d].pc = "idle" => c <= d ELSE c = 0
GStatuses == {"pending_initialized", "pending_queued", "active_ongoing", "active_exiting", "active_slashed", "exited_unslashed",
              "exited_slashed", "withdrawal_possible", "withdrawal_done"}
GVal(i, st) == [i |-> i, pk |-> i, st |-> st]
GVSets == {{GVal(1, a), GVal(2, b), GVal(3, c)} : a \in GStatuses, b \in {"active_ongoing", "pending_queued"}, c \in {"active_exiting", "exited_unslashed"}}
            \cup {{GVal(1, a)} : a \in GStatuses} \cup {{}}
GVAns == {[how |-> "ok", vals |-> S] : S \in GVSets} \cup {[how |-> "err", vals |-> {}], [how |-> "nilmap", vals |-> {}], [how |-> "nilval", vals |-> {}]}
GVPick == Few(IF RandomElement(1..3) = 1 THEN GVAns ELSE {a \in GVAns : a.how = "ok"})
VGen == \/ /\ VQuiet /\ VNextCall # 0
           /\ \E op \in {"head", "head", "slot", "trim"}, sl \in {5, 64} :
                 VCall(VNextCall, op, IF op = "slot" THEN sl ELSE 0) /\ Rec([ev |-> "Call", c |-> VNextCall, op |-> op, slot |-> IF op = "slot" THEN sl ELSE 0])
        \/ \E c \in VCalls : VQuiet /\ \E a \in GVPick : VAnswer(c, a) /\ Rec([ev |-> "Ans", c |-> c, how |-> a.how, vals |-> a.vals])
        \/ \E c \in VCalls : VInternal(c) /\ Keep

GenNext == (Mode = "S" /\ SGen /\ SOnly) \/ (Mode = "L" /\ LGen /\ LOnly) \/ (Mode = "V" /\ VGen /\ VOnly)
GenSpec == Init /\ hist = <<>> /\ [][GenNext]_<<vars, hist>>
AllDone == CASE Mode = "S" -> \A c \in SCalls : ss[c].pc = "ret"
             [] Mode = "L" -> \A c \in LCalls : ls[c].pc = "ret"
             [] OTHER -> \A c \in VCalls : vs[c].pc = "ret"
Emit == (Len(hist) < GenLen /\ ~AllDone) \/ Len(hist) = 0 \/ PrintT("@@SCHED@@" \o ToJson(hist))
Stop == Len(hist) <= GenLen
====
