#!/usr/bin/env python3
"""writes the Eth2WrapMC_*.cfg files of this directory (they are kept as static files; this script only saves typing):
   python3 mkcfg.py"""
import os, sys
D = os.path.dirname(os.path.abspath(__file__))
BASE = dict(Nodes="{1}", SCalls="{1}", MaxCached="1", DevRealClash="FALSE", DevOrder="FALSE", DevAliased="FALSE", DevLookup="FALSE",
            SDefect='"none"', LCalls="{1}", MaxProv="1", LDefect='"none"', DevDutiesCacheLost="FALSE", VCalls="{1}", VDefect='"none"',
            Mode='"S"', MCSPE="2", MCEpochs="<- E0", MCSlots="{1}", MCSOps="<- OpsDuties", MCValSets="<- A123", MCMaxReal="0",
            MCBlocks="<- Blk1", MCErrs="FALSE", MCScribble="FALSE", MCGraffiti="<- GBoth", MCVers="<- VCap",
            MCLOps="<- LOpsConn", MCToks="<- T1", MCProvAns="<- PAOk", MCCancel="FALSE", MCVOps="<- VOpsAll", MCVAns="<- VAOk")
ASCODED = dict(DevRealClash="TRUE", DevOrder="TRUE", DevAliased="TRUE", DevLookup="TRUE", DevDutiesCacheLost="TRUE")

def write(name, over, invs=("Safety",), props=(), spec="MCSpec", constraint="Ordered", extra=""):
    c = dict(BASE); c.update(over)
    lines = ["SPECIFICATION " + spec, "CONSTANTS"]
    for k, v in c.items():
        lines.append(" %s %s" % (k, v if v.startswith("<-") else "= " + v))
    if invs:
        lines.append("INVARIANTS " + " ".join(invs))
    if props:
        lines.append("PROPERTIES " + " ".join(props))
    if constraint:
        lines.append("CONSTRAINT " + constraint)
    lines.append("CHECK_DEADLOCK FALSE")
    if extra:
        lines.append(extra)
    open(os.path.join(D, name + ".cfg"), "w").write("\n".join(lines) + "\n")

S_DUT = dict(Nodes="{1, 2}", SCalls="{1, 2, 3}", MCEpochs="<- E0", MCValSets="<- A123", MCMaxReal="1", MCScribble="TRUE", MaxCached="1")
S_DUT2 = dict(Nodes="{1}", SCalls="{1, 2, 3}", MCEpochs="<- E01", MCValSets="<- A123or13", MCMaxReal="0", MaxCached="1")
S_ROUTE = dict(SCalls="{1, 2, 3}", MCSOps="<- OpsDP", MCEpochs="<- E12", MCSlots="{3, 5}", MCValSets="<- A12", MCMaxReal="0", MaxCached="1")
S_SUB = dict(SCalls="{1, 2}", MCSOps="<- OpsSub", MCGraffiti="<- GNear", MCVers="<- VCapAlt", MCErrs="TRUE")
S_ERR = dict(SCalls="{1, 2}", MCSOps="<- OpsDP", MCEpochs="<- E12", MCSlots="{3}", MCValSets="<- A13", MCErrs="TRUE", MCBlocks="<- BlkU", MaxCached="1")
S_PREP = dict(SCalls="{1, 2, 3}", MCSOps="<- OpsPP", MCSlots="{3}", MCValSets="<- A13", MCBlocks="<- Blk2", MaxCached="2")
write("Eth2WrapMC_S_duties", S_DUT)
write("Eth2WrapMC_S_duties2", S_DUT2)
write("Eth2WrapMC_S_route", S_ROUTE)
write("Eth2WrapMC_S_duties_q", dict(S_DUT, SCalls="{1, 2}"))
write("Eth2WrapMC_S_route_q", dict(S_ROUTE, SCalls="{1, 2}", MCMaxReal="1"))
write("Eth2WrapMC_S_prep_q", dict(S_PREP, SCalls="{1, 2}"))
write("Eth2WrapMC_S_submit", S_SUB)
write("Eth2WrapMC_S_errs", S_ERR)
write("Eth2WrapMC_S_prep", S_PREP)
write("Eth2WrapMC_S_ascoded_duties", dict(S_DUT, MCScribble="FALSE", **ASCODED))
write("Eth2WrapMC_S_ascoded_route", dict(S_ROUTE, **ASCODED))
write("Eth2WrapMC_S_live", dict(S_ERR, SCalls="{1, 2}"), invs=(), props=("SReturns",), spec="FairSpec")
write("Eth2WrapMC_S_live_q", dict(S_ERR, SCalls="{1, 2}", MCSOps="<- OpsProp"), invs=(), props=("SReturns",), spec="FairSpec")
# controls: the deviations of the code and hypothetical defects, each must violate the named invariant
write("Eth2WrapMC_ctl_realclash", dict(S_DUT, DevRealClash="TRUE"), invs=("S_NoRealClash",))
write("Eth2WrapMC_ctl_order", dict(S_DUT, DevOrder="TRUE"), invs=("S_Deterministic",))
write("Eth2WrapMC_ctl_aliased", dict(S_DUT, DevAliased="TRUE"), invs=("S_Genuine",))
write("Eth2WrapMC_ctl_lookup", dict(S_ROUTE, DevLookup="TRUE"), invs=("S_Route",))
write("Eth2WrapMC_ctl_fwdsynth", dict(S_SUB, SDefect='"fwdsynth"'), invs=("S_Submit",))
write("Eth2WrapMC_ctl_nosynth", dict(S_DUT, SDefect='"nosynth"'), invs=("S_Maximal",))
write("Eth2WrapMC_ctl_nobound", dict(S_DUT, SDefect='"nobound"'), invs=("S_Bound",))
write("Eth2WrapMC_ctl_nosynthroute", dict(S_ROUTE, SDefect='"nosynthroute"'), invs=("S_Route",))

L_BASE = dict(Mode='"L"', LCalls="{1, 2, 3}", MaxProv="3", MCLOps="<- LOpsConn", MCProvAns="<- PAAll", MCCancel="TRUE")
L_VC = dict(Mode='"L"', LCalls="{1, 2, 3, 4}", MaxProv="2", MCLOps="<- LOpsVC", MCToks="<- T12", MCProvAns="<- PAOkErr")
L_DC = dict(Mode='"L"', LCalls="{1, 2, 3}", MaxProv="2", MCLOps="<- LOpsDC", MCToks="<- T12", MCProvAns="<- PAOkErr")
L_MIX = dict(Mode='"L"', LCalls="{1, 2, 3}", MaxProv="3", MCLOps="<- LOpsMix", MCToks="<- T1", MCProvAns="<- PAAll", MCCancel="TRUE")
write("Eth2WrapMC_L_connect", L_BASE, props=("L_Stable",))
write("Eth2WrapMC_L_connect_q", dict(L_BASE, MCProvAns="<- PAOkErr", MCCancel="FALSE"), props=("L_Stable",))
write("Eth2WrapMC_L_errcl_q", dict(L_BASE, LCalls="{1, 2}", MaxProv="2"), props=("L_Stable",))
write("Eth2WrapMC_L_valcache", L_VC, props=("L_Stable",))
write("Eth2WrapMC_L_valcache_q", dict(L_VC, LCalls="{1, 2, 3}"), props=("L_Stable",))
write("Eth2WrapMC_L_dutiescache", L_DC)
write("Eth2WrapMC_L_ascoded_dutiescache", dict(L_DC, DevDutiesCacheLost="TRUE"))
write("Eth2WrapMC_L_mix", L_MIX)
write("Eth2WrapMC_L_live", dict(L_BASE, MCCancel="FALSE"), invs=(), props=("LReturns",), spec="FairSpec")
write("Eth2WrapMC_L_live_q", dict(L_BASE, MCCancel="FALSE", MCProvAns="<- PAOkErr"), invs=(), props=("LReturns",), spec="FairSpec")
write("Eth2WrapMC_ctl_nochk2", dict(L_BASE, LDefect='"nochk2"'), invs=("L_OneConnect",))
write("Eth2WrapMC_ctl_noprovlock", dict(L_BASE, LDefect='"noprovlock"'), invs=("L_OneConnect",))
write("Eth2WrapMC_ctl_usefailed", dict(L_BASE, LDefect='"usefailed"'), invs=("L_NoFailedClient",))
write("Eth2WrapMC_ctl_novc", dict(L_VC, LDefect='"novc"'), invs=("L_VCApplied",))
write("Eth2WrapMC_ctl_dclost", dict(L_DC, DevDutiesCacheLost="TRUE"), invs=("L_DCApplied",))

V_BASE = dict(Mode='"V"', VCalls="{1, 2, 3}", MCVOps="<- VOpsAll", MCVAns="<- VAAll")
V_4 = dict(Mode='"V"', VCalls="{1, 2, 3, 4}", MCVOps="<- VOpsHT", MCVAns="<- VAOk2")
write("Eth2WrapMC_V_all", V_BASE, props=("V_ErrKeeps",))
write("Eth2WrapMC_V_four", V_4, props=("V_ErrKeeps",))
write("Eth2WrapMC_V_all_q", dict(V_BASE, MCVAns="<- VAErr"), props=("V_ErrKeeps",))
write("Eth2WrapMC_V_nil_q", dict(V_BASE, VCalls="{1, 2}"), props=("V_ErrKeeps",))
write("Eth2WrapMC_V_live", dict(V_BASE, MCVAns="<- VAErr"), invs=(), props=("VReturns",), spec="FairSpec")
write("Eth2WrapMC_V_live_q", dict(V_BASE, VCalls="{1, 2}", MCVAns="<- VAErr"), invs=(), props=("VReturns",), spec="FairSpec")
write("Eth2WrapMC_ctl_nofilter", dict(V_BASE, VDefect='"nofilter"'), invs=("V_CacheExact",))
write("Eth2WrapMC_ctl_unlockedfetch", dict(V_BASE, VDefect='"unlockedfetch"'), invs=("V_FreshAfterTrim",))
write("Eth2WrapMC_ctl_alwaysfetch", dict(V_BASE, VDefect='"alwaysfetch"'), invs=("V_FetchWhenEmpty",))
write("Eth2WrapMC_ctl_flagalways", dict(V_BASE, VDefect='"flagalways"'), invs=("V_BySlotFlag",))
write("Eth2WrapMC_ctl_errclears", dict(V_BASE, VDefect='"errclears"'), invs=(), props=("V_ErrKeeps",))
write("Eth2WrapMC_ctl_errkeepslock", dict(V_BASE, MCVAns="<- VAErr", VDefect='"errkeepslock"'), invs=(), props=("VReturns",), spec="FairSpec")
print("ok")
