---- MODULE Eth2WrapLazy ----
(* app/eth2wrap/lazy.go: the lazy client (newLazy / getOrCreateClient / setClient and the methods of eth2wrap.Client that
   go through them -- the generated ones of eth2wrap_gen.go all have the shape `cl, err := l.getOrCreateClient(ctx); ...;
   return cl.X(ctx, ...)`).

   One action per critical section / select case:
     LChk1      getClient (RLock): the fast path
     LTry       providerMu.TryLock succeeded            LSpinFail  ... failed (the select is entered)
     LSelTick   case <-ticker.C (try again)             LSelCtx    case <-ctx.Done() (return ctx.Err())
     LChk2      getClient again under providerMu: someone else connected meanwhile (Unlock on return)
     LProv      l.provider(ctx) is called (observable)  LProvAnswer the environment: ok / err / err together with a client
     LProvDone  err: return it (Unlock) -- ok: setClient (clientMu.Lock: hand the remembered validator cache to the new
                client, publish it), Unlock
     LUse       the method of the client is called
     LSet1/2    SetValidatorCache / SetDutiesCache: remember (clientMu.Lock), then, in a second section, hand to the
                client if there is one
     LSync      Address / Name / IsActive / IsSynced / ClientForAddress: getClient, then ask the client

   CONTRACT (lazy.go: "lazy is a client that is created on demand"; eth2wrap.go newBeaconClient; app/app.go calls
   SetValidatorCache / SetDutiesCache once on the multi client, whose members are lazy clients that may not be connected):
     L_OneConnect     at most one connect succeeds; connects never overlap; after a success the provider is not called again
     L_NoFailedClient a client that came with an error is never installed nor used
     L_Working        a call fails only with the error of its OWN connect attempt or of its own context; once a connect
                      succeeded every call is served by that client
     L_Stable         the installed client never changes
     L_VCApplied      the client in use holds the validator cache set last (whether set before or after the connect)
     L_DCApplied      ... and the duties caches set last -- NOT as coded (setClient forgets them): DevDutiesCacheLost
     before connect   Address "" / Name "" / IsActive false / IsSynced false / ClientForAddress = the lazy client itself
     liveness         every call returns if connects are answered and the ticker runs *)
EXTENDS Integers, Sequences, FiniteSets, TLC
CONSTANTS LCalls, MaxProv, LDefect, DevDutiesCacheLost
VARIABLES lz, lcl, ls
lvars == <<lz, lcl, ls>>

ClientOps == {"av", "cv", "pdc", "adc", "sdc", "gen"}     \* go through getOrCreateClient
SyncOps == {"addr", "name", "active", "synced", "cfa"}
SetOps == {"setvc", "setdc"}
NoLRes == [err |-> "", cl |-> 0, tok |-> 0]
LIdle == [pc |-> "idle", op |-> "", tok |-> 0, canc |-> FALSE, pid |-> 0, how |-> "", cl |-> 0, res |-> NoLRes, conn0 |-> 0]
NoCl == [vc |-> 0, dc |-> 0]
LInit == /\ lz = [client |-> 0, plock |-> 0, vc |-> 0, dc |-> 0, nprov |-> 0, okprov |-> {}]
         /\ lcl = [k \in 1..MaxProv |-> NoCl]
         /\ ls = [c \in LCalls |-> LIdle]

LCall(c, op, tok) ==
  /\ ls[c].pc = "idle"
  /\ ls' = [ls EXCEPT ![c] = [LIdle EXCEPT !.pc = CASE op \in ClientOps -> "chk1" [] op \in SetOps -> "set1" [] OTHER -> "sync",
                                            !.op = op, !.tok = tok, !.conn0 = lz.client]]
  /\ UNCHANGED <<lz, lcl>>
LCancel(c) == ls[c].pc # "idle" /\ ~ls[c].canc /\ ls' = [ls EXCEPT ![c].canc = TRUE] /\ UNCHANGED <<lz, lcl>>

LChk1(c) ==
  /\ ls[c].pc = "chk1"
  /\ ls' = [ls EXCEPT ![c].pc = IF lz.client # 0 THEN "use" ELSE "spin", ![c].cl = lz.client]
  /\ UNCHANGED <<lz, lcl>>
LTry(c) ==
  /\ ls[c].pc = "spin" /\ (lz.plock = 0 \/ LDefect = "noprovlock")
  /\ lz' = [lz EXCEPT !.plock = c]
  /\ ls' = [ls EXCEPT ![c].pc = IF LDefect = "nochk2" THEN "prov" ELSE "chk2"]
  /\ UNCHANGED lcl
LSpinFail(c) == ls[c].pc = "spin" /\ lz.plock # 0 /\ ls' = [ls EXCEPT ![c].pc = "sel"] /\ UNCHANGED <<lz, lcl>>
LSelTick(c) == ls[c].pc = "sel" /\ ls' = [ls EXCEPT ![c].pc = "spin"] /\ UNCHANGED <<lz, lcl>>
LSelCtx(c) ==
  /\ ls[c].pc = "sel" /\ ls[c].canc
  /\ ls' = [ls EXCEPT ![c].pc = "done", ![c].res = [NoLRes EXCEPT !.err = "ctx"]]
  /\ UNCHANGED <<lz, lcl>>
Unlocked(c) == IF lz.plock = c THEN [lz EXCEPT !.plock = 0] ELSE lz
LChk2(c) ==
  /\ ls[c].pc = "chk2"
  /\ IF lz.client # 0
       THEN lz' = Unlocked(c) /\ ls' = [ls EXCEPT ![c].pc = "use", ![c].cl = lz.client]
       ELSE lz' = lz /\ ls' = [ls EXCEPT ![c].pc = "prov"]
  /\ UNCHANGED lcl
\* the connect function is called (observable): invocation number pid
LProv(c) ==
  /\ ls[c].pc = "prov" /\ lz.nprov < MaxProv
  /\ lz' = [lz EXCEPT !.nprov = @ + 1]
  /\ ls' = [ls EXCEPT ![c].pc = "conn", ![c].pid = lz.nprov + 1]
  /\ UNCHANGED lcl
\* environment: "ok" (a client), "err" (no client), "errcl" (an error AND a client object)
LProvAnswer(c, how) ==
  /\ ls[c].pc = "conn"
  /\ ls' = [ls EXCEPT ![c].pc = "connd", ![c].how = how]
  /\ lz' = IF how = "ok" THEN [lz EXCEPT !.okprov = @ \cup {ls[c].pid}] ELSE lz
  /\ UNCHANGED lcl
LProvDone(c) ==
  /\ ls[c].pc = "connd"
  /\ LET k == ls[c].pid
         install == ls[c].how = "ok" \/ (LDefect = "usefailed" /\ ls[c].how = "errcl") IN
     IF install
       THEN /\ lcl' = [lcl EXCEPT ![k] = [vc |-> IF LDefect = "novc" THEN 0 ELSE lz.vc,
                                         dc |-> IF DevDutiesCacheLost THEN 0 ELSE lz.dc]]
            /\ lz' = [Unlocked(c) EXCEPT !.client = k]
            /\ ls' = [ls EXCEPT ![c].pc = "use", ![c].cl = k]
       ELSE /\ lcl' = lcl /\ lz' = Unlocked(c)
            /\ ls' = [ls EXCEPT ![c].pc = "done", ![c].res = [NoLRes EXCEPT !.err = "prov"]]
\* the client's method: the fake client answers with its identity and the cache function it was handed
LUse(c) ==
  /\ ls[c].pc = "use"
  /\ LET k == ls[c].cl
         t == CASE ls[c].op \in {"av", "cv"} -> lcl[k].vc [] ls[c].op \in {"pdc", "adc", "sdc"} -> lcl[k].dc [] OTHER -> 0 IN
       ls' = [ls EXCEPT ![c].pc = "done",
                        ![c].res = IF ls[c].op # "gen" /\ t = 0 THEN [err |-> "nocache", cl |-> k, tok |-> 0]
                                                                ELSE [err |-> "", cl |-> k, tok |-> t]]
  /\ UNCHANGED <<lz, lcl>>
LSet1(c) ==
  /\ ls[c].pc = "set1"
  /\ lz' = IF ls[c].op = "setvc" THEN [lz EXCEPT !.vc = ls[c].tok] ELSE [lz EXCEPT !.dc = ls[c].tok]
  /\ ls' = [ls EXCEPT ![c].pc = "set2"]
  /\ UNCHANGED lcl
LSet2(c) ==
  /\ ls[c].pc = "set2"
  /\ lcl' = IF lz.client = 0 THEN lcl
            ELSE IF ls[c].op = "setvc" THEN [lcl EXCEPT ![lz.client].vc = ls[c].tok]
                 ELSE [lcl EXCEPT ![lz.client].dc = lz.dc]         \* as coded: the CURRENT fields, not the arguments
  /\ ls' = [ls EXCEPT ![c].pc = "done"]
  /\ UNCHANGED lz
\* Address / Name / IsActive / IsSynced / ClientForAddress: cl = 0 stands for the answers "" / "" / false / false / self
LSync(c) ==
  /\ ls[c].pc = "sync"
  /\ ls' = [ls EXCEPT ![c].pc = "done", ![c].res = [NoLRes EXCEPT !.cl = lz.client]]
  /\ UNCHANGED <<lz, lcl>>
LRet(c) == ls[c].pc = "done" /\ ls' = [ls EXCEPT ![c].pc = "ret"] /\ UNCHANGED <<lz, lcl>>

LInternal(c) == \/ LChk1(c) \/ LTry(c) \/ LSpinFail(c) \/ LSelTick(c) \/ LSelCtx(c) \/ LChk2(c) \/ LProv(c) \/ LProvDone(c)
                \/ LUse(c) \/ LSet1(c) \/ LSet2(c) \/ LSync(c) \/ LRet(c)
\* quiescent in the sense of the executor: nothing moves without the environment or the clock
LQuiet == \A c \in LCalls : ~ENABLED (LChk1(c) \/ LTry(c) \/ LSpinFail(c) \/ LChk2(c) \/ LProv(c) \/ LProvDone(c)
                                        \/ LUse(c) \/ LSet1(c) \/ LSet2(c) \/ LSync(c) \/ LRet(c) \/ LSelCtx(c))

\* ---------------------------------------------------------------------------------------------------------------
LFinished(c) == ls[c].pc \in {"done", "ret"}
L_TypeOK == lz.client \in 0..MaxProv /\ lz.plock \in LCalls \cup {0}
L_OneConnect == /\ Cardinality(lz.okprov) <= 1
                /\ Cardinality({c \in LCalls : ls[c].pc \in {"conn", "connd"}}) <= 1
                /\ \A k \in lz.okprov : lz.nprov = k
L_NoFailedClient == /\ lz.client \in lz.okprov \cup {0}
                    /\ \A c \in LCalls : (LFinished(c) /\ ls[c].res.cl # 0) => ls[c].res.cl \in lz.okprov
L_Working == \A c \in LCalls : (LFinished(c) /\ ls[c].op \in ClientOps) =>
                /\ ls[c].res.err = "prov" => (ls[c].pid # 0 /\ ls[c].pid \notin lz.okprov)
                /\ ls[c].res.err = "ctx" => ls[c].canc
                /\ ls[c].res.err \in {"", "nocache", "prov", "ctx"}
                /\ ls[c].conn0 # 0 => (ls[c].res.cl = ls[c].conn0 /\ ls[c].res.err \in {"", "nocache"})
                /\ ls[c].res.err \in {"", "nocache"} => ls[c].res.cl \in lz.okprov
L_Stable == [][lz.client # 0 => lz'.client = lz.client]_lvars
NoSetter(op) == \A c \in LCalls : ~(ls[c].op = op /\ ls[c].pc \in {"set1", "set2"})
L_VCApplied == (lz.client # 0 /\ NoSetter("setvc")) => lcl[lz.client].vc = lz.vc
L_DCApplied == (lz.client # 0 /\ NoSetter("setdc")) => lcl[lz.client].dc = lz.dc
LSafety == L_TypeOK /\ L_OneConnect /\ L_NoFailedClient /\ L_Working /\ L_VCApplied /\ (DevDutiesCacheLost \/ L_DCApplied)
====
