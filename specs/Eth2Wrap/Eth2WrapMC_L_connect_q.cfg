SPECIFICATION MCSpec
CONSTANTS
 Nodes = {1}
 SCalls = {1}
 MaxCached = 1
 DevRealClash = FALSE
 DevOrder = FALSE
 DevAliased = FALSE
 DevLookup = FALSE
 SDefect = "none"
 LCalls = {1, 2, 3}
 MaxProv = 3
 LDefect = "none"
 DevDutiesCacheLost = FALSE
 VCalls = {1}
 VDefect = "none"
 Mode = "L"
 MCSPE = 2
 MCEpochs <- E0
 MCSlots = {1}
 MCSOps <- OpsDuties
 MCValSets <- A123
 MCMaxReal = 0
 MCBlocks <- Blk1
 MCErrs = FALSE
 MCScribble = FALSE
 MCGraffiti <- GBoth
 MCVers <- VCap
 MCLOps <- LOpsConn
 MCToks <- T1
 MCProvAns <- PAOkErr
 MCCancel = FALSE
 MCVOps <- VOpsAll
 MCVAns <- VAOk
INVARIANTS Safety
PROPERTIES L_Stable
CONSTRAINT Ordered
CHECK_DEADLOCK FALSE
