SPECIFICATION GenSpec
CONSTANTS
 Nodes = {1, 2}
 SCalls = {1}
 MaxCached = 10
 DevRealClash = TRUE
 DevOrder = TRUE
 DevAliased = TRUE
 DevLookup = TRUE
 SDefect = "none"
 LCalls = {1}
 MaxProv = 1
 LDefect = "none"
 DevDutiesCacheLost = TRUE
 VCalls = {1, 2, 3, 4, 5, 6, 7}
 VDefect = "none"
 Mode = "V"
 GenLen = 20
 GSPE = 2
INVARIANTS Emit
CONSTRAINT Stop
CHECK_DEADLOCK FALSE
