---- MODULE Eth2WrapSynth ----
(* app/eth2wrap/synthproposer.go: synthWrapper (ProposerDuties, ProposerDutiesCache, Proposal, SubmitProposal,
   SubmitBlindedProposal, SubmitProposalPreparations) and its synthProposerCache (Duties, SyntheticVIdx).  Several wrapper
   instances ("nodes" n) over beacon nodes whose answers are the environment's.

   A call runs in segments between its requests to the wrapped client; one action per critical section of a segment:
     SDutHit / SDutMiss   Duties: the cache is read (RLock) -- hit: answer from the cache / miss: ActiveValidators is called
     SGot*                an answer is consumed, the next request goes out (ProposerDuties, Spec, SignedBeaconBlock(prev), ...)
     SCompute             the last answer of a miss: synthetic duties are computed and the epoch is stored (Lock): fifo append,
                          eviction of the oldest epoch beyond MaxCached
     SLookupReq / Fail    SyntheticVIdx: the synths map is read (RLock) and Proposal takes its route: a synthetic block is
                          built from the most recent block before the slot, or the request is forwarded
     SSubSwallow / Fwd    SubmitProposal / SubmitBlindedProposal: swallowed iff the graffiti marks a synthetic block
     SPrep                SubmitProposalPreparations: fee recipients are remembered, the call is forwarded

   CONTRACT (doc comments of synthproposer.go; "Since only a single validator can be a proposer per slot, we require all
   validators to calculate the synthetic duties for the whole set"; core/scheduler resolves ONE proposer per slot, core/fetcher
   calls Proposal(slot) per proposer duty, core/bcast submits through a SEPARATE wrapper instance, so routing by graffiti):
     S_WellFormed     per epoch: at most one synthetic duty per validator, none for a validator with a real duty, every
                      synthetic duty in the slot epoch*spe + index % spe, at most one per slot
     S_NoRealClash    ... and never in a slot that has a real duty (one proposer per slot)        -- NOT as coded: DevRealClash
     S_Maximal        every free slot of the epoch with an eligible validator gets a synthetic duty
     S_Deterministic  the synthetic duties are a function of (epoch, active validators, real duties): the same on every
                      node and in every call ("deterministic shuffle")                           -- NOT as coded: DevOrder
     S_Genuine        what ProposerDuties answers carries the validators' own public keys, whatever earlier callers did
                      with their answers                                                           -- NOT as coded: DevAliased
     S_Route          Proposal(slot) is answered synthetically iff the node's duties for the epoch have a synthetic duty in
                      that slot; otherwise the request is forwarded exactly once                  -- NOT as coded: DevLookup
     S_Submit         a block with the synthetic graffiti is never forwarded; every other block exactly once, and the
                      beacon node's verdict is the caller's
     S_Bound          at most MaxCached epochs are cached per node
     synthetic block  version, body of the most recent block before the slot; slot and proposer index of the duty; the
                      synthetic graffiti; payload fee recipient of the proposer (as last submitted), 1/10 of the transactions *)
EXTENDS Integers, Sequences, FiniteSets, TLC
CONSTANTS Nodes, SCalls, MaxCached,
          DevRealClash,   \* as coded: real duties' slots are not excluded
          DevOrder,       \* as coded: the winner of a slot depends on Go's map iteration order
          DevAliased,     \* as coded: the cached duties are handed out by reference
          DevLookup,      \* as coded: SyntheticVIdx looks the epoch up again after Duties returned
          SDefect         \* design-check controls
VARIABLES sc, sfee, ss, sord, sg
svars == <<sc, sfee, ss, sord, sg>>

SynthGraffiti == "SYNTHETIC BLOCK: DO NOT SUBMIT"
Versions == <<"phase0", "altair", "bellatrix", "capella", "deneb", "electra", "fulu">>
VerSet == {Versions[i] : i \in DOMAIN Versions}
HasPayload(v) == v \in {"bellatrix", "capella", "deneb", "electra", "fulu"}
\* IsSyntheticProposal / IsSyntheticBlindedBlock: the versions they know
KnowsGraffiti(ver, blinded) == IF blinded THEN HasPayload(ver) ELSE ver \in VerSet
IsSynth(g, ver, blinded) == g = SynthGraffiti /\ KnowsGraffiti(ver, blinded)
JunkPK == 99

EmptyF == <<>>
NoEnt == [real |-> <<>>, syn |-> EmptyF, pk |-> EmptyF, junk |-> FALSE, oid |-> 0]
NoBlk == [ver |-> "", tok |-> 0, ntx |-> 0]
NoReq == [k |-> "", epoch |-> 0, idx |-> {}, slot |-> 0, g |-> "", ver |-> "", fees |-> EmptyF]
NoAnsS == [how |-> "", vals |-> EmptyF, duties |-> <<>>, spe |-> 0, blk |-> NoBlk, tok |-> 0]
NoSRes == [err |-> "", kind |-> "", real |-> <<>>, syn |-> {}, oid |-> 0, slot |-> 0, v |-> 0, ver |-> "", tok |-> 0,
           ntx |-> 0, fee |-> 0, g |-> ""]
NoArgs == [n |-> 0, op |-> "", epoch |-> 0, slot |-> 0, g |-> "", ver |-> "", bl |-> FALSE, fees |-> EmptyF]
SIdle == [pc |-> "idle", a |-> NoArgs, e |-> 0, cont |-> "", A |-> EmptyF, R |-> <<>>, spe |-> 0, ent |-> NoEnt, prev |-> 0,
          v |-> 0, req |-> NoReq, ans |-> NoAnsS, res |-> NoSRes, fwd |-> 0, stage |-> "", route |-> "", rok |-> TRUE]

SInit == /\ sc = [n \in Nodes |-> [fifo |-> <<>>, dut |-> EmptyF]]
         /\ sfee = [n \in Nodes |-> EmptyF]
         /\ ss = [c \in SCalls |-> SIdle]
         /\ sord = {}
         /\ sg = [oid |-> 0, comp |-> {}, vers |-> EmptyF]

Range(f) == {f[x] : x \in DOMAIN f}
Upd(c, r) == ss' = [ss EXCEPT ![c] = r]
Cached(n, e) == e \in DOMAIN sc[n].dut
\* the request goes out
Issue(c, r, req) == [r EXCEPT !.pc = "wait", !.req = req, !.ans = NoAnsS]
Fail(r, kind) == [r EXCEPT !.pc = "done", !.res = [NoSRes EXCEPT !.err = kind]]

\* ----- synthetic duties --------------------------------------------------------------------------------------------
RealVals(R) == {R[i].v : i \in DOMAIN R}
RealSlots(R) == {R[i].slot : i \in DOMAIN R}
Elig(A, R) == DOMAIN A \ RealVals(R)
SlotOf(e, spe, v) == e * spe + (v % spe)
Free(e, spe, A, R) == {SlotOf(e, spe, v) : v \in Elig(A, R)} \ (IF DevRealClash THEN {} ELSE RealSlots(R))
Cand(e, spe, A, R, s) == {v \in Elig(A, R) : SlotOf(e, spe, v) = s}
\* all assignments the rule admits; they differ only in WHICH candidate of a slot wins (the shuffle decides)
Assignments(e, spe, A, R) == LET F == Free(e, spe, A, R) IN
                                {w \in [F -> DOMAIN A] : \A s \in F : w[s] \in Cand(e, spe, A, R, s)}
\* what has been seen of the shuffle of (epoch, validator set): pairs "w comes before l"
Rel(e, D) == {<<x[3], x[4]>> : x \in {y \in sord : y[1] = e /\ y[2] = D}}
Learn(e, spe, A, R, w) == UNION {{<<e, DOMAIN A, w[s], l>> : l \in Cand(e, spe, A, R, s) \ {w[s]}} : s \in DOMAIN w}
\* a relation is acyclic iff every non-empty set of its nodes has a member without a predecessor in the set
Acyclic(R) == LET N == {r[1] : r \in R} \cup {r[2] : r \in R} IN
                \A S \in SUBSET N : S = {} \/ \E v \in S : \A u \in S : <<u, v>> \notin R
OrderOK(e, spe, A, R, w) == DevOrder \/ Acyclic(Rel(e, DOMAIN A) \cup {<<x[3], x[4]>> : x \in Learn(e, spe, A, R, w)})

\* the duties as handed out: the real ones as the beacon node listed them, then the synthetic ones (order: the shuffle's)
PKOf(ent, v) == IF ent.junk THEN JunkPK ELSE ent.pk[v]
DutiesOf(ent) == [NoSRes EXCEPT !.kind = "duties", !.oid = ent.oid,
                    !.real = [i \in DOMAIN ent.real |-> IF ent.junk THEN [ent.real[i] EXCEPT !.pk = JunkPK] ELSE ent.real[i]],
                    !.syn = {[v |-> ent.syn[s], slot |-> s, pk |-> PKOf(ent, ent.syn[s])] : s \in DOMAIN ent.syn}]

\* ----- calls --------------------------------------------------------------------------------------------------------
\* a = [n, op, epoch, slot, g, ver, bl, fees]
SCall(c, a) ==
  /\ ss[c].pc = "idle"
  /\ Upd(c, [SIdle EXCEPT !.a = a, !.e = a.epoch,
                          !.pc = CASE a.op \in {"duties", "dutiesc"} -> "dchk" [] a.op = "proposal" -> "pstart"
                                   [] a.op \in {"submit", "submitb"} -> "schk" [] OTHER -> "pset",
                          !.cont = IF a.op = "proposal" THEN "lookup" ELSE "ret"])
  /\ UNCHANGED <<sc, sfee, sord, sg>>

\* Duties: the epoch is cached
SDutHit(c) ==
  /\ ss[c].pc = "dchk" /\ Cached(ss[c].a.n, ss[c].e)
  /\ LET ent == sc[ss[c].a.n].dut[ss[c].e] IN
       Upd(c, IF ss[c].cont = "ret" THEN [ss[c] EXCEPT !.pc = "done", !.res = DutiesOf(ent)]
                                    ELSE [ss[c] EXCEPT !.pc = "lookup", !.ent = ent])
  /\ UNCHANGED <<sc, sfee, sord, sg>>
\* ... is not: ActiveValidators
SDutMiss(c) ==
  /\ ss[c].pc = "dchk" /\ ~Cached(ss[c].a.n, ss[c].e)
  /\ Upd(c, Issue(c, ss[c], [NoReq EXCEPT !.k = "vals"]))
  /\ UNCHANGED <<sc, sfee, sord, sg>>
\* Proposal: SyntheticVIdx asks for the slots configuration first
SPropStart(c) ==
  /\ ss[c].pc = "pstart"
  /\ Upd(c, Issue(c, [ss[c] EXCEPT !.stage = "cfg"], [NoReq EXCEPT !.k = "spec"]))
  /\ UNCHANGED <<sc, sfee, sord, sg>>

\* environment: the wrapped client answers (how: "ok" / "err" / "zero" (Spec: no slots per epoch) / "404" (no block in that slot) /
\* "500" (another api error))
SAnswer(c, ans) ==
  /\ ss[c].pc = "wait"
  /\ Upd(c, [ss[c] EXCEPT !.pc = "got", !.ans = ans])
  /\ UNCHANGED <<sc, sfee, sord, sg>>

Got(c, k) == ss[c].pc = "got" /\ ss[c].req.k = k
SpecErr(how) == IF how = "zero" THEN "speczero" ELSE "spec"
\* answers that end the call with an error (no shared state involved)
SGotFail(c) ==
  /\ ss[c].pc = "got"
  /\ \/ ss[c].ans.how \in {"err", "500"} /\ Upd(c, Fail(ss[c], IF ss[c].req.k = "spec" THEN "spec" ELSE "bn"))
     \/ ss[c].ans.how = "zero" /\ ss[c].req.k = "spec" /\ Upd(c, Fail(ss[c], "speczero"))
     \/ /\ ss[c].req.k = "block" /\ ss[c].ans.how = "404" /\ ss[c].prev - 1 <= 0
        /\ Upd(c, Fail(ss[c], "noblock"))
     \/ /\ ss[c].req.k = "block" /\ ss[c].ans.how = "ok" /\ ss[c].ans.blk.ver \notin VerSet
        /\ Upd(c, Fail(ss[c], "version"))
  /\ UNCHANGED <<sc, sfee, sord, sg>>
\* SyntheticVIdx knows the epoch now; Duties(epoch) follows
SGotCfg(c) ==
  /\ Got(c, "spec") /\ ss[c].stage = "cfg" /\ ss[c].ans.how = "ok"
  /\ Upd(c, [ss[c] EXCEPT !.pc = "dchk", !.e = ss[c].a.slot \div ss[c].ans.spe, !.stage = ""])
  /\ UNCHANGED <<sc, sfee, sord, sg>>
SGotVals(c) ==
  /\ Got(c, "vals") /\ ss[c].ans.how = "ok"
  /\ Upd(c, Issue(c, [ss[c] EXCEPT !.A = ss[c].ans.vals],
                  [NoReq EXCEPT !.k = "duties", !.epoch = ss[c].e, !.idx = DOMAIN ss[c].ans.vals]))
  /\ UNCHANGED <<sc, sfee, sord, sg>>
SGotDuties(c) ==
  /\ Got(c, "duties") /\ ss[c].ans.how = "ok"
  /\ Upd(c, Issue(c, [ss[c] EXCEPT !.R = ss[c].ans.duties, !.stage = "dspe"], [NoReq EXCEPT !.k = "spec"]))
  /\ UNCHANGED <<sc, sfee, sord, sg>>

\* the epoch is stored: fifo append as coded (also when the epoch is already listed, see overlapping fetches), the oldest
\* entry goes when the list is longer than MaxCached
Store(n, e, ent) ==
  LET f1 == Append(sc[n].fifo, e)
      d1 == [x \in DOMAIN sc[n].dut \cup {e} |-> IF x = e THEN ent ELSE sc[n].dut[x]]
      over == Len(f1) > MaxCached IN
    [fifo |-> IF over THEN Tail(f1) ELSE f1,
     dut |-> IF over THEN [x \in DOMAIN d1 \ {f1[1]} |-> d1[x]] ELSE d1]

\* the answer with the slots configuration completes a miss: w is the assignment (which candidate wins each slot)
SCompute(c, w) ==
  /\ Got(c, "spec") /\ ss[c].stage = "dspe" /\ ss[c].ans.how = "ok"
  /\ LET n == ss[c].a.n  e == ss[c].e  spe == ss[c].ans.spe  A == ss[c].A  R == ss[c].R IN
     /\ w \in Assignments(e, spe, A, R)
     /\ OrderOK(e, spe, A, R, w) = TRUE      \* "= TRUE": a state predicate (TLC must not enumerate the witnesses inside as moves)
     /\ LET ent == [real |-> R, syn |-> IF SDefect = "nosynth" THEN EmptyF ELSE w, pk |-> A, junk |-> FALSE, oid |-> sg.oid + 1] IN
        /\ sc' = [sc EXCEPT ![n] = IF SDefect = "nobound" THEN [fifo |-> Append(sc[n].fifo, e),
                                                                 dut |-> [x \in DOMAIN sc[n].dut \cup {e} |-> IF x = e THEN ent ELSE sc[n].dut[x]]]
                                                            ELSE Store(n, e, ent)]
        /\ Upd(c, IF ss[c].cont = "ret" THEN [ss[c] EXCEPT !.pc = "done", !.res = DutiesOf(ent), !.spe = spe]
                                        ELSE [ss[c] EXCEPT !.pc = "lookup", !.ent = ent, !.spe = spe])
        /\ sord' = IF DevOrder THEN sord ELSE sord \cup Learn(e, spe, A, R, w)
        /\ sg' = [sg EXCEPT !.oid = @ + 1,
                            !.comp = @ \cup {[e |-> e, spe |-> spe, A |-> A, R |-> R, w |-> ent.syn]},
                            !.vers = [x \in DOMAIN sg.vers \cup {<<n, e>>} |->
                                        (IF x \in DOMAIN sg.vers THEN sg.vers[x] ELSE {}) \cup (IF x = <<n, e>> THEN {ent.syn} ELSE {})]]
  /\ UNCHANGED sfee

\* SyntheticVIdx reads the synths map; as coded it reads the CACHE again (the entry may be gone)
\* ghost: do the duties the node computed for the epoch (some version of them, if the beacon node's answers changed between
\* two fetches) have / not have a synthetic duty in the slot
VersOf(c) == LET k == <<ss[c].a.n, ss[c].e>> IN IF k \in DOMAIN sg.vers THEN sg.vers[k] ELSE {}
SomeSyn(c) == \E w \in VersOf(c) : ss[c].a.slot \in DOMAIN w
SomeNotSyn(c) == \E w \in VersOf(c) : ss[c].a.slot \notin DOMAIN w
LookupEnt(c) == IF DevLookup THEN (IF Cached(ss[c].a.n, ss[c].e) THEN sc[ss[c].a.n].dut[ss[c].e] ELSE NoEnt) ELSE ss[c].ent
IsSynSlot(c) == ss[c].a.slot \in DOMAIN LookupEnt(c).syn
SLookupReq(c) ==
  /\ ss[c].pc = "lookup"
  /\ IF IsSynSlot(c) /\ SDefect # "nosynthroute"
       THEN /\ ss[c].a.slot - 1 > 0
            /\ Upd(c, Issue(c, [ss[c] EXCEPT !.v = LookupEnt(c).syn[ss[c].a.slot], !.prev = ss[c].a.slot - 1, !.route = "synth", !.rok = SomeSyn(c)],
                            [NoReq EXCEPT !.k = "block", !.slot = ss[c].a.slot - 1]))
       ELSE Upd(c, Issue(c, [ss[c] EXCEPT !.fwd = @ + 1, !.route = "fwd", !.rok = SomeNotSyn(c)], [NoReq EXCEPT !.k = "prop", !.slot = ss[c].a.slot]))
  /\ UNCHANGED <<sc, sfee, sord, sg>>
SLookupFail(c) ==
  /\ ss[c].pc = "lookup" /\ IsSynSlot(c) /\ ss[c].a.slot - 1 <= 0
  /\ Upd(c, Fail([ss[c] EXCEPT !.route = "synth", !.rok = SomeSyn(c)], "noblock"))
  /\ UNCHANGED <<sc, sfee, sord, sg>>
\* no block in that slot: one slot further back
SGotNoBlock(c) ==
  /\ Got(c, "block") /\ ss[c].ans.how = "404" /\ ss[c].prev - 1 > 0
  /\ Upd(c, Issue(c, [ss[c] EXCEPT !.prev = @ - 1], [NoReq EXCEPT !.k = "block", !.slot = ss[c].prev - 1]))
  /\ UNCHANGED <<sc, sfee, sord, sg>>
FeeOf(n, v) == IF v \in DOMAIN sfee[n] THEN sfee[n][v] ELSE 0
SGotBlock(c) ==
  /\ Got(c, "block") /\ ss[c].ans.how = "ok" /\ ss[c].ans.blk.ver \in VerSet
  /\ LET b == ss[c].ans.blk IN
       Upd(c, [ss[c] EXCEPT !.pc = "done",
                            !.res = [NoSRes EXCEPT !.kind = "synth", !.slot = ss[c].a.slot, !.v = ss[c].v, !.ver = b.ver, !.tok = b.tok,
                                       !.g = IF SDefect = "nograffiti" THEN "" ELSE SynthGraffiti,
                                       !.ntx = IF HasPayload(b.ver) THEN b.ntx \div 10 ELSE 0,
                                       !.fee = IF HasPayload(b.ver) THEN FeeOf(ss[c].a.n, ss[c].v) ELSE 0]])
  /\ UNCHANGED <<sc, sfee, sord, sg>>
SGotProp(c) ==
  /\ Got(c, "prop") /\ ss[c].ans.how = "ok"
  /\ Upd(c, [ss[c] EXCEPT !.pc = "done", !.res = [NoSRes EXCEPT !.kind = "fwd", !.tok = ss[c].ans.tok]])
  /\ UNCHANGED <<sc, sfee, sord, sg>>

\* SubmitProposal / SubmitBlindedProposal
Swallows(c) == IsSynth(ss[c].a.g, ss[c].a.ver, ss[c].a.op = "submitb") /\ SDefect # "fwdsynth"
SSubSwallow(c) ==
  /\ ss[c].pc = "schk" /\ Swallows(c)
  /\ Upd(c, [ss[c] EXCEPT !.pc = "done", !.res = [NoSRes EXCEPT !.kind = "sub"]])
  /\ UNCHANGED <<sc, sfee, sord, sg>>
SSubFwd(c) ==
  /\ ss[c].pc = "schk" /\ ~Swallows(c)
  /\ Upd(c, Issue(c, [ss[c] EXCEPT !.fwd = @ + 1], [NoReq EXCEPT !.k = ss[c].a.op, !.g = ss[c].a.g, !.ver = ss[c].a.ver]))
  /\ UNCHANGED <<sc, sfee, sord, sg>>
SPrep(c) ==
  /\ ss[c].pc = "pset"
  /\ LET n == ss[c].a.n  f == ss[c].a.fees IN
       sfee' = [sfee EXCEPT ![n] = [v \in DOMAIN sfee[n] \cup DOMAIN f |-> IF v \in DOMAIN f THEN f[v] ELSE sfee[n][v]]]
  /\ Upd(c, Issue(c, [ss[c] EXCEPT !.fwd = @ + 1], [NoReq EXCEPT !.k = "prep", !.fees = ss[c].a.fees]))
  /\ UNCHANGED <<sc, sord, sg>>
SGotSub(c) ==
  /\ ss[c].pc = "got" /\ ss[c].req.k \in {"submit", "submitb", "prep"} /\ ss[c].ans.how = "ok"
  /\ Upd(c, [ss[c] EXCEPT !.pc = "done", !.res = [NoSRes EXCEPT !.kind = "sub"]])
  /\ UNCHANGED <<sc, sfee, sord, sg>>

SRet(c) == ss[c].pc = "done" /\ Upd(c, [ss[c] EXCEPT !.pc = "ret"]) /\ UNCHANGED <<sc, sfee, sord, sg>>

\* environment: the caller of c writes into the duties it was handed (core/validatorapi.ProposerDuties replaces the public
\* keys by public shares).  As coded the slice and its elements are the cache's.
SScribble(c) ==
  /\ ss[c].pc = "ret" /\ ss[c].res.kind = "duties"
  /\ LET n == ss[c].a.n  e == ss[c].e IN
       sc' = IF DevAliased /\ Cached(n, e) /\ sc[n].dut[e].oid = ss[c].res.oid
               THEN [sc EXCEPT ![n].dut[e].junk = TRUE] ELSE sc
  /\ UNCHANGED <<sfee, ss, sord, sg>>

\* steps that send a request (observable at the wrapped client) / steps that do not
SReqStep(c) == \/ SDutMiss(c) \/ SPropStart(c) \/ SGotVals(c) \/ SGotDuties(c) \/ SLookupReq(c) \/ SGotNoBlock(c)
               \/ SSubFwd(c) \/ SPrep(c)
SComputeAny(c) == /\ Got(c, "spec") /\ ss[c].stage = "dspe" /\ ss[c].ans.how = "ok"
                  /\ \E w \in Assignments(ss[c].e, ss[c].ans.spe, ss[c].A, ss[c].R) : SCompute(c, w)
SQuietStep(c) == \/ SDutHit(c) \/ SGotFail(c) \/ SGotCfg(c) \/ SComputeAny(c)
                 \/ SLookupFail(c) \/ SGotBlock(c) \/ SGotProp(c) \/ SSubSwallow(c) \/ SGotSub(c)
SInternal(c) == SReqStep(c) \/ SQuietStep(c) \/ SRet(c)
SQuiet == \A c \in SCalls : ss[c].pc \in {"idle", "wait", "ret"}

\* ---------------------------------------------------------------------------------------------------------------
SFinished(c) == ss[c].pc \in {"done", "ret"}
Entries == UNION {{sc[n].dut[e] : e \in DOMAIN sc[n].dut} : n \in Nodes}
Injective(f) == \A x, y \in DOMAIN f : f[x] = f[y] => x = y
S_WellFormed == \A x \in sg.comp : /\ Injective(x.w)
                                   /\ \A s \in DOMAIN x.w : x.w[s] \in DOMAIN x.A \ RealVals(x.R) /\ s = SlotOf(x.e, x.spe, x.w[s])
S_NoRealClash == \A x \in sg.comp : DOMAIN x.w \cap RealSlots(x.R) = {}
S_Maximal == \A x \in sg.comp : \A v \in DOMAIN x.A \ RealVals(x.R) :
                SlotOf(x.e, x.spe, v) \in DOMAIN x.w \cup RealSlots(x.R)
S_Deterministic == \A x, y \in sg.comp : (x.e = y.e /\ x.spe = y.spe /\ x.A = y.A /\ x.R = y.R) => x.w = y.w
S_Genuine == \A c \in SCalls : (SFinished(c) /\ ss[c].res.kind = "duties") =>
                /\ \A d \in ss[c].res.syn : d.pk # JunkPK
                /\ \A i \in DOMAIN ss[c].res.real : ss[c].res.real[i].pk # JunkPK
S_Route == \A c \in SCalls : ss[c].rok
S_Submit == \A c \in SCalls : /\ ss[c].fwd <= 1
                              /\ (SFinished(c) /\ ss[c].a.op \in {"submit", "submitb"}) =>
                                    ss[c].fwd = (IF ss[c].a.g = SynthGraffiti /\ KnowsGraffiti(ss[c].a.ver, ss[c].a.op = "submitb") THEN 0 ELSE 1)
                              /\ (SFinished(c) /\ ss[c].a.op = "proposal" /\ ss[c].res.kind = "synth") => (ss[c].fwd = 0 /\ ss[c].res.g = SynthGraffiti)
                              /\ (SFinished(c) /\ ss[c].a.op = "proposal" /\ ss[c].res.kind = "fwd") => ss[c].fwd = 1
S_Bound == \A n \in Nodes : Cardinality(DOMAIN sc[n].dut) <= MaxCached /\ Len(sc[n].fifo) <= MaxCached
S_TypeOK == \A c \in SCalls : ss[c].pc \in {"idle", "dchk", "pstart", "schk", "pset", "wait", "got", "lookup", "done", "ret"}
SSafety == /\ S_TypeOK /\ S_WellFormed /\ S_Maximal /\ S_Submit /\ S_Bound
           /\ (DevRealClash \/ S_NoRealClash) /\ (DevOrder \/ S_Deterministic) /\ (DevAliased \/ S_Genuine) /\ (DevLookup \/ S_Route)
====
