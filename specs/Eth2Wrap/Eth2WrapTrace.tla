---- MODULE Eth2WrapTrace ----
(* Trace validation for harness/eth2wrapx.  One trace = one schedule on fresh objects; its first event says which component:

   Reset {sid, mode: "S", spe}                         eth2wrap.WithSyntheticDuties over a gated client, one instance per node
     Call     {c, n, op, epoch, slot, g, ver, fees}    the goroutine of call c is started (logged before)
     Req      {c, k, epoch, idx, slot, g, ver, fees}   a request of call c arrived at the wrapped client (and waits there)
     Ans      {c, how, vals, duties, spe, blk, tok}    the driver lets the wrapped client answer
     Ret      {c, err, duties, g, slot, v, ver, tok, ntx, fee}   the call has returned (logged by the driver at the next
                                                       quiescent moment): the duties / the facts of the proposal it returned
     Scribble {c}                                      the driver overwrites the public keys in the duties call c returned
   Reset {sid, mode: "L"}                              eth2wrap.NewLazyVerif (= newLazy) over a gated connect function
     Call {c, op, tok} / Prov {c, pid} / PAns {c, how} / Cancel {c} / Tick / Ret {c, err, cl, tok, s, b}
   Reset {sid, mode: "V", pubkeys}                     eth2wrap.NewValidatorCache over a gated client
     Call {c, op, slot} / Req {c, state, pks} / Ans {c, how, vals} / Ret {c, err, act, all, byslot}
   End                                                 the driver has answered everything that was pending; all returned

   Call, Ans, PAns, Cancel, Scribble, Tick are the environment's moves.  Req / Prov are bound to the design spec's step
   that sends the request, Ret to the call's return with its result.  Everything else is silent and inferred: in S and L
   the driver waits for quiescence (testing/synctest) after every move, so at most the moved call has silent steps to
   take; in V (real goroutines on the cache's RWMutex) the order in which waiting calls get the lock is TLC's to find.
   Which of the colliding validators wins a synthetic slot is not logged either: it shows in the duties returned. *)
EXTENDS Eth2Wrap, TraceCommon
tvars == <<vars, tr, l>>
Cfg == Trace[1]
Mode == Cfg.mode
TraceInit == TrInit /\ Init

FunOf(seq, key, val) == LET S == SeqToSet(seq) IN [x \in {r[key] : r \in S} |-> (CHOOSE r \in S : r[key] = x)[val]]
ArgsOf(e) == [n |-> e.n, op |-> e.op, epoch |-> e.epoch, slot |-> e.slot, g |-> e.g, ver |-> e.ver, bl |-> e.op = "submitb",
              fees |-> FunOf(e.fees, "v", "tok")]
ReqOf(e) == [k |-> e.k, epoch |-> e.epoch, idx |-> SeqToSet(e.idx), slot |-> e.slot, g |-> e.g, ver |-> e.ver,
             fees |-> FunOf(e.fees, "v", "tok")]
AnsOf(e) == [how |-> e.how, vals |-> FunOf(e.vals, "v", "pk"), duties |-> e.duties, spe |-> e.spe, blk |-> e.blk, tok |-> e.tok]
IsS == Mode = "S"
IsL == Mode = "L"
IsV == Mode = "V"

TReset == IsEvent("Reset") /\ l = 1 /\ UNCHANGED vars
\* The driver makes its moves at quiescent moments only (S, L: synctest.Wait(); V: a call is at the beacon node and holds the
\* lock, or nothing is under way): everything the implementation could do on its own has been done -- and logged, if it is an
\* observable step -- before the next move of the environment.
SQuietT == \A c \in SCalls : ss[c].pc \in {"idle", "wait", "ret"}
LQuietT == \A c \in LCalls : ls[c].pc \in {"idle", "conn", "ret"} \/ (ls[c].pc = "sel" /\ ~ls[c].canc)
VQuietT == \A c \in VCalls : \/ vs[c].pc \in {"idle", "req", "done", "ret"}
                               \/ (vlock # 0 /\ vs[c].pc \in {"rdC", "rdA", "wlock", "tlock"})
\* ----- S ------------------------------------------------------------------------------------------------------------
TSCall == IsEvent("Call") /\ IsS /\ SQuietT /\ Ev.c \in SCalls /\ Ev.n \in Nodes /\ SCall(Ev.c, ArgsOf(Ev)) /\ SOnly
TSReq == IsEvent("Req") /\ IsS /\ Ev.c \in SCalls /\ SReqStep(Ev.c) /\ ss'[Ev.c].req = ReqOf(Ev) /\ SOnly
TSAns == IsEvent("Ans") /\ IsS /\ SQuietT /\ Ev.c \in SCalls /\ SAnswer(Ev.c, AnsOf(Ev)) /\ SOnly
\* the duties come back as one list: the real ones first, as the beacon node listed them, then the synthetic ones
TSRet == /\ IsEvent("Ret") /\ IsS /\ Ev.c \in SCalls /\ SRet(Ev.c) /\ SOnly
         /\ LET r == ss[Ev.c].res  n == Len(r.real) IN
              /\ Ev.err = r.err
              /\ r.kind = "duties" => /\ Len(Ev.duties) = n + Cardinality(r.syn)
                                      /\ SubSeq(Ev.duties, 1, n) = r.real
                                      /\ SeqToSet(SubSeq(Ev.duties, n + 1, Len(Ev.duties))) = r.syn
              /\ r.kind # "duties" => Ev.duties = <<>>
              /\ r.kind = "synth" => /\ Ev.g = r.g /\ Ev.slot = r.slot /\ Ev.v = r.v /\ Ev.ver = r.ver /\ Ev.tok = r.tok
                                     /\ Ev.ntx = r.ntx /\ Ev.fee = r.fee
              /\ r.kind = "fwd" => Ev.tok = r.tok /\ Ev.g # SynthGraffiti /\ Ev.slot = ss[Ev.c].a.slot
              /\ r.kind \notin {"synth", "fwd"} => Ev.ver = ""
TSScribble == IsEvent("Scribble") /\ IsS /\ SQuietT /\ Ev.c \in SCalls /\ SScribble(Ev.c) /\ SOnly
TSSilent == IsS /\ Silent /\ (\E c \in SCalls : SQuietStep(c)) /\ SOnly
\* ----- L ------------------------------------------------------------------------------------------------------------
AddrOf(k) == IF k = 0 THEN "" ELSE "addr-" \o ToString(k)
NameOf(k) == IF k = 0 THEN "" ELSE "fake-" \o ToString(k)
TLCall == IsEvent("Call") /\ IsL /\ LQuietT /\ Ev.c \in LCalls /\ LCall(Ev.c, Ev.op, Ev.tok) /\ LOnly
TLProv == IsEvent("Prov") /\ IsL /\ Ev.c \in LCalls /\ LProv(Ev.c) /\ ls'[Ev.c].pid = Ev.pid /\ LOnly
TLPAns == IsEvent("PAns") /\ IsL /\ LQuietT /\ Ev.c \in LCalls /\ LProvAnswer(Ev.c, Ev.how) /\ LOnly
TLCancel == IsEvent("Cancel") /\ IsL /\ LQuietT /\ Ev.c \in LCalls /\ LCancel(Ev.c) /\ LOnly
\* the driver lets one millisecond pass: the ticker of every call that waits in the select of getOrCreateClient fires once
TLTick == /\ IsEvent("Tick") /\ IsL /\ LQuietT /\ LOnly
          /\ ls' = [c \in LCalls |-> IF ls[c].pc = "sel" THEN [ls[c] EXCEPT !.pc = "spin"] ELSE ls[c]]
          /\ UNCHANGED <<lz, lcl>>
TLRet == /\ IsEvent("Ret") /\ IsL /\ Ev.c \in LCalls /\ LRet(Ev.c) /\ LOnly
         /\ LET r == ls[Ev.c].res  op == ls[Ev.c].op IN
              CASE op \in ClientOps -> Ev.err = r.err /\ Ev.tok = r.tok /\ Ev.cl = (IF r.err = "" THEN r.cl ELSE 0)
                [] op = "addr" -> Ev.s = AddrOf(r.cl)
                [] op = "name" -> Ev.s = NameOf(r.cl)
                [] op \in {"active", "synced"} -> Ev.b = (r.cl # 0)
                [] op = "cfa" -> Ev.cl = r.cl
                [] OTHER -> TRUE
TLSilent == /\ IsL /\ Silent /\ LOnly
            /\ \E c \in LCalls : \/ LChk1(c) \/ LTry(c) \/ LSpinFail(c) \/ LSelCtx(c) \/ LChk2(c) \/ LProvDone(c)
                                 \/ LUse(c) \/ LSet1(c) \/ LSet2(c) \/ LSync(c)
\* ----- V ------------------------------------------------------------------------------------------------------------
TVCall == IsEvent("Call") /\ IsV /\ Ev.c \in VCalls /\ VCall(Ev.c, Ev.op, Ev.slot) /\ VOnly
TVReq == /\ IsEvent("Req") /\ IsV /\ Ev.c \in VCalls /\ (VAcquire(Ev.c) \/ VFallback(Ev.c)) /\ VOnly
         /\ vs'[Ev.c].req = Ev.state /\ SeqToSet(Ev.pks) = SeqToSet(Cfg.pubkeys) /\ Len(Ev.pks) = Len(Cfg.pubkeys)
TVAns == IsEvent("Ans") /\ IsV /\ VQuietT /\ Ev.c \in VCalls /\ VAnswer(Ev.c, [how |-> Ev.how, vals |-> SeqToSet(Ev.vals)]) /\ VOnly
TVRet == /\ IsEvent("Ret") /\ IsV /\ Ev.c \in VCalls /\ VRet(Ev.c) /\ VOnly
         /\ LET r == vs[Ev.c].res IN
              vs[Ev.c].op = "trim" \/ (/\ Ev.err = r.err /\ SeqToSet(Ev.act) = r.act /\ Len(Ev.act) = Cardinality(r.act)
                                       /\ SeqToSet(Ev.all) = r.all /\ Len(Ev.all) = Cardinality(r.all) /\ Ev.byslot = r.byslot)
TVSilent == IsV /\ Silent /\ VOnly /\ \E c \in VCalls : VRdC(c) \/ VRdA(c) \/ VTrim(c) \/ VFinish(c)
\* ----- the end of the schedule: nothing is under way ----------------------------------------------------------------
TEnd == /\ IsEvent("End") /\ UNCHANGED vars
        /\ \A c \in SCalls : ss[c].pc \in {"idle", "ret"}
        /\ \A c \in LCalls : ls[c].pc \in {"idle", "ret"}
        /\ \A c \in VCalls : vs[c].pc \in {"idle", "ret"}
        /\ vlock = 0 /\ lz.plock = 0

TraceNext == \/ TReset \/ TEnd
             \/ TSCall \/ TSReq \/ TSAns \/ TSRet \/ TSScribble \/ TSSilent
             \/ TLCall \/ TLProv \/ TLPAns \/ TLCancel \/ TLTick \/ TLRet \/ TLSilent
             \/ TVCall \/ TVReq \/ TVAns \/ TVRet \/ TVSilent
TraceSpec == TraceInit /\ [][TraceNext]_tvars
Mark == /\ CheckInv("S_WellFormed", S_WellFormed) /\ CheckInv("S_Maximal", S_Maximal) /\ CheckInv("S_Submit", S_Submit)
        /\ CheckInv("S_Bound", S_Bound) /\ CheckInv("S_NoRealClash", DevRealClash \/ S_NoRealClash)
        /\ CheckInv("S_Deterministic", DevOrder \/ S_Deterministic) /\ CheckInv("S_Genuine", DevAliased \/ S_Genuine)
        /\ CheckInv("S_Route", DevLookup \/ S_Route)
        /\ CheckInv("L_OneConnect", L_OneConnect) /\ CheckInv("L_NoFailedClient", L_NoFailedClient) /\ CheckInv("L_Working", L_Working)
        /\ CheckInv("L_VCApplied", L_VCApplied) /\ CheckInv("L_DCApplied", DevDutiesCacheLost \/ L_DCApplied)
        /\ CheckInv("V_CacheExact", V_CacheExact) /\ CheckInv("V_FreshAfterTrim", V_FreshAfterTrim)
        /\ CheckInv("V_FetchWhenEmpty", V_FetchWhenEmpty) /\ CheckInv("V_BySlotFlag", V_BySlotFlag) /\ CheckInv("V_ResultExact", V_ResultExact)
        /\ HWMark
====
