---- MODULE Eth2WrapVal ----
(* app/eth2wrap/cache.go: ValidatorCache (NewValidatorCache, GetByHead, GetBySlot, Trim) -- NOT the DutiesCache.

   One action per critical section of the code:
     GetByHead   VRdC (cached(): RLock), VRdA (activeCached(): RLock) -- two separate read sections, as coded --, then, if
                 either was missing, VAcquire (Lock + the request to the beacon node, state "head", made while the write
                 lock is held), the environment's VAnswer, VFinish (store / error, Unlock)
     GetBySlot   VAcquire (Lock + request, state = the slot), VAnswer, on failure VFallback (second request, state
                 "head", still under the lock, refreshedBySlot = FALSE), VFinish
     Trim        VTrim (Lock, clear both fields, Unlock)
   A reader section cannot run while a writer holds the lock (vlock # 0).

   CONTRACT (doc comments of cache.go; app/app.go: "Setup validator cache, refreshing it every epoch": Trim on the epoch
   boundary, then GetBySlot; every ActiveValidators / CompleteValidators of the node is GetByHead):
     V_CacheExact     what is cached is what the beacon node answered: complete = the answer, active = its members whose
                      status is active (active_ongoing / active_exiting / active_slashed), with their public keys
     V_FreshAfterTrim a call that starts after Trim returned is never answered with data requested before that Trim was
                      called (no stale epoch)
     V_FetchWhenEmpty GetByHead asks the beacon node only if the cache was not full at some moment of the call
                      ("refreshes exactly when trimmed")
     V_BySlotFlag     GetBySlot reports TRUE iff its data is the answer for the slot's state (not the head fallback)
     V_ErrKeeps       a failed refresh leaves the cache as it was
     liveness         every call returns once the beacon node answered (the lock is released on every path)
   VDefect switches design-check controls on (never in the trace spec). *)
EXTENDS Integers, Sequences, FiniteSets, TLC
CONSTANTS VCalls, VDefect
VARIABLES vc, vlock, vs, vg
vvars == <<vc, vlock, vs, vg>>

ActiveStatuses == {"active_ongoing", "active_exiting", "active_slashed"}
ActiveOf(vals) == {[i |-> x.i, pk |-> x.pk] : x \in {y \in vals : y.st \in ActiveStatuses}}
NoSrc == [state |-> "", tc |-> 0]
VEmpty == [hasA |-> FALSE, hasC |-> FALSE, act |-> {}, all |-> {}, src |-> NoSrc]
VFull == vc.hasA /\ vc.hasC
NoPart == [ok |-> FALSE, val |-> {}, src |-> NoSrc]
NoAns == [how |-> "", vals |-> {}]
NoVRes == [err |-> "", act |-> {}, all |-> {}, byslot |-> FALSE, srcA |-> NoSrc, srcC |-> NoSrc]
VIdle == [pc |-> "idle", op |-> "", slot |-> 0, tC |-> NoPart, tA |-> NoPart, req |-> "", rtc |-> 0, ans |-> NoAns,
          byslot |-> TRUE, res |-> NoVRes, fetched |-> FALSE, fullAtStart |-> FALSE, dirty |-> FALSE, startTD |-> 0]

VInit == vc = VEmpty /\ vlock = 0 /\ vs = [c \in VCalls |-> VIdle] /\ vg = [tc |-> 0, td |-> 0]

VRunning(c) == vs[c].pc \notin {"idle", "done", "ret"}
\* ghost: the cache stops being full while calls are under way
Dirtied(f) == [c \in VCalls |-> IF VRunning(c) THEN [f[c] EXCEPT !.dirty = TRUE] ELSE f[c]]

VCall(c, op, slot) ==
  /\ vs[c].pc = "idle"
  /\ vs' = [vs EXCEPT ![c] = [VIdle EXCEPT !.pc = CASE op = "trim" -> "tlock" [] op = "head" -> "rdC" [] OTHER -> "wlock",
                                            !.op = op, !.slot = slot, !.fullAtStart = VFull, !.startTD = vg.td]]
  /\ vg' = IF op = "trim" THEN [vg EXCEPT !.tc = @ + 1] ELSE vg
  /\ UNCHANGED <<vc, vlock>>

VRdC(c) ==
  /\ vs[c].pc = "rdC" /\ vlock = 0
  /\ vs' = [vs EXCEPT ![c].tC = [ok |-> vc.hasC, val |-> vc.all, src |-> vc.src], ![c].pc = "rdA"]
  /\ UNCHANGED <<vc, vlock, vg>>

VRdA(c) ==
  /\ vs[c].pc = "rdA" /\ vlock = 0
  /\ LET a == [ok |-> vc.hasA, val |-> vc.act, src |-> vc.src] IN
       vs' = [vs EXCEPT ![c].tA = a,
                        ![c].pc = IF vs[c].tC.ok /\ a.ok /\ VDefect # "alwaysfetch" THEN "done" ELSE "wlock",
                        ![c].res = IF vs[c].tC.ok /\ a.ok /\ VDefect # "alwaysfetch"
                                     THEN [NoVRes EXCEPT !.act = a.val, !.all = vs[c].tC.val, !.srcA = a.src, !.srcC = vs[c].tC.src]
                                     ELSE NoVRes]
  /\ UNCHANGED <<vc, vlock, vg>>

VTrim(c) ==
  /\ vs[c].pc = "tlock" /\ vlock = 0
  /\ vc' = VEmpty
  /\ vs' = [Dirtied(vs) EXCEPT ![c].pc = "done"]
  /\ vg' = [vg EXCEPT !.td = @ + 1]
  /\ UNCHANGED vlock

\* Lock + the request (observable: the request arrives at the beacon node)
VAcquire(c) ==
  /\ vs[c].pc = "wlock" /\ vlock = 0
  /\ vlock' = IF VDefect = "unlockedfetch" THEN 0 ELSE c
  /\ vs' = [vs EXCEPT ![c].pc = "req", ![c].req = IF vs[c].op = "slot" THEN ToString(vs[c].slot) ELSE "head",
                      ![c].rtc = vg.tc, ![c].fetched = TRUE]
  /\ UNCHANGED <<vc, vg>>

\* environment: the beacon node answers.  how: "ok" (vals: set of [i, pk, st]), "nilmap" (no error, nil map), "nilval"
\* (a nil validator in the map), "err"
VAnswer(c, a) ==
  /\ vs[c].pc = "req"
  /\ vs' = [vs EXCEPT ![c].ans = a, ![c].pc = "ans"]
  /\ UNCHANGED <<vc, vlock, vg>>

\* GetBySlot: the by-slot request failed, fall back to the head state (second request under the same lock)
VFallback(c) ==
  /\ vs[c].pc = "ans" /\ vs[c].op = "slot" /\ vs[c].req # "head" /\ vs[c].ans.how = "err"
  /\ vs' = [vs EXCEPT ![c].pc = "req", ![c].req = "head", ![c].rtc = vg.tc, ![c].byslot = FALSE]
  /\ UNCHANGED <<vc, vlock, vg>>

VFinish(c) ==
  /\ vs[c].pc = "ans"
  /\ ~(vs[c].op = "slot" /\ vs[c].req # "head" /\ vs[c].ans.how = "err")
  /\ VDefect = "unlockedfetch" => vlock = 0
  /\ LET a == vs[c].ans
         src == [state |-> vs[c].req, tc |-> vs[c].rtc]
         act == IF VDefect = "nofilter" THEN {[i |-> x.i, pk |-> x.pk] : x \in a.vals} ELSE ActiveOf(a.vals)
         stored == [hasA |-> TRUE, hasC |-> a.how = "ok", act |-> act, all |-> a.vals, src |-> src]
         bs == IF VDefect = "flagalways" THEN TRUE ELSE vs[c].byslot IN
       IF a.how \in {"ok", "nilmap"}
         THEN /\ vc' = stored
              /\ vs' = [(IF a.how = "nilmap" THEN Dirtied(vs) ELSE vs) EXCEPT
                          ![c].pc = "done",
                          ![c].res = [err |-> "", act |-> act, all |-> a.vals, byslot |-> bs /\ vs[c].op = "slot",
                                      srcA |-> src, srcC |-> src]]
         ELSE /\ vc' = IF VDefect = "errclears" THEN VEmpty ELSE vc
              /\ vs' = [vs EXCEPT ![c].pc = "done",
                                  ![c].res = [NoVRes EXCEPT !.err = IF a.how = "err" THEN "bn" ELSE "nilval",
                                                            !.byslot = bs /\ vs[c].op = "slot"]]
  /\ vlock' = IF VDefect = "errkeepslock" /\ vs[c].ans.how \notin {"ok", "nilmap"} THEN vlock ELSE 0
  /\ UNCHANGED vg

VRet(c) == vs[c].pc = "done" /\ vs' = [vs EXCEPT ![c].pc = "ret"] /\ UNCHANGED <<vc, vlock, vg>>

VInternal(c) == VRdC(c) \/ VRdA(c) \/ VTrim(c) \/ VAcquire(c) \/ VFallback(c) \/ VFinish(c) \/ VRet(c)
VQuiet == \A c \in VCalls : ~ENABLED VInternal(c)

\* ---------------------------------------------------------------------------------------------------------------
VFinished(c) == vs[c].pc \in {"done", "ret"}
V_TypeOK == /\ vlock \in VCalls \cup {0}
            /\ \A c \in VCalls : vs[c].pc \in {"idle", "rdC", "rdA", "wlock", "tlock", "req", "ans", "done", "ret"}
V_CacheExact == vc.hasA => (vc.act = ActiveOf(vc.all) /\ (vc.hasC \/ vc.all = {}))
V_FreshAfterTrim == \A c \in VCalls : (VFinished(c) /\ vs[c].op \in {"head", "slot"} /\ vs[c].res.err = "")
                       => (vs[c].res.srcA.tc >= vs[c].startTD /\ vs[c].res.srcC.tc >= vs[c].startTD)
V_FetchWhenEmpty == \A c \in VCalls : (vs[c].op = "head" /\ vs[c].fetched) => ~(vs[c].fullAtStart /\ ~vs[c].dirty)
V_BySlotFlag == \A c \in VCalls : (VFinished(c) /\ vs[c].op = "slot" /\ vs[c].res.err = "")
                   => (vs[c].res.byslot = (vs[c].res.srcA.state # "head"))
V_ResultExact == \A c \in VCalls : (VFinished(c) /\ vs[c].fetched /\ vs[c].res.err = "")
                   => (vs[c].res.all = vs[c].ans.vals /\ vs[c].res.act = ActiveOf(vs[c].ans.vals))
\* a failed refresh keeps what was cached (GetBySlot without a preceding Trim)
V_ErrKeeps == [][\A c \in VCalls : (vs[c].pc = "ans" /\ vs'[c].pc = "done" /\ vs'[c].res.err # "") => vc' = vc]_vvars
V_LockHeld == vlock # 0 => vs[vlock].pc \in {"req", "ans"}
VSafety == V_TypeOK /\ V_CacheExact /\ V_FreshAfterTrim /\ V_FetchWhenEmpty /\ V_BySlotFlag /\ V_ResultExact /\ V_LockHeld
====
