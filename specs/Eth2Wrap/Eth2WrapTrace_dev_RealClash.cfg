SPECIFICATION TraceSpec
CONSTANTS
 Nodes = {1, 2, 3}
 SCalls = {1, 2, 3, 4, 5, 6, 7, 8, 9, 10, 11, 12, 13, 14, 15, 16, 17, 18, 19, 20}
 MaxCached = 10
 DevRealClash = TRUE
 DevOrder = FALSE
 DevAliased = FALSE
 DevLookup = FALSE
 SDefect = "none"
 LCalls = {1, 2, 3, 4, 5, 6, 7, 8, 9, 10, 11, 12}
 MaxProv = 14
 LDefect = "none"
 DevDutiesCacheLost = FALSE
 VCalls = {1, 2, 3, 4, 5, 6, 7, 8, 9, 10, 11, 12}
 VDefect = "none"
CONSTRAINT Mark
POSTCONDITION Report
CHECK_DEADLOCK FALSE
