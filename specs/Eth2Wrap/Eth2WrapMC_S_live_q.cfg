SPECIFICATION FairSpec
CONSTANTS
 Nodes = {1}
 SCalls = {1, 2}
 MaxCached = 1
 DevRealClash = FALSE
 DevOrder = FALSE
 DevAliased = FALSE
 DevLookup = FALSE
 SDefect = "none"
 LCalls = {1}
 MaxProv = 1
 LDefect = "none"
 DevDutiesCacheLost = FALSE
 VCalls = {1}
 VDefect = "none"
 Mode = "S"
 MCSPE = 2
 MCEpochs <- E12
 MCSlots = {3}
 MCSOps <- OpsProp
 MCValSets <- A13
 MCMaxReal = 0
 MCBlocks <- BlkU
 MCErrs = TRUE
 MCScribble = FALSE
 MCGraffiti <- GBoth
 MCVers <- VCap
 MCLOps <- LOpsConn
 MCToks <- T1
 MCProvAns <- PAOk
 MCCancel = FALSE
 MCVOps <- VOpsAll
 MCVAns <- VAOk
PROPERTIES SReturns
CONSTRAINT Ordered
CHECK_DEADLOCK FALSE
