SPECIFICATION MCSpec
CONSTANTS
 Nodes = {1}
 SCalls = {1}
 MaxCached = 1
 DevRealClash = FALSE
 DevOrder = FALSE
 DevAliased = FALSE
 DevLookup = FALSE
 SDefect = "none"
 LCalls = {1}
 MaxProv = 1
 LDefect = "none"
 DevDutiesCacheLost = FALSE
 VCalls = {1, 2}
 VDefect = "none"
 Mode = "V"
 MCSPE = 2
 MCEpochs <- E0
 MCSlots = {1}
 MCSOps <- OpsDuties
 MCValSets <- A123
 MCMaxReal = 0
 MCBlocks <- Blk1
 MCErrs = FALSE
 MCScribble = FALSE
 MCGraffiti <- GBoth
 MCVers <- VCap
 MCLOps <- LOpsConn
 MCToks <- T1
 MCProvAns <- PAOk
 MCCancel = FALSE
 MCVOps <- VOpsAll
 MCVAns <- VAAll
INVARIANTS Safety
PROPERTIES V_ErrKeeps
CONSTRAINT Ordered
CHECK_DEADLOCK FALSE
