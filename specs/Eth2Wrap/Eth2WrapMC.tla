---- MODULE Eth2WrapMC ----
(* Exhaustive design check, one component at a time (Mode).  All bounds are here, none in the actions:
     S  which calls the environment may make (MCSArgs), what the wrapped client may answer (validator sets MCValSets, at
        most MCMaxReal real duties per epoch, blocks MCBlocks, errors iff MCErrs), whether callers scribble (MCScribble)
     L  the operations MCLOps with tokens MCToks, the connect answers MCProvAns, cancellation iff MCCancel
     V  the operations MCVOps, the beacon node's answers MCVAns *)
EXTENDS Eth2Wrap
CONSTANTS Mode, MCSPE, MCEpochs, MCSlots, MCSOps, MCValSets, MCMaxReal, MCBlocks, MCErrs, MCScribble, MCGraffiti, MCVers,
          MCLOps, MCToks, MCProvAns, MCCancel, MCVOps, MCVAns

\* ----- S ------------------------------------------------------------------------------------------------------------
A123 == {[v \in {1, 2, 3} |-> v]}
A13 == {[v \in {1, 3} |-> v]}
A123or13 == A123 \cup A13
A1234 == {[v \in {1, 2, 3, 4} |-> v]}
A12 == {[v \in {1, 2} |-> v]}
A2 == {[v \in {2} |-> v]}
Blk1 == {[ver |-> "capella", tok |-> 7, ntx |-> 25]}
Blk2 == {[ver |-> "capella", tok |-> 7, ntx |-> 25], [ver |-> "altair", tok |-> 8, ntx |-> 0]}
BlkU == {[ver |-> "capella", tok |-> 7, ntx |-> 25], [ver |-> "unknown", tok |-> 9, ntx |-> 0]}
GBoth == {SynthGraffiti, "real"}
GNear == {SynthGraffiti, "real", "SYNTHETIC BLOCK: DO NOT SUBMIT!"}
VCap == {"capella"}
VCapAlt == {"capella", "altair"}
OpsDuties == {"duties"}
OpsDP == {"duties", "proposal"}
OpsDPC == {"duties", "dutiesc", "proposal"}
OpsSub == {"submit", "submitb"}
OpsAll == {"duties", "proposal", "submit", "submitb", "prep"}
OpsPP == {"proposal", "prep"}
OpsProp == {"proposal"}
E0 == {0}
E01 == {0, 1}
E012 == {0, 1, 2}
E12 == {1, 2}
Sl(e) == {e * MCSPE + k : k \in 0..(MCSPE - 1)}
ArgsOf(n) ==
   {[NoArgs EXCEPT !.n = n, !.op = op, !.epoch = e] : op \in MCSOps \cap {"duties", "dutiesc"}, e \in MCEpochs}
   \cup {[NoArgs EXCEPT !.n = n, !.op = "proposal", !.slot = s] : s \in (IF "proposal" \in MCSOps THEN MCSlots ELSE {})}
   \cup {[NoArgs EXCEPT !.n = n, !.op = op, !.g = g, !.ver = v] : op \in MCSOps \cap {"submit", "submitb"}, g \in MCGraffiti, v \in MCVers}
   \cup {[NoArgs EXCEPT !.n = n, !.op = "prep", !.fees = f] : f \in (IF "prep" \in MCSOps THEN {[v \in {1} |-> 7], [v \in {2, 3} |-> 8]} ELSE {})}
SArgs == UNION {ArgsOf(n) : n \in Nodes}
Duty(v, s) == [v |-> v, slot |-> s, pk |-> v]
RealSets(e, idx) == {<<>>} \cup (IF MCMaxReal >= 1 THEN {<<Duty(v, s)>> : v \in idx, s \in Sl(e)} ELSE {})
                          \cup (IF MCMaxReal >= 2 THEN {<<Duty(p[1], p[3]), Duty(p[2], p[4])>> : p \in {q \in idx \X idx \X Sl(e) \X Sl(e) : q[1] # q[2] /\ q[3] # q[4]}} ELSE {})
SAnswers(c) ==
  LET k == ss[c].req.k
      err == IF MCErrs THEN {[NoAnsS EXCEPT !.how = "err"]} ELSE {} IN
  CASE k = "vals" -> {[NoAnsS EXCEPT !.how = "ok", !.vals = A] : A \in MCValSets} \cup err
    [] k = "duties" -> {[NoAnsS EXCEPT !.how = "ok", !.duties = R] : R \in RealSets(ss[c].req.epoch, ss[c].req.idx)} \cup err
    [] k = "spec" -> {[NoAnsS EXCEPT !.how = "ok", !.spe = MCSPE]} \cup err \cup (IF MCErrs THEN {[NoAnsS EXCEPT !.how = "zero"]} ELSE {})
    [] k = "block" -> {[NoAnsS EXCEPT !.how = "ok", !.blk = b] : b \in MCBlocks} \cup {[NoAnsS EXCEPT !.how = "404"]} \cup err
    [] k = "prop" -> {[NoAnsS EXCEPT !.how = "ok", !.tok = 5]} \cup err
    [] OTHER -> {[NoAnsS EXCEPT !.how = "ok"]} \cup err
SEnv == \/ \E c \in SCalls : \/ \E a \in SArgs : SCall(c, a)
                             \/ (ss[c].pc = "wait" /\ \E ans \in SAnswers(c) : SAnswer(c, ans))
                             \/ (MCScribble /\ SScribble(c))
SNext == (SEnv \/ \E c \in SCalls : SInternal(c)) /\ SOnly
\* symmetry breaking: calls are made in the order of their numbers
SOrdered == \A c \in SCalls : ss[c].pc # "idle" => \A d \in SCalls : d < c => ss[d].pc # "idle"

\* ----- L ------------------------------------------------------------------------------------------------------------
LOpsConn == {"av", "gen"}
LOpsVC == {"av", "setvc"}
LOpsDC == {"pdc", "setdc"}
LOpsMix == {"av", "setvc", "addr"}
PAOk == {"ok"}
PAOkErr == {"ok", "err"}
PAAll == {"ok", "err", "errcl"}
T1 == {1}
T12 == {1, 2}
\* the setters are not called concurrently with each other (app/app.go calls each once, at start-up); concurrently with
\* everything else they are
SetterFree == \A d \in LCalls : ls[d].pc \notin {"set1", "set2"}
LEnv == \E c \in LCalls : \/ \E op \in MCLOps, t \in MCToks : (op \in SetOps => SetterFree) /\ LCall(c, op, IF op \in SetOps THEN t ELSE 0)
                          \/ \E how \in MCProvAns : LProvAnswer(c, how)
                          \/ (MCCancel /\ ls[c].op \in ClientOps /\ LCancel(c))
LNext == (LEnv \/ \E c \in LCalls : LInternal(c)) /\ LOnly
LOrdered == \A c \in LCalls : ls[c].pc # "idle" => \A d \in LCalls : d < c => ls[d].pc # "idle"

\* ----- V ------------------------------------------------------------------------------------------------------------
Val(i, st) == [i |-> i, pk |-> i, st |-> st]
VS1 == {Val(1, "active_ongoing"), Val(2, "pending_queued")}
VS2 == {Val(1, "active_exiting"), Val(2, "active_ongoing"), Val(3, "exited_unslashed")}
VAOk == {[how |-> "ok", vals |-> VS1]}
VAOk2 == {[how |-> "ok", vals |-> VS1], [how |-> "ok", vals |-> VS2]}
VAErr == {[how |-> "ok", vals |-> VS1], [how |-> "ok", vals |-> VS2], [how |-> "err", vals |-> {}]}
VAAll == {[how |-> "ok", vals |-> VS1], [how |-> "ok", vals |-> VS2], [how |-> "err", vals |-> {}], [how |-> "nilmap", vals |-> {}],
          [how |-> "nilval", vals |-> {}]}
VOpsAll == {"head", "slot", "trim"}
VOpsHT == {"head", "trim"}
VOpsHS == {"head", "slot"}
VEnv == \E c \in VCalls : \/ \E op \in MCVOps : VCall(c, op, IF op = "slot" THEN 5 ELSE 0)
                          \/ \E a \in MCVAns : VAnswer(c, a)
VNext == (VEnv \/ \E c \in VCalls : VInternal(c)) /\ VOnly
VOrdered == \A c \in VCalls : vs[c].pc # "idle" => \A d \in VCalls : d < c => vs[d].pc # "idle"

MCNext == (Mode = "S" /\ SNext) \/ (Mode = "L" /\ LNext) \/ (Mode = "V" /\ VNext)
MCSpec == Init /\ [][MCNext]_vars
Ordered == SOrdered /\ LOrdered /\ VOrdered
Safety == SSafety /\ LSafety /\ VSafety

\* ----- liveness: goroutines keep running, the wrapped client / the connect function / the beacon node answer, the ticker
\* of getOrCreateClient ticks
SFair == \A c \in SCalls : WF_vars(SInternal(c) /\ SOnly) /\ WF_vars(ss[c].pc = "wait" /\ (\E ans \in SAnswers(c) : SAnswer(c, ans)) /\ SOnly)
LFair == \A c \in LCalls : /\ WF_vars(LInternal(c) /\ LOnly) /\ WF_vars((\E how \in MCProvAns : LProvAnswer(c, how)) /\ LOnly)
                           /\ SF_vars(LTry(c) /\ LOnly)
VFair == \A c \in VCalls : WF_vars(VInternal(c) /\ VOnly) /\ WF_vars((\E a \in MCVAns : VAnswer(c, a)) /\ VOnly)
FairSpec == MCSpec /\ SFair /\ LFair /\ VFair
SReturns == \A c \in SCalls : (ss[c].pc # "idle") ~> (ss[c].pc = "ret")
LReturns == \A c \in LCalls : (ls[c].pc # "idle") ~> (ls[c].pc = "ret")
VReturns == \A c \in VCalls : (vs[c].pc # "idle") ~> (vs[c].pc = "ret")
====
