SPECIFICATION MCSpec
CONSTANTS
 Nodes = {1, 2}
 SCalls = {1, 2, 3}
 MaxCached = 1
 DevRealClash = TRUE
 DevOrder = TRUE
 DevAliased = TRUE
 DevLookup = TRUE
 SDefect = "none"
 LCalls = {1}
 MaxProv = 1
 LDefect = "none"
 DevDutiesCacheLost = TRUE
 VCalls = {1}
 VDefect = "none"
 Mode = "S"
 MCSPE = 2
 MCEpochs <- E0
 MCSlots = {1}
 MCSOps <- OpsDuties
 MCValSets <- A123
 MCMaxReal = 1
 MCBlocks <- Blk1
 MCErrs = FALSE
 MCScribble = FALSE
 MCGraffiti <- GBoth
 MCVers <- VCap
 MCLOps <- LOpsConn
 MCToks <- T1
 MCProvAns <- PAOk
 MCCancel = FALSE
 MCVOps <- VOpsAll
 MCVAns <- VAOk
INVARIANTS Safety
CONSTRAINT Ordered
CHECK_DEADLOCK FALSE
