SPECIFICATION MCSpec
CONSTANTS AggReplace = FALSE
 AggKeepFirst = FALSE
 EarlyAdd = FALSE
 MCKinds = {"con"}
 MaxStores = 2
 MaxQ = 2
 MaxExp = 1
 MaxSet = 2
INVARIANTS Safety
PROPERTIES MCNeverReplaced MCOnlyStored
CHECK_DEADLOCK FALSE
