---- MODULE DutyDBMC ----
(* Exhaustive design check: all interleavings of Store (sets of one or two entries, both map orders), Await*
   call / registration / return, cancellation, expiry (before, between and during drains) over a small universe
   per keyspace that contains equal, conflicting and partially conflicting data on overlapping keys. *)
EXTENDS DutyDB
CONSTANTS MCKinds,      \* keyspaces included ("misc" adds the exempt and the unsupported duty type)
          MaxStores, MaxQ, MaxExp, MaxSet
VARIABLE nst
mcvars == <<vars, nst>>

A(pk, slot, comm, val, head, src, tgt) ==
  [pk |-> pk, data |-> <<[slot |-> slot, comm |-> comm, val |-> val, head |-> head, src |-> src, tgt |-> tgt]>>]
P(pk, slot, root, extra) == [pk |-> pk, data |-> <<[slot |-> slot, root |-> root, extra |-> extra]>>]
G(pk, slot, root, comm, bits) == [pk |-> pk, data |-> <<[slot |-> slot, root |-> root, comm |-> comm, bits |-> bits]>>]
Cd(slot, sub, bbr, bits) == [slot |-> slot, sub |-> sub, bbr |-> bbr, bits |-> bits]
Entries(kind) ==
  CASE kind = "att" ->
        {A("A", 1, 1, 1, 1, 1, 1),      \* base
         A("A", 1, 1, 1, 2, 1, 1),      \* same key, other head: conflicts
         A("B", 1, 2, 2, 1, 1, 1),      \* other committee, equal data
         A("B", 1, 2, 2, 2, 1, 1),      \* other committee, other head: passes the alias rule, alias keeps the first
         A("B", 1, 2, 2, 1, 2, 1),      \* other committee, other source: fails at the alias after three inserts
         A("C", 1, 0, 3, 1, 1, 1),      \* committee index 0 itself
         A("C", 1, 0, 3, 2, 1, 1),      \* committee index 0 with another head: full comparison against the alias
         A("B", 1, 1, 1, 1, 1, 1),      \* validator 1 under another pubkey: clashing public key
         A("A", 2, 1, 1, 1, 1, 1)}      \* another slot
    [] kind = "pro" ->
        {P("A", 1, 1, 0), P("B", 1, 1, 1), P("C", 1, 2, 0), P("A", 2, 1, 0)}
    [] kind = "agg" ->
        {G("A", 1, 1, 1, 1), G("B", 1, 1, 1, 2), G("C", 1, 2, 1, 1), G("D", 1, 1, 2, 1), G("A", 2, 1, 1, 1)}
    [] kind = "con" ->
        {[pk |-> "A", data |-> <<Cd(1, 1, 1, 1)>>], [pk |-> "B", data |-> <<Cd(1, 1, 1, 2)>>],
         [pk |-> "C", data |-> <<Cd(1, 2, 1, 1)>>], [pk |-> "D", data |-> <<Cd(1, 1, 1, 1), Cd(1, 2, 1, 2)>>],
         [pk |-> "A", data |-> <<Cd(2, 1, 1, 1)>>]}
    [] OTHER -> {}
QKeys(kind) ==
  CASE kind = "att" -> {[slot |-> 1, comm |-> 0], [slot |-> 1, comm |-> 1], [slot |-> 1, comm |-> 2], [slot |-> 2, comm |-> 0]}
    [] kind = "pro" -> {[slot |-> 1], [slot |-> 2]}
    [] kind = "agg" -> {[slot |-> 1, root |-> 1, comm |-> 1], [slot |-> 1, root |-> 2, comm |-> 1], [slot |-> 2, root |-> 1, comm |-> 1]}
    [] kind = "con" -> {[slot |-> 1, sub |-> 1, bbr |-> 1], [slot |-> 1, sub |-> 2, bbr |-> 1], [slot |-> 2, sub |-> 1, bbr |-> 1]}
    [] OTHER -> {}
SlotOf(e) == e.data[1].slot
Sets(kind, slot) == {E \in SUBSET {e \in Entries(kind) : SlotOf(e) = slot} :
                       /\ E # {} /\ Cardinality(E) <= MaxSet
                       /\ \A e, f \in E : e # f => e.pk # f.pk}          \* an UnsignedDataSet is a map by pubkey
MCInit == Init /\ nst = 0
MCNext ==
  \/ /\ nst < MaxStores /\ nst' = nst + 1
     /\ \/ \E kind \in MCKinds \cap Kinds, slot \in {1, 2} :
             IF EarlyAdd THEN StoreAddEarly(nst + 1, [type |-> kind, slot |-> slot])
             ELSE \E E \in Sets(kind, slot) : StoreBegin(nst + 1, [type |-> kind, slot |-> slot], E)
        \/ "misc" \in MCKinds /\ \E ty \in {"exit", "randao"} : StoreBegin(nst + 1, [type |-> ty, slot |-> 1], {})
  \/ /\ UNCHANGED nst
     /\ \E p \in dl.pre : \E E \in Sets(p.duty.type, p.duty.slot) : StoreWriteLate(p.o, E)
  \/ (DrainOne \/ StoreEnd) /\ UNCHANGED nst
  \/ /\ Cardinality(DOMAIN q) < MaxQ /\ UNCHANGED nst
     /\ \E kind \in MCKinds \cap Kinds : \E key \in QKeys(kind) : AwaitCall(Cardinality(DOMAIN q) + 1, kind, key)
  \/ \E i \in DOMAIN q : /\ UNCHANGED nst
                         /\ \/ AwaitRegister(i) \/ ReturnValue(i) \/ ReturnCtxErr(i)
                            \/ (q[i].st # "done" /\ ~q[i].cx /\ Cancel(i))
  \/ /\ Cardinality(dl.exp) < MaxExp /\ UNCHANGED nst
     /\ \E kind \in MCKinds \cap Kinds, slot \in {1, 2} : Expire([type |-> kind, slot |-> slot])
MCSpec == MCInit /\ [][MCNext]_mcvars
MCNeverReplaced == [][NeverReplacedStep]_mcvars
MCOnlyStored == [][OnlyStoredStep]_mcvars
\* liveness: a resolved query returns; a cancelled one returns (fair scheduling of the waiting goroutine)
FairSpec == MCSpec /\ \A i \in 1..MaxQ : WF_mcvars(ReturnValue(i) /\ UNCHANGED nst) /\ WF_mcvars(ReturnCtxErr(i) /\ UNCHANGED nst)
St(i) == IF i \in DOMAIN q THEN q[i].st ELSE "none"
Cx(i) == i \in DOMAIN q /\ q[i].cx
Live == \A i \in 1..MaxQ : []((St(i) = "ready" \/ (St(i) = "wait" /\ Cx(i))) => <>(St(i) = "done"))
====
