---- MODULE DutyDB ----
(* core/dutydb/memory.go (MemDB) with a scripted core.Deadliner.  One action per critical section of db.mu; the
   expiry drain loop at the end of Store is one action per loop iteration because the deadliner channel is fed
   from outside the lock.

   Data as they arrive in Store (the pubkey is the map key of the UnsignedDataSet entry):
     att  [slot, comm, val, head, src, tgt]   core.AttestationData (Duty.CommitteeIndex/ValidatorIndex and the Data fields)
     pro  [slot, root, extra]                 core.VersionedProposal (root = block root, extra = ExecutionValue)
     agg  [slot, root, comm, bits]            core.VersionedAggregatedAttestation (root = attestation data root)
     con  [slot, sub, bbr, bits]              core.SyncContribution(s)
   The maps (functions with a growing domain):
     db.att  [slot, comm]      -> [slot, head, src, tgt]     attDuties (incl. the committee-index-0 alias)
     db.pk   [slot, comm, val] -> pubkey                     attPubKeys (attKeysBySlot = the keys of one slot)
     db.pro  [slot]            -> [slot, root, extra]        proDuties
     db.agg  [slot, root, comm]-> [slot, root, comm, bits]   aggDuties
     db.con  [slot, sub, bbr]  -> [slot, sub, bbr, bits]     contribDuties
   Environment assumptions: every datum of a Store carries the slot and kind of the duty, Expire only for duties of
   the four stored kinds.

   Switches for storeAggAttestationUnsafe meeting an aggregate with the key (hence data root) of a stored one but
   different aggregation bits / signature:  always allowed: reject (error);
     AggKeepFirst  also allowed: keep the stored one and return nil (either repair satisfies the statement);
     AggReplace    also allowed: overwrite it and return nil  -- the code as it is (named deviation AggReplace). *)
EXTENDS Integers, Sequences, FiniteSets, TLC
CONSTANTS AggReplace, AggKeepFirst,
          EarlyAdd      \* TRUE: Store asks the deadliner BEFORE it takes db.mu (a defect, only used as a control:
                        \* the expiry test and the write are then two critical sections); FALSE: the required design

VARIABLES db,       \* the five maps
          q,        \* queries: id -> [st, kind, key, resp, cx]; st: called | wait | ready | done
          dl,       \* scripted deadliner: [exp, sch: sets of duties; ch: sequence of duties not yet drained;
                    \*   pre: Stores that have their Add answer but not yet the mutex (always {} unless EarlyAdd)]
          lk,       \* db.mu as far as it is visible: held by a Store that is in its drain loop
          answers,  \* history: [kind, key, c] returned by Await*
          last      \* history: what the most recent critical section did
vars == <<db, q, dl, lk, answers, last>>

Kinds == {"att", "pro", "agg", "con"}
ExemptTypes == {"exit"}                     \* the deadliner answers Exempt; any other type: "unsupported duty type"
Nil == [nil |-> TRUE]
Free == [held |-> FALSE]
Empty == [x \in {} |-> Nil]
Init == /\ db = [att |-> Empty, pk |-> Empty, pro |-> Empty, agg |-> Empty, con |-> Empty]
        /\ q = Empty /\ dl = [exp |-> {}, sch |-> {}, ch |-> <<>>, pre |-> {}] /\ lk = Free /\ answers = {}
        /\ last = [op |-> "init", ok |-> FALSE, resolved |-> FALSE, kind |-> "-", st |-> "-", changed |-> FALSE]

Map(D, kind) == CASE kind = "att" -> D.att [] kind = "pro" -> D.pro [] kind = "agg" -> D.agg [] OTHER -> D.con
Ins(f, k, v) == IF k \in DOMAIN f THEN f ELSE f @@ (k :> v)
Drop(f, S) == [k \in DOMAIN f \ S |-> f[k]]
\* what the validator signs: for a proposal the block (root), not the execution value
Signed(kind, c) == IF kind = "pro" THEN [slot |-> c.slot, root |-> c.root] ELSE c

---------------------------------------------------------------------------------------------------
(* store*Unsafe: each returns the SET of possible <<db, ok>> outcomes. *)
PutAtt(D, pkey, d) ==          \* storeAttestationUnsafe: four inserts, each with its own clash test, in this order
  LET c  == [slot |-> d.slot, head |-> d.head, src |-> d.src, tgt |-> d.tgt]
      p1 == [slot |-> d.slot, comm |-> d.comm, val |-> d.val]
      a1 == [slot |-> d.slot, comm |-> d.comm]
      p0 == [slot |-> d.slot, comm |-> 0, val |-> d.val]
      a0 == [slot |-> d.slot, comm |-> 0]
      D1 == [D  EXCEPT !.pk  = Ins(@, p1, pkey)]
      D2 == [D1 EXCEPT !.att = Ins(@, a1, c)]
      D3 == [D2 EXCEPT !.pk  = Ins(@, p0, pkey)]
      D4 == [D3 EXCEPT !.att = Ins(@, a0, c)]
  IN  IF p1 \in DOMAIN D.pk /\ D.pk[p1] # pkey THEN {<<D, FALSE>>}                    \* clashing public key
      ELSE IF a1 \in DOMAIN D1.att /\ D1.att[a1] # c THEN {<<D1, FALSE>>}            \* clashing attestation data
      ELSE IF p0 \in DOMAIN D2.pk /\ D2.pk[p0] # pkey THEN {<<D2, FALSE>>}           \* clashing public key (alias)
      ELSE IF a0 \in DOMAIN D3.att /\ (D3.att[a0].src # c.src \/ D3.att[a0].tgt # c.tgt)
             THEN {<<D3, FALSE>>}                                                    \* alias: source/target only
      ELSE {<<D4, TRUE>>}
PutPro(D, d) ==
  LET k == [slot |-> d.slot] IN
  IF k \notin DOMAIN D.pro THEN {<<[D EXCEPT !.pro = @ @@ (k :> d)], TRUE>>}
  ELSE IF D.pro[k].root # d.root THEN {<<D, FALSE>>}                                  \* clashing blocks
  ELSE {<<D, TRUE>>, <<[D EXCEPT !.pro[k] = d], TRUE>>}      \* same signed content: the statement is silent on which stays
PutAgg(D, d) ==
  LET k == [slot |-> d.slot, root |-> d.root, comm |-> d.comm] IN
  IF k \notin DOMAIN D.agg THEN {<<[D EXCEPT !.agg = @ @@ (k :> d)], TRUE>>}
  ELSE IF D.agg[k] = d THEN {<<D, TRUE>>}
  ELSE {<<D, FALSE>>} \cup (IF AggKeepFirst THEN {<<D, TRUE>>} ELSE {})
                      \cup (IF AggReplace THEN {<<[D EXCEPT !.agg[k] = d], TRUE>>} ELSE {})
PutCon(D, d) ==
  LET k == [slot |-> d.slot, sub |-> d.sub, bbr |-> d.bbr] IN
  IF k \notin DOMAIN D.con THEN {<<[D EXCEPT !.con = @ @@ (k :> d)], TRUE>>}
  ELSE IF D.con[k] # d THEN {<<D, FALSE>>}                                            \* clashing sync contributions
  ELSE {<<D, TRUE>>}
Put(D, kind, pkey, d) == CASE kind = "att" -> PutAtt(D, pkey, d) [] kind = "pro" -> PutPro(D, d)
                           [] kind = "agg" -> PutAgg(D, d) [] OTHER -> PutCon(D, d)
\* the loop over the set: stops at the first error, leaving what was stored before it
RECURSIVE FoldSeq(_, _, _)
FoldSeq(D, kind, s) ==
  IF s = <<>> THEN {<<D, TRUE>>}
  ELSE UNION {IF r[2] THEN FoldSeq(r[1], kind, Tail(s)) ELSE {r} : r \in Put(D, kind, s[1][1], s[1][2])}
\* an entry is [pk, data]: data is a sequence (one datum; several for core.SyncContributions, stored in order)
RECURSIVE Flatten(_)
Flatten(es) == IF es = <<>> THEN <<>>
               ELSE [i \in 1..Len(es[1].data) |-> <<es[1].pk, es[1].data[i]>>] \o Flatten(Tail(es))
Perms(S) == {f \in [1..Cardinality(S) -> S] : \A i, j \in 1..Cardinality(S) : i # j => f[i] # f[j]}
StoreOutcomes(D, kind, E) == UNION {FoldSeq(D, kind, Flatten(p)) : p \in Perms(E)}    \* Go map iteration order

Resolve(kind, D, Q) ==                      \* resolve*QueriesUnsafe
  [i \in DOMAIN Q |-> IF Q[i].st = "wait" /\ Q[i].kind = kind /\ Q[i].key \in DOMAIN Map(D, kind)
                        THEN [Q[i] EXCEPT !.st = "ready", !.resp = Map(D, kind)[Q[i].key]] ELSE Q[i]]
Delete(D, duty) ==                          \* deleteDutyUnsafe
  CASE duty.type = "att" -> [D EXCEPT !.pk = Drop(@, {k \in DOMAIN @ : k.slot = duty.slot}),
                                      !.att = Drop(@, {k \in DOMAIN @ : k.slot = duty.slot})]
    [] duty.type = "pro" -> [D EXCEPT !.pro = Drop(@, {[slot |-> duty.slot]})]
    [] duty.type = "agg" -> [D EXCEPT !.agg = Drop(@, {k \in DOMAIN @ : k.slot = duty.slot})]
    [] OTHER             -> [D EXCEPT !.con = Drop(@, {k \in DOMAIN @ : k.slot = duty.slot})]

DlStatus(d) == IF d.type \in ExemptTypes THEN "Exempt" ELSE IF d \in dl.exp THEN "Expired" ELSE "Scheduled"
Mk(op, ok, res, kind, st, ch) == [op |-> op, ok |-> ok, resolved |-> res, kind |-> kind, st |-> st, changed |-> ch]

---------------------------------------------------------------------------------------------------
(* Store, first part: deadliner.Add, the loop over the set, resolve*QueriesUnsafe.  On an error the mutex is
   released immediately (no resolve: PartialStoreNoResolve, no drain); otherwise the drain loop follows. *)
StoreWrite(o, duty, E, st) ==              \* everything after the Add answer st
  /\ ~lk.held /\ UNCHANGED answers
  /\ IF st # "Scheduled" \/ duty.type \notin Kinds \/ (duty.type = "pro" /\ Cardinality(E) > 1)
       THEN UNCHANGED <<db, q, lk>> /\ last' = Mk("store", FALSE, FALSE, duty.type, st, FALSE)
       ELSE \E r \in StoreOutcomes(db, duty.type, E) :
              /\ db' = r[1]
              /\ IF r[2] THEN q' = Resolve(duty.type, r[1], q) /\ lk' = [held |-> TRUE, op |-> o]
                         ELSE UNCHANGED <<q, lk>>
              /\ last' = Mk("store", r[2], r[2], duty.type, st, r[1] # db)
StoreBegin(o, duty, E) ==                  \* the required design: Add is answered under the mutex
  /\ StoreWrite(o, duty, E, DlStatus(duty))
  /\ dl' = [dl EXCEPT !.sch = IF DlStatus(duty) = "Scheduled" THEN @ \cup {duty} ELSE @]
\* control only (EarlyAdd): Add outside the mutex, the write in a later critical section
StoreAddEarly(o, duty) ==
  /\ EarlyAdd /\ \A p \in dl.pre : p.o # o
  /\ dl' = [dl EXCEPT !.sch = IF DlStatus(duty) = "Scheduled" THEN @ \cup {duty} ELSE @,
                      !.pre = @ \cup {[o |-> o, duty |-> duty, st |-> DlStatus(duty)]}]
  /\ UNCHANGED <<db, q, lk, answers, last>>
StoreWriteLate(o, E) ==
  /\ EarlyAdd /\ \E p \in dl.pre : /\ p.o = o /\ StoreWrite(o, p.duty, E, p.st)
                                   /\ dl' = [dl EXCEPT !.pre = @ \ {p}]
\* one iteration of "Delete all expired duties": a duty is waiting in deadliner.C()
DrainOne == /\ lk.held /\ dl.ch # <<>>
            /\ db' = Delete(db, Head(dl.ch)) /\ dl' = [dl EXCEPT !.ch = Tail(@)]
            /\ last' = Mk("drain", FALSE, FALSE, Head(dl.ch).type, "-", FALSE)
            /\ UNCHANGED <<q, lk, answers>>
\* the select's default arm: C() is empty, Store returns nil
StoreEnd == /\ lk.held /\ dl.ch = <<>> /\ lk' = Free
            /\ last' = Mk("end", TRUE, FALSE, "-", "-", FALSE)
            /\ UNCHANGED <<db, q, dl, answers>>

\* Await*: the call is made (the context may already be cancelled) ...
AwaitCall(i, kind, key) == /\ i \notin DOMAIN q
                           /\ q' = q @@ (i :> [st |-> "called", kind |-> kind, key |-> key, resp |-> Nil, cx |-> FALSE])
                           /\ UNCHANGED <<db, dl, lk, answers, last>>
\* ... its critical section: append the query, resolve ALL queries of that kind ...
AwaitRegister(i) == /\ ~lk.held /\ i \in DOMAIN q /\ q[i].st = "called"
                    /\ q' = Resolve(q[i].kind, db, [q EXCEPT ![i].st = "wait"])
                    /\ last' = Mk("reg", FALSE, TRUE, q[i].kind, "-", FALSE)
                    /\ UNCHANGED <<db, dl, lk, answers>>
\* ... and its select: a response, or the context error (either when both are ready)
ReturnValue(i) == /\ i \in DOMAIN q /\ q[i].st = "ready"
                  /\ q' = [q EXCEPT ![i].st = "done"]
                  /\ answers' = answers \cup {[kind |-> q[i].kind, key |-> q[i].key, c |-> q[i].resp]}
                  /\ UNCHANGED <<db, dl, lk, last>>
ReturnCtxErr(i) == /\ i \in DOMAIN q /\ q[i].st \in {"wait", "ready"} /\ q[i].cx
                   /\ q' = [q EXCEPT ![i].st = "done", ![i].resp = Nil]
                   /\ UNCHANGED <<db, dl, lk, answers, last>>
Cancel(i) == /\ i \in DOMAIN q /\ q' = [q EXCEPT ![i].cx = TRUE]
             /\ UNCHANGED <<db, dl, lk, answers, last>>
\* the scripted deadliner reports the duty: from now on Add answers Expired; it is put on C() if it was scheduled
Expire(d) == /\ d \notin dl.exp /\ d.type \in Kinds
             /\ dl' = [dl EXCEPT !.exp = @ \cup {d}, !.sch = @ \ {d},
                                 !.ch = IF d \in dl.sch THEN Append(@, d) ELSE @]
             /\ UNCHANGED <<db, q, lk, answers, last>>
\* PubKeyByAttestation (a read under the mutex)
PubKeyAnswer(k) == IF k \in DOMAIN db.pk THEN db.pk[k] ELSE "notfound"
PubKey(k) == ~lk.held /\ UNCHANGED vars

---------------------------------------------------------------------------------------------------
(* Properties (C06). *)
AllMaps == {"att", "pro", "agg", "con"}
\* all answers ever given for one key have identical signed content
UniquePerKeyOn(K) == \A a, b \in answers : (a.kind \in K /\ a.kind = b.kind /\ a.key = b.key) => Signed(a.kind, a.c) = Signed(b.kind, b.c)
UniquePerKey == UniquePerKeyOn(AllMaps)
\* an answer belongs to the key it was asked for
AnswerKeyed == \A a \in answers :
   CASE a.kind = "att" -> a.c.slot = a.key.slot
     [] a.kind = "pro" -> a.c.slot = a.key.slot
     [] a.kind = "agg" -> [slot |-> a.c.slot, root |-> a.c.root, comm |-> a.c.comm] = a.key
     [] OTHER          -> [slot |-> a.c.slot, sub |-> a.c.sub, bbr |-> a.c.bbr] = a.key
\* a step never replaces a stored datum by one with different signed content (it may delete it on expiry), and
\* never changes a stored pubkey
NeverReplacedOn(K) ==
  /\ \A kind \in K : \A k \in DOMAIN Map(db, kind) :
        k \in DOMAIN Map(db', kind) => Signed(kind, Map(db', kind)[k]) = Signed(kind, Map(db, kind)[k])
  /\ \A k \in DOMAIN db.pk : k \in DOMAIN db'.pk => db'.pk[k] = db.pk[k]
NeverReplacedStep == NeverReplacedOn(AllMaps)
NeverReplaced == [][NeverReplacedStep]_vars
\* a query is answered with what is stored under its key at that moment
OnlyStoredStep == \A i \in DOMAIN q : (i \in DOMAIN q' /\ q[i].st # "ready" /\ q'[i].st = "ready") =>
                     (q'[i].key \in DOMAIN Map(db', q'[i].kind) /\ q'[i].resp = Map(db', q'[i].kind)[q'[i].key])
OnlyStored == [][OnlyStoredStep]_vars
\* a Store for an expired or exempt duty fails and changes nothing
ExpiredRefused == (last.op = "store" /\ last.st # "Scheduled") => (~last.ok /\ ~last.changed)
\* nothing is stored for a duty that has expired and is no longer waiting on C() to be trimmed (it has been drained,
\* or it was never scheduled): its data were deleted and every later Store of it is refused
NoData(D, d) == Delete(D, d) = D
ExpiredGone == \A d \in dl.exp : (d.type \in Kinds /\ \A i \in DOMAIN dl.ch : dl.ch[i] # d) => NoData(db, d)
\* after a successful Store, and after an Await* registration, no waiting query of that kind has its key stored
Prompt == last.resolved => \A i \in DOMAIN q : (q[i].st = "wait" /\ q[i].kind = last.kind) =>
                                               q[i].key \notin DOMAIN Map(db, last.kind)
\* the attester index is consistent: every stored attestation datum is reachable from a pubkey entry of its slot
\* and committee (so that expiry removes it)
AttIndexed == \A k \in DOMAIN db.att : \E p \in DOMAIN db.pk : p.slot = k.slot /\ p.comm = k.comm
TypeOK == /\ lk.held => (last.op \in {"store", "drain"})
          /\ \A i \in DOMAIN q : q[i].st \in {"called", "wait", "ready", "done"}
          /\ \A i \in DOMAIN q : (q[i].st = "ready") => q[i].resp # Nil
Safety == UniquePerKey /\ AnswerKeyed /\ ExpiredRefused /\ ExpiredGone /\ Prompt /\ AttIndexed /\ TypeOK
====
