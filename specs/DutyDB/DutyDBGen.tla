---- MODULE DutyDBGen ----
(* Schedule generation for the sequential tier: behaviours of the design spec over the MC universe (all four
   keyspaces at once); only the ENVIRONMENT's moves are recorded in `hist` (Store / Await / Cancel / Expire /
   PubKey with their arguments).  What the implementation does with them (drain, registration, returns) is
   taken silently and with priority, as the sequential driver waits for it.  Run with -simulate. *)
EXTENDS DutyDBMC, Json
CONSTANTS GenLen
VARIABLE hist
gvars == <<mcvars, hist>>
GenInit == MCInit /\ hist = <<>>
\* the aggregate with the key of G("A",1,1,1,1) but other aggregation bits is left out: on the unchanged tree it
\* triggers the known finding AggReplace, which has its own probe and a small share of the random schedules
GenSets(kind, slot) == {E \in Sets(kind, slot) : G("B", 1, 1, 1, 2) \notin E}
Busy == lk.held \/ \E i \in DOMAIN q : q[i].st = "called" \/ q[i].st = "ready" \/ (q[i].st = "wait" /\ q[i].cx)
PkKeys == {[slot |-> 1, comm |-> 0, val |-> 1], [slot |-> 1, comm |-> 1, val |-> 1], [slot |-> 1, comm |-> 0, val |-> 2], [slot |-> 1, comm |-> 2, val |-> 2], [slot |-> 2, comm |-> 1, val |-> 1]}
GenNext ==
  \/ /\ Busy /\ UNCHANGED <<nst, hist>>
     /\ \/ DrainOne \/ StoreEnd
        \/ \E i \in DOMAIN q : AwaitRegister(i) \/ ReturnValue(i) \/ ReturnCtxErr(i)
  \/ /\ ~Busy /\ nst' = nst + 1
     /\ \/ \E kind \in Kinds, slot \in {1, 2} : \E E \in GenSets(kind, slot) :
             /\ StoreBegin(nst + 1, [type |-> kind, slot |-> slot], E)
             /\ hist' = Append(hist, [op |-> "Store", duty |-> [type |-> kind, slot |-> slot], set |-> E])
        \/ \E ty \in {"exit", "randao"} :
             /\ StoreBegin(nst + 1, [type |-> ty, slot |-> 1], {})
             /\ hist' = Append(hist, [op |-> "Store", duty |-> [type |-> ty, slot |-> 1], set |-> {}])
  \/ /\ ~Busy /\ Cardinality(DOMAIN q) < MaxQ /\ UNCHANGED nst
     /\ \E kind \in Kinds : \E key \in QKeys(kind) :
          /\ AwaitCall(Cardinality(DOMAIN q) + 1, kind, key)
          /\ hist' = Append(hist, [op |-> "Await", q |-> Cardinality(DOMAIN q) + 1, kind |-> kind, key |-> key])
  \/ /\ ~Busy /\ UNCHANGED nst
     /\ \E i \in DOMAIN q : /\ q[i].st = "wait" /\ ~q[i].cx /\ Cancel(i)
                            /\ hist' = Append(hist, [op |-> "Cancel", q |-> i])
  \/ /\ ~Busy /\ Cardinality(dl.exp) < MaxExp /\ UNCHANGED nst
     /\ \E kind \in Kinds, slot \in {1, 2} :
          /\ Expire([type |-> kind, slot |-> slot])
          /\ hist' = Append(hist, [op |-> "Expire", duty |-> [type |-> kind, slot |-> slot]])
  \/ /\ ~Busy /\ UNCHANGED <<vars, nst>>
     /\ \E k \in PkKeys : hist' = Append(hist, [op |-> "PubKey", key |-> k])
GenSpec == GenInit /\ [][GenNext]_gvars
Emit == Len(hist) < GenLen \/ PrintT("@@SCHED@@" \o ToJson(hist))
Stop == Len(hist) <= GenLen
====
