SPECIFICATION MCSpec
CONSTANTS AggReplace = FALSE
 AggKeepFirst = FALSE
 EarlyAdd = FALSE
 MCKinds = {"agg"}
 MaxStores = 4
 MaxQ = 2
 MaxExp = 2
 MaxSet = 2
INVARIANTS Safety
PROPERTIES MCNeverReplaced MCOnlyStored
CHECK_DEADLOCK FALSE
