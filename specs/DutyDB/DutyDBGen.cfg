SPECIFICATION GenSpec
CONSTANTS AggReplace = FALSE
 AggKeepFirst = FALSE
 EarlyAdd = FALSE
 MCKinds = {"att","pro","agg","con","misc"}
 MaxStores = 100
 MaxQ = 6
 MaxExp = 3
 MaxSet = 2
 GenLen = 14
INVARIANTS Emit
CONSTRAINT Stop
CHECK_DEADLOCK FALSE
