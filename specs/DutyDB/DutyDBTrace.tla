---- MODULE DutyDBTrace ----
(* Trace validation for core/dutydb/memory.go.  One event vocabulary for the sequential and the concurrent
   executor (harness/c06): every call that enters db.mu is logged as a call event and a return event; the state
   change is a silent spec step between the two (linearisability by trace validation).  In sequential traces the
   return event follows its call event immediately, in concurrent traces events of several goroutines interleave
   (ordered by a per-run atomic sequence number taken before a call is made / after it has returned).
     {"ev":"Reset","sid":n,"mode":"seq"|"conc"}
     {"ev":"StoreCall","op":o,"duty":{"type":..,"slot":..},"set":[{"pk":..,"data":[datum..]}..]}
     {"ev":"StoreRet","op":o,"res":"ok"|"err"[,"dl":"Scheduled"|"Expired"|"Exempt"]}    dl: what the deadliner answered
     {"ev":"AwaitCall","q":i,"kind":..,"key":{..}}    the Await* call is about to be made
     {"ev":"AwaitReg","q":i}                           its select has been reached (ctx.Done() was evaluated): registered
     {"ev":"Return","q":i,"res":content | {"err":"ctx"}}
     {"ev":"Cancel","q":i}                             the query's context is about to be cancelled
     {"ev":"Blocked","q":i}                            the driver waited (5 s) for query i to return; it did not
     {"ev":"ExpireCall","op":o,"duty":..} {"ev":"ExpireRet","op":o}     the scripted deadliner reports the duty
     {"ev":"PubKeyCall","op":o,"key":{..}} {"ev":"PubKeyRet","op":o,"res":pk|"notfound"}
     {"ev":"Hang"}                                     matches no step
   Go map iteration order inside Store is not logged: TLC infers it from the result and from later answers. *)
EXTENDS DutyDB, TraceCommon
VARIABLE pend          \* operations between their call and return event
tvars == <<vars, pend, tr, l>>
TraceInit == Init /\ pend = Empty /\ TrInit

TReset == IsEvent("Reset") /\ UNCHANGED <<vars, pend>>

TStoreCall == /\ IsEvent("StoreCall") /\ Ev.op \notin DOMAIN pend
              /\ pend' = pend @@ (Ev.op :> [ph |-> "called", duty |-> Ev.duty, set |-> SeqToSet(Ev.set), ok |-> FALSE, st |-> "-"])
              /\ UNCHANGED vars
TStoreBegin == \E o \in DOMAIN pend :
                 /\ pend[o].ph = "called" /\ StoreBegin(o, pend[o].duty, pend[o].set) /\ Silent
                 /\ pend' = [pend EXCEPT ![o].ph = IF lk'.held THEN "drain" ELSE "done", ![o].ok = last'.ok, ![o].st = last'.st]
TDrain == DrainOne /\ Silent /\ UNCHANGED pend
TStoreEnd == StoreEnd /\ Silent /\ pend' = [pend EXCEPT ![lk.op].ph = "done"]
TStoreRet == /\ IsEvent("StoreRet") /\ Ev.op \in DOMAIN pend /\ pend[Ev.op].ph = "done"
             /\ (Ev.res = "ok") = pend[Ev.op].ok
             /\ Has(Ev, "dl") => Ev.dl = pend[Ev.op].st
             /\ pend' = Drop(pend, {Ev.op}) /\ UNCHANGED vars

TAwaitCall == IsEvent("AwaitCall") /\ AwaitCall(Ev.q, Ev.kind, Ev.key) /\ UNCHANGED pend
TRegister == \E i \in DOMAIN q : AwaitRegister(i) /\ Silent /\ UNCHANGED pend
TAwaitReg == /\ IsEvent("AwaitReg") /\ Ev.q \in DOMAIN q /\ q[Ev.q].st # "called" /\ UNCHANGED <<vars, pend>>
TReturn == /\ IsEvent("Return") /\ UNCHANGED pend
           /\ IF Has(Ev.res, "err") THEN ReturnCtxErr(Ev.q)
              ELSE Ev.q \in DOMAIN q /\ q[Ev.q].st = "ready" /\ q[Ev.q].resp = Ev.res /\ ReturnValue(Ev.q)
TCancel == IsEvent("Cancel") /\ Cancel(Ev.q) /\ UNCHANGED pend
\* the generous wait is over and the query has not returned: only allowed when it has nothing to return
TBlocked == /\ IsEvent("Blocked") /\ Ev.q \in DOMAIN q /\ q[Ev.q].st = "wait" /\ ~q[Ev.q].cx
            /\ UNCHANGED <<vars, pend>>

TExpireCall == /\ IsEvent("ExpireCall") /\ Ev.op \notin DOMAIN pend
               /\ pend' = pend @@ (Ev.op :> [ph |-> "xcalled", duty |-> Ev.duty]) /\ UNCHANGED vars
TExpire == \E o \in DOMAIN pend :
             /\ pend[o].ph = "xcalled" /\ Silent /\ pend' = [pend EXCEPT ![o].ph = "xdone"]
             /\ IF pend[o].duty \in dl.exp THEN UNCHANGED vars ELSE Expire(pend[o].duty)
TExpireRet == /\ IsEvent("ExpireRet") /\ Ev.op \in DOMAIN pend /\ pend[Ev.op].ph = "xdone"
              /\ pend' = Drop(pend, {Ev.op}) /\ UNCHANGED vars

TPubKeyCall == /\ IsEvent("PubKeyCall") /\ Ev.op \notin DOMAIN pend
               /\ pend' = pend @@ (Ev.op :> [ph |-> "pcalled", key |-> Ev.key, ans |-> "-"]) /\ UNCHANGED vars
TPubKey == \E o \in DOMAIN pend :
             /\ pend[o].ph = "pcalled" /\ PubKey(pend[o].key) /\ Silent
             /\ pend' = [pend EXCEPT ![o].ph = "pdone", ![o].ans = PubKeyAnswer(pend[o].key)]
TPubKeyRet == /\ IsEvent("PubKeyRet") /\ Ev.op \in DOMAIN pend /\ pend[Ev.op].ph = "pdone"
              /\ pend[Ev.op].ans = Ev.res
              /\ pend' = Drop(pend, {Ev.op}) /\ UNCHANGED vars

TraceNext == \/ TReset \/ TStoreCall \/ TStoreBegin \/ TDrain \/ TStoreEnd \/ TStoreRet
             \/ TAwaitCall \/ TRegister \/ TAwaitReg \/ TReturn \/ TCancel \/ TBlocked
             \/ TExpireCall \/ TExpire \/ TExpireRet \/ TPubKeyCall \/ TPubKey \/ TPubKeyRet
TraceSpec == TraceInit /\ [][TraceNext]_tvars
\* with the deviation AggReplace switched on, the aggregate keyspace is exempt from the two properties it breaks
Chk == IF AggReplace THEN AllMaps \ {"agg"} ELSE AllMaps
Mark == /\ CheckInv("UniquePerKey", UniquePerKeyOn(Chk)) /\ CheckInv("AnswerKeyed", AnswerKeyed)
        /\ CheckInv("ExpiredRefused", ExpiredRefused) /\ CheckInv("ExpiredGone", ExpiredGone)
        /\ CheckInv("Prompt", Prompt)
        /\ CheckInv("AttIndexed", AttIndexed) /\ CheckInv("TypeOK", TypeOK)
ActOK == /\ CheckInv("NeverReplaced", NeverReplacedOn(Chk))
         /\ CheckInv("OnlyStored", OnlyStoredStep)
         /\ HWMarkA
====
