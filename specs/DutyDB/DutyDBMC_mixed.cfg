SPECIFICATION MCSpec
CONSTANTS AggReplace = FALSE
 AggKeepFirst = FALSE
 EarlyAdd = FALSE
 MCKinds = {"pro","agg","con"}
 MaxStores = 3
 MaxQ = 1
 MaxExp = 2
 MaxSet = 1
INVARIANTS Safety
PROPERTIES MCNeverReplaced MCOnlyStored
CHECK_DEADLOCK FALSE
