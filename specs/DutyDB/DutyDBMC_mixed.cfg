SPECIFICATION MCSpec
CONSTANTS AggReplace = FALSE
 AggKeepFirst = FALSE
 MCKinds = {"pro","agg"}
 MaxStores = 3
 MaxQ = 2
 MaxExp = 1
 MaxSet = 1
INVARIANTS Safety
PROPERTIES MCNeverReplaced MCOnlyStored
CHECK_DEADLOCK FALSE
