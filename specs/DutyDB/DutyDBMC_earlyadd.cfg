SPECIFICATION MCSpec
CONSTANTS AggReplace = FALSE
 AggKeepFirst = FALSE
 EarlyAdd = TRUE
 MCKinds = {"pro"}
 MaxStores = 2
 MaxQ = 1
 MaxExp = 1
 MaxSet = 1
INVARIANTS ExpiredGone
CHECK_DEADLOCK FALSE
