SPECIFICATION FairSpec
CONSTANTS AggReplace = FALSE
 AggKeepFirst = FALSE
 EarlyAdd = FALSE
 MCKinds = {"pro","agg"}
 MaxStores = 2
 MaxQ = 2
 MaxExp = 1
 MaxSet = 1
PROPERTIES Live
CHECK_DEADLOCK FALSE
