SPECIFICATION MCSpec
CONSTANTS AggReplace = TRUE
 AggKeepFirst = FALSE
 EarlyAdd = FALSE
 MCKinds = {"agg"}
 MaxStores = 2
 MaxQ = 2
 MaxExp = 0
 MaxSet = 1
INVARIANTS Safety
CHECK_DEADLOCK FALSE
