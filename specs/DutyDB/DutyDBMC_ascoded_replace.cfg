SPECIFICATION MCSpec
CONSTANTS AggReplace = TRUE
 AggKeepFirst = FALSE
 EarlyAdd = FALSE
 MCKinds = {"agg"}
 MaxStores = 2
 MaxQ = 0
 MaxExp = 0
 MaxSet = 1
PROPERTIES MCNeverReplaced
CHECK_DEADLOCK FALSE
