SPECIFICATION TraceSpec
CONSTANTS AggReplace = TRUE
 AggKeepFirst = TRUE
CONSTRAINT Mark
ACTION_CONSTRAINT ActOK
POSTCONDITION Report
CHECK_DEADLOCK FALSE
