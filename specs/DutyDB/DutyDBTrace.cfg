SPECIFICATION TraceSpec
CONSTANTS AggReplace = FALSE
 AggKeepFirst = TRUE
 EarlyAdd = FALSE
CONSTRAINT Mark
ACTION_CONSTRAINT ActOK
POSTCONDITION Report
CHECK_DEADLOCK FALSE
