SPECIFICATION TraceSpec
CONSTANTS AggReplace = FALSE
 AggKeepFirst = TRUE
CONSTRAINT Mark
ACTION_CONSTRAINT ActOK
POSTCONDITION Report
CHECK_DEADLOCK FALSE
