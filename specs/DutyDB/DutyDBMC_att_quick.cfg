SPECIFICATION MCSpec
CONSTANTS AggReplace = FALSE
 AggKeepFirst = FALSE
 EarlyAdd = FALSE
 MCKinds = {"att"}
 MaxStores = 3
 MaxQ = 1
 MaxExp = 1
 MaxSet = 2
INVARIANTS Safety
PROPERTIES MCNeverReplaced MCOnlyStored
CHECK_DEADLOCK FALSE
