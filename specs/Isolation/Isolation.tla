---- MODULE Isolation ----
(* C18 -- values passed between workflow components are isolated copies.

   A HEAP model.  An object has an identity (a natural number) and a content.  HOLDERS have a reference to one object:
   a writer "w.." (whoever built a value and hands it to a component), the component's internal copy "c:w.." (what a
   store keeps / what a component is about to fan out) and receivers (readers of a store, subscribers of a fan-out).
   A hand-off either COPIES (fresh identity, same content) or ALIASES (same identity):
       HandIn(p, w, mode, ..)        writer -> component     (Store / StoreInternal / Aggregate / Fetch ...)
       HandOut(p, key, to, src, ..)  component -> receiver   (Await* result, query result, argument of subscriber i)
       Mutate(h, c)                  holder h overwrites what is behind its reference: the content of THAT IDENTITY changes
       Read(h, obs)                  holder h looks at its value again
   The REQUIRED system: every hand-off is a deep copy.  Then (invariant Isolated)
       NoSharing    no two holders have the same identity (two readers never receive the same mutable memory)
       Unchanged    what a holder observes is what it was handed plus its own mutations, and what a receiver is handed
                    through an out-point is what the first receiver since the last hand-in was handed through that
                    out-point with the same arguments (a mutation by anybody is invisible to everybody else)
       ElemsIntact  through a pass-through out-point (one that delivers the very data that were handed in: ParSigDB
                    subscribers, AggSigDB.Await) only data come out that were handed in, as they were when handed in.

   Table: component x hand-off point x direction x value types (the transcription of the code's hand-off points):
     dutydb      core/dutydb/memory.go      Store clones every datum ("Clone before storing"); AwaitAggAttestation clones
                                            on return; AwaitAttestation / AwaitProposal / AwaitSyncContribution hand out
                                            the response-channel value -- REQUIRED: a copy , see pending_fixes/C18-dutydb-await-clone.diff;
                                            PubKeyByAttestation returns a string; VapiProposal = validatorapi.Proposal on
                                            top of AwaitProposal (the handler writes ConsensusValue/ExecutionValue into
                                            the object it was given)
     parsigdb    core/parsigdb/memory.go    store(): value.Clone() before append; StoreInternal: signedSet.Clone() per
                                            internal subscriber; StoreExternal: clone(output) per threshold subscriber
     aggsigdb1/2 core/aggsigdb/memory*.go   store: data.Clone(); Await: value.Clone() / data.Clone()
     sigagg      core/sigagg/sigagg.go      Aggregate: SetSignature copies; output.Clone() per subscriber
     fetcher     core/fetcher/fetcher.go    Fetch: unsignedSet.Clone() per subscriber (writer = the beacon node's answer)
     scheduler   core/scheduler/scheduler.go  scheduleSlot: defSet.Clone() per subscriber; GetDutyDefinition: defSet.Clone()
     vapi        core/validatorapi/validatorapi.go  Subscribe wrapper: set.Clone() per subscriber (writer = the VC's object)
   `pass` marks out-points that deliver handed-in data unchanged in their domain encoding. *)
EXTENDS Integers, Sequences, FiniteSets, TLC

SignedTypes == {"signature", "proposal", "blinded", "attestation", "exit", "registration", "randao", "bcselection",
                "scselection", "aggproof", "vaggproof", "syncmsg", "contribproof", "scontribproof"}
Table == {
  [comp |-> "dutydb", p |-> "Store", kind |-> "in", pass |-> FALSE, types |-> {"att", "pro", "agg", "contrib", "contribs"}],
  [comp |-> "dutydb", p |-> "AwaitAttestation", kind |-> "out", pass |-> FALSE, types |-> {"att"}],
  [comp |-> "dutydb", p |-> "PubKeyByAttestation", kind |-> "out", pass |-> FALSE, types |-> {"att"}],
  [comp |-> "dutydb", p |-> "AwaitProposal", kind |-> "out", pass |-> FALSE, types |-> {"pro"}],
  [comp |-> "dutydb", p |-> "VapiProposal", kind |-> "out", pass |-> FALSE, types |-> {"pro"}],
  [comp |-> "dutydb", p |-> "AwaitAggAttestation", kind |-> "out", pass |-> FALSE, types |-> {"agg"}],
  [comp |-> "dutydb", p |-> "AwaitSyncContribution", kind |-> "out", pass |-> FALSE, types |-> {"contrib", "contribs"}],
  [comp |-> "parsigdb", p |-> "StoreInternal", kind |-> "in", pass |-> FALSE, types |-> SignedTypes],
  [comp |-> "parsigdb", p |-> "StoreExternal", kind |-> "in", pass |-> FALSE, types |-> SignedTypes],
  [comp |-> "parsigdb", p |-> "internal", kind |-> "out", pass |-> TRUE, types |-> SignedTypes],
  [comp |-> "parsigdb", p |-> "threshold", kind |-> "out", pass |-> TRUE, types |-> SignedTypes],
  [comp |-> "aggsigdb1", p |-> "Store", kind |-> "in", pass |-> FALSE, types |-> SignedTypes],
  [comp |-> "aggsigdb1", p |-> "Await", kind |-> "out", pass |-> TRUE, types |-> SignedTypes],
  [comp |-> "aggsigdb2", p |-> "Store", kind |-> "in", pass |-> FALSE, types |-> SignedTypes],
  [comp |-> "aggsigdb2", p |-> "Await", kind |-> "out", pass |-> TRUE, types |-> SignedTypes],
  [comp |-> "sigagg", p |-> "Aggregate", kind |-> "in", pass |-> FALSE, types |-> SignedTypes \ {"signature"}],
  [comp |-> "sigagg", p |-> "sub", kind |-> "out", pass |-> FALSE, types |-> SignedTypes \ {"signature"}],
  [comp |-> "fetcher", p |-> "Fetch", kind |-> "in", pass |-> FALSE, types |-> {"att", "pro"}],
  [comp |-> "fetcher", p |-> "sub", kind |-> "out", pass |-> FALSE, types |-> {"att", "pro"}],
  [comp |-> "scheduler", p |-> "Resolve", kind |-> "in", pass |-> FALSE, types |-> {"attdef", "prodef", "syncdef"}],
  [comp |-> "scheduler", p |-> "dutysub", kind |-> "out", pass |-> FALSE, types |-> {"attdef", "prodef", "syncdef"}],
  [comp |-> "scheduler", p |-> "GetDutyDefinition", kind |-> "out", pass |-> FALSE, types |-> {"attdef", "prodef", "syncdef"}],
  [comp |-> "vapi", p |-> "Submit", kind |-> "in", pass |-> FALSE, types |-> {"exit", "syncmsg"}],
  [comp |-> "vapi", p |-> "sub", kind |-> "out", pass |-> FALSE, types |-> {"exit", "syncmsg"}]}
Components == {r.comp : r \in Table}
\* components whose out-points are the arguments of subscribers called, in order, inside the hand-in call
FanOut == {"parsigdb", "sigagg", "fetcher", "scheduler", "vapi"}
TypesOf(c) == UNION {r.types : r \in {x \in Table : x.comp = c /\ x.kind = "in"}}

VARIABLES comp,     \* the component of this history
          typ,      \* the value type of this history
          id,       \* holder -> identity of the object it holds
          heap,     \* identity -> content
          expect,   \* holder -> the content it is entitled to observe
          seen,     \* holder -> the content it observed last
          cview,    \* <<out-point, arguments>> -> content handed to the first receiver since the last hand-in
          given,    \* elements handed in so far (as they were at the hand-in)
          foreign,  \* elements that came out of a pass-through out-point without having been handed in
          nid       \* next identity
vars == <<comp, typ, id, heap, expect, seen, cview, given, foreign, nid>>

EmptyF == [x \in {} |-> 0]
Cn(w) == "c:" \o w
Rows(p, kind) == {r \in Table : r.comp = comp /\ r.p = p /\ r.kind = kind /\ typ \in r.types}
IsPoint(p, kind) == Rows(p, kind) # {}
Pass(p) == \E r \in Rows(p, "out") : r.pass

InitWith(c, t) == /\ comp = c /\ typ = t /\ id = EmptyF /\ heap = EmptyF /\ expect = EmptyF /\ seen = EmptyF
                  /\ cview = EmptyF /\ given = {} /\ foreign = {} /\ nid = 1

\* a writer builds a fresh value
New(w, c) ==
  /\ w \notin DOMAIN id
  /\ id' = id @@ (w :> nid) /\ heap' = heap @@ (nid :> c) /\ nid' = nid + 1
  /\ expect' = expect @@ (w :> c) /\ seen' = seen @@ (w :> c)
  /\ UNCHANGED <<comp, typ, cview, given, foreign>>

\* the writer hands its value to the component at in-point p; es = the elements of the value at this moment
HandIn(p, w, mode, es) ==
  /\ IsPoint(p, "in") /\ w \in DOMAIN id
  /\ id' = [x \in DOMAIN id \cup {Cn(w)} |-> IF x = Cn(w) THEN (IF mode = "copy" THEN nid ELSE id[w]) ELSE id[x]]
  /\ heap' = IF mode = "copy" THEN (nid :> heap[id[w]]) @@ heap ELSE heap
  /\ nid' = nid + 1
  /\ cview' = EmptyF                \* the component's state changed: what it hands out from now on is observed afresh
  /\ given' = given \cup es
  /\ UNCHANGED <<comp, typ, expect, seen, foreign>>

\* receiver `to` is handed a value at out-point p (arguments key): a fresh object with content obs (src = "fresh")
\* or the very object holder src has; es = the elements of the received value
HandOut(p, key, to, src, obs, es) ==
  /\ IsPoint(p, "out") /\ to \notin DOMAIN id /\ (src # "fresh" => src \in DOMAIN id)
  /\ id' = id @@ (to :> IF src = "fresh" THEN nid ELSE id[src])
  /\ heap' = IF src = "fresh" THEN heap @@ (nid :> obs) ELSE heap
  /\ nid' = nid + 1
  /\ LET k == <<p, key>> IN
       /\ expect' = expect @@ (to :> IF k \in DOMAIN cview THEN cview[k] ELSE obs)
       /\ cview' = IF k \in DOMAIN cview THEN cview ELSE cview @@ (k :> obs)
  /\ seen' = seen @@ (to :> obs)
  /\ foreign' = IF Pass(p) THEN foreign \cup (es \ given) ELSE foreign
  /\ UNCHANGED <<comp, typ, given>>

\* holder h overwrites something behind a reference of its value: the content of that identity becomes c
Mutate(h, c) ==
  /\ h \in DOMAIN id /\ c # heap[id[h]]
  /\ heap' = [heap EXCEPT ![id[h]] = c]
  /\ expect' = [expect EXCEPT ![h] = c] /\ seen' = [seen EXCEPT ![h] = c]
  /\ nid' = nid + 1
  /\ UNCHANGED <<comp, typ, id, cview, given, foreign>>

\* holder h looks at its value
Read(h, obs) ==
  /\ h \in DOMAIN id
  /\ seen' = [seen EXCEPT ![h] = obs]
  /\ UNCHANGED <<comp, typ, id, heap, expect, cview, given, foreign, nid>>

---------------------------------------------------------------------------------------------------
NoSharing == \A a, b \in DOMAIN id : a # b => id[a] # id[b]
Unchanged == \A h \in DOMAIN seen : seen[h] = expect[h]
ElemsIntact == foreign = {}
Isolated == NoSharing /\ Unchanged /\ ElemsIntact
\* what a receiver can tell without looking at memory addresses
Observable == Unchanged /\ ElemsIntact
====
