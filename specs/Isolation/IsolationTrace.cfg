SPECIFICATION TraceSpec
CONSTRAINT Mark
POSTCONDITION Report
CHECK_DEADLOCK FALSE
