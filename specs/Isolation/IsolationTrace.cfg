SPECIFICATION TraceSpec
CONSTANTS Tolerated = {}
CONSTRAINT Mark
POSTCONDITION Report
CHECK_DEADLOCK FALSE
