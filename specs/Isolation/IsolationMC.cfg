SPECIFICATION MCSpec
CONSTANTS MaxOps = 7
 AliasRows <- AliasNone
 Comps <- AllComps
INVARIANTS Isolated
CHECK_DEADLOCK FALSE
