SPECIFICATION MCSpec
CONSTANTS MaxOps = 6
 AliasRows <- AliasNone
 Comps <- AllComps
INVARIANTS Isolated
CHECK_DEADLOCK FALSE
