---- MODULE IsolationTrace ----
(* Trace validation for C18.  The executor (harness/c18) runs a history on one REAL component and logs, after each step
   has completed (all calls are synchronous; Await* on a stored key returns at once):
     {"ev":"Reset","sid":n,"comp":c,"typ":t,"ver":v}
     {"ev":"New","h":w,"hash":x,"elems":[..]}                      a writer built a value
     {"ev":"Put","p":in-point,"h":w,"hash":x,"elems":[..]}         logged BEFORE the call (subscriber callbacks of a
                                                                    fan-out component log their Get inside the call)
     {"ev":"PutRet","err":b}                                       the call returned (the property is silent about err)
     {"ev":"Get","p":out-point,"key":k,"to":h,"hash":x,"elems":[..],"shares":[holders]}
                                                                    h received a value: its content hash, the domain
                                                                    hashes of the workflow elements in it, and the
                                                                    holders whose values share mutable memory with it
     {"ev":"Mutate","h":h,"path":..,"hash":x}                      h overwrote something behind one reference (the
                                                                    executor only logs writes that changed h's own hash)
     {"ev":"Read","h":h,"hash":x}
   Contents are the logged hashes.  Binding: the hand-in is bound as a copy (what the component keeps is not visible;
   if it aliased the writer's object, a later Get shows it: Unchanged / ElemsIntact); a Get is bound as a fresh object
   when `shares` is empty and otherwise as the very object of a sharing holder -- then NoSharing fails.
   There is no deviation configuration: the one defect found (DutyDB Await* handing out the stored pointer) is repaired
   by pending_fixes/C18-dutydb-await-clone.diff, so it is reported again if it ever returns.
   Hang / Race events (a blocked query; a data race reported by the race detector in the concurrent tier) match no
   step. *)
EXTENDS Isolation, TraceCommon
tvars == <<vars, tr, l>>
TraceInit == TrInit /\ InitWith(Traces[tr][1].comp, Traces[tr][1].typ)
TReset == IsEvent("Reset") /\ l = 1 /\ UNCHANGED vars
TNew == IsEvent("New") /\ New(Ev.h, Ev.hash)
TPut == IsEvent("Put") /\ HandIn(Ev.p, Ev.h, "copy", SeqToSet(Ev.elems)) /\ heap[id[Ev.h]] = Ev.hash
TPutRet == IsEvent("PutRet") /\ UNCHANGED vars
TGet == /\ IsEvent("Get")
        /\ SeqToSet(Ev.shares) \subseteq DOMAIN id
        /\ LET sh == SeqToSet(Ev.shares) IN
           IF sh = {}
             THEN HandOut(Ev.p, Ev.key, Ev.to, "fresh", Ev.hash, SeqToSet(Ev.elems))
             ELSE HandOut(Ev.p, Ev.key, Ev.to, CHOOSE s \in sh : TRUE, Ev.hash, SeqToSet(Ev.elems))
TMutate == IsEvent("Mutate") /\ Mutate(Ev.h, Ev.hash)
TRead == IsEvent("Read") /\ Read(Ev.h, Ev.hash)
TraceNext == TReset \/ TNew \/ TPut \/ TPutRet \/ TGet \/ TMutate \/ TRead
TraceSpec == TraceInit /\ [][TraceNext]_tvars
Mark == /\ CheckInv("NoSharing", NoSharing)
        /\ CheckInv("Unchanged", Unchanged)
        /\ CheckInv("ElemsIntact", ElemsIntact)
        /\ HWMark
====
