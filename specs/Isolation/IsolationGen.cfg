SPECIFICATION GenSpec
CONSTANTS MaxOps = 100
 AliasRows <- AliasNone
 Comps <- AllComps
 GenLen = 9
INVARIANTS Emit
CONSTRAINT Stop
CHECK_DEADLOCK FALSE
