---- MODULE IsolationGen ----
(* Schedule generation: behaviours of the design spec (REQUIRED system: every hand-off copies) recorded in the history
   variable `hist`: the configuration (component, value type) and the moves New / Put / Get / Mutate / Read with their
   holders and hand-off points.  Contents and hashes are the implementation's business.  For fan-out components a Get
   after a Put marks "the next subscriber callback": the steps up to the following Get run INSIDE that callback (a
   subscriber that mutates its argument before the next subscriber is called).  k selects which reachable reference
   a Mutate overwrites (checks/c18.py spreads it over the references the walker finds).  Run with -simulate. *)
EXTENDS IsolationMC, Json
CONSTANTS GenLen
VARIABLE hist
RSeq == <<"r1", "r2", "r3">>
LastIs(evs) == hist # <<>> /\ hist[Len(hist)].ev \in evs
\* inside a fan-out window: after a Put and the Gets / Mutates / Reads that followed it
GenInit == MCInit /\ hist = <<[ev |-> "Cfg", comp |-> comp, typ |-> typ]>>
GenNext ==
  \/ \E w \in Writers : New(w, nid) /\ hist' = Append(hist, [ev |-> "New", h |-> w])
  \/ \E w \in Writers, p \in Points("in") : w \in DOMAIN id /\ HandIn(p, w, "copy", {heap[id[w]]})
        /\ hist' = Append(hist, [ev |-> "Put", p |-> p, h |-> w])
  \/ \E p \in Points("out"), c \in Internal : LET n == Cardinality(Receivers \cap DOMAIN id) to == RSeq[n + 1] IN
        /\ n < Len(RSeq)                                      \* receivers are used in order
        /\ HandOut(p, c, to, "fresh", heap[id[c]], {heap[id[c]]})
        /\ hist' = Append(hist, [ev |-> "Get", p |-> p, to |-> to, of |-> SubSeq(c, 3, Len(c))])
  \/ \E h \in (Writers \cup Receivers) \cap DOMAIN id, k \in 0..2 : Mutate(h, 100 + nid)
        /\ hist' = Append(hist, [ev |-> "Mutate", h |-> h, k |-> k])
  \/ \E h \in (Writers \cup Receivers) \cap DOMAIN id : Read(h, heap[id[h]]) /\ ~LastIs({"Read"})
        /\ hist' = Append(hist, [ev |-> "Read", h |-> h])
GenSpec == GenInit /\ [][GenNext]_<<vars, hist>>
Emit == Len(hist) < GenLen \/ PrintT("@@SCHED@@" \o ToJson(hist))
Stop == Len(hist) <= GenLen
====
