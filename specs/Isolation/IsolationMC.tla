---- MODULE IsolationMC ----
(* Exhaustive design check: every history of New / HandIn / HandOut / Mutate / Read with at most MaxOps hand-offs,
   constructions and mutations (reads are free), for every component and value type of the table, two writers and
   three receivers.  Contents are natural numbers (every construction / mutation produces a content never seen
   before).  AliasRows = the hand-off points that alias instead of copying: {} is the REQUIRED system; the control
   configurations put one point in and MUST violate Isolated (and, for the points a receiver can notice without
   comparing addresses, Observable). *)
EXTENDS Isolation
CONSTANTS MaxOps, AliasRows, Comps
Writers == {"w1", "w2"}
Receivers == {"r1", "r2", "r3"}
AliasNone == {}
AliasDutyDBOut == {<<"dutydb", "AwaitAttestation">>, <<"dutydb", "AwaitProposal">>, <<"dutydb", "AwaitSyncContribution">>}
AliasStoreIn == {<<"parsigdb", "StoreExternal">>, <<"aggsigdb1", "Store">>, <<"dutydb", "Store">>}
AliasFan == {<<"sigagg", "sub">>, <<"parsigdb", "threshold">>, <<"scheduler", "dutysub">>}
AllComps == Components
ModeOf(p) == IF <<comp, p>> \in AliasRows THEN "alias" ELSE "copy"
Points(kind) == {r.p : r \in {x \in Table : x.comp = comp /\ x.kind = kind /\ typ \in x.types}}
Internal == {Cn(w) : w \in Writers} \cap DOMAIN id
MCInit == \E c \in Comps : \E t \in TypesOf(c) : InitWith(c, t)
MCNext ==
  /\ nid <= MaxOps
  /\ \/ \E w \in Writers : New(w, nid)
     \/ \E w \in Writers, p \in Points("in") : w \in DOMAIN id /\ HandIn(p, w, ModeOf(p), {heap[id[w]]})
     \/ \E to \in Receivers, p \in Points("out"), c \in Internal :
          HandOut(p, c, to, IF ModeOf(p) = "copy" THEN "fresh" ELSE c, heap[id[c]], {heap[id[c]]})
     \/ \E h \in (Writers \cup Receivers) \cap DOMAIN id : Mutate(h, 100 + nid)
MCReads == \E h \in (Writers \cup Receivers) \cap DOMAIN id : Read(h, heap[id[h]])
MCSpec == MCInit /\ [][MCNext \/ MCReads]_vars
====
