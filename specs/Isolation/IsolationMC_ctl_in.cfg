SPECIFICATION MCSpec
CONSTANTS MaxOps = 6
 AliasRows <- AliasStoreIn
 Comps <- AllComps
INVARIANTS Observable
CHECK_DEADLOCK FALSE
