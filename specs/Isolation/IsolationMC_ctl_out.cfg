SPECIFICATION MCSpec
CONSTANTS MaxOps = 6
 AliasRows <- AliasDutyDBOut
 Comps <- AllComps
INVARIANTS Observable
CHECK_DEADLOCK FALSE
