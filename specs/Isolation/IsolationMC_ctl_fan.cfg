SPECIFICATION MCSpec
CONSTANTS MaxOps = 6
 AliasRows <- AliasFan
 Comps <- AllComps
INVARIANTS Observable
CHECK_DEADLOCK FALSE
