SPECIFICATION MCSpec
CONSTANTS MaxOps = 6
 AliasRows <- AliasDutyDBOut
 Comps <- AllComps
INVARIANTS NoSharing
CHECK_DEADLOCK FALSE
