SPECIFICATION MCSpec
CONSTANTS
 Sessions = {s1, s2}
 Allowed = {a, b}
 BadId = zz
 HashSession = TRUE
 HashId = TRUE
 DedupMode = "peer+id"
 MCCfgs <- Cfg3
 Bodies = {x, y}
 MaxFSig = 4
 MaxB = 1
 Lists = "best"
SYMMETRY Sym
INVARIANTS Safety
PROPERTIES Monotone
CHECK_DEADLOCK FALSE
