SPECIFICATION GenSpec
CONSTANTS
 Sessions = {"s1", "s2"}
 Allowed = {"a", "b"}
 HashSession = TRUE
 HashId = TRUE
 DedupMode = "peer+id"
 AtomicDedup = TRUE
 AllowRelay = FALSE
 SigCache = "none"
 GenLen = 12
INVARIANTS Emit
CHECK_DEADLOCK FALSE
