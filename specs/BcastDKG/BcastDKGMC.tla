---- MODULE BcastDKGMC ----
(* Exhaustive design check.  One faulty member (configuration "collusion": two) against honest members that
   broadcast through the honest client.  Bounds (all here, none in the actions):
     MCCfgs     the clusters explored in one run (size, who is faulty)
     Bodies     payload bodies; payload universe = every origin x Bodies (all pass checkMessage) + one junk payload
     MaxFSig    signature requests of faulty members that were GRANTED (refused ones change nothing)
     MaxB       runs of the honest client (at most one at a time; any honest member, any id incl. an unknown one)
     Lists      "best"   a faulty sender sends only the best list it can build, when it is complete
                "attack" the whole repertoire AttackLists (every near miss: substitutions from other sessions /
                         ids / payloads / members, garbage, swaps, truncation, extension), for every payload it
                         holds at least one honest signature for, and ReplayLists (the complete signature set of
                         ANOTHER payload / id / session, e.g. one a member has already accepted)  *)
EXTENDS BcastDKG
CONSTANTS MCCfgs, Bodies, MaxFSig, MaxB, Lists, BadId,
          Conc       \* 0: requests of faulty members are served one at a time (FSig);  k > 0: up to k of them are inside
                     \* handleSigRequest at the same time (FCall / FLin / FRecord / FRet instead of FSig)
VARIABLES nb, nf       \* client runs started, requests of faulty members granted
mcvars == <<vars, nb, nf>>
Ids == Allowed \cup {BadId}
Junk == [origin |-> 0, body |-> "junk", ok |-> FALSE]
Payloads == [origin : Members, body : Bodies, ok : {TRUE}] \cup {Junk}
SomeActive == \E h \in Honest, s \in Sessions : client[h][s].act
\* the list the real client sends: signature i = the answer of member i
ClientList(h, s) == LET c == client[h][s] IN
                    [i \in 1..cfg.n |-> IF \E g \in c.got : g.by = i THEN CHOOSE g \in c.got : g.by = i ELSE Garbage]
Answered(h, s, m) == \E g \in client[h][s].got : g.by = m
MCInit == (\E c \in MCCfgs : InitWith(c)) /\ nb = 0 /\ nf = 0
\* Reductions that lose no reachable state: steps that change nothing are skipped (refused requests, messages
\* that fail verification or repeat a delivery), and the independent requests / messages of one client run are
\* taken in member order (they commute; everything a faulty member does may still interleave anywhere).
NextToAsk(h, s) == CHOOSE m \in Members : ~Answered(h, s, m) /\ \A k \in Members : k < m => Answered(h, s, k)
AllAnswered(h, s) == \A m \in Members : Answered(h, s, m)
\* (in the control variants with a memory of verified signature sets a delivery may also add to that memory)
Delivers(r, s, from, id, pl, sigs) ==
  /\ Passes(r, s, id, pl, sigs)
  /\ \/ [from |-> from, id |-> id, pl |-> pl] \notin Invoked(r, s)
     \/ SigCache # "none" /\ ~CacheHit(r, s, id, sigs)
FSendOrRelay(f, r, s, id, pl, sigs) == FSend(f, r, s, id, pl, sigs) \/ RelayForeignPayload(f, r, s, id, pl, sigs)
MCNext ==
  \/ /\ nb < MaxB /\ ~SomeActive /\ nb' = nb + 1 /\ UNCHANGED nf
     /\ \E h \in Honest, s \in Sessions, id \in Ids, b \in Bodies : BStart(h, s, id, [origin |-> h, body |-> b, ok |-> TRUE])
  \/ /\ UNCHANGED nb
     /\ \/ \E h \in Honest, s \in Sessions :
              /\ UNCHANGED nf
              /\ client[h][s].act /\ ~AllAnswered(h, s) /\ ~(Garbage \in client[h][s].got)
              /\ LET m == NextToAsk(h, s) IN
                 IF m \in Honest THEN SigOutcome(m, s, h, client[h][s].id, client[h][s].pl) = "ok" /\ HSig(h, s, m)
                 ELSE \E g \in {Sig(m, s, client[h][s].id, client[h][s].pl), Garbage} : FReply(h, s, m, g)
        \/ \E h \in Honest, s \in Sessions, r \in Honest :
              /\ UNCHANGED nf
              /\ client[h][s].act /\ AllAnswered(h, s) /\ r # h
              /\ Delivers(r, s, h, client[h][s].id, client[h][s].pl, ClientList(h, s))
              /\ \A k \in Honest \ {h} : k < r => ~Delivers(k, s, h, client[h][s].id, client[h][s].pl, ClientList(h, s))
              /\ HSend(h, s, r, ClientList(h, s))
        \/ \E h \in Honest, s \in Sessions, f \in Faulty :
              /\ UNCHANGED nf
              /\ client[h][s].act /\ AllAnswered(h, s)
              /\ ~({g \in client[h][s].got : g.by \in Honest} \subseteq known)
              /\ FRecv(h, s, f, ClientList(h, s))
        \/ \E h \in Honest, s \in Sessions : nb < MaxB /\ BEnd(h, s) /\ UNCHANGED nf
        \/ \E f \in Faulty, m \in Honest, s \in Sessions, id \in Allowed, pl \in Payloads \ {Junk} :
              /\ Conc > 0 /\ nf < MaxFSig /\ nf' = nf + 1                      \* (here nf counts requests made)
              /\ \E k \in 1..Conc : FCall(k, f, m, s, id, pl)
        \/ \E p \in pend : UNCHANGED nf /\ (FLin(p) \/ FRecord(p) \/ FRet(p))
        \/ \E f \in Faulty, m \in Honest, s \in Sessions, id \in Ids, pl \in Payloads :
              /\ Conc = 0
              /\ nf < MaxFSig /\ SigOutcome(m, s, f, id, pl) = "ok"
              /\ [req |-> f, id |-> id, pl |-> pl] \notin dedup[m][s]
              /\ FSig(f, m, s, id, pl) /\ nf' = nf + 1
        \/ \E f \in Faulty, s \in Sessions, id \in Ids, pl \in Payloads :
              /\ UNCHANGED nf
              /\ IF Lists = "best"
                   THEN /\ Complete(s, id, pl) /\ Verify(s, id, pl, BestList(s, id, pl))
                        /\ \E r \in Honest : /\ Delivers(r, s, f, id, pl, BestList(s, id, pl))
                                             /\ FSendOrRelay(f, r, s, id, pl, BestList(s, id, pl))
                   ELSE /\ SigCache # "none" \/ \E g \in known : g.pl = pl      \* (nothing else can verify)
                        /\ \E sigs \in AttackLists(s, id, pl) \cup ReplayLists :
                              \E r \in Honest : Delivers(r, s, f, id, pl, sigs) /\ FSendOrRelay(f, r, s, id, pl, sigs)
MCSpec == MCInit /\ [][MCNext]_mcvars
\* a message that fails verification is not delivered, whatever the list (sanity of Verify against the repertoire)
Sym == Permutations(Bodies) \cup Permutations(Sessions) \cup Permutations(Allowed)
Cfg3 == {[n |-> 3, faulty |-> {1}]}
Cfg3all == {[n |-> 3, faulty |-> {f}] : f \in 1..3}
Cfg4 == {[n |-> 4, faulty |-> {2}]}
Cfg34 == Cfg3 \cup Cfg4
CfgAll == {[n |-> n, faulty |-> {f}] : n \in 3..4, f \in 1..2} \cup {[n |-> 3, faulty |-> {3}], [n |-> 4, faulty |-> {4}], [n |-> 3, faulty |-> {}]}
Cfg4two == {[n |-> 4, faulty |-> {1, 2}]}
====
