SPECIFICATION MCSpec
CONSTANTS
 Sessions = {s1}
 Allowed = {a}
 BadId = zz
 HashSession = TRUE
 HashId = TRUE
 DedupMode = "peer+id"
 AllowRelay = TRUE
 MCCfgs <- Cfg5
 Bodies = {x, y}
 MaxFSig = 99
 MaxB = 1
 Lists = "best"
SYMMETRY Sym
INVARIANTS Safety
PROPERTIES Monotone
CHECK_DEADLOCK FALSE
