SPECIFICATION MCSpec
CONSTANTS
 Sessions = {s1}
 Allowed = {a}
 BadId = zz
 HashSession = TRUE
 HashId = TRUE
 DedupMode = "peer+id"
 AtomicDedup = TRUE
 AllowRelay = TRUE
 SigCache = "none"
 MCCfgs <- Cfg34
 Bodies = {x, y}
 MaxFSig = 99
 MaxB = 1
 Conc = 0
 Lists = "best"
SYMMETRY Sym
INVARIANTS Safety
PROPERTIES Monotone
CHECK_DEADLOCK FALSE
