SPECIFICATION TraceSpec
CONSTANTS
 Sessions = {"s1", "s2"}
 Allowed = {"a", "b"}
 HashSession = TRUE
 HashId = TRUE
 DedupMode = "peer+id"
 AtomicDedup = TRUE
 AllowRelay = TRUE
 SigCache = "none"
CONSTRAINT Mark
POSTCONDITION Report
CHECK_DEADLOCK FALSE
