SPECIFICATION MCSpec
CONSTANTS
 Sessions = {s1}
 Allowed = {a}
 BadId = zz
 HashSession = TRUE
 HashId = TRUE
 DedupMode = "peer+id"
 AtomicDedup = FALSE
 AllowRelay = TRUE
 SigCache = "none"
 MCCfgs <- Cfg3
 Bodies = {x, y}
 MaxFSig = 4
 MaxB = 0
 Conc = 2
 Lists = "best"
SYMMETRY Sym
INVARIANTS DedupFunctional
CHECK_DEADLOCK FALSE
