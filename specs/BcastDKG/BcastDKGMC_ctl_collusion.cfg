SPECIFICATION MCSpec
CONSTANTS
 Sessions = {s1}
 Allowed = {a}
 BadId = zz
 HashSession = TRUE
 HashId = TRUE
 DedupMode = "peer+id"
 AtomicDedup = TRUE
 AllowRelay = TRUE
 SigCache = "none"
 MCCfgs <- Cfg4two
 Bodies = {x, y}
 MaxFSig = 99
 MaxB = 0
 Conc = 0
 Lists = "best"
SYMMETRY Sym
INVARIANTS AgreementAccepted
CHECK_DEADLOCK FALSE
