SPECIFICATION MCSpec
CONSTANTS
 Sessions = {s1}
 Allowed = {a}
 BadId = zz
 HashSession = TRUE
 HashId = TRUE
 DedupMode = "peer+id"
 AtomicDedup = TRUE
 AllowRelay = FALSE
 SigCache = "none"
 MCCfgs <- Cfg3
 Bodies = {x, y}
 MaxFSig = 99
 MaxB = 1
 Conc = 0
 Lists = "best"
SYMMETRY Sym
INVARIANTS AgreementRaw
CHECK_DEADLOCK FALSE
