---- MODULE BcastDKGTrace ----
(* Trace validation for dkg/bcast.  Events are written by the executor (harness/c13); every handler call is made
   synchronously and logged, together with what it returned, before the next one starts:
     {"ev":"Reset","n":4,"faulty":[2],"sessions":[..],"allowed":[..]}     fresh components
     {"ev":"BStart","h","sess","id","pl"}                 honest h calls Component.Broadcast
     {"ev":"Sig","m","sess","req","id","pl","ok"}         server.handleSigRequest at honest m, request from `req`
                                                          (h's running client, or a faulty member)
     {"ev":"FReply","h","sess","f","kind","sig"}          faulty f answered the request of h's client
     {"ev":"Msg","r","sess","from","id","pl","sigs","invoked","accepted","cb"}
                                                          server.handleMessage at honest r; cb = what the callback saw
     {"ev":"FRecv","h","sess","f","id","pl","sigs"}       h's client sent its BCastMessage to faulty f
     {"ev":"BEnd","h","sess","err"}                       Broadcast returned
     {"ev":"SigCall","k","m","sess","req","id","pl"}      faulty `req` calls handleSigRequest at honest m while other
     {"ev":"SigRet","k","ok"}                             calls (k = call id) are still inside it; the call returned.
                                                          The critical section in between is a silent step (FLin): TLC
                                                          infers the linearisation; dedupHash must be atomic.
   A payload is {"origin","body","ok"}, a signature {"by","sess","id","pl"} (by = 0: garbage bytes).
   Whether the client succeeds, and in which order it talks to its peers, is not demanded (the property is about
   what receivers deliver).
   BcastDKGTrace.cfg is the statement as written (AllowRelay = FALSE: every invocation counts for per-sender
   agreement); BcastDKGTrace_relay.cfg switches on the named deviation RelayForeignPayload (known finding
   C13-relay-foreign-payload). *)
EXTENDS BcastDKG, TraceCommon
tvars == <<vars, tr, l>>
Pl(p) == [origin |-> p.origin, body |-> p.body, ok |-> p.ok]
Sg(g) == Sig(g.by, g.sess, g.id, Pl(g.pl))
SigList(q) == [i \in 1..Len(q) |-> Sg(q[i])]
TraceInit == /\ TrInit
             /\ InitWith([n |-> Traces[tr][1].n, faulty |-> SeqToSet(Traces[tr][1].faulty)])
TReset == /\ IsEvent("Reset") /\ l = 1 /\ UNCHANGED vars
          /\ SeqToSet(Ev.sessions) = Sessions /\ SeqToSet(Ev.allowed) = Allowed
TBStart == /\ IsEvent("BStart") /\ Ev.sess \in Sessions
           /\ BStart(Ev.h, Ev.sess, Ev.id, Pl(Ev.pl))
TSig == /\ IsEvent("Sig") /\ Ev.sess \in Sessions /\ Ev.m \in Honest
        /\ IF Ev.req \in Faulty
             THEN FSig(Ev.req, Ev.m, Ev.sess, Ev.id, Pl(Ev.pl))
             ELSE /\ Ev.req \in Honest /\ client[Ev.req][Ev.sess].act
                  /\ client[Ev.req][Ev.sess].id = Ev.id /\ client[Ev.req][Ev.sess].pl = Pl(Ev.pl)
                  /\ HSig(Ev.req, Ev.sess, Ev.m)
        /\ Ev.ok = (SigOutcome(Ev.m, Ev.sess, Ev.req, Ev.id, Pl(Ev.pl)) = "ok")
        /\ Ev.ok => Ev.rid = Ev.id
TFReply == /\ IsEvent("FReply") /\ Ev.sess \in Sessions
           /\ IF Ev.kind = "sig" THEN FReply(Ev.h, Ev.sess, Ev.f, Sg(Ev.sig))
              ELSE Ev.h \in Honest /\ client[Ev.h][Ev.sess].act /\ Ev.f \in Faulty /\ UNCHANGED vars
TMsg == /\ IsEvent("Msg") /\ Ev.sess \in Sessions /\ Ev.r \in Honest
        /\ LET sigs == SigList(Ev.sigs)
               \* the design's rule, whatever r accepted before (SigCache = "none": exactly Verify): an ACCEPTED
               \* signature set replayed with another payload / id / in another session must not reach the callback
               v == Passes(Ev.r, Ev.sess, Ev.id, Pl(Ev.pl), sigs) IN
           /\ IF Ev.from \in Faulty
                THEN \/ FSend(Ev.from, Ev.r, Ev.sess, Ev.id, Pl(Ev.pl), sigs)
                     \/ RelayForeignPayload(Ev.from, Ev.r, Ev.sess, Ev.id, Pl(Ev.pl), sigs)     \* deviation cfg only
                ELSE /\ Ev.from \in Honest /\ client[Ev.from][Ev.sess].act
                     /\ client[Ev.from][Ev.sess].id = Ev.id /\ client[Ev.from][Ev.sess].pl = Pl(Ev.pl)
                     /\ HSend(Ev.from, Ev.sess, Ev.r, sigs)
           /\ Ev.invoked = v
           /\ Ev.accepted = (v /\ CallbackAccepts(Ev.r, Ev.from, Pl(Ev.pl)))
           /\ v => (Ev.cb.from = Ev.from /\ Ev.cb.id = Ev.id /\ Pl(Ev.cb.pl) = Pl(Ev.pl))
TFRecv == /\ IsEvent("FRecv") /\ Ev.sess \in Sessions /\ Ev.h \in Honest /\ client[Ev.h][Ev.sess].act
          /\ client[Ev.h][Ev.sess].id = Ev.id /\ client[Ev.h][Ev.sess].pl = Pl(Ev.pl)
          /\ FRecv(Ev.h, Ev.sess, Ev.f, SigList(Ev.sigs))
TSigCall == /\ IsEvent("SigCall") /\ Ev.sess \in Sessions
            /\ FCall(Ev.k, Ev.req, Ev.m, Ev.sess, Ev.id, Pl(Ev.pl))
TSigRet == /\ IsEvent("SigRet")
           /\ \E p \in pend : p.k = Ev.k /\ FRet(p) /\ Ev.ok = (p.st = "ok")
TLin == \E p \in pend : FLin(p) /\ Silent
TBEnd == /\ IsEvent("BEnd") /\ Ev.sess \in Sessions /\ BEnd(Ev.h, Ev.sess)
\* a member dropped all its connections and dialled again: no part of the contract depends on connections
TReconnect == IsEvent("Reconnect") /\ UNCHANGED vars
TraceNext == TReconnect \/ TReset \/ TBStart \/ TSig \/ TFReply \/ TMsg \/ TFRecv \/ TBEnd \/ TSigCall \/ TSigRet \/ TLin
TraceSpec == TraceInit /\ [][TraceNext]_tvars
Mark == /\ CheckInv("AllSigned", AllSigned) /\ CheckInv("OnlyAllowed", OnlyAllowed)
        /\ CheckInv("AgreementRaw", AgreementRaw) /\ CheckInv("AgreementAccepted", AgreementAccepted)
        /\ CheckInv("RelayIsForeign", RelayIsForeign)
        /\ CheckInv("DedupFunctional", DedupFunctional) /\ CheckInv("DedupChecked", DedupChecked)
        /\ CheckInv("KnownGenuine", KnownGenuine) /\ CheckInv("HonestOrigin", HonestOrigin)
        /\ CheckInv("PendOK", PendOK)
        /\ HWMark
====
