SPECIFICATION MCSpec
CONSTANTS
 Sessions = {s1, s2}
 Allowed = {a, b}
 BadId = zz
 HashSession = TRUE
 HashId = TRUE
 DedupMode = "peer+id"
 AtomicDedup = TRUE
 AllowRelay = TRUE
 SigCache = "none"
 MCCfgs <- Cfg4
 Bodies = {x, y}
 MaxFSig = 2
 MaxB = 1
 Conc = 0
 Lists = "best"
SYMMETRY Sym
INVARIANTS Safety
PROPERTIES Monotone
CHECK_DEADLOCK FALSE
