SPECIFICATION MCSpec
CONSTANTS
 Sessions = {s1, s2}
 Allowed = {a}
 BadId = zz
 HashSession = FALSE
 HashId = TRUE
 DedupMode = "peer+id"
 AtomicDedup = TRUE
 AllowRelay = TRUE
 SigCache = "none"
 MCCfgs <- Cfg3
 Bodies = {x}
 MaxFSig = 2
 MaxB = 0
 Conc = 0
 Lists = "attack"
SYMMETRY Sym
INVARIANTS AllSigned
CHECK_DEADLOCK FALSE
