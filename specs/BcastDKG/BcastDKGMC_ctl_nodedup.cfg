SPECIFICATION MCSpec
CONSTANTS
 Sessions = {s1}
 Allowed = {a}
 BadId = zz
 HashSession = TRUE
 HashId = TRUE
 DedupMode = "none"
 AtomicDedup = TRUE
 AllowRelay = TRUE
 SigCache = "none"
 MCCfgs <- Cfg3
 Bodies = {x, y}
 MaxFSig = 99
 MaxB = 0
 Conc = 0
 Lists = "best"
SYMMETRY Sym
INVARIANTS AgreementAccepted
CHECK_DEADLOCK FALSE
