---- MODULE BcastDKGGen ----
(* Schedule generation: behaviours of the design spec are recorded in the history variable `hist` (only the
   environment's moves: the cluster, honest members calling Broadcast -- with the way the faulty member answers
   the client's request --, and the faulty member's direct requests and messages with their complete arguments).
   What the client and the handlers do inside is the implementation's business; here a client run is played to
   its end before the next move so that `known` follows what the faulty member will really hold.  Run with
   -simulate. *)
EXTENDS BcastDKG, Json, Randomization
CONSTANTS GenLen
VARIABLES hist, mode, fin
gvars == <<vars, hist, mode, fin>>
GenCfgs == {[n |-> n, faulty |-> {f}] : n \in 3..6, f \in 1..3} \cup {[n |-> 4, faulty |-> {4}], [n |-> 6, faulty |-> {6}]}
Ids == Allowed \cup {"zz"}
Payloads == [origin : Members, body : {"x", "y"}, ok : {TRUE}] \cup {[origin |-> f, body |-> "j", ok |-> FALSE] : f \in Faulty}
Answered(h, s, m) == \E g \in client[h][s].got : g.by = m
ClientList(h, s) == LET c == client[h][s] IN
                    [i \in 1..cfg.n |-> IF \E g \in c.got : g.by = i THEN CHOOSE g \in c.got : g.by = i ELSE Garbage]
SomeActive == \E h \in Honest, s \in Sessions : client[h][s].act
GenInit == /\ \E c \in GenCfgs : InitWith(c) /\ hist = <<[ev |-> "Cfg", n |-> c.n, faulty |-> c.faulty]>>
           /\ mode = "sign" /\ fin = FALSE
\* one internal step of the running client
Internal(h, s) ==
  LET c == client[h][s]
      un == {m \in Members : ~Answered(h, s, m)} IN
  /\ UNCHANGED <<hist, mode, fin>>
  /\ IF un # {} /\ ~(Garbage \in c.got)
       THEN LET m == CHOOSE x \in un : \A y \in un : x <= y IN
            IF m \in Honest
              THEN IF SigOutcome(m, s, h, c.id, c.pl) = "ok" THEN HSig(h, s, m) ELSE BEnd(h, s)
              ELSE CASE mode = "sign" -> FReply(h, s, m, Sig(m, s, c.id, c.pl))
                     [] mode = "garbage" -> FReply(h, s, m, Garbage)
                     [] OTHER -> BEnd(h, s)
       ELSE LET sigs == ClientList(h, s)
                rs == {r \in Honest \ {h} : [from |-> h, id |-> c.id, pl |-> c.pl] \notin raw[r][s]}
                fs == {f \in Faulty : ~({g \in c.got : g.by \in Honest} \subseteq known)} IN
            IF Verify(s, c.id, c.pl, sigs) /\ rs # {} THEN HSend(h, s, CHOOSE r \in rs : TRUE, sigs)
            ELSE IF Verify(s, c.id, c.pl, sigs) /\ fs # {} THEN FRecv(h, s, CHOOSE f \in fs : TRUE, sigs)
            ELSE BEnd(h, s)
Rec(sig) == [by |-> sig.by, sess |-> sig.sess, id |-> sig.id, pl |-> sig.pl]
\* simulation only: a random sample keeps the number of successors per step small
Pick(k, S) == IF Cardinality(S) <= k THEN S ELSE RandomSubset(k, S)
EnvMove ==
  \/ \E h \in Pick(2, Honest), s \in Sessions, id \in Ids, b \in {"x", "y"}, md \in {"sign", "garbage", "err"} :
       /\ BStart(h, s, id, [origin |-> h, body |-> b, ok |-> TRUE])
       /\ mode' = md
       /\ hist' = Append(hist, [ev |-> "Bcast", h |-> h, sess |-> s, id |-> id,
                                pl |-> [origin |-> h, body |-> b, ok |-> TRUE], freply |-> md])
  \/ \E f \in Faulty, m \in Pick(2, Honest), s \in Sessions, id \in Ids, pl \in Pick(4, Payloads) :
       /\ FSig(f, m, s, id, pl) /\ UNCHANGED mode
       /\ hist' = Append(hist, [ev |-> "FSig", f |-> f, m |-> m, sess |-> s, id |-> id, pl |-> pl])
  \* two requests for one (peer, id) slot inside the handler at once; in the required design the first one to reach
  \* dedupHash wins, which is the one issued first (the executor staggers them): net effect = FSig of the first
  \/ \E f \in Faulty, m \in Pick(2, Honest), s \in Sessions, id \in Allowed, pl \in Pick(3, Payloads), pl2 \in Pick(3, Payloads) :
       /\ pl # pl2 /\ (SigOutcome(m, s, f, id, pl) = "ok" \/ SigOutcome(m, s, f, id, pl2) # "ok")
       /\ FSig(f, m, s, id, pl) /\ UNCHANGED mode
       /\ hist' = Append(hist, [ev |-> "FSigC", f |-> f, m |-> m, sess |-> s,
                                reqs |-> <<[id |-> id, pl |-> pl], [id |-> id, pl |-> pl2]>>])
  \/ \E f \in Faulty, r \in Pick(1, Honest), s \in Sessions, id \in Ids, pl \in {g.pl : g \in known} :
       /\ \E sigs \in Pick(3, AttackLists(s, id, pl)) \cup {BestList(s, id, pl)} :
            /\ FSend(f, r, s, id, pl, sigs) /\ UNCHANGED mode
            /\ hist' = Append(hist, [ev |-> "FSend", f |-> f, r |-> r, sess |-> s, id |-> id, pl |-> pl,
                                     sigs |-> [i \in 1..Len(sigs) |-> Rec(sigs[i])]])
  \* REPLAY of an ACCEPTED signature set: the complete list of a message that member r has delivered (its own earlier
  \* message or an honest member's broadcast, which the faulty member received too) is sent again -- to r with another
  \* payload, under another id, to r's component of the other session (same / other payload), to another member with
  \* another payload, and unchanged (own messages only: the unchanged relay of a foreign one is the known finding)
  \/ \E f \in Faulty, r \in Pick(3, Honest), s \in Sessions :
       \E d \in Pick(2, {x \in raw[r][s] : Complete(s, x.id, x.pl)}) :
         LET L == BestList(s, d.id, d.pl)
             V == {[r |-> r, s |-> s, id |-> d.id, pl |-> p] : p \in Pick(2, Payloads \ {d.pl})}
                  \cup {[r |-> r, s |-> s, id |-> i2, pl |-> d.pl] : i2 \in Ids \ {d.id}}
                  \cup {[r |-> r, s |-> s2, id |-> d.id, pl |-> p] : s2 \in Sessions \ {s}, p \in {d.pl} \cup Pick(1, Payloads \ {d.pl})}
                  \cup {[r |-> r2, s |-> s, id |-> d.id, pl |-> p] : r2 \in Pick(1, Honest \ {r}), p \in Pick(1, Payloads \ {d.pl})}
                  \cup (IF d.from \in Faulty THEN {[r |-> r, s |-> s, id |-> d.id, pl |-> d.pl]} ELSE {}) IN
         \E v \in V :
           /\ FSend(f, v.r, v.s, v.id, v.pl, L) /\ UNCHANGED mode
           /\ hist' = Append(hist, [ev |-> "FSend", f |-> f, r |-> v.r, sess |-> v.s, id |-> v.id, pl |-> v.pl,
                                    sigs |-> [i \in 1..Len(L) |-> Rec(L[i])]])
\* (the last step is a single deterministic one, so that simulation prints each behaviour once)
GenNext ==
  IF SomeActive
    THEN \E h \in Honest, s \in Sessions : client[h][s].act /\ Internal(h, s)
    ELSE IF Len(hist) >= GenLen + 1 THEN ~fin /\ fin' = TRUE /\ UNCHANGED <<vars, hist, mode>>
    ELSE UNCHANGED fin /\ EnvMove
GenSpec == GenInit /\ [][GenNext]_gvars
Emit == ~fin \/ PrintT("@@SCHED@@" \o ToJson(hist))
====
