SPECIFICATION MCSpec
CONSTANTS
 Sessions = {s1}
 Allowed = {a}
 BadId = zz
 HashSession = TRUE
 HashId = TRUE
 DedupMode = "peer+id"
 AtomicDedup = TRUE
 AllowRelay = TRUE
 SigCache = "id+sigs"
 MCCfgs <- Cfg3
 Bodies = {x, y}
 MaxFSig = 2
 MaxB = 1
 Conc = 0
 Lists = "attack"
SYMMETRY Sym
INVARIANTS AllSigned
CHECK_DEADLOCK FALSE
