SPECIFICATION MCSpec
CONSTANTS
 Sessions = {s1}
 Allowed = {a}
 BadId = zz
 HashSession = TRUE
 HashId = TRUE
 DedupMode = "peer+id"
 AtomicDedup = TRUE
 AllowRelay = TRUE
 MCCfgs <- Cfg3
 Bodies = {x, y}
 MaxFSig = 5
 MaxB = 1
 Conc = 3
 Lists = "best"
SYMMETRY Sym
INVARIANTS Safety
PROPERTIES Monotone
CHECK_DEADLOCK FALSE
