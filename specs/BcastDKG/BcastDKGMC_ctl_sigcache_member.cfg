SPECIFICATION MCSpec
CONSTANTS
 Sessions = {s1, s2}
 Allowed = {a}
 BadId = zz
 HashSession = TRUE
 HashId = TRUE
 DedupMode = "peer+id"
 AtomicDedup = TRUE
 AllowRelay = TRUE
 SigCache = "id+sigs/member"
 MCCfgs <- Cfg3
 Bodies = {x}
 MaxFSig = 2
 MaxB = 1
 Conc = 0
 Lists = "attack"
SYMMETRY Sym
INVARIANTS AllSigned
CHECK_DEADLOCK FALSE
