---- MODULE BcastDKG ----
(* dkg/bcast: the reliable broadcast of the key-generation ceremony, one action per handler invocation.

     server.handleSigRequest   getMessageIDFunc -> checkMessage -> hashFunc -> dedupHash (one hash per
                               requesting peer and message id, under s.mu) -> signFunc          == ServeSig
     server.handleMessage      verifyFunc (newPeerK1Verifier: exactly len(peers) signatures, message id
                               allow-listed, signature i verifies under peer i over
                               H(session, id, typeUrl, bytes)) -> callback                       == Deliver
     client.Broadcast          self-sign (no dedup!), one signature request per other peer (concurrently),
                               verify, one BCastMessage per other peer  == BStart, HSig/FReply, HSend/FRecv, BEnd

   Members are 1..n in peer order (signature i of a BCastMessage belongs to member i).  `cfg` never changes: it
   is a variable only so that one TLC run can cover several cluster sizes / positions of the faulty member and
   so that every recorded trace brings its own cluster.  Every honest member runs one Component per session
   (bcast.New(..., sessionHash)); all components register the same message ids.

   Crypto abstraction: a signature is the record [by, sess, id, pl]; it verifies under member i for
   H(s, id, pl) iff by = i and the hashes agree; the hash binds exactly what newHashAny feeds to SHA-256.
   A payload is [origin, body, ok]: `origin` is the sender tag most in-tree payloads carry (MsgNodeSig.PeerIndex,
   FrostRound*Cast.Key.SourceId; pedersen's NodePubKeyMessage has none), `ok` says whether the registered
   checkMessage accepts it (right protobuf type).
   Faulty members have no state: they may call the two handlers of any honest member with any arguments, using
   signatures by faulty members (arbitrary), garbage, or honest signatures they have SEEN (`known`).

   Switches for the control configurations (the values of the pinned tree come first):
     HashSession  TRUE | FALSE    newHashAny binds the session hash
     HashId       TRUE | FALSE    newHashAny binds the message id
     DedupMode    "peer+id" | "id" | "none"   key of server.dedup
     SigCache     "none" | "id+sigs" | "id+sigs/member" | "sigs"
                  "none": handleMessage verifies every message it is given (the tree).  Otherwise (controls) the server
                  REMEMBERS the signature sets that passed verification -- keyed by the message id and the signature
                  list ("sigs": by the list alone), per component ("/member": one memory for all components of a
                  member) -- and skips verification when a remembered set shows up again: the key covers neither the
                  payload nor the session, so an ACCEPTED signature set replayed with another payload is delivered.

   Known finding C13-relay-foreign-payload (named deviation, switched on by AllowRelay): the signed hash does not
   bind the SENDER, so a member can re-send another member's completely signed payload for the same id under its own
   transport identity and the callback is invoked, attributed to the relayer (action RelayForeignPayload).  With
   AllowRelay = FALSE such a message is an ordinary FSend and its delivery counts for per-sender agreement
   (AgreementRaw: the statement as written) -- which it breaks; with AllowRelay = TRUE it is recorded in `relay`
   instead, and everything else must still hold. *)
EXTENDS Integers, Sequences, FiniteSets, TLC
CONSTANTS Sessions,      \* ceremony sessions (session hashes)
          Allowed,       \* message ids registered with RegisterMessageIDFuncs
          HashSession, HashId, DedupMode,
          AllowRelay,    \* the named deviation RelayForeignPayload is enabled
          AtomicDedup,   \* TRUE: dedupHash compares AND records under one hold of s.mu, before signing (the tree);
                         \* FALSE (control): compare, sign, record afterwards (check-then-act)
          SigCache       \* "none" (the tree); controls: verified signature sets are remembered WITHOUT the payload

VARIABLES cfg,        \* [n |-> cluster size, faulty |-> set of faulty members]
          dedup,      \* [honest m -> [session -> set of [req, id, pl]]]   server.dedup of m's component
          signed,     \* history: [honest m -> set of <<session, id, payload>>] everything m's key signed
          known,      \* signatures by honest members that the faulty members have seen
          raw,        \* history: [honest r -> [session -> set of [from, id, pl]]] callback invocations
          relay,      \* history: the same, for invocations through the deviation RelayForeignPayload
          client,     \* [honest h -> [session -> [act, id, pl, got]]] a running client.Broadcast
          pend,       \* signature requests of faulty members that are inside handleSigRequest concurrently:
                      \* set of [k, m, s, req, id, pl, st], st = "called" | "checked" | "ok" | "no"
          vcache      \* controls only (SigCache # "none"): [honest r -> [session -> set of [id, sigs]]], the signature
                      \* sets r's component remembers as verified; constant (empty) in the design of the tree
vars == <<cfg, dedup, signed, known, raw, relay, client, pend, vcache>>

Members == 1..cfg.n
Faulty == cfg.faulty
Honest == Members \ Faulty

NoPl == [origin |-> 0, body |-> "", ok |-> FALSE]
Sig(by, s, id, pl) == [by |-> by, sess |-> s, id |-> id, pl |-> pl]
Garbage == Sig(0, "", "", NoPl)                 \* bytes that are no signature of anybody (any length)
Idle == [act |-> FALSE, id |-> "", pl |-> NoPl, got |-> {}]

InitWith(c) ==
  /\ cfg = c
  /\ dedup = [m \in (1..c.n) \ c.faulty |-> [s \in Sessions |-> {}]]
  /\ signed = [m \in (1..c.n) \ c.faulty |-> {}]
  /\ known = {}
  /\ raw = [m \in (1..c.n) \ c.faulty |-> [s \in Sessions |-> {}]]
  /\ relay = [m \in (1..c.n) \ c.faulty |-> [s \in Sessions |-> {}]]
  /\ client = [m \in (1..c.n) \ c.faulty |-> [s \in Sessions |-> Idle]]
  /\ pend = {}
  /\ vcache = [m \in (1..c.n) \ c.faulty |-> [s \in Sessions |-> {}]]

---------------------------------------------------------------------------------------------------
(* newHashAny: what a signature is bound to. *)
H(s, id, pl) == <<IF HashSession THEN s ELSE "*", IF HashId THEN id ELSE "*", pl>>
SigOK(sig, i, s, id, pl) == sig.by = i /\ H(sig.sess, sig.id, sig.pl) = H(s, id, pl)

(* server.handleSigRequest at honest m (component of session s), request from transport peer req. *)
DedupKeyMatch(t, req, id) == CASE DedupMode = "peer+id" -> t.req = req /\ t.id = id
                               [] DedupMode = "id"      -> t.id = id
                               [] OTHER                 -> FALSE
SigOutcome(m, s, req, id, pl) ==
  IF id \notin Allowed THEN "unknown"                                         \* getMessageIDFunc
  ELSE IF ~pl.ok THEN "check"                                                 \* fn.checkMessage
  ELSE IF \E t \in dedup[m][s] : DedupKeyMatch(t, req, id) /\ t.pl # pl THEN "dedup"   \* dedupHash
  ELSE "ok"
ServeSig(m, s, req, id, pl) ==
  IF SigOutcome(m, s, req, id, pl) = "ok"
    THEN /\ dedup' = [dedup EXCEPT ![m][s] = @ \cup {[req |-> req, id |-> id, pl |-> pl]}]
         /\ signed' = [signed EXCEPT ![m] = @ \cup {<<s, id, pl>>}]
    ELSE UNCHANGED <<dedup, signed>>

(* newPeerK1Verifier, then server.handleMessage calls the callback. *)
Verify(s, id, pl, sigs) == /\ Len(sigs) = cfg.n
                           /\ id \in Allowed
                           /\ \A i \in 1..cfg.n : SigOK(sigs[i], i, s, id, pl)
(* What handleMessage lets through.  In the design of the tree: exactly what verifies (every position of the list is a
   valid signature of THAT member over exactly (session, id, payload)) -- whatever the component accepted before.
   The control variants add a memory of verified signature sets that is consulted first. *)
CacheKey(id, sigs) == [id |-> IF SigCache = "sigs" THEN "*" ELSE id, sigs |-> sigs]
CacheHit(r, s, id, sigs) ==
  CASE SigCache = "none" -> FALSE
    [] SigCache = "id+sigs/member" -> \E s2 \in Sessions : CacheKey(id, sigs) \in vcache[r][s2]
    [] OTHER -> CacheKey(id, sigs) \in vcache[r][s]
Passes(r, s, id, pl, sigs) == IF CacheHit(r, s, id, sigs) THEN TRUE ELSE Verify(s, id, pl, sigs)
Deliver(r, s, from, id, pl, sigs) ==
  IF Passes(r, s, id, pl, sigs)
    THEN /\ raw' = [raw EXCEPT ![r][s] = @ \cup {[from |-> from, id |-> id, pl |-> pl]}]
         /\ vcache' = IF SigCache = "none" THEN vcache ELSE [vcache EXCEPT ![r][s] = @ \cup {CacheKey(id, sigs)}]
    ELSE UNCHANGED <<raw, vcache>>
(* what every callback registered in the tree does before it uses a payload (dkg/nodesigs.go broadcastCallback,
   dkg/frostp2p.go newBcastCallback): right type, origin tag = transport sender (and not the receiver itself) *)
CallbackAccepts(r, from, pl) == pl.ok /\ pl.origin = from /\ pl.origin # r

---------------------------------------------------------------------------------------------------
(* The honest client (client.Broadcast of member h, session s).  Assumption A1: an honest member only
   broadcasts payloads tagged with its own origin. *)
BStart(h, s, id, pl) ==
  /\ h \in Honest /\ ~client[h][s].act /\ pl.origin = h
  /\ IF id \in Allowed                                  \* newK1Signer: msgIDAllowed, else Broadcast fails here
       THEN /\ signed' = [signed EXCEPT ![h] = @ \cup {<<s, id, pl>>}]
            /\ client' = [client EXCEPT ![h][s] = [act |-> TRUE, id |-> id, pl |-> pl, got |-> {Sig(h, s, id, pl)}]]
       ELSE /\ UNCHANGED signed
            /\ client' = [client EXCEPT ![h][s] = [act |-> TRUE, id |-> id, pl |-> pl, got |-> {}]]
  /\ UNCHANGED <<cfg, dedup, known, raw, relay, pend, vcache>>
\* the request of h's client is served by honest m
HSig(h, s, m) ==
  LET c == client[h][s] IN
  /\ h \in Honest /\ c.act /\ m \in Honest \ {h}
  /\ ServeSig(m, s, h, c.id, c.pl)
  /\ client' = [client EXCEPT ![h][s].got =
                  IF SigOutcome(m, s, h, c.id, c.pl) = "ok" THEN @ \cup {Sig(m, s, c.id, c.pl)} ELSE @]
  /\ UNCHANGED <<cfg, known, raw, relay, pend, vcache>>
Forgeable(sig) == sig.by \notin Honest \/ sig \in known
\* a faulty member answers the request of h's client with whatever it can produce
FReply(h, s, f, sig) ==
  /\ h \in Honest /\ client[h][s].act /\ f \in Faulty /\ Forgeable(sig)
  /\ client' = [client EXCEPT ![h][s].got = @ \cup {sig}]
  /\ UNCHANGED <<cfg, dedup, signed, known, raw, relay, pend, vcache>>
\* h's client sends its BCastMessage to honest r (only signatures it was given; order/completeness is the
\* client's business: the receiver decides)
HSend(h, s, r, sigs) ==
  LET c == client[h][s] IN
  /\ h \in Honest /\ c.act /\ r \in Honest \ {h}
  /\ \A i \in DOMAIN sigs : sigs[i] \in c.got
  /\ Deliver(r, s, h, c.id, c.pl, sigs)
  /\ UNCHANGED <<cfg, dedup, signed, known, relay, client, pend>>
\* ... and to a faulty member, which thereby sees the signatures
FRecv(h, s, f, sigs) ==
  LET c == client[h][s] IN
  /\ h \in Honest /\ c.act /\ f \in Faulty
  /\ \A i \in DOMAIN sigs : sigs[i] \in c.got
  /\ known' = known \cup {sigs[i] : i \in {j \in DOMAIN sigs : sigs[j].by \in Honest}}
  /\ UNCHANGED <<cfg, dedup, signed, raw, relay, client, pend, vcache>>
BEnd(h, s) ==
  /\ h \in Honest /\ client[h][s].act
  /\ client' = [client EXCEPT ![h][s] = Idle]
  /\ UNCHANGED <<cfg, dedup, signed, known, raw, relay, pend, vcache>>

(* Faulty member f talks to the handlers of honest members directly. *)
FSig(f, m, s, id, pl) ==
  /\ f \in Faulty /\ m \in Honest
  /\ ServeSig(m, s, f, id, pl)
  /\ known' = IF SigOutcome(m, s, f, id, pl) = "ok" THEN known \cup {Sig(m, s, id, pl)} ELSE known
  /\ UNCHANGED <<cfg, raw, relay, client, pend, vcache>>
\* a verifying message of f whose payload is ANOTHER (honest) member's completely signed broadcast: every honest
\* member signed it in that member's dedup slot; f re-sends it under its own transport identity
IsRelay(f, s, id, pl, sigs) ==
  /\ Verify(s, id, pl, sigs) /\ pl.origin \in Honest
  /\ \A m \in Honest \ {pl.origin} : [req |-> pl.origin, id |-> id, pl |-> pl] \in dedup[m][s]
(* The same request, when several of them are inside the handler of one member at the same time (stream handlers run
   concurrently): call, the critical section of dedupHash + signing (the linearisation point), return.  FSig above
   is FCall; FLin; FRet without anything in between. *)
FCall(k, f, m, s, id, pl) ==
  /\ f \in Faulty /\ m \in Honest /\ \A p \in pend : p.k # k
  /\ pend' = pend \cup {[k |-> k, m |-> m, s |-> s, req |-> f, id |-> id, pl |-> pl, st |-> "called"]}
  /\ UNCHANGED <<cfg, dedup, signed, known, raw, relay, client, vcache>>
FLin(p) ==
  /\ p \in pend /\ p.st = "called"
  /\ IF AtomicDedup
       THEN /\ ServeSig(p.m, p.s, p.req, p.id, p.pl)
            /\ pend' = (pend \ {p}) \cup {[p EXCEPT !.st = IF SigOutcome(p.m, p.s, p.req, p.id, p.pl) = "ok" THEN "ok" ELSE "no"]}
       ELSE /\ UNCHANGED <<dedup, signed>>            \* only compared
            /\ pend' = (pend \ {p}) \cup {[p EXCEPT !.st = IF SigOutcome(p.m, p.s, p.req, p.id, p.pl) = "ok" THEN "checked" ELSE "no"]}
  /\ UNCHANGED <<cfg, known, raw, relay, client, vcache>>
\* control only (AtomicDedup = FALSE): signed, then recorded whatever the map holds by now
FRecord(p) ==
  /\ ~AtomicDedup /\ p \in pend /\ p.st = "checked"
  /\ dedup' = [dedup EXCEPT ![p.m][p.s] = @ \cup {[req |-> p.req, id |-> p.id, pl |-> p.pl]}]
  /\ signed' = [signed EXCEPT ![p.m] = @ \cup {<<p.s, p.id, p.pl>>}]
  /\ pend' = (pend \ {p}) \cup {[p EXCEPT !.st = "ok"]}
  /\ UNCHANGED <<cfg, known, raw, relay, client, vcache>>
FRet(p) ==
  /\ p \in pend /\ p.st \in {"ok", "no"}
  /\ pend' = pend \ {p}
  /\ known' = IF p.st = "ok" THEN known \cup {Sig(p.m, p.s, p.id, p.pl)} ELSE known
  /\ UNCHANGED <<cfg, dedup, signed, raw, relay, client, vcache>>
FSend(f, r, s, id, pl, sigs) ==
  /\ f \in Faulty /\ r \in Honest
  /\ \A i \in DOMAIN sigs : Forgeable(sigs[i])
  /\ ~(AllowRelay /\ IsRelay(f, s, id, pl, sigs))
  /\ Deliver(r, s, f, id, pl, sigs)
  /\ UNCHANGED <<cfg, dedup, signed, known, relay, client, pend>>
\* DEVIATION (known finding C13-relay-foreign-payload): the callback of r is invoked for it, attributed to f
RelayForeignPayload(f, r, s, id, pl, sigs) ==
  /\ AllowRelay
  /\ f \in Faulty /\ r \in Honest
  /\ \A i \in DOMAIN sigs : Forgeable(sigs[i])
  /\ IsRelay(f, s, id, pl, sigs)
  /\ relay' = [relay EXCEPT ![r][s] = @ \cup {[from |-> f, id |-> id, pl |-> pl]}]
  /\ UNCHANGED <<cfg, dedup, signed, known, raw, client, pend, vcache>>

---------------------------------------------------------------------------------------------------
(* A repertoire of signature lists for a faulty sender (used by the exhaustive configs and by schedule
   generation; the actions above accept ANY list of forgeable signatures): the best list it can build, that list
   with one position replaced by another signature it holds for that position (other payload, id, session), by
   another member's signature or by garbage, two positions swapped, one dropped, one duplicated, none. *)
Best(i, s, id, pl) == IF i \in Faulty \/ Sig(i, s, id, pl) \in known THEN Sig(i, s, id, pl) ELSE Garbage
BestList(s, id, pl) == [i \in 1..cfg.n |-> Best(i, s, id, pl)]
Complete(s, id, pl) == \A i \in 1..cfg.n : Best(i, s, id, pl) # Garbage
Alternatives(i, s, id, pl) ==
  {g \in known : g.by = i} \cup {Garbage} \cup {Best(j, s, id, pl) : j \in Members \ {i}}
AttackLists(s, id, pl) ==
  LET b == BestList(s, id, pl) IN
  {b} \cup UNION {{[b EXCEPT ![i] = a] : a \in {x \in Alternatives(i, s, id, pl) : Forgeable(x)}} : i \in Members}
      \cup {[b EXCEPT ![i] = b[j], ![j] = b[i]] : i, j \in Members}
      \cup {SubSeq(b, 1, cfg.n - 1), SubSeq(b, 2, cfg.n), Append(b, b[cfg.n]), <<>>}
(* ... and the REPLAY of a complete signature set: the best list it can build for ANOTHER payload it holds a signature
   for, under any registered id, in any session (when such a list is complete it is a list some member may already
   have accepted: sent again with this payload / id / session it must be refused all the same). *)
ReplayLists == {BestList(s2, id2, p2) : s2 \in Sessions, id2 \in Allowed, p2 \in {g.pl : g \in known}}

---------------------------------------------------------------------------------------------------
(* Properties (C13). *)
\* first sentence of the statement: a payload reaches the application only if EVERY honest member (the receiver
\* included) signed exactly that payload for that id in that session (faulty members sign anything)
Invoked(r, s) == raw[r][s] \cup relay[r][s]
AllSigned == \A r \in Honest : \A s \in Sessions : \A d \in Invoked(r, s) :
                \A m \in Honest : <<s, d.id, d.pl>> \in signed[m]
\* only registered ids are delivered
OnlyAllowed == \A r \in Honest : \A s \in Sessions : \A d \in Invoked(r, s) : d.id \in Allowed
\* second sentence, as written: no two members deliver different payloads for one (transport) sender and id, per
\* ceremony session.  VIOLATED on the pinned tree through RelayForeignPayload (with AllowRelay = FALSE the relayed
\* deliveries are in `raw`); holds for everything else.
AgreementRaw == \A s \in Sessions : \A r1, r2 \in Honest : \A d1 \in raw[r1][s], d2 \in raw[r2][s] :
                        (d1.from = d2.from /\ d1.id = d2.id) => d1.pl = d2.pl
\* what the application accepts when its callback checks the origin tag (dkg/nodesigs.go, dkg/frostp2p.go do;
\* dkg/pedersen/board.go handleNodePubKeyMessage does NOT: its payload has no origin tag)
Accepted(r, s) == {d \in Invoked(r, s) : CallbackAccepts(r, d.from, d.pl)}
\* the second sentence for such callbacks: holds even with relays
AgreementAccepted == \A s \in Sessions : \A r1, r2 \in Honest : \A d1 \in Accepted(r1, s), d2 \in Accepted(r2, s) :
                        (d1.from = d2.from /\ d1.id = d2.id) => d1.pl = d2.pl
\* the deviation is exactly what its name says: a relayed payload carries another member's origin tag (and is
\* therefore never accepted by a callback that checks it)
RelayIsForeign == \A r \in Honest : \A s \in Sessions : \A d \in relay[r][s] :
                        d.from \in Faulty /\ d.pl.origin # d.from /\ ~CallbackAccepts(r, d.from, d.pl)
\* server.dedup: at most one payload per requesting peer and id; only checked payloads of registered ids
DedupFunctional == \A m \in Honest : \A s \in Sessions : \A t1, t2 \in dedup[m][s] :
                        (t1.req = t2.req /\ t1.id = t2.id) => t1.pl = t2.pl
DedupChecked == \A m \in Honest : \A s \in Sessions : \A t \in dedup[m][s] : t.id \in Allowed /\ t.pl.ok
\* unforgeability bookkeeping: what the faulty members hold was really signed
KnownGenuine == \A g \in known : g.by \in Honest /\ <<g.sess, g.id, g.pl>> \in signed[g.by]
\* a delivery attributed to an honest sender is that sender's own payload
HonestOrigin == \A r \in Honest : \A s \in Sessions : \A d \in raw[r][s] : d.from \in Honest => d.pl.origin = d.from
\* a request in flight was really made by a faulty member to an honest one
PendOK == \A p \in pend : p.req \in Faulty /\ p.m \in Honest
Safety == AllSigned /\ OnlyAllowed /\ AgreementRaw /\ AgreementAccepted /\ RelayIsForeign
          /\ DedupFunctional /\ DedupChecked /\ KnownGenuine /\ HonestOrigin /\ PendOK
\* a slot of server.dedup is never released or overwritten, histories only grow
Monotone == [][/\ \A m \in Honest : \A s \in Sessions : dedup[m][s] \subseteq dedup'[m][s] /\ raw[m][s] \subseteq raw'[m][s]
                                                           /\ relay[m][s] \subseteq relay'[m][s]
               /\ \A m \in Honest : signed[m] \subseteq signed'[m]
               /\ known \subseteq known' /\ cfg' = cfg]_vars
====
