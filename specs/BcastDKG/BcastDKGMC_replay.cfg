SPECIFICATION MCSpec
CONSTANTS
 Sessions = {s1, s2}
 Allowed = {a, b}
 BadId = zz
 HashSession = TRUE
 HashId = TRUE
 DedupMode = "peer+id"
 AtomicDedup = TRUE
 AllowRelay = TRUE
 SigCache = "none"
 MCCfgs <- Cfg3
 Bodies = {x}
 MaxFSig = 3
 MaxB = 1
 Conc = 0
 Lists = "attack"
SYMMETRY Sym
INVARIANTS Safety
PROPERTIES Monotone
CHECK_DEADLOCK FALSE
