SPECIFICATION GenSpec
CONSTANTS
 N = 4
 T = 3
 NV = 2
 Cmds = {1, 2, 3, 4, 5, 6, 7}
 RepostAppends = TRUE
 Defect = "none"
 Honest = {1, 2, 3}
 Args <- ArgsAll
 ByzReqs <- Byz4
 MaxByz = 1
 Faults <- FCodes
 MaxFault = 2
 Tampers <- TAll
 MaxTamper = 2
 Plants <- PNone
 MaxPlant = 0
 Statuses <- SAll
 MaxChain = 2
 InitSt <- IMixed
 Policy = "free"
 GenLen = 22
INVARIANTS Emit
CONSTRAINT Stop
CHECK_DEADLOCK FALSE
