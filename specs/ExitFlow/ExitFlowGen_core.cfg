SPECIFICATION GenSpec
CONSTANTS
 N = 4
 T = 3
 NV = 1
 Cmds = {1, 2, 3, 4, 5, 6, 7}
 RepostAppends = TRUE
 Defect = "none"
 Honest = {1, 2, 3}
 Args <- ArgsCore
 ByzReqs <- Byz4
 MaxByz = 2
 Faults <- FCodes
 MaxFault = 2
 Tampers <- TAll
 MaxTamper = 2
 Plants <- PNone
 MaxPlant = 0
 Statuses <- SNone
 MaxChain = 0
 InitSt <- IActive
 Policy = "free"
 GenLen = 18
INVARIANTS Emit
CONSTRAINT Stop
CHECK_DEADLOCK FALSE
