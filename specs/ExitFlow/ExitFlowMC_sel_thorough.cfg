SPECIFICATION MCSpec
CONSTANTS
 N = 3
 T = 2
 NV = 2
 Cmds = {1, 2, 3}
 RepostAppends = TRUE
 Defect = "none"
 Honest = {1, 2}
 Args <- ArgsSel
 ByzReqs <- ByzNone
 MaxByz = 0
 Faults <- FNone
 MaxFault = 0
 Tampers <- TNone
 MaxTamper = 0
 Plants <- PNone
 MaxPlant = 0
 Statuses <- SAll
 MaxChain = 2
 InitSt <- IMixed
 Policy = "free"
INVARIANTS Safety Robust
PROPERTIES MCDeleteOnlyOwn MCRefusedNoEffect
VIEW View
CHECK_DEADLOCK FALSE
