SPECIFICATION MCSpec
CONSTANTS
 N = 3
 T = 2
 NV = 1
 Cmds = {1, 2, 3}
 RepostAppends = TRUE
 Defect = "none"
 Honest = {1, 2}
 Args <- ArgsEpoch
 ByzReqs <- Byz3
 MaxByz = 1
 Faults <- FApi
 MaxFault = 1
 Tampers <- TNone
 MaxTamper = 0
 Plants <- PNone
 MaxPlant = 0
 Statuses <- SNone
 MaxChain = 0
 InitSt <- IActive
 Policy = "free"
INVARIANTS Safety Robust
PROPERTIES MCDeleteOnlyOwn MCRefusedNoEffect
VIEW View
CHECK_DEADLOCK FALSE
