---- MODULE ExitFlow ----
(* The distributed voluntary-exit flow through the Obol API: cmd/exit_sign.go, exit_fetch.go, exit_broadcast.go,
   exit_delete.go, exit_list.go (the operators' commands), app/obolapi/exit.go + exit_model.go (the client: request
   signing, aggregation and verification of the full exit) and testutil/obolapimock/exit.go (the server side, as coded).

   Cryptography is abstract.  A PARTIAL SIGNATURE is the token [v, k, e, i]: made with key share k of validator v over
   the exit message (epoch e, validator index i) under the voluntary-exit domain (EIP-7044: one domain whatever the
   epoch); k = 0 is a well-formed signature nobody's share verifies, k = -1 a blank entry of a response.  A FULL EXIT
   is [e, i, by]: `by` is the cluster validator whose group key verifies it (0: none).  Validator indices are abstract:
   cluster validator v has index v, 0 is the index (and the public key) of a validator that is on the chain but not in
   the lock, -1 an index / key nobody has.  A request's `by` is the operator whose identity key signed the canonical
   SSZ root of that request (0: none of the lock's operators).

   One action per request on a wire (the mock serialises requests under one mutex; the beacon node answers one query
   at a time): a command is a little program counter machine whose steps are its requests; everything a command does
   between two requests (reading keys, the lock, files; signing; aggregating; verifying; writing a file) happens within
   the step of the request before it.  pc values:

     sign   pk:  s_q2 (BN: index of the key) -> s_post          idx: s_q1 (BN: key of the index) -> s_post
            both: s_post (no beacon node check, as documented)  all: sa_q (BN: pending_queued | active_ongoing) -> sa_post
     fetch  f_get per validator (--all: lock order; 404 = skipped)         -> writes exit-<pubkey>.json per validator
     bcast  b_get per validator | file(s) read at the start -> b_q (BN: which are active_ongoing) -> verify ALL active
            ones -> b_sub per active validator (Go map order)
     delete d_del per validator (--all: 404 = skipped)          list   l_q
     ... -> fin (result known, the command returns) -Finish-> done

   The ENVIRONMENT: Start of a command, SetStatus (beacon chain), faults on any request (Pre: the request never reaches
   the server, Post: it is served but the client is told a failure code), a tampering API (the full-exit response a
   client receives is ANY response), a Byzantine operator / an outsider talking to the API directly (ByzPost, ByzGet,
   ByzDel with arbitrary share index, signer and content), Plant (an exit file of any content in an operator's
   directory).

   Contract (doc comments of app/obolapi, flag descriptions and command help of cmd/exit*, the mock's rules):
   invariants and action properties below.  RepostAppends = TRUE is deviation D1 of the mock (a re-posted partial is
   stored again and counts again); Defect switches plausible defects on for the control configurations. *)
EXTENDS Integers, Sequences, FiniteSets, TLC

CONSTANTS N, T, NV,        \* operators 1..N (share index = operator index), threshold, validators 1..NV
          Cmds,            \* command identifiers
          RepostAppends,   \* D1, as coded: a partial of a share that already has one stored is appended again
          Defect           \* "none" | "noAggVerify" | "posTrust" | "noReqSig" | "delNoAuth" | "noMatch" | "bcastNoVerify"

Ops == 1..N
Vals == 1..NV
Foreign == 0

VARIABLES store,     \* API: per validator the stored partials, a sequence of [k: share index, by: who signed the request, tok]
          present,   \* API: the validator has an entry in the map (set by the first stored partial, never removed)
          status,    \* beacon chain: status of each cluster validator ("none": not on the chain)
          pool,      \* beacon node: the exits submitted, [v: the validator it was submitted for, x: the exit]
          disk,      \* per operator, per validator: the exit in exit-<pubkey>.json of its directory (NoExit: no file)
          cmd,       \* the commands
          produced,  \* ghost: [v][k] = the messages a partial signature of share k of validator v exists for
          last       \* ghost: the last API request served [m, v, share, by, status]
vars == <<store, present, status, pool, disk, cmd, produced, last>>

NoExit == [e |-> 0, i |-> -1, by |-> -1]
NoResp == [e |-> 0, i |-> -1, sigs |-> <<>>]
NoLast == [m |-> "-", v |-> 0, share |-> 0, by |-> 0, status |-> 0]
Msg(t) == <<t.e, t.i>>
SeqToSet(s) == {s[j] : j \in DOMAIN s}
RECURSIVE SetToSortSeq(_)
SetToSortSeq(S) == IF S = {} THEN <<>> ELSE LET m == CHOOSE x \in S : \A y \in S : x <= y IN <<m>> \o SetToSortSeq(S \ {m})
Cnt(s, k) == Cardinality({j \in DOMAIN s : s[j].k = k})

---------------------------------------------------------------------------------------------------
(* The beacon node: /eth/v1/beacon/states/head/validators with ids (keys, indices) and statuses. *)
St(v) == IF v = Foreign THEN "active_ongoing" ELSE status[v]
OnChain == {v \in Vals : status[v] # "none"} \cup {Foreign}
Answer(q) == {v \in OnChain : ((q.pks = {} /\ q.ixs = {}) \/ v \in q.pks \/ v \in q.ixs) /\ (q.sts = {} \/ St(v) \in q.sts)}

---------------------------------------------------------------------------------------------------
(* The API server: testutil/obolapimock/exit.go as coded.  Each operator returns [status, store, present, resp]. *)
Res(s, st, pr, r) == [status |-> s, store |-> st, present |-> pr, resp |-> r]

RECURSIVE PostLoop(_, _, _, _, _)
PostLoop(st, pr, share, by, blobs) ==
  IF blobs = <<>> THEN Res(201, st, pr, NoResp)
  ELSE LET b == Head(blobs)
           cur == st[b.v]
           tok == [v |-> b.sv, k |-> b.k, e |-> b.e, i |-> b.i] IN
    IF b.v \notin Vals THEN Res(400, st, pr, NoResp)                                \* could not find validator in lock file
    ELSE IF ~(b.sv = b.v /\ b.k = share) THEN Res(400, st, pr, NoResp)              \* tbls.Verify against PubShares[share-1]
    ELSE IF Len(cur) > 0 /\ Msg(cur[Len(cur)].tok) # Msg(tok) /\ Defect # "noMatch"
      THEN Res(400, st, pr, NoResp)                                                 \* wrong partial exit for the selected validator
    ELSE IF Len(cur) + 1 > N THEN PostLoop(st, pr, share, by, Tail(blobs))          \* "already at threshold, ignore"
    ELSE IF ~RepostAppends /\ \E j \in DOMAIN cur : cur[j].k = share /\ cur[j].tok = tok
      THEN PostLoop(st, pr, share, by, Tail(blobs))                                 \* contract: re-posting is idempotent
    ELSE PostLoop([st EXCEPT ![b.v] = Append(cur, [k |-> share, by |-> by, tok |-> tok])], [pr EXCEPT ![b.v] = TRUE],
                  share, by, Tail(blobs))

ApiPost(st, pr, q) ==
  IF q.malformed THEN Res(400, st, pr, NoResp)
  ELSE IF ~q.lock THEN Res(404, st, pr, NoResp)
  ELSE IF q.share \notin Ops THEN Res(400, st, pr, NoResp)
  ELSE IF q.by # q.share /\ Defect # "noReqSig" THEN Res(400, st, pr, NoResp)
  ELSE PostLoop(st, pr, q.share, q.by, q.blobs)

\* slices.SortFunc by share index (in place: the stored order changes too)
RECURSIVE SortByK(_)
SortByK(s) == IF s = <<>> THEN <<>>
              ELSE LET m == CHOOSE j \in DOMAIN s : \A h \in DOMAIN s : s[j].k < s[h].k \/ (s[j].k = s[h].k /\ j <= h) IN
                   <<s[m]>> \o SortByK([j \in 1..(Len(s) - 1) |-> IF j < m THEN s[j] ELSE s[j + 1]])

ApiGet(st, pr, q) ==
  IF q.noauth THEN Res(401, st, pr, NoResp)                                         \* authMiddleware
  ELSE IF ~q.lock THEN Res(404, st, pr, NoResp)
  ELSE IF q.v \notin Vals \/ ~pr[q.v] THEN Res(404, st, pr, NoResp)                 \* validator not found
  ELSE IF Len(st[q.v]) < T THEN Res(401, st, pr, NoResp)                            \* not enough partial exits stored
  ELSE IF q.share \notin Ops THEN Res(400, st, pr, NoResp)
  ELSE IF q.by # q.share THEN Res(400, st, pr, NoResp)
  ELSE LET s == SortByK(st[q.v]) IN
       Res(200, [st EXCEPT ![q.v] = s], pr,
           [e |-> s[Len(s)].tok.e, i |-> s[Len(s)].tok.i, sigs |-> [j \in DOMAIN s |-> s[j].tok]])

ApiDel(st, pr, q) ==
  IF q.noauth THEN Res(401, st, pr, NoResp)
  ELSE IF ~q.lock THEN Res(404, st, pr, NoResp)
  ELSE IF q.v \notin Vals \/ ~pr[q.v] THEN Res(404, st, pr, NoResp)
  ELSE IF q.share \notin Ops THEN Res(400, st, pr, NoResp)
  ELSE IF q.by # q.share /\ Defect # "delNoAuth" THEN Res(400, st, pr, NoResp)
  ELSE LET s == st[q.v]
           J == {j \in DOMAIN s : s[j].k = q.share} IN
       IF J = {} THEN Res(404, st, pr, NoResp)                                      \* share index not found for validator
       ELSE LET m == CHOOSE j \in J : \A h \in J : j <= h IN
            Res(200, [st EXCEPT ![q.v] = [j \in 1..(Len(s) - 1) |-> IF j < m THEN s[j] ELSE s[j + 1]]], pr, NoResp)

Serve(st, pr, q) == CASE q.m = "POST" -> ApiPost(st, pr, q)
                      [] q.m = "GET" -> ApiGet(st, pr, q)
                      [] q.m = "DELETE" -> ApiDel(st, pr, q)
                      [] OTHER -> Res(404, st, pr, NoResp)

Req(m, share, by, v, blobs) == [m |-> m, lock |-> TRUE, share |-> share, by |-> by, v |-> v, blobs |-> blobs,
                                malformed |-> FALSE, noauth |-> FALSE]

---------------------------------------------------------------------------------------------------
(* The client: obolapi.Client.GetFullExit on a response R = [e, i, sigs]. *)
Live(R) == {j \in DOMAIN R.sigs : R.sigs[j].k # -1}                 \* "" entries are skipped
ValidFor(t, v, e, i) == t.v = v /\ t.k \in Ops /\ t.e = e /\ t.i = i
\* what the doc comment promises: every partial signature is matched to its share by verification, whatever its
\* position; the aggregate is verified against the validator's key
AllValid(v, R) == \A j \in Live(R) : ValidFor(R.sigs[j], v, R.e, R.i)
NoDup(R) == \A j, h \in Live(R) : j # h => R.sigs[j].k # R.sigs[h].k
GoodResp(v, R) == AllValid(v, R) /\ NoDup(R) /\ Cardinality(Live(R)) >= T
AggOK(v, R) == CASE Defect = "noAggVerify" -> AllValid(v, R) /\ NoDup(R) /\ Live(R) # {}
                 [] Defect = "posTrust" -> (\A j \in Live(R) : ValidFor(R.sigs[j], v, R.e, R.i) /\ R.sigs[j].k = j) /\ Cardinality(Live(R)) >= T
                 [] OTHER -> GoodResp(v, R)
AggExit(v, R) == [e |-> R.e, i |-> R.i, by |-> IF Cardinality(Live(R)) >= T THEN v ELSE 0]

\* httpPost: 2xx and 409 are success; httpGet / httpDelete: 404 is ErrNoValue
PostOK(code) == code \in 200..299 \/ code = 409

---------------------------------------------------------------------------------------------------
IdleCmd == [op |-> 0, kind |-> "-", sel |-> "-", v |-> 0, iv |-> 0, e |-> 0, src |-> "-", fv |-> 0,
            pc |-> "idle", k |-> 0, vv |-> 0, ii |-> 0, got |-> [x \in Vals |-> NoExit], todo |-> {}, ok |-> FALSE, any |-> FALSE,
            wrote |-> {}, subm |-> {}]

InitWith(st) ==
        /\ store = [v \in Vals |-> <<>>] /\ present = [v \in Vals |-> FALSE]
        /\ status = st
        /\ pool = {} /\ disk = [o \in Ops |-> [v \in Vals |-> NoExit]]
        /\ cmd = [c \in Cmds |-> IdleCmd]
        /\ produced = [v \in Vals |-> [k \in Ops |-> {}]]
        /\ last = NoLast

Fin(r, ok) == [r EXCEPT !.pc = "fin", !.ok = ok]
FinAny(r) == [r EXCEPT !.pc = "fin", !.any = TRUE]
Gathered(r) == {v \in Vals : r.got[v] # NoExit}

\* The command line: kind, sel ("pk" | "idx" | "both" | "all"), v (--validator-public-key), iv (--validator-index),
\* e (--exit-epoch), src ("api" | "file" | "dir"), fv (the validator in the name of --exit-from-file).
Begin(o, a) ==
  LET b == [IdleCmd EXCEPT !.op = o, !.kind = a.kind, !.sel = a.sel, !.v = a.v, !.iv = a.iv, !.e = a.e, !.src = a.src, !.fv = a.fv] IN
  CASE a.kind = "sign" /\ a.sel = "pk" -> IF a.v \in Vals THEN [b EXCEPT !.pc = "s_q2", !.vv = a.v] ELSE Fin(b, FALSE)
    [] a.kind = "sign" /\ a.sel = "idx" -> [b EXCEPT !.pc = "s_q1"]
    [] a.kind = "sign" /\ a.sel = "both" -> IF a.v \in Vals THEN [b EXCEPT !.pc = "s_post", !.vv = a.v, !.ii = a.iv] ELSE Fin(b, FALSE)
    [] a.kind = "sign" /\ a.sel = "all" -> [b EXCEPT !.pc = "sa_q"]
    [] a.kind = "fetch" /\ a.sel = "all" -> [b EXCEPT !.pc = "f_get", !.k = 1]
    [] a.kind = "fetch" -> IF a.v \in Vals THEN [b EXCEPT !.pc = "f_get", !.k = a.v] ELSE Fin(b, FALSE)
    [] a.kind = "bcast" /\ ((a.sel = "all" /\ a.src = "file") \/ (a.sel # "all" /\ a.src = "dir")) -> Fin(b, FALSE)   \* refused by the command line
    [] a.kind = "bcast" /\ a.sel = "all" /\ a.src = "dir" ->
         IF \A v \in Vals : disk[o][v] = NoExit THEN FinAny(b) ELSE [b EXCEPT !.pc = "b_q", !.got = disk[o]]
    [] a.kind = "bcast" /\ a.sel = "all" -> [b EXCEPT !.pc = "b_get", !.k = 1]
    [] a.kind = "bcast" /\ a.src = "file" ->      \* the validator is the one in the file's NAME; --validator-public-key is not looked at
         IF a.fv \in Vals /\ disk[o][a.fv] # NoExit THEN [b EXCEPT !.pc = "b_q", !.got = [x \in Vals |-> IF x = a.fv THEN disk[o][x] ELSE NoExit]]
         ELSE Fin(b, FALSE)
    [] a.kind = "bcast" -> IF a.v \in Vals THEN [b EXCEPT !.pc = "b_get", !.k = a.v] ELSE Fin(b, FALSE)
    [] a.kind = "delete" /\ a.sel = "all" -> [b EXCEPT !.pc = "d_del", !.k = 1]
    [] a.kind = "delete" -> [b EXCEPT !.pc = "d_del", !.k = a.v]
    [] a.kind = "list" -> [b EXCEPT !.pc = "l_q"]

Busy(o) == \E d \in Cmds : cmd[d].op = o /\ cmd[d].pc \notin {"idle", "done"}
Start(c, o, a) == /\ cmd[c].pc = "idle" /\ o \in Ops /\ ~Busy(o)
                  /\ cmd' = [cmd EXCEPT ![c] = Begin(o, a)]
                  /\ UNCHANGED <<store, present, status, pool, disk, produced, last>>

\* the command has returned: only who ran what with which result is kept
Finish(c) == /\ cmd[c].pc = "fin"
             /\ cmd' = [cmd EXCEPT ![c] = [IdleCmd EXCEPT !.pc = "done", !.op = cmd[c].op, !.kind = cmd[c].kind, !.sel = cmd[c].sel, !.ok = cmd[c].ok, !.any = cmd[c].any]]
             /\ UNCHANGED <<store, present, status, pool, disk, produced, last>>

(* ---- requests to the beacon node ---- *)
NoQ == [pks |-> {}, ixs |-> {}, sts |-> {}]
BnQuery(c) == LET r == cmd[c] IN
  CASE r.pc = "s_q1" -> [NoQ EXCEPT !.ixs = {r.iv}]
    [] r.pc = "s_q2" -> [NoQ EXCEPT !.pks = {r.vv}]
    [] r.pc = "sa_q" -> [NoQ EXCEPT !.pks = Vals, !.sts = {"pending_queued", "active_ongoing"}]
    [] r.pc = "b_q" -> [NoQ EXCEPT !.pks = Gathered(r), !.sts = {"active_ongoing"}]
    [] r.pc = "l_q" -> [NoQ EXCEPT !.pks = Vals]
    [] OTHER -> NoQ

AfterQuery(r, ans) ==
  CASE r.pc = "s_q1" -> IF r.iv \in ans /\ r.iv \in Vals THEN [r EXCEPT !.pc = "s_post", !.vv = r.iv, !.ii = r.iv] ELSE Fin(r, FALSE)
    [] r.pc = "s_q2" -> IF r.vv \in ans THEN [r EXCEPT !.pc = "s_post", !.ii = r.vv] ELSE Fin(r, FALSE)
    [] r.pc = "sa_q" -> IF ans \subseteq Vals THEN [r EXCEPT !.pc = "sa_post", !.todo = ans] ELSE Fin(r, FALSE)
    [] r.pc = "b_q" -> LET act == ans \cap Gathered(r) IN
                       IF Defect # "bcastNoVerify" /\ \E v \in act : r.got[v].by # v THEN Fin(r, FALSE)   \* exit message signature not verified
                       ELSE IF act = {} THEN Fin(r, TRUE) ELSE [r EXCEPT !.pc = "b_sub", !.todo = act]
    [] r.pc = "l_q" -> Fin([r EXCEPT !.todo = {v \in ans : St(v) = "active_ongoing"}], TRUE)

BnVals(c, f) == /\ cmd[c].pc \in {"s_q1", "s_q2", "sa_q", "b_q", "l_q"}
                /\ cmd' = [cmd EXCEPT ![c] = IF f = "none" THEN AfterQuery(@, Answer(BnQuery(c))) ELSE Fin(@, FALSE)]
                /\ UNCHANGED <<store, present, status, pool, disk, produced, last>>

BnSubmit(c, v, f) == /\ cmd[c].pc = "b_sub" /\ v \in cmd[c].todo
                     /\ IF f = "none"
                          THEN /\ pool' = pool \cup {[v |-> v, x |-> cmd[c].got[v]]}
                               /\ cmd' = [cmd EXCEPT ![c] = LET r == [@ EXCEPT !.todo = @ \ {v}, !.subm = @ \cup {v}] IN
                                                            IF r.todo = {} THEN Fin(r, TRUE) ELSE r]
                          ELSE pool' = pool /\ cmd' = [cmd EXCEPT ![c] = Fin(@, FALSE)]
                     /\ UNCHANGED <<store, present, status, disk, produced, last>>

(* ---- requests to the API ---- *)
Blob(v, e, i, k) == [v |-> v, e |-> e, i |-> i, sv |-> v, k |-> k]
ApiReq(c) == LET r == cmd[c] IN
  CASE r.pc = "s_post" -> Req("POST", r.op, r.op, 0, <<Blob(r.vv, r.e, r.ii, r.op)>>)
    [] r.pc = "sa_post" -> LET s == SetToSortSeq(r.todo) IN          \* sorted by validator index ascending
                           Req("POST", r.op, r.op, 0, [j \in DOMAIN s |-> Blob(s[j], r.e, s[j], r.op)])
    [] r.pc \in {"f_get", "b_get"} -> Req("GET", r.op, r.op, r.k, <<>>)
    [] r.pc = "d_del" -> Req("DELETE", r.op, r.op, r.k, <<>>)
    [] OTHER -> Req("-", 0, 0, 0, <<>>)

NextVal(r, after) == IF r.sel = "all" /\ r.k < NV THEN [r EXCEPT !.k = r.k + 1] ELSE after

\* the command after its request was answered: `seen` the status code the client saw, R the full-exit response it read
AfterApi(r, seen, R) ==
  CASE r.pc \in {"s_post", "sa_post"} -> Fin(r, PostOK(seen))
    [] r.pc = "f_get" ->
         IF seen \in 200..299 THEN (IF AggOK(r.k, R) THEN LET x == [r EXCEPT !.wrote = @ \cup {<<r.k, AggExit(r.k, R)>>}] IN NextVal(x, Fin(x, TRUE))
                                    ELSE Fin(r, FALSE))
         ELSE IF seen = 404 /\ r.sel = "all" THEN NextVal(r, Fin(r, TRUE))
         ELSE Fin(r, FALSE)
    [] r.pc = "b_get" ->
         LET gath(x) == IF Gathered(x) = {} THEN FinAny(x) ELSE [x EXCEPT !.pc = "b_q"] IN
         IF seen \in 200..299 THEN (IF AggOK(r.k, R) THEN LET x == [r EXCEPT !.got[r.k] = AggExit(r.k, R)] IN NextVal(x, gath(x))
                                    ELSE Fin(r, FALSE))
         ELSE IF seen = 404 /\ r.sel = "all" THEN NextVal(r, gath(r))
         ELSE Fin(r, FALSE)
    [] r.pc = "d_del" ->
         IF seen \in 200..299 THEN NextVal(r, Fin(r, TRUE))
         ELSE IF seen = 404 /\ r.sel = "all" THEN NextVal(r, Fin(r, TRUE))
         ELSE Fin(r, FALSE)

Made(q) == [v \in Vals |-> [k \in Ops |-> produced[v][k] \cup
              {<<q.blobs[j].e, q.blobs[j].i>> : j \in {h \in DOMAIN q.blobs : q.blobs[h].sv = v /\ q.blobs[h].k = k}}]]
SeenIn(R) == [v \in Vals |-> [k \in Ops |-> produced[v][k] \cup
              {<<R.sigs[j].e, R.sigs[j].i>> : j \in {h \in DOMAIN R.sigs : R.sigs[h].v = v /\ R.sigs[h].k = k}}]]

\* f: "none" | "pre" (the server never sees the request, the client sees `code`) | "post" (served, the client sees `code`);
\* R: the response the client reads when it sees 200 (a tampering API: anything)
ApiStep(c, f, code, R) ==
  /\ cmd[c].pc \in {"s_post", "sa_post", "f_get", "b_get", "d_del"}
  /\ LET q == ApiReq(c)
         res == IF f = "pre" THEN Res(0, store, present, NoResp) ELSE Serve(store, present, q)
         seen == IF f = "none" THEN res.status ELSE code
         r == cmd[c]
         after == AfterApi(r, seen, R) IN
     /\ store' = res.store /\ present' = res.present
     /\ last' = IF f = "pre" THEN last ELSE [m |-> q.m, v |-> q.v, share |-> q.share, by |-> q.by, status |-> res.status]
     /\ cmd' = [cmd EXCEPT ![c] = after]
     /\ disk' = IF r.pc = "f_get" /\ seen \in 200..299 /\ AggOK(r.k, R) THEN [disk EXCEPT ![r.op][r.k] = AggExit(r.k, R)] ELSE disk
     /\ produced' = IF q.m = "POST" THEN Made(q) ELSE IF seen \in 200..299 THEN SeenIn(R) ELSE produced
  /\ UNCHANGED <<status, pool>>

\* what an API that does not tamper delivers
Served(c) == Serve(store, present, ApiReq(c))

(* ---- the environment ---- *)
SetStatus(v, s) == /\ status' = [status EXCEPT ![v] = s]
                   /\ UNCHANGED <<store, present, pool, disk, cmd, produced, last>>

\* a Byzantine operator or an outsider: any request
Byz(q) == LET res == Serve(store, present, q) IN
          /\ store' = res.store /\ present' = res.present
          /\ last' = [m |-> q.m, v |-> q.v, share |-> q.share, by |-> q.by, status |-> res.status]
          /\ produced' = IF q.m = "POST" THEN Made(q) ELSE produced
          /\ UNCHANGED <<status, pool, disk, cmd>>

\* a file in an operator's directory: an aggregate of the partial signatures of the shares S of validator sv over (e, i)
Plant(o, v, sv, S, e, i) ==
  /\ disk' = [disk EXCEPT ![o][v] = [e |-> e, i |-> i, by |-> IF Cardinality(S) >= T THEN sv ELSE 0]]
  /\ produced' = [produced EXCEPT ![sv] = [k \in Ops |-> IF k \in S THEN @[k] \cup {<<e, i>>} ELSE @[k]]]
  /\ UNCHANGED <<store, present, status, pool, cmd, last>>

---------------------------------------------------------------------------------------------------
(* Contract *)
TypeOK == /\ \A v \in Vals : Len(store[v]) <= N
          /\ \A c \in Cmds : cmd[c].pc \in {"idle", "s_q1", "s_q2", "s_post", "sa_q", "sa_post", "f_get", "b_get", "b_q", "b_sub", "d_del", "l_q", "fin", "done"}

\* "partials of an operator not in the lock, with a wrong share index, over another validator, or with a bad request
\* signature never count": every stored partial was put there by a request signed by the operator whose share index it
\* is filed under, and is that share's signature for that validator
StoreAuthentic == \A v \in Vals : \A j \in DOMAIN store[v] :
                    LET en == store[v][j] IN en.k \in Ops /\ en.by = en.k /\ en.tok.v = v /\ en.tok.k = en.k
\* "must be the same across all the partial exits": the stored partials of a validator are over ONE exit message
StoreSameMsg == \A v \in Vals : \A j, h \in DOMAIN store[v] : Msg(store[v][j].tok) = Msg(store[v][h].tok)
\* re-posting is idempotent: one partial per (validator, share)  -- NOT as coded (D1)
StoreDistinct == \A v \in Vals : \A k \in Ops : Cnt(store[v], k) <= 1
\* the API answers a full-exit request only with >= threshold partials
\* "a full exit is produced only from >= threshold partial signatures by DISTINCT shares over the SAME exit message":
\* wherever an exit that verifies under a validator's key shows up, threshold many of that validator's shares signed its message
Backed(x) == x.by \in Vals => Cardinality({k \in Ops : <<x.e, x.i>> \in produced[x.by][k]}) >= T
ExitUnforgeable == /\ \A p \in pool : Backed(p.x)
                   /\ \A o \in Ops : \A v \in Vals : Backed(disk[o][v])
                   /\ \A c \in Cmds : \A v \in Vals : Backed(cmd[c].got[v])
\* `exit fetch` only ever writes an exit that verifies under the key of the validator it is filed under
FetchWritesGood == \A c \in Cmds : \A w \in cmd[c].wrote : w[2].by = w[1]
\* "only such an exit is ever broadcast": everything submitted to the beacon node verifies under the validator's key
PoolSound == \A p \in pool : p.x.by = p.v
\* `exit broadcast` verifies ALL exits it is going to submit BEFORE it submits the first
BcastVerifiedFirst == \A c \in Cmds : cmd[c].pc = "b_sub" => \A v \in cmd[c].todo : cmd[c].got[v].by = v
\* a single-validator fetch / broadcast that fails has no side effects; a successful fetch has written the file
SingleAtomic == \A c \in Cmds : LET r == cmd[c] IN
                  (r.pc \in {"fin", "done"} /\ r.sel # "all" /\ ~r.ok /\ ~r.any) => (r.wrote = {} /\ r.subm = {})
Safety == TypeOK /\ StoreAuthentic /\ StoreSameMsg /\ ExitUnforgeable /\ FetchWritesGood /\ PoolSound /\ BcastVerifiedFirst /\ SingleAtomic

\* Action properties.
\* "deletion removes only the caller's partial": stored partials only ever disappear through a DELETE request signed
\* by the operator whose share index they are filed under
DeleteOnlyOwn == [][\A v \in Vals : \A k \in Ops : Cnt(store'[v], k) < Cnt(store[v], k) =>
                       (last'.m = "DELETE" /\ last'.v = v /\ last'.share = k /\ last'.by = k /\ Cnt(store'[v], k) = Cnt(store[v], k) - 1
                        /\ \A h \in Ops \ {k} : Cnt(store'[v], h) = Cnt(store[v], h))]_vars
\* a request that is refused changes nothing on the server
RefusedNoEffect == [][(last' # last /\ last'.status \notin 200..299 /\ last'.m # "POST") => store' = store]_vars
\* the promise of GetFullExit's doc comment: whatever the positions in the response, >= threshold verifying partial
\* signatures of distinct shares (and nothing else) aggregate to the full exit
AggRobust(v, R) == AggOK(v, R) <=> GoodResp(v, R)
====
