SPECIFICATION MCSpec
CONSTANTS
 N = 3
 T = 2
 NV = 2
 Cmds = {1, 2, 3}
 RepostAppends = TRUE
 Defect = "none"
 Honest = {1, 2}
 Args <- ArgsFile
 ByzReqs <- ByzNone
 MaxByz = 0
 Faults <- FNone
 MaxFault = 0
 Tampers <- TNone
 MaxTamper = 0
 Plants <- PSome
 MaxPlant = 1
 Statuses <- SNone
 MaxChain = 0
 InitSt <- IActive
 Policy = "free"
INVARIANTS Safety Robust
PROPERTIES MCDeleteOnlyOwn MCRefusedNoEffect
VIEW View
CHECK_DEADLOCK FALSE
