SPECIFICATION MCSpec
CONSTANTS
 N = 3
 T = 2
 NV = 2
 Cmds = {1, 2, 3}
 RepostAppends = TRUE
 Defect = "none"
 Honest = {1, 2}
 Args <- ArgsAll
 ByzReqs <- ByzNone
 MaxByz = 0
 Faults <- FCodes
 MaxFault = 1
 Tampers <- TPos
 MaxTamper = 1
 Plants <- PNone
 MaxPlant = 0
 Statuses <- SNone
 MaxChain = 0
 InitSt <- IMixed
 Policy = "free"
INVARIANTS Safety Robust
PROPERTIES MCDeleteOnlyOwn MCRefusedNoEffect
VIEW View
CHECK_DEADLOCK FALSE
