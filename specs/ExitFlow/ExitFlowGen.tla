---- MODULE ExitFlowGen ----
(* Schedule generation: behaviours of the design spec under the bounds of ExitFlowMC; the ENVIRONMENT's moves are
   recorded in the history variable `hist`: the command lines started, which command's pending request is let through
   next (and with which fault / tampering), the direct requests of the Byzantine operator and the outsider, planted
   files, status changes on the beacon chain.  What the commands and the server do with it is the implementation's
   business.  Run with -simulate; checks/grow_exitflow.py turns a history into a schedule for harness/exitflow. *)
EXTENDS ExitFlowMC, Json
CONSTANTS GenLen
VARIABLES hist
Rec(e) == hist' = Append(hist, e)
Q2J(q) == [req |-> q.m, share |-> q.share, key |-> q.by, v |-> q.v, noauth |-> q.noauth, lock |-> q.lock,
           blobs |-> [j \in DOMAIN q.blobs |-> [v |-> q.blobs[j].v, e |-> q.blobs[j].e, iv |-> q.blobs[j].i, sv |-> q.blobs[j].sv, sk |-> q.blobs[j].k]]]
GenInit == MCInit /\ hist = <<>>
GenNext ==
  \/ \E c \in Cmds : First(c) /\ \E o \in Honest : \E a \in Args :
        /\ StartOK(o, a) /\ Start(c, o, a) /\ UNCHANGED Budget
        /\ Rec([ev |-> "Start", c |-> c, op |-> o, kind |-> a.kind, sel |-> a.sel, v |-> a.v, iv |-> a.iv, e |-> a.e, src |-> a.src, fv |-> a.fv])
  \/ \E c \in Cmds : Finish(c) /\ UNCHANGED <<Budget, hist>>
  \/ \E c \in Cmds : /\ (BnVals(c, "none") \/ (\E v \in Vals : BnSubmit(c, v, "none")) \/ ApiStep(c, "none", 0, Deliver(c)))
                     /\ UNCHANGED Budget /\ Rec([ev |-> "Step", c |-> c])
  \/ /\ nfault < MaxFault /\ nfault' = nfault + 1 /\ UNCHANGED <<nbyz, ntamper, nplant, nchain>>
     /\ \E c \in Cmds : \/ \E f \in Faults : ApiStep(c, f[1], f[2], NoResp) /\ Rec([ev |-> "Step", c |-> c, f |-> f[1], code |-> f[2]])
                        \/ (Faults # {} /\ (BnVals(c, "err") \/ \E v \in Vals : BnSubmit(c, v, "err")) /\ Rec([ev |-> "Step", c |-> c, f |-> "pre", code |-> 500]))
  \/ /\ ntamper < MaxTamper /\ ntamper' = ntamper + 1 /\ UNCHANGED <<nbyz, nfault, nplant, nchain>>
     /\ \E c \in Cmds : Deliver(c) # NoResp /\ \E k \in Tampers :
          ApiStep(c, "none", 0, Tamper(k, Deliver(c))) /\ Rec([ev |-> "Step", c |-> c, tamper |-> [kind |-> k]])
  \/ /\ nbyz < MaxByz /\ nbyz' = nbyz + 1 /\ UNCHANGED <<nfault, ntamper, nplant, nchain>>
     /\ \E q \in ByzReqs : Byz(q) /\ Rec([ev |-> "Byz"] @@ Q2J(q))
  \/ /\ nplant < MaxPlant /\ nplant' = nplant + 1 /\ UNCHANGED <<nbyz, nfault, ntamper, nchain>>
     /\ \E p \in Plants : /\ p[2] \in Vals /\ p[3] \in Vals /\ Plant(p[1], p[2], p[3], p[4], p[5], p[6])
                          /\ Rec([ev |-> "Plant", op |-> p[1], v |-> p[2], sv |-> p[3], shares |-> SetToSortSeq(p[4]), e |-> p[5], iv |-> p[6]])
  \/ /\ nchain < MaxChain /\ nchain' = nchain + 1 /\ UNCHANGED <<nbyz, nfault, ntamper, nplant>>
     /\ \E v \in Vals : \E s \in Statuses : status[v] # s /\ SetStatus(v, s) /\ Rec([ev |-> "Status", v |-> v, st |-> s])
GenSpec == GenInit /\ [][GenNext]_<<mcvars, hist>>
Emit == Len(hist) < GenLen \/ PrintT("@@SCHED@@" \o ToJson([n |-> N, t |-> T, nv |-> NV, st |-> InitSt, steps |-> hist]))
Stop == Len(hist) <= GenLen
====
