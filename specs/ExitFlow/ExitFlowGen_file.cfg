SPECIFICATION GenSpec
CONSTANTS
 N = 4
 T = 3
 NV = 2
 Cmds = {1, 2, 3, 4, 5, 6, 7}
 RepostAppends = TRUE
 Defect = "none"
 Honest = {1, 2, 3}
 Args <- ArgsFile
 ByzReqs <- ByzNone
 MaxByz = 0
 Faults <- FCodes
 MaxFault = 2
 Tampers <- TAll
 MaxTamper = 2
 Plants <- PSome
 MaxPlant = 2
 Statuses <- SExit
 MaxChain = 1
 InitSt <- IActive
 Policy = "free"
 GenLen = 18
INVARIANTS Emit
CONSTRAINT Stop
CHECK_DEADLOCK FALSE
