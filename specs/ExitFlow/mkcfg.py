#!/usr/bin/env python3
"""Writes the ExitFlowMC_*.cfg and ExitFlowGen_*.cfg files of this directory (run it here after changing a bound)."""
OV = {"Args", "ByzReqs", "Faults", "Tampers", "Plants", "Statuses", "InitSt"}
BASE = dict(N=3, T=2, NV=1, Cmds="{1, 2, 3}", RepostAppends="TRUE", Defect='"none"', Honest="{1, 2}", Args="ArgsCore", ByzReqs="Byz3",
            MaxByz=1, Faults="FApi", MaxFault=1, Tampers="TAll", MaxTamper=1, Plants="PNone", MaxPlant=0, Statuses="SNone", MaxChain=0,
            InitSt="IActive", Policy='"free"')


def mc(name, inv="Safety Robust", props="MCDeleteOnlyOwn MCRefusedNoEffect", spec="MCSpec", view=True, **kw):
    d = dict(BASE)
    d.update(kw)
    out = ["SPECIFICATION " + spec, "CONSTANTS"] + [" %s %s %s" % (k, "<-" if k in OV else "=", v) for k, v in d.items()]
    if inv:
        out.append("INVARIANTS " + inv)
    if props:
        out.append("PROPERTIES " + props)
    if view:
        out.append("VIEW View")
    out.append("CHECK_DEADLOCK FALSE")
    open("ExitFlowMC_%s.cfg" % name, "w").write("\n".join(out) + "\n")


STRICT = "Safety Robust StoreDistinct EnoughIsEnough AnsweredOnlyAtThreshold"
NOBYZ = dict(ByzReqs="ByzNone", MaxByz=0)
NOTAMP = dict(Tampers="TNone", MaxTamper=0)
NOFAULT = dict(Faults="FNone", MaxFault=0)
mc("core")
mc("strict", inv=STRICT, RepostAppends="FALSE")
mc("epoch", Args="ArgsEpoch", **NOTAMP)
mc("all", NV=2, Args="ArgsAll", InitSt="IMixed", Tampers="TPos", Faults="FCodes", **NOBYZ)
mc("file", NV=2, Args="ArgsFile", Plants="PSome", MaxPlant=1, **NOBYZ, **NOTAMP, **NOFAULT)
mc("sel", NV=2, Args="ArgsSel", Statuses="SAll", MaxChain=1, InitSt="IMixed", **NOBYZ, **NOTAMP, **NOFAULT)
mc("out", ByzReqs="Byz3Out", MaxByz=2, **NOTAMP, **NOFAULT)
mc("four", N=4, T=3, Honest="{1, 2, 3}", Cmds="{1, 2, 3, 4}", Args="ArgsLive", Faults="FPost", **NOBYZ)
mc("core_thorough", Cmds="{1, 2, 3, 4}")
mc("strict_thorough", inv=STRICT, RepostAppends="FALSE", Cmds="{1, 2, 3, 4}", MaxByz=2)
mc("all_thorough", NV=2, Args="ArgsAll", InitSt="IMixed", Tampers="TPos", Faults="FCodes", Cmds="{1, 2, 3, 4}", **NOBYZ)
mc("sel_thorough", NV=2, Args="ArgsSel", Statuses="SAll", MaxChain=2, InitSt="IMixed", **NOBYZ, **NOTAMP, **NOFAULT)
LIVE = dict(inv="", props="Exited Terminates", spec="FairSpec", view=False, Policy='"live"', Args="ArgsLive", Faults="FApi", MaxFault=1,
            Cmds="{1, 2, 3, 4, 5}", RepostAppends="FALSE", **NOBYZ, **NOTAMP)
mc("live", **LIVE)
mc("ctl_live_D1", **dict(LIVE, RepostAppends="TRUE"))
mc("ctl_noAggVerify", inv="FetchWritesGood PoolSound", props="", Defect='"noAggVerify"', **NOBYZ)
mc("ctl_posTrust", inv="Robust", props="", Defect='"posTrust"', **NOBYZ)
mc("ctl_noReqSig", inv="StoreAuthentic", props="", Defect='"noReqSig"')
mc("ctl_delNoAuth", inv="", props="MCDeleteOnlyOwn", Defect='"delNoAuth"')
mc("ctl_noMatch", inv="StoreSameMsg", props="", Defect='"noMatch"', Args="ArgsEpoch")
mc("ctl_bcastNoVerify", inv="PoolSound", props="", Defect='"bcastNoVerify"', NV=2, Args="ArgsPlant", Plants="PSome", MaxPlant=1, **NOBYZ)
mc("ctl_D1_distinct", inv="StoreDistinct", props="")
mc("ctl_D1_enough", inv="EnoughIsEnough", props="")
mc("ctl_D1_threshold", inv="AnsweredOnlyAtThreshold", props="")

GBASE = dict(BASE, N=4, T=3, Cmds="{1, 2, 3, 4, 5, 6, 7}", Honest="{1, 2, 3}", ByzReqs="Byz4", MaxByz=2, Faults="FCodes", MaxFault=2,
             MaxTamper=2, GenLen=18)


def gen(name, **kw):
    d = dict(GBASE)
    d.update(kw)
    out = ["SPECIFICATION GenSpec", "CONSTANTS"] + [" %s %s %s" % (k, "<-" if k in OV else "=", v) for k, v in d.items()]
    out += ["INVARIANTS Emit", "CONSTRAINT Stop", "CHECK_DEADLOCK FALSE"]
    open("ExitFlowGen_%s.cfg" % name, "w").write("\n".join(out) + "\n")


gen("core")
gen("small", N=3, T=2, Honest="{1, 2}", ByzReqs="Byz3Out", GenLen=14)
gen("epoch", Args="ArgsEpoch")
gen("all", NV=2, Args="ArgsAll", InitSt="IMixed", Statuses="SAll", MaxChain=2, MaxByz=1, GenLen=22)
gen("file", NV=2, Args="ArgsFile", Plants="PSome", MaxPlant=2, Statuses="SExit", MaxChain=1, **NOBYZ)
gen("sel", NV=2, N=3, T=2, Args="ArgsSel", Statuses="SAll", MaxChain=2, InitSt="IMixed", GenLen=14, **NOBYZ)
