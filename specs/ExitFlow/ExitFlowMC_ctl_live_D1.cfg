SPECIFICATION FairSpec
CONSTANTS
 N = 3
 T = 2
 NV = 1
 Cmds = {1, 2, 3, 4, 5}
 RepostAppends = TRUE
 Defect = "none"
 Honest = {1, 2}
 Args <- ArgsLive
 ByzReqs <- ByzNone
 MaxByz = 0
 Faults <- FApi
 MaxFault = 1
 Tampers <- TNone
 MaxTamper = 0
 Plants <- PNone
 MaxPlant = 0
 Statuses <- SNone
 MaxChain = 0
 InitSt <- IActive
 Policy = "live"
PROPERTIES Exited Terminates
CHECK_DEADLOCK FALSE
