---- MODULE ExitFlowTrace ----
(* Trace validation for the exit flow.  harness/exitflow runs the real CLI commands against testutil/obolapimock and
   a beacon node front; every request of an operator's command is stopped at a gate and let through one at a time, so
   the log is the linearisation.  Events (all in the abstract terms of ExitFlow.tla, computed by observation functions
   that do not use the code under test):

     Reset  {sid, n, t, nv, st}                                  cluster shape, initial status of the validators
     Status {v, st}                                              the beacon chain moves
     Start  {c, op, kind, sel, v, iv, e, src, fv}                an operator's command line
     Api    {op, m, lock, share, by, v | blobs, f, status, code, raw, resp}
                                                                 a request at the API: op = 0 direct (Byzantine / outsider); what the
                                                                 server answered (status, raw), what the client was told (code, resp)
     Bn     {op, q: "vals", ids, sts, f, code, got} | {op, q: "submit", exit, f, code}
     Done   {c, ok, err, files, printed}                         the command returned; the operator's exit directory afterwards
     Plant  {op, v, sv, shares, e, iv, exit}                     a file appears in an operator's exit directory
     End                                                         every command has returned

   Start, Status, Plant, direct requests, faults and the delivered response are the environment's; everything else is
   bound to the design spec: the request must be the one the command has to make in the state the spec is in, the
   server's status code and response must be the ones of the spec's server, the result and the files must be the
   spec's.  There is no unlogged choice: validation is linear. *)
EXTENDS ExitFlow, TraceCommon
tvars == <<vars, tr, l>>
Cfg == Traces[tr][1]
TraceInit == TrInit /\ InitWith([v \in Vals |-> Traces[tr][1].st[v]])

Named(name, p) == IF p THEN TRUE ELSE InvFail(name)
Running(o) == {c \in Cmds : cmd[c].op = o /\ cmd[c].pc \notin {"idle", "done", "fin"}}
TheCmd(o) == CHOOSE c \in Running(o) : TRUE

ArgOf(e) == [kind |-> e.kind, sel |-> e.sel, v |-> e.v, iv |-> e.iv, e |-> e.e, src |-> e.src, fv |-> e.fv]
BlobOf(b) == [v |-> b.v, e |-> b.e, i |-> b.i, sv |-> b.sv, k |-> b.k]
TokOf(t) == [v |-> t.v, k |-> t.k, e |-> t.e, i |-> t.i]
RespOf(r) == [e |-> r.e, i |-> r.i, sigs |-> [j \in DOMAIN r.sigs |-> TokOf(r.sigs[j])]]
ExitOf(x) == [e |-> x.e, i |-> x.i, by |-> x.by]
\* the request as the front saw it
ReqOf(e) == [m |-> e.m, lock |-> IF Has(e, "lock") THEN e.lock ELSE FALSE,
             share |-> IF Has(e, "share") THEN e.share ELSE 0, by |-> IF Has(e, "by") THEN e.by ELSE 0,
             v |-> IF Has(e, "v") THEN e.v ELSE 0,
             blobs |-> IF Has(e, "blobs") THEN [j \in DOMAIN e.blobs |-> BlobOf(e.blobs[j])] ELSE <<>>,
             malformed |-> Has(e, "malformed"), noauth |-> Has(e, "noauth")]
Delivered(e) == IF Has(e, "resp") /\ e.f = "none" THEN RespOf(e.resp) ELSE NoResp

TReset == IsEvent("Reset") /\ l = 1 /\ UNCHANGED vars
TStatus == IsEvent("Status") /\ Ev.v \in Vals /\ SetStatus(Ev.v, Ev.st)
TStart == IsEvent("Start") /\ Ev.c \in Cmds /\ Start(Ev.c, Ev.op, ArgOf(Ev))

\* a request of an operator's command
TApiCmd == /\ IsEvent("Api") /\ Ev.op # 0
           /\ Named("UnexpectedRequest", Running(Ev.op) # {})
           /\ LET c == TheCmd(Ev.op)
                  want == ApiReq(c)
                  got == ReqOf(Ev)
                  res == Serve(store, present, want) IN
              /\ Named("UnexpectedApiRequest", cmd[c].pc \in {"s_post", "sa_post", "f_get", "b_get", "d_del"})
              /\ Named("ReqMethod", got.m = want.m)
              /\ Named("ReqLock", got.lock)
              /\ Named("ReqShareIndex", got.share = want.share)
              /\ Named("ReqSignature", got.by = want.by)
              /\ Named("ReqValidator", got.v = want.v)
              /\ Named("ReqBlobs", got.blobs = want.blobs)
              /\ Named("ApiStatus", Ev.f = "pre" \/ Ev.status = res.status)
              /\ Named("ApiResponse", IF Has(Ev, "raw") THEN RespOf(Ev.raw) = res.resp ELSE (Ev.f = "pre" \/ res.resp = NoResp))
              /\ Named("ClientCode", Ev.f # "none" \/ Ev.code = res.status)
              /\ ApiStep(c, Ev.f, Ev.code, Delivered(Ev))
\* a direct request
TApiByz == /\ IsEvent("Api") /\ Ev.op = 0
           /\ LET q == ReqOf(Ev) IN
              /\ Named("ByzStatus", Ev.status = Serve(store, present, q).status)
              /\ Byz(q)

IdsOf(e) == [pks |-> {e.ids[j].pk : j \in {h \in DOMAIN e.ids : Has(e.ids[h], "pk")}},
             ixs |-> {e.ids[j].ix : j \in {h \in DOMAIN e.ids : Has(e.ids[h], "ix")}},
             sts |-> SeqToSet(e.sts)]
TBnVals == /\ IsEvent("Bn") /\ Ev.q = "vals"
           /\ Named("UnexpectedRequest", Running(Ev.op) # {})
           /\ LET c == TheCmd(Ev.op) IN
              /\ Named("UnexpectedBeaconQuery", cmd[c].pc \in {"s_q1", "s_q2", "sa_q", "b_q", "l_q"})
              /\ Named("BeaconQuery", IdsOf(Ev) = BnQuery(c))
              /\ Named("BeaconAnswer", Ev.f # "none" \/ SeqToSet(Ev.got) = Answer(BnQuery(c)))
              /\ BnVals(c, IF Ev.f = "none" THEN "none" ELSE "err")
TBnSubmit == /\ IsEvent("Bn") /\ Ev.q = "submit"
             /\ Named("UnexpectedRequest", Running(Ev.op) # {})
             /\ LET c == TheCmd(Ev.op)
                    x == ExitOf(Ev.exit) IN
                /\ Named("UnexpectedSubmit", cmd[c].pc = "b_sub")
                /\ Named("SubmitUnverified", x.by \in cmd[c].todo)
                /\ Named("SubmitOther", cmd[c].got[x.by] = x)
                /\ BnSubmit(c, x.by, IF Ev.f = "none" THEN "none" ELSE "err")

FilesOf(e) == {<<e.files[j].v, ExitOf(e.files[j].exit)>> : j \in DOMAIN e.files}
TDone == /\ IsEvent("Done") /\ Ev.c \in Cmds
         /\ Named("EarlyReturn", cmd[Ev.c].pc = "fin")
         /\ Named("Result", cmd[Ev.c].any \/ Ev.ok = cmd[Ev.c].ok)
         /\ Named("Files", FilesOf(Ev) = {<<v, disk[cmd[Ev.c].op][v]>> : v \in {x \in Vals : disk[cmd[Ev.c].op][x] # NoExit}})
         /\ Named("Printed", IF cmd[Ev.c].kind = "list" /\ cmd[Ev.c].ok THEN SeqToSet(Ev.printed) = cmd[Ev.c].todo ELSE TRUE)
         /\ Finish(Ev.c)
TPlant == /\ IsEvent("Plant") /\ Ev.v \in Vals /\ Ev.sv \in Vals
          /\ Plant(Ev.op, Ev.v, Ev.sv, SeqToSet(Ev.shares), Ev.e, Ev.iv)
          /\ Named("PlantedExit", disk'[Ev.op][Ev.v] = ExitOf(Ev.exit))
TEnd == /\ IsEvent("End") /\ UNCHANGED vars
        /\ Named("AllReturned", \A c \in Cmds : cmd[c].pc \in {"idle", "done"})

TraceNext == TReset \/ TStatus \/ TStart \/ TApiCmd \/ TApiByz \/ TBnVals \/ TBnSubmit \/ TDone \/ TPlant \/ TEnd
TraceSpec == TraceInit /\ [][TraceNext]_tvars
Mark == /\ CheckInv("TypeOK", TypeOK) /\ CheckInv("StoreAuthentic", StoreAuthentic) /\ CheckInv("StoreSameMsg", StoreSameMsg)
        /\ CheckInv("ExitUnforgeable", ExitUnforgeable) /\ CheckInv("FetchWritesGood", FetchWritesGood)
        /\ CheckInv("PoolSound", PoolSound) /\ CheckInv("BcastVerifiedFirst", BcastVerifiedFirst) /\ CheckInv("SingleAtomic", SingleAtomic)
        /\ CheckInv("StoreDistinct", RepostAppends \/ StoreDistinct)
        /\ HWMark
====
