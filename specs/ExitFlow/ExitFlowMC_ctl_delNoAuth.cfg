SPECIFICATION MCSpec
CONSTANTS
 N = 3
 T = 2
 NV = 1
 Cmds = {1, 2, 3}
 RepostAppends = TRUE
 Defect = "delNoAuth"
 Honest = {1, 2}
 Args <- ArgsCore
 ByzReqs <- Byz3
 MaxByz = 1
 Faults <- FApi
 MaxFault = 1
 Tampers <- TAll
 MaxTamper = 1
 Plants <- PNone
 MaxPlant = 0
 Statuses <- SNone
 MaxChain = 0
 InitSt <- IActive
 Policy = "free"
PROPERTIES MCDeleteOnlyOwn
VIEW View
CHECK_DEADLOCK FALSE
