---- MODULE ExitFlowMC ----
(* Exhaustive design check of ExitFlow: every interleaving, at request granularity, of the commands the honest operators
   may start (Args), the direct requests of a Byzantine operator / outsider (ByzReqs, at most MaxByz), faults on
   requests (Faults, at most MaxFault), a tampering API (Tampers applied to full-exit responses, at most MaxTamper),
   planted exit files (Plants, at most MaxPlant) and status changes on the beacon chain (Statuses, at most MaxChain).  Commands are
   started in the order of their identifiers (symmetry).  All bounds are here, none in the actions. *)
EXTENDS ExitFlow
CONSTANTS Honest, Args, ByzReqs, MaxByz, Faults, MaxFault, Tampers, MaxTamper, Plants, MaxPlant, Statuses, MaxChain, InitSt, Policy
VARIABLES nbyz, nfault, ntamper, nplant, nchain
mcvars == <<vars, nbyz, nfault, ntamper, nplant, nchain>>
Budget == <<nbyz, nfault, ntamper, nplant, nchain>>

A(kind, sel, v, iv, e, src, fv) == [kind |-> kind, sel |-> sel, v |-> v, iv |-> iv, e |-> e, src |-> src, fv |-> fv]
Sign(v, e) == A("sign", "pk", v, 0, e, "-", 0)
SignIdx(iv, e) == A("sign", "idx", 0, iv, e, "-", 0)
SignBoth(v, iv, e) == A("sign", "both", v, iv, e, "-", 0)
SignAll(e) == A("sign", "all", 0, 0, e, "-", 0)
Fetch(v) == A("fetch", "pk", v, 0, 0, "-", 0)
FetchAll == A("fetch", "all", 0, 0, 0, "-", 0)
Bcast(v) == A("bcast", "pk", v, 0, 0, "api", 0)
BcastFile(v, fv) == A("bcast", "pk", v, 0, 0, "file", fv)
BcastAll == A("bcast", "all", 0, 0, 0, "api", 0)
BcastDir == A("bcast", "all", 0, 0, 0, "dir", 0)
Del(v) == A("delete", "pk", v, 0, 0, "-", 0)
DelAll == A("delete", "all", 0, 0, 0, "-", 0)
List == A("list", "-", 0, 0, 0, "-", 0)

ArgsCore == {Sign(1, 1), Fetch(1), Bcast(1), Del(1)}
ArgsEpoch == {Sign(1, 1), Sign(1, 2), Bcast(1), Del(1)}
ArgsAll == {SignAll(1), Sign(2, 1), FetchAll, BcastAll, DelAll}
ArgsFile == {Sign(1, 1), Fetch(1), BcastFile(1, 1), BcastDir}
ArgsSel == {SignIdx(1, 1), SignIdx(0, 1), SignIdx(-1, 1), SignBoth(1, 2, 1), Sign(1, 1), Sign(0, 1), Bcast(1), List}
ArgsLive == {Sign(1, 1), Bcast(1)}
ArgsPlant == {BcastFile(1, 1), BcastFile(2, 1), BcastDir}

\* direct requests of operator b (its own identity key and key shares), of b pretending to be operator 1, of an outsider
P(share, by, v, e, i, sv, k) == Req("POST", share, by, 0, <<[v |-> v, e |-> e, i |-> i, sv |-> sv, k |-> k]>>)
ByzB(b) == {P(b, b, 1, 1, 1, 1, b), P(b, b, 1, 2, 1, 1, b),         \* its partial, over epoch 1 / 2
            P(1, b, 1, 1, 1, 1, b),                                    \* under another share index
            P(1, b, 1, 1, 1, 1, 1),                                    \* a replay of operator 1's partial
            P(b, b, 1, 1, 1, 2, b),                                    \* its share of another validator
            Req("GET", b, b, 1, <<>>), Req("GET", 1, b, 1, <<>>),
            Req("DELETE", b, b, 1, <<>>), Req("DELETE", 1, b, 1, <<>>)}
ByzOut == {P(1, 0, 1, 1, 1, 1, 1), Req("GET", 1, 0, 1, <<>>), Req("DELETE", 1, 0, 1, <<>>),
           [Req("GET", 1, 0, 1, <<>>) EXCEPT !.noauth = TRUE]}
Byz3 == ByzB(3)
Byz4 == ByzB(4) \cup ByzOut
Byz3Out == ByzB(3) \cup ByzOut
ByzNone == {}

FNone == {}
FApi == {<<"pre", 500>>, <<"post", 500>>}
FCodes == {<<"pre", 500>>, <<"post", 500>>, <<"pre", 404>>, <<"pre", 409>>}
FPost == {<<"post", 500>>}

\* tampering with a full-exit response
Blank == [v |-> 0, k |-> -1, e |-> 0, i |-> 0]
Junk == [v |-> 0, k |-> 0, e |-> 0, i |-> 0]
DropAt(s, m) == [j \in 1..(Len(s) - 1) |-> IF j < m THEN s[j] ELSE s[j + 1]]
Tamper(kind, R) ==
  LET n == Len(R.sigs) IN
  CASE kind = "blank" -> [R EXCEPT !.sigs[1] = Blank]
    [] kind = "drop" -> [R EXCEPT !.sigs = DropAt(R.sigs, 1)]
    [] kind = "droplast" -> [R EXCEPT !.sigs = DropAt(R.sigs, n)]
    [] kind = "dup" -> [R EXCEPT !.sigs[n] = R.sigs[1]]
    [] kind = "rev" -> [R EXCEPT !.sigs = [j \in 1..n |-> R.sigs[n + 1 - j]]]
    [] kind = "junk" -> [R EXCEPT !.sigs[1] = Junk]
    [] kind = "epoch" -> [R EXCEPT !.e = 3 - R.e]
    [] kind = "index" -> [R EXCEPT !.i = 0]
    [] kind = "other" -> [R EXCEPT !.sigs[1] = [R.sigs[1] EXCEPT !.e = 3 - R.sigs[1].e]]     \* the same share's partial over the other epoch
    [] OTHER -> R
TNone == {}
TAll == {"blank", "drop", "droplast", "dup", "rev", "junk", "epoch", "index", "other"}
TPos == {"blank", "drop", "rev"}

PNone == {}
\* [o, v, sv, S, e, i]: a good exit, one of too few shares, another validator's exit under this name
PSome == {<<1, 1, 1, {1, 2}, 1, 1>>, <<1, 1, 1, {1}, 1, 1>>, <<1, 1, 2, {1, 2}, 1, 2>>, <<1, 2, 2, {1, 2}, 1, 2>>}

SNone == {}
SExit == {"active_ongoing", "exited_unslashed"}
SAll == {"none", "pending_queued", "active_ongoing"}
IActive == [v \in Vals |-> "active_ongoing"]
IMixed == [v \in Vals |-> IF v = 1 THEN "active_ongoing" ELSE "pending_queued"]

HasOK(o, kind) == \E c \in Cmds : cmd[c].op = o /\ cmd[c].kind = kind /\ cmd[c].pc \in {"fin", "done"} /\ cmd[c].ok
\* Policy "live": an operator signs until it succeeded once; operator 1 broadcasts once every honest operator has signed
StartOK(o, a) == CASE Policy = "free" -> TRUE
                   [] Policy = "live" -> IF a.kind = "sign" THEN ~HasOK(o, "sign")
                                         ELSE o = 1 /\ (\A p \in Honest : HasOK(p, "sign")) /\ ~HasOK(1, "bcast")

MCInit == InitWith(InitSt) /\ nbyz = 0 /\ nfault = 0 /\ ntamper = 0 /\ nplant = 0 /\ nchain = 0

First(c) == \A d \in Cmds : d < c => cmd[d].pc # "idle"
EnvStart == \E c \in Cmds : First(c) /\ \E o \in Honest : \E a \in Args : StartOK(o, a) /\ Start(c, o, a)
Deliver(c) == LET res == Served(c) IN IF res.status = 200 /\ ApiReq(c).m = "GET" THEN res.resp ELSE NoResp
\* what a command does when nothing interferes
Step(c) == \/ Finish(c) \/ BnVals(c, "none") \/ (\E v \in Vals : BnSubmit(c, v, "none"))
           \/ ApiStep(c, "none", 0, Deliver(c))
Steps == (\E c \in Cmds : Step(c)) /\ UNCHANGED Budget
Faulty == /\ nfault < MaxFault /\ nfault' = nfault + 1 /\ UNCHANGED <<nbyz, ntamper, nplant, nchain>>
          /\ \E c \in Cmds : \/ \E f \in Faults : ApiStep(c, f[1], f[2], NoResp)
                             \/ (Faults # {} /\ BnVals(c, "err"))
                             \/ (Faults # {} /\ \E v \in Vals : BnSubmit(c, v, "err"))
Tampering == /\ ntamper < MaxTamper /\ ntamper' = ntamper + 1 /\ UNCHANGED <<nbyz, nfault, nplant, nchain>>
             /\ \E c \in Cmds : Deliver(c) # NoResp /\ \E k \in Tampers : ApiStep(c, "none", 0, Tamper(k, Deliver(c)))
Byzantine == /\ nbyz < MaxByz /\ nbyz' = nbyz + 1 /\ UNCHANGED <<nfault, ntamper, nplant, nchain>>
             /\ \E q \in ByzReqs : Byz(q)
Planting == /\ nplant < MaxPlant /\ nplant' = nplant + 1 /\ UNCHANGED <<nbyz, nfault, ntamper, nchain>>
            /\ \E p \in Plants : p[2] \in Vals /\ p[3] \in Vals /\ Plant(p[1], p[2], p[3], p[4], p[5], p[6])
Chain == /\ nchain < MaxChain /\ nchain' = nchain + 1 /\ UNCHANGED <<nbyz, nfault, ntamper, nplant>>
         /\ \E v \in Vals : \E s \in Statuses : status[v] # s /\ SetStatus(v, s)

MCNext == (EnvStart /\ UNCHANGED Budget) \/ Steps \/ Faulty \/ Tampering \/ Byzantine \/ Planting \/ Chain
MCSpec == MCInit /\ [][MCNext]_mcvars
\* `last` is only read (primed) by the action properties, on the transition that sets it
View == <<store, present, status, pool, disk, cmd, produced, nbyz, nfault, ntamper, nplant, nchain>>

\* the action properties of ExitFlow are stated over vars; here the budgets are variables too
MCDeleteOnlyOwn == [][\A v \in Vals : \A k \in Ops : Cnt(store'[v], k) < Cnt(store[v], k) =>
                       (last'.m = "DELETE" /\ last'.v = v /\ last'.share = k /\ last'.by = k /\ Cnt(store'[v], k) = Cnt(store[v], k) - 1
                        /\ \A h \in Ops \ {k} : Cnt(store'[v], h) = Cnt(store[v], h))]_mcvars
MCRefusedNoEffect == [][(last' # last /\ last'.status \notin 200..299 /\ last'.m # "POST") => store' = store]_mcvars

\* GetFullExit's promise, over every response the tampering can make of every response the server can give
Robust == \A c \in Cmds : (cmd[c].pc \in {"f_get", "b_get"} /\ Deliver(c) # NoResp) =>
            \A k \in TAll \cup {"-"} : AggRobust(cmd[c].k, Tamper(k, Deliver(c)))
\* a full-exit request is only answered when at least threshold DISTINCT shares have a partial stored  -- NOT as coded (D1)
AnsweredOnlyAtThreshold == \A c \in Cmds : (cmd[c].pc \in {"f_get", "b_get"} /\ Deliver(c) # NoResp) =>
                             Cardinality({k \in Ops : Cnt(store[cmd[c].k], k) > 0}) >= T
\* with threshold many distinct shares stored and an API that does not tamper, a full-exit request yields the exit  -- NOT as coded (D1)
EnoughIsEnough == \A c \in Cmds : (cmd[c].pc \in {"f_get", "b_get"} /\ cmd[c].k \in Vals /\ Cardinality({k \in Ops : Cnt(store[cmd[c].k], k) > 0}) >= T)
                    => (Deliver(c) # NoResp /\ AggOK(cmd[c].k, Deliver(c)))

(* Liveness (Policy = "live", no Byzantine operator, finitely many faults): the exit reaches the beacon node. *)
Fair == /\ \A c \in Cmds : WF_mcvars(Step(c) /\ UNCHANGED Budget)
        /\ WF_mcvars(EnvStart /\ UNCHANGED Budget)
FairSpec == MCSpec /\ Fair
Exited == <>(\E p \in pool : p.v = 1)
Terminates == \A c \in Cmds : (cmd[c].pc \notin {"idle", "done"}) ~> (cmd[c].pc = "done")
====
