SPECIFICATION MCSpec
CONSTANTS
 N = 3
 T = 2
 NV = 2
 Cmds = {1, 2, 3}
 RepostAppends = TRUE
 Defect = "bcastNoVerify"
 Honest = {1, 2}
 Args <- ArgsPlant
 ByzReqs <- ByzNone
 MaxByz = 0
 Faults <- FApi
 MaxFault = 1
 Tampers <- TAll
 MaxTamper = 1
 Plants <- PSome
 MaxPlant = 1
 Statuses <- SNone
 MaxChain = 0
 InitSt <- IActive
 Policy = "free"
INVARIANTS PoolSound
VIEW View
CHECK_DEADLOCK FALSE
