SPECIFICATION GenSpec
CONSTANTS
 N = 3
 T = 2
 NV = 2
 Cmds = {1, 2, 3, 4, 5, 6, 7}
 RepostAppends = TRUE
 Defect = "none"
 Honest = {1, 2, 3}
 Args <- ArgsSel
 ByzReqs <- ByzNone
 MaxByz = 0
 Faults <- FCodes
 MaxFault = 2
 Tampers <- TAll
 MaxTamper = 2
 Plants <- PNone
 MaxPlant = 0
 Statuses <- SAll
 MaxChain = 2
 InitSt <- IMixed
 Policy = "free"
 GenLen = 14
INVARIANTS Emit
CONSTRAINT Stop
CHECK_DEADLOCK FALSE
