// Copyright © 2022-2026 Obol Labs Inc. Licensed under the terms of a Business Source License 1.1

//go:build verif

package core

import (
	"context"

	eth2api "github.com/attestantio/go-eth2-client/api"
	eth2spec "github.com/attestantio/go-eth2-client/spec"
	"github.com/attestantio/go-eth2-client/spec/altair"
	eth2p0 "github.com/attestantio/go-eth2-client/spec/phase0"
)

// This file only exists with the build tag "verif". wireFuncs is unexported, so a wire option that observes the
// data-carrying edges of the core workflow (the same edges WithTracking and WithTracing wrap) cannot be written
// outside this package. It changes nothing: every wrapped function calls the function it wraps with the very
// same arguments and returns its results.

// VerifQuery is the argument handed to the observer for the query edges (DutyDB.Await*, AggSigDB.Await): the
// arguments of the query and, after it returned, its result.
type VerifQuery struct {
	CommIdx    uint64
	SubcommIdx uint64
	Root       eth2p0.Root
	PubKey     PubKey
	Result     any
}

// VerifCallSuffix is appended to the edge name when the observer is invoked BEFORE the wrapped call.
const VerifCallSuffix = ":call"

// VerifWithObserver returns a wire option that reports every call across a data-carrying edge of the core workflow
// to obs: once before the wrapped function is called (edge name with VerifCallSuffix, err is nil) and once AFTER it
// returned (plain edge name, err is what it returned; also on the error path).  The query edges are reported per
// consumer (validator API / fetcher) and only after they returned.  The arguments are handed over as they are:
// the observer must not modify them and must clone what it keeps.
func VerifWithObserver(obs func(edge string, duty Duty, arg any, err error)) WireOption {
	return func(w *wireFuncs) {
		clone := *w

		w.FetcherFetch = func(ctx context.Context, duty Duty, set DutyDefinitionSet) error {
			obs("FetcherFetch"+VerifCallSuffix, duty, set, nil)
			err := clone.FetcherFetch(ctx, duty, set)
			obs("FetcherFetch", duty, set, err)

			return err
		}
		w.ConsensusParticipate = func(ctx context.Context, duty Duty) error {
			obs("ConsensusParticipate"+VerifCallSuffix, duty, nil, nil)
			err := clone.ConsensusParticipate(ctx, duty)
			obs("ConsensusParticipate", duty, nil, err)

			return err
		}
		w.ConsensusPropose = func(ctx context.Context, duty Duty, set UnsignedDataSet) error {
			obs("ConsensusPropose"+VerifCallSuffix, duty, set, nil)
			err := clone.ConsensusPropose(ctx, duty, set)
			obs("ConsensusPropose", duty, set, err)

			return err
		}
		w.DutyDBStore = func(ctx context.Context, duty Duty, set UnsignedDataSet) error {
			obs("DutyDBStore"+VerifCallSuffix, duty, set, nil)
			err := clone.DutyDBStore(ctx, duty, set)
			obs("DutyDBStore", duty, set, err)

			return err
		}
		w.ParSigDBStoreInternal = func(ctx context.Context, duty Duty, set ParSignedDataSet) error {
			obs("ParSigDBStoreInternal"+VerifCallSuffix, duty, set, nil)
			err := clone.ParSigDBStoreInternal(ctx, duty, set)
			obs("ParSigDBStoreInternal", duty, set, err)

			return err
		}
		w.ParSigExBroadcast = func(ctx context.Context, duty Duty, set ParSignedDataSet) error {
			obs("ParSigExBroadcast"+VerifCallSuffix, duty, set, nil)
			err := clone.ParSigExBroadcast(ctx, duty, set)
			obs("ParSigExBroadcast", duty, set, err)

			return err
		}
		w.ParSigDBStoreExternal = func(ctx context.Context, duty Duty, set ParSignedDataSet) error {
			obs("ParSigDBStoreExternal"+VerifCallSuffix, duty, set, nil)
			err := clone.ParSigDBStoreExternal(ctx, duty, set)
			obs("ParSigDBStoreExternal", duty, set, err)

			return err
		}
		w.SigAggAggregate = func(ctx context.Context, duty Duty, set map[PubKey][]ParSignedData) error {
			obs("SigAggAggregate"+VerifCallSuffix, duty, set, nil)
			err := clone.SigAggAggregate(ctx, duty, set)
			obs("SigAggAggregate", duty, set, err)

			return err
		}
		w.AggSigDBStore = func(ctx context.Context, duty Duty, set SignedDataSet) error {
			obs("AggSigDBStore"+VerifCallSuffix, duty, set, nil)
			err := clone.AggSigDBStore(ctx, duty, set)
			obs("AggSigDBStore", duty, set, err)

			return err
		}
		w.BroadcasterBroadcast = func(ctx context.Context, duty Duty, set SignedDataSet) error {
			obs("BroadcasterBroadcast"+VerifCallSuffix, duty, set, nil)
			err := clone.BroadcasterBroadcast(ctx, duty, set)
			obs("BroadcasterBroadcast", duty, set, err)

			return err
		}

		// Query edges: what Wire hands to the Register* functions is wrapped per consumer.
		w.VAPIRegisterAwaitProposal = func(fn func(ctx context.Context, slot uint64) (*eth2api.VersionedProposal, error)) {
			clone.VAPIRegisterAwaitProposal(func(ctx context.Context, slot uint64) (*eth2api.VersionedProposal, error) {
				res, err := fn(ctx, slot)
				obs("DutyDBAwaitProposal", NewProposerDuty(slot), VerifQuery{Result: res}, err)

				return res, err
			})
		}
		w.VAPIRegisterAwaitAttestation = func(fn func(ctx context.Context, slot, commIdx uint64) (*eth2p0.AttestationData, error)) {
			clone.VAPIRegisterAwaitAttestation(func(ctx context.Context, slot, commIdx uint64) (*eth2p0.AttestationData, error) {
				res, err := fn(ctx, slot, commIdx)
				obs("DutyDBAwaitAttestation", NewAttesterDuty(slot), VerifQuery{CommIdx: commIdx, Result: res}, err)

				return res, err
			})
		}
		w.VAPIRegisterAwaitSyncContribution = func(fn func(ctx context.Context, slot, subcommIdx uint64, beaconBlockRoot eth2p0.Root) (*altair.SyncCommitteeContribution, error)) {
			clone.VAPIRegisterAwaitSyncContribution(func(ctx context.Context, slot, subcommIdx uint64, beaconBlockRoot eth2p0.Root) (*altair.SyncCommitteeContribution, error) {
				res, err := fn(ctx, slot, subcommIdx, beaconBlockRoot)
				obs("DutyDBAwaitSyncContribution", NewSyncContributionDuty(slot), VerifQuery{SubcommIdx: subcommIdx, Root: beaconBlockRoot, Result: res}, err)

				return res, err
			})
		}
		w.VAPIRegisterAwaitAggAttestation = func(fn func(ctx context.Context, slot uint64, attestationRoot eth2p0.Root, committeeIndex eth2p0.CommitteeIndex) (*eth2spec.VersionedAttestation, error)) {
			clone.VAPIRegisterAwaitAggAttestation(func(ctx context.Context, slot uint64, attestationRoot eth2p0.Root, committeeIndex eth2p0.CommitteeIndex) (*eth2spec.VersionedAttestation, error) {
				res, err := fn(ctx, slot, attestationRoot, committeeIndex)
				obs("DutyDBAwaitAggAttestation", NewAggregatorDuty(slot), VerifQuery{CommIdx: uint64(committeeIndex), Root: attestationRoot, Result: res}, err)

				return res, err
			})
		}
		w.VAPIRegisterAwaitAggSigDB = func(fn func(context.Context, Duty, PubKey, SubcommitteeIndex) (SignedData, error)) {
			clone.VAPIRegisterAwaitAggSigDB(func(ctx context.Context, duty Duty, pubkey PubKey, subcommIdx SubcommitteeIndex) (SignedData, error) {
				res, err := fn(ctx, duty, pubkey, subcommIdx)
				obs("VAPIAggSigDBAwait", duty, VerifQuery{SubcommIdx: uint64(subcommIdx), PubKey: pubkey, Result: res}, err)

				return res, err
			})
		}
		w.FetcherRegisterAggSigDB = func(fn func(context.Context, Duty, PubKey, SubcommitteeIndex) (SignedData, error)) {
			clone.FetcherRegisterAggSigDB(func(ctx context.Context, duty Duty, pubkey PubKey, subcommIdx SubcommitteeIndex) (SignedData, error) {
				res, err := fn(ctx, duty, pubkey, subcommIdx)
				obs("FetcherAggSigDBAwait", duty, VerifQuery{SubcommIdx: uint64(subcommIdx), PubKey: pubkey, Result: res}, err)

				return res, err
			})
		}
		w.FetcherRegisterAwaitAttData = func(fn func(ctx context.Context, slot uint64, commIdx uint64) (*eth2p0.AttestationData, error)) {
			clone.FetcherRegisterAwaitAttData(func(ctx context.Context, slot, commIdx uint64) (*eth2p0.AttestationData, error) {
				res, err := fn(ctx, slot, commIdx)
				obs("FetcherAwaitAttData", NewAttesterDuty(slot), VerifQuery{CommIdx: commIdx, Result: res}, err)

				return res, err
			})
		}
	}
}
