// Copyright © 2022-2026 Obol Labs Inc. Licensed under the terms of a Business Source License 1.1

//go:build verif

package parsigex

import (
	"context"

	"github.com/libp2p/go-libp2p/core/peer"
	"google.golang.org/protobuf/proto"
)

// This file only exists with the build tag "verif". It exports the unexported libp2p request handler of the
// partial signature exchange so that the model-based conformance harness can drive it synchronously with
// crafted protobufs, exactly as the stream handler registered by NewParSigEx would.

// VerifHandle calls the parsigex request handler as if req was received from sender.
func (m *ParSigEx) VerifHandle(ctx context.Context, sender peer.ID, req proto.Message) (proto.Message, bool, error) {
	return m.handle(ctx, sender, req)
}
