// Copyright © 2022-2026 Obol Labs Inc. Licensed under the terms of a Business Source License 1.1

//go:build verif

package consensus

import (
	"context"

	"github.com/obolnetwork/charon/core"
)

// This file only exists with the build tag "verif". It lets the model-based conformance harness build the consensus
// controller (and with it the consensusWrapper behind CurrentConsensus) around an arbitrary core.Consensus, so that the
// controller's and the wrapper's own logic can be driven with stub protocol implementations and without a libp2p host.

// VerifNewController returns a consensusController exactly as NewConsensusController assembles it, except that the
// default consensus is the given one instead of a freshly built qbft component. It also returns the SetImpl method of
// the wrapper behind CurrentConsensus() (what a future protocol switch calls) and a setter for the cancel function of
// the wrapped (non-default) consensus' context, the state such a switch leaves behind for Start's shutdown goroutine.
func VerifNewController(defaultConsensus core.Consensus, debugger Debugger) (
	core.ConsensusController, func(core.Consensus), func(context.CancelFunc),
) {
	f := &consensusController{
		debugger:         debugger,
		defaultConsensus: defaultConsensus,
		wrappedConsensus: newConsensusWrapper(defaultConsensus),
	}

	setCancel := func(cancel context.CancelFunc) {
		f.mutable.Lock()
		defer f.mutable.Unlock()

		f.mutable.cancelWrappedCtx = cancel
	}

	return f, f.wrappedConsensus.SetImpl, setCancel
}
