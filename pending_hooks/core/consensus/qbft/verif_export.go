// Copyright © 2022-2026 Obol Labs Inc. Licensed under the terms of a Business Source License 1.1

//go:build verif

package qbft

import (
	"context"

	"github.com/libp2p/go-libp2p/core/peer"
	"google.golang.org/protobuf/proto"

	"github.com/obolnetwork/charon/core"
)

// This file only exists with the build tag "verif". It exports the unexported wire-message handler of the
// consensus component (and read-only views of its per-duty state) so that the model-based conformance
// harness can drive it synchronously with crafted protobufs, exactly as the libp2p stream handler
// registered in Start would.

// VerifHandle calls the consensus wire-message handler as if req was received from pID.
func (c *Consensus) VerifHandle(ctx context.Context, pID peer.ID, req proto.Message) (proto.Message, bool, error) {
	return c.handle(ctx, pID, req)
}

// VerifRecvBufferLen returns the number of messages waiting in the duty's outer receive buffer
// (-1 if the duty has no instance). It does not create the instance.
func (c *Consensus) VerifRecvBufferLen(duty core.Duty) int {
	c.mutable.Lock()
	defer c.mutable.Unlock()

	inst, ok := c.mutable.instances[duty]
	if !ok {
		return -1
	}

	return len(inst.RecvBuffer)
}

// VerifRecvBufferTotal returns the number of messages waiting in the outer receive buffers of all duties.
func (c *Consensus) VerifRecvBufferTotal() int {
	c.mutable.Lock()
	defer c.mutable.Unlock()

	var total int
	for _, inst := range c.mutable.instances {
		total += len(inst.RecvBuffer)
	}

	return total
}

// VerifInstanceCount returns the number of duties that have an instance.
func (c *Consensus) VerifInstanceCount() int {
	c.mutable.Lock()
	defer c.mutable.Unlock()

	return len(c.mutable.instances)
}

// VerifHashProto returns the hash the component signs (messages) and agrees on (values).
func VerifHashProto(msg proto.Message) ([32]byte, error) {
	return hashProto(msg)
}
